// Package c16 drives the slice, mapx and pair helpers with the cases of the C16
// correspondence check.  One call per input line, one observable line per call:
// the results followed by the contents of every slice argument after the call.
//
//	case:  <ty> <Func> <args...>     ty = i (elements are int) | s (elements are strings; int n <-> enc(n))
//	slice: nil | [] | [1,2,3]    pairs: nil | [] | [1:2,3:4]    flat: nil | [] | [1,x,3]
//	pred:  eq:C lt:C even odd true false idxlt:C idxeven    mapf: add:C mul:C const:C idx idxadd rem3
//	equal: eq mod3 le lt
//	ty may carry a layout "@off,spare": every slice argument then sits at offset `off` of its own
//	backing array and has `spare` cells of capacity behind it (sentinel values in all extra cells).
//
// After " | " the memory observables follow: for every result slice "r@nil", "r@empty" (cap 0),
// "r@<k>+<cell offset>,<len>,<cap>" when its first cell lies inside the backing array of argument k,
// "r@new,<len>" otherwise; then the whole backing array of every slice argument, cell by cell.
//
// Results from Go map iteration are printed in the order obtained, inside {...}; the check
// script sorts them.
package c16

import (
	"bufio"
	"fmt"
	"math"
	"os"
	"strconv"
	"strings"
	"unsafe"

	"github.com/ecodeclub/ekit/mapx"
	"github.com/ecodeclub/ekit/slice"
	"github.com/ecodeclub/ekit/tuple/pair"
	"verifharness/reg"
)

func init() { reg.Register("c16", Main) }

type codec[T comparable] struct {
	enc func(int) T
	dec func(T) int
}

var intCodec = codec[int]{enc: func(i int) int { return i }, dec: func(i int) int { return i }}

// 0 <-> "" (the zero values correspond), n <-> "s<n>" otherwise
var strCodec = codec[string]{
	enc: func(i int) string {
		if i == 0 {
			return ""
		}
		return "s" + strconv.Itoa(i)
	},
	dec: func(s string) int {
		if s == "" {
			return 0
		}
		n, err := strconv.Atoi(s[1:])
		if err != nil {
			panic("harness: bad string element " + s)
		}
		return n
	},
}

type bad struct{ reason string }

func atoi(s string) int {
	n, err := strconv.Atoi(s)
	if err != nil {
		panic(bad{"int " + s})
	}
	return n
}

func items(s string) []string {
	if len(s) < 2 || s[0] != '[' || s[len(s)-1] != ']' {
		panic(bad{"list " + s})
	}
	s = s[1 : len(s)-1]
	if s == "" {
		return []string{}
	}
	return strings.Split(s, ",")
}

// mkSlice builds the slice with len == cap + spare, so that append's behaviour is determined
func mkSlice[T comparable](c codec[T], s string, spare int) []T {
	if s == "nil" {
		return nil
	}
	it := items(s)
	res := make([]T, len(it), len(it)+spare)
	for i, x := range it {
		res[i] = c.enc(atoi(x))
	}
	return res
}

// ---- memory observables ----
type argInfo struct {
	lo, hi uintptr
	dump   func() string
}
type resInfo struct {
	ptr   uintptr
	n, c  int
	isNil bool
	size  uintptr
}
type memrec struct {
	args []argInfo
	res  []resInfo
}

func sentinel(k, i int) int { return -(1000*(k+1) + i) }

// mkArg builds argument number len(rec.args): off sentinel cells, the elements, spare sentinel cells
func mkArg[T comparable](c codec[T], rec *memrec, s string, off, spare int) []T {
	k := len(rec.args)
	if s == "nil" {
		rec.args = append(rec.args, argInfo{dump: func() string { return "A" + strconv.Itoa(k) + "[]" }})
		return nil
	}
	it := items(s)
	full := make([]T, off+len(it)+spare)
	for i := 0; i < off; i++ {
		full[i] = c.enc(sentinel(k, i))
	}
	for i, x := range it {
		full[off+i] = c.enc(atoi(x))
	}
	for i := 0; i < spare; i++ {
		full[off+len(it)+i] = c.enc(sentinel(k, off+i))
	}
	a := argInfo{dump: func() string { return showInts("A"+strconv.Itoa(k)+"[", "]", "", false, decAll(c, full)) }}
	if len(full) > 0 {
		a.lo = uintptr(unsafe.Pointer(&full[0]))
		a.hi = a.lo + uintptr(len(full))*unsafe.Sizeof(full[0])
	}
	rec.args = append(rec.args, a)
	return full[off : off+len(it) : off+len(it)+spare]
}

func note[E any](rec *memrec, r []E) {
	var z E
	rec.res = append(rec.res, resInfo{ptr: uintptr(unsafe.Pointer(unsafe.SliceData(r))), n: len(r), c: cap(r),
		isNil: r == nil, size: unsafe.Sizeof(z)})
}

func (rec *memrec) String() string {
	if len(rec.args) == 0 && len(rec.res) == 0 {
		return ""
	}
	parts := []string{}
	for _, r := range rec.res {
		switch {
		case r.isNil:
			parts = append(parts, "r@nil")
		case r.c == 0:
			parts = append(parts, "r@empty")
		default:
			d := "r@new," + strconv.Itoa(r.n)
			for k, a := range rec.args {
				if a.lo != a.hi && r.ptr >= a.lo && r.ptr < a.hi {
					d = fmt.Sprintf("r@%d+%d,%d,%d", k, (r.ptr-a.lo)/r.size, r.n, r.c)
				}
			}
			parts = append(parts, d)
		}
	}
	for _, a := range rec.args {
		parts = append(parts, a.dump())
	}
	return " | " + strings.Join(parts, " ")
}

func mkPairs[T comparable](c codec[T], s string) []pair.Pair[T, T] {
	if s == "nil" {
		return nil
	}
	it := items(s)
	res := make([]pair.Pair[T, T], len(it))
	for i, x := range it {
		kv := strings.Split(x, ":")
		if len(kv) != 2 {
			panic(bad{"pair " + x})
		}
		res[i] = pair.Pair[T, T]{Key: c.enc(atoi(kv[0])), Value: c.enc(atoi(kv[1]))}
	}
	return res
}

// a Go map built by assigning the pairs in order (nil stays a nil map)
func mkMap[T comparable](c codec[T], s string) map[T]T {
	if s == "nil" {
		return nil
	}
	m := map[T]T{}
	for _, p := range mkPairs(c, s) {
		m[p.Key] = p.Value
	}
	return m
}

type notAnInt struct{}

func mkFlat[T comparable](c codec[T], s string) []any {
	if s == "nil" {
		return nil
	}
	it := items(s)
	res := make([]any, len(it))
	for i, x := range it {
		if x == "x" {
			res[i] = notAnInt{}
		} else {
			res[i] = c.enc(atoi(x))
		}
	}
	return res
}

func evalPred(p string, idx, v int) bool {
	k := strings.Split(p, ":")
	if want := map[string]int{"eq": 2, "lt": 2, "idxlt": 2}[k[0]]; (want == 2) != (len(k) == 2) || len(k) > 2 {
		panic(bad{"pred " + p})
	}
	switch k[0] {
	case "eq":
		return v == atoi(k[1])
	case "lt":
		return v < atoi(k[1])
	case "even":
		return v%2 == 0
	case "odd":
		return v%2 != 0
	case "true":
		return true
	case "false":
		return false
	case "idxlt":
		return idx < atoi(k[1])
	case "idxeven":
		return idx%2 == 0
	}
	panic(bad{"pred " + p})
}

func checkPred(p string) { evalPred(p, 0, 0) }

func evalMapf(f string, idx, v int) int {
	k := strings.Split(f, ":")
	if want := map[string]int{"add": 2, "mul": 2, "const": 2}[k[0]]; (want == 2) != (len(k) == 2) || len(k) > 2 {
		panic(bad{"mapf " + f})
	}
	switch k[0] {
	case "add":
		return v + atoi(k[1])
	case "mul":
		return v * atoi(k[1])
	case "const":
		return atoi(k[1])
	case "idx":
		return idx
	case "idxadd":
		return idx + v
	case "rem3":
		return v % 3
	}
	panic(bad{"mapf " + f})
}

func evalEq(e string, a, b int) bool {
	switch e {
	case "eq":
		return a == b
	case "mod3":
		return a%3 == b%3
	case "le":
		return a <= b
	case "lt":
		return a < b
	}
	panic(bad{"equal " + e})
}

func showInts(open, cl, nilS string, isNil bool, xs []int) string {
	if isNil {
		return nilS
	}
	var sb strings.Builder
	sb.WriteString(open)
	for i, x := range xs {
		if i > 0 {
			sb.WriteByte(',')
		}
		sb.WriteString(strconv.Itoa(x))
	}
	sb.WriteString(cl)
	return sb.String()
}

func decAll[T comparable](c codec[T], xs []T) []int {
	res := make([]int, len(xs))
	for i, x := range xs {
		res[i] = c.dec(x)
	}
	return res
}

func showSlice[T comparable](c codec[T], xs []T) string {
	return showInts("[", "]", "nil", xs == nil, decAll(c, xs))
}
func showSet[T comparable](c codec[T], xs []T) string {
	return showInts("{", "}", "{nil}", xs == nil, decAll(c, xs))
}
func showIdx(xs []int) string { return showInts("[", "]", "nil", xs == nil, xs) }

func showKV(open, cl, nilS string, isNil bool, ks, vs []int) string {
	if isNil {
		return nilS
	}
	var sb strings.Builder
	sb.WriteString(open)
	for i := range ks {
		if i > 0 {
			sb.WriteByte(',')
		}
		sb.WriteString(strconv.Itoa(ks[i]))
		sb.WriteByte(':')
		sb.WriteString(strconv.Itoa(vs[i]))
	}
	sb.WriteString(cl)
	return sb.String()
}

func showPairs[T comparable](c codec[T], ps []pair.Pair[T, T]) string {
	ks, vs := make([]int, len(ps)), make([]int, len(ps))
	for i, p := range ps {
		ks[i], vs[i] = c.dec(p.Key), c.dec(p.Value)
	}
	return showKV("<", ">", "<nil>", ps == nil, ks, vs)
}

func showMap[T comparable](c codec[T], m map[T]T) string {
	ks, vs := []int{}, []int{}
	for k, v := range m {
		ks, vs = append(ks, c.dec(k)), append(vs, c.dec(v))
	}
	return showKV("m{", "}", "mnil", m == nil, ks, vs)
}

func showFlat[T comparable](c codec[T], fl []any) string {
	if fl == nil {
		return "fnil"
	}
	parts := make([]string, len(fl))
	for i, x := range fl {
		if v, ok := x.(T); ok {
			parts[i] = strconv.Itoa(c.dec(v))
		} else {
			parts[i] = "x"
		}
	}
	return "f[" + strings.Join(parts, ",") + "]"
}

func showBool(b bool) string {
	if b {
		return "b:1"
	}
	return "b:0"
}
func showInt(i int) string { return "i:" + strconv.Itoa(i) }
func showErr(err error) string {
	if strings.Contains(err.Error(), "下标超出范围") {
		return "err:index"
	}
	return "err:other"
}

// catch runs f and maps a run-time panic of the library to the observable "panic"
func catch(f func() string) (res string) {
	defer func() {
		if r := recover(); r != nil {
			if b, ok := r.(bad); ok {
				panic(b)
			}
			res = "panic"
		}
	}()
	return f()
}

func runCase[T comparable](c codec[T], w []string, off, spare int) string {
	rec := &memrec{}
	return runCall(c, w, off, spare, rec) + rec.String()
}

func runCall[T comparable](c codec[T], w []string, off, spare int, rec *memrec) string {
	need := func(n int) {
		if len(w) != n+1 {
			panic(bad{"arity"})
		}
	}
	sl := func(s string) []T { return mkArg(c, rec, s, off, spare) }
	eq := func(e string) func(a, b T) bool {
		evalEq(e, 0, 0)
		return func(a, b T) bool { return evalEq(e, c.dec(a), c.dec(b)) }
	}
	mt := func(p string) func(v T) bool {
		checkPred(p)
		return func(v T) bool { return evalPred(p, 0, c.dec(v)) }
	}
	ss := func(xs []T) string { return showSlice(c, xs) }
	switch w[0] {
	case "UnionSet", "IntersectSet", "DiffSet", "SymmetricDiffSet":
		need(2)
		a, b := sl(w[1]), sl(w[2])
		var r []T
		switch w[0] {
		case "UnionSet":
			r = slice.UnionSet(a, b)
		case "IntersectSet":
			r = slice.IntersectSet(a, b)
		case "DiffSet":
			r = slice.DiffSet(a, b)
		default:
			r = slice.SymmetricDiffSet(a, b)
		}
		note(rec, r)
		return showSet(c, r) + " " + ss(a) + " " + ss(b)
	case "ContainsAny", "ContainsAll":
		need(2)
		a, b := sl(w[1]), sl(w[2])
		var r bool
		if w[0] == "ContainsAny" {
			r = slice.ContainsAny(a, b)
		} else {
			r = slice.ContainsAll(a, b)
		}
		return showBool(r) + " " + ss(a) + " " + ss(b)
	case "UnionSetFunc", "IntersectSetFunc", "DiffSetFunc", "SymmetricDiffSetFunc":
		need(3)
		e, a, b := eq(w[1]), sl(w[2]), sl(w[3])
		var r []T
		switch w[0] {
		case "UnionSetFunc":
			r = slice.UnionSetFunc(a, b, e)
		case "IntersectSetFunc":
			r = slice.IntersectSetFunc(a, b, e)
		case "DiffSetFunc":
			r = slice.DiffSetFunc(a, b, e)
		default:
			r = slice.SymmetricDiffSetFunc(a, b, e)
		}
		note(rec, r)
		return ss(r) + " " + ss(a) + " " + ss(b)
	case "ContainsAnyFunc", "ContainsAllFunc":
		need(3)
		e, a, b := eq(w[1]), sl(w[2]), sl(w[3])
		var r bool
		if w[0] == "ContainsAnyFunc" {
			r = slice.ContainsAnyFunc(a, b, e)
		} else {
			r = slice.ContainsAllFunc(a, b, e)
		}
		return showBool(r) + " " + ss(a) + " " + ss(b)
	case "Contains":
		need(2)
		a := sl(w[1])
		return showBool(slice.Contains(a, c.enc(atoi(w[2])))) + " " + ss(a)
	case "ContainsFunc":
		need(2)
		a := sl(w[1])
		return showBool(slice.ContainsFunc(a, mt(w[2]))) + " " + ss(a)
	case "Index", "LastIndex":
		need(2)
		a, x := sl(w[1]), c.enc(atoi(w[2]))
		return catch(func() string {
			if w[0] == "Index" {
				return showInt(slice.Index(a, x))
			}
			return showInt(slice.LastIndex(a, x))
		}) + " " + ss(a)
	case "IndexFunc", "LastIndexFunc":
		need(2)
		a, p := sl(w[1]), mt(w[2])
		return catch(func() string {
			if w[0] == "IndexFunc" {
				return showInt(slice.IndexFunc(a, p))
			}
			return showInt(slice.LastIndexFunc(a, p))
		}) + " " + ss(a)
	case "IndexAll":
		need(2)
		a := sl(w[1])
		r := slice.IndexAll(a, c.enc(atoi(w[2])))
		note(rec, r)
		return showIdx(r) + " " + ss(a)
	case "IndexAllFunc":
		need(2)
		a := sl(w[1])
		r := slice.IndexAllFunc(a, mt(w[2]))
		note(rec, r)
		return showIdx(r) + " " + ss(a)
	case "Find":
		need(2)
		a := sl(w[1])
		v, ok := slice.Find(a, mt(w[2]))
		return showInt(c.dec(v)) + " " + showBool(ok) + " " + ss(a)
	case "FindAll":
		need(2)
		a := sl(w[1])
		r := slice.FindAll(a, mt(w[2]))
		note(rec, r)
		return ss(r) + " " + ss(a)
	case "FilterMap":
		need(3)
		a, f, p := sl(w[1]), w[2], w[3]
		evalMapf(f, 0, 0)
		checkPred(p)
		r := slice.FilterMap(a, func(idx int, s T) (T, bool) {
			return c.enc(evalMapf(f, idx, c.dec(s))), evalPred(p, idx, c.dec(s))
		})
		note(rec, r)
		return ss(r) + " " + ss(a)
	case "Map":
		need(2)
		a, f := sl(w[1]), w[2]
		evalMapf(f, 0, 0)
		r := slice.Map(a, func(idx int, s T) T { return c.enc(evalMapf(f, idx, c.dec(s))) })
		note(rec, r)
		return ss(r) + " " + ss(a)
	case "ToMap":
		need(2)
		a, f := sl(w[1]), w[2]
		evalMapf(f, 0, 0)
		r := slice.ToMap(a, func(e T) T { return c.enc(evalMapf(f, 0, c.dec(e))) })
		return showMap(c, r) + " " + ss(a)
	case "ToMapV":
		need(3)
		a, fk, fv := sl(w[1]), w[2], w[3]
		evalMapf(fk, 0, 0)
		evalMapf(fv, 0, 0)
		r := slice.ToMapV(a, func(e T) (T, T) {
			return c.enc(evalMapf(fk, 0, c.dec(e))), c.enc(evalMapf(fv, 0, c.dec(e)))
		})
		return showMap(c, r) + " " + ss(a)
	case "Reverse":
		need(1)
		a := sl(w[1])
		return catch(func() string { r := slice.Reverse(a); note(rec, r); return ss(r) }) + " " + ss(a)
	case "ReverseSelf":
		need(1)
		a := sl(w[1])
		return catch(func() string { slice.ReverseSelf(a); return ss(a) })
	case "Delete":
		need(2)
		a, i := sl(w[1]), atoi(w[2])
		return catch(func() string {
			r, err := slice.Delete(a, i)
			if err == nil {
				note(rec, r)
			}
			if err != nil {
				return ss(r) + " " + showErr(err) + " " + ss(a)
			}
			return ss(r) + " " + ss(a)
		})
	case "FilterDelete":
		need(2)
		a, p := sl(w[1]), w[2]
		checkPred(p)
		return catch(func() string {
			r := slice.FilterDelete(a, func(idx int, s T) bool { return evalPred(p, idx, c.dec(s)) })
			note(rec, r)
			return ss(r) + " " + ss(a)
		})
	case "Add":
		need(4)
		spare = 0
		if w[1] == "1" {
			spare = 3
		}
		a, e, i := mkArg(c, rec, w[2], off, spare), c.enc(atoi(w[3])), atoi(w[4])
		return catch(func() string {
			r, err := slice.Add(a, e, i)
			if err == nil {
				note(rec, r)
			}
			if err != nil {
				return ss(r) + " " + showErr(err) + " " + ss(a)
			}
			return ss(r) + " " + ss(a)
		})
	case "Keys", "Values":
		need(1)
		m := mkMap(c, w[1])
		var r []T
		if w[0] == "Keys" {
			r = mapx.Keys(m)
		} else {
			r = mapx.Values(m)
		}
		note(rec, r)
		return showSet(c, r)
	case "KeysValues":
		need(1)
		m := mkMap(c, w[1])
		ks, vs := mapx.KeysValues(m)
		note(rec, ks)
		note(rec, vs)
		n := len(ks)
		if len(vs) < n {
			n = len(vs)
		}
		return showInt(len(ks)) + " " + showInt(len(vs)) + " " +
			showKV("m{", "}", "mnil", ks == nil || vs == nil, decAll(c, ks[:n]), decAll(c, vs[:n]))
	case "MapxToMap":
		need(2)
		ks, vs := sl(w[1]), sl(w[2])
		m, err := mapx.ToMap(ks, vs)
		if err != nil {
			return showMap(c, m) + " " + showErr(err) + " " + ss(ks) + " " + ss(vs)
		}
		return showMap(c, m) + " " + ss(ks) + " " + ss(vs)
	case "NewPairs":
		need(2)
		ks, vs := sl(w[1]), sl(w[2])
		ps, err := pair.NewPairs(ks, vs)
		if err != nil {
			return showPairs(c, ps) + " " + showErr(err) + " " + ss(ks) + " " + ss(vs)
		}
		return showPairs(c, ps) + " " + ss(ks) + " " + ss(vs)
	case "SplitPairs":
		need(1)
		ps := mkPairs(c, w[1])
		ks, vs := pair.SplitPairs(ps)
		return ss(ks) + " " + ss(vs) + " " + showPairs(c, ps)
	case "FlattenPairs":
		need(1)
		ps := mkPairs(c, w[1])
		return showFlat(c, pair.FlattenPairs(ps)) + " " + showPairs(c, ps)
	case "PackPairs":
		need(1)
		fl := mkFlat(c, w[1])
		return catch(func() string {
			ps := pair.PackPairs[T, T](fl)
			return showPairs(c, ps) + " " + showFlat(c, fl)
		})
	}
	panic(bad{"call " + w[0]})
}

// aggregates exist for numbers only
func runAgg(w []string, off, spare int) string {
	if len(w) != 2 {
		panic(bad{"arity"})
	}
	rec := &memrec{}
	a := mkArg(intCodec, rec, w[1], off, spare)
	return catch(func() string {
		switch w[0] {
		case "Max":
			return showInt(slice.Max(a))
		case "Min":
			return showInt(slice.Min(a))
		}
		return showInt(slice.Sum(a))
	}) + " " + showSlice(intCodec, a) + rec.String()
}

// Max / Min / Sum at int8 / uint8 (the case generator keeps the elements inside the type's range)
func agg8[N int8 | uint8](op string, xs []int, isNil bool) string {
	var a []N
	if !isNil {
		a = make([]N, len(xs))
		for i, x := range xs {
			a[i] = N(x)
		}
	}
	back := func() string {
		ys := make([]int, len(a))
		for i, x := range a {
			ys[i] = int(x)
		}
		return showInts("[", "]", "nil", a == nil, ys)
	}
	return catch(func() string {
		switch op {
		case "Max":
			return showInt(int(slice.Max(a)))
		case "Min":
			return showInt(int(slice.Min(a)))
		}
		return showInt(int(slice.Sum(a)))
	}) + " " + back()
}

// the functions of SliceAggModel: <Max|Min|Sum><I8|U8> slice; <Max|Min>F64 [key:bits,...]; NewPair / PairSplit / PairString k v
func runCall2(w []string) (string, bool) {
	switch w[0] {
	case "MaxI8", "MinI8", "SumI8", "MaxU8", "MinU8", "SumU8":
		if len(w) != 2 {
			panic(bad{"arity"})
		}
		var xs []int
		if w[1] != "nil" {
			for _, x := range items(w[1]) {
				xs = append(xs, atoi(x))
			}
		}
		if w[0][3:] == "I8" {
			return agg8[int8](w[0][:3], xs, w[1] == "nil"), true
		}
		return agg8[uint8](w[0][:3], xs, w[1] == "nil"), true
	case "MaxF64", "MinF64":
		if len(w) != 2 {
			panic(bad{"arity"})
		}
		var fs []float64
		for _, p := range mkPairs(intCodec, w[1]) {
			fs = append(fs, math.Float64frombits(uint64(int64(p.Value))))
		}
		return catch(func() string {
			if w[0] == "MaxF64" {
				return showInt(int(int64(math.Float64bits(slice.Max(fs)))))
			}
			return showInt(int(int64(math.Float64bits(slice.Min(fs)))))
		}), true
	case "NewPair", "PairSplit", "PairString":
		if len(w) != 3 {
			panic(bad{"arity"})
		}
		p := pair.NewPair(atoi(w[1]), atoi(w[2]))
		switch w[0] {
		case "NewPair":
			return showPairs(intCodec, []pair.Pair[int, int]{p}), true
		case "PairSplit":
			k, v := p.Split()
			return showInt(k) + " " + showInt(v), true
		}
		bs := []byte(p.String())
		ys := make([]int, len(bs))
		for i, b := range bs {
			ys[i] = int(b)
		}
		return showInts("[", "]", "nil", false, ys), true
	}
	return "", false
}

func runLine(line string) (res string) {
	defer func() {
		if r := recover(); r != nil {
			if _, ok := r.(bad); ok {
				res = "badcase"
				return
			}
			res = "panic"
		}
	}()
	w := strings.Fields(line)
	if len(w) < 2 {
		return "badcase"
	}
	if r, ok := runCall2(w[1:]); ok {
		return r
	}
	ty, off, spare := w[0], 0, 0
	if i := strings.IndexByte(ty, '@'); i >= 0 {
		l := strings.Split(ty[i+1:], ",")
		if len(l) != 2 {
			return "badcase"
		}
		ty, off, spare = ty[:i], atoi(l[0]), atoi(l[1])
	}
	switch w[1] {
	case "Max", "Min", "Sum":
		return runAgg(w[1:], off, spare)
	}
	if ty == "s" {
		return runCase(strCodec, w[1:], off, spare)
	}
	return runCase(intCodec, w[1:], off, spare)
}

func Main(args []string) {
	sc := bufio.NewScanner(os.Stdin)
	sc.Buffer(make([]byte, 1<<20), 1<<24)
	out := bufio.NewWriter(os.Stdout)
	defer out.Flush()
	for sc.Scan() {
		fmt.Fprintln(out, runLine(sc.Text()))
	}
}
