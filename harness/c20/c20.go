// Package c20 runs the compiled-in cases of the C20 correspondence check (bean/copier) on the
// real code.  The case table lives in cases_gen.go: the committed file is an empty placeholder,
// checks/c20.py overlays a file generated from its case objects (type declarations, value
// literals, option lists, converter closures, calls).  This file is the generic machinery:
// the case registry, the runners (sequential and 8 goroutines x 3 rounds on the shared copier)
// and the canonical printer of Go values into the VAL syntax of the case protocol.
//
//	h c20 [conc] [idx ...]     one line per case, in index order (all cases when no idx is given)
package c20

import (
	"encoding/hex"
	"errors"
	"fmt"
	"math"
	"math/big"
	"os"
	"reflect"
	"sort"
	"strconv"
	"strings"
	"sync"
	"time"

	"verifharness/reg"
)

func init() { reg.Register("c20", Main) }

// ---------------------------------------------------------------- case registry

var caseTable = map[int]func(o *Out){}

// Register adds case number idx (called from the generated file's init functions).
func Register(idx int, f func(o *Out)) { caseTable[idx] = f }

// ErrUser is what the generated failing converters return.
var ErrUser = errors.New("c20-user")

// P returns a pointer to a fresh copy of v.
func P[T any](v T) *T { return &v }

// pre-made channels: (op k) of type (o chan 1) / (o chan 2) is Chans1[k] / Chans2[k], (op 0) is nil
var (
	Chans1 = [6]chan int{nil, make(chan int), make(chan int), make(chan int), make(chan int), make(chan int)}
	Chans2 = [6]chan string{nil, make(chan string), make(chan string), make(chan string), make(chan string), make(chan string)}
	// Fn1 is the non-nil value (op 1) of type (o func 1)
	Fn1 = func() {}
)

const (
	goroutines = 8
	rounds     = 3
)

// Out collects the observable line of one case.
type Out struct {
	conc   bool
	alias  bool // aliasing observables instead of destination contents
	ctorOK bool
	b      strings.Builder
}

// Exec is what a call factory returns: the source pointer (for the before/after print)
// and the closure performing the call, which returns the destination pointer and the error.
type Exec func() (src any, run func() (dst any, err error))

func errClass(err error) string {
	s := err.Error()
	switch {
	case strings.Contains(s, "入口只支持"):
		return "entry"
	case strings.Contains(s, "Kind 不匹配"):
		return "kind"
	case strings.Contains(s, "Type 不匹配"):
		return "type"
	case strings.Contains(s, "多级指针"):
		return "multiptr"
	case strings.Contains(s, "转化字段类型不匹配"):
		return "convtype"
	case strings.Contains(s, "不能为 nil"): // errNilPointer (the nil-argument fix)
		return "nil"
	case s == "c20-user":
		return "user"
	}
	return "other"
}

// Ctor runs the constructor closure under recover and prints ctor=<ok|err:CLASS|panic>.
func (o *Out) Ctor(f func() error) {
	st := func() (st string) {
		defer func() {
			if r := recover(); r != nil {
				st = "panic"
			}
		}()
		if err := f(); err != nil {
			return "err:" + errClass(err)
		}
		return "ok"
	}()
	o.ctorOK = st == "ok"
	o.b.WriteString("ctor=" + st)
}

// one execution of one call: STATUS and DST text
func execOnce(src any, run func() (any, error), gate func()) (res string) {
	before := ShowPtr(src)
	var dst any
	var err error
	panicked := func() (p bool) {
		defer func() {
			if r := recover(); r != nil {
				p = true
			}
		}()
		if gate != nil {
			gate()
		}
		dst, err = run()
		return false
	}()
	after := ShowPtr(src)
	mod := ""
	if before != after {
		mod = "!srcmod"
	}
	if panicked {
		return "panic" + mod + " -"
	}
	st := "ok"
	if err != nil {
		st = "err:" + errClass(err)
	}
	return st + mod + " " + ShowPtr(dst)
}

// Call runs one ReflectCopier call (skip when the constructor did not return ok).  In conc mode
// the call is executed from 8 goroutines x 3 rounds on the shared copier, every goroutine with
// the fresh source / destination its own factory call built.
func (o *Out) Call(mk Exec) {
	o.b.WriteString(" | ")
	if !o.ctorOK {
		o.b.WriteString("skip -")
		return
	}
	if o.alias {
		src, run := mk()
		o.b.WriteString(execAlias(src, run))
		return
	}
	if !o.conc {
		src, run := mk()
		o.b.WriteString(execOnce(src, run, nil))
		return
	}
	results := make([]string, 0, goroutines*rounds)
	for r := 0; r < rounds; r++ {
		var wg, ready sync.WaitGroup
		start := make(chan struct{})
		part := make([]string, goroutines)
		for g := 0; g < goroutines; g++ {
			wg.Add(1)
			ready.Add(1)
			go func(g int) {
				defer wg.Done()
				src, run := mk()
				part[g] = execOnce(src, run, func() {
					ready.Done()
					<-start
				})
			}(g)
		}
		ready.Wait()
		close(start)
		wg.Wait()
		results = append(results, part...)
	}
	for _, x := range results[1:] {
		if x != results[0] {
			o.b.WriteString("diverge -")
			return
		}
	}
	o.b.WriteString(results[0])
}

// Pure runs one package-level copier.CopyTo call (always, once).
func (o *Out) Pure(mk Exec) {
	o.b.WriteString(" | ")
	if o.alias {
		o.b.WriteString("-")
		return
	}
	src, run := mk()
	o.b.WriteString(execOnce(src, run, nil))
}

// PureG runs one package-level copier.CopyTo call with arbitrary arguments (nil interface,
// typed nil pointers, non-pointers ...): only the outcome class is observed.
func (o *Out) PureG(run func() error) {
	o.b.WriteString(" | ")
	if o.alias {
		o.b.WriteString("-")
		return
	}
	st := func() (st string) {
		defer func() {
			if r := recover(); r != nil {
				st = "panic"
			}
		}()
		if err := run(); err != nil {
			return "err:" + errClass(err)
		}
		return "ok"
	}()
	o.b.WriteString(st + " -")
}

// ---------------------------------------------------------------- aliasing observables

// fullSlices makes the printer include the cells between len and cap of every slice.
var fullSlices bool

// deepSnap prints what p points to cell by cell, slices up to their capacity.
func deepSnap(p any) (s string) {
	defer func() {
		if r := recover(); r != nil {
			s = "snap-panic"
		}
		fullSlices = false
	}()
	fullSlices = true
	return ShowPtr(p)
}

// identities collects the pointer cells, backing arrays and maps reachable from v through
// struct fields and pointers (not through slice / map elements).
func identities(v reflect.Value, set map[string]bool) {
	switch v.Kind() {
	case reflect.Struct:
		if v.Type() == timeType {
			return
		}
		for i := 0; i < v.NumField(); i++ {
			identities(v.Field(i), set)
		}
	case reflect.Pointer:
		if !v.IsNil() {
			if v.Type().Elem().Size() > 0 { // zero-size objects all live at one address
				set[fmt.Sprintf("p:%x", v.Pointer())] = true
			}
			identities(v.Elem(), set)
		}
	case reflect.Slice:
		if !v.IsNil() && v.Cap() > 0 {
			set[fmt.Sprintf("s:%x", v.Pointer())] = true
		}
	case reflect.Map:
		if !v.IsNil() {
			set[fmt.Sprintf("m:%x", v.Pointer())] = true
		}
	}
}

// aliasWalk prints, for every pointer / slice / map position of v (same traversal), N for nil,
// E for a slice without cells, S when the cell / array / map is one of the source's, F otherwise.
func aliasWalk(b *strings.Builder, v reflect.Value, set map[string]bool) {
	mark := func(key string) {
		if set[key] {
			b.WriteByte('S')
		} else {
			b.WriteByte('F')
		}
	}
	switch v.Kind() {
	case reflect.Struct:
		if v.Type() == timeType {
			return
		}
		for i := 0; i < v.NumField(); i++ {
			aliasWalk(b, v.Field(i), set)
		}
	case reflect.Pointer:
		if v.IsNil() {
			b.WriteByte('N')
			return
		}
		if v.Type().Elem().Size() == 0 {
			b.WriteByte('Z') // pointer to a zero-size object: no identity
		} else {
			mark(fmt.Sprintf("p:%x", v.Pointer()))
		}
		aliasWalk(b, v.Elem(), set)
	case reflect.Slice:
		switch {
		case v.IsNil():
			b.WriteByte('N')
		case v.Cap() == 0:
			b.WriteByte('E')
		default:
			mark(fmt.Sprintf("s:%x", v.Pointer()))
		}
	case reflect.Map:
		if v.IsNil() {
			b.WriteByte('N')
			return
		}
		mark(fmt.Sprintf("m:%x", v.Pointer()))
	}
}

// one execution in alias mode: STATUS, whether the source is unchanged cell by cell (slices up
// to cap), and which references of the destination are the source's
func execAlias(src any, run func() (any, error)) string {
	before := deepSnap(src)
	var dst any
	var err error
	panicked := func() (p bool) {
		defer func() {
			if r := recover(); r != nil {
				p = true
			}
		}()
		dst, err = run()
		return false
	}()
	after := deepSnap(src)
	mod := ""
	if before != after {
		mod = "!srcmod"
	}
	if panicked {
		return "panic" + mod + " -"
	}
	st := "ok"
	if err != nil {
		st = "err:" + errClass(err)
	}
	set := map[string]bool{}
	if src != nil {
		if sv := reflect.ValueOf(src); sv.Kind() == reflect.Pointer && !sv.IsNil() {
			identities(sv.Elem(), set)
		}
	}
	var b strings.Builder
	b.WriteString("A:")
	if dst != nil {
		if dv := reflect.ValueOf(dst); dv.Kind() == reflect.Pointer && !dv.IsNil() {
			aliasWalk(&b, dv.Elem(), set)
		}
	}
	return st + mod + " " + b.String()
}

// ---------------------------------------------------------------- canonical printer

var timeType = reflect.TypeOf(time.Time{})

const unixToInternal int64 = (1969*365 + 1969/4 - 1969/100 + 1969/400) * 86400

// ShowPtr prints what a *Src / *Dst points to: `nil` for a nil pointer (or nil interface).
func ShowPtr(p any) string {
	if p == nil {
		return "nil"
	}
	v := reflect.ValueOf(p)
	if v.Kind() != reflect.Pointer {
		return "notptr"
	}
	if v.IsNil() {
		return "nil"
	}
	var b strings.Builder
	show(&b, v.Elem())
	return b.String()
}

// Show prints any value in the VAL syntax.
func Show(x any) string {
	var b strings.Builder
	show(&b, reflect.ValueOf(x))
	return b.String()
}

// Fixed non-UTC zones and two wall-clock readings taken once per process: MonoBase carries a
// monotonic reading (time.Now()), MonoStripped is the same instant without it (Round(0)).
// Model encoding of a time.Time leaf: (op 0) = time.Time{}, (op z) = time.Unix(z,0).UTC(),
// (op k*10^12+z) = time.Unix(z,0).In(Zone<k>), (op 7*10^12) = MonoBase, (op 7*10^12+1) = MonoStripped.
var (
	Zone1        = time.FixedZone("C20A", 5*3600+1800)
	Zone2        = time.FixedZone("C20B", -8*3600)
	MonoBase     = time.Now()
	MonoStripped = MonoBase.Round(0)
)

const zoneUnit int64 = 1000000000000

func rawTime(t time.Time) (uint64, int64, uintptr) {
	v := reflect.ValueOf(t)
	return v.Field(0).Uint(), v.Field(1).Int(), v.Field(2).Pointer()
}

func showTime(b *strings.Builder, v reflect.Value) {
	// wall uint64, ext int64, loc *Location: compared raw, so the zone (pointer) and a monotonic
	// reading are part of the observable
	wall, ext, loc := v.Field(0).Uint(), v.Field(1).Int(), v.Field(2).Pointer()
	mw, me, ml := rawTime(MonoBase)
	sw, se, sl := rawTime(MonoStripped)
	switch {
	case wall == 0 && ext == 0 && loc == 0:
		b.WriteString("(op 0)")
	case wall == 0 && loc == 0:
		b.WriteString("(op " + strconv.FormatInt(ext-unixToInternal, 10) + ")")
	case wall == 0 && loc == reflect.ValueOf(Zone1).Pointer():
		b.WriteString("(op " + strconv.FormatInt(zoneUnit+ext-unixToInternal, 10) + ")")
	case wall == 0 && loc == reflect.ValueOf(Zone2).Pointer():
		b.WriteString("(op " + strconv.FormatInt(2*zoneUnit+ext-unixToInternal, 10) + ")")
	case wall == mw && ext == me && loc == ml:
		b.WriteString("(op " + strconv.FormatInt(7*zoneUnit, 10) + ")")
	case wall == sw && ext == se && loc == sl:
		b.WriteString("(op " + strconv.FormatInt(7*zoneUnit+1, 10) + ")")
	default:
		fmt.Fprintf(b, "(op time:%d:%d:%x)", wall, ext, loc)
	}
}

func show(b *strings.Builder, v reflect.Value) {
	switch v.Kind() {
	case reflect.Bool:
		if v.Bool() {
			b.WriteString("(i 1)")
		} else {
			b.WriteString("(i 0)")
		}
	case reflect.Int, reflect.Int8, reflect.Int16, reflect.Int32, reflect.Int64:
		b.WriteString("(i " + strconv.FormatInt(v.Int(), 10) + ")")
	case reflect.Uint, reflect.Uint8, reflect.Uint16, reflect.Uint32, reflect.Uint64, reflect.Uintptr:
		b.WriteString("(i " + strconv.FormatUint(v.Uint(), 10) + ")")
	case reflect.Float32:
		b.WriteString("(i " + strconv.FormatUint(uint64(math.Float32bits(float32(v.Float()))), 10) + ")")
	case reflect.Float64:
		b.WriteString("(i " + strconv.FormatUint(math.Float64bits(v.Float()), 10) + ")")
	case reflect.Complex64:
		c := v.Complex()
		z := new(big.Int).SetUint64(uint64(math.Float32bits(float32(real(c)))))
		z.Lsh(z, 32).Add(z, new(big.Int).SetUint64(uint64(math.Float32bits(float32(imag(c))))))
		b.WriteString("(i " + z.String() + ")")
	case reflect.Complex128:
		c := v.Complex()
		z := new(big.Int).SetUint64(math.Float64bits(real(c)))
		z.Lsh(z, 64).Add(z, new(big.Int).SetUint64(math.Float64bits(imag(c))))
		b.WriteString("(i " + z.String() + ")")
	case reflect.String:
		if s := v.String(); s == "" {
			b.WriteString("(x)")
		} else {
			b.WriteString("(x " + hex.EncodeToString([]byte(s)) + ")")
		}
	case reflect.Struct:
		if v.Type() == timeType {
			showTime(b, v)
			return
		}
		b.WriteString("(st")
		for i := 0; i < v.NumField(); i++ {
			b.WriteByte(' ')
			show(b, v.Field(i))
		}
		b.WriteByte(')')
	case reflect.Pointer:
		if v.IsNil() {
			b.WriteString("(nil)")
			return
		}
		b.WriteString("(ptr ")
		show(b, v.Elem())
		b.WriteByte(')')
	case reflect.Slice:
		if v.IsNil() {
			b.WriteString("(sln)")
			return
		}
		b.WriteString("(sl")
		n := v.Len()
		if fullSlices && v.Cap() > n { // deep snapshot: also the cells between len and cap
			v = v.Slice(0, v.Cap())
			b.WriteString(" len=" + strconv.Itoa(n))
			n = v.Len()
		}
		for i := 0; i < n; i++ {
			b.WriteByte(' ')
			show(b, v.Index(i))
		}
		b.WriteByte(')')
	case reflect.Map:
		if v.IsNil() {
			b.WriteString("(mn)")
			return
		}
		type kv struct{ k, v string }
		var es []kv
		it := v.MapRange()
		for it.Next() {
			var kb, vb strings.Builder
			show(&kb, it.Key())
			show(&vb, it.Value())
			es = append(es, kv{kb.String(), vb.String()})
		}
		sort.Slice(es, func(i, j int) bool { return es[i].k < es[j].k })
		b.WriteString("(mp")
		for _, e := range es {
			b.WriteString(" (" + e.k + " " + e.v + ")")
		}
		b.WriteByte(')')
	case reflect.Chan:
		if v.IsNil() {
			b.WriteString("(op 0)")
			return
		}
		p := v.Pointer()
		for k := 1; k < len(Chans1); k++ {
			if reflect.ValueOf(Chans1[k]).Pointer() == p || reflect.ValueOf(Chans2[k]).Pointer() == p {
				b.WriteString("(op " + strconv.Itoa(k) + ")")
				return
			}
		}
		b.WriteString("(op chan:unknown)")
	case reflect.Array:
		z, m := new(big.Int), big.NewInt(1)
		for i := 0; i < v.Len(); i++ {
			z.Add(z, new(big.Int).Mul(m, big.NewInt(v.Index(i).Int())))
			m = new(big.Int).Mul(m, big.NewInt(1000))
		}
		b.WriteString("(op " + z.String() + ")")
	case reflect.Func:
		if v.IsNil() {
			b.WriteString("(op 0)")
		} else {
			b.WriteString("(op 1)")
		}
	case reflect.Interface:
		if v.IsNil() {
			b.WriteString("(op 0)")
			return
		}
		switch v.Elem().Kind() {
		case reflect.Int:
			b.WriteString("(op 1)")
		case reflect.String:
			b.WriteString("(op 2)")
		case reflect.Pointer: // ErrUser (*errors.errorString) in an error-typed field
			b.WriteString("(op 1)")
		default:
			b.WriteString("(op iface:unknown)")
		}
	default:
		b.WriteString("(unknown " + v.Kind().String() + ")")
	}
}

// ---------------------------------------------------------------- main

// Main prints one observable line per compiled-in case.
func Main(args []string) {
	conc, alias := false, false
	var only []int
	for _, a := range args {
		if a == "conc" {
			conc = true
			continue
		}
		if a == "alias" {
			alias = true
			continue
		}
		n, err := strconv.Atoi(a)
		if err != nil {
			fmt.Fprintln(os.Stderr, "usage: h c20 [conc|alias] [idx ...]")
			os.Exit(2)
		}
		only = append(only, n)
	}
	if only == nil {
		for k := range caseTable {
			only = append(only, k)
		}
		sort.Ints(only)
	}
	for _, k := range only {
		f := caseTable[k]
		if f == nil {
			os.Stdout.WriteString("nocase\n")
			continue
		}
		o := &Out{conc: conc, alias: alias}
		func() {
			defer func() {
				if r := recover(); r != nil {
					o.b.WriteString(" | harness-panic " + strings.ReplaceAll(fmt.Sprint(r), "\n", " "))
				}
			}()
			f(o)
		}()
		// one write per case: a crash (fatal error of the run time) leaves complete lines behind
		os.Stdout.WriteString(o.b.String() + "\n")
	}
}
