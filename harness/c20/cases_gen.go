// PLACEHOLDER with an empty case table.  checks/c20.py generates the real file from its case
// objects (one `func init() { Register(idx, func(o *Out) {...}) }` per case plus the type
// declarations `type T<case>_<id> ...`) and overlays it over this path at build time.
package c20
