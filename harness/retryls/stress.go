package retryls

// c19-retryls-stress <seed> <rounds> <goroutines>: the SEARCH oracle of the retryls part (not a proof).
//
// Phase A - controlled schedules, independent of the statement labels (so it keeps working when the code no longer
// has the model's skeleton): in lock-step mode N callers share ONE fresh strategy; the controller grants ONE
// statement at a time - strict round-robin (everybody is started first, then everybody executes its k-th statement
// before anybody executes its (k+1)-th: all callers pass the counter / the flag before anyone goes on), at random,
// or round-robin with random skips.  Directed rounds that are always run first: two callers racing for the only
// retry (fixed and exponential), 27 callers on initial = 2^40+1 ns / max = 2^62 ns (the interleaving of
// interval_wrap_refuted), 5 callers on initial = 2^61+1 ns / max = MaxInt64 (ticket 4 wraps to 8 ns).
// A monitor evaluates the PROPERTY on the answers:
//   budget   the number of granted calls differs from min(calls, maxRetries) (all calls when maxRetries <= 0);
//   bounds   a granted interval is outside [initial, max] (fixed: differs from the interval), or a refusal
//            does not carry 0;
//   panic / hang.
// Phase B - chaos mode: G goroutines released together hammer one strategy; same monitor on the totals.
//
// Output: "ok ..." or one line "violation <kind>: ..." (+ the schedule that led to it).

import (
	"fmt"
	"math/rand"
	"strconv"
	"strings"
	"sync"
	"time"

	"github.com/ecodeclub/ekit/verifhook"
	"verifharness/reg"
)

func init() { reg.Register("c19-retryls-stress", stressMain) }

type scfg struct {
	kind         string
	initial, max int64
	maxr         int32
	callers, per int
	policy       int // 0 strict round-robin, 1 random, 2 round-robin with random skips
}

func (c scfg) String() string {
	return fmt.Sprintf("kind=%s initial=%d max=%d maxRetries=%d callers=%d calls-each=%d policy=%d",
		c.kind, c.initial, c.max, c.maxr, c.callers, c.per, c.policy)
}

func (c scfg) want() int {
	n := c.callers * c.per
	if c.maxr <= 0 || n < int(c.maxr) {
		return n
	}
	return int(c.maxr)
}

// judge evaluates one answer; "" when it is within the bounds.
func (c scfg) judge(tid int, ans string) (granted bool, bad string) {
	f := strings.Fields(ans)
	if len(f) != 2 {
		return false, fmt.Sprintf("bounds: caller %d got the malformed answer %q", tid, ans)
	}
	d, err := strconv.ParseInt(f[0], 10, 64)
	if err != nil {
		return false, fmt.Sprintf("bounds: caller %d got the malformed answer %q", tid, ans)
	}
	if f[1] == "true" {
		lo, hi := c.initial, c.max
		if c.kind == "fixed" {
			hi = lo
		}
		if d < lo || d > hi {
			return true, fmt.Sprintf("bounds: caller %d was granted the interval %d ns, outside [%d, %d]", tid, d, lo, hi)
		}
		return true, ""
	}
	if d != 0 {
		return false, fmt.Sprintf("bounds: caller %d was refused with the non-zero interval %d ns", tid, d)
	}
	return false, ""
}

const (
	p2_40 = int64(1) << 40
	p2_61 = int64(1) << 61
	p2_62 = int64(1) << 62
	maxI  = int64(^uint64(0) >> 1)
)

var directed = []scfg{
	{"fixed", 7, 7, 1, 2, 1, 0},
	{"exp", 3, 1000, 1, 2, 1, 0},
	{"fixed", 1000000, 1000000, 2, 3, 1, 0},
	{"exp", 1000, 8000, 3, 5, 1, 0},
	{"exp", p2_40 + 1, p2_62, 0, 27, 1, 0},
	{"exp", p2_61 + 1, maxI, 0, 5, 1, 0},
	{"exp", p2_62 + 1, maxI, -1, 4, 1, 0},
	{"exp", p2_40 + 1, p2_62, 26, 28, 1, 0},
}

func randomCfg(rng *rand.Rand, g int) scfg {
	if g < 2 {
		g = 2
	}
	callers := 2 + rng.Intn(g-1)
	c := scfg{per: 1 + rng.Intn(2), callers: callers, policy: rng.Intn(3)}
	switch rng.Intn(8) {
	case 0, 1:
		iv := []int64{1, 7, 1000000, maxI}[rng.Intn(4)]
		c.kind, c.initial, c.max, c.maxr = "fixed", iv, iv, int32(1+rng.Intn(3))
	case 2, 3:
		i := []int64{1, 3, 1000}[rng.Intn(3)]
		c.kind, c.initial, c.max, c.maxr = "exp", i, i*[]int64{1, 2, 5, 8}[rng.Intn(4)], int32(1+rng.Intn(3))
	case 4:
		c.kind, c.initial, c.max, c.maxr, c.per = "exp", p2_61+1, maxI, 0, 1
		if c.callers < 4 {
			c.callers = 4 + rng.Intn(2)
		}
	case 5:
		c.kind, c.initial, c.max, c.maxr, c.per = "exp", p2_62+1, maxI, int32(-rng.Intn(2)), 1
		if c.callers < 3 {
			c.callers = 3 + rng.Intn(3)
		}
	case 6:
		c.kind, c.initial, c.max, c.maxr, c.per, c.callers = "exp", p2_40+1, p2_62, 0, 1, 25+rng.Intn(3)
		if rng.Intn(2) == 0 {
			c.policy = 0
		}
	default:
		c.kind, c.initial, c.max, c.maxr = "exp", int64(1+rng.Intn(1000)), int64(1000+rng.Intn(100000)), int32(rng.Intn(2)*(callers+1))
	}
	return c
}

type caller struct {
	tid      int
	left     int
	inflight bool
}

// controlled runs one round; returns "" or the violation text, and the history
func controlled(rng *rand.Rand, c scfg, wait time.Duration) (string, string) {
	verifhook.Reset(false, 0)
	s := build(c.kind, c.initial, c.max, c.maxr)
	if s == nil {
		return "panic: the constructor rejects valid parameters", c.String()
	}
	cs := make([]*caller, c.callers)
	for i := range cs {
		cs[i] = &caller{tid: i + 1, left: c.per}
	}
	var log []string
	grants, done, firstBad := 0, 0, ""
	observe := func(g *caller) string {
		o := verifhook.Next(wait)
		switch o.Kind {
		case "at":
			return ""
		case "ret":
			g.inflight = false
			done++
			log = append(log, fmt.Sprintf("%d:ret(%s)", g.tid, o.Val))
			ok, bad := c.judge(g.tid, o.Val)
			if ok {
				grants++
			}
			if bad != "" && firstBad == "" {
				firstBad = bad
			}
			return ""
		case "panic":
			g.inflight = false
			return fmt.Sprintf("panic: Next called by caller %d panicked: %s", g.tid, o.Val)
		}
		return fmt.Sprintf("hang: Next called by caller %d did not reach a yield point or return within %v", g.tid, wait)
	}
	start := func(g *caller) string {
		g.left--
		g.inflight = true
		log = append(log, fmt.Sprintf("%d:call", g.tid))
		verifhook.Spawn(g.tid, func() string { return answer(s.Next()) })
		return observe(g)
	}
	step := func(g *caller) string {
		if !verifhook.Grant(g.tid, wait) {
			return fmt.Sprintf("hang: caller %d is not waiting at a yield point", g.tid)
		}
		log = append(log, fmt.Sprintf("%d:step", g.tid))
		return observe(g)
	}
	hist := func() string {
		if len(log) > 400 {
			return strings.Join(log[:150], " ") + " ... " + strings.Join(log[len(log)-200:], " ")
		}
		return strings.Join(log, " ")
	}
	for guard := 0; guard < 200000; guard++ {
		var a []*caller
		for _, g := range cs {
			if g.inflight || g.left > 0 {
				a = append(a, g)
			}
		}
		if len(a) == 0 {
			break
		}
		var turn []*caller
		switch c.policy {
		case 1:
			turn = []*caller{a[rng.Intn(len(a))]}
		case 2:
			for _, g := range a {
				if rng.Intn(4) != 0 {
					turn = append(turn, g)
				}
			}
		default:
			turn = a
		}
		for _, g := range turn {
			var v string
			if g.inflight {
				v = step(g)
			} else if g.left > 0 {
				v = start(g)
			}
			if v != "" {
				return v, c.String() + " history: " + hist()
			}
		}
	}
	if firstBad != "" {
		return firstBad, c.String() + " history: " + hist()
	}
	if grants != c.want() {
		return fmt.Sprintf("budget: %d of %d concurrent calls were granted, maxRetries=%d allows exactly %d",
			grants, done, c.maxr, c.want()), c.String() + " history: " + hist()
	}
	return "", c.String()
}

// chaos runs one round of hammering in chaos mode
func chaos(rng *rand.Rand, g int) (string, string) {
	c := randomCfg(rng, g)
	if c.callers > 2*g {
		c.callers = 2 * g
	}
	c.per = 1 + rng.Intn(40)
	if c.maxr > 0 && rng.Intn(2) == 0 {
		c.maxr = int32(1 + rng.Intn(c.callers*c.per))
	}
	s := build(c.kind, c.initial, c.max, c.maxr)
	if s == nil {
		return "panic: the constructor rejects valid parameters", c.String()
	}
	var mu sync.Mutex
	grants, bad := 0, ""
	var wg, gate sync.WaitGroup
	gate.Add(1)
	for i := 0; i < c.callers; i++ {
		wg.Add(1)
		go func(i int) {
			defer wg.Done()
			defer func() {
				if r := recover(); r != nil {
					mu.Lock()
					bad = fmt.Sprintf("panic: Next called by goroutine %d panicked: %v", i, r)
					mu.Unlock()
				}
			}()
			gate.Wait()
			for j := 0; j < c.per; j++ {
				ok, b := c.judge(i+1, answer(s.Next()))
				mu.Lock()
				if ok {
					grants++
				}
				if b != "" && bad == "" {
					bad = b
				}
				mu.Unlock()
			}
		}(i)
	}
	fin := make(chan struct{})
	go func() { wg.Wait(); close(fin) }()
	gate.Done()
	select {
	case <-fin:
	case <-time.After(20 * time.Second):
		return fmt.Sprintf("hang: %d goroutines calling Next did not finish in 20 s", c.callers), c.String()
	}
	if bad != "" {
		return bad, c.String()
	}
	if grants != c.want() {
		return fmt.Sprintf("budget: %d of %d concurrent calls were granted, maxRetries=%d allows exactly %d",
			grants, c.callers*c.per, c.maxr, c.want()), c.String()
	}
	return "", c.String()
}

func stressMain(args []string) {
	if len(args) < 3 {
		fmt.Println("usage: c19-retryls-stress <seed> <rounds> <goroutines>")
		return
	}
	seed, _ := strconv.ParseInt(args[0], 10, 64)
	rounds, _ := strconv.Atoi(args[1])
	g, _ := strconv.Atoi(args[2])
	if g < 2 {
		g = 2
	}
	rng := rand.New(rand.NewSource(seed))
	verifhook.SetMode(verifhook.LockStep)
	wait := 3 * time.Second
	for i, c := range directed {
		if v, desc := controlled(rng, c, wait); v != "" {
			fmt.Printf("violation %s\n  controlled schedule, directed round %d: %s\n", v, i, desc)
			return
		}
	}
	for r := 0; r < rounds; r++ {
		if v, desc := controlled(rng, randomCfg(rng, g), wait); v != "" {
			fmt.Printf("violation %s\n  controlled schedule, round %d: %s\n", v, r, desc)
			return
		}
	}
	verifhook.Reset(false, 0)
	verifhook.SetMode(verifhook.Chaos)
	crounds := rounds / 2
	for r := 0; r < crounds; r++ {
		if v, desc := chaos(rng, g); v != "" {
			fmt.Printf("violation %s\n  chaos mode, round %d: %s\n", v, r, desc)
			return
		}
	}
	fmt.Printf("ok directed=%d controlled=%d chaos=%d goroutines<=%d\n", len(directed), rounds, crounds, g)
}
