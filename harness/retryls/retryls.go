// Package retryls: the retry strategies of ekit/retry under the lock-step controller (C19, concurrent use of ONE
// strategy by several goroutines; interleaving model coq/theories/model/RetryLSModel.v) and the search oracle
// c19-retryls-stress.
package retryls

import (
	"context"
	"strconv"
	"time"

	"github.com/ecodeclub/ekit/retry"
	"verifharness/lockstep"
)

type inst struct{ s retry.Strategy }

// answer is the canonical text of one Next(): "<interval ns> <ok>".
func answer(d time.Duration, ok bool) string {
	return strconv.FormatInt(int64(d), 10) + " " + strconv.FormatBool(ok)
}

func (i *inst) Call(ctx context.Context, tid int, op string, args []string) string {
	if op != "next" {
		return "badop"
	}
	return answer(i.s.Next())
}

// build constructs a strategy: kind = exp|fixed; durations in ns. nil when the constructor rejects the parameters.
func build(kind string, initial, max int64, maxr int32) retry.Strategy {
	switch kind {
	case "exp":
		s, err := retry.NewExponentialBackoffRetryStrategy(time.Duration(initial), time.Duration(max), maxr)
		if err != nil {
			return nil
		}
		return s
	case "fixed":
		s, err := retry.NewFixedIntervalRetryStrategy(time.Duration(initial), maxr)
		if err != nil {
			return nil
		}
		return s
	}
	return nil
}

type rejected struct{}

func (rejected) Call(ctx context.Context, tid int, op string, args []string) string {
	return "constructor-rejected-the-parameters"
}

func init() {
	// params: <exp|fixed> <initial ns> <max ns> <maxRetries> [<goroutines> <mode> <calls>: used by the model side only]
	lockstep.Register("retryls", func(params []string) lockstep.Instance {
		if len(params) < 4 {
			return rejected{}
		}
		i, _ := strconv.ParseInt(params[1], 10, 64)
		m, _ := strconv.ParseInt(params[2], 10, 64)
		r, _ := strconv.ParseInt(params[3], 10, 32)
		s := build(params[0], i, m, int32(r))
		if s == nil {
			return rejected{}
		}
		return &inst{s: s}
	})
}
