// Package abq: the real ConcurrentArrayBlockingQueue under the lock-step controller (C07, C09)
// and the chaos-mode stress/monitor command c07-abq-stress (search oracle).
package abq

import (
	"container/list"
	"context"
	"errors"
	"fmt"
	"strconv"
	"strings"
	"sync"
	"time"
	"unsafe"

	"github.com/ecodeclub/ekit/queue"
	"golang.org/x/sync/semaphore"
	"verifharness/lockstep"
)

// layout of golang.org/x/sync@v0.4.0/semaphore.Weighted (pinned in /repo/go.mod); used only to
// READ cur and the number of waiters under the semaphore's own mutex.
type weighted struct {
	size    int64
	cur     int64
	mu      sync.Mutex
	waiters list.List
}

func semState(s *semaphore.Weighted) (cur int64, waiters int) {
	w := (*weighted)(unsafe.Pointer(s))
	w.mu.Lock()
	cur, waiters = w.cur, w.waiters.Len()
	w.mu.Unlock()
	return
}

type inst struct {
	q *queue.ConcurrentArrayBlockingQueue[int]
}

func errClass(err error) string {
	switch {
	case err == nil:
		return "nil"
	case errors.Is(err, context.Canceled), errors.Is(err, context.DeadlineExceeded):
		return "ctx"
	}
	return "err:" + err.Error()
}

func sliceStr(l []int) string {
	s := make([]string, len(l))
	for i, v := range l {
		s[i] = strconv.Itoa(v)
	}
	return "slice [" + strings.Join(s, ",") + "]"
}

func (i *inst) state() string {
	h, t, n, _, e, d := i.q.VerifABQState()
	ce, we := semState(e)
	cd, wd := semState(d)
	return fmt.Sprintf("%d %d %d %d %d %d %d", ce, we, cd, wd, h, t, n)
}

func (i *inst) Call(ctx context.Context, tid int, op string, args []string) string {
	switch op {
	case "enqueue":
		v, _ := strconv.Atoi(args[0])
		return errClass(i.q.Enqueue(ctx, v))
	case "dequeue":
		v, err := i.q.Dequeue(ctx)
		if err != nil {
			return errClass(err)
		}
		return "val " + strconv.Itoa(v)
	case "len":
		return "len " + strconv.Itoa(i.q.Len())
	case "asslice":
		return sliceStr(i.q.AsSlice())
	case "sync":
		// wait until the real semaphores / cursors have the values the model predicts
		want := strings.Join(args, " ")
		deadline := time.Now().Add(2 * time.Second)
		for {
			got := i.state()
			if got == want {
				return "ok"
			}
			if time.Now().After(deadline) {
				return "state enq(cur,waiters) deq(cur,waiters) head tail count = " + got + " want " + want
			}
			time.Sleep(20 * time.Microsecond)
		}
	}
	return "badop"
}

func init() {
	lockstep.Register("abq", func(params []string) lockstep.Instance {
		n, _ := strconv.Atoi(params[0])
		return &inst{q: queue.NewConcurrentArrayBlockingQueue[int](n)}
	})
}
