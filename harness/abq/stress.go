package abq

// c07-abq-stress: chaos-mode search oracle for C07/C09 on the real ConcurrentArrayBlockingQueue
// (NOT a proof).  Producers and consumers with per-call deadlines / already-cancelled contexts
// hammer the instrumented queue (verifhook in Chaos mode widens every statement boundary) while
// monitors evaluate the PROPERTY:
//
//	capacity      Len() and len(AsSlice()) sampled concurrently stay within 0..capacity, and a
//	              harness-side ledger of returned calls never implies more than capacity (or fewer
//	              than 0) stored elements
//	order         at every consumer the values of one producer arrive in the order they were enqueued;
//	              AsSlice samples are ordered per producer
//	exactly-once  every value whose Enqueue returned nil is delivered exactly once or is still in the
//	              queue at the end; a value whose Enqueue returned the context's error never shows up
//	drain         after quiescence Len/AsSlice agree with the ledger
//	capacity-after-cancel   after all the cancellations the queue drains, then accepts exactly
//	              `capacity` elements without blocking, refuses one more, and delivers them in order
//	hang          every call returns within a generous bound after its context's deadline
//	              (goroutine dump on stderr)
//
//	usage: h c07-abq-stress <seed> <capacity> <producers> <consumers> <opsPerGoroutine>
//
// prints "ok ..." or "VIOLATION <kind>: <text>".

import (
	"context"
	"fmt"
	"math/rand"
	"os"
	"runtime"
	"sort"
	"strconv"
	"sync"
	"sync/atomic"
	"time"

	"github.com/ecodeclub/ekit/queue"
	"github.com/ecodeclub/ekit/verifhook"
	"verifharness/reg"
)

func init() { reg.Register("c07-abq-stress", stressMain) }

const grace = 5 * time.Second // generous completion bound after the enabling event (deadline / free slot)

type violations struct {
	mu   sync.Mutex
	list []string
	seen map[string]bool
}

func (v *violations) add(kind, format string, a ...any) {
	v.mu.Lock()
	defer v.mu.Unlock()
	if v.seen == nil {
		v.seen = map[string]bool{}
	}
	if v.seen[kind] {
		return
	}
	v.seen[kind] = true
	v.list = append(v.list, "VIOLATION "+kind+": "+fmt.Sprintf(format, a...))
}

// one slot per worker goroutine for the watchdog
type callSlot struct {
	deadline atomic.Int64 // unix nano by which the current call must have returned; 0 = idle
	what     atomic.Value
}

func dumpGoroutines() {
	buf := make([]byte, 1<<20)
	n := runtime.Stack(buf, true)
	os.Stderr.Write(buf[:n])
}

func callCtx(r *rand.Rand) (context.Context, context.CancelFunc, time.Duration) {
	x := r.Intn(100)
	var d time.Duration
	switch {
	case x < 10: // already cancelled
		ctx, cancel := context.WithCancel(context.Background())
		cancel()
		return ctx, cancel, 0
	case x < 45:
		d = time.Duration(1+r.Intn(200)) * time.Microsecond
	case x < 65:
		d = time.Duration(1+r.Intn(3)) * time.Millisecond
	default:
		d = 40 * time.Millisecond
	}
	ctx, cancel := context.WithTimeout(context.Background(), d)
	return ctx, cancel, d
}

func stressMain(args []string) {
	if len(args) < 5 {
		fmt.Println("usage: c07-abq-stress <seed> <capacity> <producers> <consumers> <ops>")
		return
	}
	seed, _ := strconv.ParseInt(args[0], 10, 64)
	capacity, _ := strconv.Atoi(args[1])
	np, _ := strconv.Atoi(args[2])
	nc, _ := strconv.Atoi(args[3])
	ops, _ := strconv.Atoi(args[4])
	verifhook.SetMode(verifhook.Chaos)
	q := queue.NewConcurrentArrayBlockingQueue[int](capacity)
	var v violations

	// harness-side ledger (all monotone counters)
	var enqStarted, enqFailed, enqOK, deqStarted, deqFailed, deqOK atomic.Int64
	const mul = 1_000_000
	enqueuedOK := make([][]int, np)  // per producer: values whose Enqueue returned nil, in order
	enqueuedErr := make([][]int, np) // per producer: values whose Enqueue returned an error
	received := make([][]int, nc)    // per consumer: values in the order received
	slots := make([]*callSlot, np+nc)
	for i := range slots {
		slots[i] = &callSlot{}
	}

	defer func() {
		if r := recover(); r != nil {
			fmt.Printf("VIOLATION panic: %v\n", r)
		}
	}()

	var wg sync.WaitGroup
	panicked := make(chan string, np+nc+2)
	guard := func(name string, f func()) {
		defer wg.Done()
		defer func() {
			if r := recover(); r != nil {
				panicked <- fmt.Sprintf("%s: %v", name, r)
			}
		}()
		f()
	}
	for p := 0; p < np; p++ {
		wg.Add(1)
		p := p
		go guard("producer", func() {
			r := rand.New(rand.NewSource(seed*7919 + int64(p)))
			sl := slots[p]
			for i := 0; i < ops; i++ {
				val := (p+1)*mul + i
				ctx, cancel, d := callCtx(r)
				sl.what.Store(fmt.Sprintf("producer %d Enqueue(%d) timeout %v", p, val, d))
				sl.deadline.Store(time.Now().Add(d + grace).UnixNano())
				enqStarted.Add(1)
				err := q.Enqueue(ctx, val)
				if err == nil {
					enqOK.Add(1)
					enqueuedOK[p] = append(enqueuedOK[p], val)
				} else {
					enqFailed.Add(1)
					enqueuedErr[p] = append(enqueuedErr[p], val)
					if errClass(err) != "ctx" {
						v.add("other-error", "Enqueue returned %v", err)
					}
				}
				sl.deadline.Store(0)
				cancel()
			}
		})
	}
	for c := 0; c < nc; c++ {
		wg.Add(1)
		c := c
		go guard("consumer", func() {
			r := rand.New(rand.NewSource(seed*104729 + int64(c)))
			sl := slots[np+c]
			n := ops * np / nc
			for i := 0; i < n; i++ {
				ctx, cancel, d := callCtx(r)
				sl.what.Store(fmt.Sprintf("consumer %d Dequeue timeout %v", c, d))
				sl.deadline.Store(time.Now().Add(d + grace).UnixNano())
				deqStarted.Add(1)
				val, err := q.Dequeue(ctx)
				if err == nil {
					deqOK.Add(1)
					received[c] = append(received[c], val)
				} else {
					deqFailed.Add(1)
					if val != 0 {
						v.add("exactly-once", "Dequeue returned value %d together with error %v", val, err)
					}
					if errClass(err) != "ctx" {
						v.add("other-error", "Dequeue returned %v", err)
					}
				}
				sl.deadline.Store(0)
				cancel()
			}
		})
	}

	// monitors: samples of Len / AsSlice + the ledger, and the completion watchdog
	stop := make(chan struct{})
	var mwg sync.WaitGroup
	var samples atomic.Int64
	mwg.Add(1)
	go func() {
		defer mwg.Done()
		defer func() {
			if r := recover(); r != nil {
				panicked <- fmt.Sprintf("sampler: %v", r)
			}
		}()
		for {
			select {
			case <-stop:
				return
			default:
			}
			samples.Add(1)
			if n := q.Len(); n < 0 || n > capacity {
				v.add("capacity", "Len() = %d outside 0..%d while running", n, capacity)
			}
			s := q.AsSlice()
			if len(s) > capacity {
				v.add("capacity", "len(AsSlice()) = %d > capacity %d while running", len(s), capacity)
			}
			last := map[int]int{}
			for _, x := range s {
				p := x / mul
				if prev, ok := last[p]; ok && prev >= x {
					v.add("order", "AsSlice sample %v: values of producer %d out of order", s, p-1)
				}
				last[p] = x
			}
			// stored >= enqOK - (deqStarted - deqFailed): read deqFailed, then enqOK, then deqStarted
			df := deqFailed.Load()
			eo := enqOK.Load()
			ds := deqStarted.Load()
			if eo-(ds-df) > int64(capacity) {
				v.add("capacity", "ledger: %d Enqueues returned nil while at most %d Dequeues can have taken an element: more than capacity %d stored", eo, ds-df, capacity)
			}
			// stored <= (enqStarted - enqFailed) - deqOK: read enqFailed, then deqOK, then enqStarted
			ef := enqFailed.Load()
			do := deqOK.Load()
			es := enqStarted.Load()
			if do-(es-ef) > 0 {
				v.add("exactly-once", "ledger: %d Dequeues returned a value while at most %d Enqueues can have stored one", do, es-ef)
			}
			runtime.Gosched()
		}
	}()
	hung := make(chan string, 1)
	mwg.Add(1)
	go func() {
		defer mwg.Done()
		t := time.NewTicker(50 * time.Millisecond)
		defer t.Stop()
		for {
			select {
			case <-stop:
				return
			case <-t.C:
				now := time.Now().UnixNano()
				for _, sl := range slots {
					if d := sl.deadline.Load(); d != 0 && now > d {
						w, _ := sl.what.Load().(string)
						select {
						case hung <- w:
						default:
						}
						return
					}
				}
			}
		}
	}()

	done := make(chan struct{})
	go func() { wg.Wait(); close(done) }()
	select {
	case <-done:
	case w := <-hung:
		dumpGoroutines()
		fmt.Printf("VIOLATION hang: call did not return within %v after its deadline: %s\n", grace, w)
		return
	case p := <-panicked:
		fmt.Printf("VIOLATION panic: %s\n", p)
		return
	case <-time.After(120 * time.Second):
		dumpGoroutines()
		fmt.Println("VIOLATION hang: workers did not finish within 120s")
		return
	}
	close(stop)
	mwg.Wait()
	select {
	case p := <-panicked:
		fmt.Printf("VIOLATION panic: %s\n", p)
		return
	default:
	}
	verifhook.SetMode(verifhook.Off)

	// ---- after quiescence ----
	okSet := map[int]int{} // value -> producer
	for p := range enqueuedOK {
		for _, x := range enqueuedOK[p] {
			okSet[x] = p
		}
	}
	errSet := map[int]bool{}
	for p := range enqueuedErr {
		for _, x := range enqueuedErr[p] {
			errSet[x] = true
		}
	}
	seen := map[int]int{}
	for c := range received {
		last := map[int]int{}
		for _, x := range received[c] {
			seen[x]++
			if errSet[x] {
				v.add("ctx-error-had-effect", "value %d was delivered although its Enqueue returned the context's error", x)
			} else if _, ok := okSet[x]; !ok {
				v.add("exactly-once", "value %d was delivered but never enqueued", x)
			}
			p := x / mul
			if prev, ok := last[p]; ok && prev >= x {
				v.add("order", "consumer %d received %d after %d (same producer)", c, x, prev)
			}
			last[p] = x
		}
	}
	for x, n := range seen {
		if n > 1 {
			v.add("exactly-once", "value %d delivered %d times", x, n)
		}
	}
	rest := q.AsSlice()
	want := int(enqOK.Load() - deqOK.Load())
	if q.Len() != want || len(rest) != want {
		v.add("drain", "after quiescence Len()=%d len(AsSlice())=%d, ledger says %d (enqueued %d, dequeued %d)", q.Len(), len(rest), want, enqOK.Load(), deqOK.Load())
	}
	for _, x := range rest {
		seen[x]++
		if errSet[x] {
			v.add("ctx-error-had-effect", "value %d is in the queue although its Enqueue returned the context's error", x)
		}
	}
	var lost []int
	for x := range okSet {
		if seen[x] == 0 {
			lost = append(lost, x)
		} else if seen[x] > 1 {
			v.add("exactly-once", "value %d both delivered and still in the queue / duplicated", x)
		}
	}
	if len(lost) > 0 {
		sort.Ints(lost)
		if len(lost) > 5 {
			lost = lost[:5]
		}
		v.add("exactly-once", "%d values whose Enqueue returned nil were neither delivered nor are in the queue, e.g. %v", len(lost), lost)
	}

	// capacity after cancellations: drain, fill exactly `capacity`, refuse one more, deliver in order
	bounded := func(f func(ctx context.Context) error) (error, bool) {
		ctx, cancel := context.WithTimeout(context.Background(), grace)
		defer cancel()
		err := f(ctx)
		return err, ctx.Err() != nil
	}
	for i, x := range rest {
		var got int
		err, late := bounded(func(ctx context.Context) error { var e error; got, e = q.Dequeue(ctx); return e })
		if err != nil || late {
			v.add("capacity-after-cancel", "drain: Dequeue %d of %d blocked (%v): a dequeue permit was lost", i+1, len(rest), err)
			break
		}
		if got != x {
			v.add("order", "drain: got %d, AsSlice promised %d", got, x)
		}
	}
	{
		ctx, cancel := context.WithTimeout(context.Background(), 30*time.Millisecond)
		if x, err := q.Dequeue(ctx); err == nil {
			v.add("exactly-once", "Dequeue on the drained queue returned %d", x)
		}
		cancel()
	}
	filled := 0
	for i := 0; i < capacity; i++ {
		err, late := bounded(func(ctx context.Context) error { return q.Enqueue(ctx, 9_000_000+i) })
		if err != nil || late {
			v.add("capacity-after-cancel", "after %d cancelled/failed calls the empty queue accepted only %d of %d elements without blocking: an enqueue permit was lost", enqFailed.Load()+deqFailed.Load(), filled, capacity)
			break
		}
		filled++
	}
	if filled == capacity {
		ctx, cancel := context.WithTimeout(context.Background(), 30*time.Millisecond)
		if err := q.Enqueue(ctx, 9_999_999); err == nil {
			v.add("capacity", "the full queue accepted element number %d: capacity exceeded", capacity+1)
		}
		cancel()
		if n := q.Len(); n != capacity {
			v.add("capacity", "Len() = %d after filling %d", n, capacity)
		}
		for i := 0; i < capacity; i++ {
			var got int
			err, late := bounded(func(ctx context.Context) error { var e error; got, e = q.Dequeue(ctx); return e })
			if err != nil || late {
				v.add("capacity-after-cancel", "refill: Dequeue %d of %d blocked (%v)", i+1, capacity, err)
				break
			}
			if got != 9_000_000+i {
				v.add("order", "refill: got %d want %d", got, 9_000_000+i)
			}
		}
	}

	if len(v.list) > 0 {
		for _, l := range v.list {
			fmt.Println(l)
		}
		return
	}
	fmt.Printf("ok enq_ok=%d enq_ctx=%d deq_ok=%d deq_ctx=%d samples=%d left=%d\n",
		enqOK.Load(), enqFailed.Load(), deqOK.Load(), deqFailed.Load(), samples.Load(), want)
}
