package abq

// c07-abq-bigring: directed search scenario for C07 on rings larger than the lock-step capacities
// (NOT a proof): capacities beyond 64, head moved away from 0 before the ring fills to 63..capacity
// elements, dequeue/enqueue pairs interleaved while filling, then a full drain.  Every Dequeue must
// return exactly the FIFO sequence of the tagged values (reference slice), AsSlice must equal the
// reference at several points, Len must equal the reference length, and after draining the queue
// must accept `capacity` elements again and deliver them in order.  Plus a concurrent variant
// (2 producers, 1 slower consumer, capacity 300: the ring fills, head != 0, wraps several times)
// with per-producer order / exactly-once monitors.
//
//	usage: h c07-abq-bigring <seed> [quick|thorough]
//
// prints "ok ..." or "VIOLATION fifo:big-ring: capacity=.. k=.. n=.. <first wrong position>".

import (
	"context"
	"fmt"
	"math/rand"
	"strconv"
	"sync"
	"time"

	"github.com/ecodeclub/ekit/queue"
	"github.com/ecodeclub/ekit/verifhook"
	"verifharness/reg"
)

func init() { reg.Register("c07-abq-bigring", bigRingMain) }

type ringRun struct {
	q        *queue.ConcurrentArrayBlockingQueue[int]
	ref      []int
	next     int
	ctx      context.Context
	capacity int
	k, n     int
	ops      int
}

func (r *ringRun) fail(format string, a ...any) string {
	return fmt.Sprintf("VIOLATION fifo:big-ring: capacity=%d k=%d n=%d after %d operations: ", r.capacity, r.k, r.n, r.ops) + fmt.Sprintf(format, a...)
}

func (r *ringRun) enq() string {
	r.next++
	r.ops++
	if err := r.q.Enqueue(r.ctx, r.next); err != nil {
		return r.fail("Enqueue(%d) with %d of %d stored returned %v", r.next, len(r.ref), r.capacity, err)
	}
	r.ref = append(r.ref, r.next)
	return ""
}

func (r *ringRun) deq() string {
	r.ops++
	got, err := r.q.Dequeue(r.ctx)
	if err != nil {
		return r.fail("Dequeue with %d stored returned %v", len(r.ref), err)
	}
	want := r.ref[0]
	r.ref = r.ref[1:]
	if got != want {
		return r.fail("Dequeue returned %d, FIFO order says %d (%d elements were stored)", got, want, len(r.ref)+1)
	}
	return ""
}

func (r *ringRun) look(where string) string {
	if l := r.q.Len(); l != len(r.ref) {
		return r.fail("%s: Len() = %d, reference holds %d", where, l, len(r.ref))
	}
	s := r.q.AsSlice()
	if len(s) != len(r.ref) {
		return r.fail("%s: len(AsSlice()) = %d, reference holds %d", where, len(s), len(r.ref))
	}
	for i := range s {
		if s[i] != r.ref[i] {
			return r.fail("%s: AsSlice()[%d] = %d, reference has %d (first wrong position of %d)", where, i, s[i], r.ref[i], len(s))
		}
	}
	return ""
}

// one sequential scenario; "" = fine
func bigRingSeq(rng *rand.Rand, capacity, k, n int) string {
	ctx, cancel := context.WithTimeout(context.Background(), 20*time.Second)
	defer cancel()
	r := &ringRun{q: queue.NewConcurrentArrayBlockingQueue[int](capacity), ctx: ctx, capacity: capacity, k: k, n: n}
	// move head to k
	for i := 0; i < k; i++ {
		if m := r.enq(); m != "" {
			return m
		}
	}
	for i := 0; i < k; i++ {
		if m := r.deq(); m != "" {
			return m
		}
	}
	if m := r.look("after moving head to k"); m != "" {
		return m
	}
	// fill to n with a few dequeue/enqueue pairs on the way
	pairs := map[int]bool{}
	for i := 0; i < 4; i++ {
		pairs[1+rng.Intn(n)] = true
	}
	for len(r.ref) < n {
		if m := r.enq(); m != "" {
			return m
		}
		if pairs[len(r.ref)] {
			delete(pairs, len(r.ref))
			if m := r.deq(); m != "" {
				return m
			}
			if m := r.enq(); m != "" {
				return m
			}
		}
		if l := len(r.ref); l == 64 || l == 65 || l == n/2 {
			if m := r.look(fmt.Sprintf("while filling (%d stored)", l)); m != "" {
				return m
			}
		}
	}
	if m := r.look("filled to n"); m != "" {
		return m
	}
	// drain
	half := len(r.ref) / 2
	for len(r.ref) > 0 {
		if m := r.deq(); m != "" {
			return m
		}
		if len(r.ref) == half {
			if m := r.look("half drained"); m != "" {
				return m
			}
		}
	}
	if m := r.look("drained"); m != "" {
		return m
	}
	// the queue accepts `capacity` elements again and delivers them
	for i := 0; i < capacity; i++ {
		if m := r.enq(); m != "" {
			return m
		}
	}
	if m := r.look("refilled to capacity"); m != "" {
		return m
	}
	for len(r.ref) > 0 {
		if m := r.deq(); m != "" {
			return m
		}
	}
	return r.look("drained again")
}

// concurrent variant: 2 producers, 1 consumer that first moves head, lets the ring fill, then drains slowly
func bigRingConc(seed int64, capacity, perProducer int) string {
	const np = 2
	ctx, cancel := context.WithTimeout(context.Background(), 30*time.Second)
	defer cancel()
	q := queue.NewConcurrentArrayBlockingQueue[int](capacity)
	fail := func(format string, a ...any) string {
		return fmt.Sprintf("VIOLATION fifo:big-ring: concurrent capacity=%d producers=%d consumer=1 perProducer=%d: ", capacity, np, perProducer) + fmt.Sprintf(format, a...)
	}
	// move head away from 0 before anything else (tag 0 values)
	for i := 1; i <= 7; i++ {
		if err := q.Enqueue(ctx, i); err != nil {
			return fail("initial Enqueue(%d) returned %v", i, err)
		}
	}
	for i := 1; i <= 7; i++ {
		if x, err := q.Dequeue(ctx); err != nil || x != i {
			return fail("initial Dequeue #%d returned (%d, %v), want %d", i, x, err, i)
		}
	}
	var wg sync.WaitGroup
	perr := make([]string, np)
	for p := 0; p < np; p++ {
		wg.Add(1)
		go func(p int) {
			defer wg.Done()
			for i := 1; i <= perProducer; i++ {
				if err := q.Enqueue(ctx, (p+1)*1_000_000+i); err != nil {
					perr[p] = fail("producer %d Enqueue #%d returned %v", p, i, err)
					return
				}
			}
		}(p)
	}
	rng := rand.New(rand.NewSource(seed))
	last := make([]int, np+1)
	total := np * perProducer
	msg := ""
	for i := 0; i < total && msg == ""; i++ {
		if i == 7 || (i > 7 && i%(capacity+37) == 0) {
			// let the producers fill the ring while head != 0
			deadline := time.Now().Add(200 * time.Millisecond)
			for q.Len() < capacity && total-i > capacity && time.Now().Before(deadline) {
				time.Sleep(20 * time.Microsecond)
			}
		} else if rng.Intn(16) == 0 {
			time.Sleep(time.Microsecond)
		}
		x, err := q.Dequeue(ctx)
		if err != nil {
			msg = fail("Dequeue #%d returned %v", i+1, err)
			break
		}
		p, s := x/1_000_000, x%1_000_000
		switch {
		case p < 1 || p > np || s < 1 || s > perProducer:
			msg = fail("Dequeue #%d delivered %d, which was never enqueued", i+1, x)
		case s != last[p]+1:
			msg = fail("Dequeue #%d delivered value #%d of producer %d after its value #%d (lost, duplicated or reordered)", i+1, s, p-1, last[p])
		}
		last[p] = s
	}
	if msg != "" {
		cancel()
	}
	wg.Wait()
	if msg != "" {
		return msg
	}
	for _, e := range perr {
		if e != "" {
			return e
		}
	}
	if l := q.Len(); l != 0 {
		return fail("Len() = %d after everything was delivered", l)
	}
	return ""
}

func bigRingMain(args []string) {
	seed := int64(1)
	if len(args) > 0 {
		seed, _ = strconv.ParseInt(args[0], 10, 64)
	}
	thorough := len(args) > 1 && args[1] == "thorough"
	concOnly := len(args) > 1 && args[1] == "conc"
	verifhook.SetMode(verifhook.Off)
	defer func() {
		if r := recover(); r != nil {
			fmt.Printf("VIOLATION fifo:big-ring: panic: %v\n", r)
		}
	}()
	rng := rand.New(rand.NewSource(seed))
	caps := []int{65, 100, 128, 129, 257, 1000}
	ks := []int{1, 7, 63}
	if thorough {
		caps = append(caps, 64, 66, 127, 130, 256, 511, 512, 513, 2049, 1+65+rng.Intn(3000))
		ks = append(ks, 2, 31, 64, 65, 100, 1+rng.Intn(60))
	}
	scen := 0
	for _, capacity := range caps {
		if concOnly {
			break
		}
		ns := []int{63, 64, 65, 127, 128, 129, 255, 256, 257, capacity}
		if thorough {
			ns = append(ns, 511, 512, 513, capacity-1, 1+rng.Intn(capacity))
		}
		for _, k := range ks {
			for _, n := range ns {
				if n > capacity || n < 1 || k > capacity {
					continue
				}
				scen++
				if m := bigRingSeq(rng, capacity, k, n); m != "" {
					fmt.Println(m)
					fmt.Printf("replay: h c07-abq-bigring %d   (sequential scenario capacity=%d k=%d n=%d: enqueue k, dequeue k, fill to n with a few dequeue/enqueue pairs, drain, refill capacity, drain)\n", seed, capacity, k, n)
					return
				}
			}
		}
	}
	rounds := 1
	per := 1500
	if thorough {
		rounds, per = 6, 6000
	}
	for i := 0; i < rounds; i++ {
		if m := bigRingConc(seed+int64(i), 300, per); m != "" {
			fmt.Println(m)
			return
		}
	}
	fmt.Printf("ok scenarios=%d concurrent_rounds=%d\n", scen, rounds)
}
