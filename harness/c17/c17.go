// Package c17 drives ekit.AnyValue with the cases of the C17 correspondence check.
package c17

import (
	"bufio"
	"encoding/hex"
	"encoding/json"
	"errors"
	"fmt"
	"math"
	"os"
	"reflect"
	"strconv"
	"strings"
	"unsafe"

	"github.com/ecodeclub/ekit"
	"verifharness/reg"
)

func init() { reg.Register("c17", Main) }

type (
	nInt     int
	nInt8    int8
	nInt16   int16
	nInt32   int32
	nInt64   int64
	nUint    uint
	nUint8   uint8
	nUint16  uint16
	nUint32  uint32
	nUint64  uint64
	nF32     float32
	nF64     float64
	nString  string
	nBytes   []byte
	nBool    bool
	someStru struct{ A int }
)

var errStored = errors.New("stored")

func mkInt(k string, named bool, z string) any {
	if k[0] == 'u' {
		v, err := strconv.ParseUint(z, 10, 64)
		if err != nil {
			panic(err)
		}
		switch k {
		case "u":
			if named {
				return nUint(v)
			}
			return uint(v)
		case "u8":
			if named {
				return nUint8(v)
			}
			return uint8(v)
		case "u16":
			if named {
				return nUint16(v)
			}
			return uint16(v)
		case "u32":
			if named {
				return nUint32(v)
			}
			return uint32(v)
		case "u64":
			if named {
				return nUint64(v)
			}
			return v
		}
	}
	v, err := strconv.ParseInt(z, 10, 64)
	if err != nil {
		panic(err)
	}
	switch k {
	case "i":
		if named {
			return nInt(v)
		}
		return int(v)
	case "i8":
		if named {
			return nInt8(v)
		}
		return int8(v)
	case "i16":
		if named {
			return nInt16(v)
		}
		return int16(v)
	case "i32":
		if named {
			return nInt32(v)
		}
		return int32(v)
	case "i64":
		if named {
			return nInt64(v)
		}
		return v
	}
	panic("kind " + k)
}

func unhex(h string) []byte {
	b, err := hex.DecodeString(h)
	if err != nil {
		panic(err)
	}
	return b
}

func mkHeld(s string, variant int) any {
	p := strings.Split(s, ":")
	switch p[0] {
	case "nil":
		return nil
	case "int":
		return mkInt(p[1], p[2] == "1", p[3])
	case "f32":
		b, _ := strconv.ParseUint(p[2], 10, 32)
		if p[1] == "1" {
			return nF32(math.Float32frombits(uint32(b)))
		}
		return math.Float32frombits(uint32(b))
	case "f64":
		b, _ := strconv.ParseUint(p[2], 10, 64)
		if p[1] == "1" {
			return nF64(math.Float64frombits(b))
		}
		return math.Float64frombits(b)
	case "str":
		if p[1] == "1" {
			return nString(unhex(p[2]))
		}
		return string(unhex(p[2]))
	case "bytes":
		if p[2] == "nil" { // a typed nil slice: the strict accessor succeeds with a nil result
			if p[1] == "1" {
				return nBytes(nil)
			}
			return []byte(nil)
		}
		if p[1] == "1" {
			return nBytes(unhex(p[2]))
		}
		return unhex(p[2])
	case "bool":
		if p[1] == "1" {
			return nBool(p[2] == "1")
		}
		return p[2] == "1"
	case "sliceother":
		switch variant % 3 {
		case 0:
			return []int{1, 2}
		case 1:
			return []string(nil)
		}
		return []uint16{7}
	case "other":
		switch variant % 7 {
		case 0:
			return (*int)(nil)
		case 1:
			x := 5
			return &x
		case 2:
			return someStru{A: 1}
		case 3:
			return map[string]int{"a": 1}
		case 4:
			return [3]byte{1, 2, 3}
		case 5:
			return func() {}
		}
		return make(chan int)
	}
	panic("held " + s)
}

func show(v any, err error) string {
	if err != nil {
		if err == errStored {
			return "err stored"
		}
		return "err other"
	}
	switch x := v.(type) {
	case int:
		return "ok int " + strconv.FormatInt(int64(x), 10)
	case int8:
		return "ok int " + strconv.FormatInt(int64(x), 10)
	case int16:
		return "ok int " + strconv.FormatInt(int64(x), 10)
	case int32:
		return "ok int " + strconv.FormatInt(int64(x), 10)
	case int64:
		return "ok int " + strconv.FormatInt(x, 10)
	case uint:
		return "ok int " + strconv.FormatUint(uint64(x), 10)
	case uint8:
		return "ok int " + strconv.FormatUint(uint64(x), 10)
	case uint16:
		return "ok int " + strconv.FormatUint(uint64(x), 10)
	case uint32:
		return "ok int " + strconv.FormatUint(uint64(x), 10)
	case uint64:
		return "ok int " + strconv.FormatUint(x, 10)
	case float32:
		return "ok f32 " + strconv.FormatUint(uint64(math.Float32bits(x)), 10)
	case float64:
		return "ok f64 " + strconv.FormatUint(math.Float64bits(x), 10)
	case string:
		return "ok str " + hex.EncodeToString([]byte(x))
	case []byte:
		return "ok bytes " + hex.EncodeToString(x)
	case bool:
		if x {
			return "ok bool 1"
		}
		return "ok bool 0"
	}
	return fmt.Sprintf("ok unknown %T", v)
}

func w[T any](v T, err error) (any, error) { return v, err }

func numErrClass(err error) string {
	switch {
	case err == nil:
		return "nil"
	case errors.Is(err, strconv.ErrSyntax):
		return "syntax"
	case errors.Is(err, strconv.ErrRange):
		return "range"
	}
	return "other"
}

// floatVerdict: "ok <what>" when the accessor returned exactly what the strconv call named by the model returns
// (value bits and error class), "<what>-MISMATCH ..." otherwise.
func floatVerdict(what string, bits uint64, err error, wantBits uint64, wantErr error) string {
	if bits == wantBits && numErrClass(err) == numErrClass(wantErr) {
		return "ok " + what
	}
	return fmt.Sprintf("ok %s-MISMATCH impl=%d/%s strconv=%d/%s", what, bits, numErrClass(err), wantBits, numErrClass(wantErr))
}

func exact(av ekit.AnyValue, t string) (any, error) {
	switch t {
	case "i":
		return w(av.Int())
	case "i8":
		return w(av.Int8())
	case "i16":
		return w(av.Int16())
	case "i32":
		return w(av.Int32())
	case "i64":
		return w(av.Int64())
	case "u":
		return w(av.Uint())
	case "u8":
		return w(av.Uint8())
	case "u16":
		return w(av.Uint16())
	case "u32":
		return w(av.Uint32())
	case "u64":
		return w(av.Uint64())
	case "f32":
		return w(av.Float32())
	case "f64":
		return w(av.Float64())
	case "str":
		return w(av.String())
	case "bytes":
		return w(av.Bytes())
	case "bool":
		return w(av.Bool())
	}
	panic("ty " + t)
}

func as(av ekit.AnyValue, t string, held any) string {
	var v any
	var err error
	switch t {
	case "i":
		v, err = w(av.AsInt())
	case "i8":
		v, err = w(av.AsInt8())
	case "i16":
		v, err = w(av.AsInt16())
	case "i32":
		v, err = w(av.AsInt32())
	case "i64":
		v, err = w(av.AsInt64())
	case "u":
		v, err = w(av.AsUint())
	case "u8":
		v, err = w(av.AsUint8())
	case "u16":
		v, err = w(av.AsUint16())
	case "u32":
		v, err = w(av.AsUint32())
	case "u64":
		v, err = w(av.AsUint64())
	case "f32":
		f, ferr := av.AsFloat32()
		v, err = f, ferr
		if sv, isStr := held.(string); isStr && av.Err == nil {
			// strconv.ParseFloat is outside the model (RParseFloat 32 s): the oracle instantiating it is
			// strconv.ParseFloat(s, 32) called directly, narrowed to float32, error returned as it is
			o, oerr := strconv.ParseFloat(sv, 32)
			return floatVerdict("parsefloat", uint64(math.Float32bits(f)), ferr, uint64(math.Float32bits(float32(o))), oerr)
		}
	case "f64":
		f, ferr := av.AsFloat64()
		v, err = f, ferr
		if sv, isStr := held.(string); isStr && av.Err == nil {
			o, oerr := strconv.ParseFloat(sv, 64)
			return floatVerdict("parsefloat", math.Float64bits(f), ferr, math.Float64bits(o), oerr)
		}
	case "str":
		v, err = w(av.AsString())
		if hb, isB := held.([]byte); isB && err == nil && len(hb) > 0 {
			if rs, _ := v.(string); len(rs) > 0 && unsafe.StringData(rs) == unsafe.SliceData(hb) {
				return "ok str-ALIAS-of-held-bytes " + hex.EncodeToString([]byte(rs))
			}
		}
		if err == nil {
			// strconv.FormatFloat is outside the model (RFmtFloat w bits): instantiated by FormatFloat(x, 'f', 10, w)
			want, isF := "", true
			switch x := held.(type) {
			case float32:
				want = strconv.FormatFloat(float64(x), 'f', 10, 32)
			case nF32:
				want = strconv.FormatFloat(float64(x), 'f', 10, 32)
			case float64:
				want = strconv.FormatFloat(x, 'f', 10, 64)
			case nF64:
				want = strconv.FormatFloat(float64(x), 'f', 10, 64)
			default:
				isF = false
			}
			if isF {
				if got, _ := v.(string); got != want {
					return "ok fmtfloat-MISMATCH impl=" + hex.EncodeToString([]byte(got)) + " strconv=" + hex.EncodeToString([]byte(want))
				}
				return "ok fmtfloat"
			}
		}
	case "bytes":
		b, berr := av.AsBytes()
		v, err = b, berr
		// memory behaviour (the model's byte strings are values): AsBytes of a held STRING must return fresh storage
		// (a zero-copy view of the string's bytes lets a write through the result change — or fault on — the held
		// string); of a held []byte it returns the held slice itself (that is what the code does and documents).
		if sv, isStr := held.(string); isStr && berr == nil && len(b) > 0 && len(sv) > 0 &&
			unsafe.SliceData(b) == unsafe.StringData(sv) {
			return "ok bytes-ALIAS-of-held-string " + hex.EncodeToString(b)
		}
	default:
		panic("aty " + t)
	}
	return show(v, err)
}

func ordef(av ekit.AnyValue, t string, r []string) (any, error) {
	switch r[0] {
	case "int":
		switch t {
		case "i":
			d, _ := strconv.ParseInt(r[1], 10, 64)
			return av.IntOrDefault(int(d)), nil
		case "i8":
			d, _ := strconv.ParseInt(r[1], 10, 64)
			return av.Int8OrDefault(int8(d)), nil
		case "i16":
			d, _ := strconv.ParseInt(r[1], 10, 64)
			return av.Int16OrDefault(int16(d)), nil
		case "i32":
			d, _ := strconv.ParseInt(r[1], 10, 64)
			return av.Int32OrDefault(int32(d)), nil
		case "i64":
			d, _ := strconv.ParseInt(r[1], 10, 64)
			return av.Int64OrDefault(d), nil
		case "u":
			d, _ := strconv.ParseUint(r[1], 10, 64)
			return av.UintOrDefault(uint(d)), nil
		case "u8":
			d, _ := strconv.ParseUint(r[1], 10, 64)
			return av.Uint8OrDefault(uint8(d)), nil
		case "u16":
			d, _ := strconv.ParseUint(r[1], 10, 64)
			return av.Uint16OrDefault(uint16(d)), nil
		case "u32":
			d, _ := strconv.ParseUint(r[1], 10, 64)
			return av.Uint32OrDefault(uint32(d)), nil
		case "u64":
			d, _ := strconv.ParseUint(r[1], 10, 64)
			return av.Uint64OrDefault(d), nil
		}
	case "f32":
		b, _ := strconv.ParseUint(r[1], 10, 32)
		return av.Float32OrDefault(math.Float32frombits(uint32(b))), nil
	case "f64":
		b, _ := strconv.ParseUint(r[1], 10, 64)
		return av.Float64OrDefault(math.Float64frombits(b)), nil
	case "str":
		return av.StringOrDefault(string(unhex(r[1]))), nil
	case "bytes":
		return av.BytesOrDefault(unhex(r[1])), nil
	case "bool":
		return av.BoolOrDefault(r[1] == "1"), nil
	}
	panic("ordef " + t)
}

func runCase(line string, n int) (out string) {
	defer func() {
		if r := recover(); r != nil {
			out = "panic"
		}
	}()
	f := strings.Fields(line)
	if len(f) != 3 {
		return "badcase"
	}
	held := mkHeld(f[0], n)
	av := ekit.AnyValue{Val: held}
	if f[1] == "1" {
		av.Err = errStored
	}
	a := strings.Split(f[2], ":")
	switch a[0] {
	case "exact":
		return show(exact(av, a[1]))
	case "as":
		return as(av, a[1], held)
	case "ordef":
		return show(ordef(av, a[1], a[2:]))
	case "jsonscan":
		var target any
		err := av.JSONScan(&target)
		if err == errStored {
			return "err stored"
		}
		if av.Err == nil {
			// json.Unmarshal of the held bytes is outside the model (RJsonScan data): instantiated by encoding/json
			// called directly on the same bytes — same error class, same decoded value
			var data []byte
			isData := true
			switch x := held.(type) {
			case string:
				data = []byte(x)
			case []byte:
				data = x
			default:
				isData = false
			}
			if isData {
				var want any
				werr := json.Unmarshal(data, &want)
				if (err == nil) != (werr == nil) || !reflect.DeepEqual(target, want) {
					return fmt.Sprintf("ok jsonscan-MISMATCH impl=%v/%#v json=%v/%#v", err == nil, target, werr == nil, want)
				}
				return "ok jsonscan"
			}
		}
		if err != nil {
			return "err other"
		}
		return "ok jsonscan-unexpected"
	}
	return "badcase"
}

// Main reads cases from stdin and prints one observable per line.
func Main(args []string) {
	sc := bufio.NewScanner(os.Stdin)
	sc.Buffer(make([]byte, 1<<20), 1<<24)
	out := bufio.NewWriter(os.Stdout)
	defer out.Flush()
	n := 0
	for sc.Scan() {
		fmt.Fprintln(out, runCase(sc.Text(), n))
		n++
	}
}
