// Package c18 drives sqlx.EncryptColumn[T] / sqlx.JsonColumn[T] with the cases of the C18
// correspondence check.  One case per input line, one observable per output line.
//
//	cat                                   dump the catalogue of JSON-typed values
//	V  <ty>=<val> <valid> <keyhex>        EncryptColumn[T]{Val,Valid,Key}.Value(); the harness decrypts the
//	                                      result ITSELF (crypto/aes + cipher.NewGCM) and prints the plaintext
//	S  <ty>=<prior> <pv> <keyhex> <bytes|string> <pthex> <sealkeyhex>
//	                                      the harness seals <pt> itself under <sealkey>, then Scan()
//	X  <ty>=<prior> <pv> <keyhex> <src>   Scan(<src>) with src = bytes:<hex> | string:<hex> | nil | int | float | bool | time | ibytes
//	JV <ty>=<val> <valid>                 JsonColumn[T].Value()
//	JX <ty>=<prior> <pv> <src>            JsonColumn[T].Scan(<src>)
//	(argument) conc <G> <N> <same|mixed>  concurrent Value() calls, duplicate nonces reported: see conc.go
//
// JSON-typed values are named by catalogue index (<ty>=#3) on input and printed as the hex of their
// canonical text (%#v) on output.  `jenc=` / `jdec=` are the results of calling encoding/json
// DIRECTLY on the same value (the oracle that instantiates the model's abstract JSON codec).
package c18

import (
	"bufio"
	"bytes"
	"crypto/aes"
	"crypto/cipher"
	"crypto/rand"
	"encoding/hex"
	"encoding/json"
	"errors"
	"fmt"
	"io"
	"math"
	"os"
	"sort"
	"strconv"
	"strings"
	"time"

	"github.com/ecodeclub/ekit/sqlx"
	"verifharness/reg"
)

func init() { reg.Register("c18", Main) }

// ---------- JSON-typed catalogue ----------
type stru struct {
	A int
	B string
	C []int
	D map[string]int
	E float64
	F bool
}
type unexp struct {
	A int
	b int
}
type nanStru struct {
	X float64
}
type myInt int
type nested struct {
	S  stru
	L  []stru
	M  map[string][]string
	By []byte
}

var catBool = []func() bool{func() bool { return false }, func() bool { return true }}
var catStru = []func() stru{
	func() stru { return stru{} },
	func() stru {
		return stru{A: -7, B: "héllo \"q\" \n", C: []int{1, 2, 3}, D: map[string]int{"a": 1, "b": -2}, E: 0.1, F: true}
	},
	func() stru { return stru{C: []int{}, D: map[string]int{}} },
	func() stru { return stru{A: math.MaxInt64, E: 1e308} },
	func() stru { return stru{A: math.MinInt64, B: "\xff\xfe bad utf8", E: -1.5e-300} },
	func() stru { return stru{B: "<>& ", E: math.Copysign(0, -1)} },
}
var catMap = []func() map[string]int{
	func() map[string]int { return nil },
	func() map[string]int { return map[string]int{} },
	func() map[string]int { return map[string]int{"a": 1, "b": 2, "": -3} },
}
var catSlice = []func() []string{
	func() []string { return nil },
	func() []string { return []string{} },
	func() []string { return []string{"x", "", "中文"} },
	func() []string { return []string{"\xc3\x28"} },
}
var catMapAny = []func() map[string]any{
	func() map[string]any {
		return map[string]any{"s": "t", "l": []any{1.5, nil, true}, "m": map[string]any{}}
	},
	func() map[string]any { return map[string]any{"i": 1} },
	func() map[string]any { return nil },
}
var catUnexp = []func() unexp{func() unexp { return unexp{A: 1} }, func() unexp { return unexp{A: 1, b: 2} }}
var catNaN = []func() nanStru{func() nanStru { return nanStru{X: 2.5} }, func() nanStru { return nanStru{X: math.NaN()} },
	func() nanStru { return nanStru{X: math.Inf(1)} }}
var catMyInt = []func() myInt{func() myInt { return 0 }, func() myInt { return -42 }, func() myInt { return math.MaxInt64 }}
var catNested = []func() nested{
	func() nested { return nested{} },
	func() nested {
		return nested{S: stru{A: 1}, L: []stru{{B: "x"}, {C: []int{9}}}, M: map[string][]string{"k": {"v"}}, By: []byte{0, 255, 7}}
	},
}

type myStr string
type myBytes []byte

var catTime = []func() time.Time{
	func() time.Time { return time.Time{} },
	func() time.Time { return time.Unix(0, 0).UTC() },
	func() time.Time { return time.Date(2024, 2, 29, 23, 59, 59, 999999999, time.UTC) },
	func() time.Time { return time.Date(1999, 12, 31, 1, 2, 3, 4000, time.FixedZone("X", 5*3600+1800)) },
	func() time.Time { return time.Date(10000, 1, 1, 0, 0, 0, 0, time.UTC) }, // json.Marshal: year outside [0,9999]
}
var catPtr = []func() *stru{
	func() *stru { return nil },
	func() *stru { return &stru{} },
	func() *stru { return &stru{A: 3, B: "p", C: []int{1}, D: map[string]int{"k": 2}, E: 2.5, F: true} },
}
var catStructs = []func() []stru{
	func() []stru { return nil },
	func() []stru { return []stru{} },
	func() []stru { return []stru{{A: 1}, {B: "two", C: []int{2, 2}}, {}} },
}
var catMyStr = []func() myStr{func() myStr { return "" }, func() myStr { return "named \"s\"" }, func() myStr { return "\xff" }}
var catMyBytes = []func() myBytes{func() myBytes { return nil }, func() myBytes { return myBytes{} }, func() myBytes { return myBytes{0, 1, 254, 255} }}
var catArr = []func() [3]int{func() [3]int { return [3]int{} }, func() [3]int { return [3]int{-1, 0, math.MaxInt64} }}
var catChan = []func() chan int{func() chan int { return nil }, func() chan int { return make(chan int) }}

// ---------- per-type operations ----------
type tyOps interface {
	value(val string, valid bool, key string) string
	scan(prior string, pv bool, key string, src any, pt []byte, havePt bool) string
	jvalue(val string, valid bool) string
	jscan(prior string, pv bool, src any) string
	catalogue() []string
}

type ops[T any] struct {
	name  string
	parse func(string) T
	show  func(T) string
	cat   []func() T
	isJS  bool
}

func (o ops[T]) mk(s string) T {
	if s == "#z" {
		var zero T
		return zero
	}
	if strings.HasPrefix(s, "#") {
		i, err := strconv.Atoi(s[1:])
		if err != nil || i < 0 || i >= len(o.cat) {
			panic("catalogue index " + s)
		}
		return o.cat[i]()
	}
	return o.parse(s)
}

// rep: 1 = json.Unmarshal(json.Marshal(x)) into the zero value gives x back (encoding/json alone, sqlx not involved),
// 0 = it does not, e = Marshal fails
func (o ops[T]) rep(v T) string {
	b, err := json.Marshal(v)
	if err != nil {
		return "e"
	}
	var z T
	if err := json.Unmarshal(b, &z); err != nil || o.show(z) != o.show(v) {
		return "0"
	}
	return "1"
}

func (o ops[T]) catalogue() []string {
	var out []string
	if o.isJS {
		var zero T
		out = append(out, fmt.Sprintf("%s #z %s %s", o.name, o.show(zero), o.rep(zero)))
	}
	for i, f := range o.cat {
		out = append(out, fmt.Sprintf("%s #%d %s %s", o.name, i, o.show(f()), o.rep(f())))
	}
	return out
}

// type-tagged text of the dynamic values inside map[string]any (%#v prints int 1 and float64 1 alike)
func anyRepr(v any) string {
	switch x := v.(type) {
	case map[string]any:
		if x == nil {
			return "map(nil)"
		}
		keys := make([]string, 0, len(x))
		for k := range x {
			keys = append(keys, k)
		}
		sort.Strings(keys)
		var sb strings.Builder
		sb.WriteString("map{")
		for _, k := range keys {
			sb.WriteString(strconv.Quote(k) + ":" + anyRepr(x[k]) + ",")
		}
		sb.WriteString("}")
		return sb.String()
	case []any:
		if x == nil {
			return "slice(nil)"
		}
		var sb strings.Builder
		sb.WriteString("slice[")
		for _, e := range x {
			sb.WriteString(anyRepr(e) + ",")
		}
		sb.WriteString("]")
		return sb.String()
	}
	return fmt.Sprintf("%T(%#v)", v, v)
}

func repr[T any](v T) string { return hex.EncodeToString([]byte(fmt.Sprintf("%#v", v))) }

func jsOps[T any](name string, cat []func() T) tyOps {
	return ops[T]{name: name, show: repr[T], cat: cat, isJS: true,
		parse: func(string) T { panic("json-typed values are given by catalogue index") }}
}

var refInvalid, refKeyLen, refShort, refAuth error

func setupRefs() {
	_, refInvalid = sqlx.EncryptColumn[int]{Valid: false, Key: "0123456789abcdef"}.Value()
	_, refKeyLen = sqlx.EncryptColumn[int]{Valid: true, Key: "x"}.Value()
	func() {
		defer func() { _ = recover() }()
		c := &sqlx.EncryptColumn[int]{Key: "0123456789abcdef"}
		refShort = c.Scan([]byte{1})
	}()
	blk, _ := aes.NewCipher([]byte("0123456789abcdef"))
	g, _ := cipher.NewGCM(blk)
	_, refAuth = g.Open(nil, make([]byte, 12), make([]byte, 16), nil)
}

func classify(err error) string {
	var ks aes.KeySizeError
	var e1 *json.SyntaxError
	var e2 *json.UnmarshalTypeError
	var e3 *json.UnsupportedTypeError
	var e4 *json.UnsupportedValueError
	var e5 *json.MarshalerError
	var e6 *json.InvalidUnmarshalError
	switch {
	case err == nil:
		return "ok"
	case refInvalid != nil && err == refInvalid:
		return "err invalid"
	case refKeyLen != nil && err == refKeyLen, errors.As(err, &ks):
		return "err keylen"
	case refShort != nil && err == refShort:
		return "err short"
	case refAuth != nil && err == refAuth:
		return "err auth"
	case err == io.EOF:
		return "err eof"
	case err == io.ErrUnexpectedEOF:
		return "err ueof"
	case errors.As(err, &e1), errors.As(err, &e2), errors.As(err, &e3), errors.As(err, &e4), errors.As(err, &e5), errors.As(err, &e6):
		return "err json"
	}
	return "err other"
}

func b01(b bool) string {
	if b {
		return "1"
	}
	return "0"
}

// own AES-GCM, independent of the code under test
func ownOpen(key string, stored []byte) ([]byte, bool) {
	blk, err := aes.NewCipher([]byte(key))
	if err != nil || len(stored) < 12 {
		return nil, false
	}
	g, err := cipher.NewGCM(blk)
	if err != nil {
		return nil, false
	}
	pt, err := g.Open(nil, stored[:12], stored[12:], nil)
	if err != nil {
		return nil, false
	}
	if pt == nil {
		pt = []byte{}
	}
	return pt, true
}

func ownSeal(key string, pt []byte) []byte {
	blk, err := aes.NewCipher([]byte(key))
	if err != nil {
		panic(err)
	}
	g, err := cipher.NewGCM(blk)
	if err != nil {
		panic(err)
	}
	nonce := make([]byte, 12)
	if _, err := io.ReadFull(rand.Reader, nonce); err != nil {
		panic(err)
	}
	return g.Seal(nonce, nonce, pt, nil)
}

func (o ops[T]) jencOracle(v T) string {
	if !o.isJS {
		return "-"
	}
	b, err := json.Marshal(v)
	if err != nil {
		return "err"
	}
	return "h" + hex.EncodeToString(b)
}

// json.Unmarshal(pt, &prior) called directly: resulting value and success flag
func (o ops[T]) jdecOracle(prior T, pt []byte) string {
	if !o.isJS {
		return "-"
	}
	err := json.Unmarshal(pt, &prior)
	return o.show(prior) + ":" + b01(err == nil)
}

func (o ops[T]) value(val string, valid bool, key string) (out string) {
	v := o.mk(val)
	oracle := o.jencOracle(o.mk(val))
	defer func() {
		if r := recover(); r != nil {
			out = "panic jenc=" + oracle
		}
	}()
	col := sqlx.EncryptColumn[T]{Val: v, Valid: valid, Key: key}
	dv, err := col.Value()
	if err != nil {
		return classify(err) + " jenc=" + oracle
	}
	stored, isBytes := dv.([]byte)
	if !isBytes {
		return fmt.Sprintf("ok notbytes:%T jenc=%s", dv, oracle)
	}
	pt, okOpen := ownOpen(key, stored)
	pts := "authfail"
	if okOpen {
		pts = "h" + hex.EncodeToString(pt)
	}
	return "ok stored=" + hex.EncodeToString(stored) + " pt=" + pts + " jenc=" + oracle
}

func (o ops[T]) scan(prior string, pv bool, key string, src any, pt []byte, havePt bool) (out string) {
	oracle := "-"
	if havePt {
		oracle = o.jdecOracle(o.mk(prior), pt)
	}
	col := &sqlx.EncryptColumn[T]{Val: o.mk(prior), Valid: pv, Key: key}
	defer func() {
		if r := recover(); r != nil {
			out = "panic val=" + o.name + "=" + o.show(col.Val) + " valid=" + b01(col.Valid) + " jdec=" + oracle
		}
	}()
	var before []byte
	if b, isB := src.([]byte); isB {
		before = append([]byte{}, b...)
	}
	err := col.Scan(src)
	keyNote := ""
	if col.Key != key {
		keyNote = " KEYCHANGED"
	}
	res := o.decodeClass(classify(err), src) + " val=" + o.name + "=" + o.show(col.Val) + " valid=" + b01(col.Valid)
	return res + " jdec=" + oracle + keyNote + o.srcNotes(src, before, res, func() string { return o.name + "=" + o.show(col.Val) },
		func(s any) string {
			c2 := &sqlx.EncryptColumn[T]{Val: o.mk(prior), Valid: pv, Key: key}
			e2 := c2.Scan(s)
			return o.decodeClass(classify(e2), s) + " val=" + o.name + "=" + o.show(c2.Val) + " valid=" + b01(c2.Valid)
		})
}

// srcNotes: the source of a Scan belongs to the driver (database/sql: the memory of a []byte source is only valid until
// the next call).  The model treats byte strings as immutable values, i.e. Scan is a function of (column, source) that
// leaves the source as it was and whose result does not depend on what happens to the source afterwards.  Observed here:
//
//	SRCMUT      the []byte source was modified by Scan;
//	RESCAN-DIFF scanning the very same slice a second time into an equal column gives another result;
//	ALIAS       the value restored changes when the driver overwrites its buffer after the call.
func (o ops[T]) srcNotes(src any, before []byte, first string, showVal func() string, again func(any) string) (notes string) {
	b, isB := src.([]byte)
	if !isB {
		return ""
	}
	defer func() {
		if r := recover(); r != nil {
			notes += " RESCAN-PANIC"
		}
	}()
	if !bytes.Equal(b, before) {
		notes += " SRCMUT"
	}
	if second := again(b); second != first {
		notes += " RESCAN-DIFF:" + strings.ReplaceAll(second, " ", ",")
	}
	v0 := showVal()
	for i := range b {
		b[i] = 0xA5
	}
	if showVal() != v0 {
		notes += " ALIAS"
	}
	return notes
}

func (o ops[T]) jvalue(val string, valid bool) (out string) {
	oracle := o.jencOracle(o.mk(val))
	defer func() {
		if r := recover(); r != nil {
			out = "panic jenc=" + oracle
		}
	}()
	col := sqlx.JsonColumn[T]{Val: o.mk(val), Valid: valid}
	dv, err := col.Value()
	if err != nil {
		return classify(err) + " jenc=" + oracle
	}
	switch x := dv.(type) {
	case nil:
		return "ok null jenc=" + oracle
	case []byte:
		return "ok h" + hex.EncodeToString(x) + " jenc=" + oracle
	}
	return fmt.Sprintf("ok notbytes:%T jenc=%s", dv, oracle)
}

func (o ops[T]) jscan(prior string, pv bool, src any) (out string) {
	oracle := "-"
	switch x := src.(type) {
	case []byte:
		oracle = o.jdecOracle(o.mk(prior), x)
	case string:
		oracle = o.jdecOracle(o.mk(prior), []byte(x))
	}
	col := &sqlx.JsonColumn[T]{Val: o.mk(prior), Valid: pv}
	defer func() {
		if r := recover(); r != nil {
			out = "panic val=" + o.name + "=" + o.show(col.Val) + " valid=" + b01(col.Valid) + " jdec=" + oracle
		}
	}()
	var before []byte
	if b, isB := src.([]byte); isB {
		before = append([]byte{}, b...)
	}
	err := col.Scan(src)
	res := o.decodeClass(classify(err), src) + " val=" + o.name + "=" + o.show(col.Val) + " valid=" + b01(col.Valid)
	return res + " jdec=" + oracle + o.srcNotes(src, before, res, func() string { return o.name + "=" + o.show(col.Val) },
		func(s any) string {
			c2 := &sqlx.JsonColumn[T]{Val: o.mk(prior), Valid: pv}
			e2 := c2.Scan(s)
			return o.decodeClass(classify(e2), s) + " val=" + o.name + "=" + o.show(c2.Val) + " valid=" + b01(c2.Valid)
		})
}

// An error of no recognised class, returned for a []byte/string source into a JSON-typed T, can only come from the
// decoding stage: json.Unmarshal passes the errors of UnmarshalJSON methods (time.Time) through unwrapped.
func (o ops[T]) decodeClass(cls string, src any) string {
	if cls != "err other" || !o.isJS {
		return cls
	}
	switch src.(type) {
	case []byte, string:
		return "err json"
	}
	return cls
}

func unhex(h string) []byte {
	h = strings.TrimPrefix(h, "h")
	b, err := hex.DecodeString(h)
	if err != nil {
		panic("hex " + h)
	}
	return b
}

func pInt(s string, bits int) int64 {
	v, err := strconv.ParseInt(s, 10, bits)
	if err != nil {
		panic(err)
	}
	return v
}

func pUint(s string, bits int) uint64 {
	v, err := strconv.ParseUint(s, 10, bits)
	if err != nil {
		panic(err)
	}
	return v
}

func sInt[T ~int | ~int8 | ~int16 | ~int32 | ~int64](v T) string {
	return strconv.FormatInt(int64(v), 10)
}
func sUint[T ~uint | ~uint8 | ~uint16 | ~uint32 | ~uint64](v T) string {
	return strconv.FormatUint(uint64(v), 10)
}

var table = map[string]tyOps{
	"str": ops[string]{name: "str", parse: func(s string) string { return string(unhex(s)) }, show: func(v string) string { return hex.EncodeToString([]byte(v)) }},
	"bytes": ops[[]byte]{name: "bytes",
		parse: func(s string) []byte { // "nil" = []byte(nil); "" = empty but non-nil
			if s == "nil" {
				return nil
			}
			b := unhex(s)
			if b == nil {
				b = []byte{}
			}
			return b
		},
		show: func(v []byte) string {
			if v == nil {
				return "nil"
			}
			return hex.EncodeToString(v)
		}},
	"i8":   ops[int8]{name: "i8", parse: func(s string) int8 { return int8(pInt(s, 8)) }, show: sInt[int8]},
	"i16":  ops[int16]{name: "i16", parse: func(s string) int16 { return int16(pInt(s, 16)) }, show: sInt[int16]},
	"i32":  ops[int32]{name: "i32", parse: func(s string) int32 { return int32(pInt(s, 32)) }, show: sInt[int32]},
	"i64":  ops[int64]{name: "i64", parse: func(s string) int64 { return pInt(s, 64) }, show: sInt[int64]},
	"int":  ops[int]{name: "int", parse: func(s string) int { return int(pInt(s, 64)) }, show: sInt[int]},
	"u8":   ops[uint8]{name: "u8", parse: func(s string) uint8 { return uint8(pUint(s, 8)) }, show: sUint[uint8]},
	"u16":  ops[uint16]{name: "u16", parse: func(s string) uint16 { return uint16(pUint(s, 16)) }, show: sUint[uint16]},
	"u32":  ops[uint32]{name: "u32", parse: func(s string) uint32 { return uint32(pUint(s, 32)) }, show: sUint[uint32]},
	"u64":  ops[uint64]{name: "u64", parse: func(s string) uint64 { return pUint(s, 64) }, show: sUint[uint64]},
	"uint": ops[uint]{name: "uint", parse: func(s string) uint { return uint(pUint(s, 64)) }, show: sUint[uint]},
	"f32": ops[float32]{name: "f32", parse: func(s string) float32 { return math.Float32frombits(uint32(pUint(s, 32))) },
		show: func(v float32) string { return strconv.FormatUint(uint64(math.Float32bits(v)), 10) }},
	"f64": ops[float64]{name: "f64", parse: func(s string) float64 { return math.Float64frombits(pUint(s, 64)) },
		show: func(v float64) string { return strconv.FormatUint(math.Float64bits(v), 10) }},
	"json:bool":  jsOps("json:bool", catBool),
	"json:stru":  jsOps("json:stru", catStru),
	"json:map":   jsOps("json:map", catMap),
	"json:slice": jsOps("json:slice", catSlice),
	"json:mapany": ops[map[string]any]{name: "json:mapany", cat: catMapAny, isJS: true,
		show:  func(v map[string]any) string { return hex.EncodeToString([]byte(anyRepr(v))) },
		parse: func(string) map[string]any { panic("catalogue only") }},
	"json:unexp":  jsOps("json:unexp", catUnexp),
	"json:nan":    jsOps("json:nan", catNaN),
	"json:myint":  jsOps("json:myint", catMyInt),
	"json:nested": jsOps("json:nested", catNested),
	"json:time": ops[time.Time]{name: "json:time", cat: catTime, isJS: true, // canonical text: instant + zone offset (no monotonic clock, no zone name)
		show:  func(v time.Time) string { return hex.EncodeToString([]byte(v.Format(time.RFC3339Nano))) },
		parse: func(string) time.Time { panic("catalogue only") }},
	"json:ptr": ops[*stru]{name: "json:ptr", cat: catPtr, isJS: true, // the pointee, not the address
		show: func(v *stru) string {
			if v == nil {
				return hex.EncodeToString([]byte("(*stru)(nil)"))
			}
			return hex.EncodeToString([]byte(fmt.Sprintf("&%#v", *v)))
		},
		parse: func(string) *stru { panic("catalogue only") }},
	"json:structs": jsOps("json:structs", catStructs),
	"json:mystr":   jsOps("json:mystr", catMyStr),
	"json:mybytes": jsOps("json:mybytes", catMyBytes),
	"json:arr":     jsOps("json:arr", catArr),
	"json:chan": ops[chan int]{name: "json:chan", cat: catChan, isJS: true, // %#v of a channel is an address: canonicalise
		show: func(v chan int) string {
			if v == nil {
				return hex.EncodeToString([]byte("chan(nil)"))
			}
			return hex.EncodeToString([]byte("chan(non-nil)"))
		},
		parse: func(string) chan int { panic("catalogue only") }},
}

func splitTV(s string) (tyOps, string) {
	i := strings.IndexByte(s, '=')
	if i < 0 {
		panic("value " + s)
	}
	o, found := table[s[:i]]
	if !found {
		panic("type " + s[:i])
	}
	return o, s[i+1:]
}

// a source value as database/sql could deliver it
func mkSrc(s string) any {
	switch {
	case strings.HasPrefix(s, "bytes:"):
		return unhex(s[6:])
	case strings.HasPrefix(s, "string:"):
		return string(unhex(s[7:]))
	}
	switch s {
	case "nil":
		return nil
	case "int":
		return int64(42)
	case "float":
		return 1.5
	case "bool":
		return true
	case "time":
		return time.Unix(0, 0)
	case "ibytes": // a []byte hidden behind a defined type: not matched by `case []byte`
		type raw []byte
		return raw("abc")
	}
	panic("src " + s)
}

func one(line string) (out string) {
	defer func() {
		if r := recover(); r != nil {
			out = fmt.Sprintf("badcase %v", r)
		}
	}()
	f := strings.Fields(line)
	if len(f) == 0 {
		return "badcase empty"
	}
	switch f[0] {
	case "V":
		o, v := splitTV(f[1])
		return o.value(v, f[2] == "1", string(unhex(f[3])))
	case "S":
		o, v := splitTV(f[1])
		pt := unhex(f[5])
		stored := ownSeal(string(unhex(f[6])), pt)
		var src any = stored
		if f[4] == "string" {
			src = string(stored)
		}
		return o.scan(v, f[2] == "1", string(unhex(f[3])), src, pt, true)
	case "X":
		o, v := splitTV(f[1])
		key := string(unhex(f[3]))
		src := mkSrc(f[4])
		var pt []byte
		have := false
		switch x := src.(type) {
		case []byte:
			pt, have = ownOpen(key, x)
		case string:
			pt, have = ownOpen(key, []byte(x))
		}
		return o.scan(v, f[2] == "1", key, src, pt, have)
	case "JV":
		o, v := splitTV(f[1])
		return o.jvalue(v, f[2] == "1")
	case "JX":
		o, v := splitTV(f[1])
		return o.jscan(v, f[2] == "1", mkSrc(f[3]))
	}
	return "badcase " + f[0]
}

// Main reads cases from stdin.
func Main(args []string) {
	setupRefs()
	w := bufio.NewWriterSize(os.Stdout, 1<<20)
	defer w.Flush()
	if len(args) > 0 && args[0] == "cat" {
		for name, o := range table {
			_ = name
			for _, l := range o.catalogue() {
				fmt.Fprintln(w, l)
			}
		}
		return
	}
	if len(args) > 0 && args[0] == "conc" {
		concMain(w, args[1:])
		return
	}
	if len(args) > 0 && args[0] == "anyprobe" {
		anyProbe(w)
		return
	}
	if len(args) > 0 && args[0] == "concv" {
		concvMain(w, args[1:])
		return
	}
	sc := bufio.NewScanner(os.Stdin)
	sc.Buffer(make([]byte, 1<<20), 1<<26)
	for sc.Scan() {
		fmt.Fprintln(w, one(sc.Text()))
	}
}

// anyProbe: EncryptColumn[any] — outside the T's the property lists; Value() switches on the DYNAMIC type of Val,
// Scan() on the static type *any (JSON path).  Printed for the record (evidence), not compared.
func anyProbe(w io.Writer) {
	key := "0123456789abcdef"
	for _, x := range []any{"123", "hello", 7, int8(1), 2.5, true, map[string]any{"a": "b"}, []byte("ab"), nil} {
		func() {
			defer func() {
				if r := recover(); r != nil {
					fmt.Fprintf(w, "any %s panic\n", hex.EncodeToString([]byte(anyRepr(x))))
				}
			}()
			v, err := sqlx.EncryptColumn[any]{Val: x, Valid: true, Key: key}.Value()
			d := &sqlx.EncryptColumn[any]{Key: key}
			var err2 error
			if err == nil {
				err2 = d.Scan(v)
			}
			fmt.Fprintf(w, "any in=%s value=%s scan=%s out=%s valid=%s\n", hex.EncodeToString([]byte(anyRepr(x))),
				strings.ReplaceAll(classify(err), " ", "-"), strings.ReplaceAll(classify(err2), " ", "-"),
				hex.EncodeToString([]byte(anyRepr(d.Val))), b01(d.Valid))
		}()
	}
}
