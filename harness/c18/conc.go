package c18

// Concurrent phase of the C18 check: G goroutines call Value() N times each on columns with the SAME key
// (mode "same": also the same value and type; mode "mixed": every goroutine its own type/value), released
// together by a barrier.  Every 12-byte nonce is collected; a nonce used twice under one key is reported
// (with AES-GCM that is a break of confidentiality AND authenticity, and for equal values it makes the two
// ciphertexts identical).  This checks the premise of fresh_nonce_gives_distinct_ciphertexts — nonce
// freshness — on the real code, also under concurrency.
//
//	h c18 conc <goroutines> <iterations> <same|mixed>
//
// prints one line:
//	conc g=<G> n=<N> mode=<m> total=<calls> errors=<e> dup_nonces=<d> dup_stored=<s> first=<noncehex|-> at=<g1>/<i1>,<g2>/<i2> sample=<hex,...>

import (
	"encoding/hex"
	"fmt"
	"hash/fnv"
	"io"
	"math"
	"sort"
	"strconv"
	"strings"
	"sync"

	"github.com/ecodeclub/ekit/sqlx"
)

type nrec struct {
	nonce [12]byte
	sum   uint64 // FNV-1a of the whole stored value
	g, i  int32
}

func valueFn(mode string, g int, key string) func() (any, error) {
	if mode == "same" {
		c := sqlx.EncryptColumn[int]{Val: 5, Valid: true, Key: key}
		return func() (any, error) { return c.Value() }
	}
	switch g % 6 {
	case 0:
		c := sqlx.EncryptColumn[int64]{Val: int64(g) - 3, Valid: true, Key: key}
		return func() (any, error) { return c.Value() }
	case 1:
		c := sqlx.EncryptColumn[string]{Val: "value-" + strconv.Itoa(g), Valid: true, Key: key}
		return func() (any, error) { return c.Value() }
	case 2:
		c := sqlx.EncryptColumn[[]byte]{Val: []byte{byte(g), 0, 255}, Valid: true, Key: key}
		return func() (any, error) { return c.Value() }
	case 3:
		c := sqlx.EncryptColumn[float64]{Val: float64(g) / 7, Valid: true, Key: key}
		return func() (any, error) { return c.Value() }
	case 4:
		c := sqlx.EncryptColumn[stru]{Val: stru{A: g, B: "s"}, Valid: true, Key: key}
		return func() (any, error) { return c.Value() }
	}
	c := sqlx.EncryptColumn[uint8]{Val: uint8(g), Valid: true, Key: key}
	return func() (any, error) { return c.Value() }
}

func concMain(w io.Writer, args []string) {
	if len(args) < 3 {
		fmt.Fprintln(w, "badcase usage: conc <goroutines> <iterations> <same|mixed>")
		return
	}
	G, _ := strconv.Atoi(args[0])
	N, _ := strconv.Atoi(args[1])
	mode := args[2]
	key := "0123456789abcdef0123456789abcdef"
	per := make([][]nrec, G)
	errs := make([]int, G)
	var start, done sync.WaitGroup
	start.Add(1)
	for g := 0; g < G; g++ {
		done.Add(1)
		go func(g int) {
			defer done.Done()
			f := valueFn(mode, g, key)
			recs := make([]nrec, 0, N)
			start.Wait()
			for i := 0; i < N; i++ {
				func() {
					defer func() {
						if r := recover(); r != nil {
							errs[g]++
						}
					}()
					v, err := f()
					b, isBytes := v.([]byte)
					if err != nil || !isBytes || len(b) < 12 {
						errs[g]++
						return
					}
					h := fnv.New64a()
					_, _ = h.Write(b)
					r := nrec{sum: h.Sum64(), g: int32(g), i: int32(i)}
					copy(r.nonce[:], b[:12])
					recs = append(recs, r)
				}()
			}
			per[g] = recs
		}(g)
	}
	start.Done()
	done.Wait()
	var all []nrec
	nerr := 0
	for g := 0; g < G; g++ {
		all = append(all, per[g]...)
		nerr += errs[g]
	}
	sort.Slice(all, func(a, b int) bool {
		x, y := all[a].nonce, all[b].nonce
		for k := 0; k < 12; k++ {
			if x[k] != y[k] {
				return x[k] < y[k]
			}
		}
		return false
	})
	dupN, dupS := 0, 0
	first, at := "-", "-"
	for k := 1; k < len(all); k++ {
		if all[k].nonce == all[k-1].nonce {
			dupN++
			if all[k].sum == all[k-1].sum {
				dupS++
			}
			if first == "-" {
				first = hex.EncodeToString(all[k].nonce[:])
				at = fmt.Sprintf("%d/%d,%d/%d", all[k-1].g, all[k-1].i, all[k].g, all[k].i)
			}
		}
	}
	sample := ""
	for g := 0; g < G && g < 4; g++ {
		if len(per[g]) > 0 {
			if sample != "" {
				sample += ","
			}
			sample += hex.EncodeToString(per[g][len(per[g])/2].nonce[:])
		}
	}
	if sample == "" {
		sample = "-"
	}
	fmt.Fprintf(w, "conc g=%d n=%d mode=%s total=%d errors=%d dup_nonces=%d dup_stored=%d first=%s at=%s sample=%s\n",
		G, N, mode, len(all), nerr, dupN, dupS, first, at, sample)
}

// ---------- concurrent Value()/Scan() with per-goroutine verification ----------
//
//	h c18 concv <goroutines> <iterations>
//
// Every goroutine owns ONE numeric type and a stream of distinct values of it (goroutine g: type g mod 12).  All
// goroutines are released together and, per iteration: Value(); the harness decrypts the result itself (crypto/aes +
// GCM) and compares the plaintext with the big-endian encoding of THIS goroutine's value (computed here by shifts,
// independently of encoding/binary); then Scan() into a fresh column must give Valid = true and the value back.
// Output: `rec <ty> <val> h<pt>` lines (a sample, re-checked by checks/c18.py against its big-integer codec oracle,
// which is itself compared with the model's encode_num on every run) and one summary line
//
//	concv g=<G> n=<N> total=<calls> errors=<e> bad_pt=<k> bad_scan=<k> first=<ty>:<val>:<expected>:<decrypted>:<scan> at=<g>/<i>
type vstat struct {
	calls, errs, badPt, badScan int
	first, at                   string
	recs                        []string
}

func beBytes(bits uint64, width int) []byte {
	out := make([]byte, width)
	for k := 0; k < width; k++ {
		out[width-1-k] = byte(bits >> (8 * k))
	}
	return out
}

func lcg(x uint64) uint64 { return x*6364136223846793005 + 1442695040888963407 }

func verifyWorker[T comparable](ty string, g, n int, key string, width int, mk func(uint64) T, bits func(T) uint64,
	show func(T) string, start *sync.WaitGroup, st *vstat) {
	x := lcg(uint64(g)*7919 + 1)
	start.Wait()
	for i := 0; i < n; i++ {
		x = lcg(x)
		v := mk(x >> 7)
		func() {
			defer func() {
				if r := recover(); r != nil {
					st.errs++
				}
			}()
			st.calls++
			dv, err := sqlx.EncryptColumn[T]{Val: v, Valid: true, Key: key}.Value()
			stored, isBytes := dv.([]byte)
			if err != nil || !isBytes {
				st.errs++
				return
			}
			want := beBytes(bits(v), width)
			pt, okOpen := ownOpen(key, stored)
			ptOK := okOpen && string(pt) == string(want)
			dst := &sqlx.EncryptColumn[T]{Key: key}
			serr := dst.Scan(stored)
			// floats: compare bit patterns (NaN != NaN)
			scanOK := serr == nil && dst.Valid && bits(dst.Val) == bits(v)
			if !ptOK {
				st.badPt++
			}
			if !scanOK {
				st.badScan++
			}
			if (!ptOK || !scanOK) && st.first == "" {
				dec := "authfail"
				if okOpen {
					dec = hex.EncodeToString(pt)
				}
				st.first = fmt.Sprintf("%s:%s:%s:%s:%s/val=%s/valid=%s", ty, show(v), hex.EncodeToString(want), dec,
					classify(serr), show(dst.Val), b01(dst.Valid))
				st.first = strings.ReplaceAll(st.first, " ", "_")
				st.at = fmt.Sprintf("%d/%d", g, i)
			}
			if okOpen && (i < 6 || !ptOK) && len(st.recs) < 40 {
				st.recs = append(st.recs, fmt.Sprintf("rec %s %s h%s", ty, show(v), hex.EncodeToString(pt)))
			}
		}()
	}
}

func concvMain(w io.Writer, args []string) {
	if len(args) < 2 {
		fmt.Fprintln(w, "badcase usage: concv <goroutines> <iterations>")
		return
	}
	G, _ := strconv.Atoi(args[0])
	N, _ := strconv.Atoi(args[1])
	key := "0123456789abcdef01234567"
	stats := make([]vstat, G)
	var start, done sync.WaitGroup
	start.Add(1)
	f32 := func(v float32) uint64 { return uint64(math.Float32bits(v)) }
	for g := 0; g < G; g++ {
		done.Add(1)
		go func(g int) {
			defer done.Done()
			st := &stats[g]
			switch g % 12 {
			case 0:
				verifyWorker("i64", g, N, key, 8, func(x uint64) int64 { return int64(x * 0x9E3779B97F4A7C15) }, func(v int64) uint64 { return uint64(v) }, sInt[int64], &start, st)
			case 1:
				verifyWorker("u16", g, N, key, 2, func(x uint64) uint16 { return uint16(x) }, func(v uint16) uint64 { return uint64(v) }, sUint[uint16], &start, st)
			case 2:
				verifyWorker("int", g, N, key, 8, func(x uint64) int { return int(int64(x * 0xD1B54A32D192ED03)) }, func(v int) uint64 { return uint64(int64(v)) }, sInt[int], &start, st)
			case 3:
				verifyWorker("f64", g, N, key, 8, func(x uint64) float64 { return math.Float64frombits(x * 0x9E3779B97F4A7C15) }, math.Float64bits,
					func(v float64) string { return strconv.FormatUint(math.Float64bits(v), 10) }, &start, st)
			case 4:
				verifyWorker("i8", g, N, key, 1, func(x uint64) int8 { return int8(x) }, func(v int8) uint64 { return uint64(uint8(v)) }, sInt[int8], &start, st)
			case 5:
				verifyWorker("u32", g, N, key, 4, func(x uint64) uint32 { return uint32(x) }, func(v uint32) uint64 { return uint64(v) }, sUint[uint32], &start, st)
			case 6:
				verifyWorker("uint", g, N, key, 8, func(x uint64) uint { return uint(x * 0x9E3779B97F4A7C15) }, func(v uint) uint64 { return uint64(v) }, sUint[uint], &start, st)
			case 7:
				verifyWorker("i16", g, N, key, 2, func(x uint64) int16 { return int16(x) }, func(v int16) uint64 { return uint64(uint16(v)) }, sInt[int16], &start, st)
			case 8:
				verifyWorker("f32", g, N, key, 4, func(x uint64) float32 { return math.Float32frombits(uint32(x)) }, f32,
					func(v float32) string { return strconv.FormatUint(uint64(math.Float32bits(v)), 10) }, &start, st)
			case 9:
				verifyWorker("u64", g, N, key, 8, func(x uint64) uint64 { return x * 0xD1B54A32D192ED03 }, func(v uint64) uint64 { return v }, sUint[uint64], &start, st)
			case 10:
				verifyWorker("i32", g, N, key, 4, func(x uint64) int32 { return int32(x) }, func(v int32) uint64 { return uint64(uint32(v)) }, sInt[int32], &start, st)
			default:
				verifyWorker("u8", g, N, key, 1, func(x uint64) uint8 { return uint8(x) }, func(v uint8) uint64 { return uint64(v) }, sUint[uint8], &start, st)
			}
		}(g)
	}
	start.Done()
	done.Wait()
	tot := vstat{first: "-", at: "-"}
	for g := range stats {
		s := &stats[g]
		tot.calls += s.calls
		tot.errs += s.errs
		tot.badPt += s.badPt
		tot.badScan += s.badScan
		if s.first != "" && tot.first == "-" {
			tot.first, tot.at = s.first, s.at
		}
		for _, r := range s.recs {
			fmt.Fprintln(w, r)
		}
	}
	fmt.Fprintf(w, "concv g=%d n=%d total=%d errors=%d bad_pt=%d bad_scan=%d first=%s at=%s\n",
		G, N, tot.calls, tot.errs, tot.badPt, tot.badScan, tot.first, tot.at)
}
