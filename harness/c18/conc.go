package c18

// Concurrent phase of the C18 check: G goroutines call Value() N times each on columns with the SAME key
// (mode "same": also the same value and type; mode "mixed": every goroutine its own type/value), released
// together by a barrier.  Every 12-byte nonce is collected; a nonce used twice under one key is reported
// (with AES-GCM that is a break of confidentiality AND authenticity, and for equal values it makes the two
// ciphertexts identical).  This checks the premise of fresh_nonce_gives_distinct_ciphertexts — nonce
// freshness — on the real code, also under concurrency.
//
//	h c18 conc <goroutines> <iterations> <same|mixed>
//
// prints one line:
//	conc g=<G> n=<N> mode=<m> total=<calls> errors=<e> dup_nonces=<d> dup_stored=<s> first=<noncehex|-> at=<g1>/<i1>,<g2>/<i2> sample=<hex,...>

import (
	"encoding/hex"
	"fmt"
	"hash/fnv"
	"io"
	"sort"
	"strconv"
	"sync"

	"github.com/ecodeclub/ekit/sqlx"
)

type nrec struct {
	nonce [12]byte
	sum   uint64 // FNV-1a of the whole stored value
	g, i  int32
}

func valueFn(mode string, g int, key string) func() (any, error) {
	if mode == "same" {
		c := sqlx.EncryptColumn[int]{Val: 5, Valid: true, Key: key}
		return func() (any, error) { return c.Value() }
	}
	switch g % 6 {
	case 0:
		c := sqlx.EncryptColumn[int64]{Val: int64(g) - 3, Valid: true, Key: key}
		return func() (any, error) { return c.Value() }
	case 1:
		c := sqlx.EncryptColumn[string]{Val: "value-" + strconv.Itoa(g), Valid: true, Key: key}
		return func() (any, error) { return c.Value() }
	case 2:
		c := sqlx.EncryptColumn[[]byte]{Val: []byte{byte(g), 0, 255}, Valid: true, Key: key}
		return func() (any, error) { return c.Value() }
	case 3:
		c := sqlx.EncryptColumn[float64]{Val: float64(g) / 7, Valid: true, Key: key}
		return func() (any, error) { return c.Value() }
	case 4:
		c := sqlx.EncryptColumn[stru]{Val: stru{A: g, B: "s"}, Valid: true, Key: key}
		return func() (any, error) { return c.Value() }
	}
	c := sqlx.EncryptColumn[uint8]{Val: uint8(g), Valid: true, Key: key}
	return func() (any, error) { return c.Value() }
}

func concMain(w io.Writer, args []string) {
	if len(args) < 3 {
		fmt.Fprintln(w, "badcase usage: conc <goroutines> <iterations> <same|mixed>")
		return
	}
	G, _ := strconv.Atoi(args[0])
	N, _ := strconv.Atoi(args[1])
	mode := args[2]
	key := "0123456789abcdef0123456789abcdef"
	per := make([][]nrec, G)
	errs := make([]int, G)
	var start, done sync.WaitGroup
	start.Add(1)
	for g := 0; g < G; g++ {
		done.Add(1)
		go func(g int) {
			defer done.Done()
			f := valueFn(mode, g, key)
			recs := make([]nrec, 0, N)
			start.Wait()
			for i := 0; i < N; i++ {
				func() {
					defer func() {
						if r := recover(); r != nil {
							errs[g]++
						}
					}()
					v, err := f()
					b, isBytes := v.([]byte)
					if err != nil || !isBytes || len(b) < 12 {
						errs[g]++
						return
					}
					h := fnv.New64a()
					_, _ = h.Write(b)
					r := nrec{sum: h.Sum64(), g: int32(g), i: int32(i)}
					copy(r.nonce[:], b[:12])
					recs = append(recs, r)
				}()
			}
			per[g] = recs
		}(g)
	}
	start.Done()
	done.Wait()
	var all []nrec
	nerr := 0
	for g := 0; g < G; g++ {
		all = append(all, per[g]...)
		nerr += errs[g]
	}
	sort.Slice(all, func(a, b int) bool {
		x, y := all[a].nonce, all[b].nonce
		for k := 0; k < 12; k++ {
			if x[k] != y[k] {
				return x[k] < y[k]
			}
		}
		return false
	})
	dupN, dupS := 0, 0
	first, at := "-", "-"
	for k := 1; k < len(all); k++ {
		if all[k].nonce == all[k-1].nonce {
			dupN++
			if all[k].sum == all[k-1].sum {
				dupS++
			}
			if first == "-" {
				first = hex.EncodeToString(all[k].nonce[:])
				at = fmt.Sprintf("%d/%d,%d/%d", all[k-1].g, all[k-1].i, all[k].g, all[k].i)
			}
		}
	}
	sample := ""
	for g := 0; g < G && g < 4; g++ {
		if len(per[g]) > 0 {
			if sample != "" {
				sample += ","
			}
			sample += hex.EncodeToString(per[g][len(per[g])/2].nonce[:])
		}
	}
	if sample == "" {
		sample = "-"
	}
	fmt.Fprintf(w, "conc g=%d n=%d mode=%s total=%d errors=%d dup_nonces=%d dup_stored=%d first=%s at=%s sample=%s\n",
		G, N, mode, len(all), nerr, dupN, dupS, first, at, sample)
}
