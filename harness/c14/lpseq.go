package c14

import (
	"bufio"
	"encoding/hex"
	"fmt"
	"os"
	"strconv"
	"strings"

	"github.com/ecodeclub/ekit/syncx"
	"verifharness/reg"
)

func init() {
	reg.Register("c14-lpseq", lpseqMain)
	reg.Register("c14-segkey-index", segkeyIndexMain)
}

// lpseqMain: sequential differential of NewLimitPool/Get/Put against `modelrun limitpool-seq`.
//
//	"<maxTokens> tok tok ..." per line;  g<n> = n Gets -> "g<successes>",  p<k> = Put back min(k, held) objects -> "p<put>",
//	t = the token counter read through the white-box accessor -> "t<value>" ("tna" when the accessor is not available).
//
// Every (obj, ok) returned by Get goes through lpTracker.onGet; a violated object clause is appended as " !<text>".
// Last line of the output: "# fresh=<n> recycled=<m>" (coverage, not compared).
func lpseqMain(args []string) {
	sc := bufio.NewScanner(os.Stdin)
	sc.Buffer(make([]byte, 1<<20), 1<<24)
	out := bufio.NewWriter(os.Stdout)
	defer out.Flush()
	var fresh, recycled int64
	for sc.Scan() {
		f := strings.Fields(sc.Text())
		if len(f) == 0 {
			fmt.Fprintln(out)
			continue
		}
		res := make([]string, 0, len(f)-1)
		func() {
			defer func() {
				if r := recover(); r != nil {
					res = append(res, "panic")
				}
			}()
			m, err := strconv.ParseInt(f[0], 10, 64)
			if err != nil {
				res = append(res, "badcase")
				return
			}
			t := &lpTracker{}
			p := syncx.NewLimitPool(int(m), t.factory)
			var held []*lpObj
			nput := 0
			for _, tok := range f[1:] {
				switch tok[0] {
				case 't':
					if v, ok := p.VerifTokens(); ok {
						res = append(res, "t"+strconv.FormatInt(v, 10))
					} else {
						res = append(res, "tna")
					}
				case 'g':
					n, _ := strconv.Atoi(tok[1:])
					succ, bad := 0, ""
					for i := 0; i < n; i++ {
						o, ok := p.Get()
						if msg := t.onGet(o, ok); msg != "" && bad == "" {
							bad = " !" + strings.ReplaceAll(msg, " ", "_")
						}
						if ok {
							succ++
							if o != nil {
								held = append(held, o)
							}
						}
					}
					res = append(res, "g"+strconv.Itoa(succ)+bad)
				case 'p':
					k, _ := strconv.Atoi(tok[1:])
					done := 0
					for ; done < k && len(held) > 0; done++ {
						i := 0
						if nput%2 == 1 {
							i = len(held) - 1
						}
						nput++
						o := held[i]
						held = append(held[:i], held[i+1:]...)
						t.beforePut(o)
						p.Put(o)
					}
					res = append(res, "p"+strconv.Itoa(done))
				default:
					res = append(res, "badop")
				}
			}
			fresh += t.fresh.Load()
			recycled += t.recycled.Load()
		}()
		fmt.Fprintln(out, strings.Join(res, " "))
		out.Flush()
	}
	fmt.Fprintf(out, "# fresh=%d recycled=%d\n", fresh, recycled)
}

// segkeyIndexMain: "<size> [hexkey]" per line (no hexkey = the empty key) -> the index of the segment the implementation
// uses for the key (position in s.locks of getLock(key), white-box), compared with `modelrun segkey-index`.
// Every public method is then probed on that segment's mutex: Lock/TryLock(key) must write-lock exactly it, RLock/TryRLock(key)
// read-lock it, Unlock/RUnlock(key) release it; a method that works on another segment is appended as " !<Method>".
// Consecutive lines with the same size share one instance (every probe leaves it unlocked).
const abandon = "abandon the instance"

func segkeyIndexMain(args []string) {
	sc := bufio.NewScanner(os.Stdin)
	sc.Buffer(make([]byte, 1<<20), 1<<24)
	out := bufio.NewWriter(os.Stdout)
	defer out.Flush()
	var l *syncx.SegmentKeysLock
	cur := uint64(0)
	for sc.Scan() {
		f := strings.Fields(sc.Text())
		if len(f) == 0 {
			fmt.Fprintln(out, "bad")
			continue
		}
		size, err := strconv.ParseUint(f[0], 10, 32)
		if err != nil || size == 0 {
			fmt.Fprintln(out, "bad")
			continue
		}
		var raw []byte
		if len(f) > 1 {
			raw, _ = hex.DecodeString(f[1])
		}
		line := ""
		func() {
			defer func() {
				if r := recover(); r != nil {
					if !strings.Contains(line, "!") { // a "!finding" abandons the instance through panic(abandon)
						line = "panic"
					}
					l = nil
				}
			}()
			if l == nil || cur != size {
				l = syncx.NewSegmentKeysLock(uint32(size))
				cur = size
			}
			key := func() string { return string(append([]byte(nil), raw...)) } // fresh allocation per call
			idx, ok := l.VerifIndex(key())
			if !ok {
				line = "na"
				return
			}
			line = strconv.Itoa(idx)
			if n, sz := l.VerifShape(); n != int(size) || uint64(sz) != size {
				line += fmt.Sprintf(" !shape(len=%d,size=%d)", n, sz)
			}
			if idx < 0 {
				return
			}
			m := l.VerifLockAt(idx)
			free := func(after string) {
				if m.TryLock() {
					m.Unlock()
				} else {
					line += " !" + after
					panic(abandon) // the instance is unusable now
				}
			}
			free("before")
			l.Lock(key())
			if m.TryRLock() {
				m.RUnlock()
				line += " !Lock"
				panic(abandon) // releasing through the public method would hit a mutex that is not locked
			}
			l.Unlock(key())
			free("Unlock")
			l.RLock(key())
			if m.TryLock() {
				m.Unlock()
				line += " !RLock"
				panic(abandon) // releasing through the public method would hit a mutex that is not locked
			} else if !m.TryRLock() {
				line += " !RLock-excludes-readers"
				panic(abandon) // releasing through the public method would hit a mutex that is not locked
			} else {
				m.RUnlock()
			}
			l.RUnlock(key())
			free("RUnlock")
			if !l.TryLock(key()) {
				line += " !TryLock-fails-when-idle"
			} else {
				if m.TryRLock() {
					m.RUnlock()
					line += " !TryLock"
					panic(abandon) // releasing through the public method would hit a mutex that is not locked
				}
				l.Unlock(key())
			}
			free("TryLock/Unlock")
			if !l.TryRLock(key()) {
				line += " !TryRLock-fails-when-idle"
			} else {
				if m.TryLock() {
					m.Unlock()
					line += " !TryRLock"
					panic(abandon) // releasing through the public method would hit a mutex that is not locked
				}
				l.RUnlock(key())
			}
			free("TryRLock/RUnlock")
		}()
		fmt.Fprintln(out, line)
		out.Flush()
	}
}
