// Package c14: LimitPool / SegmentKeysLock under the lock-step controller and sequential probes.
package c14

import (
	"context"
	"fmt"
	"strconv"
	"sync"
	"sync/atomic"

	"github.com/ecodeclub/ekit/syncx"
	"verifharness/lockstep"
)

// lpObj is what the factory hands out: a counter-stamped, distinguishable object.  state tells whether a
// client currently holds it (set by the harness when Get returns it, cleared just BEFORE it is Put).
type lpObj struct {
	id      int64
	owner   *lpTracker
	state   atomic.Int32 // 0 = not held by a client (fresh from the factory or Put back), 1 = held
	everPut atomic.Bool
}

// lpTracker evaluates the object clauses on every (obj, ok) a Get returns:
//   - ok=true  => obj is non-nil, was made by THIS pool's factory (hence fresh or previously Put) and is not held
//     by anybody at this moment (exclusivity: an object returned by Get is not returned again until it was Put);
//   - ok=false => obj is the zero value (nil).
//
// Put(obj) followed by a Get may return obj or any other previously Put object or a fresh one (sync.Pool).
type lpTracker struct {
	made, fresh, recycled atomic.Int64
}

func (t *lpTracker) factory() *lpObj { return &lpObj{id: t.made.Add(1), owner: t} }

func (t *lpTracker) onGet(o *lpObj, ok bool) string {
	if !ok {
		if o != nil {
			return fmt.Sprintf("Get returned ok=false together with a non-zero object (#%d)", o.id)
		}
		return ""
	}
	if o == nil {
		return "Get returned (nil, true): a zero object although the factory never returns nil"
	}
	if o.owner != t || o.id <= 0 {
		return "Get returned an object that neither this pool's factory made nor anybody Put"
	}
	if !o.state.CompareAndSwap(0, 1) {
		return fmt.Sprintf("object #%d handed to two holders (returned by Get again before it was Put)", o.id)
	}
	if o.everPut.Load() {
		t.recycled.Add(1)
	} else {
		t.fresh.Add(1)
	}
	return ""
}

// beforePut must be called by the holder immediately before Put(o).
func (t *lpTracker) beforePut(o *lpObj) {
	o.everPut.Store(true)
	o.state.Store(0)
}

type limitPool struct {
	p    *syncx.LimitPool[*lpObj]
	t    *lpTracker
	mu   sync.Mutex
	held []*lpObj
	nput int
}

func (l *limitPool) Call(ctx context.Context, tid int, op string, args []string) string {
	switch op {
	case "get":
		o, ok := l.p.Get()
		if msg := l.t.onGet(o, ok); msg != "" {
			return strconv.FormatBool(ok) + " !" + msg
		}
		if ok {
			l.mu.Lock()
			l.held = append(l.held, o)
			l.mu.Unlock()
		}
		return strconv.FormatBool(ok)
	case "put":
		l.mu.Lock()
		var o *lpObj
		if n := len(l.held); n > 0 {
			i := 0
			if l.nput%2 == 1 { // alternately the oldest and the newest object held
				i = n - 1
			}
			l.nput++
			o = l.held[i]
			l.held = append(l.held[:i], l.held[i+1:]...)
		}
		l.mu.Unlock()
		if o == nil {
			o = l.t.factory()
			o.state.Store(1)
		}
		l.t.beforePut(o)
		l.p.Put(o)
		return "unit"
	}
	return "badop"
}

func init() {
	lockstep.Register("limitpool", func(params []string) lockstep.Instance {
		n, _ := strconv.Atoi(params[0])
		t := &lpTracker{}
		return &limitPool{p: syncx.NewLimitPool(n, t.factory), t: t}
	})
}
