// Package c14: LimitPool / SegmentKeysLock under the lock-step controller and sequential probes.
package c14

import (
	"context"
	"strconv"

	"github.com/ecodeclub/ekit/syncx"
	"verifharness/lockstep"
)

type limitPool struct{ p *syncx.LimitPool[int] }

func (l *limitPool) Call(ctx context.Context, tid int, op string, args []string) string {
	switch op {
	case "get":
		_, ok := l.p.Get()
		return strconv.FormatBool(ok)
	case "put":
		l.p.Put(0)
		return "unit"
	}
	return "badop"
}

func init() {
	lockstep.Register("limitpool", func(params []string) lockstep.Instance {
		n, _ := strconv.Atoi(params[0])
		return &limitPool{p: syncx.NewLimitPool(n, func() int { return 0 })}
	})
}
