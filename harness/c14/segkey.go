package c14

import (
	"bufio"
	"encoding/hex"
	"fmt"
	"os"
	"strconv"
	"strings"
	"sync"
	"sync/atomic"
	"time"

	"github.com/ecodeclub/ekit/syncx"
	"github.com/ecodeclub/ekit/verifhook"
	"verifharness/reg"
)

func init() {
	reg.Register("c14-segkey", segkeyMain)
	reg.Register("c14-stress", stressMain)
	reg.Register("c14-segkey-stress", segkeyStressMain)
}

// segkeyMain: "<size> op:hexkey ..." per line; prints one outcome per op.
// Keys are rebuilt as fresh string allocations for every op (equal contents, distinct allocations).
func segkeyMain(args []string) {
	sc := bufio.NewScanner(os.Stdin)
	sc.Buffer(make([]byte, 1<<20), 1<<24)
	out := bufio.NewWriter(os.Stdout)
	defer out.Flush()
	for sc.Scan() {
		f := strings.Fields(sc.Text())
		if len(f) == 0 {
			fmt.Fprintln(out)
			continue
		}
		size, _ := strconv.ParseUint(f[0], 10, 32)
		res := make([]string, 0, len(f)-1)
		func() {
			defer func() {
				if r := recover(); r != nil {
					res = append(res, "panic")
				}
			}()
			l := syncx.NewSegmentKeysLock(uint32(size))
			for _, o := range f[1:] {
				p := strings.SplitN(o, ":", 2)
				raw, _ := hex.DecodeString(p[1])
				key := string(append([]byte(nil), raw...))
				switch p[0] {
				case "trylock":
					res = append(res, tf(l.TryLock(key)))
				case "tryrlock":
					res = append(res, tf(l.TryRLock(key)))
				case "lock":
					// decide with TryLock whether Lock would block; when it would not, exercise Lock itself
					if l.TryLock(key) {
						l.Unlock(key)
						l.Lock(key)
						res = append(res, "u")
					} else {
						res = append(res, "wb")
					}
				case "rlock":
					if l.TryRLock(key) {
						l.RUnlock(key)
						l.RLock(key)
						res = append(res, "u")
					} else {
						res = append(res, "wb")
					}
				case "unlock":
					l.Unlock(key)
					res = append(res, "u")
				case "runlock":
					l.RUnlock(key)
					res = append(res, "u")
				}
			}
		}()
		fmt.Fprintln(out, strings.Join(res, " "))
	}
}

func tf(b bool) string {
	if b {
		return "t"
	}
	return "f"
}

// stressMain is the SEARCH oracle for LimitPool (not a proof): chaos-mode hammering with a
// harness-side outstanding counter; prints "ok" or a description of the violated clause.
//
//	c14-stress <seed> <maxTokens> <goroutines> <opsPerGoroutine>
func stressMain(args []string) {
	maxTokens, _ := strconv.Atoi(args[1])
	g, _ := strconv.Atoi(args[2])
	n, _ := strconv.Atoi(args[3])
	verifhook.SetMode(verifhook.Chaos)
	t := &lpTracker{}
	p := syncx.NewLimitPool(maxTokens, t.factory)
	if maxTokens > 1<<30 {
		// a budget this large cannot be exhausted; the first Gets must simply succeed (and return distinct objects)
		for i := 0; i < g*n; i++ {
			o, ok := p.Get()
			if !ok {
				fmt.Printf("Get %d failed although maxTokens = %d\n", i+1, maxTokens)
				return
			}
			if msg := t.onGet(o, ok); msg != "" {
				fmt.Printf("object: %s (Get %d, maxTokens = %d)\n", msg, i+1, maxTokens)
				return
			}
		}
		fmt.Println("ok")
		return
	}
	var outstanding, high atomic.Int64
	var objBad atomic.Pointer[string]
	var wg sync.WaitGroup
	for i := 0; i < g; i++ {
		wg.Add(1)
		go func(i int) {
			defer wg.Done()
			var held []*lpObj
			put := func() {
				o := held[len(held)-1]
				held = held[:len(held)-1]
				outstanding.Add(-1)
				t.beforePut(o)
				p.Put(o)
			}
			for j := 0; j < n; j++ {
				if len(held) > 0 && (j+i)%3 == 0 {
					put()
					continue
				}
				o, ok := p.Get()
				if msg := t.onGet(o, ok); msg != "" {
					objBad.CompareAndSwap(nil, &msg)
					if ok && o == nil {
						o = t.factory() // keep the token accounting going
						o.state.Store(1)
					}
				}
				if ok {
					v := outstanding.Add(1)
					for {
						h := high.Load()
						if v <= h || high.CompareAndSwap(h, v) {
							break
						}
					}
					held = append(held, o)
				}
			}
			for len(held) > 0 {
				put()
			}
		}(i)
	}
	done := make(chan struct{})
	go func() { wg.Wait(); close(done) }()
	select {
	case <-done:
	case <-time.After(60 * time.Second):
		fmt.Println("hang")
		return
	}
	verifhook.SetMode(verifhook.Off)
	if high.Load() > int64(maxTokens) {
		fmt.Printf("outstanding high-water %d > maxTokens %d\n", high.Load(), maxTokens)
		return
	}
	if m := objBad.Load(); m != nil {
		fmt.Printf("object: %s (maxTokens %d, %d goroutines)\n", *m, maxTokens, g)
		return
	}
	succ := 0
	for i := 0; i < maxTokens+3; i++ {
		o, ok := p.Get()
		if msg := t.onGet(o, ok); msg != "" {
			fmt.Printf("object: %s (after quiescence, maxTokens %d)\n", msg, maxTokens)
			return
		}
		if ok {
			succ++
		}
	}
	if succ != maxTokens {
		fmt.Printf("after quiescence %d Gets succeeded, want exactly %d\n", succ, maxTokens)
		return
	}
	fmt.Printf("ok fresh=%d recycled=%d\n", t.fresh.Load(), t.recycled.Load())
}

// segkeyStressMain is the SEARCH oracle for SegmentKeysLock under concurrency (not a proof): in chaos mode,
// G goroutines released together make the FIRST access to the same key of a fresh lock: exactly one TryLock may win;
// then Lock-protected increments of a plain owner counter must never see another owner.
//
//	c14-segkey-stress <seed> <rounds> <goroutines>
func segkeyStressMain(args []string) {
	seed, _ := strconv.Atoi(args[0])
	rounds, _ := strconv.Atoi(args[1])
	g, _ := strconv.Atoi(args[2])
	verifhook.SetMode(verifhook.Chaos)
	keys := []string{"key1", "", "键值", strings.Repeat("x", 360), "a", "e"}
	sizes := []uint32{1, 3, 8, 100, 4}
	for r := 0; r < rounds; r++ {
		l := syncx.NewSegmentKeysLock(sizes[(r+seed)%len(sizes)])
		base := keys[(r+seed)%len(keys)]
		var winners atomic.Int32
		var start, done sync.WaitGroup
		start.Add(1)
		for i := 0; i < g; i++ {
			done.Add(1)
			go func() {
				defer done.Done()
				k := string(append([]byte(nil), base...)) // equal contents, distinct allocation
				start.Wait()
				if l.TryLock(k) {
					winners.Add(1)
				}
			}()
		}
		start.Done()
		done.Wait()
		if w := winners.Load(); w != 1 {
			fmt.Printf("round %d: %d goroutines hold Lock(%q) at the same time after a concurrent first TryLock (segments=%d)\n", r, w, base, sizes[(r+seed)%len(sizes)])
			return
		}
		// second phase on another fresh instance: blocking Lock must exclude
		l2 := syncx.NewSegmentKeysLock(sizes[(r+seed)%len(sizes)])
		owner := 0
		bad := atomic.Int32{}
		var wg sync.WaitGroup
		var start2 sync.WaitGroup
		start2.Add(1)
		for i := 0; i < g; i++ {
			wg.Add(1)
			go func() {
				defer wg.Done()
				k := string(append([]byte(nil), base...))
				start2.Wait()
				for j := 0; j < 20; j++ {
					l2.Lock(k)
					owner++
					if owner != 1 {
						bad.Add(1)
					}
					owner--
					l2.Unlock(k)
				}
			}()
		}
		start2.Done()
		wg.Wait()
		if bad.Load() != 0 {
			fmt.Printf("round %d: two goroutines were inside Lock(%q) at the same time (segments=%d)\n", r, base, sizes[(r+seed)%len(sizes)])
			return
		}
	}
	fmt.Println("ok")
}
