// Package c03 drives the hash-backed containers of ekit (HashMap, linked / multi hash
// map, MapSet, builtinMap) and, for the shared decorator check, the linked / multi tree
// maps, with the histories of the C03 correspondence check.
//
// stdin: one history per line   <container> <code> <eq> <op>,<op>,...
//
//	container  hash | lhm | mhm | set | builtin | ltm | mtm
//	code       m1 m2 m3 m7 m64 (Code = k mod m, m64 = 2^64); prefix L = "lawless":
//	           Code ignores the Equals family (violates Equals => same Code); - for non-hash
//	eq         x (exact) | h (k and k' equal when floor(k/2) = floor(k'/2))
//	op         p:k:v:ch | g:k | d:k            (ch = pool oracle, ignored here)
//	           P:k:v1.v2...:ch                 (multi map PutMany; P:k::ch = no values)
//	           a:k | e:k                       (set Add / Exist; d:k = Delete)
//	           a leading '!' (e.g. !d:3) = "unobserved": the operation runs and its own return
//	           value is printed, but Len/Keys/Values/dump/order list are NOT called after it
//
// stdout: one line per history, one observable per op joined by '|':
//
//	ret/len/keys/vals/dump/nil/align/backward      (just `ret` for an unobserved op; set: ret/keys/nil)
//
// nil = "K" and/or "V" when Keys() / Values() returned a nil slice; align = "ok" | "bad@i" for the
// containers whose Keys()[i] and Values()[i] must belong together (linked maps, tree-backed maps):
// Values()[i] is compared with Get(Keys()[i]) on the implementation itself.  EVERY slice returned by
// Keys / Values / multi-map Get / Delete is overwritten (and its spare capacity too) after it has
// been printed: a container that hands out an internal slice shows at the next observation.
package c03

import (
	"bufio"
	"fmt"
	"os"
	"strconv"
	"strings"

	"github.com/ecodeclub/ekit/mapx"
	"github.com/ecodeclub/ekit/set"
	"verifharness/reg"
)

func init() { reg.Register("c03", Main) }

// ---- the key type with selectable Code / Equals (single-threaded: families are globals) ----
var (
	modM    uint64 // 0 = 2^64
	half    bool
	lawless bool
)

type hk struct{ k int64 }

func (x hk) Code() uint64 {
	k := x.k
	if half && !lawless {
		k >>= 1 // floor(k/2)
	}
	if modM == 0 {
		return uint64(k)
	}
	m := int64(modM)
	r := k % m
	if r < 0 {
		r += m
	}
	return uint64(r)
}

func (x hk) Equals(o any) bool {
	y, ok := o.(hk)
	if !ok {
		return false
	}
	if half {
		return x.k>>1 == y.k>>1
	}
	return x.k == y.k
}

func cmpInt(a, b int64) int {
	if half {
		a, b = a>>1, b>>1
	}
	switch {
	case a < b:
		return -1
	case a > b:
		return 1
	}
	return 0
}

func atoi(s string) int64 {
	v, err := strconv.ParseInt(s, 10, 64)
	if err != nil {
		panic("bad int " + s)
	}
	return v
}

func joinInts(l []int64, sep string) string {
	ss := make([]string, len(l))
	for i, v := range l {
		ss[i] = strconv.FormatInt(v, 10)
	}
	return strings.Join(ss, sep)
}

func inner(l []int64) string { return "[" + joinInts(l, ".") + "]" }

func scribble(l []int64) {
	for i := range l {
		l[i] = -999
	}
	if cap(l) > len(l) {
		l = l[:cap(l)]
		for i := range l {
			l[i] = -998
		}
	}
}

// scribbleAny overwrites every element of a returned slice, and its spare capacity, with g
func scribbleAny[T any](l []T, g T) {
	l = l[:cap(l)]
	for i := range l {
		l[i] = g
	}
}

func nilFlags(keysNil, valsNil bool) string {
	f := ""
	if keysNil {
		f += "K"
	}
	if valsNil {
		f += "V"
	}
	return f
}

func setFamilies(code, eq string) {
	lawless = strings.HasPrefix(code, "L")
	code = strings.TrimPrefix(code, "L")
	half = eq == "h"
	switch code {
	case "m64", "-":
		modM = 0
	default:
		modM = uint64(atoi(strings.TrimPrefix(code, "m")))
	}
}

// ---- generic single-valued map runner ----
// errCyclic: a collision chain of the table does not end (every API call could loop forever)
type errCyclic struct{}

type smap[K any] struct {
	quiet    bool // the current op is unobserved
	cyclic   func() bool
	m        mapx.VerifMap[K, int64]
	mk       func(int64) K
	un       func(K) int64
	dump     func() string
	backward func() []K
	aligned  bool // Keys()[i] and Values()[i] belong together (order list / in-order walk)
}

func (s *smap[K]) obs(ret string) string {
	if s.cyclic != nil && s.cyclic() { // white-box walk with a guard: calls no API method
		panic(errCyclic{})
	}
	if s.quiet {
		return ret
	}
	ks := s.m.Keys()
	keysNil := ks == nil
	own := append([]K(nil), ks...)
	scribbleAny(ks, s.mk(-999))
	vals := s.m.Values()
	valsNil := vals == nil
	ownVals := append([]int64(nil), vals...)
	scribble(vals)
	kl := make([]int64, len(own))
	for i, k := range own {
		kl[i] = s.un(k)
	}
	o := ret + "/" + strconv.FormatInt(s.m.Len(), 10) + "/" + joinInts(kl, ";") + "/" + joinInts(ownVals, ";") + "/"
	if s.dump != nil {
		o += s.dump()
	}
	o += "/" + nilFlags(keysNil, valsNil) + "/"
	if s.aligned {
		a := "ok"
		if len(own) != len(ownVals) {
			a = "bad@len"
		} else {
			for i := range own {
				if v, ok := s.m.Get(own[i]); !ok || v != ownVals[i] {
					a = "bad@" + strconv.Itoa(i)
					break
				}
			}
		}
		o += a
	}
	o += "/"
	if s.backward != nil {
		bk := s.backward()
		l := make([]int64, len(bk))
		for i, k := range bk {
			l[i] = s.un(k)
		}
		o += joinInts(l, ";")
	}
	return o
}

func (s *smap[K]) step(op string) string {
	s.quiet = strings.HasPrefix(op, "!")
	f := strings.Split(strings.TrimPrefix(op, "!"), ":")
	switch f[0] {
	case "p":
		if err := s.m.Put(s.mk(atoi(f[1])), atoi(f[2])); err != nil {
			return s.obs("err")
		}
		return s.obs("ok")
	case "g":
		v, ok := s.m.Get(s.mk(atoi(f[1])))
		return s.obs(fmt.Sprintf("%d,%d", v, b2i(ok)))
	case "d":
		v, ok := s.m.Delete(s.mk(atoi(f[1])))
		return s.obs(fmt.Sprintf("%d,%d", v, b2i(ok)))
	}
	return "badop"
}

func b2i(b bool) int {
	if b {
		return 1
	}
	return 0
}

func hashDump(m *mapx.HashMap[hk, int64]) func() string {
	return func() string {
		bs, sz := m.VerifDump()
		parts := make([]string, 0, len(bs))
		for _, b := range bs {
			if b.Nil || len(b.Keys) == 0 {
				parts = append(parts, fmt.Sprintf("%d=nil", b.Code))
				continue
			}
			ns := make([]string, len(b.Keys))
			for i := range b.Keys {
				ns[i] = fmt.Sprintf("%d:%d", b.Keys[i].k, b.Vals[i])
			}
			parts = append(parts, fmt.Sprintf("%d=%s", b.Code, strings.Join(ns, ">")))
		}
		return strings.Join(parts, "&") + "#" + strconv.FormatInt(sz, 10)
	}
}

func linkedDump(m *mapx.LinkedMap[hk, int64]) func() string {
	return func() string {
		codes, keys, sz, ok := m.VerifBucketKeys()
		if !ok {
			return "nothash"
		}
		parts := make([]string, 0, len(codes))
		for i := range codes {
			if len(keys[i]) == 0 {
				parts = append(parts, fmt.Sprintf("%d=nil", codes[i]))
				continue
			}
			ns := make([]string, len(keys[i]))
			for j, k := range keys[i] {
				ns[j] = strconv.FormatInt(k.k, 10)
			}
			parts = append(parts, fmt.Sprintf("%d=%s", codes[i], strings.Join(ns, ">")))
		}
		return strings.Join(parts, "&") + "#" + strconv.FormatInt(sz, 10)
	}
}

// ---- multi map runner ----
type mmap[K any] struct {
	quiet  bool
	cyclic func() bool
	m      *mapx.MultiMap[K, int64]
	mk     func(int64) K
	un     func(K) int64
	dump   func() string
	// Keys()[i] and Values()[i] belong together (tree backing: both are in-order walks)
	aligned bool
}

func (s *mmap[K]) obs(ret string) string {
	if s.cyclic != nil && s.cyclic() {
		panic(errCyclic{})
	}
	if s.quiet {
		return ret
	}
	ks := s.m.Keys()
	keysNil := ks == nil
	own := append([]K(nil), ks...)
	scribbleAny(ks, s.mk(-999))
	l := make([]int64, len(own))
	for i, k := range own {
		l[i] = s.un(k)
	}
	vals := s.m.Values()
	valsNil := vals == nil
	vs := make([]string, len(vals))
	ownVals := make([][]int64, len(vals))
	for i, v := range vals {
		vs[i] = inner(v)
		ownVals[i] = append([]int64(nil), v...)
	}
	for _, v := range vals { // a returned slice is a copy: scribbling must not change the map
		scribble(v)
	}
	scribbleAny(vals, []int64{-997})
	o := ret + "/" + strconv.FormatInt(s.m.Len(), 10) + "/" + joinInts(l, ";") + "/" + strings.Join(vs, ";") + "/"
	if s.dump != nil {
		o += s.dump()
	}
	o += "/" + nilFlags(keysNil, valsNil) + "/"
	if s.aligned {
		a := "ok"
		if len(own) != len(ownVals) {
			a = "bad@len"
		} else {
			for i := range own {
				v, ok := s.m.Get(own[i])
				if !ok || inner(v) != inner(ownVals[i]) {
					a = "bad@" + strconv.Itoa(i)
					break
				}
				scribble(v)
			}
		}
		o += a
	}
	return o + "/"
}

func (s *mmap[K]) step(op string) string {
	s.quiet = strings.HasPrefix(op, "!")
	f := strings.Split(strings.TrimPrefix(op, "!"), ":")
	switch f[0] {
	case "P":
		var vs []int64
		if f[2] != "" {
			for _, x := range strings.Split(f[2], ".") {
				vs = append(vs, atoi(x))
			}
		}
		var err error
		if len(vs) == 1 {
			err = s.m.Put(s.mk(atoi(f[1])), vs[0])
		} else {
			err = s.m.PutMany(s.mk(atoi(f[1])), vs...)
		}
		scribble(vs) // the caller keeps ownership of its argument slice
		if err != nil {
			return s.obs("err")
		}
		return s.obs("ok")
	case "g":
		v, ok := s.m.Get(s.mk(atoi(f[1])))
		r := fmt.Sprintf("%s,%d", inner(v), b2i(ok))
		if v == nil {
			r = "~" + r // Get: nil exactly when the key is absent
		}
		scribble(v)
		return s.obs(r)
	case "d":
		// the nil-ness of the slice returned by Delete is not compared (it is the stored slice, nil or
		// empty depending on how the key was created)
		v, ok := s.m.Delete(s.mk(atoi(f[1])))
		r := fmt.Sprintf("%s,%d", inner(v), b2i(ok))
		scribble(v)
		return s.obs(r)
	}
	return "badop"
}

func multiDump(m *mapx.MultiMap[hk, int64]) func() string {
	return func() string {
		codes, keys, vals, sz, ok := m.VerifDump()
		if !ok {
			return "nothash"
		}
		parts := make([]string, 0, len(codes))
		for i := range codes {
			if len(keys[i]) == 0 {
				parts = append(parts, fmt.Sprintf("%d=nil", codes[i]))
				continue
			}
			ns := make([]string, len(keys[i]))
			for j, k := range keys[i] {
				ns[j] = fmt.Sprintf("%d:%s", k.k, inner(vals[i][j]))
			}
			parts = append(parts, fmt.Sprintf("%d=%s", codes[i], strings.Join(ns, ">")))
		}
		return strings.Join(parts, "&") + "#" + strconv.FormatInt(sz, 10)
	}
}

// ---- set runner ----
func setStep(s *set.MapSet[int64], op string) string {
	quiet := strings.HasPrefix(op, "!")
	f := strings.Split(strings.TrimPrefix(op, "!"), ":")
	ret := "badop"
	switch f[0] {
	case "a":
		s.Add(atoi(f[1]))
		ret = "unit"
	case "d":
		s.Delete(atoi(f[1]))
		ret = "unit"
	case "e":
		ret = strconv.Itoa(b2i(s.Exist(atoi(f[1]))))
	}
	if quiet {
		return ret
	}
	ks := s.Keys()
	o := ret + "/" + joinInts(ks, ";") + "/" + nilFlags(ks == nil, false)
	scribble(ks)
	return o
}

func runHistory(container, code, eq string, ops []string) (line string) {
	setFamilies(code, eq)
	out := make([]string, 0, len(ops))
	defer func() {
		if r := recover(); r != nil {
			if _, ok := r.(errCyclic); ok {
				out = append(out, "cyclic-chain") // the history stops: any further call could loop forever
			} else {
				out = append(out, "panic")
			}
			line = strings.Join(out, "|")
		}
	}()
	mkH := func(k int64) hk { return hk{k} }
	unH := func(k hk) int64 { return k.k }
	id := func(k int64) int64 { return k }
	var step func(string) string
	switch container {
	case "hash":
		m := mapx.NewHashMap[hk, int64](4)
		s := &smap[hk]{m: m, mk: mkH, un: unH, dump: hashDump(m), cyclic: m.VerifCyclic}
		step = s.step
	case "lhm":
		m := mapx.NewLinkedHashMap[hk, int64](4)
		s := &smap[hk]{m: m, mk: mkH, un: unH, dump: linkedDump(m), backward: m.VerifBackward, cyclic: m.VerifCyclic, aligned: true}
		step = s.step
	case "ltm":
		m, err := mapx.NewLinkedTreeMap[int64, int64](cmpInt)
		if err != nil {
			return "ctor-error"
		}
		s := &smap[int64]{m: m, mk: id, un: id, backward: m.VerifBackward, aligned: true}
		step = s.step
	case "builtin":
		s := &smap[int64]{m: mapx.VerifNewBuiltinMap[int64, int64](4), mk: id, un: id}
		step = s.step
	case "mhm":
		m := mapx.NewMultiHashMap[hk, int64](4)
		s := &mmap[hk]{m: m, mk: mkH, un: unH, dump: multiDump(m), cyclic: m.VerifCyclic}
		step = s.step
	case "mtm":
		m, err := mapx.NewMultiTreeMap[int64, int64](cmpInt)
		if err != nil {
			return "ctor-error"
		}
		s := &mmap[int64]{m: m, mk: id, un: id, aligned: true}
		step = s.step
	case "set":
		s := set.NewMapSet[int64](4)
		step = func(op string) string { return setStep(s, op) }
	default:
		return "badcontainer"
	}
	for _, op := range ops {
		out = append(out, step(op))
	}
	return strings.Join(out, "|")
}

// Main reads histories from stdin and prints one observable line per history.
func Main(args []string) {
	in := bufio.NewReaderSize(os.Stdin, 1<<20)
	w := bufio.NewWriterSize(os.Stdout, 1<<20)
	defer w.Flush()
	sc := bufio.NewScanner(in)
	sc.Buffer(make([]byte, 1<<20), 1<<26)
	for sc.Scan() {
		f := strings.Fields(sc.Text())
		if len(f) < 3 {
			fmt.Fprintln(w, "badcase")
			continue
		}
		var ops []string
		if len(f) >= 4 && f[3] != "" {
			ops = strings.Split(f[3], ",")
		}
		fmt.Fprintln(w, runHistory(f[0], f[1], f[2], ops))
	}
}
