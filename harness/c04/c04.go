// Package c04 drives the four list implementations of ekit/list with the histories of the
// C04 correspondence check.
//
//	input : <impl> <cap0> <op>;<op>;...        (anything after '@' in an op is ignored)
//	        impl = array | linked | cow | conc-<impl>
//	        op   = g:<i> | a:<x>,<y>,.. | i:<idx>:<x> | s:<idx>:<x> | d:<idx> | l | c | r:<stop> | v
//	        an op prefixed with `~` is NOT followed by the observers (sparse observation): only
//	        its own result is printed, as <res>|~|~|<cap or ->|1.  For ArrayList Cap() is still
//	        read (alone) because the model needs it as its growth oracle; for the other
//	        implementations nothing at all is called between two unobserved operations.
//	        b:<x>,.. = Append of ONE harness-owned slice to a second, transient list of the same
//	        implementation and to the list under test; the transient list is then overwritten
//	        through Set (for the model this is a plain Append)
//	        n:<x>,.. (first op only) = construct with NewLinkedListOf / NewCopyOnWriteArrayListOf
//	        (ArrayList: plain Append, NewArrayListOf is documented to share its argument)
//	        N:<x>,.. (first op only, ArrayList) = NewArrayListOf(ts) with ts = make([]int, n, max(n,cap0));
//	        ts is kept and NOT overwritten: the constructor is documented to share it
//	output: <res>|<len>|<nil>:<contents>|<cap>|<fresh>|<argok>|<cow>|<sh>;...   one line per history, stops after a panic
//	        cow  CopyOnWriteArrayList only (else -): 1 = every slice published before this call still holds
//	             what it held, and a successful mutator published a different backing array;
//	             0 = an old snapshot changed; P = a mutator re-published the same array
//	        sh   N-histories only (else -): S = the list still uses ts's array, U = it does not,
//	             ? = pointer identity and the write-through probes disagree (ts[0] <-> Get(0)/Set(0))
//
// Argument slices: every slice passed to Append / New...Of is owned by the harness, often has
// spare capacity, and is overwritten (elements and spare capacity) right after the call, before
// anything is observed; the last few are re-checked after every later operation: the list must
// never write into them (argok=1).
//
// After EVERY operation the list is observed through Len(), AsSlice() and Cap().  Every slice
// obtained from AsSlice is kept until the next operation: it must not have been changed by that
// operation (fresh=1), and it is then overwritten and appended to before the list is read
// again, so a slice that shares memory with the list shows up as wrong contents.
package c04

import (
	"bufio"
	"errors"
	"fmt"
	"os"
	"strconv"
	"strings"
	"unsafe"

	"github.com/ecodeclub/ekit/list"
	"verifharness/reg"
)

func init() { reg.Register("c04", Main) }

var errStop = errors.New("stop")

const (
	p1 = 2147483647
	p2 = 2147483629
)

func showInts(l []int) string {
	if len(l) <= 32 {
		var sb strings.Builder
		for i, v := range l {
			if i > 0 {
				sb.WriteByte(',')
			}
			sb.WriteString(strconv.Itoa(v))
		}
		return sb.String()
	}
	h1, h2 := 7, 11
	for _, v := range l {
		m1 := ((v % p1) + p1) % p1
		m2 := ((v % p2) + p2) % p2
		h1 = (h1*1000003 + m1) % p1
		h2 = (h2*999983 + m2) % p2
	}
	return fmt.Sprintf("#%d:%d:%d", len(l), h1, h2)
}

func b01(b bool) string {
	if b {
		return "1"
	}
	return "0"
}

func mk(impl string, cap0 int) list.List[int] {
	switch {
	case impl == "array":
		return list.NewArrayList[int](cap0)
	case impl == "linked":
		return list.NewLinkedList[int]()
	case impl == "cow":
		return list.NewCopyOnWriteArrayList[int]()
	case strings.HasPrefix(impl, "conc-"):
		return &list.ConcurrentList[int]{List: mk(impl[5:], cap0)}
	}
	panic("impl " + impl)
}

func atoi(s string) int {
	v, err := strconv.Atoi(s)
	if err != nil {
		panic(err)
	}
	return v
}

func errClass(err error) string {
	if strings.Contains(err.Error(), "下标超出范围") {
		return "e:index"
	}
	return "e:other"
}

// one operation; a run-time panic of the library is reported as "panic"
func doOp(l list.List[int], op string, impl string, cap0 int, k int, tr *argTracker) (res string) {
	defer func() {
		if r := recover(); r != nil {
			res = "panic"
		}
	}()
	p := strings.Split(op, ":")
	switch p[0] {
	case "g":
		v, err := l.Get(atoi(p[1]))
		if err != nil {
			return errClass(err)
		}
		return "v:" + strconv.Itoa(v)
	case "a", "b", "n":
		xs := mkArg(p, k)
		if p[0] == "b" {
			// the same slice goes to a second list first; that list is then overwritten via Set
			other := mk(impl, cap0)
			if err := other.Append(xs...); err != nil {
				return errClass(err)
			}
			if err := l.Append(xs...); err != nil {
				return errClass(err)
			}
			for i := 0; i < other.Len(); i++ {
				_ = other.Set(i, -4000000-i)
			}
			_ = other.Append(-4000000)
			tr.setOther(other)
		} else if err := l.Append(xs...); err != nil {
			return errClass(err)
		}
		tr.scribbleArg(xs)
		return "ok"
	case "i":
		if err := l.Add(atoi(p[1]), atoi(p[2])); err != nil {
			return errClass(err)
		}
		return "ok"
	case "s":
		if err := l.Set(atoi(p[1]), atoi(p[2])); err != nil {
			return errClass(err)
		}
		return "ok"
	case "d":
		v, err := l.Delete(atoi(p[1]))
		if err != nil {
			return errClass(err)
		}
		return "v:" + strconv.Itoa(v)
	case "l":
		return "len:" + strconv.Itoa(l.Len())
	case "c":
		_ = l.Cap()
		return "cap"
	case "r":
		stop := atoi(p[1])
		var tr []int
		err := l.Range(func(i int, v int) error {
			tr = append(tr, i, v)
			if i == stop {
				return errStop
			}
			return nil
		})
		if err != nil && err != errStop {
			return errClass(err)
		}
		return "r:" + b01(err != nil) + ":" + showInts(tr)
	case "v":
		s := l.AsSlice()
		out := "s:" + b01(s == nil) + ":" + showInts(s)
		scribble(s)
		return out
	}
	panic("op " + op)
}

// the argument of Append / New...Of: a harness-owned slice, with 0-3 elements of spare capacity
func mkArg(p []string, k int) []int {
	var vals []int
	if len(p) > 1 && p[1] != "" {
		for _, s := range strings.Split(p[1], ",") {
			vals = append(vals, atoi(s))
		}
	}
	xs := make([]int, len(vals), len(vals)+(len(vals)*7+k)%4)
	copy(xs, vals)
	return xs
}

type argRec struct{ full, want []int }

// argTracker remembers the argument slices already handed to the list (overwritten by the
// harness) and the transient second list of the last `b` op
type argTracker struct {
	recs      []argRec
	other     list.List[int]
	otherWant []int
}

// overwrite the argument (elements and spare capacity) and remember what it must keep holding
func (t *argTracker) scribbleArg(xs []int) {
	if cap(xs) > len(xs) {
		_ = append(xs, -3000000) // the caller keeps appending to its own buffer
	}
	full := xs[:cap(xs)]
	for i := range full {
		full[i] = -3000000 - i
	}
	t.recs = append(t.recs, argRec{full, append([]int(nil), full...)})
	if len(t.recs) > 4 {
		t.recs = t.recs[1:]
	}
}

func (t *argTracker) setOther(o list.List[int]) {
	t.other, t.otherWant = o, nil
}

// ok reports whether no remembered argument slice and not the transient list has been changed
// by the list under test
func (t *argTracker) ok() (good bool) {
	defer func() {
		if r := recover(); r != nil {
			good = false
		}
	}()
	for _, r := range t.recs {
		for i := range r.full {
			if r.full[i] != r.want[i] {
				return false
			}
		}
	}
	if t.other != nil {
		cur := t.other.AsSlice()
		if t.otherWant == nil {
			t.otherWant = cur
			for i, v := range cur { // what we wrote through Set / Append, nothing else
				w := -4000000 - i
				if i == len(cur)-1 {
					w = -4000000
				}
				if v != w {
					return false
				}
			}
		} else {
			if len(cur) != len(t.otherWant) {
				return false
			}
			for i := range cur {
				if cur[i] != t.otherWant[i] {
					return false
				}
			}
		}
	}
	return true
}

// mkOf builds the list with the New...Of constructor where that must copy its argument
func mkOf(impl string, cap0 int, xs []int) list.List[int] {
	switch {
	case impl == "linked":
		return list.NewLinkedListOf[int](xs)
	case impl == "cow":
		return list.NewCopyOnWriteArrayListOf[int](xs)
	case strings.HasPrefix(impl, "conc-"):
		return &list.ConcurrentList[int]{List: mkOf(impl[5:], cap0, xs)}
	}
	l := list.NewArrayList[int](cap0)
	_ = l.Append(xs...)
	return l
}

func dataPtr(s []int) unsafe.Pointer { return unsafe.Pointer(unsafe.SliceData(s)) }

// the ArrayList / CopyOnWriteArrayList behind the interface (through ConcurrentList wrappers)
func unwrap(l list.List[int]) list.List[int] {
	for {
		c, ok := l.(*list.ConcurrentList[int])
		if !ok {
			return l
		}
		l = c.List
	}
}

func internalVals(l list.List[int]) ([]int, bool) {
	switch x := unwrap(l).(type) {
	case *list.ArrayList[int]:
		return x.VerifVals(), true
	case *list.CopyOnWriteArrayList[int]:
		return x.VerifVals(), true
	}
	return nil, false
}

type snapRec struct{ full, want []int }

// cowTracker: the slices a CopyOnWriteArrayList has published so far must never change
type cowTracker struct{ recs []snapRec }

func (t *cowTracker) before(l list.List[int]) []int {
	c, ok := unwrap(l).(*list.CopyOnWriteArrayList[int])
	if !ok {
		return nil
	}
	v := c.VerifVals()
	full := v[:cap(v)]
	t.recs = append(t.recs, snapRec{full, append([]int(nil), full...)})
	if len(t.recs) > 4 {
		t.recs = t.recs[1:]
	}
	return v
}

func (t *cowTracker) after(l list.List[int], before []int, op, res string) string {
	c, ok := unwrap(l).(*list.CopyOnWriteArrayList[int])
	if !ok {
		return "-"
	}
	for _, r := range t.recs {
		for i := range r.full {
			if r.full[i] != r.want[i] {
				return "0"
			}
		}
	}
	mut := strings.IndexByte("abnis d", op[0]) >= 0 && op[0] != ' '
	if mut && (res == "ok" || strings.HasPrefix(res, "v:")) {
		now := c.VerifVals()
		if cap(now) > 0 && cap(before) > 0 && dataPtr(now) == dataPtr(before) {
			return "P"
		}
	}
	return "1"
}

// shareProbe: does the list made by NewArrayListOf(ts) still live in ts's array?
func shareProbe(l list.List[int], ts []int) string {
	if ts == nil {
		return "-"
	}
	vals, ok := internalVals(l)
	if !ok || cap(ts) == 0 || cap(vals) == 0 {
		return "-"
	}
	ptr := dataPtr(vals) == dataPtr(ts)
	if len(ts) == 0 || l.Len() == 0 {
		if ptr {
			return "S"
		}
		return "U"
	}
	// mutate ts, read the list
	v0 := ts[0]
	ts[0] = v0 ^ 0x5555
	got, _ := l.Get(0)
	through1 := got == ts[0]
	ts[0] = v0
	// mutate the list, read ts
	w0, _ := l.Get(0)
	_ = l.Set(0, w0^0x3333)
	through2 := ts[0] == w0^0x3333
	_ = l.Set(0, w0)
	if ptr && through1 && through2 {
		return "S"
	}
	if !ptr && !through1 && !through2 {
		return "U"
	}
	return "?"
}

// overwrite every element, then write into the spare capacity (if any)
func scribble(s []int) {
	for i := range s {
		s[i] = -1000000 - i
	}
	if cap(s) > len(s) {
		s = s[:cap(s)]
		for i := range s {
			s[i] = -2000000 - i
		}
	}
}

func observe(l list.List[int]) (obs string, held []int, ok bool) {
	defer func() {
		if r := recover(); r != nil {
			obs, ok = "panic|panic", false
		}
	}()
	n := l.Len()
	s := l.AsSlice()
	nilness := b01(s == nil)
	if vals, okv := internalVals(l); okv && cap(s) > 0 && cap(vals) > 0 && dataPtr(s) == dataPtr(vals) {
		nilness = "A" // AsSlice handed out the list's own backing array
	}
	return strconv.Itoa(n) + "|" + nilness + ":" + showInts(s), s, true
}

func capOf(l list.List[int]) (c string) {
	defer func() {
		if r := recover(); r != nil {
			c = "panic"
		}
	}()
	return strconv.Itoa(l.Cap())
}

func runHistory(impl string, cap0 int, ops []string) string {
	l := mk(impl, cap0)
	var held, heldCopy []int
	var sb strings.Builder
	tr := &argTracker{}
	ct := &cowTracker{}
	var sharedTs []int
	for k, op := range ops {
		if at := strings.IndexByte(op, '@'); at >= 0 {
			op = op[:at]
		}
		if k > 0 {
			sb.WriteByte(';')
		}
		observed := true
		if strings.HasPrefix(op, "~") {
			observed, op = false, op[1:]
		}
		var res string
		cowBefore := ct.before(l)
		if k == 0 && strings.HasPrefix(op, "N:") {
			vals := mkArg(strings.Split(op, ":"), 0)
			c := len(vals)
			if cap0 > c {
				c = cap0
			}
			sharedTs = make([]int, len(vals), c)
			copy(sharedTs, vals)
			var inner list.List[int] = list.NewArrayListOf[int](sharedTs)
			for w := impl; strings.HasPrefix(w, "conc-"); w = w[5:] {
				inner = &list.ConcurrentList[int]{List: inner}
			}
			l = inner
			res = "ok"
		} else if k == 0 && strings.HasPrefix(op, "n:") {
			res = func() (r string) {
				defer func() {
					if e := recover(); e != nil {
						r = "panic"
					}
				}()
				xs := mkArg(strings.Split(op, ":"), k)
				l = mkOf(impl, cap0, xs)
				tr.scribbleArg(xs)
				return "ok"
			}()
		} else {
			res = doOp(l, op, impl, cap0, k, tr)
		}
		if res == "panic" {
			sb.WriteString("panic")
			break
		}
		argok := b01(tr.ok()) + "|" + ct.after(l, cowBefore, op, res) + "|" + shareProbe(l, sharedTs)
		if !observed {
			c := "-"
			if strings.HasSuffix(impl, "array") {
				c = capOf(l)
			}
			sb.WriteString(res + "|~|~|" + c + "|1|" + argok)
			continue
		}
		fresh := true
		if held != nil {
			for i := range held {
				if held[i] != heldCopy[i] {
					fresh = false
				}
			}
			scribble(held)
		}
		obs, s, ok := observe(l)
		sb.WriteString(res + "|" + obs + "|" + capOf(l) + "|" + b01(fresh) + "|" + argok)
		if !ok {
			break
		}
		held = s
		heldCopy = append([]int(nil), s...)
	}
	return sb.String()
}

// Main reads histories on stdin and prints one line of observables per history.
func Main(args []string) {
	in := bufio.NewReaderSize(os.Stdin, 1<<20)
	w := bufio.NewWriterSize(os.Stdout, 1<<20)
	defer w.Flush()
	for {
		line, err := in.ReadString('\n')
		line = strings.TrimRight(line, "\n")
		if line != "" {
			f := strings.Fields(line)
			if len(f) < 2 {
				fmt.Fprintln(w, "badcase")
			} else {
				var ops []string
				if len(f) > 2 {
					for _, o := range strings.Split(f[2], ";") {
						if o != "" {
							ops = append(ops, o)
						}
					}
				}
				fmt.Fprintln(w, runHistory(f[0], atoi(f[1]), ops))
			}
		}
		if err != nil {
			break
		}
	}
}
