// Package c05skip drives the real skip list (list.SkipList over internal/list.SkipList) with the
// histories of the C05 correspondence check and prints, after EVERY operation, the return value,
// AsSlice, level, size, every node's tower height and the chain of node identities of every level.
//
// Input: one history per line
//
//	<cmp> <seed> <op>;<op>;...
//
// cmp in asc|desc|mod3|half; seed re-seeds golang.org/x/exp/rand's global source (the source of
// randomLevel) before the history; ops: F k:t,k:t,... (NewSkipListFromSlice, first op only),
// I k:t (Insert), D k:t (DeleteElement), S k:t (Search), G i (Get), P (Peek), L (Len), A (AsSlice).
// Values are pairs (key, tag); the comparators look at the key only.
// Output: "H <n>" then n lines (one per op) per history:
//
//	<ret>|<slice>|<level>|<size>|<id:height,...>|<level0 ids>/<level1 ids>/...
//
// An op prefixed with '~' is UNOBSERVED ("sparse observation" histories: a result cached inside the
// list and invalidated too rarely stays invisible when the full state is read after every op):
// the harness then calls neither AsSlice nor Len nor Cap; it prints "<ret>|~|<h>" where h is the tower
// height of the node an Insert created (read from the pointer dump, which calls no method of the
// list; the dump is also what keeps the numbering of the nodes in step), empty for other ops.
//
// Node identities are numbers in order of creation (1,2,...): a pointer is numbered the first
// time it shows up in a dump (several new ones at once, after FromSlice, in order of their tags).
//
// `h c05skip-seeds <n> <k>` prints for seeds 1..n the maximal tower height among the first k
// inserts (used to pick seeds with tall towers).
package c05skip

import (
	"bufio"
	"fmt"
	"os"
	"sort"
	"strconv"
	"strings"

	"github.com/ecodeclub/ekit/list"
	"golang.org/x/exp/rand"
	"verifharness/reg"
)

func init() {
	reg.Register("c05skip", Main)
	reg.Register("c05skip-seeds", Seeds)
}

type kv struct{ K, Tag int }

func comparator(name string) func(a, b kv) int {
	sgn := func(x int) int {
		if x < 0 {
			return -1
		}
		if x > 0 {
			return 1
		}
		return 0
	}
	fdiv := func(a, b int) int { // floor division / modulo as in Coq's Z
		q := a / b
		if (a%b != 0) && ((a < 0) != (b < 0)) {
			q--
		}
		return q
	}
	switch name {
	case "asc":
		return func(a, b kv) int { return sgn(a.K - b.K) }
	case "desc":
		return func(a, b kv) int { return sgn(b.K - a.K) }
	case "mod3":
		return func(a, b kv) int { return (a.K - 3*fdiv(a.K, 3)) - (b.K - 3*fdiv(b.K, 3)) }
	case "half":
		return func(a, b kv) int { return fdiv(a.K, 2) - fdiv(b.K, 2) }
	}
	panic("comparator " + name)
}

func parseKV(s string) kv {
	p := strings.Split(s, ":")
	k, err := strconv.Atoi(p[0])
	if err != nil {
		panic(err)
	}
	t := 0
	if len(p) > 1 {
		t, err = strconv.Atoi(p[1])
		if err != nil {
			panic(err)
		}
	}
	return kv{k, t}
}

func showKV(v kv) string { return strconv.Itoa(v.K) + ":" + strconv.Itoa(v.Tag) }

func showSlice(vs []kv) string {
	var b strings.Builder
	for i, v := range vs {
		if i > 0 {
			b.WriteByte(',')
		}
		b.WriteString(showKV(v))
	}
	return b.String()
}

type idmap struct {
	ids  map[any]int
	next int
}

// number gives the pointers not seen before their identities, in order of their tags (creation
// order); returns the heights of the newly numbered nodes.
func number(im *idmap, chains [][]nodeView) []int {
	type fresh struct {
		id     any
		tag, h int
	}
	var fr []fresh
	seen := map[any]bool{}
	for _, ch := range chains {
		for _, n := range ch {
			if _, ok := im.ids[n.id]; !ok && !seen[n.id] {
				seen[n.id] = true
				fr = append(fr, fresh{n.id, n.tag, n.h})
			}
		}
	}
	sort.SliceStable(fr, func(i, j int) bool { return fr[i].tag < fr[j].tag })
	var hs []int
	for _, f := range fr {
		im.ids[f.id] = im.next
		im.next++
		hs = append(hs, f.h)
	}
	return hs
}

type nodeView struct {
	id     any
	tag, h int
}

func views(sl *list.SkipList[kv]) (level, size int, chains [][]nodeView, broken []string) {
	d := sl.VerifDump()
	chains = make([][]nodeView, len(d.Chains))
	for i, ch := range d.Chains {
		for _, n := range ch {
			chains[i] = append(chains[i], nodeView{n.ID, n.Val.Tag, n.Height})
		}
	}
	return d.Level, d.Size, chains, d.Broken
}

// unobserved keeps the numbering in step and returns the height of the single new node (0 if
// there is not exactly one); it reads the pointers only.
func unobserved(sl *list.SkipList[kv], im *idmap) (h int) {
	defer func() {
		if r := recover(); r != nil {
			h = -1
		}
	}()
	_, _, chains, _ := views(sl)
	hs := number(im, chains)
	if len(hs) == 1 {
		return hs[0]
	}
	return 0
}

// state renders "<slice>|<level>|<size>|<heights>|<towers>" of the current list.
func state(sl *list.SkipList[kv], im *idmap) (s string) {
	defer func() {
		if r := recover(); r != nil {
			s = "panic-in-observer"
		}
	}()
	level, size, chains, broken := views(sl)
	number(im, chains)
	var b strings.Builder
	if broken[0] == "cycle" { // AsSlice would not terminate
		b.WriteString("!cycle")
	} else {
		b.WriteString(showSlice(sl.AsSlice()))
	}
	fmt.Fprintf(&b, "|%d|%d|", level, size)
	for i, n := range chains[0] {
		if i > 0 {
			b.WriteByte(',')
		}
		fmt.Fprintf(&b, "%d:%d", im.ids[n.id], n.h)
	}
	b.WriteByte('|')
	top := 0
	for i, ch := range chains {
		if len(ch) > 0 || broken[i] != "" {
			top = i + 1
		}
	}
	for i := 0; i < top; i++ {
		if i > 0 {
			b.WriteByte('/')
		}
		for j, n := range chains[i] {
			if j > 0 {
				b.WriteByte(',')
			}
			b.WriteString(strconv.Itoa(im.ids[n.id]))
		}
		if broken[i] != "" {
			b.WriteString("!" + broken[i])
		}
	}
	return b.String()
}

func valOut(v kv, err error) string {
	if err != nil {
		return "err"
	}
	return "ok " + showKV(v)
}

func doOp(slp **list.SkipList[kv], cmp func(a, b kv) int, op string) (ret string) {
	defer func() {
		if r := recover(); r != nil {
			ret = "panic"
		}
	}()
	op = strings.TrimSpace(op)
	arg := ""
	if len(op) > 1 {
		arg = strings.TrimSpace(op[1:])
	}
	sl := *slp
	switch op[0] {
	case 'F':
		var vs []kv
		if arg != "" {
			for _, s := range strings.Split(arg, ",") {
				vs = append(vs, parseKV(s))
			}
		}
		*slp = list.VerifNewSkipListFromSlice[kv](vs, cmp)
		return "ok"
	case 'I':
		sl.Insert(parseKV(arg))
		return "ok"
	case 'D':
		return strconv.FormatBool(sl.DeleteElement(parseKV(arg)))
	case 'S':
		return strconv.FormatBool(sl.Search(parseKV(arg)))
	case 'G':
		i, err := strconv.Atoi(arg)
		if err != nil {
			panic(err)
		}
		return valOut(sl.VerifGet(i))
	case 'P':
		return valOut(sl.VerifPeek())
	case 'L':
		if sl.Cap() != sl.Len() {
			return "cap!=len"
		}
		return strconv.Itoa(sl.Len())
	case 'A':
		return "-"
	}
	return "badop"
}

func Main(args []string) {
	in := bufio.NewReaderSize(os.Stdin, 1<<20)
	out := bufio.NewWriterSize(os.Stdout, 1<<20)
	defer out.Flush()
	for {
		line, err := in.ReadString('\n')
		line = strings.TrimRight(line, "\n")
		if line != "" {
			history(line, out)
		}
		if err != nil {
			break
		}
	}
}

func history(line string, out *bufio.Writer) {
	p := strings.SplitN(line, " ", 3)
	cmp := comparator(p[0])
	seed, err := strconv.ParseUint(p[1], 10, 64)
	if err != nil {
		panic(err)
	}
	var ops []string
	if len(p) > 2 && strings.TrimSpace(p[2]) != "" {
		ops = strings.Split(p[2], ";")
	}
	rand.Seed(seed)
	sl := list.NewSkipList[kv](cmp)
	im := &idmap{ids: map[any]int{}, next: 1}
	fmt.Fprintf(out, "H %d\n", len(ops))
	for _, op := range ops {
		op = strings.TrimSpace(op)
		if strings.HasPrefix(op, "~") { // unobserved: return value only (+ the new tower's height)
			op = strings.TrimSpace(op[1:])
			ret := doOp(&sl, cmp, op)
			h := unobserved(sl, im)
			out.WriteString(ret)
			out.WriteString("|~|")
			if op[0] == 'I' {
				out.WriteString(strconv.Itoa(h))
			}
			out.WriteByte('\n')
			continue
		}
		ret := doOp(&sl, cmp, op)
		out.WriteString(ret)
		out.WriteByte('|')
		out.WriteString(state(sl, im))
		out.WriteByte('\n')
	}
}

// Seeds: maximal tower height among the first k inserts for seeds 1..n.
func Seeds(args []string) {
	n, _ := strconv.Atoi(args[0])
	k, _ := strconv.Atoi(args[1])
	out := bufio.NewWriter(os.Stdout)
	defer out.Flush()
	for s := 1; s <= n; s++ {
		rand.Seed(uint64(s))
		sl := list.NewSkipList[kv](comparator("asc"))
		for i := 0; i < k; i++ {
			sl.Insert(kv{i, i})
		}
		fmt.Fprintf(out, "%d %d\n", s, sl.VerifDump().Level)
	}
}
