module verifharness

go 1.20

require github.com/ecodeclub/ekit v0.0.0

// linearizability checker used by the C06/C07 stress oracles (module cache only; GOPROXY=off)
require github.com/anishathalye/porcupine v1.3.0

require golang.org/x/exp v0.0.0-20231006140011-7918f672742d // indirect

replace github.com/ecodeclub/ekit => /repo
