module verifharness

go 1.20

require github.com/ecodeclub/ekit v0.0.0

replace github.com/ecodeclub/ekit => /repo
