//go:build c19virt

// Virtual-clock runs of retry.Retry (sub-command "c19virt"). Built only by checks/c19.py, over an overlay in which
// the instrumented copy of retry/retry.go creates/re-arms its timer through retry.VerifNewTimer / VerifResetTimer
// (package-level hooks added by an overlay-only file). The hooks record the EXACT duration handed to the timer,
// advance a virtual clock and decide — as the model's `select` does — whether the timer or the context ends the
// wait; durations therefore cost nothing (hours, 2^60 ns) and every wait is compared for equality.
//
//	vretry <exp:i:m:r | fixed:i:r | script:iv/ok;iv/ok;...> <none | at:<ns>[:canceled|deadline|custom]> <c|t> <f<ns>,o<ns>,...>
//
// Output (same text as the model driver prints):
//
//	n=<invocations> res=<nil|exhausted|ctx|other...> | lasterr=<k|-> trace=<start>-<end>[+<duration handed to the timer>],...
//
// res=exhausted only if errors.Unwrap(result) IS the error value returned by invocation k (lasterr=k) and errors.Is
// agrees; res=ctx only if the result IS the value ctx.Err() returns.
package c19

import (
	"bufio"
	"context"
	"errors"
	"fmt"
	"os"
	"strconv"
	"strings"
	"time"

	"github.com/ecodeclub/ekit/retry"
	"verifharness/reg"
)

func init() { reg.Register("c19virt", VirtMain) }

// vctx is a context whose Done channel the virtual clock closes.
type vctx struct {
	done chan struct{}
	err  error // what Err() returns once done
	dead bool
}

func (c *vctx) Deadline() (time.Time, bool) { return time.Time{}, false }
func (c *vctx) Done() <-chan struct{}       { return c.done }
func (c *vctx) Err() error {
	if c.dead {
		return c.err
	}
	return nil
}
func (c *vctx) Value(any) any { return nil }
func (c *vctx) end() {
	if !c.dead {
		c.dead = true
		close(c.done)
	}
}

var errCustomCtx = errors.New("custom context error")

type scripted struct {
	ans []struct {
		iv int64
		ok bool
	}
	k int
}

func (s *scripted) Next() (time.Duration, bool) {
	if s.k >= len(s.ans) {
		return 0, false
	}
	a := s.ans[s.k]
	s.k++
	return time.Duration(a.iv), a.ok
}

type vrun struct {
	now      int64
	cancelAt *int64
	ctx      *vctx
	tieCtx   bool
	waits    []int64 // duration handed to the timer, per wait
}

var cur *vrun

const farAway = 24 * time.Hour

func (v *vrun) clockReached() {
	if v.cancelAt != nil && *v.cancelAt <= v.now {
		v.ctx.end()
	}
}

func satAdd(a, b int64) int64 {
	c := a + b
	if b > 0 && c < a {
		return 1<<63 - 1
	}
	if b < 0 && c > a {
		return -1 << 63
	}
	return c
}

// arm: the code under test arms its timer with d at virtual time now. Returns true when the timer is to fire.
func (v *vrun) arm(d time.Duration) bool {
	v.waits = append(v.waits, int64(d))
	if v.ctx.dead {
		return false // the context is already done: it ends the wait (for d <= 0 both are ready: tie -> ctx, see c19.py)
	}
	tf := satAdd(v.now, int64(d))
	if tf < v.now {
		tf = v.now
	}
	if v.cancelAt != nil {
		c := *v.cancelAt // > now, the context is not done yet
		if c < tf || (c == tf && v.tieCtx) {
			v.now = c
			v.ctx.end()
			return false
		}
	}
	v.now = tf
	return true
}

func deliver(t *time.Timer) {
	t.Reset(0)
	for i := 0; i < 400000 && len(t.C) == 0; i++ { // asynctimerchan=1: the value sits in the channel buffer
		time.Sleep(5 * time.Microsecond)
	}
}

func hookNew(d time.Duration) *time.Timer {
	t := time.NewTimer(farAway)
	if cur.arm(d) {
		deliver(t)
	}
	return t
}

func hookReset(t *time.Timer, d time.Duration) bool {
	r := t.Reset(farAway)
	if cur.arm(d) {
		deliver(t)
	}
	return r
}

func vone(line string) (out string) {
	w := strings.Fields(line)
	if len(w) != 5 || w[0] != "vretry" {
		return "badcase"
	}
	var s retry.Strategy
	if strings.HasPrefix(w[1], "script:") {
		sc := &scripted{}
		for _, a := range strings.Split(strings.TrimPrefix(w[1], "script:"), ";") {
			if a == "" {
				continue
			}
			p := strings.Split(a, "/")
			sc.ans = append(sc.ans, struct {
				iv int64
				ok bool
			}{atoi(p[0]), p[1] == "1"})
		}
		s = sc
	} else {
		var e string
		s, _, e = build(strings.Split(w[1], ":"))
		if s == nil {
			return e
		}
	}
	v := &vrun{ctx: &vctx{done: make(chan struct{}), err: context.Canceled}, tieCtx: w[3] == "c"}
	if c := strings.Split(w[2], ":"); c[0] == "at" {
		at := atoi(c[1])
		v.cancelAt = &at
		if len(c) > 2 {
			switch c[2] {
			case "deadline":
				v.ctx.err = context.DeadlineExceeded
			case "custom":
				v.ctx.err = errCustomCtx
			}
		}
	}
	steps := strings.Split(w[4], ",")
	type rec struct{ s, e int64 }
	var recs []rec
	var errsRet []error
	overrun := false
	biz := func() error {
		i := len(recs)
		v.clockReached()
		if i >= len(steps) {
			overrun = true
			recs = append(recs, rec{v.now, v.now})
			errsRet = append(errsRet, nil)
			return nil
		}
		st := v.now
		v.now = satAdd(v.now, atoi(steps[i][1:]))
		v.clockReached()
		recs = append(recs, rec{st, v.now})
		var err error
		if steps[i][0] == 'f' {
			err = fmt.Errorf("attempt %d failed", i+1)
		}
		errsRet = append(errsRet, err)
		return err
	}
	cur = v
	v.clockReached() // a context that is already done at entry
	type result struct {
		err      error
		panicked bool
	}
	ch := make(chan result, 1)
	go func() {
		defer func() {
			if r := recover(); r != nil {
				ch <- result{nil, true}
			}
		}()
		ch <- result{retry.Retry(v.ctx, s, biz), false}
	}()
	var res result
	select {
	case res = <-ch:
	case <-time.After(3 * time.Second):
		return "timeout"
	}
	class, last := "other", "-"
	switch {
	case res.panicked:
		class = "panic"
	case overrun:
		class = "outofscript"
	case res.err == nil:
		class = "nil"
	case v.ctx.dead && res.err == v.ctx.err:
		class = "ctx"
	default:
		u := errors.Unwrap(res.err)
		for k, e := range errsRet {
			if e != nil && u == e && errors.Is(res.err, e) {
				last = strconv.Itoa(k + 1)
				class = "exhausted"
			}
		}
		if class == "other" {
			class = fmt.Sprintf("other(unwrap=%v)", u)
			class = strings.ReplaceAll(class, " ", "_")
		}
	}
	var tr []string
	for i, r := range recs {
		t := fmt.Sprintf("%d-%d", r.s, r.e)
		if i < len(v.waits) {
			t += fmt.Sprintf("+%d", v.waits[i])
		}
		tr = append(tr, t)
	}
	if len(v.waits) > len(recs) {
		class += "(extra-waits)"
	}
	return fmt.Sprintf("n=%d res=%s | lasterr=%s trace=%s", len(recs), class, last, strings.Join(tr, ","))
}

// VirtMain runs the cases one after the other (the hooks are package-level).
func VirtMain(args []string) {
	retry.VerifNewTimer = hookNew
	retry.VerifResetTimer = hookReset
	sc := bufio.NewScanner(os.Stdin)
	sc.Buffer(make([]byte, 1<<20), 1<<26)
	w := bufio.NewWriter(os.Stdout)
	defer w.Flush()
	dead := false
	for sc.Scan() {
		if dead {
			fmt.Fprintln(w, "aborted")
			continue
		}
		o := vone(sc.Text())
		if o == "timeout" {
			dead = true // a goroutine of the code under test is stuck on a real timer: the hooks' state is no longer ours
		}
		fmt.Fprintln(w, o)
	}
}
