// Package c19 drives ekit/retry with the cases of the C19 correspondence check.
//
//	seq exp <init> <max> <maxr> <n> | seq fixed <interval> <maxr> <n>
//	probe exp <init> <max> <maxr> <r0> <flag> | probe fixed <interval> <maxr> <r0> <flag>
//	conc exp <init> <max> <maxr> <G> <perG> <seed> | conc fixed <interval> <maxr> <G> <perG> <seed>
//	retry <exp:init:max:maxr|fixed:interval:maxr> <none|after:k|deadline:ns> <f<ns>,o<ns>,...>
//	wrapreal <maxr>
//
// One observable line per case. Durations are nanoseconds. The part after " | " of a retry
// line holds real-time measurements; it is evaluated by the check (only in the direction that
// scheduling noise cannot falsify) and never compared with the model textually.
package c19

import (
	"bufio"
	"context"
	"errors"
	"fmt"
	"os"
	"reflect"
	"strconv"
	"strings"
	"sync"
	"sync/atomic"
	"time"
	"unsafe"

	"github.com/ecodeclub/ekit/retry"
	"verifharness/reg"
)

func init() { reg.Register("c19", Main) }

func atoi(s string) int64 {
	v, err := strconv.ParseInt(s, 10, 64)
	if err != nil {
		panic(err)
	}
	return v
}

// ctorClass maps a constructor error to its class (the messages are fmt.Errorf texts without
// sentinel values; internal/errs cannot be imported from another module).
func ctorClass(err error) string {
	if strings.Contains(err.Error(), "最大重试间隔") {
		return "err maxinterval"
	}
	if strings.Contains(err.Error(), "无效的间隔时间") {
		return "err interval"
	}
	return "err other"
}

// build parses "exp i m r ..." / "fixed i r ..." and returns the strategy and the remaining words.
func build(w []string) (retry.Strategy, []string, string) {
	switch w[0] {
	case "exp":
		s, err := retry.NewExponentialBackoffRetryStrategy(time.Duration(atoi(w[1])), time.Duration(atoi(w[2])), int32(atoi(w[3])))
		if err != nil {
			return nil, nil, ctorClass(err)
		}
		return s, w[4:], ""
	case "fixed":
		s, err := retry.NewFixedIntervalRetryStrategy(time.Duration(atoi(w[1])), int32(atoi(w[2])))
		if err != nil {
			return nil, nil, ctorClass(err)
		}
		return s, w[3:], ""
	}
	panic("strategy " + w[0])
}

func b01(b bool) string {
	if b {
		return "1"
	}
	return "0"
}

func answer(d time.Duration, ok bool) string { return strconv.FormatInt(int64(d), 10) + ":" + b01(ok) }

// white-box access (reflect + unsafe; nothing is added to the package under test)
func retriesPtr(s retry.Strategy) *int32 {
	f := reflect.ValueOf(s).Elem().FieldByName("retries")
	return (*int32)(unsafe.Pointer(f.UnsafeAddr()))
}

func flagPtr(s retry.Strategy) *atomic.Value {
	f := reflect.ValueOf(s).Elem().FieldByName("maxIntervalReached")
	if !f.IsValid() {
		return nil
	}
	return (*atomic.Value)(unsafe.Pointer(f.UnsafeAddr()))
}

func doSeq(w []string) string {
	s, rest, e := build(w)
	if s == nil {
		return e
	}
	n := int(atoi(rest[0]))
	var sb strings.Builder
	sb.WriteString("ok")
	for i := 0; i < n; i++ {
		d, ok := s.Next()
		sb.WriteByte(' ')
		sb.WriteString(answer(d, ok))
	}
	return sb.String()
}

func doProbe(w []string) string {
	s, rest, e := build(w)
	if s == nil {
		return e
	}
	atomic.StoreInt32(retriesPtr(s), int32(atoi(rest[0])))
	fp := flagPtr(s)
	if rest[1] == "1" && fp != nil {
		fp.Store(true)
	}
	d, ok := s.Next()
	fl := false
	if fp != nil {
		if v, isb := fp.Load().(bool); isb && v {
			fl = true
		}
	} else {
		fl = rest[1] == "1"
	}
	return fmt.Sprintf("ok %s retries=%d flag=%s", answer(d, ok), atomic.LoadInt32(retriesPtr(s)), b01(fl))
}

func doConc(w []string) string {
	s, rest, e := build(w)
	if s == nil {
		return e
	}
	lo, hi := atoi(w[1]), atoi(w[2])
	if w[0] == "fixed" {
		hi = lo
	}
	g, per := int(atoi(rest[0])), int(atoi(rest[1]))
	var okc, bad int64
	var wg sync.WaitGroup
	start := make(chan struct{})
	for i := 0; i < g; i++ {
		wg.Add(1)
		go func() {
			defer wg.Done()
			<-start
			for j := 0; j < per; j++ {
				d, ok := s.Next()
				if ok {
					atomic.AddInt64(&okc, 1)
					if int64(d) < lo || int64(d) > hi {
						atomic.AddInt64(&bad, 1)
					}
				} else if d != 0 {
					atomic.AddInt64(&bad, 1)
				}
			}
		}()
	}
	close(start)
	wg.Wait()
	return fmt.Sprintf("okcount=%d bad=%d", okc, bad)
}

type recStrategy struct {
	inner retry.Strategy
	ivs   []time.Duration
	oks   []bool
}

func (r *recStrategy) Next() (time.Duration, bool) {
	d, ok := r.inner.Next()
	r.ivs = append(r.ivs, d)
	r.oks = append(r.oks, ok)
	return d, ok
}

func doRetry(w []string) string {
	s, _, e := build(strings.Split(w[0], ":"))
	if s == nil {
		return e
	}
	rs := &recStrategy{inner: s}
	steps := strings.Split(w[2], ",")
	ctx, cancel := context.WithCancel(context.Background())
	defer cancel()
	cancelAfter := -1
	want := "-"
	c := strings.Split(w[1], ":")
	switch c[0] {
	case "after":
		cancelAfter = int(atoi(c[1]))
		want = "canceled"
	case "deadline":
		var c2 context.CancelFunc
		ctx, c2 = context.WithTimeout(ctx, time.Duration(atoi(c[1])))
		defer c2()
		want = "deadline"
	}
	var starts, ends []time.Time
	var errsRet []error
	overrun := false
	biz := func() error {
		i := len(starts)
		starts = append(starts, time.Now())
		if i >= len(steps) {
			overrun = true
			ends = append(ends, time.Now())
			errsRet = append(errsRet, nil)
			return nil
		}
		if d := atoi(steps[i][1:]); d > 0 {
			time.Sleep(time.Duration(d))
		}
		var err error
		if steps[i][0] == 'f' {
			err = fmt.Errorf("attempt %d failed", i+1)
		}
		errsRet = append(errsRet, err)
		if i+1 == cancelAfter {
			cancel()
		}
		ends = append(ends, time.Now())
		return err
	}
	t0 := time.Now()
	res := retry.Retry(ctx, rs, biz)
	total := time.Since(t0)
	class, kind, wraps := "other", "-", "-"
	switch {
	case overrun:
		class = "overrun"
	case res == nil:
		class = "nil"
	case errors.Is(res, context.Canceled):
		class, kind = "ctx", "canceled"
	case errors.Is(res, context.DeadlineExceeded):
		class, kind = "ctx", "deadline"
	default:
		last := errsRet[len(errsRet)-1]
		if last != nil && len(rs.oks) > 0 && !rs.oks[len(rs.oks)-1] {
			class = "exhausted"
			wraps = b01(errors.Is(res, last))
			for _, e := range errsRet[:len(errsRet)-1] { // and no earlier error
				if e != nil && errors.Is(res, e) {
					wraps = "0"
				}
			}
		}
	}
	var gaps, ivs []string
	for i := 0; i+1 < len(starts); i++ {
		gaps = append(gaps, strconv.FormatInt(int64(starts[i+1].Sub(ends[i])), 10))
	}
	for i := range rs.ivs {
		ivs = append(ivs, answer(rs.ivs[i], rs.oks[i]))
	}
	return fmt.Sprintf("n=%d res=%s | kind=%s want=%s wraps=%s gaps=%s answers=%s total=%d",
		len(starts), class, kind, want, wraps, strings.Join(gaps, ","), strings.Join(ivs, ","), int64(total))
}

// doWrapReal really performs 2^31 Next calls on a fixed strategy (a few seconds).
func doWrapReal(w []string) string {
	s, err := retry.NewFixedIntervalRetryStrategy(time.Duration(1), int32(atoi(w[0])))
	if err != nil {
		return ctorClass(err)
	}
	granted := int64(0)
	for i := int64(1); i < 1<<31; i++ {
		if _, ok := s.Next(); ok {
			granted++
		}
	}
	d, ok := s.Next()
	return fmt.Sprintf("granted_in_first_2p31m1=%d call_2p31=%s", granted, answer(d, ok))
}

func one(line string) (out string) {
	defer func() {
		if r := recover(); r != nil {
			out = "panic"
		}
	}()
	w := strings.Fields(line)
	if len(w) == 0 {
		return "badcase"
	}
	switch w[0] {
	case "seq":
		return doSeq(w[1:])
	case "probe":
		return doProbe(w[1:])
	case "conc":
		return doConc(w[1:])
	case "retry":
		return doRetry(w[1:])
	case "wrapreal":
		return doWrapReal(w[1:])
	}
	return "badcase"
}

// Main: args[0] (optional) = number of real-time retry cases run at the same time.
func Main(args []string) {
	par := 8
	if len(args) > 0 {
		par = int(atoi(args[0]))
	}
	var lines []string
	sc := bufio.NewScanner(os.Stdin)
	sc.Buffer(make([]byte, 1<<20), 1<<26)
	for sc.Scan() {
		lines = append(lines, sc.Text())
	}
	out := make([]string, len(lines))
	sem := make(chan struct{}, par)
	var wg sync.WaitGroup
	for i, l := range lines {
		if strings.HasPrefix(l, "retry ") { // real-time cases sleep most of the time: overlap them
			wg.Add(1)
			sem <- struct{}{}
			go func(i int, l string) {
				defer wg.Done()
				out[i] = one(l)
				<-sem
			}(i, l)
			continue
		}
		out[i] = one(l)
	}
	wg.Wait()
	w := bufio.NewWriter(os.Stdout)
	defer w.Flush()
	for _, o := range out {
		fmt.Fprintln(w, o)
	}
}
