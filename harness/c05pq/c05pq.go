// Package c05pq drives ekit's PriorityQueue (internal/queue and the public wrapper in queue)
// with the histories of the C05 correspondence check.
//
// stdin: one history per line  "<variant> <cmp> <capacity> <op>..."
//
//	variant  int (internal/queue.PriorityQueue, reached through the hook in hooks/queue) | pub (queue.PriorityQueue)
//	cmp      asc | desc | mod3 (compare by floor-mod 3: many ties)
//	ops      e<int> Enqueue, d Dequeue, p Peek, l Len; a trailing '~' (e5~, d~, p~) suppresses the
//	         observation after that operation (sparse-observation histories): its entry is "<answer>|-|-"
//
// stdout: one line per history; per op "<answer>|<Len()>|<heap array data[1:]>" joined by ';'.
// A run-time panic is the answer "panic" and ends the history; a call that does not return is "hang".
package c05pq

import (
	"bufio"
	"errors"
	"fmt"
	"os"
	"strconv"
	"strings"
	"time"

	"github.com/ecodeclub/ekit"
	"github.com/ecodeclub/ekit/queue"
	"verifharness/reg"
)

func init() { reg.Register("c05pq", Main) }

type pq interface {
	Len() int
	Peek() (int, error)
	Enqueue(int) error
	Dequeue() (int, error)
	VerifHeapDump() ([]int, bool)
	VerifDataCap() int
}

func cmp3(a, b int) int {
	if a < b {
		return -1
	}
	if a > b {
		return 1
	}
	return 0
}

func fmod3(x int) int { return ((x % 3) + 3) % 3 }

// the comparators never subtract (no overflow at the extremes of int)
func comparator(name string) ekit.Comparator[int] {
	switch name {
	case "asc":
		return func(a, b int) int { return cmp3(a, b) }
	case "desc":
		return func(a, b int) int { return cmp3(b, a) }
	case "mod3":
		return func(a, b int) int { return cmp3(fmod3(a), fmod3(b)) }
	}
	panic("cmp " + name)
}

func errClass(err error) string {
	switch {
	case errors.Is(err, queue.VerifErrOutOfCapacity):
		return "err:full"
	case errors.Is(err, queue.VerifErrEmptyQueue):
		return "err:empty"
	}
	return "err:other"
}

func doOp(q pq, op string) (ans string) {
	defer func() {
		if r := recover(); r != nil {
			ans = "panic"
		}
	}()
	switch op[0] {
	case 'e':
		v, err := strconv.Atoi(op[1:])
		if err != nil {
			return "badop"
		}
		if err := q.Enqueue(v); err != nil {
			return errClass(err)
		}
		return "ok"
	case 'd':
		v, err := q.Dequeue()
		if err != nil {
			return errClass(err)
		}
		return "ok:" + strconv.Itoa(v)
	case 'p':
		v, err := q.Peek()
		if err != nil {
			return errClass(err)
		}
		return "ok:" + strconv.Itoa(v)
	case 'l':
		return "len:" + strconv.Itoa(q.Len())
	}
	return "badop"
}

// capMode (argument "cap"): the observation after every operation is "<Len()>|<cap(p.data)>" instead
// of "<Len()>|<array>" (capacity rule of HeapCapModel; the array is compared by the default mode).
var capMode bool

func observe(q pq) (s string) {
	if capMode {
		defer func() {
			if r := recover(); r != nil {
				s = "panic|panic"
			}
		}()
		return strconv.Itoa(q.Len()) + "|" + strconv.Itoa(q.VerifDataCap())
	}
	return observeArray(q)
}

func observeArray(q pq) (s string) {
	defer func() {
		if r := recover(); r != nil {
			s = "panic|panic"
		}
	}()
	arr, ok := q.VerifHeapDump()
	if !ok {
		return strconv.Itoa(q.Len()) + "|noslot0"
	}
	var sb strings.Builder
	sb.WriteString(strconv.Itoa(q.Len()))
	sb.WriteByte('|')
	for i, v := range arr {
		if i > 0 {
			sb.WriteByte(',')
		}
		sb.WriteString(strconv.Itoa(v))
	}
	return sb.String()
}

// runHistory runs one history and returns its output line.
func runHistory(f []string) string {
	capacity, err := strconv.Atoi(f[2])
	if err != nil {
		return "badcase"
	}
	var q pq
	if f[0] == "pub" {
		q = queue.NewPriorityQueue[int](capacity, comparator(f[1]))
	} else {
		q = queue.VerifNewInternalPriorityQueue[int](capacity, comparator(f[1]))
	}
	var sb strings.Builder
	for i, op := range f[3:] {
		// a trailing '~' means: do not observe (no Len(), no array dump) after this operation
		silent := strings.HasSuffix(op, "~")
		op = strings.TrimSuffix(op, "~")
		ans := doOp(q, op)
		if i > 0 {
			sb.WriteByte(';')
		}
		sb.WriteString(ans)
		sb.WriteByte('|')
		if silent && ans != "panic" {
			sb.WriteString("-|-")
		} else {
			sb.WriteString(observe(q))
		}
		if ans == "panic" {
			break
		}
	}
	return sb.String()
}

// Main reads histories from stdin.  A history on which the implementation does not return within
// C05_HANG_MS (default 3000) milliseconds is answered "hang|hang|hang"; the process then exits with
// status 3 (the spinning call cannot be cancelled) and the caller resumes with the next history.
func Main(args []string) {
	capMode = len(args) > 0 && args[0] == "cap"
	limit := 3000 * time.Millisecond
	if ms, err := strconv.Atoi(os.Getenv("C05_HANG_MS")); err == nil && ms > 0 {
		limit = time.Duration(ms) * time.Millisecond
	}
	in := bufio.NewScanner(os.Stdin)
	in.Buffer(make([]byte, 1<<20), 1<<28)
	out := bufio.NewWriterSize(os.Stdout, 1<<20)
	defer out.Flush()
	for in.Scan() {
		f := strings.Fields(in.Text())
		if len(f) < 3 {
			fmt.Fprintln(out, "badcase")
			continue
		}
		done := make(chan string, 1)
		go func() { done <- runHistory(f) }()
		select {
		case line := <-done:
			out.WriteString(line)
			out.WriteByte('\n')
		case <-time.After(limit):
			out.WriteString("hang|hang|hang\n")
			out.Flush()
			os.Exit(3)
		}
	}
}
