package segkeyls

// c14-segkeyls-stress <seed> <rounds> <goroutines>: the SEARCH oracle of the segkeyls part (not a proof).
//
// Phase A - controlled schedules, independent of the statement labels (so it keeps working when the code no
// longer has the model's skeleton): in lock-step mode 2..G goroutines run short programs of TryLock / TryRLock /
// Unlock / RUnlock on a FRESH SegmentKeysLock; the controller grants ONE statement at a time, round-robin (all
// goroutines advance through getLock together: everybody evaluates the slot before anybody goes on) or at random.
// A monitor evaluates the PROPERTY on the answers, by key CONTENTS:
//   exclusion       TryLock(k) answers true while somebody holds a read or write lock for an equal key, or
//                   TryRLock(k) answers true while somebody holds Lock on an equal key;
//   idle            TryLock(k) answers false although nothing at all was held at any moment of the call;
//   readers-share   TryRLock(k) answers false although no write lock was held at any moment of the call;
//   panic / hang    a call panics or does not come back.
// Phase B - chaos mode with the blocking operations: goroutines released together on a fresh instance bracket
// per-key owner variables with Lock/Unlock and RLock/RUnlock; a writer must be alone, readers never see a writer.
//
// Output: "ok ..." or one line "violation <kind>: ..." (+ the schedule that led to it).

import (
	"fmt"
	"math/rand"
	"strconv"
	"strings"
	"sync"
	"sync/atomic"
	"time"

	"github.com/ecodeclub/ekit/syncx"
	"github.com/ecodeclub/ekit/verifhook"
	"verifharness/reg"
)

func init() { reg.Register("c14-segkeyls-stress", stressMain) }

var stressKeys = []string{"key", "", "键", strings.Repeat("x", 300), "costarring", "liquid", "a", "\xff\xfe"}

type gor struct {
	tid      int
	left     int    // operations still to start
	inflight bool   // a call is in progress (parked at a yield point)
	op, key  string // current call
	// what was true when the current call started
	heldAtStart, acqAtStart, wHeldAtStart, wAcqAtStart int
	w                                                  map[string]bool // write locks this goroutine holds, by key contents
	r                                                  map[string]int  // read locks
}

type monitor struct {
	writer      map[string]int // key contents -> tid of the write holder
	readers     map[string]int // key contents -> number of read acquisitions
	held, acq   int            // acquisitions outstanding / ever
	wHeld, wAcq int            // write acquisitions outstanding / ever
	log         []string
}

func (m *monitor) ret(g *gor, v string) string {
	k := g.key
	switch g.op {
	case "trylock":
		if v == "true" {
			if h, ok := m.writer[k]; ok {
				return fmt.Sprintf("exclusion: TryLock(%q) by goroutine %d answered true while goroutine %d holds Lock on an equal key", k, g.tid, h)
			}
			if m.readers[k] > 0 {
				return fmt.Sprintf("exclusion: TryLock(%q) by goroutine %d answered true while %d read lock(s) on an equal key are held", k, g.tid, m.readers[k])
			}
			m.writer[k] = g.tid
			g.w[k] = true
			m.held++
			m.acq++
			m.wHeld++
			m.wAcq++
		} else if v == "false" {
			if g.heldAtStart == 0 && g.acqAtStart == m.acq {
				return fmt.Sprintf("idle: TryLock(%q) by goroutine %d answered false although nothing was held during the call", k, g.tid)
			}
		}
	case "tryrlock":
		if v == "true" {
			if h, ok := m.writer[k]; ok {
				return fmt.Sprintf("exclusion: TryRLock(%q) by goroutine %d answered true while goroutine %d holds Lock on an equal key", k, g.tid, h)
			}
			m.readers[k]++
			g.r[k]++
			m.held++
			m.acq++
		} else if v == "false" {
			if g.wHeldAtStart == 0 && g.wAcqAtStart == m.wAcq {
				return fmt.Sprintf("readers-share: TryRLock(%q) by goroutine %d answered false although no write lock was held during the call", k, g.tid)
			}
		}
	case "unlock":
		delete(m.writer, k)
		delete(g.w, k)
		m.held--
		m.wHeld--
	case "runlock":
		m.readers[k]--
		g.r[k]--
		if g.r[k] == 0 {
			delete(g.r, k)
		}
		m.held--
	}
	return ""
}

// controlled runs one round; returns "" or the violation text
func controlled(rng *rand.Rand, maxG int, wait time.Duration) (string, string) {
	verifhook.Reset(false, 0)
	size := 1 + rng.Intn(8)
	ng := 2
	if maxG > 2 {
		ng = 2 + rng.Intn(maxG-1)
	}
	policy := rng.Intn(3) // 0: strict round-robin, everybody started first; 1: random; 2: round-robin with random skips
	base := stressKeys[rng.Intn(len(stressKeys))]
	other := stressKeys[rng.Intn(len(stressKeys))]
	l := syncx.NewSegmentKeysLock(uint32(size))
	m := &monitor{writer: map[string]int{}, readers: map[string]int{}}
	gs := make([]*gor, ng)
	for i := range gs {
		gs[i] = &gor{tid: i + 1, left: 1 + rng.Intn(3), w: map[string]bool{}, r: map[string]int{}}
	}
	desc := fmt.Sprintf("segments=%d goroutines=%d policy=%d base=%q other=%q", size, ng, policy, base, other)
	observe := func(g *gor) string {
		o := verifhook.Next(wait)
		switch o.Kind {
		case "at":
			return ""
		case "ret":
			g.inflight = false
			m.log = append(m.log, fmt.Sprintf("%d:%s(%q)=%s", g.tid, g.op, g.key, o.Val))
			return m.ret(g, o.Val)
		case "panic":
			g.inflight = false
			return fmt.Sprintf("panic: %s(%q) by goroutine %d panicked: %s", g.op, g.key, g.tid, o.Val)
		}
		return fmt.Sprintf("hang: %s(%q) by goroutine %d did not reach a yield point or return within %v", g.op, g.key, g.tid, wait)
	}
	start := func(g *gor) string {
		g.left--
		// release something this goroutine holds, or try to acquire
		var rel []string
		for k := range g.w {
			rel = append(rel, "unlock\x00"+k)
		}
		for k := range g.r {
			rel = append(rel, "runlock\x00"+k)
		}
		if len(rel) > 0 && rng.Intn(2) == 0 {
			// deterministic choice: smallest entry
			best := rel[0]
			for _, x := range rel[1:] {
				if x < best {
					best = x
				}
			}
			p := strings.SplitN(best, "\x00", 2)
			g.op, g.key = p[0], p[1]
		} else {
			g.key = base
			if rng.Intn(4) == 0 {
				g.key = other
			}
			g.op = "trylock"
			if rng.Intn(5) < 2 {
				g.op = "tryrlock"
			}
		}
		g.heldAtStart, g.acqAtStart, g.wHeldAtStart, g.wAcqAtStart = m.held, m.acq, m.wHeld, m.wAcq
		g.inflight = true
		op, key := g.op, string(append([]byte(nil), g.key...)) // equal contents, distinct allocation
		m.log = append(m.log, fmt.Sprintf("%d:call-%s(%q)", g.tid, g.op, g.key))
		verifhook.Spawn(g.tid, func() string { return doOp(l, op, key) })
		return observe(g)
	}
	step := func(g *gor) string {
		if !verifhook.Grant(g.tid, wait) {
			return fmt.Sprintf("hang: goroutine %d is not waiting at a yield point", g.tid)
		}
		return observe(g)
	}
	active := func() []*gor {
		var a []*gor
		for _, g := range gs {
			if g.inflight || g.left > 0 {
				a = append(a, g)
			}
		}
		return a
	}
	for guard := 0; guard < 4000; guard++ {
		a := active()
		if len(a) == 0 {
			break
		}
		var turn []*gor
		switch policy {
		case 1:
			turn = []*gor{a[rng.Intn(len(a))]}
		case 2:
			for _, g := range a {
				if rng.Intn(4) != 0 {
					turn = append(turn, g)
				}
			}
		default:
			turn = a
		}
		for _, g := range turn {
			var v string
			if g.inflight {
				v = step(g)
			} else if g.left > 0 {
				v = start(g)
			}
			if v != "" {
				return v, desc + " history: " + strings.Join(m.log, " ")
			}
		}
	}
	return "", desc
}

// chaos runs one round of blocking operations in chaos mode
func chaos(rng *rand.Rand, g int) string {
	size := uint32(1 + rng.Intn(8))
	l := syncx.NewSegmentKeysLock(size)
	base := stressKeys[rng.Intn(len(stressKeys))]
	var writers, readers atomic.Int32
	var bad atomic.Value
	var wg, gate sync.WaitGroup
	gate.Add(1)
	modes := make([]int, g)
	for i := range modes {
		modes[i] = rng.Intn(3)
	}
	for i := 0; i < g; i++ {
		wg.Add(1)
		go func(i int) {
			defer wg.Done()
			defer func() {
				if r := recover(); r != nil {
					bad.Store(fmt.Sprintf("panic: goroutine %d panicked: %v", i, r))
				}
			}()
			k := string(append([]byte(nil), base...))
			gate.Wait()
			for j := 0; j < 6; j++ {
				switch (modes[i] + j) % 3 {
				case 0:
					l.Lock(k)
					if writers.Add(1) != 1 || readers.Load() != 0 {
						bad.Store(fmt.Sprintf("exclusion: goroutine %d is inside Lock(%q) together with another holder of an equal key (segments=%d)", i, base, size))
					}
					writers.Add(-1)
					l.Unlock(k)
				case 1:
					l.RLock(k)
					readers.Add(1)
					if writers.Load() != 0 {
						bad.Store(fmt.Sprintf("exclusion: goroutine %d is inside RLock(%q) while another goroutine is inside Lock of an equal key (segments=%d)", i, base, size))
					}
					readers.Add(-1)
					l.RUnlock(k)
				default:
					if l.TryLock(k) {
						if writers.Add(1) != 1 || readers.Load() != 0 {
							bad.Store(fmt.Sprintf("exclusion: goroutine %d won TryLock(%q) while another goroutine holds an equal key (segments=%d)", i, base, size))
						}
						writers.Add(-1)
						l.Unlock(k)
					}
				}
			}
		}(i)
	}
	done := make(chan struct{})
	go func() { wg.Wait(); close(done) }()
	gate.Done()
	select {
	case <-done:
	case <-time.After(20 * time.Second):
		return fmt.Sprintf("hang: %d goroutines doing Lock/RLock/TryLock brackets on %q did not finish in 20 s (segments=%d)", g, base, size)
	}
	if v := bad.Load(); v != nil {
		return v.(string)
	}
	return ""
}

func stressMain(args []string) {
	if len(args) < 3 {
		fmt.Println("usage: c14-segkeyls-stress <seed> <rounds> <goroutines>")
		return
	}
	seed, _ := strconv.ParseInt(args[0], 10, 64)
	rounds, _ := strconv.Atoi(args[1])
	g, _ := strconv.Atoi(args[2])
	if g < 2 {
		g = 2
	}
	rng := rand.New(rand.NewSource(seed))
	verifhook.SetMode(verifhook.LockStep)
	for r := 0; r < rounds; r++ {
		if v, desc := controlled(rng, g, 2*time.Second); v != "" {
			fmt.Printf("violation %s\n  controlled schedule, round %d: %s\n", v, r, desc)
			return
		}
	}
	verifhook.Reset(false, 0)
	verifhook.SetMode(verifhook.Chaos)
	crounds := rounds / 4
	for r := 0; r < crounds; r++ {
		if v := chaos(rng, g); v != "" {
			fmt.Printf("violation %s\n  chaos mode, round %d\n", v, r)
			return
		}
	}
	fmt.Printf("ok controlled=%d chaos=%d goroutines<=%d\n", rounds, crounds, g)
}
