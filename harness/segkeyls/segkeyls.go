// Package segkeyls: syncx.SegmentKeysLock under the lock-step controller (C14, interleaving model
// coq/theories/model/SegKeyLSModel.v) and the search oracle c14-segkeyls-stress.
package segkeyls

import (
	"context"
	"encoding/hex"
	"strconv"

	"github.com/ecodeclub/ekit/syncx"
	"verifharness/lockstep"
)

type inst struct{ l *syncx.SegmentKeysLock }

// freshKey rebuilds the key from its hex form ("-" = empty) as a NEW string allocation on every call:
// goroutines using "the same key" share only its contents, never the string header or backing array.
func freshKey(h string) string {
	if h == "-" {
		return string([]byte{})
	}
	raw, _ := hex.DecodeString(h)
	return string(append(make([]byte, 0, len(raw)), raw...))
}

func doOp(l *syncx.SegmentKeysLock, op string, key string) string {
	switch op {
	case "lock":
		l.Lock(key)
		return "unit"
	case "unlock":
		l.Unlock(key)
		return "unit"
	case "rlock":
		l.RLock(key)
		return "unit"
	case "runlock":
		l.RUnlock(key)
		return "unit"
	case "trylock":
		return strconv.FormatBool(l.TryLock(key))
	case "tryrlock":
		return strconv.FormatBool(l.TryRLock(key))
	}
	return "badop"
}

func (i *inst) Call(ctx context.Context, tid int, op string, args []string) string {
	if len(args) < 1 {
		return "badargs"
	}
	return doOp(i.l, op, freshKey(args[0]))
}

func init() {
	// params: <segment count> [<nthreads> <mode> <keys...>: used by the model side only]
	lockstep.Register("segkeyls", func(params []string) lockstep.Instance {
		n, _ := strconv.ParseUint(params[0], 10, 32)
		return &inst{l: syncx.NewSegmentKeysLock(uint32(n))}
	})
}
