// Package c15: the DYNAMIC complement of property C15 (never counted as proof): a pairwise method
// matrix and mixed workloads over every type ekit documents as safe for concurrent use, meant to
// be run from a `-race` build over the instrumented (yield-point) overlay with verifhook in chaos
// mode.  Every workload announces itself on stderr ("=== C15 WORKLOAD <type>|<opA>|<opB> seed=<n>")
// so that a race report of the Go race detector (also on stderr) can be attributed to the workload
// that was running: workload name + seed + the two stacks are the replay.
//
//	h c15 <seed> <iterations per pair> <ops per goroutine> [type filter]
package c15

import (
	"context"
	"fmt"
	"math/rand"
	"os"
	"runtime"
	"strconv"
	"strings"
	"sync"
	"time"

	"github.com/ecodeclub/ekit/bean/copier"
	"github.com/ecodeclub/ekit/bean/copier/converter"
	"github.com/ecodeclub/ekit/list"
	"github.com/ecodeclub/ekit/pool"
	"github.com/ecodeclub/ekit/queue"
	"github.com/ecodeclub/ekit/retry"
	"github.com/ecodeclub/ekit/syncx"
	"github.com/ecodeclub/ekit/syncx/atomicx"
	"github.com/ecodeclub/ekit/verifhook"
	"verifharness/reg"
)

func init() { reg.Register("c15", main) }

type op struct {
	name string
	run  func(r *rand.Rand)
}

// a subject builds a FRESH instance and returns the public methods bound to it
type subject struct {
	name  string
	fresh func(r *rand.Rand) (ops []op, cleanup func())
}

func short(r *rand.Rand) (context.Context, context.CancelFunc) {
	return context.WithTimeout(context.Background(), time.Duration(100+r.Intn(700))*time.Microsecond)
}

func listOps(l list.List[int]) []op {
	return []op{
		{"Get", func(r *rand.Rand) { _, _ = l.Get(r.Intn(6)) }},
		{"Append", func(r *rand.Rand) { _ = l.Append(r.Intn(100), r.Intn(100)) }},
		{"Add", func(r *rand.Rand) { _ = l.Add(r.Intn(4), r.Intn(100)) }},
		{"Set", func(r *rand.Rand) { _ = l.Set(r.Intn(4), r.Intn(100)) }},
		{"Delete", func(r *rand.Rand) { _, _ = l.Delete(r.Intn(4)) }},
		{"Len", func(r *rand.Rand) { _ = l.Len() }},
		{"Cap", func(r *rand.Rand) { _ = l.Cap() }},
		{"Range", func(r *rand.Rand) {
			s := 0
			_ = l.Range(func(i int, v int) error { s += v; return nil })
		}},
		{"AsSlice", func(r *rand.Rand) {
			s := l.AsSlice()
			for i := range s {
				s[i]++ // the caller owns the copy
			}
		}},
	}
}

type delayed struct{ at time.Time }

func (d delayed) Delay() time.Duration { return time.Until(d.at) }

type src struct {
	A  int
	B  string
	T  time.Time
	In inner
	P  *inner
}
type dst struct {
	A  int
	B  string
	T  string
	In inner
	P  *inner
}
type inner struct {
	X int
	Y []int
}

func subjects() []subject {
	none := func() {}
	return []subject{
		{"CopyOnWriteArrayList", func(r *rand.Rand) ([]op, func()) {
			return listOps(list.NewCopyOnWriteArrayListOf([]int{1, 2, 3})), none
		}},
		{"ConcurrentList/ArrayList", func(r *rand.Rand) ([]op, func()) {
			return listOps(&list.ConcurrentList[int]{List: list.NewArrayListOf([]int{1, 2, 3})}), none
		}},
		{"ConcurrentList/LinkedList", func(r *rand.Rand) ([]op, func()) {
			return listOps(&list.ConcurrentList[int]{List: list.NewLinkedListOf([]int{1, 2, 3})}), none
		}},
		{"ConcurrentLinkedQueue", func(r *rand.Rand) ([]op, func()) {
			q := queue.NewConcurrentLinkedQueue[[2]int]()
			_ = q.Enqueue([2]int{1, 1})
			return []op{
				{"Enqueue", func(r *rand.Rand) { v := r.Intn(100); _ = q.Enqueue([2]int{v, v}) }},
				{"Dequeue", func(r *rand.Rand) {
					if v, err := q.Dequeue(); err == nil && v[0] != v[1] {
						panic("torn element")
					}
				}},
			}, none
		}},
		{"ConcurrentArrayBlockingQueue", func(r *rand.Rand) ([]op, func()) {
			q := queue.NewConcurrentArrayBlockingQueue[int](1 + r.Intn(3))
			_ = q.Enqueue(context.Background(), 1)
			return []op{
				{"Enqueue", func(r *rand.Rand) { ctx, c := short(r); _ = q.Enqueue(ctx, r.Intn(100)); c() }},
				{"Dequeue", func(r *rand.Rand) { ctx, c := short(r); _, _ = q.Dequeue(ctx); c() }},
				{"Len", func(r *rand.Rand) { _ = q.Len() }},
				{"AsSlice", func(r *rand.Rand) { _ = q.AsSlice() }},
			}, none
		}},
		{"ConcurrentLinkedBlockingQueue", func(r *rand.Rand) ([]op, func()) {
			q := queue.NewConcurrentLinkedBlockingQueue[int](r.Intn(4)) // 0 = unbounded
			_ = q.Enqueue(context.Background(), 1)
			return []op{
				{"Enqueue", func(r *rand.Rand) { ctx, c := short(r); _ = q.Enqueue(ctx, r.Intn(100)); c() }},
				{"Dequeue", func(r *rand.Rand) { ctx, c := short(r); _, _ = q.Dequeue(ctx); c() }},
				{"Len", func(r *rand.Rand) { _ = q.Len() }},
				{"AsSlice", func(r *rand.Rand) { _ = q.AsSlice() }},
			}, none
		}},
		{"DelayQueue", func(r *rand.Rand) ([]op, func()) {
			q := queue.NewDelayQueue[delayed](1 + r.Intn(3))
			return []op{
				{"Enqueue", func(r *rand.Rand) {
					ctx, c := short(r)
					_ = q.Enqueue(ctx, delayed{time.Now().Add(time.Duration(r.Intn(400)-100) * time.Microsecond)})
					c()
				}},
				{"Dequeue", func(r *rand.Rand) { ctx, c := short(r); _, _ = q.Dequeue(ctx); c() }},
			}, none
		}},
		{"ConcurrentPriorityQueue", func(r *rand.Rand) ([]op, func()) {
			q := queue.NewConcurrentPriorityQueue[int](r.Intn(5), func(a, b int) int { return a - b })
			_ = q.Enqueue(5)
			return []op{
				{"Len", func(r *rand.Rand) { _ = q.Len() }},
				{"Cap", func(r *rand.Rand) { _ = q.Cap() }},
				{"Peek", func(r *rand.Rand) { _, _ = q.Peek() }},
				{"Enqueue", func(r *rand.Rand) { _ = q.Enqueue(r.Intn(100)) }},
				{"Dequeue", func(r *rand.Rand) { _, _ = q.Dequeue() }},
			}, none
		}},
		{"Cond", func(r *rand.Rand) ([]op, func()) {
			// a fresh Cond per workload: the FIRST use is concurrent
			var mu sync.Mutex
			c := syncx.NewCond(&mu)
			shared := 0 // protected by mu: the state the condition is about
			return []op{
				{"Wait", func(r *rand.Rand) {
					ctx, cancel := short(r)
					mu.Lock()
					_ = c.Wait(ctx)
					shared++
					mu.Unlock()
					cancel()
				}},
				{"Signal", func(r *rand.Rand) {
					if r.Intn(2) == 0 {
						mu.Lock()
						shared++
						mu.Unlock()
					}
					c.Signal()
				}},
				{"Broadcast", func(r *rand.Rand) { c.Broadcast() }},
			}, none
		}},
		{"Map", func(r *rand.Rand) ([]op, func()) {
			var m syncx.Map[int, *[2]int]
			mk := func(r *rand.Rand) *[2]int { v := r.Intn(100); return &[2]int{v, v} }
			chk := func(v *[2]int) {
				if v != nil && v[0] != v[1] {
					panic("torn value")
				}
			}
			m.Store(1, mk(r))
			return []op{
				{"Load", func(r *rand.Rand) { v, _ := m.Load(r.Intn(4)); chk(v) }},
				{"Store", func(r *rand.Rand) { m.Store(r.Intn(4), mk(r)) }},
				{"LoadOrStore", func(r *rand.Rand) { v, _ := m.LoadOrStore(r.Intn(4), mk(r)); chk(v) }},
				{"LoadOrStoreFunc", func(r *rand.Rand) {
					v, _, _ := m.LoadOrStoreFunc(r.Intn(4), func() (*[2]int, error) { return mk(r), nil })
					chk(v)
				}},
				{"LoadAndDelete", func(r *rand.Rand) { v, _ := m.LoadAndDelete(r.Intn(4)); chk(v) }},
				{"Delete", func(r *rand.Rand) { m.Delete(r.Intn(4)) }},
				{"Range", func(r *rand.Rand) { m.Range(func(k int, v *[2]int) bool { chk(v); return true }) }},
			}, none
		}},
		{"Pool", func(r *rand.Rand) ([]op, func()) {
			p := syncx.NewPool(func() *[2]int { return &[2]int{} })
			return []op{
				{"Get", func(r *rand.Rand) {
					v := p.Get()
					if v[0] != v[1] {
						panic("torn pooled object")
					}
					v[0]++
					v[1]++ // the getter owns the object until it puts it back
					p.Put(v)
				}},
				{"Put", func(r *rand.Rand) { p.Put(&[2]int{7, 7}) }},
			}, none
		}},
		{"LimitPool", func(r *rand.Rand) ([]op, func()) {
			p := syncx.NewLimitPool(1+r.Intn(3), func() *[2]int { return &[2]int{} })
			return []op{
				{"Get", func(r *rand.Rand) {
					if v, ok := p.Get(); ok {
						v[0]++
						v[1]++
						p.Put(v)
					}
				}},
				{"Put", func(r *rand.Rand) { p.Put(&[2]int{7, 7}) }},
			}, none
		}},
		{"SegmentKeysLock", func(r *rand.Rand) ([]op, func()) {
			l := syncx.NewSegmentKeysLock(uint32(1 + r.Intn(3)))
			keys := []string{"a", "b", "ab", "", "key"}
			var guarded [5][2]int // guarded[i] is protected by the lock of keys[i]: the race detector checks the exclusion
			return []op{
				{"Lock/Unlock", func(r *rand.Rand) {
					i := r.Intn(len(keys))
					l.Lock(keys[i])
					guarded[i][0]++
					guarded[i][1]++
					l.Unlock(keys[i])
				}},
				{"RLock/RUnlock", func(r *rand.Rand) {
					i := r.Intn(len(keys))
					l.RLock(keys[i])
					if guarded[i][0] != guarded[i][1] {
						panic("reader saw a half-done update under RLock")
					}
					l.RUnlock(keys[i])
				}},
				{"TryLock", func(r *rand.Rand) {
					k := keys[r.Intn(len(keys))]
					if l.TryLock(k) {
						l.Unlock(k)
					}
				}},
				{"TryRLock", func(r *rand.Rand) {
					k := keys[r.Intn(len(keys))]
					if l.TryRLock(k) {
						l.RUnlock(k)
					}
				}},
			}, none
		}},
		{"atomicx.Value", func(r *rand.Rand) ([]op, func()) {
			v := atomicx.NewValueOf(0)
			return []op{
				{"Load", func(r *rand.Rand) { _ = v.Load() }},
				{"Store", func(r *rand.Rand) { v.Store(r.Intn(5)) }},
				{"Swap", func(r *rand.Rand) { _ = v.Swap(r.Intn(5)) }},
				{"CompareAndSwap", func(r *rand.Rand) { _ = v.CompareAndSwap(r.Intn(5), r.Intn(5)) }},
			}, none
		}},
		{"OnDemandBlockTaskPool", func(r *rand.Rand) ([]op, func()) {
			initGo := 1 + r.Intn(2)
			p, err := pool.NewOnDemandBlockTaskPool(initGo, 1+r.Intn(3), pool.WithCoreGo(int32(initGo+1)),
				pool.WithMaxGo(int32(initGo+2)), pool.WithMaxIdleTime(300*time.Microsecond), pool.WithQueueBacklogRate(0.3))
			if err != nil {
				panic(err)
			}
			if r.Intn(3) > 0 {
				_ = p.Start()
			}
			task := pool.TaskFunc(func(ctx context.Context) error {
				switch n := time.Now().UnixNano() / 64; {
				case n%3 == 0:
					time.Sleep(20 * time.Microsecond)
				case n%5 == 0:
					panic("c15: task panic") // the recover branch of taskWrapper.Run, concurrently in several workers
				case n%7 == 0:
					return fmt.Errorf("c15: task error")
				}
				return nil
			})
			return []op{
					{"Submit", func(r *rand.Rand) { ctx, c := short(r); _ = p.Submit(ctx, task); c() }},
					{"Start", func(r *rand.Rand) { _ = p.Start() }},
					{"Shutdown", func(r *rand.Rand) { _, _ = p.Shutdown() }},
					{"ShutdownNow", func(r *rand.Rand) { _, _ = p.ShutdownNow() }},
					{"States", func(r *rand.Rand) {
						ctx, c := short(r)
						ch, err := p.States(ctx, 100*time.Microsecond)
						if err == nil {
							for range ch {
							}
						}
						c()
					}},
				}, func() {
					_ = p.Start()
					_, _ = p.ShutdownNow()
				}
		}},
		{"ExponentialBackoffRetryStrategy", func(r *rand.Rand) ([]op, func()) {
			s, _ := retry.NewExponentialBackoffRetryStrategy(time.Millisecond, 8*time.Millisecond, int32(r.Intn(20)))
			return []op{{"Next", func(r *rand.Rand) { _, _ = s.Next() }}}, none
		}},
		{"FixedIntervalRetryStrategy", func(r *rand.Rand) ([]op, func()) {
			s, _ := retry.NewFixedIntervalRetryStrategy(time.Millisecond, int32(r.Intn(20)))
			return []op{{"Next", func(r *rand.Rand) { _, _ = s.Next() }}}, none
		}},
		{"ReflectCopier", func(r *rand.Rand) ([]op, func()) {
			c, err := copier.NewReflectCopier[src, dst](copier.IgnoreFields("B"),
				copier.ConvertField[time.Time, string]("T", converter.Time2String{Pattern: time.RFC3339}))
			if err != nil {
				panic(err)
			}
			mk := func(r *rand.Rand) *src {
				return &src{A: r.Intn(9), B: "b", T: time.Unix(int64(r.Intn(1000)), 0), In: inner{X: 1, Y: []int{1}}, P: &inner{X: 2}}
			}
			return []op{
				{"Copy", func(r *rand.Rand) {
					s := mk(r)
					d, err := c.Copy(s)
					if err != nil || d.A != s.A || d.B != "" {
						panic(fmt.Sprint("Copy: default options not applied ", err, d))
					}
				}},
				{"CopyTo", func(r *rand.Rand) {
					s, d := mk(r), &dst{}
					if err := c.CopyTo(s, d); err != nil || d.A != s.A || d.B != "" {
						panic(fmt.Sprint("CopyTo: default options not applied ", err, d))
					}
				}},
				{"Copy+options", func(r *rand.Rand) {
					s := mk(r)
					d, err := c.Copy(s, copier.IgnoreFields("A"), copier.ConvertField[time.Time, string]("T", converter.Time2String{Pattern: time.RFC822}))
					if err != nil || d.A != 0 || d.B != "" {
						panic(fmt.Sprint("Copy with per-call options ", err, d))
					}
				}},
			}, none
		}},
	}
}

// bigSubjects: the inner containers at sizes where size-dependent fast paths (cursor / index caches, lazy
// compaction, shrinking) would be active: >= 100 elements, SEVERAL concurrent readers (random indices in both
// halves) and ONE writer that keeps the size.  ops[:readers] are the read-only methods, the rest is the writer's.
type bigSubject struct {
	subject
	readers int
}

func bigListOps(l list.List[int], n int) []op {
	return []op{
		{"Get", func(r *rand.Rand) {
			i := r.Intn(n / 2)
			if r.Intn(2) == 0 {
				i = n - 1 - i // second half: the list may be walked from the tail
			}
			_, _ = l.Get(i)
			_, _ = l.Get(i) // the same index again (a cache hit, if there is a cache)
		}},
		{"Range", func(r *rand.Rand) {
			s, stop := 0, r.Intn(n)
			_ = l.Range(func(i int, v int) error {
				s += v
				if i == stop && stop%3 == 0 {
					return fmt.Errorf("stop")
				}
				return nil
			})
		}},
		{"Len", func(r *rand.Rand) { _ = l.Len(); _ = l.Cap() }},
		{"AsSlice", func(r *rand.Rand) {
			s := l.AsSlice()
			if len(s) > 0 {
				s[r.Intn(len(s))]++
			}
		}},
		// writer: keeps the length in [n, n+2]
		{"Set", func(r *rand.Rand) { _ = l.Set(r.Intn(n), r.Intn(100)) }},
		{"Add+Delete", func(r *rand.Rand) {
			_ = l.Add(r.Intn(n), r.Intn(100))
			_, _ = l.Delete(r.Intn(n))
		}},
		{"Append+Delete", func(r *rand.Rand) {
			_ = l.Append(r.Intn(100))
			_, _ = l.Delete(r.Intn(n))
		}},
	}
}

func seq(n int) []int {
	s := make([]int, n)
	for i := range s {
		s[i] = i
	}
	return s
}

func bigSubjects() []bigSubject {
	none := func() {}
	size := func(r *rand.Rand) int { return 100 + r.Intn(100) }
	return []bigSubject{
		{subject{"CopyOnWriteArrayList/big", func(r *rand.Rand) ([]op, func()) {
			n := size(r)
			return bigListOps(list.NewCopyOnWriteArrayListOf(seq(n)), n), none
		}}, 4},
		{subject{"ConcurrentList/ArrayList/big", func(r *rand.Rand) ([]op, func()) {
			n := size(r)
			return bigListOps(&list.ConcurrentList[int]{List: list.NewArrayListOf(seq(n))}, n), none
		}}, 4},
		{subject{"ConcurrentList/LinkedList/big", func(r *rand.Rand) ([]op, func()) {
			n := size(r)
			return bigListOps(&list.ConcurrentList[int]{List: list.NewLinkedListOf(seq(n))}, n), none
		}}, 4},
		{subject{"ConcurrentPriorityQueue/big", func(r *rand.Rand) ([]op, func()) {
			n := size(r)
			q := queue.NewConcurrentPriorityQueue[int]([]int{0, 4 * n}[r.Intn(2)], func(a, b int) int { return a - b })
			for i := 0; i < n; i++ {
				_ = q.Enqueue(r.Intn(1000))
			}
			return []op{
				{"Peek", func(r *rand.Rand) { _, _ = q.Peek() }},
				{"Len", func(r *rand.Rand) { _ = q.Len() }},
				{"Cap", func(r *rand.Rand) { _ = q.Cap() }},
				{"Enqueue+Dequeue", func(r *rand.Rand) { _ = q.Enqueue(r.Intn(1000)); _, _ = q.Dequeue() }},
				{"Dequeue+Enqueue", func(r *rand.Rand) { _, _ = q.Dequeue(); _ = q.Enqueue(r.Intn(1000)) }},
			}, none
		}}, 3},
		{subject{"ConcurrentLinkedBlockingQueue/big", func(r *rand.Rand) ([]op, func()) {
			n := size(r)
			q := queue.NewConcurrentLinkedBlockingQueue[int]([]int{0, 2 * n}[r.Intn(2)])
			for i := 0; i < n; i++ {
				_ = q.Enqueue(context.Background(), i)
			}
			return []op{
				{"Len", func(r *rand.Rand) { _ = q.Len() }},
				{"AsSlice", func(r *rand.Rand) {
					if s := q.AsSlice(); len(s) > 0 {
						s[r.Intn(len(s))]++
					}
				}},
				{"Enqueue+Dequeue", func(r *rand.Rand) {
					ctx, c := short(r)
					_ = q.Enqueue(ctx, r.Intn(100))
					_, _ = q.Dequeue(ctx)
					c()
				}},
			}, none
		}}, 2},
		{subject{"ConcurrentArrayBlockingQueue/big", func(r *rand.Rand) ([]op, func()) {
			n := size(r)
			q := queue.NewConcurrentArrayBlockingQueue[int](2 * n)
			for i := 0; i < n; i++ {
				_ = q.Enqueue(context.Background(), i)
			}
			return []op{
				{"Len", func(r *rand.Rand) { _ = q.Len() }},
				{"AsSlice", func(r *rand.Rand) { _ = q.AsSlice() }},
				{"Enqueue+Dequeue", func(r *rand.Rand) {
					ctx, c := short(r)
					_ = q.Enqueue(ctx, r.Intn(100))
					_, _ = q.Dequeue(ctx)
					c()
				}},
			}, none
		}}, 2},
		{subject{"DelayQueue/big", func(r *rand.Rand) ([]op, func()) {
			// no read-only method: several dequeuers (Peek inside Dequeue) against one enqueuer over a heap of >= 100
			n := size(r)
			q := queue.NewDelayQueue[delayed](2 * n)
			for i := 0; i < n; i++ {
				_ = q.Enqueue(context.Background(), delayed{time.Now().Add(time.Duration(r.Intn(4000)-2000) * time.Microsecond)})
			}
			return []op{
				{"Dequeue", func(r *rand.Rand) { ctx, c := short(r); _, _ = q.Dequeue(ctx); c() }},
				{"Enqueue", func(r *rand.Rand) {
					ctx, c := short(r)
					_ = q.Enqueue(ctx, delayed{time.Now().Add(time.Duration(r.Intn(400)-100) * time.Microsecond)})
					c()
				}},
			}, none
		}}, 1},
	}
}

var totalOps int64
var opsMu sync.Mutex

// runWorkload: goroutine g runs pick(g) k times after a common start signal
func runWorkload(s subject, label string, seed int64, goroutines, k int, pick func(r *rand.Rand, g int, n int) int) {
	fmt.Fprintf(os.Stderr, "=== C15 WORKLOAD %s|%s seed=%d\n", s.name, label, seed)
	ops, cleanup := s.fresh(rand.New(rand.NewSource(seed)))
	start := make(chan struct{})
	var wg sync.WaitGroup
	done := make(chan struct{})
	for g := 0; g < goroutines; g++ {
		wg.Add(1)
		go func(g int) {
			defer wg.Done()
			r := rand.New(rand.NewSource(seed*31 + int64(g)))
			<-start
			for n := 0; n < k; n++ {
				ops[pick(r, g, len(ops))].run(r)
			}
		}(g)
	}
	close(start)
	go func() { wg.Wait(); close(done) }()
	select {
	case <-done:
	case <-time.After(30 * time.Second):
		buf := make([]byte, 1<<20)
		buf = buf[:runtime.Stack(buf, true)]
		fmt.Fprintf(os.Stderr, "=== C15 HANG %s|%s seed=%d\n%s\n", s.name, label, seed, buf)
		os.Exit(3)
	}
	cleanup()
	opsMu.Lock()
	totalOps += int64(goroutines * k)
	opsMu.Unlock()
}

func main(args []string) {
	seed, iters, k := int64(1), 2, 20
	filter := ""
	if len(args) > 0 {
		seed, _ = strconv.ParseInt(args[0], 10, 64)
	}
	if len(args) > 1 {
		iters, _ = strconv.Atoi(args[1])
	}
	if len(args) > 2 {
		k, _ = strconv.Atoi(args[2])
	}
	if len(args) > 3 {
		filter = args[3]
	}
	verifhook.SetMode(verifhook.Chaos)
	workloads, pairs := 0, 0
	for si, s := range subjects() {
		if filter != "" && !strings.Contains(s.name, filter) {
			continue
		}
		names, _ := s.fresh(rand.New(rand.NewSource(seed)))
		// pairwise matrix: every unordered pair of public methods (including a method with itself)
		for i := range names {
			for j := i; j < len(names); j++ {
				pairs++
				for it := 0; it < iters; it++ {
					ws := seed*1000003 + int64(si)*10007 + int64(i)*101 + int64(j)*7 + int64(it)
					g := 2 + int((ws+int64(it))%3) // 2..4 goroutines
					i, j := i, j
					runWorkload(s, names[i].name+"|"+names[j].name, ws, g, k, func(r *rand.Rand, g, n int) int {
						if g%2 == 0 {
							return i
						}
						return j
					})
					workloads++
				}
			}
		}
		// mixed workload: all methods, 4 goroutines
		for it := 0; it < iters; it++ {
			ws := seed*7919 + int64(si)*131 + int64(it)
			runWorkload(s, "mixed|*", ws, 4, 3*k, func(r *rand.Rand, g, n int) int { return r.Intn(n) })
			workloads++
		}
	}
	// big containers: 3 readers (goroutines 1..3) and one writer (goroutine 0)
	for si, b := range bigSubjects() {
		if filter != "" && !strings.Contains(b.name, filter) {
			continue
		}
		for it := 0; it < iters; it++ {
			ws := seed*104729 + int64(si)*977 + int64(it)
			nr := b.readers
			runWorkload(b.subject, "readers|writer", ws, 4, 4*k, func(r *rand.Rand, g, n int) int {
				if g == 0 {
					return nr + r.Intn(n-nr)
				}
				return r.Intn(nr)
			})
			workloads++
		}
	}
	time.Sleep(5 * time.Millisecond) // let background goroutines of the last workloads finish under the detector
	fmt.Fprintf(os.Stderr, "=== C15 END\n")
	fmt.Printf("ok workloads=%d pairs=%d ops=%d\n", workloads, pairs, totalOps)
}
