// Command h runs the implementation side of the correspondence checks:
// `h <property> [args]` reads cases on stdin and prints one observable per line.
package main

import (
	"fmt"
	"os"

	"verifharness/c17"
)

var cmds = map[string]func(args []string){
	"c17": c17.Main,
}

func main() {
	if len(os.Args) < 2 || cmds[os.Args[1]] == nil {
		fmt.Fprintln(os.Stderr, "usage: h <property> [args]")
		os.Exit(2)
	}
	cmds[os.Args[1]](os.Args[2:])
}
