// Command h runs the implementation side of the correspondence checks:
// `h <command> [args]` reads cases on stdin and prints one observable per line.
// Sub-commands register themselves in init() (package reg); imports_gen.go, written by
// tools/genimports.sh, imports every sub-package.
package main

import (
	"fmt"
	"os"

	"verifharness/reg"
)

func main() {
	if len(os.Args) < 2 || reg.Cmds[os.Args[1]] == nil {
		fmt.Fprintln(os.Stderr, "usage: h <command> [args]")
		os.Exit(2)
	}
	reg.Cmds[os.Args[1]](os.Args[2:])
}
