package dq

import (
	"context"
	"fmt"
	"math/rand"
	"os"
	"runtime"
	"sort"
	"strconv"
	"sync"
	"sync/atomic"
	"time"

	"github.com/ecodeclub/ekit/queue"
	"github.com/ecodeclub/ekit/verifhook"
	"verifharness/reg"
)

func init() { reg.Register("c08-dq-stress", stressMain) }

type enqRec struct {
	id      int
	dl      time.Time
	enqRet  time.Time // Enqueue returned nil at
	deqFrom time.Time // start of the Dequeue call that returned it (zero: never returned)
	deqRet  time.Time
	count   int32
}

type deqRec struct {
	id         int
	start, end time.Time
}

// stressMain is the SEARCH oracle for C08/C09 on the real DelayQueue in REAL time with real timers
// (run it under GODEBUG=asynctimerchan=0 and =1).  Not a proof.  Monitors (none of them can be
// falsified by scheduling noise, the order check has a tolerance that grows with the measured noise):
//   - early:   Delay() > 0 immediately after Dequeue returned the element
//   - once:    an element returned twice / an element never enqueued / (at the end) not returned
//   - cap:     Len sample > capacity (bounded variant)
//   - hang:    not all Dequeues done within a generous bound after the last deadline (goroutine dump)
//   - order:   x returned by a call during the whole of which y was in the queue (Enqueue(y) had
//              returned before the call started, the Dequeue that returned y started after it ended)
//              although deadline(y) + tolerance < deadline(x)
//   - ctxeffect: an Enqueue that returned an error whose element is returned later
//
//	c08-dq-stress <seed> <capacity> <producers> <consumers> <perProducer> [maxDelayMs] [tolMs] [cancelPct]
func stressMain(args []string) {
	if len(args) > 0 && args[0] == "wake" {
		wakeScenario(args[1:])
		return
	}
	if len(args) > 0 && args[0] == "cancelwake" {
		cancelWakeScenario(args[1:])
		return
	}
	if len(args) > 0 && args[0] == "delayhook" {
		delayHookScenario(args[1:])
		return
	}
	if len(args) > 0 && args[0] == "bulk" {
		bulkScenario(args[1:])
		return
	}
	if len(args) > 0 && args[0] == "extreme" {
		extremeScenario(args[1:])
		return
	}
	geti := func(i, def int) int {
		if len(args) > i {
			if v, err := strconv.Atoi(args[i]); err == nil {
				return v
			}
		}
		return def
	}
	seed := int64(geti(0, 1))
	capacity := geti(1, 0)
	producers := geti(2, 4)
	consumers := geti(3, 4)
	per := geti(4, 200)
	maxDelay := geti(5, 20)
	tolMs := geti(6, 5)
	cancelPct := geti(7, 0)
	verifhook.SetMode(verifhook.Chaos)
	q := queue.NewDelayQueue[elem](capacity)
	total := producers * per
	recs := make([]*enqRec, total)
	var deqs []deqRec
	var dmu sync.Mutex
	var violations []string
	var vmu sync.Mutex
	report := func(kind, msg string) {
		vmu.Lock()
		if len(violations) < 8 {
			violations = append(violations, kind+": "+msg)
		}
		vmu.Unlock()
	}
	// scheduling-noise meter: how late does a 1 ms sleep wake up
	var noise atomic.Int64
	stopNoise := make(chan struct{})
	go func() {
		for {
			select {
			case <-stopNoise:
				return
			default:
			}
			t0 := time.Now()
			time.Sleep(time.Millisecond)
			if d := time.Since(t0) - time.Millisecond; int64(d) > noise.Load() {
				noise.Store(int64(d))
			}
		}
	}()
	// Len sampler
	var highLen atomic.Int64
	stopLen := make(chan struct{})
	go func() {
		for {
			select {
			case <-stopLen:
				return
			default:
			}
			if n := int64(q.VerifLen()); n > highLen.Load() {
				highLen.Store(n)
			}
			time.Sleep(200 * time.Microsecond)
		}
	}()
	var lastDeadline atomic.Int64
	var accepted atomic.Int64 // Enqueues that returned nil
	var returned atomic.Int64
	var prodDone atomic.Int64
	allDone := make(chan struct{})
	var closeOnce sync.Once
	checkDone := func() {
		if prodDone.Load() == int64(producers) && returned.Load() == accepted.Load() {
			closeOnce.Do(func() { close(allDone) })
		}
	}
	var wg sync.WaitGroup
	for p := 0; p < producers; p++ {
		wg.Add(1)
		go func(p int) {
			defer wg.Done()
			r := rand.New(rand.NewSource(seed*1000 + int64(p)))
			for j := 0; j < per; j++ {
				id := p*per + j
				d := time.Duration(r.Intn(maxDelay*1000+1)-maxDelay*100) * time.Microsecond // ~10% already expired
				now := time.Now()
				rec := &enqRec{id: id, dl: now.Add(d)}
				recs[id] = rec
				ctx, cancel := context.WithCancel(context.Background())
				if cancelPct > 0 && r.Intn(100) < cancelPct {
					go func() { time.Sleep(time.Duration(r.Intn(300)) * time.Microsecond); cancel() }()
				}
				err := q.Enqueue(ctx, elem{id: id, deadline: rec.dl})
				cancel()
				if err == nil {
					rec.enqRet = time.Now()
					if dl := rec.dl.UnixNano(); dl > lastDeadline.Load() {
						lastDeadline.Store(dl)
					}
					accepted.Add(1)
				} else {
					rec.enqRet = time.Time{}
					atomic.StoreInt32(&rec.count, -1) // must never be returned
				}
				if r.Intn(4) == 0 {
					time.Sleep(time.Duration(r.Intn(2000)) * time.Microsecond)
				}
			}
			prodDone.Add(1)
			checkDone()
		}(p)
	}
	var cwg sync.WaitGroup
	for cn := 0; cn < consumers; cn++ {
		cwg.Add(1)
		go func(cn int) {
			defer cwg.Done()
			r := rand.New(rand.NewSource(seed*7777 + int64(cn)))
			for {
				select {
				case <-allDone:
					return
				default:
				}
				ctx, cancel := context.WithCancel(context.Background())
				stop := make(chan struct{})
				go func() {
					select {
					case <-allDone:
						cancel()
					case <-stop:
					}
				}()
				if cancelPct > 0 && r.Intn(100) < cancelPct {
					go func() { time.Sleep(time.Duration(r.Intn(3000)) * time.Microsecond); cancel() }()
				}
				start := time.Now()
				v, err := q.Dequeue(ctx)
				var delay time.Duration
				if err == nil {
					delay = v.Delay() // immediately after the return
				}
				end := time.Now()
				close(stop)
				cancel()
				if err != nil {
					continue
				}
				if delay > 0 {
					report("early", fmt.Sprintf("element %d returned %v before its expiry", v.id, delay))
				}
				if v.id < 0 || v.id >= total || recs[v.id] == nil {
					report("once", fmt.Sprintf("element %d was never enqueued", v.id))
					continue
				}
				rec := recs[v.id]
				switch n := atomic.AddInt32(&rec.count, 1); {
				case n == 0:
					report("ctxeffect", fmt.Sprintf("element %d returned although its Enqueue returned an error", v.id))
				case n > 1:
					report("once", fmt.Sprintf("element %d returned %d times", v.id, n))
				}
				rec.deqFrom, rec.deqRet = start, end
				dmu.Lock()
				deqs = append(deqs, deqRec{id: v.id, start: start, end: end})
				dmu.Unlock()
				returned.Add(1)
				checkDone()
			}
		}(cn)
	}
	// completion: producers finish, then every accepted element must come out within a generous bound after the last deadline
	pdone := make(chan struct{})
	go func() { wg.Wait(); close(pdone) }()
	hang := func(what string) {
		buf := make([]byte, 1<<20)
		n := runtime.Stack(buf, true)
		fmt.Printf("VIOLATION hang: %s (accepted=%d returned=%d len=%d)\n", what, accepted.Load(), returned.Load(), q.VerifLen())
		fmt.Fprintf(os.Stderr, "%s\n", buf[:n])
		os.Exit(0)
	}
	select {
	case <-pdone:
	case <-time.After(60 * time.Second):
		hang("producers did not finish within 60 s")
	}
	bound := time.Until(time.Unix(0, lastDeadline.Load())) + 10*time.Second
	select {
	case <-allDone:
	case <-time.After(bound):
		hang(fmt.Sprintf("not every accepted element was delivered within %v after the last deadline", 10*time.Second))
	}
	cwg.Wait()
	close(stopLen)
	close(stopNoise)
	verifhook.SetMode(verifhook.Off)
	if capacity > 0 && highLen.Load() > int64(capacity) {
		report("cap", fmt.Sprintf("Len sample %d > capacity %d", highLen.Load(), capacity))
	}
	for _, rec := range recs {
		if rec != nil && !rec.enqRet.IsZero() && atomic.LoadInt32(&rec.count) != 1 {
			report("once", fmt.Sprintf("element %d accepted but returned %d times", rec.id, rec.count))
		}
	}
	for _, rec := range recs {
		if rec != nil && rec.enqRet.IsZero() && !rec.deqRet.IsZero() {
			report("ctxeffect", fmt.Sprintf("element %d returned although its Enqueue returned an error", rec.id))
		}
	}
	if n := q.VerifLen(); n != 0 {
		report("once", fmt.Sprintf("%d elements left in the queue after every accepted element was returned", n))
	}
	// order with tolerance
	tol := time.Duration(tolMs)*time.Millisecond + 2*time.Duration(noise.Load())
	sort.Slice(deqs, func(i, j int) bool { return deqs[i].start.Before(deqs[j].start) })
	nOrder := 0
	for _, d := range deqs {
		x := recs[d.id]
		for _, y := range recs {
			if y == nil || y.enqRet.IsZero() || y.id == x.id {
				continue
			}
			if y.enqRet.Before(d.start) && (y.deqFrom.IsZero() || y.deqFrom.After(d.end)) && y.dl.Add(tol).Before(x.dl) {
				nOrder++
				report("order", fmt.Sprintf("element %d (deadline +%v) returned while element %d, in the queue during the whole call, expires %v earlier (tolerance %v)",
					x.id, x.dl.Sub(x.enqRet).Round(time.Microsecond), y.id, x.dl.Sub(y.dl).Round(time.Microsecond), tol))
			}
		}
	}
	if len(violations) > 0 {
		for _, v := range violations {
			fmt.Println("VIOLATION " + v)
		}
		return
	}
	fmt.Printf("ok accepted=%d returned=%d highlen=%d noise=%v tol=%v\n", accepted.Load(), returned.Load(), highLen.Load(), time.Duration(noise.Load()), tol)
}

// wakeScenario is the directed C09 scenario "a newly enqueued element that expires before the one
// being waited for wakes a blocked Dequeue" in REAL time:
//
//	c08-dq-stress wake <seed> <consumers> [rounds]
//
// Each round: fresh unbounded queue holding a head that expires in 25 s; <consumers> goroutines block
// in Dequeue (context: 5 s); after a settling pause one element is enqueued that is (a) due in 5-15 ms
// or (b) already expired; it must be returned by one of the blocked consumers within 2 s after
// max(enqueue, expiry) - bounds are in seconds, the unchanged code needs microseconds.  Otherwise
// "VIOLATION late-wakeup: ..." with the measured delay (goroutine dump on stderr).  Replay = the
// command line.
func wakeScenario(args []string) {
	geti := func(i, def int) int {
		if len(args) > i {
			if v, err := strconv.Atoi(args[i]); err == nil {
				return v
			}
		}
		return def
	}
	seed := int64(geti(0, 1))
	consumers := geti(1, 1)
	rounds := geti(2, 2)
	const bound = 2 * time.Second
	verifhook.SetMode(verifhook.Chaos)
	r := rand.New(rand.NewSource(seed*31 + int64(consumers)))
	type res struct {
		v   elem
		err error
		at  time.Time
	}
	for round := 0; round < rounds; round++ {
		for _, kind := range []string{"soon", "expired"} {
			q := queue.NewDelayQueue[elem](0)
			far := elem{id: 1, deadline: time.Now().Add(25 * time.Second)}
			if err := q.Enqueue(context.Background(), far); err != nil {
				fmt.Printf("VIOLATION crash: Enqueue of the far head failed: %v\n", err)
				return
			}
			ctx, cancel := context.WithTimeout(context.Background(), 5*time.Second)
			out := make(chan res, consumers)
			for i := 0; i < consumers; i++ {
				go func() {
					v, err := q.Dequeue(ctx)
					out <- res{v, err, time.Now()}
				}()
			}
			time.Sleep(time.Duration(60+r.Intn(60)) * time.Millisecond) // let them block on the far head's timer
			var d time.Duration
			if kind == "soon" {
				d = time.Duration(5+r.Intn(11)) * time.Millisecond
			} else {
				d = -time.Duration(1+r.Intn(20)) * time.Millisecond
			}
			x := elem{id: 2, deadline: time.Now().Add(d)}
			if err := q.Enqueue(context.Background(), x); err != nil {
				fmt.Printf("VIOLATION crash: Enqueue failed: %v\n", err)
				cancel()
				return
			}
			enqAt := time.Now()
			due := x.deadline
			if enqAt.After(due) {
				due = enqAt
			}
			fail := func(msg string) {
				buf := make([]byte, 1<<20)
				n := runtime.Stack(buf, true)
				fmt.Printf("VIOLATION late-wakeup: scenario wake/%s seed=%d consumers=%d round=%d: %s\n", kind, seed, consumers, round, msg)
				fmt.Fprintf(os.Stderr, "%s\n", buf[:n])
				cancel()
			}
			select {
			case got := <-out:
				lat := got.at.Sub(due)
				switch {
				case got.err != nil:
					fail(fmt.Sprintf("a blocked Dequeue returned %v %v after the new element (%s, delay %v) could be delivered", got.err, lat.Round(time.Millisecond), kind, d))
					return
				case got.v.id != 2:
					fmt.Printf("VIOLATION early: scenario wake/%s: the far head (25 s) was returned instead of the new element\n", kind)
					cancel()
					return
				case got.v.Delay() > 0 && got.at.Before(x.deadline):
					fmt.Printf("VIOLATION early: scenario wake/%s: element returned %v before its expiry\n", kind, x.deadline.Sub(got.at))
					cancel()
					return
				case lat > bound:
					fail(fmt.Sprintf("the new element (%s, delay %v) was delivered %v after it could be", kind, d, lat.Round(time.Millisecond)))
					return
				}
			case <-time.After(time.Until(due) + bound):
				fail(fmt.Sprintf("the new element (%s, delay %v) is not delivered %v after it could be: %d Dequeue(s) still blocked on the timer of the 25 s head (Len=%d)",
					kind, d, bound, consumers, q.VerifLen()))
				return
			}
			cancel() // the remaining consumers return ctx.Err()
			for i := 1; i < consumers; i++ {
				select {
				case <-out:
				case <-time.After(10 * time.Second):
					fail("a cancelled Dequeue did not return within 10 s")
					return
				}
			}
		}
	}
	fmt.Printf("ok scenario=wake consumers=%d rounds=%d\n", consumers, rounds)
}

// extremeScenario is the directed C08 scenario with SATURATING delays in REAL time:
//
//	c08-dq-stress extreme <seed> [rounds]
//
// elements: Z = zero time.Time deadline (Delay() saturates at math.MinInt64: expired "since ever"),
// N = deadline in the year 9999 (Delay() saturates at math.MaxInt64: never expires), X = overdue by
// 5-25 ms, S = due in 20-30 ms.  Both elements of a case are enqueued (in both orders) BEFORE the
// Dequeue starts, so only facts that scheduling noise cannot falsify are asserted:
//   min-first   {Z, S}: the first Dequeue returns Z (S expires later)                  -> order
//   min-first   {Z, X}: the first Dequeue returns Z (X expired later than Z)           -> order
//   never-hides {N, X}: Dequeue returns X within 3 s although N is in the queue        -> late-wakeup
//   never-hides {N, S}: Dequeue returns S within 3 s after its expiry                  -> late-wakeup
//   every returned element has Delay() <= 0                                           -> early
func extremeScenario(args []string) {
	geti := func(i, def int) int {
		if len(args) > i {
			if v, err := strconv.Atoi(args[i]); err == nil {
				return v
			}
		}
		return def
	}
	seed := int64(geti(0, 1))
	rounds := geti(1, 2)
	const bound = 3 * time.Second
	verifhook.SetMode(verifhook.Chaos)
	r := rand.New(rand.NewSource(seed*131 + 7))
	never := time.Date(9999, 1, 1, 0, 0, 0, 0, time.UTC)
	name := map[int]string{1: "Z(zero deadline, Delay=MinInt64)", 2: "N(year 9999, Delay=MaxInt64)", 3: "X(overdue)", 4: "S(due in 20-30 ms)"}
	mk := func(id int) elem {
		switch id {
		case 1:
			return elem{id: 1}
		case 2:
			return elem{id: 2, deadline: never}
		case 3:
			return elem{id: 3, deadline: time.Now().Add(-time.Duration(5+r.Intn(21)) * time.Millisecond)}
		}
		return elem{id: 4, deadline: time.Now().Add(time.Duration(20+r.Intn(11)) * time.Millisecond)}
	}
	dump := func() {
		buf := make([]byte, 1<<20)
		n := runtime.Stack(buf, true)
		fmt.Fprintf(os.Stderr, "%s\n", buf[:n])
	}
	type tc struct {
		kind        string
		first, then int // enqueue order
		want        int // id the first Dequeue must return
	}
	var cases []tc
	for _, p := range [][3]int{{1, 4, 1}, {1, 3, 1}, {2, 3, 3}, {2, 4, 4}} {
		k := "min-first"
		if p[0] == 2 {
			k = "never-hides"
		}
		cases = append(cases, tc{k, p[0], p[1], p[2]}, tc{k, p[1], p[0], p[2]})
	}
	for round := 0; round < rounds; round++ {
		for _, c := range cases {
			for _, capacity := range []int{0, 2} {
				q := queue.NewDelayQueue[elem](capacity)
				a, b := mk(c.first), mk(c.then)
				for _, e := range []elem{a, b} {
					if err := q.Enqueue(context.Background(), e); err != nil {
						fmt.Printf("VIOLATION crash: Enqueue failed: %v\n", err)
						return
					}
				}
				want := a
				other := b
				_ = other
				if b.id == c.want {
					want, other = b, a
				}
				ctx, cancel := context.WithTimeout(context.Background(), bound+time.Second)
				t0 := time.Now()
				v, err := q.Dequeue(ctx)
				var delay time.Duration
				if err == nil {
					delay = v.Delay()
				}
				t1 := time.Now()
				cancel()
				where := fmt.Sprintf("scenario extreme/%s seed=%d round=%d capacity=%d enqueue order %s then %s", c.kind, seed, round, capacity, name[a.id], name[b.id])
				due := t0
				if want.id == 4 && want.deadline.After(due) {
					due = want.deadline
				}
				switch {
				case err != nil:
					fmt.Printf("VIOLATION late-wakeup: %s: Dequeue returned %v after %v although %s could be delivered %v ago (Len=%d)\n",
						where, err, t1.Sub(t0).Round(time.Millisecond), name[want.id], t1.Sub(due).Round(time.Millisecond), q.VerifLen())
					dump()
					return
				case delay > 0:
					fmt.Printf("VIOLATION early: %s: %s returned with Delay() = %v\n", where, name[v.id], delay)
					return
				case v.id != want.id && c.kind == "min-first":
					fmt.Printf("VIOLATION order: %s: %s returned (after %v) while %s, enqueued before the call started and expired since ever, is still in the queue\n",
						where, name[v.id], t1.Sub(t0).Round(time.Millisecond), name[want.id])
					return
				case v.id != want.id:
					fmt.Printf("VIOLATION early: %s: the never-expiring element was returned\n", where)
					return
				case t1.Sub(due) > bound:
					fmt.Printf("VIOLATION late-wakeup: %s: %s delivered %v after it could be\n", where, name[want.id], t1.Sub(due).Round(time.Millisecond))
					return
				}
			}
		}
	}
	fmt.Printf("ok scenario=extreme rounds=%d cases=%d\n", rounds, len(cases)*2)
}

// cancelWakeScenario is the directed C09 scenario "space freed while producers are blocked and one of
// them is cancelled" in REAL time:
//
//	c08-dq-stress cancelwake <seed> [rounds]
//
// Each round (for 2 and 3 producers, three variants): bounded queue of capacity 2, full of already
// expired elements; the producers park in Enqueue one after the other (own contexts); then
//   deq+cancel   one Dequeue and the cancellation of the producer that parked first, back to back
//   cancel+deq   the same in the other order
//   deq+deq      two Dequeues back to back right after the producers were started (some of them are
//                still between `signalCh` unlocking the mutex and their select)
// Accounting that noise cannot falsify: the cancelled producer must return within 3 s; with `freed`
// successful Dequeues and `errs` producers that returned ctx.Err(), min(freed, producers-errs)
// Enqueues must have returned nil within 3 s (the queue has room for them).  Afterwards all
// remaining producers are cancelled, the queue is drained and must accept `capacity` elements without
// blocking.  Failures: "VIOLATION lost-wakeup:enqueue: ..." / "late-cancel" / "capacity-after-cancel"
// with variant, round and seed (goroutine dump on stderr).  Replay = the command line.
func cancelWakeScenario(args []string) {
	geti := func(i, def int) int {
		if len(args) > i {
			if v, err := strconv.Atoi(args[i]); err == nil {
				return v
			}
		}
		return def
	}
	seed := int64(geti(0, 1))
	rounds := geti(1, 2)
	const capacity = 2
	const bound = 3 * time.Second
	verifhook.SetMode(verifhook.Chaos)
	r := rand.New(rand.NewSource(seed*977 + 5))
	expired := func(id int) elem {
		return elem{id: id, deadline: time.Now().Add(-time.Duration(1+r.Intn(50)) * time.Millisecond)}
	}
	fail := func(kind, msg string) {
		buf := make([]byte, 1<<20)
		n := runtime.Stack(buf, true)
		fmt.Printf("VIOLATION %s: %s\n", kind, msg)
		fmt.Fprintf(os.Stderr, "%s\n", buf[:n])
	}
	type pres struct {
		i   int
		err error
	}
	nrounds := 0
	for round := 0; round < rounds; round++ {
		for _, producers := range []int{2, 3} {
			for _, variant := range []string{"deq+cancel", "cancel+deq", "deq+deq"} {
				nrounds++
				where := fmt.Sprintf("scenario cancelwake/%s seed=%d round=%d producers=%d capacity=%d", variant, seed, round, producers, capacity)
				q := queue.NewDelayQueue[elem](capacity)
				for i := 0; i < capacity; i++ {
					if err := q.Enqueue(context.Background(), expired(1+i)); err != nil {
						fmt.Printf("VIOLATION crash: %s: filling failed: %v\n", where, err)
						return
					}
				}
				out := make(chan pres, producers)
				cancels := make([]context.CancelFunc, producers)
				for i := 0; i < producers; i++ {
					ctx, cancel := context.WithTimeout(context.Background(), 20*time.Second)
					cancels[i] = cancel
					go func(i int) { out <- pres{i, q.Enqueue(ctx, expired(10+i))} }(i)
					if variant != "deq+deq" {
						time.Sleep(4 * time.Millisecond) // park in this order
					}
				}
				cancelAll := func() {
					for _, c := range cancels {
						c()
					}
				}
				if variant != "deq+deq" {
					time.Sleep(time.Duration(15+r.Intn(15)) * time.Millisecond)
				} else if r.Intn(2) == 0 {
					time.Sleep(time.Duration(r.Intn(300)) * time.Microsecond)
				}
				deq := func() bool {
					ctx, cancel := context.WithTimeout(context.Background(), bound)
					defer cancel()
					_, err := q.Dequeue(ctx)
					if err != nil {
						fail("hang", fmt.Sprintf("%s: Dequeue of an expired element returned %v", where, err))
						return false
					}
					return true
				}
				freed, cancelled := 0, -1
				switch variant {
				case "deq+cancel":
					if !deq() {
						cancelAll()
						return
					}
					freed, cancelled = 1, 0
					cancels[0]()
				case "cancel+deq":
					cancelled = 0
					cancels[0]()
					if !deq() {
						cancelAll()
						return
					}
					freed = 1
				case "deq+deq":
					if !deq() || !deq() {
						cancelAll()
						return
					}
					freed = 2
				}
				t0 := time.Now()
				succ, errs := 0, 0
				returned := make([]bool, producers)
				deadline := time.After(bound)
				need := func() int {
					n := producers - errs
					if freed < n {
						n = freed
					}
					return n
				}
				waitingCancelled := cancelled >= 0
				for waitingCancelled || succ < need() {
					select {
					case p := <-out:
						returned[p.i] = true
						if p.err == nil {
							succ++
						} else {
							errs++
							if p.i != cancelled {
								fail("hang", fmt.Sprintf("%s: Enqueue of producer %d returned %v without being cancelled", where, p.i, p.err))
								cancelAll()
								return
							}
						}
						if p.i == cancelled {
							waitingCancelled = false
						}
					case <-deadline:
						if waitingCancelled {
							fail("late-cancel", fmt.Sprintf("%s: the cancelled producer has not returned %v after its cancellation", where, bound))
						} else {
							blocked := 0
							for _, b := range returned {
								if !b {
									blocked++
								}
							}
							fail("lost-wakeup:enqueue", fmt.Sprintf("%s: %d Dequeue(s) freed space, %d producer(s) returned ctx.Err(), but only %d of %d possible Enqueues returned within %v: %d producer(s) still blocked although the queue has room (Len=%d of %d)",
								where, freed, errs, succ, need(), time.Since(t0).Round(time.Millisecond), blocked, q.VerifLen(), capacity))
						}
						cancelAll()
						return
					}
				}
				// clean up, then the queue must still take `capacity` elements without blocking
				cancelAll()
				left := 0
				for _, b := range returned {
					if !b {
						left++
					}
				}
				for ; left > 0; left-- {
					select {
					case <-out:
					case <-time.After(bound):
						fail("late-cancel", fmt.Sprintf("%s: a cancelled producer has not returned %v after its cancellation", where, bound))
						return
					}
				}
				for q.VerifLen() > 0 {
					if !deq() {
						return
					}
				}
				for i := 0; i < capacity; i++ {
					ctx, cancel := context.WithTimeout(context.Background(), bound)
					err := q.Enqueue(ctx, expired(100+i))
					cancel()
					if err != nil {
						fail("capacity-after-cancel", fmt.Sprintf("%s: after the cancellations the empty queue does not accept element %d of %d: %v", where, i+1, capacity, err))
						return
					}
				}
			}
		}
	}
	fmt.Printf("ok scenario=cancelwake rounds=%d\n", nrounds)
}

// pelem is the pointer-typed variant of the harness element.
type pelem struct {
	id       int
	deadline time.Time
}

func (e *pelem) Delay() time.Duration { return e.deadline.Sub(verifhook.Now()) }

type bulkItem struct {
	id int
	dl time.Time
}

// bulkRun: one queue, one goroutine.  n elements with distinct expiries are enqueued in shuffled order
// (90% already expired, expiries 1 s apart; a tail of up to 5 elements expiring 50, 100, ... ms in the
// future), then drained; whenever a quarter is left, 64 more (expired, expiries between the old ones)
// are enqueued, three times, so that an unbounded queue grows and shrinks repeatedly.  Every Dequeue
// must return the element with the earliest expiry among those in the queue (sorted reference) and
// never before its expiry.  Expired elements are 1 s apart, so no scheduling noise can reorder them;
// for the future tail (50 ms apart) a difference below tol() is not reported.
func bulkRun[T queue.Delayable](what string, seed int64, n, capacity int, mk func(int, time.Time) T, idOf func(T) int, tol func() time.Duration) string {
	r := rand.New(rand.NewSource(seed*7919 + int64(n)))
	q := queue.NewDelayQueue[T](capacity)
	base := time.Now()
	var ref []bulkItem // in the queue, sorted by expiry
	insert := func(it bulkItem) string {
		if err := q.Enqueue(context.Background(), mk(it.id, it.dl)); err != nil {
			return fmt.Sprintf("crash: %s: Enqueue failed: %v", what, err)
		}
		i := sort.Search(len(ref), func(i int) bool { return ref[i].dl.After(it.dl) })
		ref = append(ref, bulkItem{})
		copy(ref[i+1:], ref[i:])
		ref[i] = it
		return ""
	}
	tail := 5
	items := make([]bulkItem, 0, n)
	for i := 0; i < n-tail; i++ {
		items = append(items, bulkItem{id: i, dl: base.Add(-time.Duration(2*(i+1)) * time.Second)})
	}
	for j := 0; j < tail; j++ {
		items = append(items, bulkItem{id: n - tail + j, dl: base.Add(time.Duration(50*(j+1)) * time.Millisecond)})
	}
	r.Shuffle(len(items), func(i, j int) { items[i], items[j] = items[j], items[i] })
	for _, it := range items {
		if m := insert(it); m != "" {
			return m
		}
	}
	refills, nextID, pos := 0, n, 0
	for len(ref) > 0 {
		if refills < 3 && len(ref) <= n/4 {
			refills++
			extra := make([]bulkItem, 0, 64)
			for k := 0; k < 64; k++ { // odd seconds: between the expiries used so far
				extra = append(extra, bulkItem{id: nextID, dl: base.Add(-time.Duration(2*(r.Intn(n)+1)+1)*time.Second - time.Duration(nextID)*time.Microsecond)})
				nextID++
			}
			for _, it := range extra {
				if m := insert(it); m != "" {
					return m
				}
			}
		}
		ctx, cancel := context.WithTimeout(context.Background(), 5*time.Second)
		v, err := q.Dequeue(ctx)
		var delay time.Duration
		if err == nil {
			delay = v.Delay()
		}
		cancel()
		want := ref[0]
		if err != nil {
			return fmt.Sprintf("hang: %s: Dequeue #%d returned %v although element %d expired %v ago (Len=%d)", what, pos, err, want.id, time.Since(want.dl).Round(time.Millisecond), q.VerifLen())
		}
		if delay > 0 {
			return fmt.Sprintf("early: %s: Dequeue #%d returned element %d %v before its expiry", what, pos, idOf(v), delay)
		}
		got := idOf(v)
		if got != want.id {
			gi := -1
			for i := range ref {
				if ref[i].id == got {
					gi = i
				}
			}
			if gi < 0 {
				return fmt.Sprintf("once: %s: Dequeue #%d returned element %d which is not in the queue", what, pos, got)
			}
			if ref[gi].dl.Sub(want.dl) > tol() {
				return fmt.Sprintf("not-earliest: %s: Dequeue #%d (after %d refills, %d left) returned element %d (expiry %+v relative to the start) while element %d (expiry %+v, i.e. %v earlier) is in the queue; %d elements in the queue expire before the returned one",
					what, pos, refills, len(ref), got, ref[gi].dl.Sub(base).Round(time.Millisecond), want.id, want.dl.Sub(base).Round(time.Millisecond),
					ref[gi].dl.Sub(want.dl).Round(time.Millisecond), gi)
			}
			ref = append(ref[:gi], ref[gi+1:]...)
		} else {
			ref = ref[1:]
		}
		pos++
	}
	if l := q.VerifLen(); l != 0 {
		return fmt.Sprintf("once: %s: %d elements left after the reference is empty", what, l)
	}
	return ""
}

// bulkScenario is the directed C08 scenario "bulk-order" (sequential clients, real time):
//
//	c08-dq-stress bulk <seed> [N ...]     (default N = 100 300 1000)
//
// for every N: unbounded and large bounded queue, value-typed and pointer-typed elements (the
// variants run in parallel, each on its own queue).  Replay = the command line.
func bulkScenario(args []string) {
	seed := int64(1)
	if len(args) > 0 {
		if v, err := strconv.Atoi(args[0]); err == nil {
			seed = int64(v)
		}
	}
	var sizes []int
	rest := args
	if len(rest) > 0 {
		rest = rest[1:]
	}
	for _, a := range rest {
		if v, err := strconv.Atoi(a); err == nil && v >= 16 {
			sizes = append(sizes, v)
		}
	}
	if len(sizes) == 0 {
		sizes = []int{100, 300, 1000}
	}
	verifhook.SetMode(verifhook.Chaos)
	var noise atomic.Int64
	stop := make(chan struct{})
	go func() {
		for {
			select {
			case <-stop:
				return
			default:
			}
			t0 := time.Now()
			time.Sleep(time.Millisecond)
			if d := time.Since(t0) - time.Millisecond; int64(d) > noise.Load() {
				noise.Store(int64(d))
			}
		}
	}()
	tol := func() time.Duration { return 20*time.Millisecond + 2*time.Duration(noise.Load()) }
	var mu sync.Mutex
	var bad []string
	var wg sync.WaitGroup
	run := func(f func() string) {
		wg.Add(1)
		go func() {
			defer wg.Done()
			if m := f(); m != "" {
				mu.Lock()
				bad = append(bad, m)
				mu.Unlock()
			}
		}()
	}
	for _, n := range sizes {
		n := n
		for _, capacity := range []int{0, n + 256} {
			capacity := capacity
			w := fmt.Sprintf("scenario bulk-order seed=%d N=%d capacity=%d", seed, n, capacity)
			run(func() string {
				return bulkRun[elem](w+" value elements", seed, n, capacity,
					func(id int, dl time.Time) elem { return elem{id: id, deadline: dl} }, func(e elem) int { return e.id }, tol)
			})
			run(func() string {
				return bulkRun[*pelem](w+" pointer elements", seed, n, capacity,
					func(id int, dl time.Time) *pelem { return &pelem{id: id, deadline: dl} },
					func(e *pelem) int {
						if e == nil {
							return -1
						}
						return e.id
					}, tol)
			})
		}
	}
	wg.Wait()
	close(stop)
	if len(bad) > 0 {
		sort.Strings(bad)
		for i, m := range bad {
			if i < 4 {
				fmt.Println("VIOLATION " + m)
			}
		}
		return
	}
	fmt.Printf("ok scenario=bulk-order sizes=%v variants=%d noise=%v\n", sizes, 4*len(sizes), time.Duration(noise.Load()))
}

// helem is an element whose Delay() can be hooked: while the hook is armed, the FIRST Delay() call
// (of any helem) fires it once: it tells the helper goroutine to go and then takes a fixed 30 ms
// (it does NOT wait for the helper) before it returns the ordinary value.
type helem struct {
	id       int
	deadline time.Time
	hook     *delayHook
}

type delayHook struct {
	armed atomic.Bool
	goCh  chan struct{}
}

func (e helem) Delay() time.Duration {
	if h := e.hook; h != nil && h.armed.CompareAndSwap(true, false) {
		close(h.goCh)
		time.Sleep(30 * time.Millisecond)
	}
	return e.deadline.Sub(verifhook.Now())
}

// delayHookScenario is the directed C09 scenario "enqueue-during-delay" in REAL time:
//
//	c08-dq-stress delayhook <seed> [rounds]
//
// Each round (unbounded and capacity 2): the queue holds one element due in 4 s; the hook is armed; a
// consumer calls Dequeue: its `delay := val.Delay()` on the head fires the hook, a helper goroutine
// Enqueues an ALREADY EXPIRED element while the consumer is inside Delay() (on the unchanged code the
// helper waits for the mutex until the consumer has fetched its signal channel and unlocked).  The
// consumer's Dequeue must return the expired element within 1.5 s of the helper's Enqueue having
// returned (the head is due only after 4 s).  Otherwise "VIOLATION lost-wakeup:dequeue: ..." with the
// round and the timings (goroutine dump on stderr).  Replay = the command line.
func delayHookScenario(args []string) {
	geti := func(i, def int) int {
		if len(args) > i {
			if v, err := strconv.Atoi(args[i]); err == nil {
				return v
			}
		}
		return def
	}
	seed := int64(geti(0, 1))
	rounds := geti(1, 2)
	const bound = 1500 * time.Millisecond
	verifhook.SetMode(verifhook.Chaos)
	r := rand.New(rand.NewSource(seed*613 + 11))
	n := 0
	for round := 0; round < rounds; round++ {
		for _, capacity := range []int{0, 2} {
			n++
			where := fmt.Sprintf("scenario enqueue-during-delay seed=%d round=%d capacity=%d", seed, round, capacity)
			q := queue.NewDelayQueue[helem](capacity)
			hook := &delayHook{goCh: make(chan struct{})}
			far := helem{id: 1, deadline: time.Now().Add(4 * time.Second), hook: hook}
			if err := q.Enqueue(context.Background(), far); err != nil {
				fmt.Printf("VIOLATION crash: %s: Enqueue of the head failed: %v\n", where, err)
				return
			}
			type hres struct {
				at  time.Time
				err error
			}
			helperDone := make(chan hres, 1)
			go func() {
				<-hook.goCh
				x := helem{id: 2, deadline: time.Now().Add(-time.Duration(1+r.Intn(20)) * time.Millisecond), hook: hook}
				err := q.Enqueue(context.Background(), x)
				helperDone <- hres{time.Now(), err}
			}()
			ctx, cancel := context.WithTimeout(context.Background(), 8*time.Second)
			type cres struct {
				v   helem
				err error
				at  time.Time
			}
			out := make(chan cres, 1)
			hook.armed.Store(true) // the head is in the queue, the next Delay() call is the consumer's
			t0 := time.Now()
			go func() {
				v, err := q.Dequeue(ctx)
				out <- cres{v, err, time.Now()}
			}()
			fail := func(kind, msg string) {
				buf := make([]byte, 1<<20)
				k := runtime.Stack(buf, true)
				fmt.Printf("VIOLATION %s: %s: %s\n", kind, where, msg)
				fmt.Fprintf(os.Stderr, "%s\n", buf[:k])
				cancel()
			}
			var h hres
			select {
			case h = <-helperDone:
			case <-time.After(5 * time.Second):
				fail("hang", "the helper's Enqueue of the expired element did not return within 5 s")
				return
			}
			if h.err != nil {
				fail("hang", fmt.Sprintf("the helper's Enqueue failed: %v", h.err))
				return
			}
			select {
			case c := <-out:
				lat := c.at.Sub(h.at)
				switch {
				case c.err != nil:
					fail("lost-wakeup:dequeue", fmt.Sprintf("Dequeue returned %v %v after an expired element was enqueued", c.err, lat.Round(time.Millisecond)))
					return
				case c.v.id != 2:
					fail("early", fmt.Sprintf("Dequeue returned the head due in 4 s after %v", c.at.Sub(t0).Round(time.Millisecond)))
					return
				case lat > bound:
					fail("lost-wakeup:dequeue", fmt.Sprintf("the expired element was delivered %v after its Enqueue returned", lat.Round(time.Millisecond)))
					return
				}
			case <-time.After(time.Until(h.at) + bound):
				fail("lost-wakeup:dequeue", fmt.Sprintf("an already expired element was enqueued (Enqueue returned %v after the Dequeue started, while the consumer was evaluating the head's Delay()); %v later the Dequeue is still blocked on the timer of the head due in 4 s (Len=%d)",
					h.at.Sub(t0).Round(time.Millisecond), bound, q.VerifLen()))
				return
			}
			cancel()
		}
	}
	fmt.Printf("ok scenario=enqueue-during-delay rounds=%d\n", n)
}
