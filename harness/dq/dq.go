// Package dq: the real DelayQueue under the lock-step controller (object "dq") and the
// real-time stress/monitor command c08-dq-stress (see stress.go).
package dq

import (
	"context"
	"errors"
	"fmt"
	"strconv"
	"time"

	"github.com/ecodeclub/ekit/queue"
	"github.com/ecodeclub/ekit/verifhook"
	"verifharness/lockstep"
)

// elem is the harness element: Delay() reads verifhook.Now(), i.e. the virtual clock in
// lock-step mode and the real clock otherwise.
type elem struct {
	id       int
	deadline time.Time
}

func (e elem) Delay() time.Duration { return e.deadline.Sub(verifhook.Now()) }

type inst struct{ q *queue.DelayQueue[elem] }

func errClass(err error) string {
	switch {
	case err == nil:
		return "ok"
	case errors.Is(err, context.Canceled), errors.Is(err, context.DeadlineExceeded):
		return "err:ctx"
	}
	return "err:other"
}

// Call: "enq <id> <deadline ns on the virtual clock>" | "deq"
func (i *inst) Call(ctx context.Context, tid int, op string, args []string) string {
	switch op {
	case "enq":
		id, _ := strconv.Atoi(args[0])
		dl, _ := strconv.ParseInt(args[1], 10, 64)
		return errClass(i.q.Enqueue(ctx, elem{id: id, deadline: time.Unix(0, dl)}))
	case "deq":
		v, err := i.q.Dequeue(ctx)
		if err == nil {
			return fmt.Sprintf("val:%d:%d", v.id, v.deadline.UnixNano())
		}
		return errClass(err)
	}
	return "badop"
}

func init() {
	lockstep.Register("dq", func(params []string) lockstep.Instance {
		c, _ := strconv.Atoi(params[0])
		return &inst{q: queue.NewDelayQueue[elem](c)}
	})
}
