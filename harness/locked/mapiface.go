package locked

// syncx.Map with INTERFACE-typed values (V = any, V = error): a stored nil value is a present key.
// Values are drawn from a small table whose entry 0 is the nil interface (= V's zero value); calls and
// answers are written with the table INDEX, so the int-valued specification (mapSpec) applies unchanged.
//   any  : nil, 0, 1, "x", (*int)(nil)          error : nil, errA, errB
// (1) mapIfaceSequential: differential against a mirror Go map on a quiescent map — every Load /
//     LoadOrStore / LoadAndDelete / LoadOrStoreFunc must report presence and value exactly as the mirror,
//     fn must run exactly when the key is absent, Range must visit exactly the mirror.  Kind map-contract.
// (2) stress objects syncmap-any / syncmap-error of c06-locked-stress (porcupine).

import (
	"errors"
	"fmt"
	"math/rand"
	"strconv"

	"github.com/ecodeclub/ekit/syncx"
)

var (
	errA = errors.New("A")
	errB = errors.New("B")
)

func anyTable() []any     { return []any{nil, 0, 1, "x", (*int)(nil)} }
func errorTable() []error { return []error{nil, errA, errB} }

func idxOf[V any](table []V, v V) int {
	for i := range table {
		if any(table[i]) == any(v) {
			return i
		}
	}
	return -1
}

// mapCallIdx: like mapCall, values given and reported as table indices; also reports whether fn ran
func mapCallIdx[V any](m *syncx.Map[int, V], table []V, op string, args []string) (string, bool) {
	val := func(v V, ok bool, err bool) string { return fmt.Sprintf("val:%d:%t:%t", idxOf(table, v), ok, err) }
	switch op {
	case "load":
		v, ok := m.Load(atoi(args[0]))
		return val(v, ok, false), false
	case "store":
		m.Store(atoi(args[0]), table[atoi(args[1])])
		return "unit", false
	case "los":
		v, loaded := m.LoadOrStore(atoi(args[0]), table[atoi(args[1])])
		return val(v, loaded, false), false
	case "losf":
		v0, fails, ran := table[atoi(args[1])], args[2] == "1", false
		v, loaded, err := m.LoadOrStoreFunc(atoi(args[0]), func() (V, error) {
			ran = true
			if fails {
				var z V
				return z, errStop
			}
			return v0, nil
		})
		return val(v, loaded, err != nil), ran
	case "lad":
		v, loaded := m.LoadAndDelete(atoi(args[0]))
		return val(v, loaded, false), false
	case "del":
		m.Delete(atoi(args[0]))
		return "unit", false
	}
	return "badop", false
}

func genMapOpIdx(r *rand.Rand, nvals int) call {
	k := strconv.Itoa(r.Intn(3))
	v := strconv.Itoa(r.Intn(nvals))
	if r.Intn(3) == 0 {
		v = "0" // the nil interface value, often
	}
	switch n := r.Intn(100); {
	case n < 22:
		return call{"load", []string{k}}
	case n < 40:
		return call{"store", []string{k, v}}
	case n < 52:
		return call{"los", []string{k, v}}
	case n < 76:
		f := "0"
		if r.Intn(5) == 0 {
			f = "1"
		}
		return call{"losf", []string{k, v, f}}
	case n < 90:
		return call{"lad", []string{k}}
	}
	return call{"del", []string{k}}
}

func mapIfaceSequential[V any](name string, table []V, seed int64, cases int) string {
	r := rand.New(rand.NewSource(seed*1237 + int64(len(table))))
	for c := 0; c < cases; c++ {
		m := &syncx.Map[int, V]{}
		st := map[string]kvState{} // per key, the specification's state
		var trace []string
		for i, n := 0, 1+r.Intn(14); i < n; i++ {
			op := genMapOpIdx(r, len(table))
			k := op.args[0]
			ns, want := mapSpec(st[k], op)
			got, ran := mapCallIdx(m, table, op.op, op.args)
			trace = append(trace, op.String()+" -> "+got)
			where := fmt.Sprintf("V=%s sequential case %d: %v", name, c, trace)
			if got != want {
				return fmt.Sprintf("%s: the call answered %s, a map holding %v answers %s (value indices: 0 = nil interface)", where, got, st, want)
			}
			if op.op == "losf" && ran != !st[k].present {
				return fmt.Sprintf("%s: LoadOrStoreFunc ran fn = %t although the key was present = %t", where, ran, st[k].present)
			}
			st[k] = ns.(kvState)
		}
		seen := map[int]int{}
		m.Range(func(k int, v V) bool { seen[k] = idxOf(table, v); return true })
		n := 0
		for k, s := range st {
			if s.present {
				n++
				if v, ok := seen[atoi(k)]; !ok || v != s.v {
					return fmt.Sprintf("V=%s sequential case %d: %v: Range visited %v, the map holds %v", name, c, trace, seen, st)
				}
			}
		}
		if n != len(seen) {
			return fmt.Sprintf("V=%s sequential case %d: %v: Range visited %v, the map holds %v", name, c, trace, seen, st)
		}
	}
	return ""
}
