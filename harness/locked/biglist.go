package locked

// c06-locked-biglist: directed real-time scenario "big-list snapshot" (search oracle, not a proof).
//
//	c06-locked-biglist <seed> <array|linked> <readers> <durationMs>
//
// A ConcurrentList pre-filled with N = 1000 distinct increasing values 0..N-1.  One writer rotates it:
// Delete(0) then Append(next) with next = N, N+1, ...  — so every state the list ever has is a contiguous
// run [f .. f+len-1] of the increasing sequence with len in {N-1, N}.  Readers call Range (collecting the
// visited values) and AsSlice.  Monitor, per result:
//   - length N-1 or N, and strictly consecutive values (nothing skipped, nothing twice);
//   - the run is a state the list had between the call's invocation and its response:
//       deletes completed before the invocation <= first value <= deletes started before the response,
//       appends completed before the invocation <= last value-(N-1) <= appends started before the response.
// Chaos mode: the instrumented statements of concurrent_list.go yield at random.
// Prints "ok ..." or "torn-read ..." (first violating result, with the position of the tear).

import (
	"fmt"
	"strconv"
	"sync"
	"sync/atomic"
	"time"

	"github.com/ecodeclub/ekit/verifhook"
	"verifharness/reg"
)

func init() { reg.Register("c06-locked-biglist", bigListMain) }

const bigN = 1000

func bigListMain(args []string) {
	if len(args) < 4 {
		fmt.Println("usage: c06-locked-biglist <seed> <array|linked> <readers> <durationMs>")
		return
	}
	kind := args[1]
	readers := atoi(args[2])
	dur := time.Duration(atoi(args[3])) * time.Millisecond
	init := make([]int, bigN)
	for i := range init {
		init[i] = i
	}
	l := newClist(kind, init)

	var delStarted, delDone, appStarted, appDone atomic.Int64
	var stop atomic.Bool
	var bad atomic.Value // string
	var nRange, nSlice atomic.Int64
	fail := func(s string) {
		bad.CompareAndSwap(nil, s)
		stop.Store(true)
	}
	check := func(who string, res []int, d0, a0, d1, a1 int64) {
		if len(res) != bigN && len(res) != bigN-1 {
			fail(fmt.Sprintf("%s returned %d elements; the list only ever has %d or %d", who, len(res), bigN-1, bigN))
			return
		}
		for i := 1; i < len(res); i++ {
			if res[i] != res[i-1]+1 {
				what := "skipped"
				if res[i] <= res[i-1] {
					what = "repeated"
				}
				fail(fmt.Sprintf("%s returned a sequence the list never contained: position %d holds %d after %d at position %d (a value was %s); first=%d len=%d",
					who, i, res[i], res[i-1], i-1, what, res[0], len(res)))
				return
			}
		}
		first, app := int64(res[0]), int64(res[len(res)-1]-(bigN-1))
		if first < d0 || first > d1 || app < a0 || app > a1 {
			fail(fmt.Sprintf("%s returned [%d..%d], not a state of the list during the call: deletes in [%d,%d], appends in [%d,%d] allowed",
				who, res[0], res[len(res)-1], d0, d1, a0, a1))
		}
	}

	verifhook.SetMode(verifhook.Chaos)
	var wg sync.WaitGroup
	panicked := func(who string) {
		if p := recover(); p != nil {
			fail(fmt.Sprintf("%s panicked: %v", who, p))
		}
	}
	// the writer
	wg.Add(1)
	go func() {
		defer wg.Done()
		defer panicked("writer")
		next := bigN
		for !stop.Load() {
			delStarted.Add(1)
			v, err := l.Delete(0)
			delDone.Add(1)
			if err != nil || int64(v) != delDone.Load()-1 {
				fail(fmt.Sprintf("writer: Delete(0) returned (%d, %v), expected %d", v, err, delDone.Load()-1))
				return
			}
			appStarted.Add(1)
			_ = l.Append(next)
			appDone.Add(1)
			next++
		}
	}()
	for r := 0; r < readers; r++ {
		wg.Add(1)
		go func(r int) {
			defer wg.Done()
			defer panicked("reader " + strconv.Itoa(r))
			buf := make([]int, 0, bigN+8)
			for k := 0; !stop.Load(); k++ {
				d0, a0 := delDone.Load(), appDone.Load()
				if (k+r)%3 != 2 {
					buf = buf[:0]
					_ = l.Range(func(i int, v int) error { buf = append(buf, v); return nil })
					d1, a1 := delStarted.Load(), appStarted.Load()
					nRange.Add(1)
					check("Range", buf, d0, a0, d1, a1)
				} else {
					s := l.AsSlice()
					d1, a1 := delStarted.Load(), appStarted.Load()
					nSlice.Add(1)
					check("AsSlice", s, d0, a0, d1, a1)
				}
			}
		}(r)
	}
	time.Sleep(dur)
	stop.Store(true)
	done := make(chan struct{})
	go func() { wg.Wait(); close(done) }()
	select {
	case <-done:
	case <-time.After(60 * time.Second):
		fmt.Printf("hang object=clist-%s scenario=big-list\n", kind)
		return
	}
	verifhook.SetMode(verifhook.Off)
	if b := bad.Load(); b != nil {
		fmt.Printf("torn-read object=clist-%s scenario=big-list: %s (after %d rotations, %d Range, %d AsSlice calls)\n",
			kind, b.(string), appDone.Load(), nRange.Load(), nSlice.Load())
		return
	}
	fmt.Printf("ok big-list kind=%s rotations=%d range=%d asslice=%d\n", kind, appDone.Load(), nRange.Load(), nSlice.Load())
}
