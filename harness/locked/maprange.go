package locked

// c06-locked-maprange: syncx.Map.Range (outside the linearizability claim of C06, but not unchecked).
//
//	c06-locked-maprange <seed> <sequentialCases> <concurrentMs>
//
// (1) SEQUENTIAL contract, differential against a plain Go map kept by the harness: after a random
//     sequence of Store / LoadOrStore / LoadOrStoreFunc / LoadAndDelete / Delete on a quiescent map,
//     Range(f) with f answering false at its k-th call (k random, or never) must call f exactly
//     min(k, n) times (it STOPS at the first false), never with the same key twice, every pair equal
//     to the mirror's; when f never answers false the visited pairs are exactly the mirror.
// (2) CONCURRENT weak contract (chaos mode): writers own disjoint keys and store values that encode
//     (key, sequence number); readers call Range: no panic, no key twice in one call, every visited
//     pair was in the map at some instant of the call (stored before the response, not replaced or
//     deleted before the invocation), and a false answer stops the iteration.
// Prints "ok ..." or "range-contract ..." (kind range-contract).

import (
	"fmt"
	"math/rand"
	"sync"
	"sync/atomic"
	"time"

	"github.com/ecodeclub/ekit/syncx"
	"github.com/ecodeclub/ekit/verifhook"
	"verifharness/reg"
)

func init() { reg.Register("c06-locked-maprange", mapRangeMain) }

func mapRangeSequential(seed int64, cases int) (string, int) {
	r := rand.New(rand.NewSource(seed*977 + 5))
	calls := 0
	for c := 0; c < cases; c++ {
		m := &syncx.Map[int, int]{}
		mirror := map[int]int{}
		nkeys := 1 + r.Intn(12)
		for i, n := 0, r.Intn(30); i < n; i++ {
			k, v := r.Intn(nkeys), 10+r.Intn(90)
			switch r.Intn(6) {
			case 0, 1:
				m.Store(k, v)
				mirror[k] = v
			case 2:
				m.LoadOrStore(k, v)
				if _, ok := mirror[k]; !ok {
					mirror[k] = v
				}
			case 3:
				_, _, _ = m.LoadOrStoreFunc(k, func() (int, error) { return v, nil })
				if _, ok := mirror[k]; !ok {
					mirror[k] = v
				}
			case 4:
				m.LoadAndDelete(k)
				delete(mirror, k)
			default:
				m.Delete(k)
				delete(mirror, k)
			}
		}
		n := len(mirror)
		stopAt := r.Intn(n + 3) // f answers false at its stopAt-th call (1-based); 0 or > n: never reached / never
		seen := map[int]int{}
		ncalls := 0
		dup := -1
		m.Range(func(k, v int) bool {
			ncalls++
			if _, twice := seen[k]; twice {
				dup = k
			}
			seen[k] = v
			return ncalls != stopAt
		})
		calls++
		want := n
		if stopAt >= 1 && stopAt <= n {
			want = stopAt
		}
		desc := fmt.Sprintf("sequential case %d: map of %d entries, callback answers false at call %d", c, n, stopAt)
		if dup >= 0 {
			return fmt.Sprintf("%s: key %d visited twice", desc, dup), calls
		}
		if ncalls != want {
			return fmt.Sprintf("%s: Range called it %d times, expected %d (Range must stop at the first false and visit every entry otherwise)", desc, ncalls, want), calls
		}
		for k, v := range seen {
			if mv, ok := mirror[k]; !ok || mv != v {
				return fmt.Sprintf("%s: visited (%d,%d) but the map holds %v", desc, k, v, mirror), calls
			}
		}
		if want == n && len(seen) != n {
			return fmt.Sprintf("%s: visited %d distinct keys of %d", desc, len(seen), n), calls
		}
	}
	return "", calls
}

// life of one stored value: present from (at the earliest) t0 until (at the latest) t1 (0 = still there)
type life struct{ t0, t1 int64 }

func mapRangeConcurrent(seed int64, dur time.Duration) (string, int64, int64) {
	const writers, keysPer, readers = 3, 3, 3
	m := &syncx.Map[int, int]{}
	var clock atomic.Int64
	var mu sync.Mutex
	lives := map[int]*life{} // value (unique) -> life
	var stop atomic.Bool
	var bad atomic.Value
	var nRange, nWrites atomic.Int64
	fail := func(s string) { bad.CompareAndSwap(nil, s); stop.Store(true) }
	verifhook.SetMode(verifhook.Chaos)
	var wg sync.WaitGroup
	for w := 0; w < writers; w++ {
		wg.Add(1)
		go func(w int) {
			defer wg.Done()
			defer func() {
				if p := recover(); p != nil {
					fail(fmt.Sprintf("writer panicked: %v", p))
				}
			}()
			r := rand.New(rand.NewSource(seed*31 + int64(w)))
			cur := map[int]int{} // key -> current value (this writer owns the key)
			seq := 0
			for !stop.Load() {
				k := w*keysPer + r.Intn(keysPer)
				old, had := cur[k]
				if r.Intn(3) == 0 {
					m.Delete(k)
					delete(cur, k)
				} else {
					seq++
					v := k*1000000 + seq // encodes the key; unique
					mu.Lock()
					lives[v] = &life{t0: clock.Add(1)}
					mu.Unlock()
					m.Store(k, v)
					cur[k] = v
				}
				if had {
					mu.Lock()
					lives[old].t1 = clock.Add(1)
					mu.Unlock()
				}
				nWrites.Add(1)
			}
		}(w)
	}
	for rd := 0; rd < readers; rd++ {
		wg.Add(1)
		go func(rd int) {
			defer wg.Done()
			defer func() {
				if p := recover(); p != nil {
					fail(fmt.Sprintf("Range panicked: %v", p))
				}
			}()
			r := rand.New(rand.NewSource(seed*37 + int64(rd)))
			for !stop.Load() {
				stopAt := r.Intn(writers*keysPer + 3)
				inv := clock.Add(1)
				type kv struct{ k, v int }
				var got []kv
				ncalls, after := 0, 0
				stopped := false
				m.Range(func(k, v int) bool {
					ncalls++
					if stopped {
						after++
					}
					got = append(got, kv{k, v})
					if ncalls == stopAt {
						stopped = true
						return false
					}
					return true
				})
				resp := clock.Add(1)
				nRange.Add(1)
				if after > 0 {
					fail(fmt.Sprintf("concurrent: Range called the callback %d more time(s) after it answered false", after))
					return
				}
				seen := map[int]bool{}
				for _, p := range got {
					if seen[p.k] {
						fail(fmt.Sprintf("concurrent: key %d visited twice in one Range", p.k))
						return
					}
					seen[p.k] = true
					mu.Lock()
					l := lives[p.v]
					var t0, t1 int64
					if l != nil {
						t0, t1 = l.t0, l.t1
					}
					mu.Unlock()
					if l == nil || p.v/1000000 != p.k {
						fail(fmt.Sprintf("concurrent: Range visited (%d,%d), a pair that was never stored", p.k, p.v))
						return
					}
					if t0 > resp || (t1 != 0 && t1 < inv) {
						fail(fmt.Sprintf("concurrent: Range [%d,%d] visited (%d,%d) which was in the map only during [%d,%d]", inv, resp, p.k, p.v, t0, t1))
						return
					}
				}
			}
		}(rd)
	}
	time.Sleep(dur)
	stop.Store(true)
	done := make(chan struct{})
	go func() { wg.Wait(); close(done) }()
	select {
	case <-done:
	case <-time.After(60 * time.Second):
		return "hang in the concurrent Range scenario", nRange.Load(), nWrites.Load()
	}
	verifhook.SetMode(verifhook.Off)
	if b := bad.Load(); b != nil {
		return b.(string), nRange.Load(), nWrites.Load()
	}
	return "", nRange.Load(), nWrites.Load()
}

func mapRangeMain(args []string) {
	if len(args) < 3 {
		fmt.Println("usage: c06-locked-maprange <seed> <sequentialCases> <concurrentMs>")
		return
	}
	seed := int64(atoi(args[0]))
	msg, cases := mapRangeSequential(seed, atoi(args[1]))
	if msg != "" {
		fmt.Printf("range-contract object=syncmap %s\n", msg)
		return
	}
	for _, m := range []string{mapIfaceSequential("any", anyTable(), seed, atoi(args[1])), mapIfaceSequential("error", errorTable(), seed, atoi(args[1]))} {
		if m != "" {
			fmt.Printf("map-contract object=syncmap %s\n", m)
			return
		}
	}
	msg, nr, nw := mapRangeConcurrent(seed, time.Duration(atoi(args[2]))*time.Millisecond)
	if msg != "" {
		fmt.Printf("range-contract object=syncmap %s (after %d Range calls, %d writes)\n", msg, nr, nw)
		return
	}
	fmt.Printf("ok map-range sequential=%d concurrent_range=%d writes=%d\n", cases, nr, nw)
}
