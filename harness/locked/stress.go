package locked

// c06-locked-stress: the SEARCH oracle of C06 for the lock-based containers (not a proof).
// Chaos mode (random yields at every instrumented statement); several goroutines issue random
// operations on one fresh instance per round; every call is recorded with its invocation and
// response on a global logical clock; the history is checked against the sequential
// specification by porcupine (linearizability), and panics are captured.
//
//	c06-locked-stress <seed> <object> <goroutines> <opsPerGoroutine> <rounds>
//	object: cpq | clist-array | clist-linked | cow | syncmap | syncmap-any | syncmap-error
//
// prints "ok <rounds> rounds <ops> ops" or one line describing the first failing round
// followed by its history.

import (
	"fmt"
	"math/rand"
	"sort"
	"strconv"
	"strings"
	"sync"
	"sync/atomic"
	"time"

	"github.com/anishathalye/porcupine"
	"github.com/ecodeclub/ekit/list"
	"github.com/ecodeclub/ekit/syncx"
	"github.com/ecodeclub/ekit/verifhook"
	"verifharness/reg"
)

func init() { reg.Register("c06-locked-stress", stressMain) }

type call struct {
	op   string
	args []string
}

func (c call) String() string { return strings.TrimSpace(c.op + " " + strings.Join(c.args, " ")) }

// ---- sequential specifications (the same as model/LockedModel.v, SyncMapModel.v) ----

type pqState struct {
	capacity int
	items    string // ascending, comma separated
}

func pqItems(s string) []int  { return ints(s) }
func pqJoin(l []int) string   { return strings.Trim(seq(l), "[]") }
func pqSpec(st interface{}, in call) (interface{}, string) {
	s := st.(pqState)
	it := pqItems(s.items)
	switch in.op {
	case "len":
		return s, "int:" + strconv.Itoa(len(it))
	case "cap":
		return s, "int:" + strconv.Itoa(s.capacity)
	case "peek":
		if len(it) == 0 {
			return s, "err:empty"
		}
		return s, "ok:" + strconv.Itoa(it[0])
	case "enq":
		if s.capacity > 0 && len(it) == s.capacity {
			return s, "err:full"
		}
		it = append(it, atoi(in.args[0]))
		sort.Ints(it)
		return pqState{s.capacity, pqJoin(it)}, "ok"
	case "deq":
		if len(it) == 0 {
			return s, "err:empty"
		}
		return pqState{s.capacity, pqJoin(it[1:])}, "ok:" + strconv.Itoa(it[0])
	}
	return s, "badop"
}

func listSpec(st interface{}, in call) (interface{}, string) {
	l := ints(st.(string))
	enc := func(x []int) string { return strings.Trim(seq(x), "[]") }
	n := len(l)
	switch in.op {
	case "get":
		i := atoi(in.args[0])
		if i < 0 || i >= n {
			return st, "err:index"
		}
		return st, "ok:" + strconv.Itoa(l[i])
	case "append":
		return enc(append(l, ints(in.args[0])...)), "ok"
	case "add":
		i, v := atoi(in.args[0]), atoi(in.args[1])
		if i < 0 || i > n {
			return st, "err:index"
		}
		r := append([]int{}, l[:i]...)
		r = append(r, v)
		r = append(r, l[i:]...)
		return enc(r), "ok"
	case "set":
		i, v := atoi(in.args[0]), atoi(in.args[1])
		if i < 0 || i >= n {
			return st, "err:index"
		}
		r := append([]int{}, l...)
		r[i] = v
		return enc(r), "ok"
	case "del":
		i := atoi(in.args[0])
		if i < 0 || i >= n {
			return st, "err:index"
		}
		r := append([]int{}, l[:i]...)
		r = append(r, l[i+1:]...)
		return enc(r), "ok:" + strconv.Itoa(l[i])
	case "len":
		return st, "int:" + strconv.Itoa(n)
	case "cap":
		return st, "cap"
	case "range":
		stop := atoi(in.args[0])
		if stop >= 0 && stop < n {
			return st, "range:" + seq(l[:stop+1]) + ":true"
		}
		return st, "range:" + seq(l) + ":false"
	case "asslice":
		return st, "seq:" + seq(l)
	}
	return st, "badop"
}

type kvState struct {
	present bool
	v       int
}

func mapSpec(st interface{}, in call) (interface{}, string) {
	s := st.(kvState)
	val := func(v int, ok bool, err bool) string { return fmt.Sprintf("val:%d:%t:%t", v, ok, err) }
	cur := func() (int, bool) {
		if s.present {
			return s.v, true
		}
		return 0, false
	}
	switch in.op {
	case "load":
		v, ok := cur()
		return s, val(v, ok, false)
	case "store":
		return kvState{true, atoi(in.args[1])}, "unit"
	case "los":
		if s.present {
			return s, val(s.v, true, false)
		}
		return kvState{true, atoi(in.args[1])}, val(atoi(in.args[1]), false, false)
	case "losf":
		if s.present {
			return s, val(s.v, true, false)
		}
		if in.args[2] == "1" {
			return s, val(0, false, true)
		}
		return kvState{true, atoi(in.args[1])}, val(atoi(in.args[1]), false, false)
	case "lad":
		v, ok := cur()
		return kvState{}, val(v, ok, false)
	case "del":
		return kvState{}, "unit"
	}
	return s, "badop"
}

func mkModel(init interface{}, spec func(interface{}, call) (interface{}, string), byKey bool) porcupine.Model {
	m := porcupine.Model{
		Init: func() interface{} { return init },
		Step: func(st, in, out interface{}) (bool, interface{}) {
			ns, want := spec(st, in.(call))
			return want == out.(string), ns
		},
		Equal:             func(a, b interface{}) bool { return a == b },
		DescribeOperation: func(in, out interface{}) string { return in.(call).String() + " -> " + out.(string) },
	}
	if byKey {
		// sync.Map keys are independent objects: check each key's sub-history on its own
		m.Partition = func(h []porcupine.Operation) [][]porcupine.Operation {
			byK := map[string][]porcupine.Operation{}
			var keys []string
			for _, o := range h {
				k := o.Input.(call).args[0]
				if _, ok := byK[k]; !ok {
					keys = append(keys, k)
				}
				byK[k] = append(byK[k], o)
			}
			var r [][]porcupine.Operation
			for _, k := range keys {
				r = append(r, byK[k])
			}
			return r
		}
	}
	return m
}

// ---- random clients ----

func genListOp(r *rand.Rand, hint int) call {
	idx := func() string { return strconv.Itoa(r.Intn(hint+3) - 1) }
	v := func() string { return strconv.Itoa(10 + r.Intn(90)) }
	switch n := r.Intn(100); {
	case n < 25:
		return call{"get", []string{idx()}}
	case n < 35:
		k := r.Intn(3)
		p := make([]string, k)
		for i := range p {
			p[i] = v()
		}
		if k == 0 {
			return call{"append", []string{"-"}}
		}
		return call{"append", []string{strings.Join(p, ",")}}
	case n < 47:
		return call{"add", []string{idx(), v()}}
	case n < 57:
		return call{"set", []string{idx(), v()}}
	case n < 75:
		return call{"del", []string{idx()}}
	case n < 82:
		return call{"len", nil}
	case n < 84:
		return call{"cap", nil}
	case n < 93:
		return call{"range", []string{idx()}}
	}
	return call{"asslice", nil}
}

func genPqOp(r *rand.Rand) call {
	switch n := r.Intn(100); {
	case n < 38:
		return call{"enq", []string{strconv.Itoa(r.Intn(10))}}
	case n < 70:
		return call{"deq", nil}
	case n < 83:
		return call{"peek", nil}
	case n < 96:
		return call{"len", nil}
	}
	return call{"cap", nil}
}

func genMapOp(r *rand.Rand) call {
	k := strconv.Itoa(r.Intn(3))
	v := strconv.Itoa(10 + r.Intn(90))
	switch n := r.Intn(100); {
	case n < 15:
		return call{"load", []string{k}}
	case n < 30:
		return call{"store", []string{k, v}}
	case n < 42:
		return call{"los", []string{k, v}}
	case n < 72:
		f := "0"
		if r.Intn(5) == 0 {
			f = "1"
		}
		return call{"losf", []string{k, v, f}}
	case n < 86:
		return call{"lad", []string{k}}
	}
	return call{"del", []string{k}}
}

func stressMain(args []string) {
	if len(args) < 5 {
		fmt.Println("usage: c06-locked-stress <seed> <object> <goroutines> <ops> <rounds>")
		return
	}
	seed, _ := strconv.ParseInt(args[0], 10, 64)
	obj := args[1]
	g, n, rounds := atoi(args[2]), atoi(args[3]), atoi(args[4])
	total, unknown := 0, 0
	for round := 0; round < rounds; round++ {
		rr := rand.New(rand.NewSource(seed*1000003 + int64(round)))
		var do func(c call) string
		var gen func(r *rand.Rand) call
		var model porcupine.Model
		switch obj {
		case "cpq":
			capacity := []int{0, 0, 2, 3, 5}[rr.Intn(5)]
			var init []int
			for i := rr.Intn(3); i > 0 && (capacity == 0 || len(init) < capacity); i-- {
				init = append(init, rr.Intn(10))
			}
			q := newCpq(capacity, init)
			sorted := append([]int{}, init...)
			sort.Ints(sorted)
			do = func(c call) string { return pqCall(q, c.op, c.args) }
			gen = genPqOp
			model = mkModel(pqState{capacity, pqJoin(sorted)}, pqSpec, false)
		case "clist-array", "clist-linked", "cow":
			var init []int
			for i := rr.Intn(5); i > 0; i-- {
				init = append(init, len(init)+1)
			}
			var l list.List[int]
			switch obj {
			case "clist-array":
				l = newClist("array", init)
			case "clist-linked":
				l = newClist("linked", init)
			default:
				l = newCow(init)
			}
			hint := len(init)
			do = func(c call) string { return listCall(l, c.op, c.args) }
			gen = func(r *rand.Rand) call { return genListOp(r, hint) }
			model = mkModel(strings.Trim(seq(init), "[]"), listSpec, false)
		case "syncmap":
			m := &syncx.Map[int, int]{}
			do = func(c call) string { return mapCall(m, c.op, c.args) }
			gen = genMapOp
			model = mkModel(kvState{}, mapSpec, true)
		case "syncmap-any":
			m, tb := &syncx.Map[int, any]{}, anyTable()
			do = func(c call) string { o, _ := mapCallIdx(m, tb, c.op, c.args); return o }
			gen = func(r *rand.Rand) call { return genMapOpIdx(r, len(tb)) }
			model = mkModel(kvState{}, mapSpec, true)
		case "syncmap-error":
			m, tb := &syncx.Map[int, error]{}, errorTable()
			do = func(c call) string { o, _ := mapCallIdx(m, tb, c.op, c.args); return o }
			gen = func(r *rand.Rand) call { return genMapOpIdx(r, len(tb)) }
			model = mkModel(kvState{}, mapSpec, true)
		default:
			fmt.Println("unknown object", obj)
			return
		}

		var clock atomic.Int64
		hist := make([][]porcupine.Operation, g)
		var panicMsg atomic.Value
		var wg sync.WaitGroup
		verifhook.SetMode(verifhook.Chaos)
		for i := 0; i < g; i++ {
			wg.Add(1)
			go func(i int) {
				defer wg.Done()
				r := rand.New(rand.NewSource(seed*7919 + int64(round)*131 + int64(i)))
				for j := 0; j < n; j++ {
					c := gen(r)
					t0 := clock.Add(1)
					out, pmsg := func() (out string, pmsg string) {
						defer func() {
							if p := recover(); p != nil {
								pmsg = fmt.Sprint(p)
							}
						}()
						return do(c), ""
					}()
					t1 := clock.Add(1)
					if pmsg != "" {
						panicMsg.CompareAndSwap(nil, fmt.Sprintf("goroutine %d: %s panicked: %s", i, c, pmsg))
						out = "panic"
					}
					hist[i] = append(hist[i], porcupine.Operation{ClientId: i, Input: c, Call: t0, Output: out, Return: t1})
				}
			}(i)
		}
		done := make(chan struct{})
		go func() { wg.Wait(); close(done) }()
		select {
		case <-done:
		case <-time.After(60 * time.Second):
			fmt.Printf("hang object=%s round=%d\n", obj, round)
			return
		}
		verifhook.SetMode(verifhook.Off)
		var all []porcupine.Operation
		for _, h := range hist {
			all = append(all, h...)
		}
		total += len(all)
		dump := func() {
			sort.Slice(all, func(a, b int) bool { return all[a].Call < all[b].Call })
			for _, o := range all {
				fmt.Printf("  g%d [%d,%d] %s -> %s\n", o.ClientId, o.Call, o.Return, o.Input.(call), o.Output.(string))
			}
		}
		if p := panicMsg.Load(); p != nil {
			fmt.Printf("panic object=%s round=%d: %s\n", obj, round, p.(string))
			dump()
			return
		}
		switch porcupine.CheckOperationsTimeout(model, all, 20*time.Second) {
		case porcupine.Illegal:
			fmt.Printf("not-linearizable object=%s round=%d: no sequential order of the %d recorded calls is consistent with the specification and real-time order\n", obj, round, len(all))
			dump()
			return
		case porcupine.Unknown:
			// the checker ran out of time: inconclusive, never reported as a violation
			unknown++
		}
	}
	fmt.Printf("ok %d rounds %d ops (%d rounds inconclusive: checker time-out)\n", rounds, total, unknown)
}
