// Package locked: the lock-based thread-safe containers of C06 under the lock-step controller
// (ConcurrentPriorityQueue, ConcurrentList, CopyOnWriteArrayList, syncx.Map) and the chaos-mode
// linearizability search (stress.go).
package locked

import (
	"context"
	"errors"
	"fmt"
	"strconv"
	"strings"

	"github.com/ecodeclub/ekit/list"
	"github.com/ecodeclub/ekit/queue"
	"github.com/ecodeclub/ekit/syncx"
	"verifharness/lockstep"
)

// error classes (messages are never compared beyond the class)
func errClass(err error) string {
	s := err.Error()
	switch {
	case strings.Contains(s, "队列为空"):
		return "err:empty"
	case strings.Contains(s, "超出最大容量限制"):
		return "err:full"
	case strings.Contains(s, "下标超出范围"):
		return "err:index"
	}
	return "err:other"
}

func ints(s string) []int {
	if s == "-" || s == "" {
		return nil
	}
	var r []int
	for _, f := range strings.Split(s, ",") {
		v, _ := strconv.Atoi(f)
		r = append(r, v)
	}
	return r
}

func seq(l []int) string {
	p := make([]string, len(l))
	for i, v := range l {
		p[i] = strconv.Itoa(v)
	}
	return "[" + strings.Join(p, ",") + "]"
}

func atoi(s string) int { v, _ := strconv.Atoi(s); return v }

// ---- ConcurrentPriorityQueue ----

type pqLike interface {
	Len() int
	Cap() int
	Peek() (int, error)
	Enqueue(int) error
	Dequeue() (int, error)
}

func pqCall(q pqLike, op string, args []string) string {
	switch op {
	case "len":
		return "int:" + strconv.Itoa(q.Len())
	case "cap":
		return "int:" + strconv.Itoa(q.Cap())
	case "peek":
		v, err := q.Peek()
		if err != nil {
			return errClass(err)
		}
		return "ok:" + strconv.Itoa(v)
	case "enq":
		if err := q.Enqueue(atoi(args[0])); err != nil {
			return errClass(err)
		}
		return "ok"
	case "deq":
		v, err := q.Dequeue()
		if err != nil {
			return errClass(err)
		}
		return "ok:" + strconv.Itoa(v)
	}
	return "badop"
}

type cpqInst struct{ q pqLike }

func (c *cpqInst) Call(ctx context.Context, tid int, op string, args []string) string {
	return pqCall(c.q, op, args)
}

func newCpq(capacity int, items []int) pqLike {
	q := queue.NewConcurrentPriorityQueue[int](capacity, func(a, b int) int {
		switch {
		case a < b:
			return -1
		case a > b:
			return 1
		}
		return 0
	})
	for _, v := range items {
		_ = q.Enqueue(v)
	}
	return q
}

// ---- the two lists ----

var errStop = errors.New("stop")

func listCall(l list.List[int], op string, args []string) string {
	switch op {
	case "get":
		v, err := l.Get(atoi(args[0]))
		if err != nil {
			return errClass(err)
		}
		return "ok:" + strconv.Itoa(v)
	case "append":
		if err := l.Append(ints(args[0])...); err != nil {
			return errClass(err)
		}
		return "ok"
	case "add":
		if err := l.Add(atoi(args[0]), atoi(args[1])); err != nil {
			return errClass(err)
		}
		return "ok"
	case "set":
		if err := l.Set(atoi(args[0]), atoi(args[1])); err != nil {
			return errClass(err)
		}
		return "ok"
	case "del":
		v, err := l.Delete(atoi(args[0]))
		if err != nil {
			return errClass(err)
		}
		return "ok:" + strconv.Itoa(v)
	case "len":
		return "int:" + strconv.Itoa(l.Len())
	case "cap":
		_ = l.Cap()
		return "cap"
	case "range":
		stop := atoi(args[0])
		var vis []int
		err := l.Range(func(i int, v int) error {
			vis = append(vis, v)
			if i == stop {
				return errStop
			}
			return nil
		})
		return "range:" + seq(vis) + ":" + strconv.FormatBool(err != nil)
	case "asslice":
		return "seq:" + seq(l.AsSlice())
	}
	return "badop"
}

type listInst struct{ l list.List[int] }

func (c *listInst) Call(ctx context.Context, tid int, op string, args []string) string {
	return listCall(c.l, op, args)
}

func newClist(kind string, items []int) list.List[int] {
	cp := append([]int{}, items...)
	if kind == "linked" {
		// NewLinkedListOf copies the elements into nodes: the caller's slice is overwritten afterwards
		l := &list.ConcurrentList[int]{List: list.NewLinkedListOf(cp)}
		for i := range cp {
			cp[i] = -7777 - i
		}
		return l
	}
	// NewArrayListOf is documented to USE the slice it is given: it is handed over, never touched again
	return &list.ConcurrentList[int]{List: list.NewArrayListOf(cp)}
}

// Both constructors are used.  NewCopyOnWriteArrayListOf is documented to COPY its argument: the caller
// keeps its slice and overwrites it right after construction, so that a list that aliases the caller's
// slice shows wrong elements to the first reader / copies them in the first mutator.
func newCow(items []int) list.List[int] {
	if len(items) == 0 {
		return list.NewCopyOnWriteArrayList[int]()
	}
	held := append([]int{}, items...)
	l := list.NewCopyOnWriteArrayListOf(held)
	for i := range held {
		held[i] = -7777 - i
	}
	return l
}

// ---- syncx.Map ----

func mapCall(m *syncx.Map[int, int], op string, args []string) string {
	val := func(v int, ok bool, err bool) string { return fmt.Sprintf("val:%d:%t:%t", v, ok, err) }
	switch op {
	case "load":
		v, ok := m.Load(atoi(args[0]))
		return val(v, ok, false)
	case "store":
		m.Store(atoi(args[0]), atoi(args[1]))
		return "unit"
	case "los":
		v, loaded := m.LoadOrStore(atoi(args[0]), atoi(args[1]))
		return val(v, loaded, false)
	case "losf":
		v0, fails := atoi(args[1]), args[2] == "1"
		v, loaded, err := m.LoadOrStoreFunc(atoi(args[0]), func() (int, error) {
			if fails {
				return 0, errStop
			}
			return v0, nil
		})
		return val(v, loaded, err != nil)
	case "lad":
		v, loaded := m.LoadAndDelete(atoi(args[0]))
		return val(v, loaded, false)
	case "del":
		m.Delete(atoi(args[0]))
		return "unit"
	}
	return "badop"
}

type mapInst struct{ m *syncx.Map[int, int] }

func (c *mapInst) Call(ctx context.Context, tid int, op string, args []string) string {
	return mapCall(c.m, op, args)
}

func newMap(pairs []string) *syncx.Map[int, int] {
	m := &syncx.Map[int, int]{}
	for _, p := range pairs {
		kv := strings.SplitN(p, ":", 2)
		if len(kv) == 2 {
			m.Store(atoi(kv[0]), atoi(kv[1]))
		}
	}
	return m
}

func intsOf(params []string) []int {
	r := make([]int, 0, len(params))
	for _, p := range params {
		r = append(r, atoi(p))
	}
	return r
}

// params[0] is the number of goroutines of the schedule (used by the model side only)
func init() {
	lockstep.Register("cpq", func(params []string) lockstep.Instance {
		return &cpqInst{q: newCpq(atoi(params[1]), intsOf(params[2:]))}
	})
	lockstep.Register("clist", func(params []string) lockstep.Instance {
		return &listInst{l: newClist(params[1], intsOf(params[2:]))}
	})
	lockstep.Register("cow", func(params []string) lockstep.Instance {
		return &listInst{l: newCow(intsOf(params[1:]))}
	})
	lockstep.Register("syncmap", func(params []string) lockstep.Instance {
		return &mapInst{m: newMap(params[1:])}
	})
}
