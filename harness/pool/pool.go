// Package pool: the real pool.OnDemandBlockTaskPool under the lock-step controller (C10, C11, C12),
// the sequential constructor differential (c11-pool-ctor) and the chaos-mode stress/monitor command
// c10-pool-stress (search oracle, stress.go).
package pool

import (
	"bufio"
	"context"
	"fmt"
	"os"
	"runtime"
	"strconv"
	"strings"
	"time"

	"github.com/ecodeclub/ekit/bean/option"
	ekpool "github.com/ecodeclub/ekit/pool"
	"github.com/ecodeclub/ekit/verifhook"
	"verifharness/lockstep"
	"verifharness/reg"
)

// htask is the user task of the lock-step runs: its body is one yield point ("task|run|<id>"), so
// the model decides when it finishes; it returns nil or panics according to its fixed behaviour.
type htask struct {
	id     int
	panics bool
}

func (h *htask) body(ctx context.Context) error {
	verifhook.At("task|run|" + strconv.Itoa(h.id))
	if h.panics {
		panic("boom " + strconv.Itoa(h.id))
	}
	return nil
}

// Run goes through pool.TaskFunc.Run so that this instrumented statement is exercised as well.
func (h *htask) Run(ctx context.Context) error { return ekpool.TaskFunc(h.body).Run(ctx) }

type inst struct {
	p    *ekpool.OnDemandBlockTaskPool
	done <-chan struct{}
	ptr  string
}

func newPool(params []string) (*ekpool.OnDemandBlockTaskPool, error) {
	// params: initGo coreGo maxGo queueSize rateNum rateDen
	iv := make([]int, 6)
	for k := 0; k < 6 && k < len(params); k++ {
		iv[k], _ = strconv.Atoi(params[k])
	}
	if iv[5] == 0 {
		iv[5] = 1
	}
	opts := []option.Option[ekpool.OnDemandBlockTaskPool]{
		ekpool.WithCoreGo(int32(iv[1])), ekpool.WithMaxGo(int32(iv[2])),
		ekpool.WithQueueBacklogRate(float64(iv[4]) / float64(iv[5])),
	}
	// params[12]: idle time in ns handed to WithMaxIdleTime; "0" = the option is NOT given (defaultMaxIdleTime applies);
	// absent = one hour.  The fake timer never fires by itself (FIRE comes from the model), but the duration each
	// NewTimer is given is observed through op "timerdur".
	idle := int64(time.Hour)
	if len(params) > 12 {
		idle, _ = strconv.ParseInt(params[12], 10, 64)
	}
	if idle != 0 {
		opts = append(opts, ekpool.WithMaxIdleTime(time.Duration(idle)))
	}
	return ekpool.NewOnDemandBlockTaskPool(iv[0], iv[3], opts...)
}

// parked counts the goroutines of THIS pool that are blocked in the worker's select.
func (i *inst) parked() int {
	buf := make([]byte, 1<<18)
	for {
		n := runtime.Stack(buf, true)
		if n < len(buf) {
			buf = buf[:n]
			break
		}
		buf = make([]byte, 2*len(buf))
	}
	cnt := 0
	needle := ".goroutine(" + i.ptr
	for _, blk := range strings.Split(string(buf), "\n\n") {
		nl := strings.IndexByte(blk, '\n')
		if nl < 0 {
			continue
		}
		head := blk[:nl]
		if !strings.Contains(head, "[select") {
			continue
		}
		if strings.Contains(blk, needle) {
			cnt++
		}
	}
	return cnt
}

func (i *inst) Call(ctx context.Context, tid int, op string, args []string) string {
	switch op {
	case "submit":
		id, _ := strconv.Atoi(args[0])
		return ekpool.VerifErrClass(i.p.Submit(ctx, &htask{id: id, panics: len(args) > 1 && args[1] == "panic"}))
	case "submitnil":
		return ekpool.VerifErrClass(i.p.Submit(ctx, nil))
	case "start":
		return ekpool.VerifErrClass(i.p.Start())
	case "shutdown":
		ch, err := i.p.Shutdown()
		if err != nil {
			return ekpool.VerifErrClass(err)
		}
		i.done = ch
		return "ok"
	case "shutdownnow":
		tasks, err := i.p.ShutdownNow()
		if err != nil {
			return ekpool.VerifErrClass(err)
		}
		ids := make([]string, len(tasks))
		for k, t := range tasks {
			in, _ := ekpool.VerifUnwrap(t)
			if h, ok := in.(*htask); ok {
				ids[k] = strconv.Itoa(h.id)
			} else {
				ids[k] = "?"
			}
		}
		return "ok [" + strings.Join(ids, ",") + "]"
	case "peek":
		// harness observation, not a pool method: the shared fields + whether Shutdown's channel is closed
		d := "-"
		if i.done != nil {
			select {
			case <-i.done:
				d = "1"
			default:
				d = "0"
			}
		}
		return i.p.VerifSnapshot() + " done=" + d
	case "timerdur":
		// harness observation: the duration worker <tid>'s most recent time.NewTimer was given
		wt, _ := strconv.Atoi(args[0])
		d, ok := verifhook.LastTimerDuration(wt)
		if !ok {
			return "none"
		}
		return strconv.FormatInt(int64(d), 10)
	case "settle":
		// wait until exactly n workers of this pool are physically parked in their select
		n, _ := strconv.Atoi(args[0])
		got := -1
		for k := 0; k < 4000; k++ {
			got = i.parked()
			if got == n {
				return "ok"
			}
			if k < 50 {
				runtime.Gosched()
			} else {
				time.Sleep(50 * time.Microsecond)
			}
		}
		return fmt.Sprintf("parked=%d want=%d", got, n)
	}
	return "badop"
}

func init() {
	lockstep.AutoRegister["pool"] = 100
	lockstep.Register("pool", func(params []string) lockstep.Instance {
		// the constructor and the option functions are instrumented too; the controller's own goroutine
		// must not be taken for a worker (AutoRegister), so the yield points are off while it constructs
		verifhook.SetMode(verifhook.Off)
		p, err := newPool(params)
		verifhook.SetMode(verifhook.LockStep)
		if err != nil {
			panic("pool: constructor rejected lock-step parameters: " + err.Error())
		}
		return &inst{p: p, ptr: fmt.Sprintf("%p", p)}
	})
	reg.Register("c11-pool-ctor", ctorMain)
}

// c11-pool-ctor: one constructor case per stdin line
//
//	<initGo> <queueSize> [core:<n>] [max:<n>] [rate:<num>/<den>] ...   (options in the given order)
//
// prints "err" or "ok init core max cap rateNum/rateDen(as given)".
func ctorMain(args []string) {
	in := bufio.NewScanner(os.Stdin)
	out := bufio.NewWriter(os.Stdout)
	defer out.Flush()
	for in.Scan() {
		f := strings.Fields(in.Text())
		if len(f) < 2 {
			fmt.Fprintln(out, "bad")
			continue
		}
		ig, _ := strconv.Atoi(f[0])
		qs, _ := strconv.Atoi(f[1])
		var opts []option.Option[ekpool.OnDemandBlockTaskPool]
		for _, o := range f[2:] {
			kv := strings.SplitN(o, ":", 2)
			switch kv[0] {
			case "core":
				n, _ := strconv.Atoi(kv[1])
				opts = append(opts, ekpool.WithCoreGo(int32(n)))
			case "max":
				n, _ := strconv.Atoi(kv[1])
				opts = append(opts, ekpool.WithMaxGo(int32(n)))
			case "rate":
				nd := strings.SplitN(kv[1], "/", 2)
				a, _ := strconv.Atoi(nd[0])
				b, _ := strconv.Atoi(nd[1])
				opts = append(opts, ekpool.WithQueueBacklogRate(float64(a)/float64(b)))
			}
		}
		p, err := ekpool.NewOnDemandBlockTaskPool(ig, qs, opts...)
		if err != nil {
			if c := ekpool.VerifErrClass(err); c != "invalidargument" {
				fmt.Fprintln(out, "err-unexpected-class "+c)
			} else {
				fmt.Fprintln(out, "err")
			}
			continue
		}
		fmt.Fprintln(out, "ok "+p.VerifConfig())
	}
}
