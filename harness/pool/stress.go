package pool

// c10-pool-stress: chaos-mode search oracle for C10 / C11 / C12 on the REAL OnDemandBlockTaskPool
// (real timers with idle times of 200-600 microseconds, random yields at every instrumented
// statement).  It evaluates the PROPERTIES, not the model:
//
//	C10  wrapper depth (stack frames under which a task runs; layers on returned tasks), per-task run counters (exactly once), Submit results, ShutdownNow's returned wrappers run in
//	     a marked mode (never both, never neither, never twice), rejected tasks never run, a panicking
//	     task does not stop the others, accepted tasks of a RUNNING pool get executed (not stranded)
//	C11  a States consumer (GoCnt / RunningTasksCnt <= maxGo, QueueSize, WaitingTasksCnt, channel closure, States after stop);
//	     high-water mark of a harness-side running counter and of numGoRunningTasks / totalGo samples
//	     <= maxGo, no task before Start, lifecycle calls: Start nil at most once, Shutdown/ShutdownNow nil
//	     at most once between them, every call invoked after a successful shutdown fails
//	C12  Shutdown's channel closes within a generous bound after the last task finishes and not before
//	     (task completion flags at the instant closure is observed); goroutine dump on hang
//
// usage: h c10-pool-stress <seed> <rounds> [focus [directed_ms]]   (directed scale-down scenario for focus c10 / c12)   prints "ok rounds=.. tasks=.." or "VIOLATION <kind>: ..."
// and, for a hang, a goroutine dump on stderr.

import (
	"context"
	"fmt"
	"math/rand"
	"os"
	"runtime"
	"strconv"
	"sync"
	"sync/atomic"
	"time"

	"github.com/ecodeclub/ekit/bean/option"
	ekpool "github.com/ecodeclub/ekit/pool"
	"github.com/ecodeclub/ekit/verifhook"
	"verifharness/reg"
)

// States samples over the whole run (evidence: how often the transient spin-lock value stateLocked=5 is reported)
var statesSamples, statesLocked, statesConsumers atomic.Int64

type markKeyT struct{}

var markKey = markKeyT{}

type stask struct {
	id       int
	kind     int // 0 return, 1 short sleep, 2 panic, 3 block until released
	ran      atomic.Int32
	returned atomic.Int32 // run in marked mode = handed back by ShutdownNow
	done     atomic.Bool
	release  chan struct{}
	r        *round
}

type round struct {
	maxGo      int32
	running    atomic.Int32
	highWater  atomic.Int32
	started    atomic.Bool // Start returned nil or is in progress
	startCall  atomic.Bool
	closedSeen atomic.Bool
	viol       atomic.Value // string
}

func (r *round) fail(s string) {
	if r.viol.Load() == nil {
		r.viol.Store(s)
	}
}

func (t *stask) Run(ctx context.Context) error {
	if ctx.Value(markKey) != nil {
		t.returned.Add(1)
		return nil
	}
	r := t.r
	if !r.startCall.Load() {
		r.fail(fmt.Sprintf("task-before-start: task %d runs although Start was never called", t.id))
	}
	n := r.running.Add(1)
	for {
		h := r.highWater.Load()
		if n <= h || r.highWater.CompareAndSwap(h, n) {
			break
		}
	}
	if n > r.maxGo {
		r.fail(fmt.Sprintf("highwater: %d tasks execute concurrently, maxGo=%d", n, r.maxGo))
	}
	t.ran.Add(1)
	// the task must run under a bounded number of stack frames: worker -> one taskWrapper -> task (before commit
	// 4ac6152 every retry of Submit's spin loop added a taskWrapper frame, up to a stack overflow)
	var pcs [96]uintptr
	if n := runtime.Callers(0, pcs[:]); n >= 64 {
		r.fail(fmt.Sprintf("wrapper-depth: task %d runs under at least %d stack frames (Submit nested taskWrappers)", t.id, n))
	}
	defer func() {
		r.running.Add(-1)
		t.done.Store(true)
		if r.closedSeen.Load() {
			r.fail(fmt.Sprintf("done-early: task %d finished after Shutdown's channel was observed closed", t.id))
		}
	}()
	switch t.kind {
	case 1:
		time.Sleep(time.Duration(20+t.id%7*15) * time.Microsecond)
	case 2:
		panic("stress panic " + strconv.Itoa(t.id))
	case 3:
		select {
		case <-t.release:
		case <-time.After(30 * time.Second):
		}
	}
	return nil
}

// Deadlines are counted in ticks of a 5 ms ticker that were actually DELIVERED to this process: when the whole machine or
// the process is stalled for seconds (a busy CI box, a paused VM) a time.Ticker drops the missed ticks, so a stall does not
// use up the budget - only time during which the harness itself was running does.  A hang is therefore "N ticks of
// observed progress opportunity without the awaited event", not "N seconds of wall clock".
func waitChan(ch <-chan struct{}, ticks int) bool {
	tk := time.NewTicker(5 * time.Millisecond)
	defer tk.Stop()
	for n := 0; n < ticks; {
		select {
		case <-ch:
			return true
		case <-tk.C:
			n++
		}
	}
	select {
	case <-ch:
		return true
	default:
		return false
	}
}

func waitCond(cond func() bool, ticks int) bool {
	tk := time.NewTicker(5 * time.Millisecond)
	defer tk.Stop()
	for n := 0; n < ticks; n++ {
		for k := 0; k < 20; k++ {
			if cond() {
				return true
			}
			time.Sleep(100 * time.Microsecond)
		}
		<-tk.C
	}
	return cond()
}

const hangTicks = 1600 // 8 s of delivered 5 ms ticks

func dumpGoroutines(what string) {
	buf := make([]byte, 1<<20)
	n := runtime.Stack(buf, true)
	fmt.Fprintf(os.Stderr, "==== %s: goroutine dump ====\n%s\n", what, buf[:n])
}

func oneRound(rng *rand.Rand, focus string) (string, int) {
	maxGo := 1 + rng.Intn(4)
	coreGo := 1 + rng.Intn(maxGo)
	initGo := 1 + rng.Intn(coreGo)
	if focus == "c12" || focus == "c10" {
		if rng.Intn(2) == 0 && maxGo > 1 { // the configurations the two repaired defects needed
			initGo = 1
		}
	}
	qs := rng.Intn(5)
	rate := []float64{0, 0.5, 1}[rng.Intn(3)]
	idle := time.Duration(200+rng.Intn(401)) * time.Microsecond
	p, err := ekpool.NewOnDemandBlockTaskPool(initGo, qs, ekpool.WithCoreGo(int32(coreGo)), ekpool.WithMaxGo(int32(maxGo)),
		ekpool.WithQueueBacklogRate(rate), ekpool.WithMaxIdleTime(idle))
	if err != nil {
		return "ctor: " + err.Error(), 0
	}
	cfg := p.VerifConfig() + fmt.Sprintf(" idle=%s", idle)
	r := &round{}
	// the effective maximum (after the defaulting rule)
	fmt.Sscanf(cfg, "init=%d core=%d max=%d", new(int), new(int), &r.maxGo)
	ntask := 8 + rng.Intn(30)
	tasks := make([]*stask, ntask)
	for i := range tasks {
		k := 0
		switch x := rng.Intn(20); {
		case x < 8:
			k = 0
		case x < 15:
			k = 1
		case x < 17:
			k = 2
		default:
			k = 3
		}
		tasks[i] = &stask{id: i, kind: k, release: make(chan struct{}), r: r}
	}
	results := make([]error, ntask)
	submitted := make([]atomic.Bool, ntask)
	var wg sync.WaitGroup
	nsub := 1 + rng.Intn(4)
	startDelay := time.Duration(rng.Intn(300)) * time.Microsecond
	useNow := rng.Intn(3) == 0
	shutDelay := time.Duration(100+rng.Intn(1500)) * time.Microsecond
	midShutdown := rng.Intn(3) == 0 // shut down while submitters are still active
	seeds := make([]int64, nsub)
	for i := range seeds {
		seeds[i] = rng.Int63()
	}
	// sampler of the pool's own counters
	stopSample := make(chan struct{})
	var sampleWg sync.WaitGroup
	sampleWg.Add(1)
	go func() {
		defer sampleWg.Done()
		for {
			select {
			case <-stopSample:
				return
			default:
			}
			if n := p.VerifRunning(); n > r.maxGo {
				r.fail(fmt.Sprintf("highwater: numGoRunningTasks=%d > maxGo=%d", n, r.maxGo))
			}
			if n := p.VerifNumGo(); n > r.maxGo {
				r.fail(fmt.Sprintf("highwater: totalGo=%d > maxGo=%d", n, r.maxGo))
			}
			runtime.Gosched()
		}
	}()
	// a States consumer running concurrently with the Submit bursts / Start / Shutdown (C11: "the worker count reported by
	// States", "concurrent ... States callers"): every State must satisfy 0 <= GoCnt <= maxGo, 0 <= RunningTasksCnt <= maxGo,
	// QueueSize == cap(queue), 0 <= WaitingTasksCnt <= cap, PoolState in 1..5 (5 = the transient `locked` word is reported as
	// is: counted, not an alarm); the channel is closed after its ctx ends and after the pool's interrupt context is cancelled
	// (graceful completion or ShutdownNow).  RunningTasksCnt <= GoCnt is NOT required: the two fields are read one after the other.
	var stCancel context.CancelFunc
	var stClosed chan struct{}
	cancelEarly := false
	if focus == "c11" || rng.Intn(2) == 0 {
		var sctx context.Context
		sctx, stCancel = context.WithCancel(context.Background())
		ch, e := p.States(sctx, time.Duration(30+rng.Intn(150))*time.Microsecond)
		if e != nil {
			stCancel()
			return "states: States on a fresh pool failed: " + e.Error() + " [" + cfg + "]", 0
		}
		statesConsumers.Add(1)
		cancelEarly = rng.Intn(3) == 0
		stClosed = make(chan struct{})
		capQ := qs
		go func() {
			defer close(stClosed)
			for st := range ch {
				statesSamples.Add(1)
				if st.PoolState == 5 {
					statesLocked.Add(1)
				}
				switch {
				case st.GoCnt < 0 || st.GoCnt > r.maxGo:
					r.fail(fmt.Sprintf("states: State.GoCnt=%d outside [0, maxGo=%d] (%+v)", st.GoCnt, r.maxGo, st))
				case st.RunningTasksCnt < 0 || st.RunningTasksCnt > r.maxGo:
					r.fail(fmt.Sprintf("states: State.RunningTasksCnt=%d outside [0, maxGo=%d] (%+v)", st.RunningTasksCnt, r.maxGo, st))
				case st.QueueSize != capQ:
					r.fail(fmt.Sprintf("states: State.QueueSize=%d, queue capacity is %d (%+v)", st.QueueSize, capQ, st))
				case st.WaitingTasksCnt < 0 || st.WaitingTasksCnt > capQ:
					r.fail(fmt.Sprintf("states: State.WaitingTasksCnt=%d outside [0, %d] (%+v)", st.WaitingTasksCnt, capQ, st))
				case st.PoolState < 1 || st.PoolState > 5:
					r.fail(fmt.Sprintf("states: State.PoolState=%d is no state code (%+v)", st.PoolState, st))
				}
			}
		}()
		if cancelEarly {
			go func(d time.Duration) { time.Sleep(d); stCancel() }(time.Duration(rng.Intn(800)) * time.Microsecond)
		}
	}
	statesEnd := func() string {
		if stClosed == nil {
			return ""
		}
		defer stCancel()
		// the pool's interrupt context is cancelled by now (graceful completion or ShutdownNow): the channel must get closed
		if !waitChan(stClosed, hangTicks) {
			dumpGoroutines("states-not-closed")
			return "states: the States channel is not closed although the pool has stopped [" + cfg + "]"
		}
		// States on a stopped pool reports the cancellation of the pool's context, States with a dead ctx that ctx's error
		if ch, e := p.States(context.Background(), time.Millisecond); e == nil || ch != nil {
			return "states: States on a stopped pool returned a channel [" + cfg + "]"
		}
		dead, dc := context.WithCancel(context.Background())
		dc()
		if ch, e := p.States(dead, time.Millisecond); e == nil || ch != nil {
			return "states: States with a cancelled ctx returned a channel [" + cfg + "]"
		}
		return ""
	}
	// submitters
	for s := 0; s < nsub; s++ {
		wg.Add(1)
		go func(s int) {
			defer wg.Done()
			lr := rand.New(rand.NewSource(seeds[s]))
			for i := s; i < ntask; i += nsub {
				ctx := context.Background()
				var cancel context.CancelFunc
				switch lr.Intn(4) {
				case 0:
					ctx, cancel = context.WithTimeout(ctx, time.Duration(50+lr.Intn(400))*time.Microsecond)
				case 1:
					ctx, cancel = context.WithTimeout(ctx, 20*time.Millisecond)
				default:
					ctx, cancel = context.WithTimeout(ctx, 500*time.Millisecond)
				}
				results[i] = p.Submit(ctx, tasks[i])
				submitted[i].Store(true)
				cancel()
				if lr.Intn(3) == 0 {
					time.Sleep(time.Duration(lr.Intn(60)) * time.Microsecond)
				}
			}
		}(s)
	}
	// releaser of blocking tasks
	relStop := make(chan struct{})
	go func() {
		for {
			select {
			case <-relStop:
				return
			case <-time.After(300 * time.Microsecond):
			}
			for _, t := range tasks {
				if t.kind == 3 && t.ran.Load() > 0 {
					select {
					case <-t.release:
					default:
						close(t.release)
					}
				}
			}
		}
	}()
	time.Sleep(startDelay)
	// lifecycle: concurrent Start callers
	var startOK atomic.Int32
	var swg sync.WaitGroup
	r.startCall.Store(true)
	for k := 0; k < 1+rng.Intn(3); k++ {
		swg.Add(1)
		go func() {
			defer swg.Done()
			if p.Start() == nil {
				startOK.Add(1)
			}
		}()
	}
	swg.Wait()
	if startOK.Load() != 1 {
		return fmt.Sprintf("lifecycle: %d Start calls returned nil [%s]", startOK.Load(), cfg), ntask
	}
	if !midShutdown {
		wg.Wait()
		// C10 liveness on a RUNNING pool: every accepted task must get executed without any further call
		allDone := func() bool {
			for i, t := range tasks {
				if results[i] == nil && !t.done.Load() {
					return false
				}
			}
			return true
		}
		if !waitCond(allDone, hangTicks) {
			dumpGoroutines("stranded")
			return fmt.Sprintf("stranded: accepted tasks are not executed by the running pool: %s [%s]", p.VerifSnapshot(), cfg), ntask
		}
	} else {
		time.Sleep(shutDelay)
	}
	// shutdown: both kinds race; exactly one may win
	var shutOK atomic.Int32
	var doneCh <-chan struct{}
	var returned []ekpool.Task
	var mu sync.Mutex
	var hwg sync.WaitGroup
	callers := 1 + rng.Intn(2)
	for k := 0; k < callers; k++ {
		hwg.Add(1)
		now := useNow
		if k == 1 {
			now = !useNow
		}
		go func(now bool) {
			defer hwg.Done()
			if now {
				ts, err := p.ShutdownNow()
				if err == nil {
					shutOK.Add(1)
					mu.Lock()
					returned = ts
					mu.Unlock()
				}
			} else {
				ch, err := p.Shutdown()
				if err == nil {
					shutOK.Add(1)
					mu.Lock()
					doneCh = ch
					mu.Unlock()
				}
			}
		}(now)
	}
	hwg.Wait()
	if shutOK.Load() != 1 {
		return fmt.Sprintf("lifecycle: %d Shutdown/ShutdownNow calls returned nil [%s]", shutOK.Load(), cfg), ntask
	}
	// calls invoked after the successful shutdown must fail
	if p.Start() == nil {
		return "lifecycle: Start returned nil after shutdown [" + cfg + "]", ntask
	}
	if _, e := p.Shutdown(); e == nil {
		return "lifecycle: Shutdown returned nil after shutdown [" + cfg + "]", ntask
	}
	if _, e := p.ShutdownNow(); e == nil {
		return "lifecycle: ShutdownNow returned nil after shutdown [" + cfg + "]", ntask
	}
	late := &stask{id: ntask, r: r, release: make(chan struct{})}
	if p.Submit(context.Background(), late) == nil {
		return "lifecycle: Submit returned nil after shutdown [" + cfg + "]", ntask
	}
	wg.Wait()
	if doneCh != nil {
		// graceful: the channel must close within a generous bound after the last accepted task finished ...
		if waitChan(doneCh, hangTicks) {
			r.closedSeen.Store(true)
			// ... and not before: completion flags at the instant closure is observed
			for i, t := range tasks {
				if results[i] == nil && !t.done.Load() {
					return fmt.Sprintf("done-early: Shutdown's channel is closed while accepted task %d has not finished: %s [%s]", i, p.VerifSnapshot(), cfg), ntask
				}
			}
		} else {
			alldone := true
			for i, t := range tasks {
				if results[i] == nil && !t.done.Load() {
					alldone = false
				}
			}
			dumpGoroutines("shutdown-hang")
			return fmt.Sprintf("shutdown-hang: Shutdown's channel not closed after %d delivered 5ms ticks (all accepted tasks finished: %v): %s [%s]", hangTicks, alldone, p.VerifSnapshot(), cfg), ntask
		}
	} else {
		// ShutdownNow: wait until the workers are gone and running tasks have finished
		if !waitCond(func() bool { return r.running.Load() == 0 && p.VerifNumGo() == 0 }, hangTicks) {
			dumpGoroutines("shutdownnow-hang")
			return fmt.Sprintf("shutdownnow-hang: workers still alive: %s [%s]", p.VerifSnapshot(), cfg), ntask
		}
		time.Sleep(200 * time.Microsecond)
		// the returned wrappers are run in a marked mode
		mctx := context.WithValue(context.Background(), markKey, true)
		for _, t := range returned {
			if _, d := ekpool.VerifUnwrap(t); d != 1 {
				r.fail(fmt.Sprintf("wrapper-depth: a task returned by ShutdownNow carries %d taskWrapper layers", d))
			}
			_ = t.Run(mctx)
		}
	}
	if msg := statesEnd(); msg != "" {
		return msg, ntask
	}
	close(relStop)
	close(stopSample)
	sampleWg.Wait()
	if v := r.viol.Load(); v != nil {
		return v.(string) + " [" + cfg + "]", ntask
	}
	// the ledger
	for i, t := range tasks {
		ran, ret := t.ran.Load(), t.returned.Load()
		switch {
		case ran > 1:
			return fmt.Sprintf("twice: task %d executed %d times [%s]", i, ran, cfg), ntask
		case ret > 1:
			return fmt.Sprintf("twice: task %d returned %d times by ShutdownNow [%s]", i, ret, cfg), ntask
		case ran > 0 && ret > 0:
			return fmt.Sprintf("both: task %d executed and returned by ShutdownNow [%s]", i, cfg), ntask
		case results[i] != nil && (ran > 0 || ret > 0):
			return fmt.Sprintf("rejected-ran: task %d was rejected (%s) but ran=%d returned=%d [%s]", i, ekpool.VerifErrClass(results[i]), ran, ret, cfg), ntask
		case results[i] == nil && ran == 0 && ret == 0:
			return fmt.Sprintf("neither: accepted task %d was neither executed nor returned: %s [%s]", i, p.VerifSnapshot(), cfg), ntask
		}
	}
	if late.ran.Load() != 0 {
		return "rejected-ran: the task submitted after shutdown ran [" + cfg + "]", ntask
	}
	return "", ntask
}

// directedScaleDown is the directed scenario for the done-early clause of C12 / C10: pools that have really scaled above
// coreGo (initGo 1, coreGo 2, maxGo 6, queue 16; six gated tasks), a backlog of microsecond tasks, Shutdown, gates released.
// While the backlog drains, above-core workers leave (nothing left for them) exactly while other workers sit between
// "dequeued a task" and "counted it as running".  Monitor: when Shutdown's channel is observed closed every accepted task
// must have completed, and no task may observe the pool's context cancelled before it finished.  Several goroutines run
// fresh pools in parallel for `budget`.
func directedScaleDown(seed int64, budget time.Duration) (string, int) {
	const (
		workers   = 8
		initGo    = 1
		coreGo    = 2
		maxGo     = 6
		queueSize = 16
	)
	deadline := time.Now().Add(budget)
	var failed atomic.Value
	var trials atomic.Int64
	var wg sync.WaitGroup
	fail := func(s string) {
		if failed.Load() == nil {
			failed.Store(s)
		}
	}
	for g := 0; g < workers; g++ {
		wg.Add(1)
		go func(g int) {
			defer wg.Done()
			rnd := rand.New(rand.NewSource(seed*131 + int64(g)))
			for time.Now().Before(deadline) && failed.Load() == nil {
				k := trials.Add(1)
				idle := time.Duration(200+rnd.Intn(401)) * time.Microsecond
				p, err := ekpool.NewOnDemandBlockTaskPool(initGo, queueSize, ekpool.WithCoreGo(coreGo), ekpool.WithMaxGo(maxGo),
					ekpool.WithMaxIdleTime(idle))
				if err != nil {
					fail("ctor: " + err.Error())
					return
				}
				if err = p.Start(); err != nil {
					fail("directed: Start: " + err.Error())
					return
				}
				var accepted, finished, sawCancel atomic.Int64
				submit := func(f func()) bool {
					e := p.Submit(context.Background(), ekpool.TaskFunc(func(ctx context.Context) error {
						f()
						if ctx.Err() != nil {
							sawCancel.Add(1)
						}
						finished.Add(1)
						return nil
					}))
					if e != nil {
						fail("directed: Submit to a running pool failed: " + e.Error())
						return false
					}
					accepted.Add(1)
					return true
				}
				gate := make(chan struct{})
				started := make(chan struct{}, maxGo)
				for i := 0; i < maxGo; i++ {
					if !submit(func() { started <- struct{}{}; <-gate }) {
						close(gate)
						return
					}
				}
				ok := true
				for i := 0; i < maxGo && ok; i++ {
					ok = waitChan(started, 2*hangTicks)
				}
				if !ok {
					close(gate)
					dumpGoroutines("directed-scale-up")
					fail(fmt.Sprintf("stranded: directed scale-down scenario: the pool did not scale to %d workers for %d gated tasks: %s", maxGo, maxGo, p.VerifSnapshot()))
					return
				}
				n := 1 + rnd.Intn(queueSize)
				for i := 0; i < n; i++ {
					d := time.Duration(rnd.Intn(4)) * time.Microsecond
					if !submit(func() {
						for st := time.Now(); time.Since(st) < d; {
						}
						runtime.Gosched()
					}) {
						close(gate)
						return
					}
				}
				done, err := p.Shutdown()
				if err != nil {
					close(gate)
					fail("directed: Shutdown: " + err.Error())
					return
				}
				close(gate)
				cfg := fmt.Sprintf("[init=%d core=%d max=%d queue=%d idle=%s backlog=%d] (trial %d, goroutine %d, seed %d)", initGo, coreGo, maxGo, queueSize, idle, n, k, g, seed)
				if waitChan(done, 2*hangTicks) {
					if f, a := finished.Load(), accepted.Load(); f != a {
						fail(fmt.Sprintf("done-early: directed scale-down scenario: Shutdown's channel is closed while only %d of %d accepted tasks have finished: %s %s", f, a, p.VerifSnapshot(), cfg))
						return
					}
				} else {
					dumpGoroutines("directed-shutdown-hang")
					fail(fmt.Sprintf("shutdown-hang: directed scale-down scenario: Shutdown's channel not closed after %d delivered 5ms ticks: %s %s", 2*hangTicks, p.VerifSnapshot(), cfg))
					return
				}
				time.Sleep(50 * time.Microsecond)
				if c := sawCancel.Load(); c != 0 {
					fail(fmt.Sprintf("done-early: directed scale-down scenario: %d task(s) observed the pool's context cancelled before they finished %s", c, cfg))
					return
				}
			}
		}(g)
	}
	wg.Wait()
	if v := failed.Load(); v != nil {
		return v.(string), int(trials.Load())
	}
	return "", int(trials.Load())
}

func stressMain(args []string) {
	seed, rounds := int64(1), 200
	focus := ""
	if len(args) > 0 {
		seed, _ = strconv.ParseInt(args[0], 10, 64)
	}
	if len(args) > 1 {
		rounds, _ = strconv.Atoi(args[1])
	}
	if len(args) > 2 {
		focus = args[2]
	}
	directedMs := 1000
	if len(args) > 3 {
		directedMs, _ = strconv.Atoi(args[3])
	}
	verifhook.SetMode(verifhook.Chaos)
	rng := rand.New(rand.NewSource(seed))
	total := 0
	for k := 0; k < rounds; k++ {
		msg, n := oneRound(rng, focus)
		total += n
		if msg != "" {
			fmt.Printf("VIOLATION %s (round %d of seed %d)\n", msg, k, seed)
			return
		}
	}
	trials := 0
	if directedMs > 0 && (focus == "" || focus == "c10" || focus == "c12") {
		msg, n := directedScaleDown(seed, time.Duration(directedMs)*time.Millisecond)
		trials = n
		if msg != "" {
			fmt.Printf("VIOLATION %s\n", msg)
			return
		}
	}
	fmt.Printf("ok rounds=%d tasks=%d directed_trials=%d states_consumers=%d states_samples=%d states_poolstate_locked=%d\n",
		rounds, total, trials, statesConsumers.Load(), statesSamples.Load(), statesLocked.Load())
}

var _ = option.Apply[ekpool.OnDemandBlockTaskPool]

func init() { reg.Register("c10-pool-stress", stressMain) }
