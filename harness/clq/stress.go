package clq

// c06-clq-stress: the SEARCH oracle of property C06 for queue.ConcurrentLinkedQueue (not a proof).
// The instrumented code runs in chaos mode (random Gosched / short sleeps at every statement).
//
//	c06-clq-stress <seed> <producers> <consumers> <perProducer> <porcupineRounds>
//
// Phase A: P producers enqueue increasing sequence numbers tagged with their id, C consumers dequeue
// concurrently; monitors: no value invented, none duplicated, none lost (after a final drain),
// per-producer order preserved at every consumer, no panic, completion deadline.
// Phase B: many small rounds (2..4 goroutines x <= 7 random calls on a fresh, possibly pre-filled
// queue); the invocation / response history of each round (global logical clock) is checked for
// linearizability w.r.t. the sequential FIFO queue with porcupine.
//
// Output: one line, "ok ..." or "VIOLATION <kind>: <detail>" (+ the offending history on the following lines).

import (
	"errors"
	"fmt"
	"math/rand"
	"os"
	"runtime"
	"sort"
	"strconv"
	"strings"
	"sync"
	"sync/atomic"
	"time"

	"github.com/anishathalye/porcupine"
	"github.com/ecodeclub/ekit/queue"
	"github.com/ecodeclub/ekit/verifhook"
	"verifharness/reg"
)

func init() { reg.Register("c06-clq-stress", stressMain) }

const tagBase = 1000000

type qop struct {
	enq bool
	v   int
}
type qres struct {
	ok bool // Dequeue: a value was returned
	v  int
}

func fifoModel() porcupine.Model {
	return porcupine.Model{
		Init: func() interface{} { return "" },
		Step: func(st, in, out interface{}) (bool, interface{}) {
			s := st.(string)
			o := in.(qop)
			r := out.(qres)
			if o.enq {
				return true, s + strconv.Itoa(o.v) + ","
			}
			if s == "" {
				return !r.ok, s
			}
			i := strings.IndexByte(s, ',')
			head, _ := strconv.Atoi(s[:i])
			return r.ok && r.v == head, s[i+1:]
		},
		Equal: func(a, b interface{}) bool { return a.(string) == b.(string) },
		DescribeOperation: func(in, out interface{}) string {
			o := in.(qop)
			r := out.(qres)
			if o.enq {
				return fmt.Sprintf("Enqueue(%d)", o.v)
			}
			if r.ok {
				return fmt.Sprintf("Dequeue()=%d", r.v)
			}
			return "Dequeue()=empty"
		},
	}
}

func describe(ops []porcupine.Operation) string {
	sort.Slice(ops, func(i, j int) bool { return ops[i].Call < ops[j].Call })
	m := fifoModel()
	var b strings.Builder
	for _, o := range ops {
		fmt.Fprintf(&b, "  g%d [%d,%d] %s\n", o.ClientId, o.Call, o.Return, m.DescribeOperation(o.Input, o.Output))
	}
	return b.String()
}

func stressMain(args []string) {
	if len(args) < 5 {
		fmt.Println("usage: c06-clq-stress <seed> <producers> <consumers> <perProducer> <porcupineRounds>")
		return
	}
	seed, _ := strconv.ParseInt(args[0], 10, 64)
	P, _ := strconv.Atoi(args[1])
	C, _ := strconv.Atoi(args[2])
	N, _ := strconv.Atoi(args[3])
	rounds, _ := strconv.Atoi(args[4])
	if runtime.GOMAXPROCS(0) < 4 {
		runtime.GOMAXPROCS(4)
	}
	verifhook.SetMode(verifhook.Chaos)
	if msg := phaseA(P, C, N); msg != "" {
		fmt.Println("VIOLATION " + msg)
		return
	}
	ops, unknown := 0, 0
	for r := 0; r < rounds; r++ {
		n, unk, msg := phaseB(rand.New(rand.NewSource(seed*1000003 + int64(r))))
		ops += n
		if unk {
			unknown++
		}
		if msg != "" {
			fmt.Println("VIOLATION " + msg)
			return
		}
	}
	fmt.Printf("ok producers=%d consumers=%d values=%d porcupine_rounds=%d porcupine_ops=%d porcupine_inconclusive=%d\n", P, C, P*N, rounds, ops, unknown)
}

// phaseA returns "" or "<kind>: <detail>".
func phaseA(P, C, N int) string {
	if P <= 0 || N <= 0 {
		return ""
	}
	q := queue.NewConcurrentLinkedQueue[int]()
	total := int64(P * N)
	var consumed atomic.Int64
	var stop atomic.Bool
	var wg sync.WaitGroup
	var pmu sync.Mutex
	panics := []string{}
	guard := func(who string) {
		if r := recover(); r != nil {
			pmu.Lock()
			panics = append(panics, fmt.Sprintf("%s: %v", who, r))
			pmu.Unlock()
			stop.Store(true)
		}
	}
	start := make(chan struct{})
	for p := 0; p < P; p++ {
		wg.Add(1)
		go func(p int) {
			defer wg.Done()
			defer guard(fmt.Sprintf("producer %d", p))
			<-start
			for s := 1; s <= N && !stop.Load(); s++ {
				if err := q.Enqueue((p+1)*tagBase + s); err != nil {
					panic("Enqueue returned " + err.Error())
				}
			}
		}(p)
	}
	got := make([][]int, C)
	for c := 0; c < C; c++ {
		wg.Add(1)
		go func(c int) {
			defer wg.Done()
			defer guard(fmt.Sprintf("consumer %d", c))
			<-start
			for consumed.Load() < total && !stop.Load() {
				v, err := q.Dequeue()
				if err != nil {
					if !errors.Is(err, queue.VerifErrEmptyQueue) {
						panic("Dequeue returned " + err.Error())
					}
					runtime.Gosched()
					continue
				}
				got[c] = append(got[c], v)
				consumed.Add(1)
			}
		}(c)
	}
	close(start)
	done := make(chan struct{})
	go func() { wg.Wait(); close(done) }()
	deadline := 60 * time.Second
	if C == 0 {
		deadline = 30 * time.Second
	}
	select {
	case <-done:
	case <-time.After(deadline):
		// with C > 0 the consumers stop only when every value arrived: a lost value shows up here
		stop.Store(true)
		select {
		case <-done:
		case <-time.After(10 * time.Second):
			buf := make([]byte, 1<<20)
			n := runtime.Stack(buf, true)
			os.Stderr.Write(buf[:n])
			return fmt.Sprintf("hang: goroutines did not finish (consumed %d of %d)", consumed.Load(), total)
		}
	}
	verifhook.SetMode(verifhook.Off)
	defer verifhook.SetMode(verifhook.Chaos)
	if len(panics) > 0 {
		return "panic: " + strings.Join(panics, " | ")
	}
	// final drain (sequential)
	drained := []int{}
	for i := int64(0); i <= total+1; i++ {
		v, err := q.Dequeue()
		if err != nil {
			break
		}
		drained = append(drained, v)
	}
	seen := map[int]int{}
	check := func(who string, vs []int) string {
		last := map[int]int{}
		for _, v := range vs {
			p, s := v/tagBase, v%tagBase
			if p < 1 || p > P || s < 1 || s > N {
				return fmt.Sprintf("unknown-value: %s dequeued %d which nobody enqueued", who, v)
			}
			seen[v]++
			if seen[v] > 1 {
				return fmt.Sprintf("duplicate: value %d (producer %d, seq %d) dequeued twice (second time by %s)", v, p, s, who)
			}
			if s <= last[p] {
				return fmt.Sprintf("order: %s dequeued seq %d of producer %d after seq %d", who, s, p, last[p])
			}
			last[p] = s
		}
		return ""
	}
	for c := 0; c < C; c++ {
		if m := check(fmt.Sprintf("consumer %d", c), got[c]); m != "" {
			return m
		}
	}
	if m := check("the final drain", drained); m != "" {
		return m
	}
	if int64(len(seen)) != total {
		for p := 1; p <= P; p++ {
			for s := 1; s <= N; s++ {
				if seen[p*tagBase+s] == 0 {
					return fmt.Sprintf("loss: value seq %d of producer %d was enqueued (nil error) but never dequeued, also not by the final drain (%d of %d values seen)", s, p, len(seen), total)
				}
			}
		}
	}
	if _, err := q.Dequeue(); err == nil {
		return "unknown-value: Dequeue returns a value after everything was dequeued"
	}
	return ""
}

// phaseB: one small recorded round checked by porcupine. Returns (#ops, inconclusive, violation).
func phaseB(rng *rand.Rand) (int, bool, string) {
	q := queue.NewConcurrentLinkedQueue[int]()
	var clock atomic.Int64
	var mu sync.Mutex
	hist := []porcupine.Operation{}
	record := func(g int, in qop, f func() qres) {
		call := clock.Add(1)
		out := f()
		ret := clock.Add(1)
		mu.Lock()
		hist = append(hist, porcupine.Operation{ClientId: g, Input: in, Call: call, Output: out, Return: ret})
		mu.Unlock()
	}
	do := func(g int, o qop) {
		if o.enq {
			record(g, o, func() qres { _ = q.Enqueue(o.v); return qres{} })
		} else {
			record(g, o, func() qres {
				v, err := q.Dequeue()
				return qres{ok: err == nil, v: v}
			})
		}
	}
	next := 1
	for i, k := 0, rng.Intn(3); i < k; i++ { // sequential pre-fill
		do(0, qop{enq: true, v: next})
		next++
	}
	G := 2 + rng.Intn(3)
	plans := make([][]qop, G)
	pdeq := 30 + rng.Intn(41)
	for g := range plans {
		for i, k := 0, 1+rng.Intn(7); i < k; i++ {
			if rng.Intn(100) < pdeq {
				plans[g] = append(plans[g], qop{})
			} else {
				plans[g] = append(plans[g], qop{enq: true, v: next})
				next++
			}
		}
	}
	var wg sync.WaitGroup
	start := make(chan struct{})
	var pmsg atomic.Value
	for g := range plans {
		wg.Add(1)
		go func(g int) {
			defer wg.Done()
			defer func() {
				if r := recover(); r != nil {
					pmsg.Store(fmt.Sprint(r))
				}
			}()
			<-start
			for _, o := range plans[g] {
				do(g+1, o)
			}
		}(g)
	}
	close(start)
	done := make(chan struct{})
	go func() { wg.Wait(); close(done) }()
	select {
	case <-done:
	case <-time.After(30 * time.Second):
		buf := make([]byte, 1<<20)
		n := runtime.Stack(buf, true)
		os.Stderr.Write(buf[:n])
		return len(hist), false, "hang: a round of <= 4 goroutines x <= 7 calls did not finish in 30 s"
	}
	if m := pmsg.Load(); m != nil {
		return len(hist), false, "panic: " + m.(string) + "\n" + describe(hist)
	}
	switch porcupine.CheckOperationsTimeout(fifoModel(), hist, 5*time.Second) {
	case porcupine.Illegal:
		return len(hist), false, "not-linearizable: no sequential FIFO order of these calls respects their real-time order and return values\n" + describe(hist)
	case porcupine.Unknown:
		return len(hist), true, ""
	}
	return len(hist), false, ""
}
