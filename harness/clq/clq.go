// Package clq: the real lock-free queue.ConcurrentLinkedQueue under the lock-step controller
// (object "clq", model CLQModel.v) and its chaos-mode stress / monitor command
// c06-clq-stress (search oracle of property C06; not a proof).
package clq

import (
	"context"
	"errors"
	"strconv"

	"github.com/ecodeclub/ekit/queue"
	"verifharness/lockstep"
)

type inst struct {
	q *queue.ConcurrentLinkedQueue[int]
}

// Call: "enq <v>" -> "nil" | "err:..." ; "deq" -> "v:<n>" | "empty" | "err:..."
func (i *inst) Call(ctx context.Context, tid int, op string, args []string) string {
	switch op {
	case "enq":
		v, _ := strconv.Atoi(args[0])
		if err := i.q.Enqueue(v); err != nil {
			return "err:" + err.Error()
		}
		return "nil"
	case "deq":
		v, err := i.q.Dequeue()
		switch {
		case err == nil:
			return "v:" + strconv.Itoa(v)
		case errors.Is(err, queue.VerifErrEmptyQueue):
			return "empty"
		default:
			return "err:" + err.Error()
		}
	}
	return "badop"
}

func init() {
	lockstep.Register("clq", func(params []string) lockstep.Instance {
		return &inst{q: queue.NewConcurrentLinkedQueue[int]()}
	})
}
