// Package lbq: ConcurrentLinkedBlockingQueue under the lock-step controller (C07, C09) and the
// chaos-mode stress/monitor command c07-lbq-stress (search oracle, see stress.go).
package lbq

import (
	"context"
	"errors"
	"fmt"
	"runtime"
	"strconv"
	"strings"
	"sync/atomic"

	"github.com/ecodeclub/ekit/queue"
	"verifharness/lockstep"
)

// epoch counts instances: a goroutine of an abandoned schedule that is released by the
// controller's clean-up cancellation must not report a return value into the next schedule.
var epoch atomic.Int64

type instance struct {
	q     *queue.ConcurrentLinkedBlockingQueue[int]
	epoch int64
}

func ctxClass(err error) string {
	switch {
	case err == nil:
		return "nil"
	case errors.Is(err, context.Canceled), errors.Is(err, context.DeadlineExceeded):
		return "ctx"
	}
	return "delerr"
}

func (i *instance) Call(ctx context.Context, tid int, op string, args []string) string {
	var res string
	switch op {
	case "enq":
		v, _ := strconv.Atoi(args[0])
		res = ctxClass(i.q.Enqueue(ctx, v))
	case "deq":
		v, err := i.q.Dequeue(ctx)
		if err == nil {
			res = "val:" + strconv.Itoa(v)
		} else {
			res = ctxClass(err)
		}
	case "len":
		res = "len:" + strconv.Itoa(i.q.Len())
	case "slice":
		s := i.q.AsSlice()
		parts := make([]string, len(s))
		for k, x := range s {
			parts[k] = strconv.Itoa(x)
		}
		res = "slice:[" + strings.Join(parts, ",") + "]"
	default:
		res = "badop"
	}
	if epoch.Load() != i.epoch {
		runtime.Goexit() // stale schedule: vanish without an observation
	}
	return res
}

func init() {
	lockstep.Register("lbq", func(params []string) lockstep.Instance {
		n, err := strconv.Atoi(params[0])
		if err != nil {
			panic(fmt.Sprint("lbq: bad maxSize ", params))
		}
		return &instance{q: queue.NewConcurrentLinkedBlockingQueue[int](n), epoch: epoch.Add(1)}
	})
}
