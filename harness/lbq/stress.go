package lbq

// c07-lbq-stress: chaos-mode stress / monitor command for queue.ConcurrentLinkedBlockingQueue[int]
// (properties C07 and C09 on the real, instrumented code). It is a SEARCH oracle, not a proof.
//
//	h c07-lbq-stress <seed> <maxSize> <producers> <consumers> <itemsPerProducer> [rounds]
//
// prints exactly one line: "ok <stats>" or "<kind>: <description>" with <kind> one of
// capacity, negative, order, duplicate, lost, phantom, ctx-effect, hang, fill, panic
// (on hang all goroutine stacks go to stderr). Exit code 0 always.
//
// Phase A: producers / consumers with random per-call contexts, Len()/AsSlice() sampler,
// per-consumer per-producer order, exactly-once accounting. Phase B: quiescent checks.
// Phase C: targeted wake-up / cancellation scenarios C1..C4, `rounds` times.
// Every monitor is sound for a linearisable bounded FIFO queue whose operations have no effect
// when they return a context error: no verdict depends on timing except the hang deadlines.

import (
	"context"
	"errors"
	"fmt"
	"math/rand"
	"os"
	"runtime"
	"strconv"
	"strings"
	"sync"
	"sync/atomic"
	"time"

	"github.com/ecodeclub/ekit/queue"
	"github.com/ecodeclub/ekit/verifhook"
	"verifharness/reg"
)

func init() { reg.Register("c07-lbq-stress", stressMain) }

const (
	stOpDeadline = 2 * time.Second // for operations that must complete at once
	stTick       = 50 * time.Millisecond
	stWaitTicks  = 40  // 2 s in ticks (tick-counted: a frozen process does not raise a false alarm)
	stStallTicks = 100 // phase A: 5 s without a single successful operation
	stPhaseTicks = 400 // phase A: 20 s in total
	stProdBase   = 1_000_000
)

var stMu sync.Mutex

// stFail prints the verdict line and exits; the first reporter wins, later ones park until exit.
func stFail(kind, format string, a ...any) {
	stMu.Lock()
	if kind == "hang" {
		buf := make([]byte, 1<<24)
		n := runtime.Stack(buf, true)
		os.Stderr.Write(buf[:n])
	}
	line := kind + ": " + fmt.Sprintf(format, a...)
	line = strings.ReplaceAll(strings.ReplaceAll(line, "\n", " "), "\r", " ")
	fmt.Println(line)
	os.Exit(0)
}

func stRecover() {
	if r := recover(); r != nil {
		stFail("panic", "%v", r)
	}
}

func stGo(f func()) {
	go func() {
		defer stRecover()
		f()
	}()
}

func stIsCtx(err error) bool {
	return errors.Is(err, context.Canceled) || errors.Is(err, context.DeadlineExceeded)
}

func stUs(n int) time.Duration { return time.Duration(n) * time.Microsecond }

// stCtx: random context derived from parent. never = the context itself adds no way to end.
func stCtx(parent context.Context, r *rand.Rand) (ctx context.Context, cancel context.CancelFunc, never bool) {
	switch r.Intn(4) {
	case 0:
		return parent, func() {}, true
	case 1:
		c, cf := context.WithCancel(parent)
		cf()
		return c, cf, false
	case 2:
		c, cf := context.WithTimeout(parent, stUs(20+r.Intn(1+r.Intn(1981))))
		return c, cf, false
	default:
		c, cf := context.WithCancel(parent)
		d := r.Intn(500)
		if d < 60 {
			stGo(func() {
				for i := 0; i < d/6; i++ {
					runtime.Gosched()
				}
				cf()
			})
			return c, cf, false
		}
		t := time.AfterFunc(stUs(d), cf)
		return c, func() { t.Stop(); cf() }, false
	}
}

func stTinyWait(r *rand.Rand) {
	// (time.Sleep of a few microseconds really takes 0.03 .. 1 ms here, so it is the rare case)
	switch r.Intn(10) {
	case 0, 1:
	case 2, 3:
		for i, n := 0, r.Intn(30); i < n; i++ {
			runtime.Gosched()
		}
	case 4, 5:
		d := stUs(r.Intn(200))
		for t0 := time.Now(); time.Since(t0) < d; {
			runtime.Gosched()
		}
	case 6, 7:
		d := stUs(r.Intn(60))
		for t0 := time.Now(); time.Since(t0) < d; {
		}
	case 8:
		time.Sleep(stUs(r.Intn(200)))
	default:
		runtime.Gosched()
	}
}

// stWaitUntil polls cond; the bound is counted in sleeps (2 s or a little more), not in wall-clock time.
func stWaitUntil(cond func() bool) bool {
	for t0 := time.Now(); time.Since(t0) < 300*time.Microsecond; {
		if cond() {
			return true
		}
		runtime.Gosched()
	}
	for i := 0; i < 2000; i++ { // (a sleep of 1 ms takes 1 ms or a little more)
		if cond() {
			return true
		}
		time.Sleep(time.Millisecond)
	}
	return cond()
}

// stWaitCh waits for ch for `ticks` ticks.
func stWaitCh(ch <-chan struct{}, ticks int) bool {
	for i := 0; i < ticks; i++ {
		select {
		case <-ch:
			return true
		case <-time.After(stTick):
		}
	}
	select {
	case <-ch:
		return true
	default:
		return false
	}
}

// ---- sampler -----------------------------------------------------------------------------

type stSampler struct {
	stop    atomic.Bool
	done    chan struct{}
	samples int64
	slices  int64
	maxLen  int
}

// stStartSampler: monitor 1. snap (optional) checks an AsSlice snapshot.
func stStartSampler(q *queue.ConcurrentLinkedBlockingQueue[int], maxSize int, where string, snap func([]int)) *stSampler {
	s := &stSampler{done: make(chan struct{})}
	stGo(func() {
		defer close(s.done)
		for !s.stop.Load() {
			n := q.Len()
			s.samples++
			if n < 0 {
				stFail("negative", "%s: Len()=%d", where, n)
			}
			if maxSize > 0 && n > maxSize {
				stFail("capacity", "%s: Len()=%d > maxSize=%d", where, n, maxSize)
			}
			if n > s.maxLen {
				s.maxLen = n
			}
			if s.samples%16 == 0 {
				sl := q.AsSlice()
				s.slices++
				if maxSize > 0 && len(sl) > maxSize {
					stFail("capacity", "%s: len(AsSlice())=%d > maxSize=%d", where, len(sl), maxSize)
				}
				if snap != nil {
					snap(sl)
				}
			}
			runtime.Gosched()
		}
	})
	return s
}

func (s *stSampler) halt() {
	s.stop.Store(true)
	if !stWaitCh(s.done, stWaitTicks) {
		stFail("hang", "sampler: Len()/AsSlice() did not return within 2 s")
	}
}

// ---- main --------------------------------------------------------------------------------

func stressMain(args []string) {
	defer stRecover()
	if len(args) < 5 {
		fmt.Println("panic: usage: c07-lbq-stress <seed> <maxSize> <producers> <consumers> <itemsPerProducer> [rounds]")
		return
	}
	seed, _ := strconv.ParseInt(args[0], 10, 64)
	maxSize, _ := strconv.Atoi(args[1])
	producers, _ := strconv.Atoi(args[2])
	consumers, _ := strconv.Atoi(args[3])
	items, _ := strconv.Atoi(args[4])
	rounds := 200
	if len(args) > 5 {
		rounds, _ = strconv.Atoi(args[5])
	}
	if items >= stProdBase {
		items = stProdBase - 1
	}
	time.AfterFunc(60*time.Second, func() { stFail("hang", "watchdog: the command did not finish within 60 s") })
	t0 := time.Now()

	verifhook.SetMode(verifhook.Chaos)
	q := queue.NewConcurrentLinkedBlockingQueue[int](maxSize)
	statsA := ""
	if producers > 0 && consumers > 0 && items > 0 {
		statsA = stPhaseA(q, seed, maxSize, producers, consumers, items)
	}

	// Phase B: quiescent
	verifhook.SetMode(verifhook.Off)
	if n, sl := q.Len(), q.AsSlice(); n != 0 || len(sl) != 0 {
		stFail("duplicate", "drain: after phase A every produced value was received exactly once, but Len()=%d AsSlice()=%v", n, stShort(sl))
	}

	// Phase C
	verifhook.SetMode(verifhook.Chaos)
	c := &stC{q: q, m: maxSize, next: 1_000_000_000}
	smp := stStartSampler(q, maxSize, "phase C sampler", nil)
	for round := 0; round < rounds; round++ {
		r := rand.New(rand.NewSource(seed + 100000 + int64(round)))
		c.round = round
		c.c1(r)
		if maxSize > 0 {
			c.c2(r)
		}
		c.c3(r)
		c.c4(r)
	}
	smp.halt()
	verifhook.SetMode(verifhook.Off)
	if n, sl := q.Len(), q.AsSlice(); n != 0 || len(sl) != 0 {
		stFail("duplicate", "drain: after phase C Len()=%d AsSlice()=%v, want empty", n, stShort(sl))
	}
	stMu.Lock()
	fmt.Printf("ok %s rounds=%d samplesC=%d ms=%d\n", statsA, rounds, smp.samples, time.Since(t0).Milliseconds())
	os.Exit(0)
}

func stShort(s []int) string {
	if len(s) > 12 {
		return fmt.Sprintf("%v...(%d)", s[:12], len(s))
	}
	return fmt.Sprint(s)
}

func stName(v int) string { return fmt.Sprintf("%d/%d", v/stProdBase, v%stProdBase) }

// ---- phase A -----------------------------------------------------------------------------

func stPhaseA(q *queue.ConcurrentLinkedBlockingQueue[int], seed int64, maxSize, producers, consumers, items int) string {
	total := int64(producers * items)
	var enqOK, deqOK, enqCtx, deqCtx, prodDone atomic.Int64
	parent, cancelParent := context.WithCancel(context.Background())
	defer cancelParent()

	snap := func(sl []int) {
		// one atomic snapshot of a FIFO queue: distinct values, every producer's values increasing
		last := make(map[int]int, producers)
		for _, v := range sl {
			p, i := v/stProdBase, v%stProdBase
			if p < 1 || p > producers || i >= items {
				stFail("phantom", "AsSlice() contains %d, which was never produced", v)
			}
			if l, ok := last[p]; ok {
				if l == i {
					stFail("duplicate", "AsSlice() contains %s twice", stName(v))
				}
				if l > i {
					stFail("order", "AsSlice() has %s after %d/%d", stName(v), p, l)
				}
			}
			last[p] = i
		}
	}
	smp := stStartSampler(q, maxSize, "phase A sampler", snap)

	var wg sync.WaitGroup
	for p := 1; p <= producers; p++ {
		p := p
		wg.Add(1)
		stGo(func() {
			defer wg.Done()
			r := rand.New(rand.NewSource(seed + 1000 + int64(p)))
			for i := 0; i < items; i++ {
				v := p*stProdBase + i
				for {
					ctx, cancel, never := stCtx(context.Background(), r)
					err := q.Enqueue(ctx, v)
					cancel()
					if err == nil {
						enqOK.Add(1)
						break
					}
					if !stIsCtx(err) {
						stFail("phantom", "Enqueue returned %v (value %s)", err, stName(v))
					}
					if never {
						stFail("phantom", "Enqueue returned %v with a Background context", err)
					}
					enqCtx.Add(1)
				}
			}
			prodDone.Add(1)
		})
	}
	got := make([][]int, consumers)
	for c := 0; c < consumers; c++ {
		c := c
		wg.Add(1)
		stGo(func() {
			defer wg.Done()
			r := rand.New(rand.NewSource(seed + 2000 + int64(c)))
			last := make([]int, producers+1)
			for i := range last {
				last[i] = -1
			}
			for deqOK.Load() < total {
				ctx, cancel, _ := stCtx(parent, r)
				v, err := q.Dequeue(ctx)
				cancel()
				if err != nil {
					if !stIsCtx(err) {
						stFail("phantom", "Dequeue returned %v (value %d)", err, v)
					}
					if v != 0 {
						stFail("ctx-effect", "Dequeue returned %v together with the value %d", err, v)
					}
					deqCtx.Add(1)
					continue
				}
				p, i := v/stProdBase, v%stProdBase
				if p < 1 || p > producers || i >= items {
					stFail("phantom", "Dequeue returned %d with a nil error; that value was never produced", v)
				}
				if i == last[p] {
					stFail("duplicate", "consumer %d got %s twice in a row", c, stName(v))
				}
				if i < last[p] {
					stFail("order", "consumer %d got %s after %d/%d", c, stName(v), p, last[p])
				}
				last[p] = i
				got[c] = append(got[c], v)
				if deqOK.Add(1) == total {
					cancelParent()
				}
			}
		})
	}
	done := make(chan struct{})
	go func() { wg.Wait(); close(done) }()

	lastProg, stale := int64(-1), 0
wait:
	for tick := 0; ; tick++ {
		select {
		case <-done:
			break wait
		case <-time.After(stTick):
		}
		if pr := enqOK.Load() + deqOK.Load(); pr != lastProg {
			lastProg, stale = pr, 0
		} else {
			stale++
		}
		if stale >= stStallTicks || tick >= stPhaseTicks {
			n, ok := stLenTimeout(q)
			state := fmt.Sprintf("enqueued %d/%d, dequeued %d/%d, producers finished %d/%d, Len()=%d", enqOK.Load(), total, deqOK.Load(), total, prodDone.Load(), producers, n)
			if !ok {
				state += " (Len() itself blocked)"
			}
			if stale >= stStallTicks && ok && n == 0 && prodDone.Load() == int64(producers) {
				stFail("lost", "phase A: every Enqueue succeeded and the queue is empty, but only %d of %d values were dequeued", deqOK.Load(), total)
			}
			if stale >= stStallTicks {
				stFail("hang", "phase A: no successful operation for 5 s: %s", state)
			}
			stFail("hang", "phase A: not complete after 20 s: %s", state)
		}
	}
	smp.halt()

	// monitor 4: exactly once
	cnt := make(map[int]int, int(total))
	for c := range got {
		for _, v := range got[c] {
			cnt[v]++
		}
	}
	rest := q.AsSlice()
	inRest := make(map[int]bool, len(rest))
	for _, v := range rest {
		inRest[v] = true
	}
	for p := 1; p <= producers; p++ {
		for i := 0; i < items; i++ {
			if n := cnt[p*stProdBase+i]; n > 1 {
				stFail("duplicate", "value %d/%d was dequeued %d times", p, i, n)
			}
		}
	}
	for p := 1; p <= producers; p++ {
		for i := 0; i < items; i++ {
			v := p*stProdBase + i
			if cnt[v] == 0 && !inRest[v] {
				stFail("lost", "value %d/%d was enqueued successfully, never dequeued and is not in AsSlice()", p, i)
			}
			if cnt[v] == 0 {
				stFail("lost", "drain: value %d/%d is still queued although %d values were dequeued", p, i, deqOK.Load())
			}
		}
	}
	if int64(len(cnt)) != total {
		stFail("phantom", "%d distinct values dequeued, %d produced", len(cnt), total)
	}
	return fmt.Sprintf("enq=%d deq=%d enqCtxErr=%d deqCtxErr=%d samplesA=%d slicesA=%d maxLen=%d",
		enqOK.Load(), deqOK.Load(), enqCtx.Load(), deqCtx.Load(), smp.samples, smp.slices, smp.maxLen)
}

func stLenTimeout(q *queue.ConcurrentLinkedBlockingQueue[int]) (int, bool) {
	ch := make(chan int, 1)
	go func() {
		defer func() { _ = recover() }()
		ch <- q.Len()
	}()
	select {
	case n := <-ch:
		return n, true
	case <-time.After(time.Second):
		return -1, false
	}
}

// ---- phase C -----------------------------------------------------------------------------

type stC struct {
	q     *queue.ConcurrentLinkedBlockingQueue[int]
	m     int
	next  int
	round int
}

type stRes struct {
	v   int
	err error
}

type stWaiter struct {
	val    int // the value an Enqueue waiter tries to insert
	cancel context.CancelFunc
	ch     chan stRes
	res    *stRes // set once awaited
	plan   bool   // C4: true = cancel, false = enabling event
}

func (c *stC) fresh() int { c.next++; return c.next }

func (c *stC) tag(s string) string { return fmt.Sprintf("%s (round %d, maxSize %d)", s, c.round, c.m) }

func (c *stC) startDeq(ctx context.Context, okCount *atomic.Int32) chan stRes {
	ch := make(chan stRes, 1)
	stGo(func() {
		v, err := c.q.Dequeue(ctx)
		if err == nil && okCount != nil {
			okCount.Add(1)
		}
		ch <- stRes{v, err}
	})
	return ch
}

func (c *stC) startEnq(ctx context.Context, v int, okCount *atomic.Int32) chan stRes {
	ch := make(chan stRes, 1)
	stGo(func() {
		err := c.q.Enqueue(ctx, v)
		if err == nil && okCount != nil {
			okCount.Add(1)
		}
		ch <- stRes{v, err}
	})
	return ch
}

// await: the operation must return within 2 s (tick-counted).
func (c *stC) await(ch chan stRes, what string) stRes {
	for i := 0; i < stWaitTicks; i++ {
		select {
		case r := <-ch:
			return r
		case <-time.After(stTick):
		}
	}
	select {
	case r := <-ch:
		return r
	default:
	}
	stFail("hang", "%s", c.tag(what))
	return stRes{}
}

func (c *stC) enqD(v int) error {
	ctx, cancel := context.WithTimeout(context.Background(), stOpDeadline)
	defer cancel()
	return c.q.Enqueue(ctx, v)
}

func (c *stC) deqD() (int, error) {
	ctx, cancel := context.WithTimeout(context.Background(), stOpDeadline)
	defer cancel()
	return c.q.Dequeue(ctx)
}

// fill: n Enqueues that must not block.
func (c *stC) fill(n int, where string) []int {
	vals := make([]int, 0, n)
	for i := 0; i < n; i++ {
		v := c.fresh()
		if err := c.enqD(v); err != nil {
			if stIsCtx(err) {
				stFail("fill", "%s", c.tag(fmt.Sprintf("%s: only %d of %d enqueues succeeded (number %d blocked for 2 s; Len()=%d)", where, i, n, i+1, c.q.Len())))
			}
			stFail("phantom", "%s", c.tag(fmt.Sprintf("%s: Enqueue returned %v", where, err)))
		}
		vals = append(vals, v)
	}
	return vals
}

// drain: n Dequeues that must not block.
func (c *stC) drain(n int, where string) []int {
	out := make([]int, 0, n)
	for i := 0; i < n; i++ {
		v, err := c.deqD()
		if err != nil {
			if stIsCtx(err) {
				if v != 0 {
					stFail("ctx-effect", "%s", c.tag(fmt.Sprintf("%s: Dequeue returned %v together with the value %d", where, err, v)))
				}
				stFail("lost", "%s", c.tag(fmt.Sprintf("drain: %s: Dequeue %d of %d blocked for 2 s although that many elements must be queued (Len()=%d)", where, i+1, n, c.q.Len())))
			}
			stFail("phantom", "%s", c.tag(fmt.Sprintf("%s: Dequeue returned %v", where, err)))
		}
		out = append(out, v)
	}
	return out
}

func (c *stC) expectLen(want int, kindMore, kindLess, where string) {
	n := c.q.Len()
	sl := c.q.AsSlice()
	if n == want && len(sl) == want {
		return
	}
	kind := kindLess
	if n > want || len(sl) > want {
		kind = kindMore
	}
	stFail(kind, "%s", c.tag(fmt.Sprintf("%s: Len()=%d AsSlice()=%v, want %d element(s)", where, n, stShort(sl), want)))
}

func (c *stC) sameSeq(got, want []int, where string) {
	if len(got) != len(want) {
		stFail("order", "%s", c.tag(fmt.Sprintf("%s: got %v, want %v", where, stShort(got), stShort(want))))
	}
	for i := range got {
		if got[i] != want[i] {
			stFail("order", "%s", c.tag(fmt.Sprintf("%s: FIFO order broken: got %v, want %v", where, stShort(got), stShort(want))))
		}
	}
}

// exactly: got is a permutation of want (as sets of distinct values).
func (c *stC) exactly(got, want []int, where string) {
	w := make(map[int]int, len(want))
	for _, v := range want {
		w[v]++
	}
	for _, v := range got {
		n, ok := w[v]
		if !ok {
			stFail("phantom", "%s", c.tag(fmt.Sprintf("%s: value %d appeared but was never enqueued successfully (got %v, want %v)", where, v, stShort(got), stShort(want))))
		}
		if n == 0 {
			stFail("duplicate", "%s", c.tag(fmt.Sprintf("%s: value %d appeared twice (got %v, want %v)", where, v, stShort(got), stShort(want))))
		}
		w[v] = n - 1
	}
	for v, n := range w {
		if n != 0 {
			stFail("lost", "%s", c.tag(fmt.Sprintf("%s: value %d was enqueued successfully but is neither dequeued nor queued (got %v, want %v)", where, v, stShort(got), stShort(want))))
		}
	}
}

// C1: Dequeue waiters woken by Enqueue.
func (c *stC) c1(r *rand.Rand) {
	k := 1 + r.Intn(3)
	c.expectLen(0, "duplicate", "negative", "C1 start")
	chs := make([]chan stRes, k)
	for i := range chs {
		chs[i] = c.startDeq(context.Background(), nil)
		if r.Intn(3) == 0 {
			stTinyWait(r)
		}
	}
	stTinyWait(r)
	vals := make([]int, k)
	for i := range vals {
		vals[i] = c.fresh()
		if err := c.enqD(vals[i]); err != nil {
			if stIsCtx(err) {
				for _, ch := range chs { // a waiter that has left with an error explains the blocked Enqueue
					select {
					case res := <-ch:
						if res.err != nil {
							stFail("phantom", "%s", c.tag(fmt.Sprintf("C1: Dequeue with a Background context returned %v (value %d)", res.err, res.v)))
						}
						ch <- res
					default:
					}
				}
				stFail("hang", "%s", c.tag(fmt.Sprintf("C1: Enqueue %d of %d blocked for 2 s although %d Dequeue(s) are waiting on the queue", i+1, k, k)))
			}
			stFail("phantom", "%s", c.tag(fmt.Sprintf("C1: Enqueue returned %v", err)))
		}
		if r.Intn(3) == 0 {
			stTinyWait(r)
		}
	}
	got := make([]int, 0, k)
	for i := range chs {
		res := c.await(chs[i], fmt.Sprintf("C1: %d value(s) were enqueued for %d waiting Dequeue(s), %d returned, the next one did not within 2 s", k, k, i))
		if res.err != nil {
			stFail("phantom", "%s", c.tag(fmt.Sprintf("C1: Dequeue with a Background context returned %v (value %d)", res.err, res.v)))
		}
		got = append(got, res.v)
	}
	c.exactly(got, vals, "C1")
	c.expectLen(0, "duplicate", "negative", "C1 end")
}

// C2: Enqueue waiters on a full queue woken by Dequeue.
func (c *stC) c2(r *rand.Rand) {
	m := c.m
	k := 1 + r.Intn(3)
	fillVals := c.fill(m, "C2 fill of the empty queue")
	ctx, cancel := context.WithCancel(context.Background())
	defer cancel()
	var completed atomic.Int32
	chs := make([]chan stRes, k)
	vals := make([]int, k)
	for i := range chs {
		vals[i] = c.fresh()
		chs[i] = c.startEnq(ctx, vals[i], &completed)
		if r.Intn(3) == 0 {
			stTinyWait(r)
		}
	}
	stTinyWait(r)
	out := make([]int, 0, m+k)
	for j := 1; j <= k; j++ {
		out = append(out, c.drain(1, "C2")...)
		if !stWaitUntil(func() bool { return int(completed.Load()) >= j }) {
			stFail("hang", "%s", c.tag(fmt.Sprintf("C2: %d Enqueue(s) blocked on the full queue, %d Dequeue(s) done, but only %d Enqueue(s) completed within 2 s", k, j, completed.Load())))
		}
		stTinyWait(r)
		if n := int(completed.Load()); n > j {
			stFail("capacity", "%s", c.tag(fmt.Sprintf("C2: %d blocked Enqueues completed after only %d Dequeue(s) from the full queue (Len()=%d)", n, j, c.q.Len())))
		}
		// quiescent point: m fill - j dequeued + j enqueued
		c.expectLen(m, "capacity", "lost", fmt.Sprintf("C2 after %d Dequeue(s) and %d completed Enqueue(s) on the full queue", j, j))
	}
	for i := range chs {
		res := c.await(chs[i], "C2: a completed Enqueue did not deliver its result")
		if res.err != nil {
			stFail("phantom", "%s", c.tag(fmt.Sprintf("C2: Enqueue with a live context returned %v", res.err)))
		}
	}
	out = append(out, c.drain(m, "C2 final drain")...)
	c.sameSeq(out[:m], fillVals, "C2 first maxSize dequeues")
	c.exactly(out[m:], vals, "C2 values of the blocked Enqueues")
	c.expectLen(0, "duplicate", "negative", "C2 end")
}

func (c *stC) cancelAll(ws []*stWaiter, r *rand.Rand) {
	for _, i := range r.Perm(len(ws)) {
		if r.Intn(2) == 0 {
			stTinyWait(r)
		}
		ws[i].cancel()
	}
}

// C3: cancellation is prompt and clean; afterwards the queue accepts exactly maxSize elements (C09).
func (c *stC) c3(r *rand.Rand) {
	m := c.m
	k := 1 + r.Intn(3)
	// (a) Dequeues on the empty queue
	ws := make([]*stWaiter, k)
	for i := range ws {
		ctx, cancel := context.WithCancel(context.Background())
		ws[i] = &stWaiter{cancel: cancel, ch: c.startDeq(ctx, nil)}
	}
	stTinyWait(r)
	c.cancelAll(ws, r)
	for _, w := range ws {
		res := c.await(w.ch, "C3 cancel not prompt: a cancelled Dequeue on the empty queue did not return within 2 s")
		if res.err == nil {
			stFail("phantom", "%s", c.tag(fmt.Sprintf("C3: Dequeue on the empty queue returned the value %d with a nil error", res.v)))
		}
		if !stIsCtx(res.err) {
			stFail("phantom", "%s", c.tag(fmt.Sprintf("C3: cancelled Dequeue returned %v", res.err)))
		}
		if res.v != 0 {
			stFail("ctx-effect", "%s", c.tag(fmt.Sprintf("C3: Dequeue returned %v together with the value %d", res.err, res.v)))
		}
	}
	c.expectLen(0, "ctx-effect", "negative", "C3 after cancelled Dequeues on the empty queue")

	if m <= 0 {
		n := 1 + r.Intn(5) // (every operation costs about 50 us of chaos sleeps: 50 elements only now and then)
		if c.round%8 == 0 {
			n = 50
		}
		vals := c.fill(n, "C3 unbounded queue after cancellations")
		c.expectLen(n, "duplicate", "lost", "C3 unbounded queue after the Enqueues")
		c.sameSeq(c.drain(n, "C3"), vals, "C3 unbounded")
		c.expectLen(0, "duplicate", "negative", "C3 end")
		return
	}

	// (b) Enqueues on the full queue
	fillVals := c.fill(m, "C3 fill after cancelled Dequeues")
	ws = make([]*stWaiter, k)
	for i := range ws {
		ctx, cancel := context.WithCancel(context.Background())
		v := c.fresh()
		ws[i] = &stWaiter{val: v, cancel: cancel, ch: c.startEnq(ctx, v, nil)}
	}
	stTinyWait(r)
	c.cancelAll(ws, r)
	for _, w := range ws {
		res := c.await(w.ch, "C3 cancel not prompt: a cancelled Enqueue on the full queue did not return within 2 s")
		if res.err == nil {
			stFail("capacity", "%s", c.tag("C3: Enqueue on the full queue succeeded although nothing was dequeued"))
		}
		if !stIsCtx(res.err) {
			stFail("phantom", "%s", c.tag(fmt.Sprintf("C3: cancelled Enqueue returned %v", res.err)))
		}
	}
	if n, sl := c.q.Len(), c.q.AsSlice(); n != m || len(sl) != m {
		stFail("ctx-effect", "%s", c.tag(fmt.Sprintf("C3: Len() changed from %d to %d after %d cancelled Enqueue(s) (AsSlice()=%v)", m, n, k, stShort(sl))))
	}
	c.sameSeq(c.drain(m, "C3 drain after cancellations"), fillVals, "C3 drain after cancelled Enqueues")
	c.expectLen(0, "ctx-effect", "negative", "C3 after draining maxSize elements")

	// C09: exactly maxSize elements are accepted without blocking
	vals := c.fill(m, "C09 after cancellations")
	extra := c.fresh()
	d := stUs(300 + r.Intn(700))
	if r.Intn(16) == 0 {
		d = 30 * time.Millisecond
	}
	ctx, cancel := context.WithTimeout(context.Background(), d)
	err := c.q.Enqueue(ctx, extra)
	cancel()
	if err == nil {
		stFail("capacity", "%s", c.tag(fmt.Sprintf("C09: enqueue number maxSize+1 succeeded (Len()=%d)", c.q.Len())))
	}
	if !errors.Is(err, context.DeadlineExceeded) {
		stFail("phantom", "%s", c.tag(fmt.Sprintf("C09: Enqueue on the full queue with a timeout context returned %v", err)))
	}
	if n, sl := c.q.Len(), c.q.AsSlice(); n != m || len(sl) != m {
		kind := "ctx-effect"
		if n < m {
			kind = "lost"
		}
		stFail(kind, "%s", c.tag(fmt.Sprintf("C09: Len()=%d AsSlice()=%v after maxSize successful Enqueues and one timed-out Enqueue", n, stShort(sl))))
	}
	c.sameSeq(c.drain(m, "C09 drain"), vals, "C09 drain")
	c.expectLen(0, "ctx-effect", "negative", "C3 end")
}

// C4: the enabling event races with the cancellation.
func (c *stC) c4(r *rand.Rand) {
	m := c.m
	k := 1 + r.Intn(4)
	deqMode := m <= 0 || r.Intn(2) == 0
	var fillVals []int
	if !deqMode {
		fillVals = c.fill(m, "C4 fill")
	}
	var succ atomic.Int32
	ws := make([]*stWaiter, k)
	for i := range ws {
		ctx, cancel := context.WithCancel(context.Background())
		w := &stWaiter{cancel: cancel, plan: r.Intn(2) == 0}
		if deqMode {
			w.ch = c.startDeq(ctx, &succ)
		} else {
			w.val = c.fresh()
			w.ch = c.startEnq(ctx, w.val, &succ)
		}
		ws[i] = w
	}
	stTinyWait(r)

	// events, concurrently
	type ev struct {
		v   int
		err error
	}
	evs := make([]*ev, k)
	var wg sync.WaitGroup
	e := 0
	for i, w := range ws {
		w := w
		er := rand.New(rand.NewSource(r.Int63()))
		if w.plan {
			wg.Add(1)
			stGo(func() {
				defer wg.Done()
				stTinyWait(er)
				w.cancel()
			})
			continue
		}
		e++
		x := &ev{}
		evs[i] = x
		if deqMode {
			x.v = c.fresh()
		}
		wg.Add(1)
		stGo(func() {
			defer wg.Done()
			stTinyWait(er)
			if deqMode {
				x.err = c.enqD(x.v)
			} else {
				x.v, x.err = c.deqD()
			}
		})
	}
	evDone := make(chan struct{})
	go func() { wg.Wait(); close(evDone) }()
	if !stWaitCh(evDone, 2*stWaitTicks) {
		stFail("hang", "%s", c.tag("C4: the cancel / enabling-event goroutines did not finish within 4 s"))
	}
	var evVals []int // values enqueued (deqMode) or dequeued (enqMode) by the enabling events
	for _, x := range evs {
		if x == nil {
			continue
		}
		if x.err != nil {
			if !stIsCtx(x.err) {
				stFail("phantom", "%s", c.tag(fmt.Sprintf("C4: enabling operation returned %v", x.err)))
			}
			if deqMode {
				stFail("hang", "%s", c.tag(fmt.Sprintf("C4: an enabling Enqueue blocked for 2 s although Dequeues with live contexts are parked (Len()=%d, %d of %d enabled Dequeues succeeded)", c.q.Len(), succ.Load(), e)))
			}
			stFail("hang", "%s", c.tag(fmt.Sprintf("C4: an enabling Dequeue blocked for 2 s although the queue was full and Enqueues with live contexts are parked (Len()=%d)", c.q.Len())))
		}
		evVals = append(evVals, x.v)
	}
	// cancelled waiters must return
	for _, w := range ws {
		if w.plan {
			res := c.await(w.ch, "C4: a cancelled waiter did not return within 2 s")
			w.res = &res
		}
	}
	// liveness of the others: no waiter with a live context stays parked while its condition holds
	pending := func() int {
		n := 0
		for _, w := range ws {
			if w.res == nil {
				select {
				case res := <-w.ch:
					w.res = &res
				default:
					n++
				}
			}
		}
		return n
	}
	if !stWaitUntil(func() bool { return int(succ.Load()) >= e || pending() == 0 }) {
		if deqMode {
			stFail("hang", "%s", c.tag(fmt.Sprintf("C4: %d value(s) enqueued, only %d Dequeue(s) succeeded, Len()=%d, but %d Dequeue(s) with live contexts stay parked", e, succ.Load(), c.q.Len(), pending())))
		}
		stFail("hang", "%s", c.tag(fmt.Sprintf("C4: %d Dequeue(s) from the full queue, only %d Enqueue(s) succeeded, Len()=%d, but %d Enqueue(s) with live contexts stay parked", e, succ.Load(), c.q.Len(), pending())))
	}
	for _, w := range ws {
		w.cancel()
	}
	for _, w := range ws {
		if w.res == nil {
			res := c.await(w.ch, "C4: a waiter did not return within 2 s after its cancellation")
			w.res = &res
		}
	}
	// accounting
	var okVals, failedVals []int
	for _, w := range ws {
		switch {
		case w.res.err == nil:
			okVals = append(okVals, w.res.v)
		case !stIsCtx(w.res.err):
			stFail("phantom", "%s", c.tag(fmt.Sprintf("C4: waiter returned %v", w.res.err)))
		case deqMode && w.res.v != 0:
			stFail("ctx-effect", "%s", c.tag(fmt.Sprintf("C4: Dequeue returned %v together with the value %d", w.res.err, w.res.v)))
		default:
			failedVals = append(failedVals, w.val)
		}
	}
	rest := c.q.AsSlice()
	if n := c.q.Len(); n != len(rest) {
		stFail("lost", "%s", c.tag(fmt.Sprintf("C4: quiescent Len()=%d but len(AsSlice())=%d", n, len(rest))))
	}
	if m > 0 && len(rest) > m {
		stFail("capacity", "%s", c.tag(fmt.Sprintf("C4: quiescent len(AsSlice())=%d > maxSize", len(rest))))
	}
	if deqMode {
		// enqueued = evVals; dequeued = okVals
		c.exactly(append(append([]int{}, okVals...), rest...), evVals, "C4 (Dequeue waiters): dequeued + queued vs enqueued")
	} else {
		for _, v := range failedVals {
			for _, x := range append(append([]int{}, rest...), evVals...) {
				if x == v {
					stFail("ctx-effect", "%s", c.tag(fmt.Sprintf("C4: Enqueue(%d) returned a context error but the value is in the queue / was dequeued", v)))
				}
			}
		}
		c.exactly(append(append([]int{}, evVals...), rest...), append(append([]int{}, fillVals...), okVals...), "C4 (Enqueue waiters): dequeued + queued vs enqueued")
	}
	got := c.drain(len(rest), "C4 final drain")
	c.sameSeq(got, rest, "C4 final drain vs AsSlice()")
	c.expectLen(0, "duplicate", "negative", "C4 end")
}
