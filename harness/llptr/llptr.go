// Package llptr replays the LinkedList histories of the C04 correspondence check on the real
// list.LinkedList and prints, after EVERY operation, the node ring as the white-box walker
// (hooks/list/x_llptr_verif.go) sees it.  The extracted pointer-level model
// (coq/theories/model/LinkedPtrModel.v, `modelrun llptr`) prints the same text.
//
//	input : <impl> <cap0> <op>;<op>;...    the case format of harness c04 (`~` prefixes and `@cap`
//	        suffixes are ignored: the walker is read-only, so every op is observed);
//	        impl = linked | conc-linked, any other implementation prints "skip"
//	output: <res>|<length field>|<fwd>|<bwd>|<fvals>|<bvals>;...   one line per history; stops after a panic
package llptr

import (
	"bufio"
	"errors"
	"fmt"
	"os"
	"strconv"
	"strings"

	"github.com/ecodeclub/ekit/list"
	"verifharness/reg"
)

func init() { reg.Register("llptr", Main) }

var errStop = errors.New("stop")

func showInts(l []int) string {
	if len(l) == 0 {
		return "-"
	}
	var sb strings.Builder
	for i, v := range l {
		if i > 0 {
			sb.WriteByte(',')
		}
		sb.WriteString(strconv.Itoa(v))
	}
	return sb.String()
}

func b01(b bool) string {
	if b {
		return "1"
	}
	return "0"
}

func atoi(s string) int {
	v, err := strconv.Atoi(s)
	if err != nil {
		panic(err)
	}
	return v
}

func errClass(err error) string {
	if strings.Contains(err.Error(), "下标超出范围") {
		return "e:index"
	}
	return "e:other"
}

func vals(p []string) []int {
	var xs []int
	if len(p) > 1 && p[1] != "" {
		for _, s := range strings.Split(p[1], ",") {
			xs = append(xs, atoi(s))
		}
	}
	return xs
}

func doOp(l list.List[int], op string) (res string) {
	defer func() {
		if r := recover(); r != nil {
			res = "panic"
		}
	}()
	p := strings.Split(op, ":")
	switch p[0] {
	case "g":
		v, err := l.Get(atoi(p[1]))
		if err != nil {
			return errClass(err)
		}
		return "v:" + strconv.Itoa(v)
	case "a", "b", "n":
		if err := l.Append(vals(p)...); err != nil {
			return errClass(err)
		}
		return "ok"
	case "i":
		if err := l.Add(atoi(p[1]), atoi(p[2])); err != nil {
			return errClass(err)
		}
		return "ok"
	case "s":
		if err := l.Set(atoi(p[1]), atoi(p[2])); err != nil {
			return errClass(err)
		}
		return "ok"
	case "d":
		v, err := l.Delete(atoi(p[1]))
		if err != nil {
			return errClass(err)
		}
		return "v:" + strconv.Itoa(v)
	case "l":
		return "len:" + strconv.Itoa(l.Len())
	case "c":
		_ = l.Cap()
		return "cap"
	case "r":
		stop := atoi(p[1])
		var tr []int
		err := l.Range(func(i int, v int) error {
			tr = append(tr, i, v)
			if i == stop {
				return errStop
			}
			return nil
		})
		if err != nil && err != errStop {
			return errClass(err)
		}
		return "r:" + b01(err != nil) + ":" + showInts(tr)
	case "v":
		s := l.AsSlice()
		out := "s:" + b01(s == nil) + ":" + showInts(s)
		for i := range s { // a client overwrites the slice it got: the ring must not notice
			s[i] = -1000000 - i
		}
		return out
	}
	panic("op " + op)
}

func dump(ll *list.LinkedList[int]) (s string) {
	defer func() {
		if r := recover(); r != nil {
			s = "walkpanic"
		}
	}()
	d := ll.VerifDump()
	return strconv.Itoa(d.Length) + "|" + showInts(d.Fwd) + "|" + showInts(d.Bwd) + "|" + showInts(d.FVals) + "|" + showInts(d.BVals)
}

func runHistory(impl string, ops []string) string {
	conc := strings.HasPrefix(impl, "conc-")
	if impl != "linked" && impl != "conc-linked" {
		return "skip"
	}
	ll := list.NewLinkedList[int]()
	var sb strings.Builder
	for k, op := range ops {
		if at := strings.IndexByte(op, '@'); at >= 0 {
			op = op[:at]
		}
		op = strings.TrimPrefix(op, "~")
		if k > 0 {
			sb.WriteByte(';')
		}
		var res string
		if k == 0 && strings.HasPrefix(op, "n:") {
			res = func() (r string) {
				defer func() {
					if e := recover(); e != nil {
						r = "panic"
					}
				}()
				ll = list.NewLinkedListOf[int](vals(strings.Split(op, ":")))
				return "ok"
			}()
		} else {
			var l list.List[int] = ll
			if conc {
				l = &list.ConcurrentList[int]{List: ll}
			}
			res = doOp(l, op)
		}
		if res == "panic" {
			sb.WriteString("panic")
			break
		}
		sb.WriteString(res + "|" + dump(ll))
	}
	return sb.String()
}

// Main reads histories on stdin and prints one line per history.
func Main(args []string) {
	in := bufio.NewReaderSize(os.Stdin, 1<<20)
	w := bufio.NewWriterSize(os.Stdout, 1<<20)
	defer w.Flush()
	for {
		line, err := in.ReadString('\n')
		line = strings.TrimRight(line, "\n")
		if line != "" {
			f := strings.Fields(line)
			if len(f) < 2 {
				fmt.Fprintln(w, "badcase")
			} else {
				var ops []string
				if len(f) > 2 {
					for _, o := range strings.Split(f[2], ";") {
						if o != "" {
							ops = append(ops, o)
						}
					}
				}
				fmt.Fprintln(w, runHistory(f[0], ops))
			}
		}
		if err != nil {
			return
		}
	}
}
