// Package reg is the registry of harness sub-commands (one per property / model).
package reg

var Cmds = map[string]func(args []string){}

func Register(name string, f func(args []string)) { Cmds[name] = f }
