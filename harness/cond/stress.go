package cond

import (
	"context"
	"errors"
	"fmt"
	"math/rand"
	"runtime"
	"strconv"
	"sync"
	"sync/atomic"
	"time"

	"github.com/ecodeclub/ekit/syncx"
	"github.com/ecodeclub/ekit/verifhook"
	"verifharness/reg"
)

func init() { reg.Register("c13-cond-stress", stressMain) }

// stressMain is the SEARCH oracle for property C13 (not a proof): chaos-mode rounds on ONE Cond (so that
// wait-nodes are recycled from round to round) with monitors that evaluate the property on the real code.
//
//	c13-cond-stress <seed> <rounds> <maxWaiters>
//
// One round: W waiters with a context that is never cancelled and C waiters whose contexts are cancelled at
// random moments all enqueue (each takes L, announces itself, calls Wait: Wait enqueues before it releases
// L, so once the main goroutine sees all announcements under L every waiter is in the list).  Then s <= W
// Signals race with the cancellations.  Monitors:
//
//	lost-signal      fewer than s nil returns after the grace period (s <= W: enough non-cancelled waiters remain)
//	invented-wakeup  more than s nil returns before the Broadcast (also catches a stale token in a recycled node)
//	cancelled-stuck  a cancelled waiter has not returned after the grace period
//	wrong-error      an error return that is not the context's error
//	no-lock          Wait returned while L was not held by the returning goroutine
//	counter          the L-protected plain counter (read, yield, write right after Wait returns) lost an update
//	broadcast        waiters that were in the list when Broadcast was called are still parked afterwards
//
// Prints "ok ..." or "VIOLATION kind=<kind> ...".
func stressMain(args []string) {
	seed, _ := strconv.ParseInt(args[0], 10, 64)
	if len(args) > 1 {
		switch args[1] {
		case "bcast-expiry":
			bcastExpiry(seed, atoiOr(args, 2, 30), atoiOr(args, 3, 32), atoiOr(args, 4, 200))
			return
		case "first-use":
			firstUse(seed, atoiOr(args, 2, 300))
			return
		case "positions":
			positions(seed, atoiOr(args, 2, 1))
			return
		}
	}
	rounds, _ := strconv.Atoi(args[1])
	maxW, _ := strconv.Atoi(args[2])
	if maxW < 2 {
		maxW = 2
	}
	rng := rand.New(rand.NewSource(seed))
	verifhook.SetMode(verifhook.Chaos)
	l := &ownedMutex{}
	c := syncx.NewCond(l)
	grace := 4 * time.Second
	var totNil, totErr, totSig, totBcastReleased int
	counter := 0 // plain; protected by l
	returns := 0 // atomic mirror of the number of returns (to compare with counter)
	var returnsA atomic.Int64
	for r := 0; r < rounds; r++ {
		w := 1 + rng.Intn(maxW)
		cn := rng.Intn(maxW + 1)
		s := rng.Intn(w + 1)
		n := w + cn
		started := 0 // protected by l
		type res struct {
			id        int
			cancelled bool
			err       error
			nolock    bool
		}
		results := make(chan res, n)
		cancels := make([]context.CancelFunc, 0, cn)
		var nilCnt, errCnt, cancelledReturned atomic.Int64
		done := make([]atomic.Bool, n)
		var wg sync.WaitGroup
		for i := 0; i < n; i++ {
			ctx := context.Background()
			cancelled := i >= w
			if cancelled {
				var cf context.CancelFunc
				ctx, cf = context.WithCancel(ctx)
				cancels = append(cancels, cf)
			}
			wg.Add(1)
			go func(i int, ctx context.Context, cancelled bool) {
				defer wg.Done()
				l.Lock()
				started++
				err := c.Wait(ctx)
				nolock := l.owner.Load() != goid()
				if !nolock {
					v := counter
					runtime.Gosched()
					counter = v + 1
				}
				returnsA.Add(1)
				if err == nil {
					nilCnt.Add(1)
				} else {
					errCnt.Add(1)
				}
				if cancelled {
					cancelledReturned.Add(1)
				}
				done[i].Store(true)
				if !nolock {
					l.Unlock()
				}
				results <- res{i, cancelled, err, nolock}
			}(i, ctx, cancelled)
		}
		// all waiters are in the list once their announcements are visible under L
		dl := time.Now().Add(grace)
		for {
			l.Lock()
			ok := started == n
			l.Unlock()
			if ok {
				break
			}
			if time.Now().After(dl) {
				fmt.Printf("VIOLATION kind=enqueue-hang round=%d waiters=%d started<%d\n", r, n, n)
				dump()
				return
			}
			runtime.Gosched()
		}
		// s signals race with the cancellations
		var act sync.WaitGroup
		for _, cf := range cancels {
			act.Add(1)
			d := time.Duration(rng.Intn(150)) * time.Microsecond
			go func(cf context.CancelFunc, d time.Duration) {
				defer act.Done()
				time.Sleep(d)
				cf()
			}(cf, d)
		}
		for i := 0; i < s; i++ {
			act.Add(1)
			d := time.Duration(rng.Intn(150)) * time.Microsecond
			withL := rng.Intn(2) == 0
			go func(d time.Duration, withL bool) {
				defer act.Done()
				time.Sleep(d)
				if withL {
					l.Lock()
					c.Signal()
					l.Unlock()
				} else {
					c.Signal()
				}
			}(d, withL)
		}
		act.Wait()
		totSig += s
		// grace period: every cancelled waiter returns, and exactly s waiters return nil
		dl = time.Now().Add(grace)
		for (cancelledReturned.Load() < int64(cn) || nilCnt.Load() < int64(s)) && time.Now().Before(dl) {
			time.Sleep(200 * time.Microsecond)
		}
		time.Sleep(300 * time.Microsecond) // room for an invented wake-up to show
		if nilCnt.Load() < int64(s) {
			fmt.Printf("VIOLATION kind=lost-signal round=%d persistent=%d cancellable=%d signals=%d nil-returns=%d err-returns=%d parked=%s\n",
				r, w, cn, s, nilCnt.Load(), errCnt.Load(), parked(done[:]))
			dump()
			return
		}
		if nilCnt.Load() > int64(s) {
			fmt.Printf("VIOLATION kind=invented-wakeup round=%d persistent=%d cancellable=%d signals=%d nil-returns=%d\n",
				r, w, cn, s, nilCnt.Load())
			return
		}
		if cancelledReturned.Load() < int64(cn) {
			fmt.Printf("VIOLATION kind=cancelled-stuck round=%d cancellable=%d returned=%d parked=%s\n", r, cn, cancelledReturned.Load(), parked(done[:]))
			dump()
			return
		}
		before := int(returnsA.Load()) - returns
		remaining := n - before
		// Broadcast releases every waiter still in the list
		c.Broadcast()
		fin := make(chan struct{})
		go func() { wg.Wait(); close(fin) }()
		select {
		case <-fin:
		case <-time.After(grace):
			fmt.Printf("VIOLATION kind=broadcast round=%d waiters-present=%d still-parked=%s\n", r, remaining, parked(done[:]))
			dump()
			return
		}
		totBcastReleased += remaining
		close(results)
		for x := range results {
			if x.nolock {
				fmt.Printf("VIOLATION kind=no-lock round=%d waiter=%d: Wait returned (%v) without L held by the returning goroutine\n", r, x.id, x.err)
				return
			}
			if x.err != nil && (!x.cancelled || !errors.Is(x.err, context.Canceled)) {
				fmt.Printf("VIOLATION kind=wrong-error round=%d waiter=%d cancelled=%v err=%v\n", r, x.id, x.cancelled, x.err)
				return
			}
		}
		returns += n
		totNil += int(nilCnt.Load())
		totErr += int(errCnt.Load())
		l.Lock()
		cv := counter
		l.Unlock()
		if cv != returns {
			fmt.Printf("VIOLATION kind=counter round=%d L-protected plain counter=%d after %d returns of Wait\n", r, cv, returns)
			return
		}
	}
	verifhook.SetMode(verifhook.Off)
	fmt.Printf("ok rounds=%d signals=%d nil=%d err=%d released-by-broadcast=%d counter=%d\n", rounds, totSig, totNil, totErr, totBcastReleased, counter)
}

func parked(done []atomic.Bool) string {
	s := "["
	for i := range done {
		if !done[i].Load() {
			s += strconv.Itoa(i) + " "
		}
	}
	return s + "]"
}

func dump() {
	buf := make([]byte, 1<<16)
	n := runtime.Stack(buf, true)
	if n > 6000 {
		n = 6000
	}
	fmt.Printf("goroutines:\n%s\n", buf[:n])
}

func atoiOr(args []string, i, def int) int {
	if i < len(args) {
		if v, err := strconv.Atoi(args[i]); err == nil {
			return v
		}
	}
	return def
}

const bound = 8 * time.Second // generous: only elapses on a genuine hang

// bcastExpiry — directed scenario "broadcast-racing-expiry":
//
//	c13-cond-stress <seed> bcast-expiry <rounds> <waiters> <probes>
//
// One Cond for all rounds. Per round: <waiters> goroutines share ONE cancellable context and all enqueue; then
// cancel() and Broadcast() are fired together. Every waiter must return (nil or the context's error). Afterwards
// NOBODY signals any more, and <probes> probe waiters with a ~2 ms timeout (they recycle the pooled wait-nodes)
// must ALL return their context's error: a nil return is a wake-up nobody issued (kind=invented-wakeup), e.g. a
// token that was sent into the channel of a node whose owner had already given up and recycled it.
// No tight timing: the only time bounds are for hangs (seconds).
func bcastExpiry(seed int64, rounds, waiters, probes int) {
	rng := rand.New(rand.NewSource(seed))
	verifhook.SetMode(verifhook.Chaos)
	l := &ownedMutex{}
	c := syncx.NewCond(l)
	var totNil, totErr, totProbes int
	for r := 0; r < rounds; r++ {
		ctx, cancel := context.WithCancel(context.Background())
		started := 0
		var nilCnt, errCnt atomic.Int64
		var wg sync.WaitGroup
		for i := 0; i < waiters; i++ {
			wg.Add(1)
			go func() {
				defer wg.Done()
				l.Lock()
				started++
				err := c.Wait(ctx)
				if err == nil {
					nilCnt.Add(1)
				} else {
					errCnt.Add(1)
				}
				l.Unlock()
			}()
		}
		dl := time.Now().Add(bound)
		for {
			l.Lock()
			ok := started == waiters
			l.Unlock()
			if ok {
				break
			}
			if time.Now().After(dl) {
				fmt.Printf("VIOLATION kind=enqueue-hang scenario=bcast-expiry round=%d\n", r)
				dump()
				return
			}
			runtime.Gosched()
		}
		// cancel() and Broadcast() together (random order of release, random tiny skew)
		start := make(chan struct{})
		var act sync.WaitGroup
		skew := time.Duration(rng.Intn(40)) * time.Microsecond
		first := rng.Intn(2)
		act.Add(2)
		go func() {
			defer act.Done()
			<-start
			if first == 0 {
				time.Sleep(skew)
			}
			cancel()
		}()
		go func() {
			defer act.Done()
			<-start
			if first == 1 {
				time.Sleep(skew)
			}
			c.Broadcast()
		}()
		close(start)
		act.Wait()
		fin := make(chan struct{})
		go func() { wg.Wait(); close(fin) }()
		select {
		case <-fin:
		case <-time.After(bound):
			fmt.Printf("VIOLATION kind=broadcast scenario=bcast-expiry round=%d waiters=%d returned=%d: waiters still parked after cancel()+Broadcast()\n",
				r, waiters, nilCnt.Load()+errCnt.Load())
			dump()
			return
		}
		totNil += int(nilCnt.Load())
		totErr += int(errCnt.Load())
		// no signal is issued from here on: every probe must time out
		var invented atomic.Int64
		var firstBad atomic.Int64
		firstBad.Store(-1)
		const batch = 16
		for done := 0; done < probes; done += batch {
			var pw sync.WaitGroup
			for j := 0; j < batch && done+j < probes; j++ {
				pw.Add(1)
				go func(id int) {
					defer pw.Done()
					pctx, pcancel := context.WithTimeout(context.Background(), 2*time.Millisecond)
					defer pcancel()
					l.Lock()
					err := c.Wait(pctx)
					l.Unlock()
					if err == nil {
						invented.Add(1)
						firstBad.CompareAndSwap(-1, int64(id))
					}
				}(done + j)
			}
			pfin := make(chan struct{})
			go func() { pw.Wait(); close(pfin) }()
			select {
			case <-pfin:
			case <-time.After(bound):
				fmt.Printf("VIOLATION kind=cancelled-stuck scenario=bcast-expiry round=%d: probe waiters with a 2 ms timeout have not returned after %v\n", r, bound)
				dump()
				return
			}
		}
		totProbes += probes
		if invented.Load() > 0 {
			fmt.Printf("VIOLATION kind=invented-wakeup scenario=bcast-expiry round=%d waiters=%d (nil=%d err=%d after cancel()+Broadcast()) probes=%d: %d probe Wait(s) returned nil although no Signal/Broadcast was issued after the round's Broadcast returned (first probe %d)\n",
				r, waiters, nilCnt.Load(), errCnt.Load(), probes, invented.Load(), firstBad.Load())
			return
		}
	}
	verifhook.SetMode(verifhook.Off)
	fmt.Printf("ok scenario=bcast-expiry rounds=%d waiters=%d nil=%d err=%d probes=%d all-timed-out\n", rounds, waiters, totNil, totErr, totProbes)
}

// firstUse — directed scenario "concurrent-first-use":
//
//	c13-cond-stress <seed> first-use <rounds>
//
// Per round a FRESH `syncx.Cond{L: &mu}` literal (not NewCond): a waiter and an unlocked Signal start together
// (both perform the lazy initialisation). Then the main goroutine takes and releases mu until the waiter has
// announced itself (it announces under mu just before Wait; Wait enqueues before it releases mu), so the waiter
// is in the list — unless the first Signal already woke it. A second Signal must wake it within a bound of
// seconds; otherwise kind=lost-signal (the waiter sits in a list nobody signals).
func firstUse(seed int64, rounds int) {
	rng := rand.New(rand.NewSource(seed))
	verifhook.SetMode(verifhook.Chaos)
	early := 0
	for r := 0; r < rounds; r++ {
		mu := &ownedMutex{}
		c := &syncx.Cond{L: mu}
		started := false
		ret := make(chan error, 1)
		start := make(chan struct{})
		sigDone := make(chan struct{})
		skew := time.Duration(rng.Intn(30)) * time.Microsecond
		first := rng.Intn(2)
		go func() {
			<-start
			if first == 0 {
				time.Sleep(skew)
			}
			mu.Lock()
			started = true
			err := c.Wait(context.Background())
			mu.Unlock()
			ret <- err
		}()
		go func() {
			<-start
			if first == 1 {
				time.Sleep(skew)
			}
			c.Signal()
			close(sigDone)
		}()
		close(start)
		select {
		case <-sigDone:
		case <-time.After(bound):
			fmt.Printf("VIOLATION kind=signal-hang scenario=first-use round=%d: the first Signal did not return\n", r)
			dump()
			return
		}
		dl := time.Now().Add(bound)
		for {
			mu.Lock()
			ok := started
			mu.Unlock()
			if ok {
				break
			}
			if time.Now().After(dl) {
				fmt.Printf("VIOLATION kind=enqueue-hang scenario=first-use round=%d\n", r)
				dump()
				return
			}
			runtime.Gosched()
		}
		// the waiter is in the list now (or was already woken by the first Signal)
		woken := false
		select {
		case err := <-ret:
			if err != nil {
				fmt.Printf("VIOLATION kind=wrong-error scenario=first-use round=%d err=%v\n", r, err)
				return
			}
			woken = true
			early++
		default:
		}
		if !woken {
			c.Signal()
			select {
			case err := <-ret:
				if err != nil {
					fmt.Printf("VIOLATION kind=wrong-error scenario=first-use round=%d err=%v\n", r, err)
					return
				}
			case <-time.After(bound):
				fmt.Printf("VIOLATION kind=lost-signal scenario=first-use round=%d: fresh syncx.Cond{L: &mu} literal, first use = Wait concurrent with an unlocked Signal; the waiter is parked (it released mu inside Wait) and a second Signal did not wake it within %v\n", r, bound)
				dump()
				return
			}
		}
	}
	verifhook.SetMode(verifhook.Off)
	fmt.Printf("ok scenario=first-use rounds=%d woken-by-first-signal=%d\n", rounds, early)
}

// positions — directed scenario "give-up positions":
//
//	c13-cond-stress <seed> positions <repeats>
//
// For k in {1,2,3,4} persistent waiters parked in a KNOWN order (each is started only after the previous one is in
// the list), every position p (first, middle, last) — and the combination "last, then the new last" — is cancelled
// while the others stay parked; then n in {1,2} new waiters arrive; then either (a) one Broadcast: every waiter
// still present (old and new) must return nil, or (b) exactly m Signals for the m present waiters: all m must
// return nil — and a probe waiter with a short timeout afterwards must time out (no token left over).
// Only hang bounds of seconds. Reports kind=broadcast / kind=lost-signal / kind=invented-wakeup with the pattern.
func positions(seed int64, repeats int) {
	verifhook.SetMode(verifhook.Chaos)
	cases := 0
	for rep := 0; rep < repeats; rep++ {
		for k := 1; k <= 4; k++ {
			var patterns [][]int
			for p := 0; p < k; p++ {
				patterns = append(patterns, []int{p})
			}
			if k >= 3 {
				patterns = append(patterns, []int{k - 1, k - 2}) // the last, then the new last
			}
			for _, pat := range patterns {
				for n := 1; n <= 2; n++ {
					for mode := 0; mode < 2; mode++ {
						cases++
						if msg := positionsCase(k, pat, n, mode == 0); msg != "" {
							fmt.Println(msg)
							dump()
							return
						}
					}
				}
			}
		}
	}
	verifhook.SetMode(verifhook.Off)
	fmt.Printf("ok scenario=positions cases=%d\n", cases)
}

type posWaiter struct {
	name   string
	cancel context.CancelFunc
	ret    chan error
}

func positionsCase(k int, cancelPat []int, n int, broadcast bool) string {
	l := &ownedMutex{}
	c := syncx.NewCond(l)
	started := 0 // protected by l
	modeName := "signals"
	if broadcast {
		modeName = "broadcast"
	}
	pattern := fmt.Sprintf("waiters=%d cancelled-positions=%v new-waiters=%d then=%s", k, cancelPat, n, modeName)
	// park one waiter and return once it is in the list
	park := func(name string) (*posWaiter, string) {
		ctx, cancel := context.WithCancel(context.Background())
		w := &posWaiter{name: name, cancel: cancel, ret: make(chan error, 1)}
		l.Lock()
		want := started + 1
		l.Unlock()
		go func() {
			l.Lock()
			started++
			err := c.Wait(ctx)
			l.Unlock()
			w.ret <- err
		}()
		dl := time.Now().Add(bound)
		for {
			l.Lock()
			ok := started >= want
			l.Unlock()
			if ok {
				return w, ""
			}
			if time.Now().After(dl) {
				return nil, fmt.Sprintf("VIOLATION kind=enqueue-hang scenario=positions %s: waiter %s did not enqueue", pattern, name)
			}
			runtime.Gosched()
		}
	}
	var present []*posWaiter
	for i := 0; i < k; i++ {
		w, msg := park(fmt.Sprintf("old%d", i))
		if msg != "" {
			return msg
		}
		present = append(present, w)
	}
	for _, p := range cancelPat {
		w := present[p]
		w.cancel()
		select {
		case err := <-w.ret:
			if !errors.Is(err, context.Canceled) {
				return fmt.Sprintf("VIOLATION kind=invented-wakeup scenario=positions %s: cancelled waiter %s returned %v although nobody signalled", pattern, w.name, err)
			}
		case <-time.After(bound):
			return fmt.Sprintf("VIOLATION kind=cancelled-stuck scenario=positions %s: cancelled waiter %s did not return", pattern, w.name)
		}
		present = append(present[:p:p], present[p+1:]...)
	}
	for i := 0; i < n; i++ {
		w, msg := park(fmt.Sprintf("new%d", i))
		if msg != "" {
			return msg
		}
		present = append(present, w)
	}
	m := len(present)
	kind := "lost-signal"
	if broadcast {
		kind = "broadcast"
		c.Broadcast()
	} else {
		for i := 0; i < m; i++ {
			c.Signal()
		}
	}
	deadline := time.After(bound)
	var parked []string
	for _, w := range present {
		select {
		case err := <-w.ret:
			if err != nil {
				return fmt.Sprintf("VIOLATION kind=wrong-error scenario=positions %s: waiter %s returned %v", pattern, w.name, err)
			}
		case <-deadline:
			parked = append(parked, w.name)
			deadline = time.After(10 * time.Millisecond) // the bound has elapsed once: only collect the others
		}
	}
	if len(parked) > 0 {
		what := fmt.Sprintf("%d Signals for the %d waiters present", m, m)
		if broadcast {
			what = fmt.Sprintf("Broadcast with %d waiters present", m)
		}
		for _, w := range present {
			w.cancel()
		}
		return fmt.Sprintf("VIOLATION kind=%s scenario=positions %s: %s (queue order %s), still parked after %v: %v",
			kind, pattern, what, names(present), bound, parked)
	}
	// nothing may be left over: a probe must time out
	pctx, pcancel := context.WithTimeout(context.Background(), 2*time.Millisecond)
	defer pcancel()
	l.Lock()
	err := c.Wait(pctx)
	l.Unlock()
	if err == nil {
		return fmt.Sprintf("VIOLATION kind=invented-wakeup scenario=positions %s: a probe Wait after everything was consumed returned nil", pattern)
	}
	return ""
}

func names(ws []*posWaiter) string {
	s := "["
	for i, w := range ws {
		if i > 0 {
			s += " "
		}
		s += w.name
	}
	return s + "]"
}
