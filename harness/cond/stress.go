package cond

import (
	"context"
	"errors"
	"fmt"
	"math/rand"
	"runtime"
	"strconv"
	"sync"
	"sync/atomic"
	"time"

	"github.com/ecodeclub/ekit/syncx"
	"github.com/ecodeclub/ekit/verifhook"
	"verifharness/reg"
)

func init() { reg.Register("c13-cond-stress", stressMain) }

// stressMain is the SEARCH oracle for property C13 (not a proof): chaos-mode rounds on ONE Cond (so that
// wait-nodes are recycled from round to round) with monitors that evaluate the property on the real code.
//
//	c13-cond-stress <seed> <rounds> <maxWaiters>
//
// One round: W waiters with a context that is never cancelled and C waiters whose contexts are cancelled at
// random moments all enqueue (each takes L, announces itself, calls Wait: Wait enqueues before it releases
// L, so once the main goroutine sees all announcements under L every waiter is in the list).  Then s <= W
// Signals race with the cancellations.  Monitors:
//
//	lost-signal      fewer than s nil returns after the grace period (s <= W: enough non-cancelled waiters remain)
//	invented-wakeup  more than s nil returns before the Broadcast (also catches a stale token in a recycled node)
//	cancelled-stuck  a cancelled waiter has not returned after the grace period
//	wrong-error      an error return that is not the context's error
//	no-lock          Wait returned while L was not held by the returning goroutine
//	counter          the L-protected plain counter (read, yield, write right after Wait returns) lost an update
//	broadcast        waiters that were in the list when Broadcast was called are still parked afterwards
//
// Prints "ok ..." or "VIOLATION kind=<kind> ...".
func stressMain(args []string) {
	seed, _ := strconv.ParseInt(args[0], 10, 64)
	rounds, _ := strconv.Atoi(args[1])
	maxW, _ := strconv.Atoi(args[2])
	if maxW < 2 {
		maxW = 2
	}
	rng := rand.New(rand.NewSource(seed))
	verifhook.SetMode(verifhook.Chaos)
	l := &ownedMutex{}
	c := syncx.NewCond(l)
	grace := 4 * time.Second
	var totNil, totErr, totSig, totBcastReleased int
	counter := 0 // plain; protected by l
	returns := 0 // atomic mirror of the number of returns (to compare with counter)
	var returnsA atomic.Int64
	for r := 0; r < rounds; r++ {
		w := 1 + rng.Intn(maxW)
		cn := rng.Intn(maxW + 1)
		s := rng.Intn(w + 1)
		n := w + cn
		started := 0 // protected by l
		type res struct {
			id        int
			cancelled bool
			err       error
			nolock    bool
		}
		results := make(chan res, n)
		cancels := make([]context.CancelFunc, 0, cn)
		var nilCnt, errCnt, cancelledReturned atomic.Int64
		done := make([]atomic.Bool, n)
		var wg sync.WaitGroup
		for i := 0; i < n; i++ {
			ctx := context.Background()
			cancelled := i >= w
			if cancelled {
				var cf context.CancelFunc
				ctx, cf = context.WithCancel(ctx)
				cancels = append(cancels, cf)
			}
			wg.Add(1)
			go func(i int, ctx context.Context, cancelled bool) {
				defer wg.Done()
				l.Lock()
				started++
				err := c.Wait(ctx)
				nolock := l.owner.Load() != goid()
				if !nolock {
					v := counter
					runtime.Gosched()
					counter = v + 1
				}
				returnsA.Add(1)
				if err == nil {
					nilCnt.Add(1)
				} else {
					errCnt.Add(1)
				}
				if cancelled {
					cancelledReturned.Add(1)
				}
				done[i].Store(true)
				if !nolock {
					l.Unlock()
				}
				results <- res{i, cancelled, err, nolock}
			}(i, ctx, cancelled)
		}
		// all waiters are in the list once their announcements are visible under L
		dl := time.Now().Add(grace)
		for {
			l.Lock()
			ok := started == n
			l.Unlock()
			if ok {
				break
			}
			if time.Now().After(dl) {
				fmt.Printf("VIOLATION kind=enqueue-hang round=%d waiters=%d started<%d\n", r, n, n)
				dump()
				return
			}
			runtime.Gosched()
		}
		// s signals race with the cancellations
		var act sync.WaitGroup
		for _, cf := range cancels {
			act.Add(1)
			d := time.Duration(rng.Intn(150)) * time.Microsecond
			go func(cf context.CancelFunc, d time.Duration) {
				defer act.Done()
				time.Sleep(d)
				cf()
			}(cf, d)
		}
		for i := 0; i < s; i++ {
			act.Add(1)
			d := time.Duration(rng.Intn(150)) * time.Microsecond
			withL := rng.Intn(2) == 0
			go func(d time.Duration, withL bool) {
				defer act.Done()
				time.Sleep(d)
				if withL {
					l.Lock()
					c.Signal()
					l.Unlock()
				} else {
					c.Signal()
				}
			}(d, withL)
		}
		act.Wait()
		totSig += s
		// grace period: every cancelled waiter returns, and exactly s waiters return nil
		dl = time.Now().Add(grace)
		for (cancelledReturned.Load() < int64(cn) || nilCnt.Load() < int64(s)) && time.Now().Before(dl) {
			time.Sleep(200 * time.Microsecond)
		}
		time.Sleep(300 * time.Microsecond) // room for an invented wake-up to show
		if nilCnt.Load() < int64(s) {
			fmt.Printf("VIOLATION kind=lost-signal round=%d persistent=%d cancellable=%d signals=%d nil-returns=%d err-returns=%d parked=%s\n",
				r, w, cn, s, nilCnt.Load(), errCnt.Load(), parked(done[:]))
			dump()
			return
		}
		if nilCnt.Load() > int64(s) {
			fmt.Printf("VIOLATION kind=invented-wakeup round=%d persistent=%d cancellable=%d signals=%d nil-returns=%d\n",
				r, w, cn, s, nilCnt.Load())
			return
		}
		if cancelledReturned.Load() < int64(cn) {
			fmt.Printf("VIOLATION kind=cancelled-stuck round=%d cancellable=%d returned=%d parked=%s\n", r, cn, cancelledReturned.Load(), parked(done[:]))
			dump()
			return
		}
		before := int(returnsA.Load()) - returns
		remaining := n - before
		// Broadcast releases every waiter still in the list
		c.Broadcast()
		fin := make(chan struct{})
		go func() { wg.Wait(); close(fin) }()
		select {
		case <-fin:
		case <-time.After(grace):
			fmt.Printf("VIOLATION kind=broadcast round=%d waiters-present=%d still-parked=%s\n", r, remaining, parked(done[:]))
			dump()
			return
		}
		totBcastReleased += remaining
		close(results)
		for x := range results {
			if x.nolock {
				fmt.Printf("VIOLATION kind=no-lock round=%d waiter=%d: Wait returned (%v) without L held by the returning goroutine\n", r, x.id, x.err)
				return
			}
			if x.err != nil && (!x.cancelled || !errors.Is(x.err, context.Canceled)) {
				fmt.Printf("VIOLATION kind=wrong-error round=%d waiter=%d cancelled=%v err=%v\n", r, x.id, x.cancelled, x.err)
				return
			}
		}
		returns += n
		totNil += int(nilCnt.Load())
		totErr += int(errCnt.Load())
		l.Lock()
		cv := counter
		l.Unlock()
		if cv != returns {
			fmt.Printf("VIOLATION kind=counter round=%d L-protected plain counter=%d after %d returns of Wait\n", r, cv, returns)
			return
		}
	}
	verifhook.SetMode(verifhook.Off)
	fmt.Printf("ok rounds=%d signals=%d nil=%d err=%d released-by-broadcast=%d counter=%d\n", rounds, totSig, totNil, totErr, totBcastReleased, counter)
}

func parked(done []atomic.Bool) string {
	s := "["
	for i := range done {
		if !done[i].Load() {
			s += strconv.Itoa(i) + " "
		}
	}
	return s + "]"
}

func dump() {
	buf := make([]byte, 1<<16)
	n := runtime.Stack(buf, true)
	if n > 6000 {
		n = 6000
	}
	fmt.Printf("goroutines:\n%s\n", buf[:n])
}
