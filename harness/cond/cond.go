// Package cond: syncx.Cond under the lock-step controller (object "cond", property C13) and the
// chaos-mode stress/monitor command c13-cond-stress.
package cond

import (
	"context"
	"errors"
	"runtime"
	"strconv"
	"strings"
	"sync"
	"sync/atomic"

	"github.com/ecodeclub/ekit/syncx"
	"verifharness/lockstep"
)

func goid() uint64 {
	var buf [64]byte
	n := runtime.Stack(buf[:], false)
	s := strings.TrimPrefix(string(buf[:n]), "goroutine ")
	i := strings.IndexByte(s, ' ')
	id, _ := strconv.ParseUint(s[:i], 10, 64)
	return id
}

// ownedMutex is the user's lock c.L: a sync.Mutex that records which goroutine holds it, so that the
// harness can tell whether Wait returned with the lock held BY THE RETURNING goroutine.
type ownedMutex struct {
	mu    sync.Mutex
	owner atomic.Uint64
}

func (m *ownedMutex) Lock() {
	m.mu.Lock()
	m.owner.Store(goid())
}

func (m *ownedMutex) Unlock() {
	m.owner.Store(0)
	m.mu.Unlock()
}

func errClass(err error) string {
	switch {
	case err == nil:
		return "nil"
	case errors.Is(err, context.Canceled):
		return "err:canceled"
	case errors.Is(err, context.DeadlineExceeded):
		return "err:deadline"
	}
	return "err:other"
}

type inst struct {
	l       *ownedMutex
	c       *syncx.Cond
	counter int // plain, protected by l: touched right after Wait returns
	dead    atomic.Bool
}

// current is the instance of the running schedule. The controller cancels every context of the previous
// schedule at NEW; waiters of the OLD instance that were parked then run to completion unmanaged and
// would report a stale "ret" into the new schedule: a call of a dead instance never returns instead.
var current atomic.Pointer[inst]

func (x *inst) Call(ctx context.Context, tid int, op string, args []string) string {
	r := x.call(ctx, tid, op, args)
	if x.dead.Load() || current.Load() != x {
		select {}
	}
	return r
}

// Call: "wait" = L.Lock(); c.Wait(ctx) and returns STILL HOLDING L (the model releases it with "unlock",
// which may run in another goroutine: a sync.Mutex has no owner).
func (x *inst) call(ctx context.Context, tid int, op string, args []string) string {
	switch op {
	case "wait":
		x.l.Lock()
		err := x.c.Wait(ctx)
		r := errClass(err)
		if x.l.owner.Load() != goid() {
			return r + "!returned-without-holding-L"
		}
		x.counter++
		return r
	case "signal":
		x.c.Signal()
		return "unit"
	case "broadcast":
		x.c.Broadcast()
		return "unit"
	case "unlock":
		x.l.Unlock()
		return "unit"
	}
	return "badop"
}

func init() {
	lockstep.Register("cond", func(params []string) lockstep.Instance {
		// One P: sync.Pool then returns a pooled node exactly when one was Put and not taken since (per-P
		// private slot and shared list only; the driver predicts hit/miss from that). Lock-step executes one
		// goroutine at a time anyway.
		runtime.GOMAXPROCS(1)
		if old := current.Load(); old != nil {
			old.dead.Store(true)
		}
		l := &ownedMutex{}
		c := syncx.NewCond(l)
		if len(params) > 0 && params[0] == "1" {
			// the value under test is a copy of a Cond that was already used
			c.Signal()
			cp := *c //nolint:govet
			c = &cp
		}
		x := &inst{l: l, c: c}
		current.Store(x)
		return x
	})
}
