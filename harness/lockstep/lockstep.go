// Package lockstep is the Go side of the lock-step correspondence: the model process
// (modelrun <obj>-lockstep) sends events on stdin; the controller makes the REAL goroutines
// execute exactly that interleaving, statement by statement, through the yield points the
// instrumenter inserted, and reports where each goroutine arrives / what each call returns.
//
// protocol (one line each, "#n" = number of observations the model expects):
//
//	NEW <object> <params...>      fresh instance               -> DONE
//	CALL <tid> <op> <args...> #n  start call in goroutine tid  -> n x "OBS <tid> <at|ret|panic> <text>", DONE
//	STEP <tid> #n                 grant one statement
//	CANCEL <tid> #n               cancel the context of tid's current call
//	FIRE <tid> #n                 deliver the tick of tid's current timer
//	TICK <ns> #n                  advance the virtual clock
//	QUIT
package lockstep

import (
	"bufio"
	"context"
	"fmt"
	"os"
	"strconv"
	"strings"
	"time"

	"github.com/ecodeclub/ekit/verifhook"
	"verifharness/reg"
)

// Instance is one real object under test.
type Instance interface {
	// Call performs one public operation and returns its canonical result text.
	Call(ctx context.Context, tid int, op string, args []string) string
}

type Factory func(params []string) Instance

var factories = map[string]Factory{}

// AutoRegister lists objects whose code spawns goroutines itself (they register at their first hook).
var AutoRegister = map[string]int{}

func Register(name string, f Factory) { factories[name] = f }

func init() { reg.Register("lockstep", Main) }

func Main(args []string) {
	wait := 3 * time.Second
	if v := os.Getenv("LOCKSTEP_TIMEOUT_MS"); v != "" {
		if ms, err := strconv.Atoi(v); err == nil {
			wait = time.Duration(ms) * time.Millisecond
		}
	}
	verifhook.SetMode(verifhook.LockStep)
	in := bufio.NewScanner(os.Stdin)
	in.Buffer(make([]byte, 1<<20), 1<<24)
	out := bufio.NewWriter(os.Stdout)
	var inst Instance
	cancels := map[int]context.CancelFunc{}
	reply := func(n int) {
		for i := 0; i < n; i++ {
			o := verifhook.Next(wait)
			fmt.Fprintf(out, "OBS %d %s %s\n", o.Tid, o.Kind, o.Val)
			if o.Kind == "timeout" {
				break
			}
		}
		// anything that arrives although the model did not expect it
		for {
			o := verifhook.Next(0)
			if o.Kind == "timeout" {
				break
			}
			fmt.Fprintf(out, "OBS %d %s %s\n", o.Tid, o.Kind, o.Val)
		}
		fmt.Fprintln(out, "DONE")
		out.Flush()
	}
	for in.Scan() {
		line := in.Text()
		n := 0
		if i := strings.LastIndex(line, "#"); i >= 0 {
			n, _ = strconv.Atoi(strings.TrimSpace(line[i+1:]))
			line = strings.TrimSpace(line[:i])
		}
		f := strings.Fields(line)
		if len(f) == 0 {
			continue
		}
		switch f[0] {
		case "NEW":
			fac := factories[f[1]]
			if fac == nil {
				fmt.Fprintln(out, "ERR unknown object", f[1])
				fmt.Fprintln(out, "DONE")
				out.Flush()
				continue
			}
			first, auto := AutoRegister[f[1]]
			verifhook.Reset(auto, first)
			for _, c := range cancels {
				c()
			}
			cancels = map[int]context.CancelFunc{}
			inst = fac(f[2:])
			reply(0)
		case "CALL":
			tid, _ := strconv.Atoi(f[1])
			ctx, cancel := context.WithCancel(context.Background())
			cancels[tid] = cancel
			op, a := f[2], f[3:]
			cur := inst
			verifhook.Spawn(tid, func() string { return cur.Call(ctx, tid, op, a) })
			reply(n)
		case "STEP":
			tid, _ := strconv.Atoi(f[1])
			if !verifhook.Grant(tid, wait) {
				fmt.Fprintf(out, "OBS %d notwaiting -\n", tid)
			}
			reply(n)
		case "CANCEL":
			tid, _ := strconv.Atoi(f[1])
			if c := cancels[tid]; c != nil {
				c()
			}
			reply(n)
		case "FIRE":
			tid, _ := strconv.Atoi(f[1])
			if !verifhook.Fire(tid, n == 0) {
				fmt.Fprintf(out, "OBS %d notimer -\n", tid)
			}
			reply(n)
		case "TICK":
			ns, _ := strconv.ParseInt(f[1], 10, 64)
			verifhook.Advance(time.Duration(ns))
			reply(n)
		case "QUIT":
			out.Flush()
			return
		default:
			fmt.Fprintln(out, "ERR bad command", f[0])
			fmt.Fprintln(out, "DONE")
			out.Flush()
		}
	}
}
