// Package c01 drives the tree-backed containers (tree.RBTree, mapx.TreeMap, set.TreeSet) with the
// histories of the C01 / C02 correspondence checks.
//
// stdin : one history per line:  <container> <comparator> <stride> <op> <op> ...
//
//	container  rb | tm | ts
//	comparator asc | desc | half | str     (str: keys are order-isomorphic strings, strings.Compare)
//	stride     the full state (keys, values, shape) is observed after every <stride>-th op and the last one;
//	           or "m:<bits>" (sparse observation): one bit per op, the full-state observers AND Size()/Len()
//	           are called only after the ops whose bit is 1 (nothing is called on the container in between,
//	           so a stale cache that every-step observation would keep fresh becomes visible)
//	op         rb: a,k,v (Add) d,k (Delete) f,k (Find) s,k,v (Set)
//	           tm: p,k,v (Put) g,k (Get)    d,k (Delete)
//	           ts: a,k   (Add) d,k (Delete) e,k (Exist)
//
// stdout: one line per history, one record per op joined by '|':
//
//	ret;len;keys;vals;shape;sizefield;parentflag;calls
//
//	ret        ok | err:dup | err:absent | err:other | val:<v> | absent | true | false | panic
//	len        Size() / Len()            ('-' for TreeSet)
//	keys,vals  KeyValues() / Keys(),Values() comma separated ('~' when not observed, '-' when there are none)
//	shape      white-box dump "(l k R|B r)", "." for nil  ('~' when not observed)
//	sizefield  the size field read through the hook
//	parentflag 1 when some parent pointer is inconsistent ('~' when not observed)
//	calls      comparator invocations made by the call (counted by the comparator handed to the container)
package c01

import (
	"bufio"
	"fmt"
	"io"
	"os"
	"runtime"
	"strconv"
	"strings"
	"sync/atomic"
	"time"

	"github.com/ecodeclub/ekit/mapx"
	"github.com/ecodeclub/ekit/set"
	"github.com/ecodeclub/ekit/tree"
	"verifharness/reg"
)

func init() { reg.Register("c01", Main) }

type keyKind[K any] struct {
	mk  func(int) K
	un  func(K) int
	cmp func(a, b K) int
}

// box adapts one container to the op alphabet.
type box[K any] struct {
	do     func(op string, k K, v int) string
	obs    func() (keys []K, vals []int, hasVals bool)
	length func() string
	dump   func() (string, int, bool)
	size   func() int
}

func sgn(x int) int {
	if x < 0 {
		return -1
	}
	if x > 0 {
		return 1
	}
	return 0
}

func floorHalf(a int) int { // Coq's Z division rounds towards minus infinity
	if a >= 0 {
		return a / 2
	}
	return -((-a + 1) / 2)
}

const strOff = 100000000

// opStart is the UnixNano time at which the call in progress started (0 = none); the watchdog ends the
// process when one call runs longer than 3 s or the heap passes 2 GiB (a corrupted tree can make a
// traversal loop forever).  Completed histories have been flushed; the one in progress prints nothing,
// so the check sees exactly which history hung (exit code 3) and resumes after it.
var opStart atomic.Int64

func watchdog() {
	var ms runtime.MemStats
	for {
		time.Sleep(20 * time.Millisecond)
		t := opStart.Load()
		runtime.ReadMemStats(&ms)
		if (t != 0 && time.Now().UnixNano()-t > int64(3*time.Second)) || ms.HeapAlloc > 2<<30 {
			os.Exit(3)
		}
	}
}

func Main(args []string) {
	rd := bufio.NewReaderSize(os.Stdin, 1<<20)
	w := bufio.NewWriterSize(os.Stdout, 1<<20)
	defer w.Flush()
	go watchdog()
	for {
		line, err := rd.ReadString('\n')
		if strings.TrimSpace(line) != "" {
			f := strings.Fields(line)
			if len(f) < 3 {
				fmt.Fprintln(w, "badcase")
			} else {
				stride := obsPlan{n: 1}
				if strings.HasPrefix(f[2], "m:") {
					stride = obsPlan{mask: f[2][2:], sparse: true}
				} else if n, _ := strconv.Atoi(f[2]); n > 1 {
					stride.n = n
				}
				switch f[1] {
				case "asc":
					run(w, f[0], keyKind[int]{func(i int) int { return i }, func(k int) int { return k },
						func(a, b int) int { return sgn(a - b) }}, stride, f[3:])
				case "desc":
					run(w, f[0], keyKind[int]{func(i int) int { return i }, func(k int) int { return k },
						func(a, b int) int { return sgn(b - a) }}, stride, f[3:])
				case "half":
					run(w, f[0], keyKind[int]{func(i int) int { return i }, func(k int) int { return k },
						func(a, b int) int { return sgn(floorHalf(a) - floorHalf(b)) }}, stride, f[3:])
				case "str":
					run(w, f[0], keyKind[string]{
						func(i int) string { return fmt.Sprintf("k%09d", i+strOff) },
						func(k string) int { n, _ := strconv.Atoi(k[1:]); return n - strOff },
						func(a, b string) int { return strings.Compare(a, b) }}, stride, f[3:])
				default:
					fmt.Fprintln(w, "badcase")
				}
			}
		}
		if err == io.EOF {
			break
		}
		if err != nil {
			panic(err)
		}
	}
}

func mkBox[K any](cont string, cmp func(a, b K) int, fk func(K) string) *box[K] {
	switch cont {
	case "rb":
		t, err := tree.NewRBTree[K, int](cmp)
		if err != nil {
			panic(err)
		}
		return &box[K]{
			do: func(op string, k K, v int) string {
				switch op {
				case "a":
					return tree.VerifErrClass(t.Add(k, v))
				case "d":
					return valOrAbsent(t.Delete(k))
				case "f":
					x, e := t.Find(k)
					if e != nil {
						if x != 0 {
							return tree.VerifErrClass(e) + "+nonzero"
						}
						return tree.VerifErrClass(e)
					}
					return "val:" + strconv.Itoa(x)
				case "s":
					return tree.VerifErrClass(t.Set(k, v))
				}
				return "badop"
			},
			obs: func() ([]K, []int, bool) {
				ks, vs := t.KeyValues()
				return ks, vs, true
			},
			length: func() string { return strconv.Itoa(t.Size()) },
			dump:   func() (string, int, bool) { return t.VerifDump(fk, nil) },
			size:   t.VerifSize,
		}
	case "tm":
		m, err := mapx.NewTreeMap[K, int](cmp)
		if err != nil {
			panic(err)
		}
		return &box[K]{
			do: func(op string, k K, v int) string {
				switch op {
				case "p":
					return mapx.VerifTreeErrClass(m.Put(k, v))
				case "g":
					return valOrAbsent(m.Get(k))
				case "d":
					return valOrAbsent(m.Delete(k))
				}
				return "badop"
			},
			obs:    func() ([]K, []int, bool) { return m.Keys(), m.Values(), true },
			length: func() string { return strconv.FormatInt(m.Len(), 10) },
			dump:   func() (string, int, bool) { return m.VerifDump(fk, nil) },
			size:   m.VerifSize,
		}
	case "ts":
		s, err := set.NewTreeSet[K](cmp)
		if err != nil {
			panic(err)
		}
		return &box[K]{
			do: func(op string, k K, v int) string {
				switch op {
				case "a":
					s.Add(k)
					return "ok"
				case "d":
					s.Delete(k)
					return "ok"
				case "e":
					if s.Exist(k) {
						return "true"
					}
					return "false"
				}
				return "badop"
			},
			obs:    func() ([]K, []int, bool) { return s.Keys(), nil, false },
			length: func() string { return "-" },
			dump:   func() (string, int, bool) { return s.VerifDump(fk, nil) },
			size:   s.VerifSize,
		}
	}
	return nil
}

func valOrAbsent(v int, ok bool) string {
	if ok {
		return "val:" + strconv.Itoa(v)
	}
	if v != 0 {
		return "absent+nonzero"
	}
	return "absent"
}

// obsPlan says after which ops the full state is observed.
type obsPlan struct {
	n      int    // every n-th op and the last one (stride form)
	mask   string // one '0'/'1' per op (sparse form)
	sparse bool
}

func (p obsPlan) observe(i, total int) bool {
	if p.sparse {
		return i < len(p.mask) && p.mask[i] == '1'
	}
	return (i+1)%p.n == 0 || i == total-1
}

func run[K any](out *bufio.Writer, cont string, kk keyKind[K], stride obsPlan, ops []string) {
	w := &strings.Builder{}
	defer func() {
		out.WriteString(w.String())
		out.Flush()
	}()
	calls := 0
	cmp := func(a, b K) int { calls++; return kk.cmp(a, b) }
	fk := func(k K) string { return strconv.Itoa(kk.un(k)) }
	b := mkBox(cont, cmp, fk)
	if b == nil {
		fmt.Fprintln(w, "badcase")
		return
	}
	for i, o := range ops {
		if i > 0 {
			w.WriteByte('|')
		}
		p := strings.Split(o, ",")
		k, v := 0, 0
		if len(p) > 1 {
			k, _ = strconv.Atoi(p[1])
		}
		if len(p) > 2 {
			v, _ = strconv.Atoi(p[2])
		}
		observe := stride.observe(i, len(ops))
		rec, panicked := step(b, kk, p[0], k, v, observe, stride.sparse, &calls)
		w.WriteString(rec)
		if panicked {
			break // the container may be half-updated; the rest of the history is meaningless
		}
	}
	w.WriteByte('\n')
}

func step[K any](b *box[K], kk keyKind[K], op string, k, v int, observe, sparse bool, calls *int) (rec string, panicked bool) {
	defer func() {
		if r := recover(); r != nil {
			rec, panicked = "panic;-;~;~;~;-;~;-", true
		}
	}()
	*calls = 0
	opStart.Store(time.Now().UnixNano())
	defer opStart.Store(0)
	ret := b.do(op, kk.mk(k), v)
	n := *calls
	var sb strings.Builder
	sb.WriteString(ret)
	sb.WriteByte(';')
	if observe || !sparse {
		sb.WriteString(b.length())
	} else {
		sb.WriteByte('~') // sparse form: not even Size()/Len() is called between observations
	}
	if observe {
		shape, size, bad := b.dump()
		if strings.Contains(shape, "!CYCLE") {
			sb.WriteString(";!CYCLE;!CYCLE") // KeyValues() would not terminate
		} else {
			keys, vals, hasVals := b.obs()
			sb.WriteByte(';')
			writeInts(&sb, len(keys), func(i int) int { return kk.un(keys[i]) })
			sb.WriteByte(';')
			if hasVals {
				writeInts(&sb, len(vals), func(i int) int { return vals[i] })
			} else {
				sb.WriteByte('-')
			}
		}
		sb.WriteByte(';')
		sb.WriteString(shape)
		sb.WriteByte(';')
		sb.WriteString(strconv.Itoa(size))
		if bad {
			sb.WriteString(";1;")
		} else {
			sb.WriteString(";0;")
		}
	} else {
		sb.WriteString(";~;~;~;")
		sb.WriteString(strconv.Itoa(b.size()))
		sb.WriteString(";~;")
	}
	sb.WriteString(strconv.Itoa(n))
	return sb.String(), false
}

func writeInts(sb *strings.Builder, n int, at func(int) int) {
	if n == 0 {
		sb.WriteByte('-')
		return
	}
	for i := 0; i < n; i++ {
		if i > 0 {
			sb.WriteByte(',')
		}
		sb.WriteString(strconv.Itoa(at(i)))
	}
}
