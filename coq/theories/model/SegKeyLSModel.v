(* Statement-granular INTERLEAVING model of /repo/syncx/segment_key_lock.go (C14), complementing the
   sequential model SegKeyModel.v (whose FNV-1a hash, [seg_index], the RWMutex specification [rw],
   [can_write]/[can_read] and the lock table [get_lock]/[set_lock] are reused unchanged).

   Any number of goroutines call Lock / Unlock / RLock / RUnlock / TryLock / TryRLock on keys (a key is
   its list of bytes).  One model step = one Go statement:

     <Method>   s.getLock(key).<Op>()              (the whole body of each public method is ONE statement)
     getLock    hash := s.hash(key)
     hash       h := fnv.New32a()
     hash       _, _ = h.Write([]byte(key))
     hash       return h.Sum32()
     getLock    return s.locks[hash%s.size]

   The goroutine is parked at the method statement, then at the two statements of getLock and the three
   of hash (called from getLock's first statement).  The step that leaves
   `return s.locks[hash%s.size]` indexes the slice (run-time panic when the index is out of range or the
   size is 0: modelled explicitly), returns to the method statement, whose remaining part - the
   operation on the selected RWMutex - is performed IN THE SAME STEP, and the call returns.
   A blocking Lock/RLock whose mutex is not available makes that step NOT ENABLED ([None]): the
   lock-step controller never grants it, so the real code sees no contention.

   Ghost state: [sk_holds], one record per acquisition not yet released (who, with which key, on which
   slice index actually computed, read or write).  It does not influence the lock words; it is what the
   theorems are stated about ("goroutine t holds Lock(k)").  Client discipline (the only restriction on
   schedules): a goroutine CALLS Unlock(k) / RUnlock(k) only while it itself holds a write / read
   acquisition of k's segment (releasing what one does not hold is a fatal run-time error or releases
   somebody else's lock: misuse, outside the property).  The release step itself is modelled without
   assuming the discipline: it answers [OMisuse] when the ghost table has no matching acquisition.
   Definitions only. *)
From Ekit Require Import Common Conc SegKeyModel.

Inductive sk_op := OLock | OUnlock | ORLock | ORUnlock | OTryLock | OTryRLock.

(* program counters: the statement the goroutine is ABOUT to execute *)
Inductive sk_pc :=
| PMeth     (* <Method>: s.getLock(key).<Op>()          *)
| PGet1     (* getLock:  hash := s.hash(key)            *)
| PH1       (* hash:     h := fnv.New32a()              *)
| PH2       (* hash:     _, _ = h.Write([]byte(key))    *)
| PH3       (* hash:     return h.Sum32()               *)
| PGet2.    (* getLock:  return s.locks[hash%s.size]    *)

(* one call in flight: its method, its key, its pc and the local holding the hash state
   (h's state inside hash, then getLock's local `hash`) *)
Record sk_frame := { f_op : sk_op; f_key : list Z; f_pc : sk_pc; f_h : Z }.

(* ghost: one acquisition *)
Record sk_hold := { h_tid : tid; h_key : list Z; h_idx : Z; h_write : bool }.

Record sk_cfg := {
  sk_size : Z;                        (* s.size (the constructor's argument) *)
  sk_locks : list (Z * rw);           (* s.locks: slice index -> RWMutex state; absent = free *)
  sk_thr : list (tid * sk_frame);     (* calls in flight *)
  sk_holds : list sk_hold             (* ghost: acquisitions not yet released, oldest first *)
}.

(* NewSegmentKeysLock(size): size fresh (free) RWMutexes *)
Definition sk_init (size : Z) : sk_cfg :=
  {| sk_size := size; sk_locks := []; sk_thr := []; sk_holds := [] |}.

Inductive sk_ev :=
| SCall (t : tid) (o : sk_op) (k : list Z)
| SStep (t : tid).

Inductive sk_ret := RUnit | RBool (b : bool).

Inductive sk_obs :=
| OAt (o : sk_op) (p : sk_pc)                    (* parked at statement p (of method o's call) *)
| ORet (o : sk_op) (k : list Z) (r : sk_ret)     (* the call returned *)
| OPanic                                         (* run-time panic: index out of range / divide by zero *)
| OMisuse.                                       (* release of a lock the caller does not hold *)

(* ---- the ghost table ---- *)
Definition hold_sel (i : Z) (w : bool) (h : sk_hold) : bool :=
  (h_idx h =? i) && Bool.eqb (h_write h) w.
Definition hold_mine (t : tid) (i : Z) (w : bool) (h : sk_hold) : bool :=
  Nat.eqb (h_tid h) t && hold_sel i w h.

Fixpoint hcount (f : sk_hold -> bool) (l : list sk_hold) : Z :=
  match l with
  | [] => 0
  | h :: r => (if f h then 1 else 0) + hcount f r
  end.
Fixpoint hfind (f : sk_hold -> bool) (l : list sk_hold) : option sk_hold :=
  match l with
  | [] => None
  | h :: r => if f h then Some h else hfind f r
  end.
Fixpoint hremove (f : sk_hold -> bool) (l : list sk_hold) : list sk_hold :=
  match l with
  | [] => []
  | h :: r => if f h then r else h :: hremove f r
  end.

(* write / read acquisitions recorded for slice index i *)
Definition writers_at (c : sk_cfg) (i : Z) : Z := hcount (hold_sel i true) (sk_holds c).
Definition readers_at (c : sk_cfg) (i : Z) : Z := hcount (hold_sel i false) (sk_holds c).

Definition is_release (o : sk_op) : bool :=
  match o with OUnlock | ORUnlock => true | _ => false end.
Definition is_acquire (o : sk_op) : bool := negb (is_release o).
Definition is_try (o : sk_op) : bool :=
  match o with OTryLock | OTryRLock => true | _ => false end.
Definition wants_write (o : sk_op) : bool :=
  match o with OLock | OTryLock | OUnlock => true | _ => false end.

(* client discipline: which calls a goroutine may START *)
Definition call_ok (c : sk_cfg) (t : tid) (o : sk_op) (k : list Z) : bool :=
  if is_release o
  then match hfind (hold_mine t (seg_index (sk_size c) k) (wants_write o)) (sk_holds c) with
       | Some _ => true | None => false end
  else true.

Definition with_thr (c : sk_cfg) (thr : list (tid * sk_frame)) : sk_cfg :=
  {| sk_size := sk_size c; sk_locks := sk_locks c; sk_thr := thr; sk_holds := sk_holds c |}.
Definition goto (f : sk_frame) (p : sk_pc) (h : Z) : sk_frame :=
  {| f_op := f_op f; f_key := f_key f; f_pc := p; f_h := h |}.

(* the call of thread t ends: lock word i becomes r, ghost table becomes hs *)
Definition finish (c : sk_cfg) (t : tid) (i : Z) (r : rw) (hs : list sk_hold) : sk_cfg :=
  {| sk_size := sk_size c; sk_locks := set_lock i r (sk_locks c);
     sk_thr := remove t (sk_thr c); sk_holds := hs |}.
Definition leave (c : sk_cfg) (t : tid) : sk_cfg := with_thr c (remove t (sk_thr c)).

(* the step at `return s.locks[hash%s.size]` followed by the rest of the method statement *)
Definition sk_last (c : sk_cfg) (t : tid) (f : sk_frame) : option (sk_cfg * sk_obs) :=
  if sk_size c =? 0 then Some (leave c t, OPanic)                    (* integer divide by zero *)
  else
    let i := f_h f mod sk_size c in
    if negb ((0 <=? i) && (i <? sk_size c)) then Some (leave c t, OPanic)   (* index out of range *)
    else
      let r := get_lock i (sk_locks c) in
      let o := f_op f in let k := f_key f in
      let acq w := sk_holds c ++ [{| h_tid := t; h_key := k; h_idx := i; h_write := w |}] in
      let wlocked := {| rw_writer := true; rw_readers := rw_readers r |} in
      let rlocked := {| rw_writer := rw_writer r; rw_readers := rw_readers r + 1 |} in
      match o with
      | OLock =>
        if can_write r then Some (finish c t i wlocked (acq true), ORet o k RUnit) else None
      | ORLock =>
        if can_read r then Some (finish c t i rlocked (acq false), ORet o k RUnit) else None
      | OTryLock =>
        if can_write r then Some (finish c t i wlocked (acq true), ORet o k (RBool true))
        else Some (leave c t, ORet o k (RBool false))
      | OTryRLock =>
        if can_read r then Some (finish c t i rlocked (acq false), ORet o k (RBool true))
        else Some (leave c t, ORet o k (RBool false))
      | OUnlock =>
        match hfind (hold_mine t i true) (sk_holds c) with
        | Some _ =>
          if rw_writer r
          then Some (finish c t i {| rw_writer := false; rw_readers := rw_readers r |}
                            (hremove (hold_mine t i true) (sk_holds c)), ORet o k RUnit)
          else Some (leave c t, OMisuse)
        | None => Some (leave c t, OMisuse)
        end
      | ORUnlock =>
        match hfind (hold_mine t i false) (sk_holds c) with
        | Some _ =>
          if 0 <? rw_readers r
          then Some (finish c t i {| rw_writer := rw_writer r; rw_readers := rw_readers r - 1 |}
                            (hremove (hold_mine t i false) (sk_holds c)), ORet o k RUnit)
          else Some (leave c t, OMisuse)
        | None => Some (leave c t, OMisuse)
        end
      end.

Definition sk_exec1 (c : sk_cfg) (e : sk_ev) : option (sk_cfg * sk_obs) :=
  match e with
  | SCall t o k =>
    match lookup t (sk_thr c) with
    | Some _ => None
    | None =>
      if call_ok c t o k
      then Some (with_thr c (spawn t {| f_op := o; f_key := k; f_pc := PMeth; f_h := 0 |} (sk_thr c)),
                 OAt o PMeth)
      else None
    end
  | SStep t =>
    match lookup t (sk_thr c) with
    | None => None
    | Some f =>
      let go p h := Some (with_thr c (update t (goto f p h) (sk_thr c)), OAt (f_op f) p) in
      match f_pc f with
      | PMeth => go PGet1 (f_h f)                                   (* evaluate s.getLock(key): enter getLock *)
      | PGet1 => go PH1 (f_h f)                                     (* evaluate s.hash(key): enter hash *)
      | PH1 => go PH2 fnv_offset                                    (* h := fnv.New32a() *)
      | PH2 => go PH3 (fold_left fnv_step (f_key f) (f_h f))        (* h.Write([]byte(key)) *)
      | PH3 => go PGet2 (f_h f)                                     (* return h.Sum32(); hash := ... *)
      | PGet2 => sk_last c t f
      end
    end
  end.

Definition sk_step (c : sk_cfg) (e : sk_ev) : option sk_cfg :=
  match sk_exec1 c e with Some (c', _) => Some c' | None => None end.

(* ---- vocabulary of the theorems ---- *)
(* goroutine t holds Lock(k) / RLock(k) *)
Definition holds_lock (c : sk_cfg) (t : tid) (k : list Z) : Prop :=
  exists i, In {| h_tid := t; h_key := k; h_idx := i; h_write := true |} (sk_holds c).
Definition holds_rlock (c : sk_cfg) (t : tid) (k : list Z) : Prop :=
  exists i, In {| h_tid := t; h_key := k; h_idx := i; h_write := false |} (sk_holds c).
(* thread t is about to execute the last statement of a call of method o on key k *)
Definition at_last (c : sk_cfg) (t : tid) (o : sk_op) (k : list Z) : Prop :=
  exists f, lookup t (sk_thr c) = Some f /\ f_pc f = PGet2 /\ f_op f = o /\ f_key f = k.

(* a whole call executed without interleaving: CALL then six STEPs; the final observation *)
Definition sk_call_alone (c : sk_cfg) (t : tid) (o : sk_op) (k : list Z) : option (sk_cfg * sk_obs) :=
  match sk_step c (SCall t o k) with
  | None => None
  | Some c0 =>
    match exec sk_step c0 (repeat (SStep t) 5) with
    | None => None
    | Some c5 => sk_exec1 c5 (SStep t)
    end
  end.

(* the observations other than "parked at a statement" produced along an event list (stops at the
   first event that is not enabled) *)
Fixpoint sk_rets (c : sk_cfg) (evs : list sk_ev) : list (sk_ev * sk_obs) :=
  match evs with
  | [] => []
  | e :: r =>
    match sk_exec1 c e with
    | None => []
    | Some (c', OAt _ _) => sk_rets c' r
    | Some (c', o) => (e, o) :: sk_rets c' r
    end
  end.
