(* Statement-granular interleaving model of /repo/queue/concurrent_array_blocking_queue.go
   (ConcurrentArrayBlockingQueue; properties C07, C09) together with the primitive it blocks on,
   golang.org/x/sync@v0.4.0/semaphore.Weighted (modelled from its source: size, cur, FIFO waiter
   list, fast path, waiter enqueue, the ctx.Done branch, Release -> notifyWaiters; all weights
   are 1 here) and sync.RWMutex (trusted specification: writer flag + reader count; the
   lock-step controller never lets a goroutine wait on the mutex, so no wake-up order of the
   mutex is modelled).

   One model step = one Go statement of Enqueue / Dequeue / Len / AsSlice (the program counters
   below are the instrumenter's yield points; the label table is in ocaml/drv_abq.ml).  The ring
   cursors head / tail / count are three separate integers updated exactly as the code does
   (increment, then a separate compare-and-reset at cap(c.data)); the two permit counters are
   separate from count.  A thread parked inside Acquire has pc EPark/DPark (no yield point); the
   Release or CANCEL that wakes it moves it to the statement after the Acquire.

   Ghost (history) state, never read by the transition function: g_in / g_out = the values
   written to / read from the ring at the marked steps, t_lin = the values the current call
   itself wrote/read at marked steps.  Definitions only. *)
From Ekit Require Import Common Conc.
From Coq Require Import Arith PeanoNat.

(* ------------------------------------------------------------------------------------ *)
(* x/sync/semaphore.Weighted                                                            *)
(* ------------------------------------------------------------------------------------ *)
Record sem := { s_size : Z; s_cur : Z; s_wait : list tid }.

Definition s_free (s : sem) : Z := s_size s - s_cur s.

(* notifyWaiters: grant waiters from the front while the next one fits (n = 1).
   Result: (cur', remaining waiters, granted waiters in FIFO order) *)
Fixpoint sem_notify (size cur : Z) (ws : list tid) : Z * list tid * list tid :=
  match ws with
  | [] => (cur, [], [])
  | w :: r =>
    if size - cur <? 1 then (cur, ws, [])
    else match sem_notify size (cur + 1) r with
         | (c', rem, wk) => (c', rem, w :: wk)
         end
  end.

Fixpoint remove_tid (t : tid) (l : list tid) : list tid :=
  match l with
  | [] => []
  | x :: r => if Nat.eqb x t then r else x :: remove_tid t r
  end.

(* Release(1): None = panic "semaphore: released more than held" *)
Definition sem_release (s : sem) : option (sem * list tid) :=
  let cur := s_cur s - 1 in
  if cur <? 0 then None
  else match sem_notify (s_size s) cur (s_wait s) with
       | (c', rem, wk) => Some ({| s_size := s_size s; s_cur := c'; s_wait := rem |}, wk)
       end.

(* the ctx.Done branch of a waiter that has NOT been granted: remove it from the list and,
   when it was at the front and tokens are left, notify the others *)
Definition sem_cancel (t : tid) (s : sem) : sem * list tid :=
  match s_wait s with
  | [] => (s, [])
  | w :: r =>
    if Nat.eqb w t then
      if s_cur s <? s_size s then
        match sem_notify (s_size s) (s_cur s) r with
        | (c', rem, wk) => ({| s_size := s_size s; s_cur := c'; s_wait := rem |}, wk)
        end
      else ({| s_size := s_size s; s_cur := s_cur s; s_wait := r |}, [])
    else ({| s_size := s_size s; s_cur := s_cur s; s_wait := remove_tid t (w :: r) |}, [])
  end.

Inductive acq := AcqOk | AcqPark | AcqErr.

(* Acquire(ctx, 1) by thread t whose context is (not) already cancelled.
   Fast path first (it does not look at ctx); n > size: wait for ctx.Done only; otherwise
   enqueue as waiter and select on ctx.Done / ready. *)
Definition sem_acquire (t : tid) (cancelled : bool) (s : sem) : sem * acq * list tid :=
  if (1 <=? s_size s - s_cur s) && (match s_wait s with [] => true | _ => false end) then
    ({| s_size := s_size s; s_cur := s_cur s + 1; s_wait := s_wait s |}, AcqOk, [])
  else if s_size s <? 1 then
    (s, if cancelled then AcqErr else AcqPark, [])
  else
    let s1 := {| s_size := s_size s; s_cur := s_cur s; s_wait := s_wait s ++ [t] |} in
    if cancelled then
      match sem_cancel t s1 with (s2, wk) => (s2, AcqErr, wk) end
    else (s1, AcqPark, []).

(* ------------------------------------------------------------------------------------ *)
(* program counters = the statements of the four methods                                 *)
(* ------------------------------------------------------------------------------------ *)
Inductive abq_pc :=
(* Enqueue *)
| EAcq       (* err := c.enqueueCap.Acquire(ctx, 1) *)
| EPark      (*   ... blocked inside that Acquire (not a yield point) *)
| EIfErr     (* if err != nil *)
| ERetErr    (*     return err *)
| ELock      (* c.mutex.Lock() *)
| EDefer     (* defer c.mutex.Unlock() *)
| EIfCtx     (* if ctx.Err() != nil *)
| ERelE      (*     c.enqueueCap.Release(1) *)
| ERetCtx    (*     return ctx.Err() *)
| EWrite     (* c.data[c.tail] = t          <- linearisation point of Enqueue *)
| ETailInc   (* c.tail++ *)
| ECountInc  (* c.count++ *)
| EIfTail    (* if c.tail == cap(c.data) *)
| ETailZero  (*     c.tail = 0 *)
| ERelD      (* c.dequeueCap.Release(1) *)
| ERetNil    (* return nil *)
(* Dequeue *)
| DAcq       (* err := c.dequeueCap.Acquire(ctx, 1) *)
| DPark
| DIfErr     (* if err != nil *)
| DRetErr    (*     return res, err *)
| DLock      (* c.mutex.Lock() *)
| DDefer     (* defer c.mutex.Unlock() *)
| DIfCtx     (* if ctx.Err() != nil *)
| DRelD      (*     c.dequeueCap.Release(1) *)
| DRetCtx    (*     return res, ctx.Err() *)
| DRead      (* res = c.data[c.head]        <- linearisation point of Dequeue *)
| DZero      (* c.data[c.head] = c.zero *)
| DHeadInc   (* c.head++ *)
| DCountDec  (* c.count-- *)
| DIfHead    (* if c.head == cap(c.data) *)
| DHeadZero  (*     c.head = 0 *)
| DRelE      (* c.enqueueCap.Release(1) *)
| DRetOk     (* return res, nil *)
(* Len *)
| LRLock     (* c.mutex.RLock() *)
| LDefer     (* defer c.mutex.RUnlock() *)
| LRet       (* return c.count *)
(* AsSlice *)
| SRLock     (* c.mutex.RLock() *)
| SDefer     (* defer c.mutex.RUnlock() *)
| SMake      (* res := make([]T, 0, c.count) *)
| SCnt       (* cnt := 0 *)
| SCap       (* capacity := cap(c.data) *)
| SFor       (* for cnt < c.count *)
| SIndex     (*     index := (c.head + cnt) % capacity *)
| SAppend    (*     res = append(res, c.data[index]) *)
| SCntInc    (*     cnt++   (followed by the re-evaluation of the loop condition) *)
| SRet.      (* return res *)

(* per-call state: program counter + locals + the call's context + ghost *)
Record abq_thr := {
  t_pc : abq_pc;
  t_val : Z;          (* Enqueue: the argument t; Dequeue: the local res *)
  t_err : bool;       (* the local err is non-nil *)
  t_can : bool;       (* this call's context has been cancelled *)
  t_res : list Z;     (* AsSlice: res *)
  t_cnt : Z;          (* AsSlice: cnt *)
  t_capv : Z;         (* AsSlice: capacity *)
  t_idx : Z;          (* AsSlice: index *)
  t_lin : list Z      (* ghost: values this call wrote to / read from the ring at marked steps *)
}.

Definition at_pc (th : abq_thr) (p : abq_pc) : abq_thr :=
  {| t_pc := p; t_val := t_val th; t_err := t_err th; t_can := t_can th; t_res := t_res th;
     t_cnt := t_cnt th; t_capv := t_capv th; t_idx := t_idx th; t_lin := t_lin th |}.
Definition set_err (th : abq_thr) (b : bool) : abq_thr :=
  {| t_pc := t_pc th; t_val := t_val th; t_err := b; t_can := t_can th; t_res := t_res th;
     t_cnt := t_cnt th; t_capv := t_capv th; t_idx := t_idx th; t_lin := t_lin th |}.
Definition set_can (th : abq_thr) : abq_thr :=
  {| t_pc := t_pc th; t_val := t_val th; t_err := t_err th; t_can := true; t_res := t_res th;
     t_cnt := t_cnt th; t_capv := t_capv th; t_idx := t_idx th; t_lin := t_lin th |}.
Definition set_val (th : abq_thr) (v : Z) : abq_thr :=
  {| t_pc := t_pc th; t_val := v; t_err := t_err th; t_can := t_can th; t_res := t_res th;
     t_cnt := t_cnt th; t_capv := t_capv th; t_idx := t_idx th; t_lin := t_lin th |}.
Definition set_lin (th : abq_thr) (l : list Z) : abq_thr :=
  {| t_pc := t_pc th; t_val := t_val th; t_err := t_err th; t_can := t_can th; t_res := t_res th;
     t_cnt := t_cnt th; t_capv := t_capv th; t_idx := t_idx th; t_lin := l |}.
Definition set_res (th : abq_thr) (l : list Z) : abq_thr :=
  {| t_pc := t_pc th; t_val := t_val th; t_err := t_err th; t_can := t_can th; t_res := l;
     t_cnt := t_cnt th; t_capv := t_capv th; t_idx := t_idx th; t_lin := t_lin th |}.
Definition set_cnt (th : abq_thr) (n : Z) : abq_thr :=
  {| t_pc := t_pc th; t_val := t_val th; t_err := t_err th; t_can := t_can th; t_res := t_res th;
     t_cnt := n; t_capv := t_capv th; t_idx := t_idx th; t_lin := t_lin th |}.
Definition set_capv (th : abq_thr) (n : Z) : abq_thr :=
  {| t_pc := t_pc th; t_val := t_val th; t_err := t_err th; t_can := t_can th; t_res := t_res th;
     t_cnt := t_cnt th; t_capv := n; t_idx := t_idx th; t_lin := t_lin th |}.
Definition set_idx (th : abq_thr) (n : Z) : abq_thr :=
  {| t_pc := t_pc th; t_val := t_val th; t_err := t_err th; t_can := t_can th; t_res := t_res th;
     t_cnt := t_cnt th; t_capv := t_capv th; t_idx := n; t_lin := t_lin th |}.

Definition new_thr (p : abq_pc) (v : Z) : abq_thr :=
  {| t_pc := p; t_val := v; t_err := false; t_can := false; t_res := []; t_cnt := 0;
     t_capv := 0; t_idx := 0; t_lin := [] |}.

Record abq_cfg := {
  q_data : list Z;                  (* c.data; cap(c.data) = its length *)
  q_head : Z;
  q_tail : Z;
  q_count : Z;
  q_enq : sem;                      (* enqueueCap *)
  q_deq : sem;                      (* dequeueCap *)
  q_w : bool;                       (* RWMutex: write-locked *)
  q_r : Z;                          (* RWMutex: number of read locks held *)
  q_thr : list (tid * abq_thr);     (* calls in flight *)
  g_in : list Z;                    (* ghost: values written at Enqueue's marked step, in order *)
  g_out : list Z                    (* ghost: values read at Dequeue's marked step, in order *)
}.

Definition set_thr (c : abq_cfg) (thr : list (tid * abq_thr)) : abq_cfg :=
  {| q_data := q_data c; q_head := q_head c; q_tail := q_tail c; q_count := q_count c;
     q_enq := q_enq c; q_deq := q_deq c; q_w := q_w c; q_r := q_r c; q_thr := thr;
     g_in := g_in c; g_out := g_out c |}.
Definition set_enq (c : abq_cfg) (s : sem) : abq_cfg :=
  {| q_data := q_data c; q_head := q_head c; q_tail := q_tail c; q_count := q_count c;
     q_enq := s; q_deq := q_deq c; q_w := q_w c; q_r := q_r c; q_thr := q_thr c;
     g_in := g_in c; g_out := g_out c |}.
Definition set_deq (c : abq_cfg) (s : sem) : abq_cfg :=
  {| q_data := q_data c; q_head := q_head c; q_tail := q_tail c; q_count := q_count c;
     q_enq := q_enq c; q_deq := s; q_w := q_w c; q_r := q_r c; q_thr := q_thr c;
     g_in := g_in c; g_out := g_out c |}.
Definition set_mu (c : abq_cfg) (w : bool) (r : Z) : abq_cfg :=
  {| q_data := q_data c; q_head := q_head c; q_tail := q_tail c; q_count := q_count c;
     q_enq := q_enq c; q_deq := q_deq c; q_w := w; q_r := r; q_thr := q_thr c;
     g_in := g_in c; g_out := g_out c |}.
Definition set_ring (c : abq_cfg) (d : list Z) (h tl n : Z) : abq_cfg :=
  {| q_data := d; q_head := h; q_tail := tl; q_count := n;
     q_enq := q_enq c; q_deq := q_deq c; q_w := q_w c; q_r := q_r c; q_thr := q_thr c;
     g_in := g_in c; g_out := g_out c |}.
Definition set_log (c : abq_cfg) (i o : list Z) : abq_cfg :=
  {| q_data := q_data c; q_head := q_head c; q_tail := q_tail c; q_count := q_count c;
     q_enq := q_enq c; q_deq := q_deq c; q_w := q_w c; q_r := q_r c; q_thr := q_thr c;
     g_in := i; g_out := o |}.

(* NewConcurrentArrayBlockingQueue(capacity): both semaphores have size capacity; the
   constructor acquires all of dequeueCap (fast path: cur = capacity). *)
Definition abq_init (capacity : Z) : abq_cfg :=
  {| q_data := repeat 0 (Z.to_nat capacity); q_head := 0; q_tail := 0; q_count := 0;
     q_enq := {| s_size := capacity; s_cur := 0; s_wait := [] |};
     q_deq := {| s_size := capacity; s_cur := capacity; s_wait := [] |};
     q_w := false; q_r := 0; q_thr := []; g_in := []; g_out := [] |}.

Inductive abq_op := OpEnq (v : Z) | OpDeq | OpLen | OpSlice.

Inductive abq_ev :=
| ACall (t : tid) (op : abq_op)
| AStep (t : tid)
| ACancel (t : tid).

Inductive abq_ret :=
| RNil                 (* Enqueue: nil *)
| RCtx                 (* the context's error (Enqueue; Dequeue with the zero value) *)
| RVal (v : Z)         (* Dequeue: (v, nil) *)
| RLen (n : Z)
| RSlice (l : list Z).

Inductive abq_obs :=
| OAt (p : abq_pc)     (* the goroutine arrives at the yield point before statement p *)
| ORet (r : abq_ret)
| OPanic.

Definition cap_of (data : list Z) : Z := Z.of_nat (length data).
Definition idx_ok (data : list Z) (i : Z) : bool := (0 <=? i) && (i <? cap_of data).
Definition dget (data : list Z) (i : Z) : Z := nth (Z.to_nat i) data 0.
Definition dset (data : list Z) (i : Z) (v : Z) : list Z := set_nth data (Z.to_nat i) v.

(* a granted waiter returns nil from Acquire and arrives at the statement after it *)
Definition woken (th : abq_thr) (p : abq_pc) : abq_thr := at_pc (set_err th false) p.

Fixpoint wake (p : abq_pc) (ws : list tid) (thr : list (tid * abq_thr)) : list (tid * abq_thr) :=
  match ws with
  | [] => thr
  | w :: r =>
    match lookup w thr with
    | Some th => wake p r (update w (woken th p) thr)
    | None => wake p r thr
    end
  end.

Definition obs_at (p : abq_pc) (ws : list tid) : list (tid * abq_obs) := map (fun w => (w, OAt p)) ws.

Definition goto (c : abq_cfg) (t : tid) (th : abq_thr) (p : abq_pc) : option (abq_cfg * list (tid * abq_obs)) :=
  Some (set_thr c (update t (at_pc th p) (q_thr c)), [(t, OAt p)]).

Definition finish (c : abq_cfg) (t : tid) (r : abq_ret) : option (abq_cfg * list (tid * abq_obs)) :=
  Some (set_thr c (remove t (q_thr c)), [(t, ORet r)]).

(* a run-time panic inside the write / read critical section: the deferred unlock runs *)
Definition panic_w (c : abq_cfg) (t : tid) : option (abq_cfg * list (tid * abq_obs)) :=
  Some (set_thr (set_mu c false (q_r c)) (remove t (q_thr c)), [(t, OPanic)]).
Definition panic_r (c : abq_cfg) (t : tid) : option (abq_cfg * list (tid * abq_obs)) :=
  Some (set_thr (set_mu c (q_w c) (q_r c - 1)) (remove t (q_thr c)), [(t, OPanic)]).

Definition add_obs (o : list (tid * abq_obs)) (r : option (abq_cfg * list (tid * abq_obs))) :=
  match r with Some (c, l) => Some (c, l ++ o) | None => None end.

Definition abq_step (c : abq_cfg) (t : tid) (th : abq_thr) : option (abq_cfg * list (tid * abq_obs)) :=
  match t_pc th with
  (* ---------------- Enqueue ---------------- *)
  | EAcq =>
    match sem_acquire t (t_can th) (q_enq c) with
    | (s', r, wk) =>
      let c1 := set_thr (set_enq c s') (wake EIfErr wk (q_thr c)) in
      add_obs (obs_at EIfErr wk)
        match r with
        | AcqOk => goto c1 t (set_err th false) EIfErr
        | AcqErr => goto c1 t (set_err th true) EIfErr
        | AcqPark => Some (set_thr c1 (update t (at_pc th EPark) (q_thr c1)), [])
        end
    end
  | EPark => None
  | EIfErr => goto c t th (if t_err th then ERetErr else ELock)
  | ERetErr => finish c t (if t_err th then RCtx else RNil)
  | ELock => if q_w c || negb (q_r c =? 0) then None else goto (set_mu c true (q_r c)) t th EDefer
  | EDefer => goto c t th EIfCtx
  | EIfCtx => goto c t th (if t_can th then ERelE else EWrite)
  | ERelE =>
    match sem_release (q_enq c) with
    | None => panic_w c t
    | Some (s', wk) =>
      add_obs (obs_at EIfErr wk) (goto (set_thr (set_enq c s') (wake EIfErr wk (q_thr c))) t th ERetCtx)
    end
  | ERetCtx => finish (set_mu c false (q_r c)) t (if t_can th then RCtx else RNil)
  | EWrite =>
    if idx_ok (q_data c) (q_tail c) then
      goto (set_log (set_ring c (dset (q_data c) (q_tail c) (t_val th)) (q_head c) (q_tail c) (q_count c))
                    (g_in c ++ [t_val th]) (g_out c))
           t (set_lin th (t_lin th ++ [t_val th])) ETailInc
    else panic_w c t
  | ETailInc => goto (set_ring c (q_data c) (q_head c) (q_tail c + 1) (q_count c)) t th ECountInc
  | ECountInc => goto (set_ring c (q_data c) (q_head c) (q_tail c) (q_count c + 1)) t th EIfTail
  | EIfTail => goto c t th (if q_tail c =? cap_of (q_data c) then ETailZero else ERelD)
  | ETailZero => goto (set_ring c (q_data c) (q_head c) 0 (q_count c)) t th ERelD
  | ERelD =>
    match sem_release (q_deq c) with
    | None => panic_w c t
    | Some (s', wk) =>
      add_obs (obs_at DIfErr wk) (goto (set_thr (set_deq c s') (wake DIfErr wk (q_thr c))) t th ERetNil)
    end
  | ERetNil => finish (set_mu c false (q_r c)) t RNil
  (* ---------------- Dequeue ---------------- *)
  | DAcq =>
    match sem_acquire t (t_can th) (q_deq c) with
    | (s', r, wk) =>
      let c1 := set_thr (set_deq c s') (wake DIfErr wk (q_thr c)) in
      add_obs (obs_at DIfErr wk)
        match r with
        | AcqOk => goto c1 t (set_err th false) DIfErr
        | AcqErr => goto c1 t (set_err th true) DIfErr
        | AcqPark => Some (set_thr c1 (update t (at_pc th DPark) (q_thr c1)), [])
        end
    end
  | DPark => None
  | DIfErr => goto c t th (if t_err th then DRetErr else DLock)
  | DRetErr => finish c t (if t_err th then RCtx else RVal (t_val th))
  | DLock => if q_w c || negb (q_r c =? 0) then None else goto (set_mu c true (q_r c)) t th DDefer
  | DDefer => goto c t th DIfCtx
  | DIfCtx => goto c t th (if t_can th then DRelD else DRead)
  | DRelD =>
    match sem_release (q_deq c) with
    | None => panic_w c t
    | Some (s', wk) =>
      add_obs (obs_at DIfErr wk) (goto (set_thr (set_deq c s') (wake DIfErr wk (q_thr c))) t th DRetCtx)
    end
  | DRetCtx => finish (set_mu c false (q_r c)) t (if t_can th then RCtx else RVal (t_val th))
  | DRead =>
    if idx_ok (q_data c) (q_head c) then
      let x := dget (q_data c) (q_head c) in
      goto (set_log c (g_in c) (g_out c ++ [x])) t (set_lin (set_val th x) (t_lin th ++ [x])) DZero
    else panic_w c t
  | DZero =>
    if idx_ok (q_data c) (q_head c) then
      goto (set_ring c (dset (q_data c) (q_head c) 0) (q_head c) (q_tail c) (q_count c)) t th DHeadInc
    else panic_w c t
  | DHeadInc => goto (set_ring c (q_data c) (q_head c + 1) (q_tail c) (q_count c)) t th DCountDec
  | DCountDec => goto (set_ring c (q_data c) (q_head c) (q_tail c) (q_count c - 1)) t th DIfHead
  | DIfHead => goto c t th (if q_head c =? cap_of (q_data c) then DHeadZero else DRelE)
  | DHeadZero => goto (set_ring c (q_data c) 0 (q_tail c) (q_count c)) t th DRelE
  | DRelE =>
    match sem_release (q_enq c) with
    | None => panic_w c t
    | Some (s', wk) =>
      add_obs (obs_at EIfErr wk) (goto (set_thr (set_enq c s') (wake EIfErr wk (q_thr c))) t th DRetOk)
    end
  | DRetOk => finish (set_mu c false (q_r c)) t (RVal (t_val th))
  (* ---------------- Len ---------------- *)
  | LRLock => if q_w c then None else goto (set_mu c (q_w c) (q_r c + 1)) t th LDefer
  | LDefer => goto c t th LRet
  | LRet => finish (set_mu c (q_w c) (q_r c - 1)) t (RLen (q_count c))
  (* ---------------- AsSlice ---------------- *)
  | SRLock => if q_w c then None else goto (set_mu c (q_w c) (q_r c + 1)) t th SDefer
  | SDefer => goto c t th SMake
  | SMake => if q_count c <? 0 then panic_r c t else goto c t (set_res th []) SCnt
  | SCnt => goto c t (set_cnt th 0) SCap
  | SCap => goto c t (set_capv th (cap_of (q_data c))) SFor
  | SFor => goto c t th (if t_cnt th <? q_count c then SIndex else SRet)
  | SIndex =>
    if t_capv th =? 0 then panic_r c t
    else goto c t (set_idx th (Z.rem (q_head c + t_cnt th) (t_capv th))) SAppend
  | SAppend =>
    if idx_ok (q_data c) (t_idx th) then
      goto c t (set_res th (t_res th ++ [dget (q_data c) (t_idx th)])) SCntInc
    else panic_r c t
  | SCntInc =>
    let n := t_cnt th + 1 in
    goto c t (set_cnt th n) (if n <? q_count c then SIndex else SRet)
  | SRet => finish (set_mu c (q_w c) (q_r c - 1)) t (RSlice (t_res th))
  end.

Definition enter (op : abq_op) : abq_thr :=
  match op with
  | OpEnq v => new_thr EAcq v
  | OpDeq => new_thr DAcq 0
  | OpLen => new_thr LRLock 0
  | OpSlice => new_thr SRLock 0
  end.

(* cancellation of the context of a parked waiter: the waiter wakes in the ctx.Done branch *)
Definition cancel_parked (c : abq_cfg) (t : tid) (th : abq_thr) (enq : bool) : option (abq_cfg * list (tid * abq_obs)) :=
  let p := if enq then EIfErr else DIfErr in
  match sem_cancel t (if enq then q_enq c else q_deq c) with
  | (s', wk) =>
    let c1 := if enq then set_enq c s' else set_deq c s' in
    let thr1 := update t (at_pc (set_err (set_can th) true) p) (q_thr c) in
    Some (set_thr c1 (wake p wk thr1), (t, OAt p) :: obs_at p wk)
  end.

Definition abq_exec1 (c : abq_cfg) (e : abq_ev) : option (abq_cfg * list (tid * abq_obs)) :=
  match e with
  | ACall t op =>
    match lookup t (q_thr c) with
    | Some _ => None
    | None => let th := enter op in Some (set_thr c (spawn t th (q_thr c)), [(t, OAt (t_pc th))])
    end
  | AStep t =>
    match lookup t (q_thr c) with
    | None => None
    | Some th => abq_step c t th
    end
  | ACancel t =>
    match lookup t (q_thr c) with
    | None => None
    | Some th =>
      if t_can th then None
      else match t_pc th with
           | EPark => cancel_parked c t th true
           | DPark => cancel_parked c t th false
           | _ => Some (set_thr c (update t (set_can th) (q_thr c)), [])
           end
    end
  end.

Definition abq_next (c : abq_cfg) (e : abq_ev) : option abq_cfg :=
  match abq_exec1 c e with Some (c', _) => Some c' | None => None end.

(* ------------------------------------------------------------------------------------ *)
(* abstraction: the bounded FIFO queue a configuration represents                        *)
(* ------------------------------------------------------------------------------------ *)
(* the n elements from position h of the ring *)
Definition ring (data : list Z) (h n : Z) : list Z :=
  map (fun i => dget data ((h + Z.of_nat i) mod cap_of data)) (seq 0 (Z.to_nat n)).

(* classification of program counters *)
Scheme Equality for abq_pc.
Definition pc_is (p : abq_pc) (th : abq_thr) : bool := abq_pc_beq p (t_pc th).

(* Enqueue has written its element but count does not yet include it *)
Definition adj_e (th : abq_thr) : bool :=
  match t_pc th with ETailInc | ECountInc => true | _ => false end.
(* Dequeue has read its element but count still includes it *)
Definition adj_d (th : abq_thr) : bool :=
  match t_pc th with DZero | DHeadInc | DCountDec => true | _ => false end.
(* ... and head still points at it *)
Definition adj_h (th : abq_thr) : bool :=
  match t_pc th with DZero | DHeadInc => true | _ => false end.

Definition abs_head (c : abq_cfg) : Z := q_head c + count adj_h (q_thr c).
Definition abs_len (c : abq_cfg) : Z := q_count c + count adj_e (q_thr c) - count adj_d (q_thr c).
Definition abq_abs (c : abq_cfg) : list Z := ring (q_data c) (abs_head c) (abs_len c).

(* the permit ledger (DESIGN 12.6) *)
(* enqueuers holding an enqueueCap permit before their write (a granted waiter counts) *)
Definition held_e (th : abq_thr) : bool :=
  match t_pc th with
  | EIfErr => negb (t_err th)
  | ELock | EDefer | EIfCtx | ERelE | EWrite => true
  | _ => false
  end.
(* dequeuers that have read their element and not yet given the slot back to enqueueCap *)
Definition owes_e (th : abq_thr) : bool :=
  match t_pc th with DZero | DHeadInc | DCountDec | DIfHead | DHeadZero | DRelE => true | _ => false end.
(* dequeuers holding a dequeueCap permit before their read *)
Definition held_d (th : abq_thr) : bool :=
  match t_pc th with
  | DIfErr => negb (t_err th)
  | DLock | DDefer | DIfCtx | DRelD | DRead => true
  | _ => false
  end.
(* enqueuers that have written their element and not yet released dequeueCap for it *)
Definition owes_d (th : abq_thr) : bool :=
  match t_pc th with ETailInc | ECountInc | EIfTail | ETailZero | ERelD => true | _ => false end.

(* holders of the write lock / of a read lock *)
Definition in_wcs (th : abq_thr) : bool :=
  match t_pc th with
  | EDefer | EIfCtx | ERelE | ERetCtx | EWrite | ETailInc | ECountInc | EIfTail | ETailZero | ERelD | ERetNil
  | DDefer | DIfCtx | DRelD | DRetCtx | DRead | DZero | DHeadInc | DCountDec | DIfHead | DHeadZero | DRelE | DRetOk => true
  | _ => false
  end.
Definition in_rcs (th : abq_thr) : bool :=
  match t_pc th with
  | LDefer | LRet | SDefer | SMake | SCnt | SCap | SFor | SIndex | SAppend | SCntInc | SRet => true
  | _ => false
  end.

(* sequential specification: bounded FIFO queue *)
Definition spec_enq (capacity : Z) (q : list Z) (v : Z) : option (list Z) :=
  if Z.of_nat (length q) <? capacity then Some (q ++ [v]) else None.
Definition spec_deq (q : list Z) : option (list Z * Z) :=
  match q with x :: r => Some (r, x) | [] => None end.

(* the marked (linearisation) step of an event, if it is one *)
Inductive lin_kind := LinEnq (v : Z) | LinDeq.
Definition lin_of (c : abq_cfg) (e : abq_ev) : option lin_kind :=
  match e with
  | AStep t =>
    match lookup t (q_thr c) with
    | Some th =>
      match t_pc th with
      | EWrite => if idx_ok (q_data c) (q_tail c) then Some (LinEnq (t_val th)) else None
      | DRead => if idx_ok (q_data c) (q_head c) then Some LinDeq else None
      | _ => None
      end
    | None => None
    end
  | _ => None
  end.

(* running one thread alone until it returns (Some r) or cannot continue (None: parked / blocked) *)
Fixpoint run_alone (fuel : nat) (c : abq_cfg) (t : tid) : abq_cfg * option abq_obs :=
  match fuel with
  | O => (c, None)
  | S f =>
    match abq_exec1 c (AStep t) with
    | None => (c, None)
    | Some (c', obs) =>
      match lookup t (q_thr c') with
      | Some _ => run_alone f c' t
      | None => (c', match obs with (_, o) :: _ => Some o | [] => None end)
      end
    end
  end.

Definition call_alone (c : abq_cfg) (t : tid) (op : abq_op) : option (abq_cfg * option abq_obs) :=
  match abq_exec1 c (ACall t op) with
  | None => None
  | Some (c1, _) => Some (run_alone 64 c1 t)
  end.

(* Enqueue the values one after the other, each call run alone; stops at the first call that
   does not return nil; result = configuration + number of calls that returned nil *)
Fixpoint enqs_alone (c : abq_cfg) (t : tid) (vs : list Z) : abq_cfg * nat :=
  match vs with
  | [] => (c, O)
  | v :: r =>
    match call_alone c t (OpEnq v) with
    | Some (c', Some (ORet RNil)) => let '(c2, n) := enqs_alone c' t r in (c2, S n)
    | Some (c', _) => (c', O)
    | None => (c, O)
    end
  end.

(* Dequeue k times, each call run alone; result = configuration + delivered values *)
Fixpoint deqs_alone (c : abq_cfg) (t : tid) (k : nat) : abq_cfg * list Z :=
  match k with
  | O => (c, [])
  | S k' =>
    match call_alone c t OpDeq with
    | Some (c', Some (ORet (RVal x))) => let '(c2, l) := deqs_alone c' t k' in (c2, x :: l)
    | Some (c', _) => (c', [])
    | None => (c, [])
    end
  end.
