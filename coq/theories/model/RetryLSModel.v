(* Statement-granular interleaving model of ExponentialBackoffRetryStrategy.Next
   (/repo/retry/exponential.go) and FixedIntervalRetryStrategy.Next (/repo/retry/fixed_internal.go)
   for the lock-step correspondence of C19.  Definitions only; proofs in proof/RetryLSProof.v.

   One model step = one Go statement (one program counter per yield point of tools/instrument; the
   label table is in ocaml/drv_retryls.ml).  A thread's pc is the statement it is ABOUT to execute.

     exponential.go  Next                                                        fixed_internal.go  Next
       LAdd       retries := atomic.AddInt32(&s.retries, 1)                        LAdd       (same text)
       LBudget r  if s.maxRetries <= 0 || retries <= s.maxRetries                  LBudget r  (same text)
       LLoad r      if reached, ok := s.maxIntervalReached.Load().(bool); ok && reached
       LRetMax0 r     return s.maxInterval, true                       (|0)
       LFactor r    factor := time.Duration(math.Pow(2, float64(retries-1)))
       LInterval r  interval := s.initialInterval * factor
       LChk r       if factor <= 0 || interval/factor != s.initialInterval || interval <= 0 || interval > s.maxInterval
       LStore r       s.maxIntervalReached.Store(true)
       LRetMax1 r     return s.maxInterval, true                       (|1)
       LRetIv r     return interval, true
                                                                                   LRetFixed r  return s.interval, true
       LRetNo r   return 0, false                                                  LRetNo r   (same text)

   The only local a call keeps is the ticket r the atomic add returned (an int32); factor, interval
   and the outcome of the test of LChk are functions of r and of the immutable fields, and are
   computed with RetryModel's [compute] (math.Pow / int64 wrap / truncated division as documented
   there) — nothing of the arithmetic is written down a second time here.
   Shared memory: [retries] (int32, written by the atomic add only) and [reached] (the atomic.Value
   flag: written by LStore, read by LLoad); every statement contains at most one shared access.

   The PINNED exponential strategy (before commit 672671a, variant VPinned of RetryModel) had ONE
   statement `interval := s.initialInterval * time.Duration(math.Pow(...))` and the test
   `if interval <= 0 || interval > s.maxInterval`: LLoad goes to LInterval directly, LChk uses the
   pinned test.  It is kept only to state the defect it had ([ls_interval_wrap_refuted]). *)
From Ekit Require Import Common Conc RetryModel.

Inductive ls_pc :=
| LAdd
| LBudget (r : Z)
| LLoad (r : Z)
| LRetMax0 (r : Z)
| LFactor (r : Z)
| LInterval (r : Z)
| LChk (r : Z)
| LStore (r : Z)
| LRetMax1 (r : Z)
| LRetIv (r : Z)
| LRetFixed (r : Z)
| LRetNo (r : Z).

Record ls_cfg := {
  ls_st : sstate;                     (* the int32 counter and the flag (RetryModel.sstate) *)
  ls_thr : list (tid * ls_pc);        (* calls in flight *)
  ls_hist : list event;               (* completed calls, newest first (ghost; RetryModel.event) *)
  ls_calls : nat                      (* tickets drawn = atomic adds executed (ghost) *)
}.

(* a constructed strategy: retries = 0, flag never stored *)
Definition ls_init : ls_cfg := {| ls_st := s0; ls_thr := []; ls_hist := []; ls_calls := O |}.

Inductive ls_ev :=
| LSCall (t : tid)      (* goroutine t calls Next *)
| LSStep (t : tid).     (* goroutine t executes the statement it stands at *)

Inductive ls_obs :=
| LSAt (p : ls_pc)                 (* arrived at the next statement *)
| LSRet (iv : Z) (ok : bool).      (* Next returned (iv, ok) *)

Definition ls_goto (c : ls_cfg) (st : sstate) (calls : nat) (t : tid) (pc' : ls_pc) : option (ls_cfg * ls_obs) :=
  Some ({| ls_st := st; ls_thr := Conc.update t pc' (ls_thr c); ls_hist := ls_hist c; ls_calls := calls |},
        LSAt pc').

Definition ls_ret (c : ls_cfg) (t : tid) (r iv : Z) (ok : bool) : option (ls_cfg * ls_obs) :=
  Some ({| ls_st := ls_st c; ls_thr := Conc.remove t (ls_thr c);
           ls_hist := {| ev_tid := t; ev_ticket := r; ev_iv := iv; ev_ok := ok |} :: ls_hist c;
           ls_calls := ls_calls c |},
        LSRet iv ok).

(* the statement after the flag load found the flag unset *)
Definition after_load (v : variant) (r : Z) : ls_pc :=
  match v with VNow => LFactor r | VPinned => LInterval r end.

Definition ls_exec1 (p : params) (c : ls_cfg) (e : ls_ev) : option (ls_cfg * ls_obs) :=
  match e with
  | LSCall t =>
    match Conc.lookup t (ls_thr c) with
    | Some _ => None
    | None => Some ({| ls_st := ls_st c; ls_thr := spawn t LAdd (ls_thr c);
                       ls_hist := ls_hist c; ls_calls := ls_calls c |}, LSAt LAdd)
    end
  | LSStep t =>
    let same := ls_goto c (ls_st c) (ls_calls c) t in
    match Conc.lookup t (ls_thr c) with
    | None => None
    | Some LAdd =>
      let r := i32 (retries (ls_st c) + 1) in
      ls_goto c (with_retries (ls_st c) r) (S (ls_calls c)) t (LBudget r)
    | Some (LBudget r) =>
      if budget_ok p r then
        match p_kind p with
        | KExp _ => same (LLoad r)
        | KFixed => same (LRetFixed r)
        end
      else same (LRetNo r)
    | Some (LLoad r) =>
      match p_kind p with
      | KExp v => if reached (ls_st c) then same (LRetMax0 r) else same (after_load v r)
      | KFixed => None                          (* the fixed strategy has no such statement *)
      end
    | Some (LRetMax0 r) => ls_ret c t r (p_max p) true
    | Some (LFactor r) => same (LInterval r)
    | Some (LInterval r) => same (LChk r)
    | Some (LChk r) =>
      match p_kind p with
      | KExp v => if snd (compute v p r) then same (LStore r) else same (LRetIv r)
      | KFixed => None
      end
    | Some (LStore r) =>
      ls_goto c {| retries := retries (ls_st c); reached := true |} (ls_calls c) t (LRetMax1 r)
    | Some (LRetMax1 r) => ls_ret c t r (p_max p) true
    | Some (LRetIv r) =>
      match p_kind p with
      | KExp v => ls_ret c t r (fst (compute v p r)) true
      | KFixed => None
      end
    | Some (LRetFixed r) => ls_ret c t r (p_init p) true
    | Some (LRetNo r) => ls_ret c t r 0 false
    end
  end.

Definition ls_step (p : params) (c : ls_cfg) (e : ls_ev) : option ls_cfg :=
  match ls_exec1 p c e with Some (c', _) => Some c' | None => None end.

(* ---- the projection onto RetryModel's three-step semantics ----
   Which of the three atomic steps of RetryModel.step a statement-level call has already taken:
     step 1 (add + budget test; for the fixed strategy and for a refused call also the return)
            is taken by the statement LAdd;
     step 2 (flag load -> return max, or go on) by the statement LLoad;
     step 3 (compute; store; return) by LStore when the test of LChk succeeded, by LChk otherwise.
   [ls_fl] is the entry the call has in RetryModel's table of calls in flight, [ls_pend] the answer
   RetryModel has already recorded for a call that has not yet executed its return statement. *)
Definition ls_fl (p : params) (pc : ls_pc) : option RetryModel.pc :=
  match pc with
  | LBudget r =>
    if budget_ok p r then match p_kind p with KExp _ => Some (PLoad r) | KFixed => None end else None
  | LLoad r => Some (PLoad r)
  | LFactor r | LInterval r | LChk r | LStore r => Some (PComp r)
  | _ => None
  end.

(* the variant of an exponential strategy (the fixed strategy never reaches the statements that use it) *)
Definition ls_variant (p : params) : variant :=
  match p_kind p with KExp v => v | KFixed => VNow end.

Definition mk_event (t : tid) (r iv : Z) (ok : bool) : event :=
  {| ev_tid := t; ev_ticket := r; ev_iv := iv; ev_ok := ok |}.

Definition ls_pend (p : params) (t : tid) (pc : ls_pc) : option event :=
  match pc with
  | LBudget r =>
    if budget_ok p r
    then match p_kind p with KExp _ => None | KFixed => Some (mk_event t r (p_init p) true) end
    else Some (mk_event t r 0 false)
  | LRetMax0 r | LRetMax1 r => Some (mk_event t r (p_max p) true)
  | LRetIv r => Some (mk_event t r (fst (compute (ls_variant p) p r)) true)
  | LRetFixed r => Some (mk_event t r (p_init p) true)
  | LRetNo r => Some (mk_event t r 0 false)
  | _ => None
  end.

Definition ls_fl1 (p : params) (x : tid * ls_pc) : list (nat * RetryModel.pc) :=
  match ls_fl p (snd x) with Some y => [(fst x, y)] | None => [] end.
Definition ls_pd1 (p : params) (x : tid * ls_pc) : list event :=
  match ls_pend p (fst x) (snd x) with Some e => [e] | None => [] end.

Definition ls_inflight (p : params) (l : list (tid * ls_pc)) : list (nat * RetryModel.pc) :=
  flat_map (ls_fl1 p) l.
Definition ls_pending (p : params) (l : list (tid * ls_pc)) : list event :=
  flat_map (ls_pd1 p) l.

(* the RetryModel schedule a statement-level event list projects to: the thread id of every
   event that takes one of the three atomic steps, in order *)
Definition ls_is_atomic_step (p : params) (pc : ls_pc) : bool :=
  match pc with
  | LAdd | LLoad _ | LStore _ => true
  | LChk r => match p_kind p with KExp v => negb (snd (compute v p r)) | KFixed => false end
  | _ => false
  end.

Fixpoint ls_project (p : params) (c : ls_cfg) (evs : list ls_ev) : sched :=
  match evs with
  | [] => []
  | e :: rest =>
    match ls_step p c e with
    | None => []
    | Some c' =>
      match e with
      | LSCall _ => ls_project p c' rest
      | LSStep t =>
        match Conc.lookup t (ls_thr c) with
        | Some pc => if ls_is_atomic_step p pc then t :: ls_project p c' rest else ls_project p c' rest
        | None => ls_project p c' rest
        end
      end
    end
  end.

(* ---- vocabulary of the theorem statements ---- *)
(* a call in flight that has drawn its ticket and is (or will be) granted *)
Definition ls_will_grant (p : params) (pc : ls_pc) : bool :=
  match pc with
  | LAdd => false
  | LBudget r => budget_ok p r
  | LRetNo _ => false
  | _ => true
  end.

(* a call in flight that has drawn its ticket *)
Definition ls_has_ticket (pc : ls_pc) : bool := match pc with LAdd => false | _ => true end.

(* what is known about a call at its program counter (the inductive invariant of the proofs):
   the statements of the exponential strategy are only reached by an exponential strategy, and the
   store is only reached when the test of LChk succeeded *)
Definition ls_pc_ok (p : params) (pc : ls_pc) : Prop :=
  match pc with
  | LStore r => exists v, p_kind p = KExp v /\ snd (compute v p r) = true
  | _ => True
  end.

(* witness of ls_interval_wrap_refuted (the schedule of RetryModel.wrap_witness_sched at statement
   level): callers 1..25 each call Next, execute the atomic add, the budget test and the flag load
   (all see the flag unset); then caller 25 executes its remaining statements and returns *)
Definition ls_wrap_witness (tail : nat) : list ls_ev :=
  flat_map (fun t => [LSCall t; LSStep t; LSStep t; LSStep t]) (seq 1 25) ++ repeat (LSStep 25%nat) tail.

(* two callers race for the last retry: both add before either tests the budget *)
Definition ls_last_retry_race : list ls_ev :=
  [LSCall 1%nat; LSCall 2%nat; LSStep 1%nat; LSStep 2%nat;
   LSStep 2%nat; LSStep 2%nat; LSStep 1%nat; LSStep 1%nat].
