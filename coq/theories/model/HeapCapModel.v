(* HeapCapModel — memory-level model of internal/queue/priority_queue.go (C05, clause "across
   any amount of internal growth and shrinking").  HeapModel keeps only the CONTENTS of
   p.data, so slice.Shrink is the identity there.  Here p.data is a Go slice HEADER
   (backing array, len, cap) over a STORE of backing arrays, and every statement of
   Enqueue / Dequeue / Peek / shrinkIfNecessary / heapify / slice.Shrink is transcribed as the
   memory operation Go performs:

     s[i] (read)         ld:      Panic unless i < len(s)
     s[i] = v            st_at:   Panic unless i < len(s); writes the array s points to
     append(s, v)        app:     in place (slot len of s's array) when len < cap, otherwise a fresh
                                  array holding a copy; the new capacity is an ORACLE carried by the
                                  operation (read from the implementation: the growth policy of the
                                  Go runtime is not modelled), clamped from below by len+1
     s[:k]               reslice: same array, Panic unless k <= cap
     make([]T, 0, n)     mk:      a fresh zeroed array of n slots at the end of the store
     append(s, src...)   app_all: copies len(src) elements (in place when they fit)

   An array never changes its length (= its capacity); arrays are never removed from the store,
   so a stale header keeps denoting its old array — exactly the aliasing that matters when
   Shrink re-allocates between the removal and the sift-down in Dequeue.
   calCapacity is ListModel.cal_capacity (the C04 model of internal/slice/shrink.go).
   Offsets are always 0 (the code never slices p.data from the left).
   Definitions only; proofs in proof/HeapCapProof.v. *)
From Ekit Require Import Common HeapModel.
From Ekit Require ListModel.
From Coq Require Import Arith.

Definition store := list (list Z).
Record hd := mkhd { h_arr : nat; h_len : nat; h_cap : nat }.
Definition arr_of (st : store) (a : nat) : list Z := nth a st [].

Definition ld (st : store) (h : hd) (i : nat) : hres Z :=
  if (i <? h_len h)%nat then
    match nth_opt (arr_of st (h_arr h)) i with Some v => HOk v | None => HPanic end
  else HPanic.

Definition st_at (st : store) (h : hd) (i : nat) (v : Z) : hres store :=
  if (i <? h_len h)%nat then
    let a := arr_of st (h_arr h) in
    if (i <? length a)%nat then HOk (set_nth st (h_arr h) (set_nth a i v)) else HPanic
  else HPanic.

Definition mk (st : store) (n : nat) : store * hd :=
  (st ++ [repeat 0 n], mkhd (length st) 0 n).

Definition reslice (h : hd) (k : nat) : hres hd :=
  if (k <=? h_cap h)%nat then HOk (mkhd (h_arr h) k (h_cap h)) else HPanic.

(* append(s, v) *)
Definition app (st : store) (h : hd) (v : Z) (oracle : nat) : store * hd :=
  if (h_len h <? h_cap h)%nat then
    (set_nth st (h_arr h) (set_nth (arr_of st (h_arr h)) (h_len h) v),
     mkhd (h_arr h) (S (h_len h)) (h_cap h))
  else
    let c := Nat.max (S (h_len h)) oracle in
    (st ++ [firstn (h_len h) (arr_of st (h_arr h)) ++ v :: repeat 0 (c - S (h_len h))],
     mkhd (length st) (S (h_len h)) c).

(* append(s, src...) for an empty s (len 0): in place when len(src) <= cap(s); otherwise Go
   allocates an array of at least len(src) slots (proved unreachable from Shrink) *)
Definition app_all (st : store) (s src : hd) : store * hd :=
  let w := firstn (h_len src) (arr_of st (h_arr src)) in
  if (h_len src <=? h_cap s)%nat then
    (set_nth st (h_arr s) (w ++ repeat 0 (h_cap s - h_len src)), mkhd (h_arr s) (h_len src) (h_cap s))
  else
    (st ++ [w], mkhd (length st) (h_len src) (h_len src)).

(* internal/slice/shrink.go Shrink *)
Definition cshrink (st : store) (src : hd) : store * hd :=
  let (n, changed) := ListModel.cal_capacity (Z.of_nat (h_cap src)) (Z.of_nat (h_len src)) in
  if negb changed then (st, src)
  else
    let (st1, s) := mk st (Z.to_nat n) in            (* s := make([]T, 0, n) *)
    app_all st1 s src.                               (* s = append(s, src...) *)

Record cpq := { c_capacity : Z; c_hdr : hd; c_store : store }.

(* Enqueue carries the capacity oracle for the case that append has to grow *)
Inductive cop := CEnqueue (v : Z) (oracle : nat) | CDequeue | CPeek | CLen.
Definition erase (o : cop) : op :=
  match o with CEnqueue v _ => Enqueue v | CDequeue => Dequeue | CPeek => Peek | CLen => Len end.

Section WithCmp.
  Variable cmp : Z -> Z -> Z.

  (* NewPriorityQueue: data = make([]T, 1, sliceCap) *)
  Definition cnew (c : Z) : cpq :=
    let cap := if c <? 1 then 0 else c in
    let slice_cap := if c <? 1 then 64%nat else Z.to_nat (c + 1) in
    {| c_capacity := cap; c_hdr := mkhd 0 1 slice_cap; c_store := [repeat 0 slice_cap] |}.

  Definition clen (p : cpq) : Z := Z.of_nat (h_len (c_hdr p)) - 1.
  Definition c_is_boundless (p : cpq) : bool := c_capacity p <=? 0.
  Definition c_is_full (p : cpq) : bool :=
    (0 <? c_capacity p) && (Z.of_nat (h_len (c_hdr p)) - 1 =? c_capacity p).
  Definition c_is_empty (p : cpq) : bool := (h_len (c_hdr p) <? 2)%nat.

  (* data[i], data[j] = data[j], data[i] *)
  Definition cswap (st : store) (h : hd) (i j : nat) : hres store :=
    hbind (ld st h i) (fun x =>
    hbind (ld st h j) (fun y =>
    hbind (st_at st h i y) (fun st1 => st_at st1 h j x))).

  Fixpoint csift_up (fuel : nat) (st : store) (h : hd) (node parent : nat) : hres store :=
    match fuel with
    | O => HOutOfFuel
    | S f =>
      if (0 <? parent)%nat then
        hbind (ld st h node) (fun x =>
        hbind (ld st h parent) (fun y =>
        if cmp x y <? 0 then
          hbind (cswap st h parent node) (fun st' => csift_up f st' h parent (parent / 2))
        else HOk st))
      else HOk st
    end.

  Definition cpick (st : store) (h : hd) (n child minPos : nat) : hres nat :=
    if (child <=? n)%nat then
      hbind (ld st h child) (fun x =>
      hbind (ld st h minPos) (fun y =>
      HOk (if cmp x y <? 0 then child else minPos)))
    else HOk minPos.

  (* heapify(data, n, i): `h` is the slice header PASSED to heapify *)
  Fixpoint cheapify (fuel : nat) (st : store) (h : hd) (n i minPos : nat) : hres store :=
    match fuel with
    | O => HOutOfFuel
    | S f =>
      hbind (cpick st h n (i * 2) minPos) (fun m1 =>
      hbind (cpick st h n (i * 2 + 1) m1) (fun m2 =>
      if (m2 =? i)%nat then HOk st
      else hbind (cswap st h i m2) (fun st' => cheapify f st' h n m2 m2)))
    end.

  Definition cenqueue (p : cpq) (v : Z) (oracle : nat) : cpq * hres ret :=
    if c_is_full p then (p, HErr EFull)
    else
      let (st1, h1) := app (c_store p) (c_hdr p) v oracle in     (* p.data = append(p.data, t) *)
      let node := (h_len h1 - 1)%nat in
      let parent := ((h_len h1 - 1) / 2)%nat in
      match csift_up (h_len h1) st1 h1 node parent with
      | HOk st2 => ({| c_capacity := c_capacity p; c_hdr := h1; c_store := st2 |}, HOk RUnit)
      | HErr e => (p, HErr e)
      | HPanic => (p, HPanic)
      | HOutOfFuel => (p, HOutOfFuel)
      end.

  (* p.shrinkIfNecessary() *)
  Definition cshrink_if_necessary (p : cpq) (st : store) (h : hd) : store * hd :=
    if c_is_boundless p then cshrink st h else (st, h).

  Definition cdequeue (p : cpq) : cpq * hres ret :=
    if c_is_empty p then (p, HErr EEmpty)
    else
      let st := c_store p in
      let h := c_hdr p in
      let r :=
        hbind (ld st h 1) (fun pop =>                              (* pop := p.data[1] *)
        hbind (ld st h (h_len h - 1)) (fun last =>                 (* p.data[len-1] *)
        hbind (st_at st h 1 last) (fun st1 =>                      (* p.data[1] = ... *)
        hbind (if (1 <=? h_len h)%nat then reslice h (h_len h - 1) else HPanic) (fun h2 =>   (* p.data[:len-1] *)
        let (st3, h3) := cshrink_if_necessary p st1 h2 in          (* p.data is now h3 *)
        hbind (cheapify (h_len h3) st3 h3 (h_len h3 - 1) 1 1) (fun st4 =>   (* heapify(p.data, len(p.data)-1, 1) *)
        HOk (st4, h3, pop)))))) in
      match r with
      | HOk (st4, h3, pop) => ({| c_capacity := c_capacity p; c_hdr := h3; c_store := st4 |}, HOk (RVal pop))
      | HErr e => (p, HErr e)
      | HPanic => (p, HPanic)
      | HOutOfFuel => (p, HOutOfFuel)
      end.

  Definition cpeek (p : cpq) : hres ret :=
    if c_is_empty p then HErr EEmpty
    else hbind (ld (c_store p) (c_hdr p) 1) (fun x => HOk (RVal x)).

  Definition cstep (p : cpq) (o : cop) : cpq * hres ret :=
    match o with
    | CEnqueue v oracle => cenqueue p v oracle
    | CDequeue => cdequeue p
    | CPeek => (p, cpeek p)
    | CLen => (p, HOk (RLen (clen p)))
    end.

  Fixpoint crun (p : cpq) (ops : list cop) : cpq * list (hres ret) :=
    match ops with
    | [] => (p, [])
    | o :: t =>
      let (p1, r) := cstep p o in
      let (p2, rs) := crun p1 t in
      (p2, r :: rs)
    end.

  (* ---------- specification vocabulary ---------- *)

  (* the live contents: the first len slots of the array p.data points to *)
  Definition live (st : store) (h : hd) : list Z := firstn (h_len h) (arr_of st (h_arr h)).
  Definition clive (p : cpq) : list Z := live (c_store p) (c_hdr p).

  (* the header denotes an existing array whose length is its capacity *)
  Definition hwf (st : store) (h : hd) : Prop :=
    (h_arr h < length st)%nat /\ length (arr_of st (h_arr h)) = h_cap h /\ (h_len h <= h_cap h)%nat.

  (* the memory-level state represents the HeapModel state *)
  Definition represents (cp : cpq) (p : pq) : Prop :=
    c_capacity cp = capacity p /\ hwf (c_store cp) (c_hdr cp) /\ clive cp = data p.

  (* the capacity rule: what cap(p.data) is after an operation that succeeded *)
  Definition cap_after (p : cpq) (o : cop) : nat :=
    let h := c_hdr p in
    match o with
    | CEnqueue _ oracle =>
        if (h_len h <? h_cap h)%nat then h_cap h else Nat.max (S (h_len h)) oracle
    | CDequeue =>
        if c_is_boundless p then
          let (n, changed) := ListModel.cal_capacity (Z.of_nat (h_cap h)) (Z.of_nat (h_len h) - 1) in
          if changed then Z.to_nat n else h_cap h
        else h_cap h
    | CPeek | CLen => h_cap h
    end.

  Inductive creachable (c : Z) : cpq -> Prop :=
  | creach_new : creachable c (cnew c)
  | creach_step p o : creachable c p -> creachable c (fst (cstep p o)).
End WithCmp.
