(* POINTER-LEVEL executable model of /repo/list/linked_list.go (property C04).

   ListModel.v abstracts the LinkedList to the list of its values (`llist`, `ll_add = insert_at`,
   `ll_delete = remove_at`).  This file is the literal transcription of the Go code: a heap of nodes
   addressed by ids, every node with the Go fields  val, prev, next ; the list object with the fields
   head, tail, length ; and every Go function statement by statement, in the Go order:

     pNew pNewOf findNode checkIndex pGet pAppend pAdd pSet pDelete pLen pCap pRange pAsSlice
     (= NewLinkedList NewLinkedListOf findNode checkIndex Get Append Add Set Delete Len Cap Range AsSlice)

   * nil = None.  A field access `p.f` on a nil pointer is a Go run-time panic: [load]/[store] of None
     answer [RPanic] (so does a dangling id, which Go's memory safety excludes).  "Never RPanic" is a
     theorem (props/C04_llptr.v), not an assumption.
   * `&node[T]{...}` allocates a fresh id ([alloc]); nothing is ever freed (Go: garbage collection);
     the node unlinked by Delete stays in the heap with prev = next = nil, exactly as in Go.
   * tuple assignments `a.x, b.y = u, v` evaluate the pointer operands a, b (and u, v) first and then
     assign left to right (Go specification, "Assignment statements").
   * loops: every loop of the file has a syntactic trip count (`for i := -1; i < index; i++`,
     `for i := Len(); i > index; i--`, `for ...; i < l.length; i++`, `range ts`), which becomes the
     structural argument of a Fixpoint; no fuel is needed.
   * `int` is Z; `l.Len()/2` is Go's truncated division [Z.quot].
   * slices returned by AsSlice are backing arrays in a second heap [lp_arrs] (`make` allocates a fresh
     zero-filled array, `slice[i] = v` is a bounds-checked store), so that "fresh" and "shares nothing"
     are statements about an explicit store.  [arr_write] is a CLIENT's write into a returned slice.
   * [lp_ticks] is ghost instrumentation: the number of links (`cur.next` / `cur.prev`) followed by the
     two loops of findNode.
   * Range's callback is the one of ListModel.OpRange: it returns an error when called with index `stop`.

   Definitions only; proofs are in proof/LinkedPtrProof.v. *)
From Ekit Require Import Common ListModel.
From Coq Require Import FMapPositive.

Definition nid := positive.
Definition nptr := option nid.

Record lnode := mkln { nval : Z; nprev : nptr; nnext : nptr }.

Definition nheap := PositiveMap.t lnode.
Definition aheap := PositiveMap.t (list Z).
Definition hfind (h : nheap) (i : nid) : option lnode := PositiveMap.find i h.
Definition hset (h : nheap) (i : nid) (n : lnode) : nheap := PositiveMap.add i n h.
Definition afind (h : aheap) (i : positive) : option (list Z) := PositiveMap.find i h.
Definition aset (h : aheap) (i : positive) (l : list Z) : aheap := PositiveMap.add i l h.

Record lpstate := mklp {
  lp_heap : nheap;      (* the node objects *)
  lp_head : nptr;       (* l.head *)
  lp_tail : nptr;       (* l.tail *)
  lp_len : Z;           (* l.length *)
  lp_next : nid;        (* node allocator: next fresh id *)
  lp_arrs : aheap;      (* backing arrays of the slices made by AsSlice *)
  lp_anext : positive;  (* array allocator *)
  lp_ticks : nat }.     (* ghost: links followed by findNode *)

Definition lp_empty : lpstate :=
  mklp (PositiveMap.empty lnode) None None 0 1%positive (PositiveMap.empty (list Z)) 1%positive O.

(* ---------- the state-and-failure monad ---------- *)
Inductive res (A : Type) :=
| ROk (a : A) (s : lpstate)
| RPanic.                    (* Go run-time panic: nil dereference / index out of range / make(<0) *)
Arguments ROk {A} a s.
Arguments RPanic {A}.

Definition M (A : Type) := lpstate -> res A.
Definition ret {A} (a : A) : M A := fun s => ROk a s.
Definition bind {A B} (m : M A) (f : A -> M B) : M B :=
  fun s => match m s with ROk a s' => f a s' | RPanic => RPanic end.
Definition panic {A} : M A := fun _ => RPanic.

Notation "x <- m ;; k" := (bind m (fun x => k)) (at level 61, m at next level, right associativity).
Notation "m ;;; k" := (bind m (fun _ => k)) (at level 61, right associativity).

(* ---------- primitive accesses ---------- *)
Definition set_heap (h : nheap) (s : lpstate) : lpstate :=
  mklp h (lp_head s) (lp_tail s) (lp_len s) (lp_next s) (lp_arrs s) (lp_anext s) (lp_ticks s).

Definition load (p : nptr) : M lnode := fun s =>
  match p with
  | None => RPanic
  | Some i => match hfind (lp_heap s) i with Some n => ROk n s | None => RPanic end
  end.
Definition store (p : nptr) (f : lnode -> lnode) : M unit := fun s =>
  match p with
  | None => RPanic
  | Some i =>
    match hfind (lp_heap s) i with
    | Some n => ROk tt (set_heap (hset (lp_heap s) i (f n)) s)
    | None => RPanic
    end
  end.
Definition alloc (n : lnode) : M nptr := fun s =>
  ROk (Some (lp_next s))
      (mklp (hset (lp_heap s) (lp_next s) n) (lp_head s) (lp_tail s) (lp_len s)
            (Pos.succ (lp_next s)) (lp_arrs s) (lp_anext s) (lp_ticks s)).
Definition get_head : M nptr := fun s => ROk (lp_head s) s.
Definition get_tail : M nptr := fun s => ROk (lp_tail s) s.
Definition get_len : M Z := fun s => ROk (lp_len s) s.
Definition set_head (p : nptr) : M unit := fun s =>
  ROk tt (mklp (lp_heap s) p (lp_tail s) (lp_len s) (lp_next s) (lp_arrs s) (lp_anext s) (lp_ticks s)).
Definition set_tail (p : nptr) : M unit := fun s =>
  ROk tt (mklp (lp_heap s) (lp_head s) p (lp_len s) (lp_next s) (lp_arrs s) (lp_anext s) (lp_ticks s)).
Definition set_len (z : Z) : M unit := fun s =>
  ROk tt (mklp (lp_heap s) (lp_head s) (lp_tail s) z (lp_next s) (lp_arrs s) (lp_anext s) (lp_ticks s)).
Definition add_ticks (k : nat) (s : lpstate) : lpstate :=
  mklp (lp_heap s) (lp_head s) (lp_tail s) (lp_len s) (lp_next s) (lp_arrs s) (lp_anext s)
       (k + lp_ticks s).
Definition tick : M unit := fun s => ROk tt (add_ticks 1 s).

(* p.f  (panics when p is nil) *)
Definition fld {A} (f : lnode -> A) (p : nptr) : M A := n <- load p ;; ret (f n).
(* p.f = x *)
Definition with_val (v : Z) (n : lnode) := mkln v (nprev n) (nnext n).
Definition with_prev (x : nptr) (n : lnode) := mkln (nval n) x (nnext n).
Definition with_next (x : nptr) (n : lnode) := mkln (nval n) (nprev n) x.
Definition set_val (p : nptr) (v : Z) : M unit := store p (with_val v).
Definition set_prev (p x : nptr) : M unit := store p (with_prev x).
Definition set_next (p x : nptr) : M unit := store p (with_next x).

(* make([]T, n): a fresh zero-filled array; panics when n < 0 *)
Definition make_arr (n : Z) : M positive := fun s =>
  if n <? 0 then RPanic
  else ROk (lp_anext s)
           (mklp (lp_heap s) (lp_head s) (lp_tail s) (lp_len s) (lp_next s)
                 (aset (lp_arrs s) (lp_anext s) (zeros (Z.to_nat n))) (Pos.succ (lp_anext s))
                 (lp_ticks s)).
Definition set_arrs (a : aheap) (s : lpstate) : lpstate :=
  mklp (lp_heap s) (lp_head s) (lp_tail s) (lp_len s) (lp_next s) a (lp_anext s) (lp_ticks s).
(* slice[i] = v: bounds-checked *)
Definition arr_store (a : positive) (i v : Z) : M unit := fun s =>
  match afind (lp_arrs s) a with
  | Some l => if in_idx i (zlen l)
              then ROk tt (set_arrs (aset (lp_arrs s) a (set_nth l (Z.to_nat i) v)) s)
              else RPanic
  | None => RPanic
  end.
Definition arr_read (a : positive) : M (list Z) := fun s =>
  match afind (lp_arrs s) a with Some l => ROk l s | None => RPanic end.
(* a client of the list writes into a slice it got from AsSlice (no-op when out of range) *)
Definition arr_write (a : positive) (i v : Z) (s : lpstate) : lpstate :=
  match arr_store a i v s with ROk _ s' => s' | RPanic => s end.

(* ====================================================================== *)
(* list/linked_list.go                                                     *)
(* ====================================================================== *)

(* func NewLinkedList:
     head := &node[T]{}
     tail := &node[T]{next: head, prev: head}
     head.next, head.prev = tail, tail
     return &LinkedList[T]{head: head, tail: tail} *)
Definition pNew : M unit :=
  head <- alloc (mkln 0 None None) ;;
  tail <- alloc (mkln 0 head head) ;;
  set_next head tail ;;; set_prev head tail ;;;
  set_head head ;;; set_tail tail ;;; set_len 0.

Definition pLen : M Z := get_len.
Definition pCap : M Z := pLen.

(* one iteration of Append:
     node := &node[T]{prev: l.tail.prev, next: l.tail, val: t}
     node.prev.next, node.next.prev = node, node
     l.length++ *)
Definition push_back (t : Z) : M unit :=
  tl <- get_tail ;; tp <- fld nprev tl ;; tl2 <- get_tail ;;
  nd <- alloc (mkln t tp tl2) ;;
  a <- fld nprev nd ;; b <- fld nnext nd ;;
  set_next a nd ;;; set_prev b nd ;;;
  len <- get_len ;; set_len (len + 1).

(* for _, t := range ts { ... } *)
Fixpoint append_loop (ts : list Z) : M unit :=
  match ts with
  | [] => ret tt
  | t :: r => push_back t ;;; append_loop r
  end.

Definition pAppend (ts : list Z) : M (outcome out) := append_loop ts ;;; ret (Ok OUnit).

(* func NewLinkedListOf(ts): list := NewLinkedList(); if err := list.Append(ts...); err != nil { panic(err) } *)
Definition pNewOf (ts : list Z) : M unit :=
  pNew ;;; r <- pAppend ts ;;
  match r with Ok _ => ret tt | _ => panic end.

(* for i := -1; i < index; i++ { cur = cur.next } *)
Fixpoint walk_next (k : nat) (cur : nptr) : M nptr :=
  match k with
  | O => ret cur
  | S k' => tick ;;; c <- fld nnext cur ;; walk_next k' c
  end.
(* for i := l.Len(); i > index; i-- { cur = cur.prev } *)
Fixpoint walk_prev (k : nat) (cur : nptr) : M nptr :=
  match k with
  | O => ret cur
  | S k' => tick ;;; c <- fld nprev cur ;; walk_prev k' c
  end.

(* func findNode(index):
     if index <= l.Len()/2 { cur = l.head; for i := -1; i < index; i++ { cur = cur.next } }
     else { cur = l.tail; for i := l.Len(); i > index; i-- { cur = cur.prev } } *)
Definition findNode (index : Z) : M nptr :=
  len <- pLen ;;
  if index <=? Z.quot len 2
  then cur <- get_head ;; walk_next (Z.to_nat (index + 1)) cur
  else cur <- get_tail ;; len2 <- pLen ;; walk_prev (Z.to_nat (len2 - index)) cur.

(* return 0 <= index && index < l.Len() *)
Definition checkIndex (index : Z) : M bool :=
  if 0 <=? index then len <- pLen ;; ret (index <? len) else ret false.

Definition pGet (index : Z) : M (outcome out) :=
  ok <- checkIndex index ;;
  if negb ok then ret (Err EIndex)
  else n <- findNode index ;; v <- fld nval n ;; ret (Ok (OVal v)).

(* func Add(index, t):
     if index < 0 || index > l.length { return ErrIndexOutOfRange }
     if index == l.length { return l.Append(t) }
     next := l.findNode(index)
     node := &node[T]{prev: next.prev, next: next, val: t}
     node.prev.next, node.next.prev = node, node
     l.length++ *)
Definition pAdd (index t : Z) : M (outcome out) :=
  len <- get_len ;;
  if (index <? 0) || (index >? len) then ret (Err EIndex)
  else
    len1 <- get_len ;;
    if index =? len1 then pAppend [t]
    else
      next <- findNode index ;;
      np <- fld nprev next ;;
      nd <- alloc (mkln t np next) ;;
      a <- fld nprev nd ;; b <- fld nnext nd ;;
      set_next a nd ;;; set_prev b nd ;;;
      len2 <- get_len ;; set_len (len2 + 1) ;;;
      ret (Ok OUnit).

(* func Set(index, t): if !checkIndex { return err }; node := findNode(index); node.val = t *)
Definition pSet (index t : Z) : M (outcome out) :=
  ok <- checkIndex index ;;
  if negb ok then ret (Err EIndex)
  else nd <- findNode index ;; set_val nd t ;;; ret (Ok OUnit).

(* func Delete(index):
     if !checkIndex { return zero, err }
     node := l.findNode(index)
     node.prev.next = node.next
     node.next.prev = node.prev
     node.prev, node.next = nil, nil
     l.length--
     return node.val, nil *)
Definition pDelete (index : Z) : M (outcome out) :=
  ok <- checkIndex index ;;
  if negb ok then ret (Err EIndex)
  else
    nd <- findNode index ;;
    a <- fld nprev nd ;; nx <- fld nnext nd ;; set_next a nx ;;;
    b <- fld nnext nd ;; pv <- fld nprev nd ;; set_prev b pv ;;;
    set_prev nd None ;;; set_next nd None ;;;
    len <- get_len ;; set_len (len - 1) ;;;
    v <- fld nval nd ;; ret (Ok (OVal v)).

(* for cur, i := l.head.next, 0; i < l.length; i++ { err := fn(i, cur.val); if err != nil { return err }; cur = cur.next } *)
Fixpoint range_walk (k : nat) (cur : nptr) (i stop : Z) : M (list (Z * Z) * bool) :=
  match k with
  | O => ret ([], false)
  | S k' =>
      v <- fld nval cur ;;
      if i =? stop then ret ([(i, v)], true)
      else c <- fld nnext cur ;; r <- range_walk k' c (i + 1) stop ;; ret ((i, v) :: fst r, snd r)
  end.

Definition pRange (stop : Z) : M (outcome out) :=
  hd <- get_head ;; cur <- fld nnext hd ;; len <- get_len ;;
  r <- range_walk (Z.to_nat len) cur 0 stop ;;
  ret (Ok (ORange (fst r) (snd r))).

(* slice := make([]T, l.length)
   for cur, i := l.head.next, 0; i < l.length; i++ { slice[i] = cur.val; cur = cur.next }
   return slice                     -- the result is the id of the backing array *)
Fixpoint fill_walk (k : nat) (cur : nptr) (i : Z) (a : positive) : M unit :=
  match k with
  | O => ret tt
  | S k' => v <- fld nval cur ;; arr_store a i v ;;; c <- fld nnext cur ;; fill_walk k' c (i + 1) a
  end.

Definition pAsSlice : M positive :=
  len <- get_len ;; a <- make_arr len ;;
  hd <- get_head ;; cur <- fld nnext hd ;; len2 <- get_len ;;
  fill_walk (Z.to_nat len2) cur 0 a ;;; ret a.

(* one call; the outputs are ListModel's (an AsSlice result is observed by reading the new array;
   `make` never yields nil) *)
Definition pstep (o : op) : M (outcome out) :=
  match o with
  | OpGet i => pGet i
  | OpAppend xs => pAppend xs
  | OpAdd i x => pAdd i x
  | OpSet i x => pSet i x
  | OpDelete i => pDelete i
  | OpLen => n <- pLen ;; ret (Ok (OLen n))
  | OpCap => c <- pCap ;; ret (Ok (OCap c))
  | OpRange stop => pRange stop
  | OpAsSlice => a <- pAsSlice ;; l <- arr_read a ;; ret (Ok (OSlice false l))
  end.

(* histories in ListModel's format (operation, capacity oracle); the oracle is not used *)
Fixpoint prun (h : list (op * Z)) : M (list (outcome out)) :=
  match h with
  | [] => ret []
  | (o, _) :: t => r <- pstep o ;; rs <- prun t ;; ret (r :: rs)
  end.

(* ====================================================================== *)
(* Reading the structure back from the store                               *)
(* ====================================================================== *)
(* the ids met by following field f for at most k nodes, starting at p; stops at nil / a dangling id *)
Fixpoint follow (f : lnode -> nptr) (h : nheap) (k : nat) (p : nptr) : list nid :=
  match k with
  | O => []
  | S k' =>
      match p with
      | None => []
      | Some i => i :: match hfind h i with Some n => follow f h k' (f n) | None => [] end
      end
  end.

(* head, n1 .. nlen, tail, head  and  tail, nlen .. n1, head, tail  when the list is well formed *)
Definition fwd_ring (s : lpstate) : list nid :=
  follow nnext (lp_heap s) (Z.to_nat (lp_len s) + 3) (lp_head s).
Definition bwd_ring (s : lpstate) : list nid :=
  follow nprev (lp_heap s) (Z.to_nat (lp_len s) + 3) (lp_tail s).

Definition val_of (h : nheap) (i : nid) : Z :=
  match hfind h i with Some n => nval n | None => 0 end.

(* the values met walking `length` nodes forward from head.next / backward from tail.prev *)
Definition fwd_vals (s : lpstate) : list Z :=
  map (val_of (lp_heap s)) (firstn (Z.to_nat (lp_len s)) (tl (fwd_ring s))).
Definition bwd_vals (s : lpstate) : list Z :=
  map (val_of (lp_heap s)) (firstn (Z.to_nat (lp_len s)) (tl (bwd_ring s))).

(* ---------- the representation invariant ---------- *)
Definition fget {A} (f : lnode -> A) (h : nheap) (i : nid) : option A := option_map f (hfind h i).

(* every two consecutive ids a, b of L are linked both ways: a.next = b and b.prev = a *)
Fixpoint dlinks (gn gp : nid -> option nptr) (L : list nid) : Prop :=
  match L with
  | a :: t =>
      match t with
      | b :: _ => gn a = Some (Some b) /\ gp b = Some (Some a) /\ dlinks gn gp t
      | [] => True
      end
  | [] => True
  end.

(* s holds the ring  hd <-> c1 <-> ... <-> cn <-> tl <-> hd  whose inner nodes are the ids and values
   `cells`:  distinct ids (sentinels not shared with each other or with a value node), consecutive nodes linked
   both ways (so prev(next(x)) = x), the ring closed through the sentinels as NewLinkedList builds it,
   the values stored in the nodes, the length field = number of value nodes, every node and every array below
   its allocator (so that the next allocation is fresh) *)
Definition ll_rep (s : lpstate) (hd tl : nid) (cells : list (nid * Z)) : Prop :=
  lp_head s = Some hd /\ lp_tail s = Some tl /\
  NoDup (hd :: map fst cells ++ [tl]) /\
  dlinks (fget nnext (lp_heap s)) (fget nprev (lp_heap s)) (hd :: map fst cells ++ [tl]) /\
  fget nnext (lp_heap s) tl = Some (Some hd) /\
  fget nprev (lp_heap s) hd = Some (Some tl) /\
  Forall (fun c => fget nval (lp_heap s) (fst c) = Some (snd c)) cells /\
  lp_len s = zlen cells /\
  (forall i, hfind (lp_heap s) i <> None -> (i < lp_next s)%positive) /\
  (forall j, afind (lp_arrs s) j <> None -> (j < lp_anext s)%positive).

Definition ll_wf (s : lpstate) : Prop := exists hd tl cells, ll_rep s hd tl cells.

(* a node id is reachable from a sentinel by next links / by prev links *)
Definition reach_next (s : lpstate) (i : nid) : Prop :=
  exists k, In i (follow nnext (lp_heap s) k (lp_head s)) \/ In i (follow nnext (lp_heap s) k (lp_tail s)).
Definition reach_prev (s : lpstate) (i : nid) : Prop :=
  exists k, In i (follow nprev (lp_heap s) k (lp_head s)) \/ In i (follow nprev (lp_heap s) k (lp_tail s)).
