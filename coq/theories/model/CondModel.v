(* Statement-granular interleaving model of /repo/syncx/cond.go (property C13).
   One model step = one Go statement of Wait / Signal / Broadcast / checkCopy / checkFirstUse /
   newNotifyList / newChanList / notifyList.add,wait,notifyOne,notifyNext,notifyAll /
   chanList.len,front,alloc,pushBack,remove,free (the whole file is instrumented; the labels of the
   program counters are in ocaml/drv_cond.ml).  Definitions only.

   What is modelled
   * c.L: the user's lock, a harness mutex whose owner the model knows.  CALL wait takes it (the
     client calls Wait with L held), Wait's `c.L.Unlock()` releases it, the deferred `c.L.Lock()` runs
     inside the LAST step of Wait (after chanList.free's `l.pool.Put(elem)`): that step is enabled only
     while L is free, the call then returns holding L, and the client releases it with CALL unlock.
   * l.mu: a mutex; a step that would block on it is not enabled.
   * the notify list as the forward sequence [c_lst] (what `front()` follows) and, SEPARATELY, the
     counter [c_size] (what `len()` reads): pushBack links at `l.sentinel.prev.next = elem` and counts at
     `l.size++`; remove unlinks at `elem.prev.next = elem.next` and counts at `l.size--`.  The prev
     pointers are not represented (abstraction; every list statement runs under l.mu, see
     CondProof.mu_guards_list).
   * every node has a 1-buffered channel: [c_tok] = nodes whose channel holds a token.
   * the node pool with ORACLE reuse: the step `elem := l.pool.Get()` (chanList.alloc) carries a number o:
     0 = the pool misses (New runs: a fresh node id), S i = Get returns the i-th pooled node.
   * `select` in notifyList.wait: a ready case is taken (both ready: the oracle number decides, 0 = ctx);
     nothing ready = the thread parks (no observation); the notifier's `ch <- struct{}{}` hands the token
     to a parked owner directly (it wakes into `case <-ch:`), CANCEL wakes a parked thread into
     `case <-ctx.Done():`.
   * checkCopy's compound condition touches `checker` up to three times in ONE Go statement (atomic load,
     CAS nil -> self, atomic load; since commit 989ed9d all three are atomic); it is ONE model step
     (first use: nil -> self).  Interleavings inside that statement are not modelled.
   * sync.Once: the first caller runs the body, a caller arriving meanwhile blocks (step not enabled).
   Definedness obligations (the model has no transition, the proofs show the case is unreachable):
   front() of an empty list (would return the sentinel: nil channel), remove of a node that is not
   linked (nil prev pointer), send on a full channel under l.mu (dead-lock), c.L.Unlock by a non-owner.
   Ghost fields (never read by the transition function): g_* counters and sets. *)
From Ekit Require Import Common Conc.
From Coq Require Import Arith PeanoNat.

Definition node := nat.

Inductive caller := InWait | InSignal | InBroadcast.            (* who called checkCopy / checkFirstUse *)
Inductive nnctx := NNWait (n : node) | NNOne | NNAll.           (* who called notifyNext *)
Inductive rmctx := RMNext (k : nnctx) | RMWait.       (* who called chanList.remove; RMWait: the waiter unlinks its own node *)
Inductive lenctx := LenWait (n : node) | LenOne | LenAll.       (* who called chanList.len *)

(* program counter = the statement the thread is about to execute (+ the locals of its frames) *)
Inductive cpc :=
(* Cond.Wait *)
| W_CheckCopy | W_FirstUse | W_Add
| W_LUnlock (n : node) | W_DeferLock (n : node) | W_RetWait (n : node)
(* Cond.Signal / Cond.Broadcast *)
| S_CheckCopy | S_FirstUse | S_NotifyOne
| B_CheckCopy | B_FirstUse | B_NotifyAll
(* Cond.checkCopy *)
| CC_If (k : caller) | CC_Panic (k : caller)
(* Cond.checkFirstUse, newNotifyList, newChanList *)
| FU_Once (k : caller) | FU_IfNil (k : caller) | FU_Assign (k : caller)
| NL_Ret (k : caller)
| NC_1 (k : caller) | NC_2 (k : caller) | NC_3 (k : caller) | NC_Ret (k : caller)
(* notifyList.add, chanList.alloc (+ the pool's New), chanList.pushBack *)
| AD_Lock | AD_Defer | AD_Alloc
| AL_Get | AL_New | AL_Ret (n : node)
| AD_Push (n : node)
| PB_1 (n : node) | PB_2 (n : node) | PB_3 (n : node) | PB_4 (n : node) | PB_5 (n : node)
| AD_Ret (n : node)
(* notifyList.wait *)
| WT_Ch (n : node) | WT_DeferFree (n : node) | WT_Select (n : node)
| WT_Parked (n : node)                       (* blocked inside the outer select: not a yield point *)
| WT_CaseCtx (n : node) | WT_Lock (n : node) | WT_DeferUnlock (n : node) | WT_Select1 (n : node)
| WT_CaseTok (n : node) | WT_IfLen (n : node) | WT_Forward (n : node)
| WT_Default (n : node) | WT_Remove (n : node)
| WT_RetErr (n : node)
| WT_CaseCh (n : node) | WT_RetNil (n : node)
| FR_Put (n : node) (ok : bool)              (* chanList.free, run by the deferred call; ok = nil return *)
(* chanList.len / front *)
| LEN (x : lenctx)
| FT_Ret (k : nnctx)
(* notifyList.notifyOne / notifyAll *)
| NO_Lock | NO_Defer | NO_IfLen | NO_Ret | NO_Next
| NA_Lock | NA_Defer | NA_For | NA_Next
(* notifyList.notifyNext *)
| NN_Front (k : nnctx) | NN_Ch (k : nnctx) (f : node) | NN_Remove (k : nnctx) (f : node)
| NN_Send (k : nnctx) (f : node)
(* chanList.remove *)
| RM_1 (r : rmctx) (m : node) | RM_2 (r : rmctx) (m : node) | RM_3 (r : rmctx) (m : node)
| RM_4 (r : rmctx) (m : node) | RM_5 (r : rmctx) (m : node).

Inductive once_st := ONew | ORunning (r : tid) | ODone.   (* ORunning r: thread r executes the body *)
Inductive checker_st := CkNil | CkSelf | CkOther.   (* CkOther: this Cond value is a copy of a used one *)

Record ccfg := {
  c_L : option tid;
  c_mu : option tid;
  c_once : once_st;
  c_nl : bool;
  c_ck : checker_st;
  c_lst : list node;
  c_size : Z;
  c_tok : list node;
  c_pool : list node;
  c_next : node;
  c_thr : list (tid * cpc);
  c_canc : list tid;
  g_sig : Z;
  g_bcast : Z;
  g_nil : Z;
  g_err : Z;
  g_drop : Z;
  g_notified : list node;
  g_bsnap : list node;
  g_bsent : list node
}.

Definition set_L (v : option tid) (c : ccfg) : ccfg :=
  {| c_L := v; c_mu := c_mu c; c_once := c_once c; c_nl := c_nl c; c_ck := c_ck c; c_lst := c_lst c; c_size := c_size c; c_tok := c_tok c; c_pool := c_pool c; c_next := c_next c; c_thr := c_thr c; c_canc := c_canc c; g_sig := g_sig c; g_bcast := g_bcast c; g_nil := g_nil c; g_err := g_err c; g_drop := g_drop c; g_notified := g_notified c; g_bsnap := g_bsnap c; g_bsent := g_bsent c |}.
Definition set_mu (v : option tid) (c : ccfg) : ccfg :=
  {| c_L := c_L c; c_mu := v; c_once := c_once c; c_nl := c_nl c; c_ck := c_ck c; c_lst := c_lst c; c_size := c_size c; c_tok := c_tok c; c_pool := c_pool c; c_next := c_next c; c_thr := c_thr c; c_canc := c_canc c; g_sig := g_sig c; g_bcast := g_bcast c; g_nil := g_nil c; g_err := g_err c; g_drop := g_drop c; g_notified := g_notified c; g_bsnap := g_bsnap c; g_bsent := g_bsent c |}.
Definition set_once (v : once_st) (c : ccfg) : ccfg :=
  {| c_L := c_L c; c_mu := c_mu c; c_once := v; c_nl := c_nl c; c_ck := c_ck c; c_lst := c_lst c; c_size := c_size c; c_tok := c_tok c; c_pool := c_pool c; c_next := c_next c; c_thr := c_thr c; c_canc := c_canc c; g_sig := g_sig c; g_bcast := g_bcast c; g_nil := g_nil c; g_err := g_err c; g_drop := g_drop c; g_notified := g_notified c; g_bsnap := g_bsnap c; g_bsent := g_bsent c |}.
Definition set_nl (v : bool) (c : ccfg) : ccfg :=
  {| c_L := c_L c; c_mu := c_mu c; c_once := c_once c; c_nl := v; c_ck := c_ck c; c_lst := c_lst c; c_size := c_size c; c_tok := c_tok c; c_pool := c_pool c; c_next := c_next c; c_thr := c_thr c; c_canc := c_canc c; g_sig := g_sig c; g_bcast := g_bcast c; g_nil := g_nil c; g_err := g_err c; g_drop := g_drop c; g_notified := g_notified c; g_bsnap := g_bsnap c; g_bsent := g_bsent c |}.
Definition set_ck (v : checker_st) (c : ccfg) : ccfg :=
  {| c_L := c_L c; c_mu := c_mu c; c_once := c_once c; c_nl := c_nl c; c_ck := v; c_lst := c_lst c; c_size := c_size c; c_tok := c_tok c; c_pool := c_pool c; c_next := c_next c; c_thr := c_thr c; c_canc := c_canc c; g_sig := g_sig c; g_bcast := g_bcast c; g_nil := g_nil c; g_err := g_err c; g_drop := g_drop c; g_notified := g_notified c; g_bsnap := g_bsnap c; g_bsent := g_bsent c |}.
Definition set_lst (v : list node) (c : ccfg) : ccfg :=
  {| c_L := c_L c; c_mu := c_mu c; c_once := c_once c; c_nl := c_nl c; c_ck := c_ck c; c_lst := v; c_size := c_size c; c_tok := c_tok c; c_pool := c_pool c; c_next := c_next c; c_thr := c_thr c; c_canc := c_canc c; g_sig := g_sig c; g_bcast := g_bcast c; g_nil := g_nil c; g_err := g_err c; g_drop := g_drop c; g_notified := g_notified c; g_bsnap := g_bsnap c; g_bsent := g_bsent c |}.
Definition set_size (v : Z) (c : ccfg) : ccfg :=
  {| c_L := c_L c; c_mu := c_mu c; c_once := c_once c; c_nl := c_nl c; c_ck := c_ck c; c_lst := c_lst c; c_size := v; c_tok := c_tok c; c_pool := c_pool c; c_next := c_next c; c_thr := c_thr c; c_canc := c_canc c; g_sig := g_sig c; g_bcast := g_bcast c; g_nil := g_nil c; g_err := g_err c; g_drop := g_drop c; g_notified := g_notified c; g_bsnap := g_bsnap c; g_bsent := g_bsent c |}.
Definition set_tok (v : list node) (c : ccfg) : ccfg :=
  {| c_L := c_L c; c_mu := c_mu c; c_once := c_once c; c_nl := c_nl c; c_ck := c_ck c; c_lst := c_lst c; c_size := c_size c; c_tok := v; c_pool := c_pool c; c_next := c_next c; c_thr := c_thr c; c_canc := c_canc c; g_sig := g_sig c; g_bcast := g_bcast c; g_nil := g_nil c; g_err := g_err c; g_drop := g_drop c; g_notified := g_notified c; g_bsnap := g_bsnap c; g_bsent := g_bsent c |}.
Definition set_pool (v : list node) (c : ccfg) : ccfg :=
  {| c_L := c_L c; c_mu := c_mu c; c_once := c_once c; c_nl := c_nl c; c_ck := c_ck c; c_lst := c_lst c; c_size := c_size c; c_tok := c_tok c; c_pool := v; c_next := c_next c; c_thr := c_thr c; c_canc := c_canc c; g_sig := g_sig c; g_bcast := g_bcast c; g_nil := g_nil c; g_err := g_err c; g_drop := g_drop c; g_notified := g_notified c; g_bsnap := g_bsnap c; g_bsent := g_bsent c |}.
Definition set_next (v : node) (c : ccfg) : ccfg :=
  {| c_L := c_L c; c_mu := c_mu c; c_once := c_once c; c_nl := c_nl c; c_ck := c_ck c; c_lst := c_lst c; c_size := c_size c; c_tok := c_tok c; c_pool := c_pool c; c_next := v; c_thr := c_thr c; c_canc := c_canc c; g_sig := g_sig c; g_bcast := g_bcast c; g_nil := g_nil c; g_err := g_err c; g_drop := g_drop c; g_notified := g_notified c; g_bsnap := g_bsnap c; g_bsent := g_bsent c |}.
Definition set_thr (v : list (tid * cpc)) (c : ccfg) : ccfg :=
  {| c_L := c_L c; c_mu := c_mu c; c_once := c_once c; c_nl := c_nl c; c_ck := c_ck c; c_lst := c_lst c; c_size := c_size c; c_tok := c_tok c; c_pool := c_pool c; c_next := c_next c; c_thr := v; c_canc := c_canc c; g_sig := g_sig c; g_bcast := g_bcast c; g_nil := g_nil c; g_err := g_err c; g_drop := g_drop c; g_notified := g_notified c; g_bsnap := g_bsnap c; g_bsent := g_bsent c |}.
Definition set_canc (v : list tid) (c : ccfg) : ccfg :=
  {| c_L := c_L c; c_mu := c_mu c; c_once := c_once c; c_nl := c_nl c; c_ck := c_ck c; c_lst := c_lst c; c_size := c_size c; c_tok := c_tok c; c_pool := c_pool c; c_next := c_next c; c_thr := c_thr c; c_canc := v; g_sig := g_sig c; g_bcast := g_bcast c; g_nil := g_nil c; g_err := g_err c; g_drop := g_drop c; g_notified := g_notified c; g_bsnap := g_bsnap c; g_bsent := g_bsent c |}.
Definition set_sig (v : Z) (c : ccfg) : ccfg :=
  {| c_L := c_L c; c_mu := c_mu c; c_once := c_once c; c_nl := c_nl c; c_ck := c_ck c; c_lst := c_lst c; c_size := c_size c; c_tok := c_tok c; c_pool := c_pool c; c_next := c_next c; c_thr := c_thr c; c_canc := c_canc c; g_sig := v; g_bcast := g_bcast c; g_nil := g_nil c; g_err := g_err c; g_drop := g_drop c; g_notified := g_notified c; g_bsnap := g_bsnap c; g_bsent := g_bsent c |}.
Definition set_bcast (v : Z) (c : ccfg) : ccfg :=
  {| c_L := c_L c; c_mu := c_mu c; c_once := c_once c; c_nl := c_nl c; c_ck := c_ck c; c_lst := c_lst c; c_size := c_size c; c_tok := c_tok c; c_pool := c_pool c; c_next := c_next c; c_thr := c_thr c; c_canc := c_canc c; g_sig := g_sig c; g_bcast := v; g_nil := g_nil c; g_err := g_err c; g_drop := g_drop c; g_notified := g_notified c; g_bsnap := g_bsnap c; g_bsent := g_bsent c |}.
Definition set_nil (v : Z) (c : ccfg) : ccfg :=
  {| c_L := c_L c; c_mu := c_mu c; c_once := c_once c; c_nl := c_nl c; c_ck := c_ck c; c_lst := c_lst c; c_size := c_size c; c_tok := c_tok c; c_pool := c_pool c; c_next := c_next c; c_thr := c_thr c; c_canc := c_canc c; g_sig := g_sig c; g_bcast := g_bcast c; g_nil := v; g_err := g_err c; g_drop := g_drop c; g_notified := g_notified c; g_bsnap := g_bsnap c; g_bsent := g_bsent c |}.
Definition set_err (v : Z) (c : ccfg) : ccfg :=
  {| c_L := c_L c; c_mu := c_mu c; c_once := c_once c; c_nl := c_nl c; c_ck := c_ck c; c_lst := c_lst c; c_size := c_size c; c_tok := c_tok c; c_pool := c_pool c; c_next := c_next c; c_thr := c_thr c; c_canc := c_canc c; g_sig := g_sig c; g_bcast := g_bcast c; g_nil := g_nil c; g_err := v; g_drop := g_drop c; g_notified := g_notified c; g_bsnap := g_bsnap c; g_bsent := g_bsent c |}.
Definition set_drop (v : Z) (c : ccfg) : ccfg :=
  {| c_L := c_L c; c_mu := c_mu c; c_once := c_once c; c_nl := c_nl c; c_ck := c_ck c; c_lst := c_lst c; c_size := c_size c; c_tok := c_tok c; c_pool := c_pool c; c_next := c_next c; c_thr := c_thr c; c_canc := c_canc c; g_sig := g_sig c; g_bcast := g_bcast c; g_nil := g_nil c; g_err := g_err c; g_drop := v; g_notified := g_notified c; g_bsnap := g_bsnap c; g_bsent := g_bsent c |}.
Definition set_notified (v : list node) (c : ccfg) : ccfg :=
  {| c_L := c_L c; c_mu := c_mu c; c_once := c_once c; c_nl := c_nl c; c_ck := c_ck c; c_lst := c_lst c; c_size := c_size c; c_tok := c_tok c; c_pool := c_pool c; c_next := c_next c; c_thr := c_thr c; c_canc := c_canc c; g_sig := g_sig c; g_bcast := g_bcast c; g_nil := g_nil c; g_err := g_err c; g_drop := g_drop c; g_notified := v; g_bsnap := g_bsnap c; g_bsent := g_bsent c |}.
Definition set_bsnap (v : list node) (c : ccfg) : ccfg :=
  {| c_L := c_L c; c_mu := c_mu c; c_once := c_once c; c_nl := c_nl c; c_ck := c_ck c; c_lst := c_lst c; c_size := c_size c; c_tok := c_tok c; c_pool := c_pool c; c_next := c_next c; c_thr := c_thr c; c_canc := c_canc c; g_sig := g_sig c; g_bcast := g_bcast c; g_nil := g_nil c; g_err := g_err c; g_drop := g_drop c; g_notified := g_notified c; g_bsnap := v; g_bsent := g_bsent c |}.
Definition set_bsent (v : list node) (c : ccfg) : ccfg :=
  {| c_L := c_L c; c_mu := c_mu c; c_once := c_once c; c_nl := c_nl c; c_ck := c_ck c; c_lst := c_lst c; c_size := c_size c; c_tok := c_tok c; c_pool := c_pool c; c_next := c_next c; c_thr := c_thr c; c_canc := c_canc c; g_sig := g_sig c; g_bcast := g_bcast c; g_nil := g_nil c; g_err := g_err c; g_drop := g_drop c; g_notified := g_notified c; g_bsnap := g_bsnap c; g_bsent := v |}.

(* NewCond(l); copied = true: the value under test is a bitwise copy of a Cond that was used before
   (checker points at the original, once is done, the notify list is shared) *)
Definition cond_init (copied : bool) : ccfg :=
  {| c_L := None; c_mu := None; c_once := if copied then ODone else ONew; c_nl := copied;
     c_ck := if copied then CkOther else CkNil;
     c_lst := []; c_size := 0; c_tok := []; c_pool := []; c_next := O; c_thr := []; c_canc := [];
     g_sig := 0; g_bcast := 0; g_nil := 0; g_err := 0; g_drop := 0;
     g_notified := []; g_bsnap := []; g_bsent := [] |}.

Inductive cop := OpWait | OpSignal | OpBroadcast | OpUnlock.
Inductive cev :=
| ECall (t : tid) (op : cop)
| EStep (t : tid) (o : nat)        (* o: oracle number, read only by pool.Get and by a select with two ready cases *)
| ECancel (t : tid).               (* the context of t's current Wait ends *)

Inductive cret := RNil | RErr | RUnit.
Inductive cobs := OAt (p : cpc) | ORet (r : cret) | OPanicCopied | OPanicNilList.

(* result of one statement for the executing thread *)
Inductive sres := KGoto (p : cpc) | KPark (p : cpc) | KFinish (o : cobs).
Record stepout := { so_cfg : ccfg; so_res : sres; so_wake : option (tid * cpc) }.

Definition go (c : ccfg) (p : cpc) : option stepout := Some {| so_cfg := c; so_res := KGoto p; so_wake := None |}.
Definition fin (c : ccfg) (o : cobs) : option stepout := Some {| so_cfg := c; so_res := KFinish o; so_wake := None |}.

Definition after_checkcopy (k : caller) : cpc :=
  match k with InWait => W_FirstUse | InSignal => S_FirstUse | InBroadcast => B_FirstUse end.
Definition after_firstuse (k : caller) : cpc :=
  match k with InWait => W_Add | InSignal => S_NotifyOne | InBroadcast => B_NotifyAll end.

Definition mem_nat (n : nat) (l : list nat) : bool := existsb (Nat.eqb n) l.

Fixpoint remove_node (n : node) (l : list node) : list node :=
  match l with
  | [] => []
  | x :: r => if Nat.eqb n x then r else x :: remove_node n r
  end.

Fixpoint take_nth (i : nat) (l : list node) : option (node * list node) :=
  match l, i with
  | [], _ => None
  | x :: r, O => Some (x, r)
  | x :: r, S j => match take_nth j r with Some (y, r') => Some (y, x :: r') | None => None end
  end.

(* the thread blocked in the outer select of wait on node n's channel *)
Fixpoint find_parked (n : node) (l : list (tid * cpc)) : option tid :=
  match l with
  | [] => None
  | (t, WT_Parked m) :: r => if Nat.eqb n m then Some t else find_parked n r
  | _ :: r => find_parked n r
  end.

(* l.mu.Lock(): None = would block *)
Definition lock_mu (t : tid) (c : ccfg) : option ccfg :=
  match c_mu c with None => Some (set_mu (Some t) c) | Some _ => None end.

(* one statement of thread t at program counter p *)
Definition step_pc (c : ccfg) (t : tid) (o : nat) (p : cpc) : option stepout :=
  match p with
  (* ---- Wait / Signal / Broadcast: the calls of checkCopy, checkFirstUse ---- *)
  | W_CheckCopy => go c (CC_If InWait)
  | S_CheckCopy => go c (CC_If InSignal)
  | B_CheckCopy => go c (CC_If InBroadcast)
  | CC_If k =>
    match c_ck c with
    | CkNil => go (set_ck CkSelf c) (after_checkcopy k)       (* the CAS nil -> self succeeds *)
    | CkSelf => go c (after_checkcopy k)
    | CkOther => go c (CC_Panic k)
    end
  | CC_Panic k => fin c OPanicCopied
  | W_FirstUse => go c (FU_Once InWait)
  | S_FirstUse => go c (FU_Once InSignal)
  | B_FirstUse => go c (FU_Once InBroadcast)
  | FU_Once k =>
    match c_once c with
    | ODone => go c (after_firstuse k)
    | ONew => go (set_once (ORunning t) c) (FU_IfNil k)
    | ORunning _ => None                                        (* blocks on the Once's mutex *)
    end
  | FU_IfNil k => if c_nl c then go (set_once ODone c) (after_firstuse k) else go c (FU_Assign k)
  | FU_Assign k => go c (NL_Ret k)
  | NL_Ret k => go c (NC_1 k)
  | NC_1 k => go c (NC_2 k)
  | NC_2 k => go c (NC_3 k)
  | NC_3 k => go c (NC_Ret k)
  | NC_Ret k => go (set_once ODone (set_nl true c)) (after_firstuse k)
  | W_Add => go c AD_Lock
  | S_NotifyOne => go c NO_Lock
  | B_NotifyAll => go c NA_Lock
  (* ---- notifyList.add ---- *)
  | AD_Lock =>
    if c_nl c then match lock_mu t c with Some c1 => go c1 AD_Defer | None => None end
    else fin c OPanicNilList
  | AD_Defer => go c AD_Alloc
  | AD_Alloc => go c AL_Get
  | AL_Get =>
    match o with
    | O => go c AL_New
    | S i => match take_nth i (c_pool c) with
             | Some (n, rest) => go (set_pool rest c) (AL_Ret n)
             | None => None
             end
    end
  | AL_New => go (set_next (S (c_next c)) c) (AL_Ret (c_next c))
  | AL_Ret n => go c (AD_Push n)
  | AD_Push n => go c (PB_1 n)
  | PB_1 n => go c (PB_2 n)
  | PB_2 n => go c (PB_3 n)
  | PB_3 n => go (set_lst (c_lst c ++ [n]) c) (PB_4 n)       (* l.sentinel.prev.next = elem *)
  | PB_4 n => go c (PB_5 n)
  | PB_5 n => go (set_size (c_size c + 1) c) (AD_Ret n)
  | AD_Ret n => go (set_mu None c) (W_LUnlock n)              (* deferred l.mu.Unlock() *)
  (* ---- Wait after add ---- *)
  | W_LUnlock n =>
    match c_L c with
    | Some h => if Nat.eqb h t then go (set_L None c) (W_DeferLock n) else None
    | None => None
    end
  | W_DeferLock n => go c (W_RetWait n)
  | W_RetWait n => go c (WT_Ch n)
  (* ---- notifyList.wait ---- *)
  | WT_Ch n => go c (WT_DeferFree n)
  | WT_DeferFree n => go c (WT_Select n)
  | WT_Select n =>
    let tk := mem_nat n (c_tok c) in
    let cn := mem_nat t (c_canc c) in
    if tk && (negb cn || negb (Nat.eqb o 0)) then go (set_tok (remove_node n (c_tok c)) c) (WT_CaseCh n)
    else if cn then go c (WT_CaseCtx n)
    else Some {| so_cfg := c; so_res := KPark (WT_Parked n); so_wake := None |}
  | WT_Parked n => None
  | WT_CaseCtx n => go c (WT_Lock n)
  | WT_Lock n => match lock_mu t c with Some c1 => go c1 (WT_DeferUnlock n) | None => None end
  | WT_DeferUnlock n => go c (WT_Select1 n)
  | WT_Select1 n =>
    if mem_nat n (c_tok c) then go (set_tok (remove_node n (c_tok c)) c) (WT_CaseTok n)
    else go c (WT_Default n)
  | WT_CaseTok n => go c (WT_IfLen n)
  | WT_IfLen n => go c (LEN (LenWait n))
  | WT_Forward n => go c (NN_Front (NNWait n))
  | WT_Default n => go c (WT_Remove n)
  | WT_Remove n => go c (RM_1 RMWait n)
  | WT_RetErr n => go (set_mu None c) (FR_Put n false)       (* deferred l.mu.Unlock(), then free's hook *)
  | WT_CaseCh n => go c (WT_RetNil n)
  | WT_RetNil n => go c (FR_Put n true)
  | FR_Put n ok =>
    (* l.pool.Put(elem); wait returns; Wait's deferred c.L.Lock() — blocks while L is held *)
    match c_L c with
    | Some _ => None
    | None =>
      let c1 := set_L (Some t) (set_pool (n :: c_pool c) (set_notified (remove_node n (g_notified c)) c)) in
      if ok then fin (set_nil (g_nil c + 1) c1) (ORet RNil)
      else fin (set_err (g_err c + 1) c1) (ORet RErr)
    end
  (* ---- chanList.len: `return l.size`, the caller's condition is decided by this step ---- *)
  | LEN (LenWait n) =>
    if c_size c =? 0 then go (set_drop (g_drop c + 1) c) (WT_RetErr n)     (* nobody to forward to *)
    else go c (WT_Forward n)
  | LEN LenOne =>
    if c_size c =? 0 then go c NO_Ret else go (set_sig (g_sig c + 1) c) NO_Next
  | LEN LenAll =>
    if c_size c =? 0 then fin (set_mu None c) (ORet RUnit) else go c NA_Next
  (* ---- notifyOne / notifyAll ---- *)
  | NO_Lock =>
    if c_nl c then match lock_mu t c with Some c1 => go c1 NO_Defer | None => None end
    else fin c OPanicNilList
  | NO_Defer => go c NO_IfLen
  | NO_IfLen => go c (LEN LenOne)
  | NO_Ret => fin (set_mu None c) (ORet RUnit)
  | NO_Next => go c (NN_Front NNOne)
  | NA_Lock =>
    if c_nl c then
      match lock_mu t c with
      | Some c1 => go (set_bsent [] (set_bsnap (c_lst c) (set_bcast (g_bcast c + Z.of_nat (length (c_lst c))) c1))) NA_Defer
      | None => None
      end
    else fin c OPanicNilList
  | NA_Defer => go c NA_For
  | NA_For => go c (LEN LenAll)
  | NA_Next => go c (NN_Front NNAll)
  (* ---- notifyNext ---- *)
  | NN_Front k => go c (FT_Ret k)
  | FT_Ret k => match c_lst c with f :: _ => go c (NN_Ch k f) | [] => None end
  | NN_Ch k f => go c (NN_Remove k f)
  | NN_Remove k f => go c (RM_1 (RMNext k) f)
  | NN_Send k f =>
    if mem_nat f (c_tok c) then None                          (* buffer full: the send would block *)
    else
      let c1 := match k with NNAll => set_bsent (f :: g_bsent c) c | _ => c end in
      let w := find_parked f (c_thr c) in
      let c2 := match w with Some _ => c1 | None => set_tok (f :: c_tok c1) c1 end in
      let wk := match w with Some u => Some (u, WT_CaseCh f) | None => None end in
      match k with
      | NNWait n => Some {| so_cfg := c2; so_res := KGoto (WT_RetErr n); so_wake := wk |}
      | NNOne => Some {| so_cfg := set_mu None c2; so_res := KFinish (ORet RUnit); so_wake := wk |}
      | NNAll => Some {| so_cfg := c2; so_res := KGoto (LEN LenAll); so_wake := wk |}
      end
  (* ---- chanList.remove ---- *)
  | RM_1 r m =>
    if mem_nat m (c_lst c) then
      let c1 := set_lst (remove_node m (c_lst c)) c in
      match r with
      | RMNext _ => go (set_notified (m :: g_notified c) c1) (RM_2 r m)
      | RMWait => go c1 (RM_2 r m)
      end
    else None
  | RM_2 r m => go c (RM_3 r m)
  | RM_3 r m => go c (RM_4 r m)
  | RM_4 r m => go c (RM_5 r m)
  | RM_5 r m =>
    let c1 := set_size (c_size c - 1) c in
    match r with
    | RMNext k => go c1 (NN_Send k m)
    | RMWait => go c1 (WT_RetErr m)
    end
  end.

(* the thread is inside a Wait call *)
Definition in_wait (p : cpc) : bool :=
  match p with
  | W_CheckCopy | W_FirstUse | W_Add | W_LUnlock _ | W_DeferLock _ | W_RetWait _ => true
  | CC_If InWait | CC_Panic InWait | FU_Once InWait | FU_IfNil InWait | FU_Assign InWait
  | NL_Ret InWait | NC_1 InWait | NC_2 InWait | NC_3 InWait | NC_Ret InWait => true
  | AD_Lock | AD_Defer | AD_Alloc | AL_Get | AL_New | AL_Ret _ | AD_Push _
  | PB_1 _ | PB_2 _ | PB_3 _ | PB_4 _ | PB_5 _ | AD_Ret _ => true
  | WT_Ch _ | WT_DeferFree _ | WT_Select _ | WT_Parked _ | WT_CaseCtx _ | WT_Lock _ | WT_DeferUnlock _
  | WT_Select1 _ | WT_CaseTok _ | WT_IfLen _ | WT_Forward _ | WT_Default _ | WT_Remove _ | WT_RetErr _
  | WT_CaseCh _ | WT_RetNil _ | FR_Put _ _ => true
  | LEN (LenWait _) | FT_Ret (NNWait _) | NN_Front (NNWait _) | NN_Ch (NNWait _) _
  | NN_Remove (NNWait _) _ | NN_Send (NNWait _) _ => true
  | RM_1 (RMNext (NNWait _)) _ | RM_2 (RMNext (NNWait _)) _ | RM_3 (RMNext (NNWait _)) _
  | RM_4 (RMNext (NNWait _)) _ | RM_5 (RMNext (NNWait _)) _ => true
  | RM_1 RMWait _ | RM_2 RMWait _ | RM_3 RMWait _ | RM_4 RMWait _ | RM_5 RMWait _ => true
  | _ => false
  end.

Definition settle (t : tid) (r : sres) (thr : list (tid * cpc)) : list (tid * cpc) :=
  match r with KGoto p | KPark p => update t p thr | KFinish _ => remove t thr end.
Definition wake (w : option (tid * cpc)) (thr : list (tid * cpc)) : list (tid * cpc) :=
  match w with Some (u, p) => update u p thr | None => thr end.
Definition obs_of (t : tid) (r : sres) : list (tid * cobs) :=
  match r with KGoto p => [(t, OAt p)] | KPark _ => [] | KFinish o => [(t, o)] end.
Definition obs_wake (w : option (tid * cpc)) : list (tid * cobs) :=
  match w with Some (u, p) => [(u, OAt p)] | None => [] end.

Definition cond_exec1 (c : ccfg) (e : cev) : option (ccfg * list (tid * cobs)) :=
  match e with
  | ECall t op =>
    match lookup t (c_thr c) with
    | Some _ => None
    | None =>
      match op with
      | OpWait =>
        (* the client: L.Lock(); c.Wait(ctx) — enabled only while L is free *)
        match c_L c with
        | Some _ => None
        | None => Some (set_canc (remove_node t (c_canc c)) (set_L (Some t) (set_thr (spawn t W_CheckCopy (c_thr c)) c)),
                        [(t, OAt W_CheckCopy)])
        end
      | OpSignal => Some (set_thr (spawn t S_CheckCopy (c_thr c)) c, [(t, OAt S_CheckCopy)])
      | OpBroadcast => Some (set_thr (spawn t B_CheckCopy (c_thr c)) c, [(t, OAt B_CheckCopy)])
      | OpUnlock =>
        match c_L c with
        | Some h => if Nat.eqb h t then Some (set_L None c, [(t, ORet RUnit)]) else None
        | None => None
        end
      end
    end
  | EStep t o =>
    match lookup t (c_thr c) with
    | None => None
    | Some p =>
      match step_pc c t o p with
      | None => None
      | Some so =>
        let c1 := so_cfg so in
        Some (set_thr (wake (so_wake so) (settle t (so_res so) (c_thr c1))) c1,
              obs_of t (so_res so) ++ obs_wake (so_wake so))
      end
    end
  | ECancel t =>
    match lookup t (c_thr c) with
    | None => None
    | Some p =>
      if in_wait p && negb (mem_nat t (c_canc c)) then
        let c1 := set_canc (t :: c_canc c) c in
        match p with
        | WT_Parked n => Some (set_thr (update t (WT_CaseCtx n) (c_thr c)) c1, [(t, OAt (WT_CaseCtx n))])
        | _ => Some (c1, [])
        end
      else None
    end
  end.

Definition cond_step (c : ccfg) (e : cev) : option ccfg :=
  match cond_exec1 c e with Some (c', _) => Some c' | None => None end.

(* ---- quantities the theorems talk about ---- *)

(* tokens a thread has taken out of circulation and not yet accounted for:
   a notifier that has committed to a send and not sent yet, a waiter that received a token and has not
   returned nil yet, a waiter on the time-out path that took a token and has not decided yet *)
Definition owed (p : cpc) : Z :=
  match p with
  | NO_Next | NN_Front NNOne | FT_Ret NNOne | NN_Ch NNOne _ | NN_Remove NNOne _ | NN_Send NNOne _
  | RM_1 (RMNext NNOne) _ | RM_2 (RMNext NNOne) _ | RM_3 (RMNext NNOne) _ | RM_4 (RMNext NNOne) _
  | RM_5 (RMNext NNOne) _ => 1
  | WT_CaseTok _ | WT_IfLen _ | LEN (LenWait _) | WT_Forward _
  | NN_Front (NNWait _) | FT_Ret (NNWait _) | NN_Ch (NNWait _) _ | NN_Remove (NNWait _) _ | NN_Send (NNWait _) _
  | RM_1 (RMNext (NNWait _)) _ | RM_2 (RMNext (NNWait _)) _ | RM_3 (RMNext (NNWait _)) _
  | RM_4 (RMNext (NNWait _)) _ | RM_5 (RMNext (NNWait _)) _ => 1
  | WT_CaseCh _ | WT_RetNil _ | FR_Put _ true => 1
  | RM_2 (RMNext NNAll) _ | RM_3 (RMNext NNAll) _ | RM_4 (RMNext NNAll) _ | RM_5 (RMNext NNAll) _
  | NN_Send NNAll _ => 1
  | _ => 0
  end.

(* the thread is a Broadcast that holds l.mu: it still owes one token to every node in the list *)
Definition bcast_holding (p : cpc) : bool :=
  match p with
  | NA_Defer | NA_For | LEN LenAll | NA_Next | NN_Front NNAll | FT_Ret NNAll | NN_Ch NNAll _
  | NN_Remove NNAll _ | NN_Send NNAll _
  | RM_1 (RMNext NNAll) _ | RM_2 (RMNext NNAll) _ | RM_3 (RMNext NNAll) _ | RM_4 (RMNext NNAll) _
  | RM_5 (RMNext NNAll) _ => true
  | _ => false
  end.

Fixpoint sum_owed (l : list (tid * cpc)) : Z :=
  match l with [] => 0 | (_, p) :: r => owed p + sum_owed r end.

Definition bcast_pending (c : ccfg) : Z :=
  match c_mu c with
  | Some t => match lookup t (c_thr c) with
              | Some p => if bcast_holding p then Z.of_nat (length (c_lst c)) else 0
              | None => 0
              end
  | None => 0
  end.

(* executable form of the token ledger (used by the driver's final check and by the Examples) *)
Definition ledger_lhs (c : ccfg) : Z := g_sig c + g_bcast c.
Definition ledger_rhs (c : ccfg) : Z :=
  g_nil c + Z.of_nat (length (c_tok c)) + g_drop c + sum_owed (c_thr c) + bcast_pending c.

(* run a schedule *)
Definition cond_run (copied : bool) (evs : list cev) : option ccfg := exec cond_step (cond_init copied) evs.

(* ---- classification of program counters (used by the statements of the theorems) ---- *)

(* the thread holds l.mu *)
Definition holds_mu (p : cpc) : bool :=
  match p with
  | AD_Defer | AD_Alloc | AL_Get | AL_New | AL_Ret _ | AD_Push _
  | PB_1 _ | PB_2 _ | PB_3 _ | PB_4 _ | PB_5 _ | AD_Ret _ => true
  | WT_DeferUnlock _ | WT_Select1 _ | WT_CaseTok _ | WT_IfLen _ | WT_Forward _ | WT_Default _
  | WT_Remove _ | WT_RetErr _ => true
  | LEN _ | FT_Ret _ | NO_Defer | NO_IfLen | NO_Ret | NO_Next | NA_Defer | NA_For | NA_Next => true
  | NN_Front _ | NN_Ch _ _ | NN_Remove _ _ | NN_Send _ _ => true
  | RM_1 _ _ | RM_2 _ _ | RM_3 _ _ | RM_4 _ _ | RM_5 _ _ => true
  | _ => false
  end.

(* the thread is in the part of Wait that runs with the caller's lock c.L held *)
Definition holds_L (p : cpc) : bool :=
  match p with
  | W_CheckCopy | W_FirstUse | W_Add | W_LUnlock _ => true
  | CC_If InWait | CC_Panic InWait | FU_Once InWait | FU_IfNil InWait | FU_Assign InWait
  | NL_Ret InWait | NC_1 InWait | NC_2 InWait | NC_3 InWait | NC_Ret InWait => true
  | AD_Lock | AD_Defer | AD_Alloc | AL_Get | AL_New | AL_Ret _ | AD_Push _
  | PB_1 _ | PB_2 _ | PB_3 _ | PB_4 _ | PB_5 _ | AD_Ret _ => true
  | _ => false
  end.

(* life cycle of a waiter's node, as far as the owner's program counter determines it *)
Inductive phase :=
| PhPre        (* allocated, not yet linked *)
| PhLinkMu     (* linked by pushBack, the owner still holds l.mu *)
| PhAwait      (* the owner waits (or is on its way to / inside the time-out branch before its inner select) *)
| PhSelf       (* time-out branch found the channel empty: the owner is about to unlink the node itself *)
| PhQuiet.     (* the owner received its token, or unlinked the node: nothing may arrive any more *)

Definition inlist_ph (ph : phase) : bool :=
  match ph with PhLinkMu | PhAwait | PhSelf => true | _ => false end.

Definition nodest (p : cpc) : option (node * phase) :=
  match p with
  | AL_Ret n | AD_Push n | PB_1 n | PB_2 n | PB_3 n => Some (n, PhPre)
  | PB_4 n | PB_5 n | AD_Ret n => Some (n, PhLinkMu)
  | W_LUnlock n | W_DeferLock n | W_RetWait n | WT_Ch n | WT_DeferFree n | WT_Select n | WT_Parked n
  | WT_CaseCtx n | WT_Lock n | WT_DeferUnlock n | WT_Select1 n => Some (n, PhAwait)
  | WT_Default n | WT_Remove n | RM_1 RMWait n => Some (n, PhSelf)
  | WT_CaseTok n | WT_IfLen n | LEN (LenWait n) | WT_Forward n
  | NN_Front (NNWait n) | FT_Ret (NNWait n) | NN_Ch (NNWait n) _ | NN_Remove (NNWait n) _ | NN_Send (NNWait n) _
  | RM_1 (RMNext (NNWait n)) _ | RM_2 (RMNext (NNWait n)) _ | RM_3 (RMNext (NNWait n)) _
  | RM_4 (RMNext (NNWait n)) _ | RM_5 (RMNext (NNWait n)) _
  | RM_2 RMWait n | RM_3 RMWait n | RM_4 RMWait n | RM_5 RMWait n
  | WT_RetErr n | WT_CaseCh n | WT_RetNil n | FR_Put n _ => Some (n, PhQuiet)
  | _ => None
  end.

Definition wnode (p : cpc) : option node :=
  match nodest p with Some (n, _) => Some n | None => None end.

(* a notifier has unlinked node f and has not yet sent on its channel *)
Definition inflight (p : cpc) : option node :=
  match p with
  | RM_2 (RMNext _) m | RM_3 (RMNext _) m | RM_4 (RMNext _) m | RM_5 (RMNext _) m => Some m
  | NN_Send _ f => Some f
  | _ => None
  end.

(* where a notifier is with respect to the front of the list *)
Inductive frontst := FNo | FNeed | FSel (f : node).
Definition frontof (p : cpc) : frontst :=
  match p with
  | NO_Next | NA_Next | WT_Forward _ | NN_Front _ | FT_Ret _ => FNeed
  | NN_Ch _ f | NN_Remove _ f | RM_1 (RMNext _) f => FSel f
  | _ => FNo
  end.

(* the thread is in (or past) the `case <-ctx.Done():` branch of wait *)
Definition in_ctx (p : cpc) : bool :=
  match p with
  | WT_CaseCtx _ | WT_Lock _ | WT_DeferUnlock _ | WT_Select1 _ | WT_CaseTok _ | WT_IfLen _ | WT_Forward _
  | WT_Default _ | WT_Remove _ | WT_RetErr _ | FR_Put _ false => true
  | LEN (LenWait _) | NN_Front (NNWait _) | FT_Ret (NNWait _) | NN_Ch (NNWait _) _ | NN_Remove (NNWait _) _
  | NN_Send (NNWait _) _ => true
  | RM_1 (RMNext (NNWait _)) _ | RM_2 (RMNext (NNWait _)) _ | RM_3 (RMNext (NNWait _)) _
  | RM_4 (RMNext (NNWait _)) _ | RM_5 (RMNext (NNWait _)) _ => true
  | RM_1 RMWait _ | RM_2 RMWait _ | RM_3 RMWait _ | RM_4 RMWait _ | RM_5 RMWait _ => true
  | _ => false
  end.

(* length of the forward list minus the size counter, while the holder of l.mu is inside pushBack / remove *)
Definition delta (p : cpc) : Z :=
  match p with
  | PB_4 _ | PB_5 _ => 1
  | RM_2 _ _ | RM_3 _ _ | RM_4 _ _ | RM_5 _ _ => -1
  | _ => 0
  end.

(* the thread executes the body of once.Do *)
Definition runs_once (p : cpc) : bool :=
  match p with
  | FU_IfNil _ | FU_Assign _ | NL_Ret _ | NC_1 _ | NC_2 _ | NC_3 _ | NC_Ret _ => true
  | _ => false
  end.

(* checkFirstUse has returned in this call *)
Definition past_fu (p : cpc) : bool :=
  match p with
  | W_CheckCopy | W_FirstUse | S_CheckCopy | S_FirstUse | B_CheckCopy | B_FirstUse
  | CC_If _ | CC_Panic _ | FU_Once _ | FU_IfNil _ | FU_Assign _ | NL_Ret _ | NC_1 _ | NC_2 _ | NC_3 _ | NC_Ret _ => false
  | _ => true
  end.

(* the thread is blocked inside the outer select *)
Definition is_parked (p : cpc) : bool := match p with WT_Parked _ => true | _ => false end.
