(* Executable model of /repo/set/set.go (MapSet) over a model of Go's builtin map — C03.
   Definitions only; proofs in proof/HashGap.v.

   Go's builtin map with a comparable key type (keys are Z, == is Z.eqb) is an association
   list without duplicate keys; its operations are the ones already used for builtinMap
   (DecorModel.builtin_step): assignment m[k] = v, delete(m, k), the comma-ok lookup, len, and
   `for k := range m`, whose ENUMERATION ORDER IS UNSPECIFIED (randomised by the Go runtime,
   possibly different at every loop): the model enumerates in table order and every theorem
   about an enumeration is stated for EVERY permutation of the table. *)
From Ekit Require Import Common DecorSpec DecorModel.

Section GoMap.
  Variable V : Type.
  Definition gomap := list (Z * V).
  Definition gm_make : gomap := [].                                         (* make(map[T]V, size) *)
  Definition gm_store (k : Z) (v : V) (m : gomap) : gomap := aput eqb_exact k v m.   (* m[k] = v *)
  Definition gm_delete (k : Z) (m : gomap) : gomap := adel eqb_exact k m.            (* delete(m, k) *)
  Definition gm_lookup (k : Z) (m : gomap) : option V := aget eqb_exact k m.         (* v, ok := m[k] *)
  Definition gm_len (m : gomap) : nat := length m.                                   (* len(m) *)
  Definition gm_range (m : gomap) : list (Z * V) := m.                               (* one enumeration *)
End GoMap.
Arguments gm_make {V}.
Arguments gm_store {V} k v m.
Arguments gm_delete {V} k m.
Arguments gm_lookup {V} k m.
Arguments gm_len {V} m.
Arguments gm_range {V} m.

(* type MapSet[T comparable] struct { m map[T]struct{} } *)
Record mapset := { sm : gomap unit }.

Definition ms_new : mapset := {| sm := gm_make |}.                           (* NewMapSet *)
Definition ms_add (k : Z) (s : mapset) : mapset := {| sm := gm_store k tt (sm s) |}.   (* s.m[val] = struct{}{} *)
Definition ms_delete (k : Z) (s : mapset) : mapset := {| sm := gm_delete k (sm s) |}.  (* delete(s.m, key) *)
Definition ms_exist (k : Z) (s : mapset) : bool :=                           (* _, ok := s.m[key]; return ok *)
  match gm_lookup k (sm s) with Some _ => true | None => false end.
(* ans := make([]T, 0, len(s.m)); for key := range s.m { ans = append(ans, key) }; return ans *)
Definition ms_keys_of (enumeration : list (Z * unit)) : list Z :=
  fold_left (fun ans kv => ans ++ [fst kv]) enumeration [].
Definition ms_keys (s : mapset) : list Z := ms_keys_of (gm_range (sm s)).

Definition ms_step (s : mapset) (o : setop) : mapset * setout :=
  match o with
  | SAdd k => (ms_add k s, SRUnit)
  | SDelete k => (ms_delete k s, SRUnit)
  | SExist k => (s, SRBool (ms_exist k s))
  | SKeys => (s, SRKeys (ms_keys s))
  end.

(* ---- the abstract set: a membership predicate ---- *)
Definition aset := Z -> bool.
Definition aset_empty : aset := fun _ => false.
Definition aset_add (k : Z) (f : aset) : aset := fun x => if Z.eqb x k then true else f x.
Definition aset_remove (k : Z) (f : aset) : aset := fun x => if Z.eqb x k then false else f x.
Definition aset_next (f : aset) (o : setop) : aset :=
  match o with SAdd k => aset_add k f | SDelete k => aset_remove k f | _ => f end.
(* l lists the set exactly once each *)
Definition lists_set (l : list Z) (f : aset) : Prop := NoDup l /\ forall x, In x l <-> f x = true.
(* what a call may return when the abstract set is f (Keys: ANY duplicate-free listing) *)
Definition aset_out_ok (f : aset) (o : setop) (r : setout) : Prop :=
  match o with
  | SAdd _ | SDelete _ => r = SRUnit
  | SExist k => r = SRBool (f k)
  | SKeys => exists l, r = SRKeys l /\ lists_set l f
  end.
Fixpoint aset_accepts (f : aset) (ops : list setop) (outs : list setout) : Prop :=
  match ops, outs with
  | [], [] => True
  | o :: t, r :: rs => aset_out_ok f o r /\ aset_accepts (aset_next f o) t rs
  | _, _ => False
  end.
