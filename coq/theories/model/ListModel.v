(* Executable model of /repo/list (ArrayList, LinkedList, CopyOnWriteArrayList,
   ConcurrentList) and of internal/slice Add / Delete / Shrink — property C04.
   Definitions only; proofs are in proof/ListProof.v.

   Conventions
   * Elements and Go `int`s are Z (no 64-bit overflow: lengths are bounded by memory,
     `2*l` / `4*l` in calCapacity cannot wrap for a slice that fits in memory).
   * A Go slice is `gslice = (sv : contents, sc : capacity)`.  The hidden part of the
     backing array between len and cap is not represented; the only expression of the code
     that could look at it (`src[:length-1]`) never extends a slice, and `reslice_to` answers
     `Panic` if it were asked to.
   * Growth by the built-in `append` is an ORACLE: every operation carries the value of
     `Cap()` read from the implementation after the call; when `append` has to grow, the
     new capacity is that value (clamped from below by the needed length, which is what
     the language guarantees).  Capacities are inputs of the model and are never compared.
   * Every index expression `s[i]`, slice expression and `make` is explicit (`arr_get`,
     `arr_set`, `reslice_to`, `go_make`) and answers `Panic` when Go would panic.
   * `int(float32(c) * float32(0.625))` is transcribed as `c*5/8` (truncated).  This is
     exact for 64 < c < 3355451 (5c/8 is then exactly representable in a float32);
     checked exhaustively on the real arithmetic for every c < 2^24: the first c on which
     they differ is 3355451.  For larger capacities the model's capacity may differ from the
     implementation's; contents never depend on it (theorem shrink_preserves_contents).
   * LinkedList: the sentinel ring head <-> n0 <-> ... <-> n(k-1) <-> tail <-> head is
     abstracted to the list of node values plus ring POSITIONS 0 (head) .. k+1 (tail);
     `findNode` is the explicit walk (`index+1` steps `next` from head, or `len-index` steps
     `prev` from tail).  The `length` field is kept separately from the nodes, as in the code.
     If a walk ended on a sentinel the code would read the sentinel's zero value (Get),
     write into it (Set) or unlink it and later dereference nil (Delete/Add); the model
     answers `Panic` in all these cases, and `no_panic` shows they are unreachable.
   * ConcurrentList is pure delegation (its locking belongs to C06/C15); the mutex of
     CopyOnWriteArrayList likewise. *)
From Ekit Require Import Common.

Definition zlen {A} (l : list A) : Z := Z.of_nat (length l).

(* Local copies of firstn / skipn / repeat / nth from Coq's List library (equal to them:
   proof/ListProof.v, lemmas take_firstn etc.).  They are repeated here only so that the
   extraction does not produce a module called `List`, which would shadow OCaml's. *)
Fixpoint take (n : nat) (l : list Z) : list Z :=
  match n, l with
  | O, _ => []
  | S _, [] => []
  | S n', x :: t => x :: take n' t
  end.
Fixpoint drop (n : nat) (l : list Z) : list Z :=
  match n, l with
  | O, _ => l
  | S _, [] => []
  | S n', _ :: t => drop n' t
  end.
Fixpoint take2 (n : nat) (l : list (Z * Z)) : list (Z * Z) :=
  match n, l with
  | O, _ => []
  | S _, [] => []
  | S n', x :: t => x :: take2 n' t
  end.
Fixpoint zeros (n : nat) : list Z := match n with O => [] | S n' => 0 :: zeros n' end.
Fixpoint nth_d (n : nat) (l : list Z) (d : Z) : Z :=
  match n, l with
  | _, [] => d
  | O, x :: _ => x
  | S n', _ :: t => nth_d n' t d
  end.

Definition in_idx (i n : Z) : bool := (0 <=? i) && (i <? n).

(* ---------- operations and their results ---------- *)
Inductive op :=
| OpGet (i : Z)
| OpAppend (xs : list Z)
| OpAdd (i x : Z)
| OpSet (i x : Z)
| OpDelete (i : Z)
| OpLen
| OpCap
| OpRange (stop : Z)     (* the callback returns an error when called with index `stop` *)
| OpAsSlice.

Inductive out :=
| OUnit
| OVal (v : Z)
| OLen (n : Z)
| OCap (c : Z)                                 (* never compared *)
| OSlice (isnil : bool) (l : list Z)
| ORange (tr : list (Z * Z)) (stopped : bool). (* calls made to the callback; did it stop *)

(* capacities are not part of the specification: erase them before comparing *)
Definition canon (r : outcome out) : outcome out :=
  match r with Ok (OCap _) => Ok (OCap 0) | _ => r end.

(* ====================================================================== *)
(* The abstract sequence (the specification)                               *)
(* ====================================================================== *)
Fixpoint indexed_from (i : Z) (l : list Z) : list (Z * Z) :=
  match l with [] => [] | v :: t => (i, v) :: indexed_from (i + 1) t end.

Definition seq_range (l : list Z) (stop : Z) : out :=
  if in_idx stop (zlen l)
  then ORange (take2 (S (Z.to_nat stop)) (indexed_from 0 l)) true
  else ORange (indexed_from 0 l) false.

Definition seq_step (l : list Z) (o : op) : list Z * outcome out :=
  match o with
  | OpGet i =>
      if in_idx i (zlen l) then (l, Ok (OVal (nth_d (Z.to_nat i) l 0))) else (l, Err EIndex)
  | OpAppend xs => (l ++ xs, Ok OUnit)
  | OpAdd i x =>
      if (0 <=? i) && (i <=? zlen l) then (insert_at l (Z.to_nat i) x, Ok OUnit)
      else (l, Err EIndex)
  | OpSet i x =>
      if in_idx i (zlen l) then (set_nth l (Z.to_nat i) x, Ok OUnit) else (l, Err EIndex)
  | OpDelete i =>
      if in_idx i (zlen l) then (remove_at l (Z.to_nat i), Ok (OVal (nth_d (Z.to_nat i) l 0)))
      else (l, Err EIndex)
  | OpLen => (l, Ok (OLen (zlen l)))
  | OpCap => (l, Ok (OCap 0))
  | OpRange stop => (l, Ok (seq_range l stop))
  | OpAsSlice => (l, Ok (OSlice false l))
  end.

(* the permitted range of the index argument: [0,n) for Get/Set/Delete, [0,n] for Add *)
Definition index_ok (n : Z) (o : op) : bool :=
  match o with
  | OpGet i | OpSet i _ | OpDelete i => in_idx i n
  | OpAdd i _ => (0 <=? i) && (i <=? n)
  | _ => true
  end.

(* histories carry the capacity oracle; the specification ignores it *)
Fixpoint seq_run (l : list Z) (h : list (op * Z)) : list (outcome out) :=
  match h with
  | [] => []
  | (o, _) :: t => let (l', r) := seq_step l o in r :: seq_run l' t
  end.

Fixpoint seq_final (l : list Z) (h : list (op * Z)) : list Z :=
  match h with [] => l | (o, _) :: t => seq_final (fst (seq_step l o)) t end.

(* ====================================================================== *)
(* Go slices                                                               *)
(* ====================================================================== *)
Record gslice := { sv : list Z; sc : Z }.

Definition arr_get (l : list Z) (i : Z) : outcome Z :=
  if in_idx i (zlen l)
  then match nth_opt l (Z.to_nat i) with Some v => Ok v | None => Panic end
  else Panic.

Definition arr_set (l : list Z) (i v : Z) : outcome (list Z) :=
  if in_idx i (zlen l) then Ok (set_nth l (Z.to_nat i) v) else Panic.

(* make([]T, len, cap): zero-filled, never nil; panics on len < 0 or len > cap *)
Definition go_make (len cap : Z) : outcome gslice :=
  if (0 <=? len) && (len <=? cap)
  then Ok {| sv := zeros (Z.to_nat len); sc := cap |}
  else Panic.

(* copy(dst, src): min(len dst, len src) elements *)
Definition go_copy (dst src : list Z) : list Z :=
  take (length dst) src ++ drop (length src) dst.

(* append(s, xs...): in place when it fits, else a new array whose capacity is the oracle *)
Definition go_append (s : gslice) (xs : list Z) (oracle : Z) : gslice :=
  let need := zlen (sv s) + zlen xs in
  {| sv := sv s ++ xs;
     sc := if need <=? sc s then sc s else Z.max need oracle |}.

(* src[:n] *)
Definition reslice_to (src : list Z) (n : Z) : outcome (list Z) :=
  if (0 <=? n) && (n <=? zlen src) then Ok (take (Z.to_nat n) src) else Panic.

(* ---------- internal/slice/add.go ---------- *)
(* for i := len(src)-1; i > index; i-- { if i-1 >= 0 { src[i] = src[i-1] } }
   k = number of iterations still to run, i = index + k *)
Fixpoint add_loop (k : nat) (index : Z) (src : list Z) : outcome (list Z) :=
  match k with
  | O => Ok src
  | S k' =>
      let i := index + Z.of_nat (S k') in
      obind (if 0 <=? i - 1
             then obind (arr_get src (i - 1)) (fun v => arr_set src i v)
             else Ok src)
            (fun src' => add_loop k' index src')
  end.

Definition slice_add (src : gslice) (element index oracle : Z) : outcome gslice :=
  let length := zlen (sv src) in
  if (index <? 0) || (index >? length) then Err EIndex
  else
    let src1 := go_append src [0] oracle in
    obind (add_loop (Z.to_nat (zlen (sv src1) - 1 - index)) index (sv src1)) (fun v =>
    obind (arr_set v index element) (fun v' =>
    Ok {| sv := v'; sc := sc src1 |})).

(* ---------- internal/slice/delete.go ---------- *)
(* for i := index; i+1 < length; i++ { src[i] = src[i+1] } *)
Fixpoint del_loop (k : nat) (i : Z) (src : list Z) : outcome (list Z) :=
  match k with
  | O => Ok src
  | S k' =>
      obind (arr_get src (i + 1)) (fun v =>
      obind (arr_set src i v) (fun src' => del_loop k' (i + 1) src'))
  end.

Definition slice_delete (src : gslice) (index : Z) : outcome (gslice * Z) :=
  let length := zlen (sv src) in
  if (index <? 0) || (index >=? length) then Err EIndex
  else
    obind (arr_get (sv src) index) (fun res =>
    obind (del_loop (Z.to_nat (length - 1 - index)) index (sv src)) (fun v =>
    obind (reslice_to v (length - 1)) (fun v' =>
    Ok ({| sv := v'; sc := sc src |}, res)))).

(* ---------- internal/slice/shrink.go (as it is now: no division by the length) ---------- *)
Definition cal_capacity (c l : Z) : Z * bool :=
  if c <=? 64 then (c, false)
  else if (c >? 2048) && (c >=? 2 * l) then (Z.quot (c * 5) 8, true)
  else if (c <=? 2048) && (c >=? 4 * l) then (Z.quot c 2, true)
  else (c, false).

Definition shrink (src : gslice) (oracle : Z) : outcome gslice :=
  let (n, changed) := cal_capacity (sc src) (zlen (sv src)) in
  if negb changed then Ok src
  else obind (go_make 0 n) (fun s => Ok (go_append s (sv src) oracle)).

(* for key, value := range vals { e := fn(key, value); if e != nil { return e } } *)
Fixpoint range_loop (vs : list Z) (i stop : Z) : list (Z * Z) * bool :=
  match vs with
  | [] => ([], false)
  | v :: t =>
      if i =? stop then ([(i, v)], true)
      else let r := range_loop t (i + 1) stop in ((i, v) :: fst r, snd r)
  end.

(* ====================================================================== *)
(* list/array_list.go                                                      *)
(* ====================================================================== *)
Definition al_get (a : gslice) (index : Z) : outcome out :=
  let l := zlen (sv a) in
  if (index <? 0) || (index >=? l) then Err EIndex
  else obind (arr_get (sv a) index) (fun v => Ok (OVal v)).

Definition al_append (a : gslice) (ts : list Z) (oracle : Z) : gslice * outcome out :=
  (go_append a ts oracle, Ok OUnit).

(* res, err := slice.Add(...); if err != nil { return err }; a.vals = res *)
Definition al_add (a : gslice) (index t oracle : Z) : gslice * outcome out :=
  match slice_add a t index oracle with
  | Ok res => (res, Ok OUnit)
  | Err e => (a, Err e)
  | Panic => (a, Panic)
  end.

Definition al_set (a : gslice) (index t : Z) : gslice * outcome out :=
  let length := zlen (sv a) in
  if (index >=? length) || (index <? 0) then (a, Err EIndex)
  else match arr_set (sv a) index t with
       | Ok v => ({| sv := v; sc := sc a |}, Ok OUnit)
       | Err e => (a, Err e)
       | Panic => (a, Panic)
       end.

Definition al_delete (a : gslice) (index oracle : Z) : gslice * outcome out :=
  match slice_delete a index with
  | Err e => (a, Err e)
  | Panic => (a, Panic)
  | Ok (res, t) =>
      match shrink res oracle with
      | Ok r => (r, Ok (OVal t))
      | Err e => (a, Err e)
      | Panic => (a, Panic)
      end
  end.

(* res := make([]T, len(vals)); copy(res, vals) *)
Definition as_slice_of (vals : list Z) : outcome out :=
  obind (go_make (zlen vals) (zlen vals)) (fun res =>
  Ok (OSlice false (go_copy (sv res) vals))).

Definition al_step (a : gslice) (o : op) (oracle : Z) : gslice * outcome out :=
  match o with
  | OpGet i => (a, al_get a i)
  | OpAppend xs => al_append a xs oracle
  | OpAdd i x => al_add a i x oracle
  | OpSet i x => al_set a i x
  | OpDelete i => al_delete a i oracle
  | OpLen => (a, Ok (OLen (zlen (sv a))))
  | OpCap => (a, Ok (OCap (sc a)))
  | OpRange stop => (a, let r := range_loop (sv a) 0 stop in Ok (ORange (fst r) (snd r)))
  | OpAsSlice => (a, as_slice_of (sv a))
  end.

(* ====================================================================== *)
(* list/linked_list.go                                                     *)
(* ====================================================================== *)
Record llist := { lnodes : list Z; llen : Z }.

Definition ring_size (l : llist) : nat := length (lnodes l) + 2.
Definition tail_pos (l : llist) : nat := length (lnodes l) + 1.
Definition ring_next (l : llist) (p : nat) : nat :=
  if (S p <? ring_size l)%nat then S p else O.
Definition ring_prev (l : llist) (p : nat) : nat :=
  match p with O => tail_pos l | S p' => p' end.

Fixpoint walk (f : nat -> nat) (steps : nat) (p : nat) : nat :=
  match steps with O => p | S k => walk f k (f p) end.

(* if index <= Len()/2 { cur = head; for i := -1; i < index; i++ { cur = cur.next } }
   else { cur = tail; for i := Len(); i > index; i-- { cur = cur.prev } } *)
Definition find_node (l : llist) (index : Z) : nat :=
  if index <=? Z.quot (llen l) 2
  then walk (ring_next l) (Z.to_nat (index + 1)) O
  else walk (ring_prev l) (Z.to_nat (llen l - index)) (tail_pos l).

(* ring position -> index of the node in lnodes; sentinels: see the header *)
Definition node_index (l : llist) (p : nat) : outcome nat :=
  if ((1 <=? p) && (p <=? length (lnodes l)))%nat then Ok (p - 1)%nat else Panic.

Definition node_val (l : llist) (p : nat) : outcome Z :=
  obind (node_index l p) (fun k =>
  match nth_opt (lnodes l) k with Some v => Ok v | None => Panic end).

Definition ll_check_index (l : llist) (index : Z) : bool :=
  (0 <=? index) && (index <? llen l).

Definition ll_get (l : llist) (index : Z) : outcome out :=
  if negb (ll_check_index l index) then Err EIndex
  else obind (node_val l (find_node l index)) (fun v => Ok (OVal v)).

(* one iteration of Append: link a new node before tail; length++ *)
Definition ll_push (l : llist) (t : Z) : llist :=
  {| lnodes := lnodes l ++ [t]; llen := llen l + 1 |}.

(* for _, t := range ts { ... } *)
Fixpoint ll_append (l : llist) (ts : list Z) : llist :=
  match ts with [] => l | t :: r => ll_append (ll_push l t) r end.

Definition ll_add (l : llist) (index t : Z) : llist * outcome out :=
  if (index <? 0) || (index >? llen l) then (l, Err EIndex)
  else if index =? llen l then (ll_append l [t], Ok OUnit)
  else match node_index l (find_node l index) with
       | Ok k => ({| lnodes := insert_at (lnodes l) k t; llen := llen l + 1 |}, Ok OUnit)
       | Err e => (l, Err e)
       | Panic => (l, Panic)
       end.

Definition ll_set (l : llist) (index t : Z) : llist * outcome out :=
  if negb (ll_check_index l index) then (l, Err EIndex)
  else match node_index l (find_node l index) with
       | Ok k => ({| lnodes := set_nth (lnodes l) k t; llen := llen l |}, Ok OUnit)
       | Err e => (l, Err e)
       | Panic => (l, Panic)
       end.

Definition ll_delete (l : llist) (index : Z) : llist * outcome out :=
  if negb (ll_check_index l index) then (l, Err EIndex)
  else match node_index l (find_node l index) with
       | Ok k =>
           match nth_opt (lnodes l) k with
           | Some v => ({| lnodes := remove_at (lnodes l) k; llen := llen l - 1 |}, Ok (OVal v))
           | None => (l, Panic)
           end
       | Err e => (l, Err e)
       | Panic => (l, Panic)
       end.

(* for cur, i := head.next, 0; i < length; i++ { err := fn(i, cur.val); ...; cur = cur.next } *)
Fixpoint ll_range_loop (l : llist) (k : nat) (pos : nat) (i stop : Z)
  : outcome (list (Z * Z) * bool) :=
  match k with
  | O => Ok ([], false)
  | S k' =>
      obind (node_val l pos) (fun v =>
      if i =? stop then Ok ([(i, v)], true)
      else obind (ll_range_loop l k' (ring_next l pos) (i + 1) stop) (fun r =>
           Ok ((i, v) :: fst r, snd r)))
  end.

(* slice := make([]T, length); for cur, i := head.next, 0; i < length; i++ { slice[i] = cur.val; cur = cur.next } *)
Fixpoint ll_fill_loop (l : llist) (k : nat) (pos : nat) (i : Z) (sl : list Z)
  : outcome (list Z) :=
  match k with
  | O => Ok sl
  | S k' =>
      obind (node_val l pos) (fun v =>
      obind (arr_set sl i v) (fun sl' =>
      ll_fill_loop l k' (ring_next l pos) (i + 1) sl'))
  end.

Definition ll_as_slice (l : llist) : outcome out :=
  obind (go_make (llen l) (llen l)) (fun s =>
  obind (ll_fill_loop l (Z.to_nat (llen l)) (ring_next l O) 0 (sv s)) (fun sl =>
  Ok (OSlice false sl))).

Definition ll_step (l : llist) (o : op) : llist * outcome out :=
  match o with
  | OpGet i => (l, ll_get l i)
  | OpAppend xs => (ll_append l xs, Ok OUnit)
  | OpAdd i x => ll_add l i x
  | OpSet i x => ll_set l i x
  | OpDelete i => ll_delete l i
  | OpLen => (l, Ok (OLen (llen l)))
  | OpCap => (l, Ok (OCap (llen l)))
  | OpRange stop =>
      (l, obind (ll_range_loop l (Z.to_nat (llen l)) (ring_next l O) 0 stop) (fun r =>
          Ok (ORange (fst r) (snd r))))
  | OpAsSlice => (l, ll_as_slice l)
  end.

(* ====================================================================== *)
(* list/copy_on_write_array_list.go (readers work on one snapshot)         *)
(* ====================================================================== *)
Definition cow_get (a : gslice) (index : Z) : outcome out :=
  let vals := sv a in
  let l := zlen vals in
  if (index <? 0) || (index >=? l) then Err EIndex
  else obind (arr_get vals index) (fun v => Ok (OVal v)).

(* newItems := make([]T, n, n+len(ts)); copy(newItems, a.vals); newItems = append(newItems, ts...) *)
Definition cow_append (a : gslice) (ts : list Z) (oracle : Z) : gslice * outcome out :=
  let n := zlen (sv a) in
  match go_make n (n + zlen ts) with
  | Ok m =>
      let newItems := {| sv := go_copy (sv m) (sv a); sc := sc m |} in
      (go_append newItems ts oracle, Ok OUnit)
  | Err e => (a, Err e)
  | Panic => (a, Panic)
  end.

Definition cow_add (a : gslice) (index t oracle : Z) : gslice * outcome out :=
  let n := zlen (sv a) in
  match go_make n (n + 1) with
  | Ok m =>
      let newItems := {| sv := go_copy (sv m) (sv a); sc := sc m |} in
      match slice_add newItems t index oracle with
      | Ok res => (res, Ok OUnit)
      | Err e => (a, Err e)
      | Panic => (a, Panic)
      end
  | Err e => (a, Err e)
  | Panic => (a, Panic)
  end.

Definition cow_set (a : gslice) (index t : Z) : gslice * outcome out :=
  let n := zlen (sv a) in
  if (index >=? n) || (index <? 0) then (a, Err EIndex)
  else match go_make n n with
       | Ok m =>
           match arr_set (go_copy (sv m) (sv a)) index t with
           | Ok v => ({| sv := v; sc := sc m |}, Ok OUnit)
           | Err e => (a, Err e)
           | Panic => (a, Panic)
           end
       | Err e => (a, Err e)
       | Panic => (a, Panic)
       end.

(* for i, v := range a.vals { if i == index { ret = v; continue }; newItems[item] = v; item++ } *)
Fixpoint cow_del_loop (vs : list Z) (i index item ret : Z) (newItems : list Z)
  : outcome (Z * list Z) :=
  match vs with
  | [] => Ok (ret, newItems)
  | v :: t =>
      if i =? index then cow_del_loop t (i + 1) index item v newItems
      else obind (arr_set newItems item v) (fun ni =>
           cow_del_loop t (i + 1) index (item + 1) ret ni)
  end.

Definition cow_delete (a : gslice) (index : Z) : gslice * outcome out :=
  let n := zlen (sv a) in
  if (index >=? n) || (index <? 0) then (a, Err EIndex)
  else match go_make (n - 1) (n - 1) with
       | Ok m =>
           match cow_del_loop (sv a) 0 index 0 0 (sv m) with
           | Ok (ret, ni) => ({| sv := ni; sc := sc m |}, Ok (OVal ret))
           | Err e => (a, Err e)
           | Panic => (a, Panic)
           end
       | Err e => (a, Err e)
       | Panic => (a, Panic)
       end.

Definition cow_step (a : gslice) (o : op) (oracle : Z) : gslice * outcome out :=
  match o with
  | OpGet i => (a, cow_get a i)
  | OpAppend xs => cow_append a xs oracle
  | OpAdd i x => cow_add a i x oracle
  | OpSet i x => cow_set a i x
  | OpDelete i => cow_delete a i
  | OpLen => (a, Ok (OLen (zlen (sv a))))
  | OpCap => (a, Ok (OCap (sc a)))
  | OpRange stop => (a, let r := range_loop (sv a) 0 stop in Ok (ORange (fst r) (snd r)))
  | OpAsSlice => (a, as_slice_of (sv a))
  end.

(* ====================================================================== *)
(* The four implementations behind one interface; ConcurrentList delegates *)
(* ====================================================================== *)
Inductive lstate :=
| SArr (a : gslice)
| SLinked (l : llist)
| SCow (a : gslice)
| SConc (inner : lstate).

Fixpoint lstep (s : lstate) (o : op) (oracle : Z) : lstate * outcome out :=
  match s with
  | SArr a => let (a', r) := al_step a o oracle in (SArr a', r)
  | SLinked l => let (l', r) := ll_step l o in (SLinked l', r)
  | SCow a => let (a', r) := cow_step a o oracle in (SCow a', r)
  | SConc i => let (i', r) := lstep i o oracle in (SConc i', r)
  end.

Fixpoint contents (s : lstate) : list Z :=
  match s with
  | SArr a => sv a
  | SLinked l => lnodes l
  | SCow a => sv a
  | SConc i => contents i
  end.

(* representation invariant (only LinkedList has one: the length field counts the nodes) *)
Fixpoint wf (s : lstate) : Prop :=
  match s with
  | SArr _ => True
  | SLinked l => llen l = zlen (lnodes l)
  | SCow _ => True
  | SConc i => wf i
  end.

Fixpoint lrun (s : lstate) (h : list (op * Z)) : list (outcome out) :=
  match h with
  | [] => []
  | (o, c) :: t => let (s', r) := lstep s o c in r :: lrun s' t
  end.

Fixpoint lfinal (s : lstate) (h : list (op * Z)) : lstate :=
  match h with [] => s | (o, c) :: t => lfinal (fst (lstep s o c)) t end.

(* constructors: NewArrayList(cap), NewLinkedList(), NewCopyOnWriteArrayList(),
   &ConcurrentList{List: inner} *)
Inductive impl := IArr | ILinked | ICow | IConc (inner : impl).

Fixpoint linit (im : impl) (cap0 : Z) : lstate :=
  match im with
  | IArr => SArr {| sv := []; sc := cap0 |}
  | ILinked => SLinked {| lnodes := []; llen := 0 |}
  | ICow => SCow {| sv := []; sc := 0 |}
  | IConc i => SConc (linit i cap0)
  end.

(* What the correspondence check observes.  Every step carries a flag: when it is set, Len,
   AsSlice and Cap (the last one only as a diagnostic, never compared) are called after the
   operation, through the model's own operations; when it is not, only the operation's own
   result is observed ("sparse observation": state kept by an implementation between calls
   is then not refreshed by the observers).  A history stops at the first Panic. *)
Fixpoint obs_run (s : lstate) (h : list (op * Z * bool))
  : list (outcome out * option (outcome out * outcome out * outcome out)) :=
  match h with
  | [] => []
  | (o, c, true) :: t =>
      let (s1, r) := lstep s o c in
      let (s2, rl) := lstep s1 OpLen c in
      let (s3, rs) := lstep s2 OpAsSlice c in
      let (s4, rc) := lstep s3 OpCap c in
      (r, Some (rl, rs, rc)) ::
      (if is_panic r || is_panic rl || is_panic rs then [] else obs_run s4 t)
  | (o, c, false) :: t =>
      let (s1, r) := lstep s o c in
      (r, None) :: (if is_panic r then [] else obs_run s1 t)
  end.

Fixpoint spec_obs_run (l : list Z) (h : list (op * Z * bool))
  : list (outcome out * option (outcome out * outcome out * outcome out)) :=
  match h with
  | [] => []
  | (o, _, b) :: t =>
      let (l1, r) := seq_step l o in
      (r, if b then Some (snd (seq_step l1 OpLen), snd (seq_step l1 OpAsSlice),
                          snd (seq_step l1 OpCap)) else None)
      :: spec_obs_run l1 t
  end.

(* ====================================================================== *)
(* The PINNED behaviour (before the fix: commits 3fdc36e and 7815cea); kept *)
(* only so that proof/ListProof.v can state what was wrong with it.         *)
(* ====================================================================== *)
(* a.vals, err = slice.Add(a.vals, t, index): on error the helper returns nil *)
Definition al_add_pinned (a : gslice) (index t oracle : Z) : gslice * outcome out :=
  match slice_add a t index oracle with
  | Ok res => (res, Ok OUnit)
  | Err e => ({| sv := []; sc := 0 |}, Err e)
  | Panic => (a, Panic)
  end.

(* c/l >= 2, c/l >= 4: integer division panics on l = 0 *)
Definition cal_capacity_pinned (c l : Z) : outcome (Z * bool) :=
  if c <=? 64 then Ok (c, false)
  else if l =? 0 then Panic
  else if (c >? 2048) && (Z.quot c l >=? 2) then Ok (Z.quot (c * 5) 8, true)
  else if (c <=? 2048) && (Z.quot c l >=? 4) then Ok (Z.quot c 2, true)
  else Ok (c, false).

Definition shrink_pinned (src : gslice) (oracle : Z) : outcome gslice :=
  obind (cal_capacity_pinned (sc src) (zlen (sv src))) (fun nc =>
  if negb (snd nc) then Ok src
  else obind (go_make 0 (fst nc)) (fun s => Ok (go_append s (sv src) oracle))).

Definition al_delete_pinned (a : gslice) (index oracle : Z) : gslice * outcome out :=
  match slice_delete a index with
  | Err e => (a, Err e)
  | Panic => (a, Panic)
  | Ok (res, t) =>
      match shrink_pinned res oracle with
      | Ok r => (r, Ok (OVal t))
      | Err e => (a, Err e)
      | Panic => (a, Panic)
      end
  end.
