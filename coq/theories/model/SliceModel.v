(* Executable model of /repo/slice/*.go, /repo/internal/slice/{add,delete}.go,
   /repo/mapx/map.go and /repo/tuple/pair/pair.go — C16.
   Definitions only; proofs are in proof/SliceProof*.v.

   Elements are Z.  A Go slice value is `option (list Z)`: None = nil.  Functions that do
   not look at nil-ness take the contents (`els`).  A Go map is a duplicate-free association
   list in insertion order; Go's iteration order is unspecified, so every map-derived result
   is one canonical representative and the theorems speak about membership / NoDup only
   (the correspondence check compares such results as sorted sets).
   Array accesses written with an explicit index in the Go code (`src[i]`) go through
   get_chk / set_chk, which yield Panic outside the bounds; `for _, v := range` loops are
   structural recursion. *)
From Ekit Require Import Common.

Definition sl := option (list Z).
Definition els (s : sl) : list Z := match s with Some l => l | None => [] end.

Definition get_chk (a : list Z) (i : nat) : outcome Z :=
  match nth_opt a i with Some v => Ok v | None => Panic end.
Definition set_chk (a : list Z) (i : nat) (v : Z) : outcome (list Z) :=
  if (i <? length a)%nat then Ok (set_nth a i v) else Panic.

(* ------------------------------------------------------------------ *)
(* slice/map.go: toMap, deduplicate (map[T]struct{} = insertion-ordered set) *)
Definition set_mem (x : Z) (s : list Z) : bool := existsb (Z.eqb x) s.
Definition set_put (x : Z) (s : list Z) : list Z := if set_mem x s then s else s ++ [x].
Definition set_del (x : Z) (s : list Z) : list Z := filter (fun y => negb (Z.eqb x y)) s.
Definition to_set (l : list Z) : list Z := fold_left (fun s x => set_put x s) l [].
Definition deduplicate (l : list Z) : list Z := to_set l.

(* slice/union.go UnionSet: for key in srcMap: dstMap[key] = {}; keys of dstMap *)
Definition union_set (src dst : list Z) : list Z :=
  fold_left (fun d k => set_put k d) (to_set src) (to_set dst).
(* slice/intersect.go IntersectSet *)
Definition intersect_set (src dst : list Z) : list Z :=
  deduplicate (filter (fun v => set_mem v (to_set src)) dst).
(* slice/diff.go DiffSet: delete every element of dst from srcMap *)
Definition diff_set (src dst : list Z) : list Z :=
  fold_left (fun s v => set_del v s) dst (to_set src).
(* slice/symmetric_diff.go SymmetricDiffSet: for k in dstMap: toggle k in srcMap *)
Definition symdiff_set (src dst : list Z) : list Z :=
  fold_left (fun s k => if set_mem k s then set_del k s else set_put k s) (to_set dst) (to_set src).
(* slice/contains.go ContainsAny / ContainsAll (early return = existsb / forallb) *)
Definition contains_any (src dst : list Z) : bool :=
  existsb (fun v => set_mem v (to_set src)) dst.
Definition contains_all (src dst : list Z) : bool :=
  forallb (fun v => set_mem v (to_set src)) dst.

(* ------------------------------------------------------------------ *)
(* predicate-taking variants; equal / match are the caller's functions *)
Section Funcs.
  Variable equal : Z -> Z -> bool.

  Definition contains_func (src : list Z) (p : Z -> bool) : bool := existsb p src.

  (* deduplicateFunc: element k is kept iff no LATER element is equal(later, it) *)
  Fixpoint deduplicate_func (data : list Z) : list Z :=
    match data with
    | [] => []
    | v :: t => if contains_func t (fun s => equal s v) then deduplicate_func t
                else v :: deduplicate_func t
    end.

  Definition union_set_func (src dst : list Z) : list Z := deduplicate_func (dst ++ src).
  Definition intersect_set_func (src dst : list Z) : list Z :=
    deduplicate_func (filter (fun v => contains_func src (fun t => equal t v)) dst).
  Definition diff_set_func (src dst : list Z) : list Z :=
    deduplicate_func (filter (fun v => negb (contains_func dst (fun s => equal s v))) src).
  Definition symdiff_set_func (src dst : list Z) : list Z :=
    deduplicate_func
      (filter (fun v => negb (contains_func dst (fun t => equal t v))) src ++
       filter (fun v => negb (contains_func src (fun t => equal t v))) dst).
  Definition contains_any_func (src dst : list Z) : bool :=
    existsb (fun vd => existsb (fun vs => equal vs vd) src) dst.
  Definition contains_all_func (src dst : list Z) : bool :=
    forallb (fun vd => contains_func src (fun s => equal s vd)) dst.
End Funcs.

Definition contains (src : list Z) (dst : Z) : bool := contains_func src (fun s => Z.eqb s dst).

(* ------------------------------------------------------------------ *)
(* slice/index.go, slice/find.go *)
Section Match.
  Variable mt : Z -> bool.

  Fixpoint index_from (l : list Z) (k : Z) : Z :=
    match l with [] => -1 | v :: t => if mt v then k else index_from t (k + 1) end.
  Definition index_func (src : list Z) : Z := index_from src 0.

  (* for i := len(src)-1; i >= 0; i-- { if match(src[i]) return i }; n = i+1 *)
  Fixpoint last_index_loop (src : list Z) (n : nat) : outcome Z :=
    match n with
    | O => Ok (-1)
    | S i => obind (get_chk src i) (fun v =>
               if mt v then Ok (Z.of_nat i) else last_index_loop src i)
    end.
  Definition last_index_func (src : list Z) : outcome Z := last_index_loop src (length src).

  Fixpoint index_all_from (l : list Z) (k : Z) : list Z :=
    match l with
    | [] => []
    | v :: t => if mt v then k :: index_all_from t (k + 1) else index_all_from t (k + 1)
    end.
  Definition index_all_func (src : list Z) : list Z := index_all_from src 0.

  Fixpoint find (src : list Z) : Z * bool :=
    match src with [] => (0, false) | v :: t => if mt v then (v, true) else find t end.
  Fixpoint find_all (src : list Z) : list Z :=
    match src with [] => [] | v :: t => if mt v then v :: find_all t else find_all t end.
End Match.

Definition index (src : list Z) (dst : Z) : Z := index_func (fun s => Z.eqb s dst) src.
Definition last_index (src : list Z) (dst : Z) : outcome Z := last_index_func (fun s => Z.eqb s dst) src.
Definition index_all (src : list Z) (dst : Z) : list Z := index_all_func (fun s => Z.eqb s dst) src.

(* ------------------------------------------------------------------ *)
(* slice/map.go FilterMap / Map / ToMap / ToMapV; slice/delete.go FilterDelete *)
Definition gmap := list (Z * Z).
Fixpoint map_get (k : Z) (m : gmap) : option Z :=
  match m with [] => None | (k', v') :: t => if Z.eqb k k' then Some v' else map_get k t end.
Fixpoint map_put (k v : Z) (m : gmap) : gmap :=
  match m with
  | [] => [(k, v)]
  | (k', v') :: t => if Z.eqb k k' then (k, v) :: t else (k', v') :: map_put k v t
  end.
Definition map_build (kvs : list (Z * Z)) : gmap :=
  fold_left (fun m kv => map_put (fst kv) (snd kv) m) kvs [].

Section IdxFuncs.
  Variable mf : Z -> Z -> Z.          (* m(idx, src) Dst *)
  Variable mp : Z -> Z -> bool.       (* m(idx, src) bool *)

  Fixpoint filter_map_from (l : list Z) (i : Z) : list Z :=
    match l with
    | [] => []
    | s :: t => if mp i s then mf i s :: filter_map_from t (i + 1) else filter_map_from t (i + 1)
    end.
  Definition filter_map (src : list Z) : list Z := filter_map_from src 0.

  Fixpoint map_from (l : list Z) (i : Z) : list Z :=
    match l with [] => [] | s :: t => mf i s :: map_from t (i + 1) end.
  Definition map_slice (src : list Z) : list Z := map_from src 0.

  (* FilterDelete: for idx := range src { if m(idx, src[idx]) continue; src[emptyPos] = src[idx]; emptyPos++ }
     state = (array, emptyPos); idx = length src - n.  Returns (array afterwards, emptyPos). *)
  Fixpoint filter_delete_loop (a : list Z) (empty idx n : nat) : outcome (list Z * nat) :=
    match n with
    | O => Ok (a, empty)
    | S n' =>
        obind (get_chk a idx) (fun v =>
          if mp (Z.of_nat idx) v then filter_delete_loop a empty (S idx) n'
          else obind (set_chk a empty v) (fun a' => filter_delete_loop a' (S empty) (S idx) n'))
    end.
  (* result = src[:emptyPos]; second component = the argument's contents afterwards *)
  Definition filter_delete (src : list Z) : outcome (list Z * list Z) :=
    obind (filter_delete_loop src 0 0 (length src)) (fun r => Ok (firstn (snd r) (fst r), fst r)).
End IdxFuncs.

Definition to_map_v (fk fv : Z -> Z) (elements : list Z) : gmap :=
  fold_left (fun m e => map_put (fk e) (fv e) m) elements [].
Definition to_map (fk : Z -> Z) (elements : list Z) : gmap := to_map_v fk (fun e => e) elements.

(* ------------------------------------------------------------------ *)
(* slice/reverse.go *)
Fixpoint reverse_loop (src : list Z) (n : nat) (ret : list Z) : outcome (list Z) :=
  match n with
  | O => Ok ret
  | S i => obind (get_chk src i) (fun v => reverse_loop src i (ret ++ [v]))
  end.
Definition reverse (src : list Z) : outcome (list Z) := reverse_loop src (length src) [].

(* for i, j := 0, len-1; i < j; i, j = i+1, j-1 { swap }.  fuel = len; running out of fuel
   with i < j still true is reported as Err EOther (excluded by reverse_self_rev). *)
Fixpoint reverse_self_loop (fuel : nat) (a : list Z) (i j : Z) : outcome (list Z) :=
  if i <? j then
    match fuel with
    | O => Err EOther
    | S f =>
        obind (get_chk a (Z.to_nat i)) (fun vi =>
        obind (get_chk a (Z.to_nat j)) (fun vj =>
        obind (set_chk a (Z.to_nat i) vj) (fun a1 =>
        obind (set_chk a1 (Z.to_nat j) vi) (fun a2 =>
        reverse_self_loop f a2 (i + 1) (j - 1)))))
    end
  else Ok a.
Definition reverse_self (src : list Z) : outcome (list Z) :=
  reverse_self_loop (length src) src 0 (Z.of_nat (length src) - 1).

(* ------------------------------------------------------------------ *)
(* internal/slice/add.go, slice/add.go *)
(* for i := len(src)-1; i > index; i-- { if i-1 >= 0 { src[i] = src[i-1] } }   with i = index + n;
   the guard i-1 >= 0 always holds there since i > index >= 0 *)
Fixpoint shift_right (a : list Z) (index n : nat) : outcome (list Z) :=
  match n with
  | O => Ok a
  | S n' => let i := (index + n)%nat in
            obind (get_chk a (i - 1)) (fun v =>
            obind (set_chk a i v) (fun a' => shift_right a' index n'))
  end.
Definition add (src : list Z) (element index : Z) : outcome (list Z) :=
  let length := Z.of_nat (length src) in
  if (index <? 0) || (index >? length) then Err EIndex
  else
    let src1 := src ++ [0] in                        (* append(src, zeroValue) *)
    let ix := Z.to_nat index in
    obind (shift_right src1 ix (List.length src1 - 1 - ix)) (fun a =>
    set_chk a ix element).
(* what the caller's slice (still of the old length) shows afterwards: append writes into the
   caller's backing array iff it has spare capacity, otherwise it copies *)
Definition add_arg_after (spare : bool) (src : list Z) (element index : Z) : list Z :=
  match add src element index with
  | Ok r => if spare then firstn (length src) r else src
  | _ => src
  end.

(* internal/slice/delete.go, slice/delete.go *)
(* for i := index; i+1 < length; i++ { src[i] = src[i+1] } *)
Fixpoint shift_left (a : list Z) (i n : nat) : outcome (list Z) :=
  match n with
  | O => Ok a
  | S n' => obind (get_chk a (i + 1)) (fun v =>
            obind (set_chk a i v) (fun a' => shift_left a' (S i) n'))
  end.
(* (result, removed element, argument's contents afterwards) *)
Definition delete_internal (src : list Z) (index : Z) : outcome (list Z * Z * list Z) :=
  let length := Z.of_nat (length src) in
  if (index <? 0) || (index >=? length) then Err EIndex
  else
    let ix := Z.to_nat index in
    obind (get_chk src ix) (fun res =>
    obind (shift_left src ix (List.length src - 1 - ix)) (fun a =>
    Ok (firstn (List.length src - 1) a, res, a))).
Definition delete (src : list Z) (index : Z) : outcome (list Z * list Z) :=
  obind (delete_internal src index) (fun r => Ok (fst (fst r), snd r)).

(* ------------------------------------------------------------------ *)
(* slice/aggregate.go: res := ts[0] panics on an empty slice *)
Definition max_slice (ts : list Z) : outcome Z :=
  match ts with
  | [] => Panic
  | x :: t => Ok (fold_left (fun res v => if v >? res then v else res) t x)
  end.
Definition min_slice (ts : list Z) : outcome Z :=
  match ts with
  | [] => Panic
  | x :: t => Ok (fold_left (fun res v => if v <? res then v else res) t x)
  end.
(* Go int is 64-bit: res += n wraps at every step *)
Definition sum_slice (ts : list Z) : Z := fold_left (fun res n => wrap_s 64 (res + n)) ts 0.

(* ------------------------------------------------------------------ *)
(* mapx/map.go *)
Definition map_keys (m : gmap) : list Z := map fst m.
Definition map_lookup0 (m : gmap) (k : Z) : Z := match map_get k m with Some v => v | None => 0 end.
Definition map_values (m : gmap) : list Z := map (map_lookup0 m) (map_keys m).
Definition map_keys_values (m : gmap) : list Z * list Z := (map_keys m, map_values m).
Definition mapx_to_map (keys values : sl) : outcome gmap :=
  match keys, values with
  | Some ks, Some vs =>
      if negb (Nat.eqb (length ks) (length vs)) then Err EOther
      else Ok (map_build (combine ks vs))
  | _, _ => Err EOther
  end.

(* ------------------------------------------------------------------ *)
(* tuple/pair/pair.go; `any` values are ints or something of another dynamic type *)
Inductive fany := FInt (z : Z) | FBad.
Definition pairs := option (list (Z * Z)).

Definition new_pairs (keys values : sl) : outcome pairs :=
  match keys, values with
  | Some ks, Some vs =>
      if negb (Nat.eqb (length ks) (length vs)) then Err EOther
      else Ok (Some (combine ks vs))
  | _, _ => Err EOther
  end.
Definition split_pairs (ps : pairs) : sl * sl :=
  match ps with
  | None => (None, None)
  | Some l => (Some (map fst l), Some (map snd l))
  end.
Definition flatten_pairs (ps : pairs) : option (list fany) :=
  match ps with
  | None => None
  | Some l => Some (flat_map (fun p => [FInt (fst p); FInt (snd p)]) l)
  end.
(* n = len/2 pairs; flatPairs[2i].(K) panics when the dynamic type is not K *)
Fixpoint pack_list (l : list fany) : outcome (list (Z * Z)) :=
  match l with
  | FInt k :: FInt v :: t => obind (pack_list t) (fun r => Ok ((k, v) :: r))
  | _ :: _ :: _ => Panic
  | _ => Ok []
  end.
Definition pack_pairs (flat : option (list fany)) : outcome pairs :=
  match flat with
  | None => Ok None
  | Some l => obind (pack_list l) (fun r => Ok (Some r))
  end.

(* ------------------------------------------------------------------ *)
(* concrete families of caller-supplied functions used by the correspondence check *)
Inductive pred := PEq (c : Z) | PLt (c : Z) | PEven | POdd | PConst (b : bool) | PIdxLt (c : Z) | PIdxEven.
Definition peval (p : pred) (i v : Z) : bool :=
  match p with
  | PEq c => Z.eqb v c
  | PLt c => Z.ltb v c
  | PEven => Z.even v
  | POdd => negb (Z.even v)
  | PConst b => b
  | PIdxLt c => Z.ltb i c
  | PIdxEven => Z.even i
  end.
Definition pmatch (p : pred) (v : Z) : bool := peval p 0 v.

Inductive mapf := MAdd (c : Z) | MMul (c : Z) | MConst (c : Z) | MIdx | MIdxAdd | MRem3.
Definition meval (f : mapf) (i v : Z) : Z :=
  match f with
  | MAdd c => v + c
  | MMul c => v * c
  | MConst c => c
  | MIdx => i
  | MIdxAdd => i + v
  | MRem3 => Z.rem v 3
  end.
Definition mkey (f : mapf) (v : Z) : Z := meval f 0 v.

Inductive eqf := EEq | EMod3 | ELe | ELt.
Definition eeval (e : eqf) (a b : Z) : bool :=
  match e with
  | EEq => Z.eqb a b
  | EMod3 => Z.eqb (Z.rem a 3) (Z.rem b 3)
  | ELe => Z.leb a b
  | ELt => Z.ltb a b
  end.

(* ------------------------------------------------------------------ *)
(* the calls of the correspondence check and their observables *)
Inductive call :=
| CUnionSet (a b : sl) | CIntersectSet (a b : sl) | CDiffSet (a b : sl) | CSymDiffSet (a b : sl)
| CContainsAny (a b : sl) | CContainsAll (a b : sl)
| CUnionSetFunc (e : eqf) (a b : sl) | CIntersectSetFunc (e : eqf) (a b : sl)
| CDiffSetFunc (e : eqf) (a b : sl) | CSymDiffSetFunc (e : eqf) (a b : sl)
| CContainsAnyFunc (e : eqf) (a b : sl) | CContainsAllFunc (e : eqf) (a b : sl)
| CContains (a : sl) (x : Z) | CContainsFunc (a : sl) (p : pred)
| CIndex (a : sl) (x : Z) | CIndexFunc (a : sl) (p : pred)
| CLastIndex (a : sl) (x : Z) | CLastIndexFunc (a : sl) (p : pred)
| CIndexAll (a : sl) (x : Z) | CIndexAllFunc (a : sl) (p : pred)
| CFind (a : sl) (p : pred) | CFindAll (a : sl) (p : pred)
| CFilterMap (a : sl) (f : mapf) (p : pred) | CMap (a : sl) (f : mapf)
| CToMap (a : sl) (fk : mapf) | CToMapV (a : sl) (fk fv : mapf)
| CReverse (a : sl) | CReverseSelf (a : sl)
| CDelete (a : sl) (i : Z) | CFilterDelete (a : sl) (p : pred)
| CAdd (spare : bool) (a : sl) (e i : Z)
| CMax (a : sl) | CMin (a : sl) | CSum (a : sl)
| CKeys (m : pairs) | CValues (m : pairs) | CKeysValues (m : pairs)
| CMapxToMap (ks vs : sl)
| CNewPairs (ks vs : sl) | CSplitPairs (ps : pairs) | CFlattenPairs (ps : pairs)
| CPackPairs (fl : option (list fany)).

Inductive ov :=
| VInt (z : Z) | VBool (b : bool)
| VSlice (s : sl)                    (* sequence, order significant *)
| VSet (s : sl)                      (* order not significant *)
| VPairs (p : pairs)                 (* sequence of pairs *)
| VMap (p : pairs)                   (* set of key:value; None = nil map *)
| VFlat (f : option (list fany))
| VErr (e : eclass) | VPanic.

(* result values, then the contents of every slice argument after the call *)
Definition pure1 (r : list ov) (a : sl) : list ov := r ++ [VSlice a].
Definition pure2 (r : list ov) (a b : sl) : list ov := r ++ [VSlice a; VSlice b].
Definition of_outcome {A} (o : outcome A) (f : A -> list ov) : list ov :=
  match o with Ok x => f x | Err e => [VErr e] | Panic => [VPanic] end.
(* a nil Go map ranges like an empty one *)
Definition gmap_of (m : pairs) : gmap := map_build (match m with Some l => l | None => [] end).

Definition run (c : call) : list ov :=
  match c with
  | CUnionSet a b => pure2 [VSet (Some (union_set (els a) (els b)))] a b
  | CIntersectSet a b => pure2 [VSet (Some (intersect_set (els a) (els b)))] a b
  | CDiffSet a b => pure2 [VSet (Some (diff_set (els a) (els b)))] a b
  | CSymDiffSet a b => pure2 [VSet (Some (symdiff_set (els a) (els b)))] a b
  | CContainsAny a b => pure2 [VBool (contains_any (els a) (els b))] a b
  | CContainsAll a b => pure2 [VBool (contains_all (els a) (els b))] a b
  | CUnionSetFunc e a b => pure2 [VSlice (Some (union_set_func (eeval e) (els a) (els b)))] a b
  | CIntersectSetFunc e a b => pure2 [VSlice (Some (intersect_set_func (eeval e) (els a) (els b)))] a b
  | CDiffSetFunc e a b => pure2 [VSlice (Some (diff_set_func (eeval e) (els a) (els b)))] a b
  | CSymDiffSetFunc e a b => pure2 [VSlice (Some (symdiff_set_func (eeval e) (els a) (els b)))] a b
  | CContainsAnyFunc e a b => pure2 [VBool (contains_any_func (eeval e) (els a) (els b))] a b
  | CContainsAllFunc e a b => pure2 [VBool (contains_all_func (eeval e) (els a) (els b))] a b
  | CContains a x => pure1 [VBool (contains (els a) x)] a
  | CContainsFunc a p => pure1 [VBool (contains_func (els a) (pmatch p))] a
  | CIndex a x => pure1 [VInt (index (els a) x)] a
  | CIndexFunc a p => pure1 [VInt (index_func (pmatch p) (els a))] a
  | CLastIndex a x => pure1 (of_outcome (last_index (els a) x) (fun z => [VInt z])) a
  | CLastIndexFunc a p => pure1 (of_outcome (last_index_func (pmatch p) (els a)) (fun z => [VInt z])) a
  | CIndexAll a x => pure1 [VSlice (Some (index_all (els a) x))] a
  | CIndexAllFunc a p => pure1 [VSlice (Some (index_all_func (pmatch p) (els a)))] a
  | CFind a p => let r := find (pmatch p) (els a) in pure1 [VInt (fst r); VBool (snd r)] a
  | CFindAll a p => pure1 [VSlice (Some (find_all (pmatch p) (els a)))] a
  | CFilterMap a f p => pure1 [VSlice (Some (filter_map (meval f) (peval p) (els a)))] a
  | CMap a f => pure1 [VSlice (Some (map_slice (meval f) (els a)))] a
  | CToMap a fk => pure1 [VMap (Some (to_map (mkey fk) (els a)))] a
  | CToMapV a fk fv => pure1 [VMap (Some (to_map_v (mkey fk) (mkey fv) (els a)))] a
  | CReverse a => pure1 (of_outcome (reverse (els a)) (fun r => [VSlice (Some r)])) a
  | CReverseSelf a =>
      of_outcome (reverse_self (els a)) (fun r => [VSlice (match a with None => None | Some _ => Some r end)])
  | CDelete a i =>
      match delete (els a) i with
      | Ok (r, after) => [VSlice (Some r); VSlice (Some after)]
      | Err e => [VSlice None; VErr e; VSlice a]
      | Panic => [VPanic]
      end
  | CFilterDelete a p =>
      of_outcome (filter_delete (peval p) (els a)) (fun r =>
        match a with
        | None => [VSlice None; VSlice None]
        | Some _ => [VSlice (Some (fst r)); VSlice (Some (snd r))]
        end)
  | CAdd spare a e i =>
      match add (els a) e i with
      | Ok r => [VSlice (Some r);
                 VSlice (match a with None => None | Some _ => Some (add_arg_after spare (els a) e i) end)]
      | Err er => [VSlice None; VErr er; VSlice a]
      | Panic => [VPanic]
      end
  | CMax a => pure1 (of_outcome (max_slice (els a)) (fun z => [VInt z])) a
  | CMin a => pure1 (of_outcome (min_slice (els a)) (fun z => [VInt z])) a
  | CSum a => pure1 [VInt (sum_slice (els a))] a
  | CKeys m => [VSet (Some (map_keys (gmap_of m)))]
  | CValues m => [VSet (Some (map_values (gmap_of m)))]
  | CKeysValues m =>
      let kv := map_keys_values (gmap_of m) in
      [VInt (Z.of_nat (length (fst kv))); VInt (Z.of_nat (length (snd kv)));
       VMap (Some (combine (fst kv) (snd kv)))]
  | CMapxToMap ks vs =>
      match mapx_to_map ks vs with
      | Ok m => pure2 [VMap (Some m)] ks vs
      | Err e => pure2 [VMap None; VErr e] ks vs
      | Panic => [VPanic]
      end
  | CNewPairs ks vs =>
      match new_pairs ks vs with
      | Ok p => pure2 [VPairs p] ks vs
      | Err e => pure2 [VPairs None; VErr e] ks vs
      | Panic => [VPanic]
      end
  | CSplitPairs ps => let r := split_pairs ps in [VSlice (fst r); VSlice (snd r); VPairs ps]
  | CFlattenPairs ps => [VFlat (flatten_pairs ps); VPairs ps]
  | CPackPairs fl => of_outcome (pack_pairs fl) (fun p => [VPairs p; VFlat fl])
  end.
