(* Statement-granular interleaving model of /repo/queue/delay_queue.go (C08, C09):
   DelayQueue.Enqueue, DelayQueue.Dequeue and the broadcast condition `cond`
   (cond.broadcast: 5 statements, cond.signalCh: 3 statements).

   One model step = one Go statement; the program counters are the instrumenter's labels
   (table in ocaml/drv_dq.ml).  Shared state:
     - a virtual clock [q_now] (advanced only by the event [DTick]); an element is
       (id, deadline) and Delay() = deadline - now;
     - the mutex [q_mutex] (owner);
     - the inner priority queue as an ABSTRACT bounded multiset [q_heap]: Peek/Dequeue yield an
       element of minimal deadline (among equal deadlines ANY: the choice index of [DStep]),
       Enqueue fails with ErrOutOfCapacity when capacity > 0 and len = capacity.  (That the
       array heap of internal/queue really returns a minimum is property C05; the comparator
       "by Delay() at comparison time" orders by deadline as long as the clock does not advance
       inside one heap operation, which is the case here: one statement = one step.)
     - the two conds: current channel = generation number, `make` yields the next generation of
       that cond, the CLOSED generations are explicit: between `c.signal = signal` and
       `close(old)` the old generation is neither current nor closed;
     - per Dequeue call the local `timer`: nil / (armed for instant F | not armed, tick buffered
       in timer.C or not).  time.NewTimer(d) and timer.Reset(d) arm for now + d; Reset and Stop
       do NOT drain the channel under the old run-time semantics ([q_old] = true,
       GODEBUG=asynctimerchan=1) and discard a pending tick under the new ones.  [DFire t] is the
       run-time delivering the tick: enabled only when the timer is armed and now >= F (a timer
       never fires early); the tick wakes the owner when it is parked in the select, otherwise it
       stays in the buffer and is consumed by the owner's next select (the stale tick).
   Nothing of C08/C09 is built in: the check `delay <= 0` uses the local computed earlier, the
   removal takes whatever minimum the heap yields at that moment, "parked" is decided by
   channel/closed/cancel/tick state alone, a woken thread has to go round the loop again.

   Blocking: `d.mutex.Lock()` is NOT enabled while the mutex is taken; `select` without default
   really blocks: the thread moves to a *Park pc (no observation) and is moved on by the event
   that wakes it (the `close(old)` step of a broadcaster, [DCancel], [DFire]), which lists the
   woken thread's arrival among its observations.  When several cases of a select are ready the
   run-time chooses: the choice index of [DStep].

   Ghost part (never read by a transition): [t_eff], [t_teval], [t_lag], [q_ins], [q_out], [q_okd].
   Definitions only. *)
From Ekit Require Import Common Conc.
From Coq Require Import Arith PeanoNat.

(* ---------- elements and the abstract heap ---------- *)
Definition elem := (Z * Z)%type.                 (* (id, deadline in ns of the virtual clock) *)
Definition e_id (x : elem) : Z := fst x.
Definition e_dl (x : elem) : Z := snd x.
Definition elem_eqb (a b : elem) : bool := (fst a =? fst b) && (snd a =? snd b).

Fixpoint min_dl (h : list elem) : option Z :=
  match h with
  | [] => None
  | x :: r => match min_dl r with None => Some (e_dl x) | Some m => Some (Z.min (e_dl x) m) end
  end.

(* the elements Peek / Dequeue may yield *)
Definition mins (h : list elem) : list elem :=
  match min_dl h with Some m => filter (fun x => e_dl x =? m) h | None => [] end.

Fixpoint remove_first (x : elem) (h : list elem) : list elem :=
  match h with
  | [] => []
  | y :: r => if elem_eqb x y then r else y :: remove_first x r
  end.

(* PriorityQueue.isFull: capacity > 0 && len == capacity  (capacity <= 0: unbounded) *)
Definition heap_full (cap : Z) (h : list elem) : bool :=
  (0 <? cap) && (Z.of_nat (length h) =? cap).

(* ---------- program counters ---------- *)
Inductive dq_pc :=
(* DelayQueue.Enqueue *)
| EFor        (* for {                                               *)
| ESel0       (*   select {   (with default)                         *)
| ECaseCtx0   (*   case <-ctx.Done():                                *)
| ERetCtx0    (*     return ctx.Err()                                *)
| EDefault0   (*   default:                                          *)
| ELock       (*   d.mutex.Lock()                                    *)
| EDo         (*   err := d.q.Enqueue(t)                             *)
| ESwitch     (*   switch err {                                      *)
| EBcast      (*   case nil: d.enqueueSignal.broadcast()             *)
| ERetNil     (*     return nil                                      *)
| ESigCh      (*   case ErrOutOfCapacity: signal := d.dequeueSignal.signalCh() *)
| ESel1       (*     select {                                        *)
| EPark1      (*       (blocked inside that select)                  *)
| ECaseCtx1   (*     case <-ctx.Done():                              *)
| ERetCtx1    (*       return ctx.Err()                              *)
| ECaseSig    (*     case <-signal:                                  *)
| EDefUnlock  (*   default: d.mutex.Unlock()                         *)
| EDefRet     (*     return fmt.Errorf(...)                          *)
(* DelayQueue.Dequeue *)
| DDefer      (* defer func() { ... }()                              *)
| DFor        (* for {                                               *)
| DSel0       (*   select {  (with default)                          *)
| DCaseCtx0   (*   case <-ctx.Done():                                *)
| DRetCtx0    (*     return t, ctx.Err()                             *)
| DDefault0   (*   default:                                          *)
| DLock0      (*   d.mutex.Lock()                                    *)
| DPeek0      (*   val, err := d.q.Peek()                            *)
| DSwitch     (*   switch err {                                      *)
| DDelay      (*   case nil: delay := val.Delay()                    *)
| DIfDelay    (*     if delay <= 0 {                                 *)
| DDeq0       (*       val, err = d.q.Dequeue()                      *)
| DBcast0     (*       d.dequeueSignal.broadcast()                   *)
| DRet0       (*       return val, err                               *)
| DSigCh0     (*     signal := d.enqueueSignal.signalCh()            *)
| DIfTimer    (*     if timer == nil {                               *)
| DNewTimer   (*       timer = time.NewTimer(delay)                  *)
| DReset      (*     } else { timer.Reset(delay) }                   *)
| DSel1       (*     select {                                        *)
| DPark1      (*       (blocked inside that select)                  *)
| DCaseCtx1   (*     case <-ctx.Done():                              *)
| DRetCtx1    (*       return t, ctx.Err()                           *)
| DCaseTimer  (*     case <-timer.C:                                 *)
| DLock1      (*       d.mutex.Lock()                                *)
| DPeek1      (*       val, err := d.q.Peek()                        *)
| DIf2        (*       if err != nil || val.Delay() > 0 {            *)
| DUnlock2    (*         d.mutex.Unlock()                            *)
| DContinue   (*         continue                                    *)
| DDeq1       (*       val, err = d.q.Dequeue()                      *)
| DBcast1     (*       d.dequeueSignal.broadcast()                   *)
| DRet1       (*       return val, err                               *)
| DCaseSig0   (*     case <-signal:                                  *)
| DSigCh1     (*   case ErrEmptyQueue: signal := d.enqueueSignal.signalCh() *)
| DSel2       (*     select {                                        *)
| DPark2      (*       (blocked inside that select)                  *)
| DCaseCtx2   (*     case <-ctx.Done():                              *)
| DRetCtx2    (*       return t, ctx.Err()                           *)
| DCaseSig1   (*     case <-signal:                                  *)
| DDefUnlock  (*   default: d.mutex.Unlock()                         *)
| DDefRet     (*     return t, fmt.Errorf(...)                       *)
| DDeferIf    (* (deferred) if timer != nil {                        *)
| DDeferStop  (* (deferred)   timer.Stop()                           *)
(* cond.broadcast *)
| Bc1         (* signal := make(chan struct{})                       *)
| Bc2         (* old := c.signal                                     *)
| Bc3         (* c.signal = signal                                   *)
| Bc4         (* c.l.Unlock()                                        *)
| Bc5         (* close(old)                                          *)
(* cond.signalCh *)
| Sc1         (* res := c.signal                                     *)
| Sc2         (* c.l.Unlock()                                        *)
| Sc3.        (* return res                                          *)

(* where a call of cond.broadcast / cond.signalCh returns to *)
Inductive dq_site :=
| SEnq        (* from Enqueue *)
| SDeqA       (* from Dequeue, first occurrence (…|0): broadcast after the direct removal, signalCh of the unexpired-head branch *)
| SDeqB.      (* from Dequeue, second occurrence (…|1): broadcast after the timer tick, signalCh of the empty-queue branch *)

Inductive dq_cnd := CE (* enqueueSignal *) | CD (* dequeueSignal *).
Definition bcond (s : dq_site) : dq_cnd := match s with SEnq => CE | _ => CD end.  (* cond the site broadcasts on *)
Definition wcond (s : dq_site) : dq_cnd := match s with SEnq => CD | _ => CE end.  (* cond the site waits on *)

Definition after_bcast (s : dq_site) : dq_pc := match s with SEnq => ERetNil | SDeqA => DRet0 | SDeqB => DRet1 end.
Definition after_sigch (s : dq_site) : dq_pc := match s with SEnq => ESel1 | SDeqA => DIfTimer | SDeqB => DSel2 end.

Inductive dq_herr := HNil | HFull | HEmpty.       (* error of the inner queue's operation *)
Inductive dq_ret :=
| RNil                (* Enqueue: nil *)
| RCtx                (* ctx.Err() *)
| RVal (v : elem)     (* Dequeue: (v, nil) *)
| ROther              (* any other error *)
| RPanic.             (* run-time panic (close of a closed channel, nil timer) *)
Inductive dq_eff := NoEff | Inserted | Removed (v : elem).   (* ghost: what this call did to the heap so far *)

Record dq_timer := Tm { tm_armed : option Z; tm_buf : bool }.

(* one call in flight: program counter + locals *)
Record dthr := Th {
  t_pc : dq_pc;
  t_site : dq_site;
  t_el : elem;                  (* Enqueue: the argument t; Dequeue: the local val *)
  t_herr : dq_herr;             (* the local err *)
  t_dly : Z;                    (* the local delay *)
  t_sg : nat;                   (* signalCh's res = the caller's signal: generation fetched *)
  t_bnew : nat;                 (* broadcast's signal *)
  t_bold : nat;                 (* broadcast's old *)
  t_tm : option dq_timer;       (* the local timer (None = nil) *)
  t_canc : bool;                (* the call's context is cancelled *)
  t_rv : dq_ret;                (* what the final return delivers (set by the return statement, the deferred epilogue follows) *)
  t_eff : dq_eff;               (* ghost *)
  t_teval : Z;                  (* ghost: clock value at which delay was computed *)
  t_lag : Z                     (* ghost: clock advance between that evaluation and the arming of the timer *)
}.

Definition dset_pc (th : dthr) (p : dq_pc) : dthr :=
  Th p (t_site th) (t_el th) (t_herr th) (t_dly th) (t_sg th) (t_bnew th) (t_bold th) (t_tm th) (t_canc th) (t_rv th) (t_eff th) (t_teval th) (t_lag th).
Definition dset_site (th : dthr) (s : dq_site) : dthr :=
  Th (t_pc th) s (t_el th) (t_herr th) (t_dly th) (t_sg th) (t_bnew th) (t_bold th) (t_tm th) (t_canc th) (t_rv th) (t_eff th) (t_teval th) (t_lag th).
Definition dset_val (th : dthr) (v : elem) (h : dq_herr) : dthr :=
  Th (t_pc th) (t_site th) v h (t_dly th) (t_sg th) (t_bnew th) (t_bold th) (t_tm th) (t_canc th) (t_rv th) (t_eff th) (t_teval th) (t_lag th).
Definition dset_herr (th : dthr) (h : dq_herr) : dthr :=
  Th (t_pc th) (t_site th) (t_el th) h (t_dly th) (t_sg th) (t_bnew th) (t_bold th) (t_tm th) (t_canc th) (t_rv th) (t_eff th) (t_teval th) (t_lag th).
Definition dset_dly (th : dthr) (d now : Z) : dthr :=
  Th (t_pc th) (t_site th) (t_el th) (t_herr th) d (t_sg th) (t_bnew th) (t_bold th) (t_tm th) (t_canc th) (t_rv th) (t_eff th) now (t_lag th).
Definition dset_sg (th : dthr) (g : nat) : dthr :=
  Th (t_pc th) (t_site th) (t_el th) (t_herr th) (t_dly th) g (t_bnew th) (t_bold th) (t_tm th) (t_canc th) (t_rv th) (t_eff th) (t_teval th) (t_lag th).
Definition dset_bnew (th : dthr) (g : nat) : dthr :=
  Th (t_pc th) (t_site th) (t_el th) (t_herr th) (t_dly th) (t_sg th) g (t_bold th) (t_tm th) (t_canc th) (t_rv th) (t_eff th) (t_teval th) (t_lag th).
Definition dset_bold (th : dthr) (g : nat) : dthr :=
  Th (t_pc th) (t_site th) (t_el th) (t_herr th) (t_dly th) (t_sg th) (t_bnew th) g (t_tm th) (t_canc th) (t_rv th) (t_eff th) (t_teval th) (t_lag th).
Definition dset_tm (th : dthr) (m : option dq_timer) : dthr :=
  Th (t_pc th) (t_site th) (t_el th) (t_herr th) (t_dly th) (t_sg th) (t_bnew th) (t_bold th) m (t_canc th) (t_rv th) (t_eff th) (t_teval th) (t_lag th).
Definition dset_arm (th : dthr) (m : option dq_timer) (lag : Z) : dthr :=
  Th (t_pc th) (t_site th) (t_el th) (t_herr th) (t_dly th) (t_sg th) (t_bnew th) (t_bold th) m (t_canc th) (t_rv th) (t_eff th) (t_teval th) lag.
Definition dset_canc (th : dthr) : dthr :=
  Th (t_pc th) (t_site th) (t_el th) (t_herr th) (t_dly th) (t_sg th) (t_bnew th) (t_bold th) (t_tm th) true (t_rv th) (t_eff th) (t_teval th) (t_lag th).
Definition dset_rv (th : dthr) (r : dq_ret) : dthr :=
  Th (t_pc th) (t_site th) (t_el th) (t_herr th) (t_dly th) (t_sg th) (t_bnew th) (t_bold th) (t_tm th) (t_canc th) r (t_eff th) (t_teval th) (t_lag th).
Definition dset_eff (th : dthr) (e : dq_eff) : dthr :=
  Th (t_pc th) (t_site th) (t_el th) (t_herr th) (t_dly th) (t_sg th) (t_bnew th) (t_bold th) (t_tm th) (t_canc th) (t_rv th) e (t_teval th) (t_lag th).

Definition zero_elem : elem := (0, 0).
Definition new_enq (x : elem) : dthr := Th EFor SEnq x HNil 0 O O O None false RNil NoEff 0 0.
Definition new_deq : dthr := Th DDefer SDeqA zero_elem HNil 0 O O O None false RNil NoEff 0 0.

(* ---------- configuration ---------- *)
Record dcond := Cn { c_cur : nat; c_next : nat; c_closed : list nat }.

Record dq_cfg := mkdq {
  q_cap : Z;                     (* the constructor's argument c *)
  q_old : bool;                  (* true: old timer-channel semantics (asynctimerchan=1) *)
  q_now : Z;                     (* virtual clock *)
  q_mutex : option tid;
  q_heap : list elem;
  q_esig : dcond;                (* enqueueSignal *)
  q_dsig : dcond;                (* dequeueSignal *)
  q_thr : list (tid * dthr);
  q_bad : bool;                  (* a fatal run-time error happened (unlock of an unlocked mutex, close of a closed channel, nil timer) *)
  q_ins : list elem;             (* ghost: elements inserted into the heap, newest first *)
  q_out : list elem;             (* ghost: elements returned by completed Dequeues, newest first *)
  q_okd : list elem              (* ghost: elements whose Enqueue returned nil, newest first *)
}.

Definition dq_init (cap : Z) (old : bool) : dq_cfg :=
  mkdq cap old 0 None [] (Cn 0 1 []) (Cn 0 1 []) [] false [] [] [].

Definition qset_thr c thr := mkdq (q_cap c) (q_old c) (q_now c) (q_mutex c) (q_heap c) (q_esig c) (q_dsig c) thr (q_bad c) (q_ins c) (q_out c) (q_okd c).
Definition qset_now c n := mkdq (q_cap c) (q_old c) n (q_mutex c) (q_heap c) (q_esig c) (q_dsig c) (q_thr c) (q_bad c) (q_ins c) (q_out c) (q_okd c).
Definition qset_mutex c m := mkdq (q_cap c) (q_old c) (q_now c) m (q_heap c) (q_esig c) (q_dsig c) (q_thr c) (q_bad c) (q_ins c) (q_out c) (q_okd c).
Definition qset_heap c h := mkdq (q_cap c) (q_old c) (q_now c) (q_mutex c) h (q_esig c) (q_dsig c) (q_thr c) (q_bad c) (q_ins c) (q_out c) (q_okd c).
Definition qset_ins c h i := mkdq (q_cap c) (q_old c) (q_now c) (q_mutex c) h (q_esig c) (q_dsig c) (q_thr c) (q_bad c) i (q_out c) (q_okd c).
Definition qset_bad c := mkdq (q_cap c) (q_old c) (q_now c) (q_mutex c) (q_heap c) (q_esig c) (q_dsig c) (q_thr c) true (q_ins c) (q_out c) (q_okd c).
Definition qset_out c o := mkdq (q_cap c) (q_old c) (q_now c) (q_mutex c) (q_heap c) (q_esig c) (q_dsig c) (q_thr c) (q_bad c) (q_ins c) o (q_okd c).
Definition qset_okd c o := mkdq (q_cap c) (q_old c) (q_now c) (q_mutex c) (q_heap c) (q_esig c) (q_dsig c) (q_thr c) (q_bad c) (q_ins c) (q_out c) o.
Definition get_cnd c (x : dq_cnd) : dcond := match x with CE => q_esig c | CD => q_dsig c end.
Definition qset_cnd c (x : dq_cnd) (v : dcond) :=
  match x with
  | CE => mkdq (q_cap c) (q_old c) (q_now c) (q_mutex c) (q_heap c) v (q_dsig c) (q_thr c) (q_bad c) (q_ins c) (q_out c) (q_okd c)
  | CD => mkdq (q_cap c) (q_old c) (q_now c) (q_mutex c) (q_heap c) (q_esig c) v (q_thr c) (q_bad c) (q_ins c) (q_out c) (q_okd c)
  end.

(* sync.Mutex.Unlock: unlocking an unlocked mutex is the run-time's fatal error *)
Definition q_unlock c := match q_mutex c with Some _ => qset_mutex c None | None => qset_bad c end.

(* ---------- events and observations ---------- *)
Inductive dq_ev :=
| DCallEnq (t : tid) (x : elem)
| DCallDeq (t : tid)
| DStep (t : tid) (k : nat)     (* k: which minimum the heap yields / which ready select case the run-time takes *)
| DCancel (t : tid)
| DFire (t : tid)               (* the run-time delivers the tick of t's timer *)
| DTick (d : Z).                (* the clock advances by d >= 0 *)

Inductive dq_obs := OAt (p : dq_pc) | ORet (r : dq_ret).
Definition dq_res := option (dq_cfg * list (tid * dq_obs)).

(* ---------- parking / waking ---------- *)
Definition is_park (p : dq_pc) : bool := match p with EPark1 | DPark1 | DPark2 => true | _ => false end.
Definition is_tpark (p : dq_pc) : bool := match p with DPark1 => true | _ => false end.   (* blocked in the select that has the timer case *)
Definition sig_case (p : dq_pc) : dq_pc := match p with EPark1 => ECaseSig | DPark1 => DCaseSig0 | DPark2 => DCaseSig1 | q => q end.
Definition ctx_case (p : dq_pc) : dq_pc := match p with EPark1 => ECaseCtx1 | DPark1 => DCaseCtx1 | DPark2 => DCaseCtx2 | q => q end.
Definition cnd_eqb (a b : dq_cnd) : bool := match a, b with CE, CE | CD, CD => true | _, _ => false end.

(* thread th is blocked in a select on generation g of cond x *)
Definition parked_on (x : dq_cnd) (g : nat) (th : dthr) : bool :=
  is_park (t_pc th) && cnd_eqb (wcond (t_site th)) x && Nat.eqb (t_sg th) g.

Definition wake1 (x : dq_cnd) (g : nat) (th : dthr) : dthr :=
  if parked_on x g th then dset_pc th (sig_case (t_pc th)) else th.
Definition wake_thr (x : dq_cnd) (g : nat) (l : list (tid * dthr)) : list (tid * dthr) :=
  map (fun e => (fst e, wake1 x g (snd e))) l.
Definition wake_obs (x : dq_cnd) (g : nat) (l : list (tid * dthr)) : list (tid * dq_obs) :=
  flat_map (fun e => if parked_on x g (snd e) then [(fst e, OAt (sig_case (t_pc (snd e))))] else []) l.

Definition mem_nat (g : nat) (l : list nat) : bool := existsb (Nat.eqb g) l.

(* ---------- one statement of thread t ---------- *)
Definition goto (c : dq_cfg) (t : tid) (th : dthr) (p : dq_pc) : dq_res :=
  Some (qset_thr c (update t (dset_pc th p) (q_thr c)), [(t, OAt p)]).
Definition park (c : dq_cfg) (t : tid) (th : dthr) (p : dq_pc) : dq_res :=
  Some (qset_thr c (update t (dset_pc th p) (q_thr c)), []).
(* the call returns r: the thread leaves the table; ghost logs *)
Definition fin_log (c : dq_cfg) (th : dthr) (r : dq_ret) : dq_cfg :=
  match r with
  | RVal v => qset_out c (v :: q_out c)
  | RNil => qset_okd c (t_el th :: q_okd c)
  | _ => c
  end.
Definition fin (c : dq_cfg) (t : tid) (th : dthr) (r : dq_ret) : dq_res :=
  Some (qset_thr (fin_log c th r) (remove t (q_thr c)), [(t, ORet r)]).

(* blocking select: [ready] = the cases that can proceed, in source order *)
Definition sel (c : dq_cfg) (t : tid) (th : dthr) (ready : list (dq_pc * dthr)) (parkpc : dq_pc) (k : nat) : dq_res :=
  match ready with
  | [] => park c t th parkpc
  | _ => match nth_error ready k with Some (p, th') => goto c t th' p | None => None end
  end.

Definition tm_take (th : dthr) : dthr :=     (* receive the buffered tick *)
  match t_tm th with Some m => dset_tm th (Some (Tm (tm_armed m) false)) | None => th end.
Definition tm_buffered (th : dthr) : bool := match t_tm th with Some m => tm_buf m | None => false end.

(* val, err := d.q.Peek() *)
Definition do_peek (c : dq_cfg) (t : tid) (th : dthr) (k : nat) (next : dq_pc) : dq_res :=
  match q_heap c with
  | [] => goto c t (dset_herr th HEmpty) next
  | _ => match nth_error (mins (q_heap c)) k with
         | Some v => goto c t (dset_val th v HNil) next
         | None => None
         end
  end.
(* val, err = d.q.Dequeue() *)
Definition do_deq (c : dq_cfg) (t : tid) (th : dthr) (k : nat) (s : dq_site) (next : dq_pc) : dq_res :=
  match q_heap c with
  | [] => goto c t (dset_site (dset_val th zero_elem HEmpty) s) next
  | _ => match nth_error (mins (q_heap c)) k with
         | Some v => goto (qset_heap c (remove_first v (q_heap c))) t
                          (dset_site (dset_eff (dset_val th v HNil) (Removed v)) s) next
         | None => None
         end
  end.
Definition ret_of (th : dthr) : dq_ret := match t_herr th with HNil => RVal (t_el th) | _ => ROther end.

Definition dq_step_thr (c : dq_cfg) (t : tid) (th : dthr) (k : nat) : dq_res :=
  let closed x g := mem_nat g (c_closed (get_cnd c x)) in
  match t_pc th with
  (* ----- Enqueue ----- *)
  | EFor => goto c t th ESel0
  | ESel0 => if t_canc th then goto c t th ECaseCtx0 else goto c t th EDefault0
  | ECaseCtx0 => goto c t th ERetCtx0
  | ERetCtx0 => fin c t th RCtx
  | EDefault0 => goto c t th ELock
  | ELock => match q_mutex c with None => goto (qset_mutex c (Some t)) t th EDo | Some _ => None end
  | EDo =>
    if heap_full (q_cap c) (q_heap c) then goto c t (dset_herr th HFull) ESwitch
    else goto (qset_ins c (q_heap c ++ [t_el th]) (t_el th :: q_ins c)) t (dset_eff (dset_herr th HNil) Inserted) ESwitch
  | ESwitch => match t_herr th with HNil => goto c t th EBcast | HFull => goto c t th ESigCh | HEmpty => goto c t th EDefUnlock end
  | EBcast => goto c t th Bc1
  | ERetNil => fin c t th RNil
  | ESigCh => goto c t th Sc1
  | ESel1 =>
    sel c t th ((if t_canc th then [(ECaseCtx1, th)] else []) ++
                (if closed CD (t_sg th) then [(ECaseSig, th)] else [])) EPark1 k
  | EPark1 => None
  | ECaseCtx1 => goto c t th ERetCtx1
  | ERetCtx1 => fin c t th RCtx
  | ECaseSig => goto c t th ESel0
  | EDefUnlock => goto (q_unlock c) t th EDefRet
  | EDefRet => fin c t th ROther
  (* ----- Dequeue ----- *)
  | DDefer => goto c t th DFor
  | DFor => goto c t th DSel0
  | DSel0 => if t_canc th then goto c t th DCaseCtx0 else goto c t th DDefault0
  | DCaseCtx0 => goto c t th DRetCtx0
  | DRetCtx0 => goto c t (dset_rv th RCtx) DDeferIf
  | DDefault0 => goto c t th DLock0
  | DLock0 => match q_mutex c with None => goto (qset_mutex c (Some t)) t th DPeek0 | Some _ => None end
  | DPeek0 => do_peek c t th k DSwitch
  | DSwitch =>
    match t_herr th with
    | HNil => goto c t th DDelay
    | HEmpty => goto c t (dset_site th SDeqB) DSigCh1
    | HFull => goto c t th DDefUnlock
    end
  | DDelay => goto c t (dset_dly th (e_dl (t_el th) - q_now c) (q_now c)) DIfDelay
  | DIfDelay => if t_dly th <=? 0 then goto c t th DDeq0 else goto c t (dset_site th SDeqA) DSigCh0
  | DDeq0 => do_deq c t th k SDeqA DBcast0
  | DBcast0 => goto c t th Bc1
  | DRet0 => goto c t (dset_rv th (ret_of th)) DDeferIf
  | DSigCh0 => goto c t th Sc1
  | DIfTimer => match t_tm th with None => goto c t th DNewTimer | Some _ => goto c t th DReset end
  | DNewTimer =>
    goto c t (dset_arm th (Some (Tm (Some (q_now c + t_dly th)) false)) (q_now c - t_teval th)) DSel1
  | DReset =>
    match t_tm th with
    | Some m => goto c t (dset_arm th (Some (Tm (Some (q_now c + t_dly th)) (if q_old c then tm_buf m else false)))
                                   (q_now c - t_teval th)) DSel1
    | None => fin (qset_bad c) t th RPanic
    end
  | DSel1 =>
    sel c t th ((if t_canc th then [(DCaseCtx1, th)] else []) ++
                (if tm_buffered th then [(DCaseTimer, tm_take th)] else []) ++
                (if closed CE (t_sg th) then [(DCaseSig0, th)] else [])) DPark1 k
  | DPark1 => None
  | DCaseCtx1 => goto c t th DRetCtx1
  | DRetCtx1 => goto c t (dset_rv th RCtx) DDeferIf
  | DCaseTimer => goto c t th DLock1
  | DLock1 => match q_mutex c with None => goto (qset_mutex c (Some t)) t th DPeek1 | Some _ => None end
  | DPeek1 => do_peek c t th k DIf2
  | DIf2 =>
    match t_herr th with
    | HNil => if e_dl (t_el th) - q_now c >? 0 then goto c t th DUnlock2 else goto c t th DDeq1
    | _ => goto c t th DUnlock2
    end
  | DUnlock2 => goto (q_unlock c) t th DContinue
  | DContinue => goto c t th DSel0
  | DDeq1 => do_deq c t th k SDeqB DBcast1
  | DBcast1 => goto c t th Bc1
  | DRet1 => goto c t (dset_rv th (ret_of th)) DDeferIf
  | DCaseSig0 => goto c t th DSel0
  | DSigCh1 => goto c t th Sc1
  | DSel2 =>
    sel c t th ((if t_canc th then [(DCaseCtx2, th)] else []) ++
                (if closed CE (t_sg th) then [(DCaseSig1, th)] else [])) DPark2 k
  | DPark2 => None
  | DCaseCtx2 => goto c t th DRetCtx2
  | DRetCtx2 => goto c t (dset_rv th RCtx) DDeferIf
  | DCaseSig1 => goto c t th DSel0
  | DDefUnlock => goto (q_unlock c) t th DDefRet
  | DDefRet => goto c t (dset_rv th ROther) DDeferIf
  | DDeferIf => match t_tm th with Some _ => goto c t th DDeferStop | None => fin c t th (t_rv th) end
  | DDeferStop =>
    match t_tm th with
    | Some m => fin c t (dset_tm th (Some (Tm None (if q_old c then tm_buf m else false)))) (t_rv th)
    | None => fin (qset_bad c) t th RPanic
    end
  (* ----- cond.broadcast ----- *)
  | Bc1 =>
    let x := bcond (t_site th) in let cn := get_cnd c x in
    goto (qset_cnd c x (Cn (c_cur cn) (S (c_next cn)) (c_closed cn))) t (dset_bnew th (c_next cn)) Bc2
  | Bc2 => goto c t (dset_bold th (c_cur (get_cnd c (bcond (t_site th))))) Bc3
  | Bc3 =>
    let x := bcond (t_site th) in let cn := get_cnd c x in
    goto (qset_cnd c x (Cn (t_bnew th) (c_next cn) (c_closed cn))) t th Bc4
  | Bc4 => goto (q_unlock c) t th Bc5
  | Bc5 =>
    let x := bcond (t_site th) in let cn := get_cnd c x in
    if mem_nat (t_bold th) (c_closed cn) then fin (qset_bad c) t th RPanic
    else
      let p := after_bcast (t_site th) in
      let c1 := qset_cnd c x (Cn (c_cur cn) (c_next cn) (t_bold th :: c_closed cn)) in
      let thr1 := update t (dset_pc th p) (q_thr c) in
      Some (qset_thr c1 (wake_thr x (t_bold th) thr1), (t, OAt p) :: wake_obs x (t_bold th) thr1)
  (* ----- cond.signalCh ----- *)
  | Sc1 => goto c t (dset_sg th (c_cur (get_cnd c (wcond (t_site th))))) Sc2
  | Sc2 => goto (q_unlock c) t th Sc3
  | Sc3 => goto c t th (after_sigch (t_site th))
  end.

Definition dq_exec1 (c : dq_cfg) (e : dq_ev) : dq_res :=
  match e with
  | DCallEnq t x =>
    match lookup t (q_thr c) with
    | Some _ => None
    | None => Some (qset_thr c (spawn t (new_enq x) (q_thr c)), [(t, OAt EFor)])
    end
  | DCallDeq t =>
    match lookup t (q_thr c) with
    | Some _ => None
    | None => Some (qset_thr c (spawn t new_deq (q_thr c)), [(t, OAt DDefer)])
    end
  | DStep t k =>
    match lookup t (q_thr c) with
    | Some th => dq_step_thr c t th k
    | None => None
    end
  | DCancel t =>
    match lookup t (q_thr c) with
    | Some th =>
      if t_canc th then None
      else if is_park (t_pc th) then goto c t (dset_canc th) (ctx_case (t_pc th))
      else Some (qset_thr c (update t (dset_canc th) (q_thr c)), [])
    | None => None
    end
  | DFire t =>
    match lookup t (q_thr c) with
    | Some th =>
      match t_tm th with
      | Some (Tm (Some f) b) =>
        if f <=? q_now c then
          if is_tpark (t_pc th) then goto c t (dset_tm th (Some (Tm None b))) DCaseTimer
          else Some (qset_thr c (update t (dset_tm th (Some (Tm None true))) (q_thr c)), [])
        else None
      | _ => None
      end
    | None => None
    end
  | DTick d => if 0 <=? d then Some (qset_now c (q_now c + d), []) else None
  end.

Definition dq_step (c : dq_cfg) (e : dq_ev) : option dq_cfg :=
  match dq_exec1 c e with Some (c', _) => Some c' | None => None end.

(* ---------- derived notions used by the theorems ---------- *)
Definition holds_lock (p : dq_pc) : bool :=
  match p with
  | EDo | ESwitch | EBcast | ESigCh | EDefUnlock
  | DPeek0 | DSwitch | DDelay | DIfDelay | DDeq0 | DBcast0 | DSigCh0 | DSigCh1
  | DPeek1 | DIf2 | DUnlock2 | DDeq1 | DBcast1 | DDefUnlock
  | Bc1 | Bc2 | Bc3 | Bc4 | Sc1 | Sc2 => true
  | _ => false
  end.

(* a thread that has fetched a generation of the cond it waits on and has not yet left the select *)
Definition is_waiter (p : dq_pc) : bool :=
  match p with
  | Sc2 | Sc3 | ESel1 | EPark1 | DIfTimer | DNewTimer | DReset | DSel1 | DPark1 | DSel2 | DPark2 => true
  | _ => false
  end.

(* a broadcaster that has replaced generation g of cond x and has not yet closed it *)
Definition closing (x : dq_cnd) (g : nat) (th : dthr) : bool :=
  match t_pc th with
  | Bc4 | Bc5 => cnd_eqb (bcond (t_site th)) x && Nat.eqb (t_bold th) g
  | _ => false
  end.

(* no statement and no timer tick is enabled: only CALL / CANCEL / TICK can change the configuration *)
Definition dq_stuck (c : dq_cfg) : Prop :=
  (forall t k, dq_exec1 c (DStep t k) = None) /\ (forall t, dq_exec1 c (DFire t) = None).
