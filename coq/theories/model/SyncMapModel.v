(* C06 — statement-granular interleaving model of /repo/syncx/map.go (generic wrapper of
   sync.Map, here Map[int,int]).  Definitions only; instance of the LinSys framework.

   sync.Map is a TRUSTED SPECIFICATION: an atomic map — each of Load, Store, LoadOrStore,
   LoadAndDelete, Delete takes effect atomically at its call (documented contract of sync.Map);
   the shared state of the model is that map (an association list).  Map.Range is NOT covered:
   sync.Map.Range is documented not to be a consistent snapshot, so there is no linearizability
   claim to transfer.

   LoadOrStoreFunc(key, fn) = { val, ok := m.Load(key); if ok {return val, true, nil};
                                val, err = fn(); if err != nil {return};
                                actual, loaded = m.LoadOrStore(key, val); return }
   is two atomic steps with fn in between; fn is a pure function of the call's arguments
   (value v, or failure).  Its sequential specification: present -> (existing, true, nil) and fn
   is not called; absent and fn fails -> (zero, false, err), no effect; absent -> store fn's value.
   Linearisation point: the Load when it finds the key or when fn is going to fail, otherwise the
   LoadOrStore (which may find a value another thread stored in between: fn's value is discarded). *)
From Ekit Require Import Common Conc LockedModel.

Definition smap := list (Z * Z).

Fixpoint m_get (k : Z) (m : smap) : option Z :=
  match m with
  | [] => None
  | (k', v) :: r => if k =? k' then Some v else m_get k r
  end.
Fixpoint m_del (k : Z) (m : smap) : smap :=
  match m with
  | [] => []
  | (k', v) :: r => if k =? k' then m_del k r else (k', v) :: m_del k r
  end.
Definition m_put (k v : Z) (m : smap) : smap := (k, v) :: m_del k m.

Inductive sm_op :=
| MLoad (k : Z) | MStore (k v : Z) | MLoadOrStore (k v : Z)
| MLoadOrStoreFunc (k v : Z) (fails : bool)
| MLoadAndDelete (k : Z) | MDelete (k : Z).

Inductive sm_ret :=
| MRUnit
| MRVal (v : Z) (ok : bool) (err : bool).   (* (value, ok/loaded [, err != nil]) *)

Definition sm_key (o : sm_op) : Z :=
  match o with
  | MLoad k | MStore k _ | MLoadOrStore k _ | MLoadOrStoreFunc k _ _ | MLoadAndDelete k | MDelete k => k
  end.

Definition opt_val (x : option Z) : Z := match x with Some v => v | None => 0 end.
Definition opt_ok (x : option Z) : bool := match x with Some _ => true | None => false end.

Definition sm_seq_step (m : smap) (o : sm_op) : smap * sm_ret :=
  match o with
  | MLoad k => (m, MRVal (opt_val (m_get k m)) (opt_ok (m_get k m)) false)
  | MStore k v => (m_put k v m, MRUnit)
  | MLoadOrStore k v =>
    match m_get k m with
    | Some x => (m, MRVal x true false)
    | None => (m_put k v m, MRVal v false false)
    end
  | MLoadOrStoreFunc k v fails =>
    match m_get k m with
    | Some x => (m, MRVal x true false)
    | None => if fails then (m, MRVal 0 false true) else (m_put k v m, MRVal v false false)
    end
  | MLoadAndDelete k => (m_del k m, MRVal (opt_val (m_get k m)) (opt_ok (m_get k m)) false)
  | MDelete k => (m_del k m, MRUnit)
  end.

Inductive sm_pc :=
(* Map.Load — called by Load and by LoadOrStoreFunc *)
| LdAtomic                                 (* anyVal, ok = m.m.Load(key) *)
| LdIf (found : option Z)                  (* if anyVal != nil *)
| LdAssert (found : option Z)              (* value = anyVal.(V) *)
| LdRet (value : Z) (ok : bool)            (* return *)
(* Map.Store *)
| StAtomic                                 (* m.m.Store(key, value) *)
(* Map.LoadOrStore — called by LoadOrStore and by LoadOrStoreFunc; v = the value argument *)
| LsAtomic (v : Z)                         (* anyVal, loaded = m.m.LoadOrStore(key, value) *)
| LsIf (a : Z) (loaded : bool)             (* if anyVal != nil *)
| LsAssert (a : Z) (loaded : bool)         (* actual = anyVal.(V) *)
| LsRet (actual : Z) (loaded : bool)       (* return *)
(* Map.LoadOrStoreFunc *)
| FLoad                                    (* val, ok := m.Load(key) *)
| FIfOk (val : Z) (ok : bool)              (* if ok *)
| FRetLoaded (val : Z)                     (* return val, true, nil *)
| FFn                                      (* val, err = fn() *)
| FIfErr (val : Z) (err : bool)            (* if err != nil *)
| FRetErr                                  (* return            (actual, loaded unassigned) *)
| FLs (val : Z)                            (* actual, loaded = m.LoadOrStore(key, val) *)
| FRet (actual : Z) (loaded : bool)        (* return *)
(* Map.LoadAndDelete *)
| LdlAtomic                                (* anyVal, loaded = m.m.LoadAndDelete(key) *)
| LdlIf (found : option Z)
| LdlAssert (found : option Z)
| LdlRet (value : Z) (ok : bool)
(* Map.Delete *)
| DlAtomic.                                (* m.m.Delete(key) *)

Definition sm_entry (o : sm_op) : sm_pc :=
  match o with
  | MLoad _ => LdAtomic
  | MStore _ _ => StAtomic
  | MLoadOrStore _ v => LsAtomic v
  | MLoadOrStoreFunc _ _ _ => FLoad
  | MLoadAndDelete _ => LdlAtomic
  | MDelete _ => DlAtomic
  end.

Notation sm_next := (next sm_ret sm_pc).

Definition sm_tstep (m : smap) (o : sm_op) (p : sm_pc) : option (smap * sm_next) :=
  let k := sm_key o in
  match p with
  | LdAtomic =>
    let found := m_get k m in
    match o with
    | MLoad _ => Some (m, NLin (LdIf found) (snd (sm_seq_step m o)))
    | MLoadOrStoreFunc _ _ fails =>
      if opt_ok found || fails then Some (m, NLin (LdIf found) (snd (sm_seq_step m o)))
      else Some (m, NPc (LdIf found))
    | _ => None
    end
  | LdIf found => if opt_ok found then Some (m, NPc (LdAssert found)) else Some (m, NPc (LdRet 0 false))
  | LdAssert found =>
    match found with
    | Some v => Some (m, NPc (LdRet v true))
    | None => Some (m, NPanic)              (* type assertion on a nil interface *)
    end
  | LdRet value ok =>
    match o with
    | MLoad _ => Some (m, NRet (MRVal value ok false))
    | MLoadOrStoreFunc _ _ _ => Some (m, NPc (FIfOk value ok))
    | _ => None
    end
  | StAtomic =>
    match o with
    | MStore _ v => Some (m_put k v m, NLinRet MRUnit)
    | _ => None
    end
  | LsAtomic v =>
    match m_get k m with
    | Some x => Some (m, NLin (LsIf x true) (snd (sm_seq_step m o)))
    | None => Some (m_put k v m, NLin (LsIf v false) (snd (sm_seq_step m o)))
    end
  | LsIf a loaded => Some (m, NPc (LsAssert a loaded))     (* a stored int is never a nil interface *)
  | LsAssert a loaded => Some (m, NPc (LsRet a loaded))
  | LsRet actual loaded =>
    match o with
    | MLoadOrStore _ _ => Some (m, NRet (MRVal actual loaded false))
    | MLoadOrStoreFunc _ _ _ => Some (m, NPc (FRet actual loaded))
    | _ => None
    end
  | FLoad => Some (m, NPc LdAtomic)
  | FIfOk val ok => if ok then Some (m, NPc (FRetLoaded val)) else Some (m, NPc FFn)
  | FRetLoaded val => Some (m, NRet (MRVal val true false))
  | FFn =>
    match o with
    | MLoadOrStoreFunc _ v fails => Some (m, NPc (FIfErr (if fails then 0 else v) fails))
    | _ => None
    end
  | FIfErr val err => if err then Some (m, NPc FRetErr) else Some (m, NPc (FLs val))
  | FRetErr => Some (m, NRet (MRVal 0 false true))
  | FLs val => Some (m, NPc (LsAtomic val))
  | FRet actual loaded => Some (m, NRet (MRVal actual loaded false))
  | LdlAtomic =>
    match o with
    | MLoadAndDelete _ => Some (m_del k m, NLin (LdlIf (m_get k m)) (snd (sm_seq_step m o)))
    | _ => None
    end
  | LdlIf found => if opt_ok found then Some (m, NPc (LdlAssert found)) else Some (m, NPc (LdlRet 0 false))
  | LdlAssert found =>
    match found with
    | Some v => Some (m, NPc (LdlRet v true))
    | None => Some (m, NPanic)
    end
  | LdlRet value ok => Some (m, NRet (MRVal value ok false))
  | DlAtomic =>
    match o with
    | MDelete _ => Some (m_del k m, NLinRet MRUnit)
    | _ => None
    end
  end.

(* the result a LoadOrStoreFunc call is already committed to after its Load *)
Definition f_after_load (o : sm_op) (value : Z) (ok : bool) : phase sm_op sm_ret :=
  match o with
  | MLoadOrStoreFunc _ _ fails =>
    if ok then PhLinned o (MRVal value true false)
    else if fails then PhLinned o (MRVal 0 false true) else PhCalled o
  | _ => PhLinned o (MRVal value ok false)
  end.

Definition sm_phase (o : sm_op) (p : sm_pc) : phase sm_op sm_ret :=
  match p with
  | LdAtomic | StAtomic | LsAtomic _ | FLoad | FLs _ | LdlAtomic | DlAtomic => PhCalled o
  | LdIf found | LdAssert found => f_after_load o (opt_val found) (opt_ok found)
  | LdRet value ok | FIfOk value ok => f_after_load o value ok
  | FRetLoaded val => PhLinned o (MRVal val true false)
  | FFn | FIfErr _ _ => f_after_load o 0 false
  | FRetErr => PhLinned o (MRVal 0 false true)
  | LsIf a loaded | LsAssert a loaded | LsRet a loaded | FRet a loaded => PhLinned o (MRVal a loaded false)
  | LdlIf found | LdlAssert found => PhLinned o (MRVal (opt_val found) (opt_ok found) false)
  | LdlRet value ok => PhLinned o (MRVal value ok false)
  end.

Definition sm_cfg := sys_cfg sm_op sm_ret smap sm_pc.
Definition sm_init (m : smap) : sm_cfg := sys_init m.
Definition sm_exec1 : sm_cfg -> sys_ev sm_op -> option (sm_cfg * sys_obs sm_op sm_ret sm_pc) :=
  sys_exec1 sm_entry sm_tstep.
Definition sm_step : sm_cfg -> sys_ev sm_op -> option sm_cfg := sys_step sm_entry sm_tstep.
