(* FootprintModel.v — C15: the per-type shared-memory FOOTPRINT TABLES of the thread-safe
   types, as Coq data, and the decidable discipline checker.  Definitions only (no proofs).

   One row = (type, entry function, statement label, location, access kind, guard):
     type      the thread-safe type whose public method (or goroutine body) is the entry
     function  the public method, or a goroutine body the type spawns ("goroutine", "States$go1")
     statement inline path (helper methods of the package are inlined) + normalised statement text
     location  "Struct.field"            a field of the struct whose static type is Struct
               "Struct.field[]"          the elements of a slice / map field
               "Struct.field.*"          the state of a foreign container (list.LinkedList,
                                         the embedded list.List, internal/queue.PriorityQueue,
                                         set.MapSet) reached through the field
               "Struct.field^"           the object a pointer/channel-typed field points to
                                         (atomic.Int64 behind a pointer, channel, sync.Pool)
     kind      plain read / plain write / atomic read / atomic write / atomic RMW /
               synchronisation operation (lock, unlock, send, recv, ...) / delegation to an
               internally synchronised std-lib object (sync.Map, sync.Pool, context: TRUSTED)
     guard     GNone            nothing declared (the only admissible guard of an atomic access)
               GConst           the field is never written by any row (read-only after construction)
               GLock l m        the thread holds lock l in mode >= m when the access happens
               GPubBefore o     access by the creating thread to an object that is still
                                thread-local; a release on o follows before anyone else sees it
               GPubAfter o      plain read after an acquire that the publishing release
                                happens-before (o names the object class: documentation and
                                cross-check against the tool's acq/rel sets; the proofs use
                                the happens-before hypothesis of [guards_respected])

   The tables below are what the MODEL DECLARES.  tools/footprint re-derives the same rows from
   /repo's current source on every run and checks/c15.py compares the two (both directions).
   They were seeded from the tool's output on the tree after the fix: commits and reviewed;
   [disciplined] (checked by vm_compute in proof/FootprintProof.v) is what makes a table a
   proof of data-race freedom, not its origin.

   [cond_pinned_table] is syncx.Cond before fix: 989ed9d: checkCopy read Cond.checker PLAINLY
   next to the atomic CAS (guard GNone: nothing protects the read); it is not disciplined and
   FootprintProof.v gives the racy execution.  [cond_table] is the current code. *)
From Coq Require Import List String Bool Arith.
From Ekit Require Import HB.
Import ListNotations.
Open Scope string_scope.

Inductive akind :=
| KRead | KWrite | KARead | KAWrite | KARmw
| KSync (op : string)
| KDelegate (op : string).

Inductive guard :=
| GNone
| GConst
| GLock (l : string) (m : mode)
| GPubBefore (o : string)
| GPubAfter (o : string).

Record row := mkRow {
  r_type : string; r_func : string; r_stmt : string;
  r_loc : string; r_kind : akind; r_guard : guard }.

Definition table := list row.

(* ---------- the decidable discipline checker ---------- *)

Inductive discipline :=
| DAtomic                     (* every access atomic                       -> HB.atomic_only *)
| DConst                      (* never written                             -> HB.read_only *)
| DLocked (l : string)        (* all plain, under l, writers exclusively   -> HB.guarded_by *)
| DPublished                  (* written before publication, read after    -> HB.publish_once_hb *)
| DInitLocked (l : string).   (* initialised before publication, then as DLocked
                                                                           -> HB.init_then_guarded_by *)

Definition mem_kind (k : akind) : bool :=
  match k with KRead | KWrite | KARead | KAWrite | KARmw => true | _ => false end.

Definition mem_rows (t : table) (x : string) : list row :=
  filter (fun r => mem_kind (r_kind r) && String.eqb (r_loc r) x) t.

Definition row_atomic (r : row) : bool :=
  match r_kind r, r_guard r with
  | (KARead | KAWrite | KARmw), GNone => true
  | _, _ => false
  end.

Definition row_const (r : row) : bool :=
  match r_kind r, r_guard r with KRead, GConst => true | _, _ => false end.

Definition row_locked (l : string) (r : row) : bool :=
  match r_kind r, r_guard r with
  | KRead, GLock l' _ => String.eqb l' l
  | KWrite, GLock l' Excl => String.eqb l' l
  | _, _ => false
  end.

Definition row_init (r : row) : bool :=
  match r_kind r, r_guard r with
  | (KRead | KWrite), GPubBefore _ => true
  | _, _ => false
  end.

Definition row_published (r : row) : bool :=
  row_init r || match r_kind r, r_guard r with KRead, GPubAfter _ => true | _, _ => false end.

Definition row_init_locked (l : string) (r : row) : bool := row_locked l r || row_init r.

Fixpoint first_lock (rs : list row) : option string :=
  match rs with
  | [] => None
  | r :: rest => match r_guard r with GLock l _ => Some l | _ => first_lock rest end
  end.

Definition classify (t : table) (x : string) : option discipline :=
  let rs := mem_rows t x in
  if forallb row_atomic rs then Some DAtomic
  else if forallb row_const rs then Some DConst
  else if forallb row_published rs then Some DPublished
  else match first_lock rs with
       | Some l => if forallb (row_locked l) rs then Some (DLocked l)
                   else if forallb (row_init_locked l) rs then Some (DInitLocked l)
                   else None
       | None => None
       end.

Definition is_some {A} (o : option A) : bool := match o with Some _ => true | None => false end.

Definition mem_locs (t : table) : list string :=
  map r_loc (filter (fun r => mem_kind (r_kind r)) t).

Definition disciplined_loc (t : table) (x : string) : bool := is_some (classify t x).

Definition disciplined (t : table) : bool := forallb (disciplined_loc t) (mem_locs t).

(* the locations of a table that have no discipline (for the report) *)
Definition undisciplined (t : table) : list string :=
  nodup string_dec (filter (fun x => negb (disciplined_loc t x)) (mem_locs t)).

(* ---------- executions that are instances of a table ---------- *)

(* locks of the single instance under consideration *)
Definition lname (l : string) : name := (l, 0).

Definition kind_matches (k : akind) (w a : bool) : bool :=
  match k with
  | KRead => negb w && negb a
  | KWrite => w && negb a
  | KARead => negb w && a
  | KAWrite | KARmw => w && a
  | _ => false
  end.

(* per object: the creating thread and the index of its publishing event *)
Definition pubmap := name -> option (thread * nat).

Definition guard_ok (e : execution) (pub : pubmap) (i : nat) (ev : event) (x : name) (g : guard) : Prop :=
  match g with
  | GNone | GConst => True
  | GLock l m =>
      holds_at_least e (tid ev) (lname l) m i /\
      match pub x with Some (_, r) => hb e r i | None => True end
  | GPubBefore _ =>
      exists t r evr, pub x = Some (t, r) /\ tid ev = t /\ i < r /\ ev_at e r evr /\ tid evr = t
  | GPubAfter _ =>
      exists t r, pub x = Some (t, r) /\
        (tid ev = t \/ exists q evq, q < i /\ ev_at e q evq /\ tid evq = tid ev /\ hb e r q)
  end.

(* every memory access of the execution is an instance of a row of the table (same field,
   same access kind) AND the guard that row declares is held when the access happens.
   This is the hypothesis the dynamic part (race detector under chaos scheduling) validates. *)
Definition guards_respected (t : table) (e : execution) : Prop :=
  exists pub : pubmap,
    forall i ev x w a, ev_at e i ev -> access_of (act ev) = Some (x, w, a) ->
      exists r, In r t /\ r_loc r = fst x /\ kind_matches (r_kind r) w a = true /\
                guard_ok e pub i ev x (r_guard r).

(* the weaker "all events are instances of table rows" alone *)
Definition instances_of (t : table) (e : execution) : Prop :=
  forall i ev x w a, ev_at e i ev -> access_of (act ev) = Some (x, w, a) ->
    exists r, In r t /\ r_loc r = fst x /\ kind_matches (r_kind r) w a = true.

(* ---------- the tables ---------- *)

Definition cow_table : table := [
  mkRow "CopyOnWriteArrayList" "Add" "a.mutex.Lock()" "CopyOnWriteArrayList.mutex" KRead GConst;
  mkRow "CopyOnWriteArrayList" "Add" "a.mutex.Lock()" "CopyOnWriteArrayList.mutex" (KSync "lock") GNone;
  mkRow "CopyOnWriteArrayList" "Add" "n := len(a.vals)" "CopyOnWriteArrayList.vals" KRead (GLock "CopyOnWriteArrayList.mutex" Excl);
  mkRow "CopyOnWriteArrayList" "Add" "copy(newItems, a.vals)" "CopyOnWriteArrayList.vals[]" KRead (GPubAfter "CopyOnWriteArrayList.mutex");
  mkRow "CopyOnWriteArrayList" "Add" "copy(newItems, a.vals)" "CopyOnWriteArrayList.vals[]" KWrite (GPubBefore "CopyOnWriteArrayList.mutex");
  mkRow "CopyOnWriteArrayList" "Add" "defer a.mutex.Unlock()" "CopyOnWriteArrayList.mutex" (KSync "unlock") GNone;
  mkRow "CopyOnWriteArrayList" "Add" "a.vals = newItems" "CopyOnWriteArrayList.vals" KWrite (GLock "CopyOnWriteArrayList.mutex" Excl);
  mkRow "CopyOnWriteArrayList" "Append" "a.mutex.Lock()" "CopyOnWriteArrayList.mutex" KRead GConst;
  mkRow "CopyOnWriteArrayList" "Append" "a.mutex.Lock()" "CopyOnWriteArrayList.mutex" (KSync "lock") GNone;
  mkRow "CopyOnWriteArrayList" "Append" "n := len(a.vals)" "CopyOnWriteArrayList.vals" KRead (GLock "CopyOnWriteArrayList.mutex" Excl);
  mkRow "CopyOnWriteArrayList" "Append" "copy(newItems, a.vals)" "CopyOnWriteArrayList.vals[]" KRead (GPubAfter "CopyOnWriteArrayList.mutex");
  mkRow "CopyOnWriteArrayList" "Append" "copy(newItems, a.vals)" "CopyOnWriteArrayList.vals[]" KWrite (GPubBefore "CopyOnWriteArrayList.mutex");
  mkRow "CopyOnWriteArrayList" "Append" "newItems = append(newItems, ts...)" "CopyOnWriteArrayList.vals[]" KRead (GPubBefore "CopyOnWriteArrayList.mutex");
  mkRow "CopyOnWriteArrayList" "Append" "a.vals = newItems" "CopyOnWriteArrayList.vals" KWrite (GLock "CopyOnWriteArrayList.mutex" Excl);
  mkRow "CopyOnWriteArrayList" "Append" "defer a.mutex.Unlock()" "CopyOnWriteArrayList.mutex" (KSync "unlock") GNone;
  mkRow "CopyOnWriteArrayList" "AsSlice" "a.mutex.Lock()" "CopyOnWriteArrayList.mutex" KRead GConst;
  mkRow "CopyOnWriteArrayList" "AsSlice" "a.mutex.Lock()" "CopyOnWriteArrayList.mutex" (KSync "lock") GNone;
  mkRow "CopyOnWriteArrayList" "AsSlice" "res := make([]T, len(a.vals))" "CopyOnWriteArrayList.vals" KRead (GLock "CopyOnWriteArrayList.mutex" Excl);
  mkRow "CopyOnWriteArrayList" "AsSlice" "copy(res, a.vals)" "CopyOnWriteArrayList.vals[]" KRead (GPubAfter "CopyOnWriteArrayList.mutex");
  mkRow "CopyOnWriteArrayList" "AsSlice" "defer a.mutex.Unlock()" "CopyOnWriteArrayList.mutex" (KSync "unlock") GNone;
  mkRow "CopyOnWriteArrayList" "Cap" "CopyOnWriteArrayList.snapshot: a.mutex.Lock()" "CopyOnWriteArrayList.mutex" KRead GConst;
  mkRow "CopyOnWriteArrayList" "Cap" "CopyOnWriteArrayList.snapshot: a.mutex.Lock()" "CopyOnWriteArrayList.mutex" (KSync "lock") GNone;
  mkRow "CopyOnWriteArrayList" "Cap" "CopyOnWriteArrayList.snapshot: return a.vals" "CopyOnWriteArrayList.vals" KRead (GLock "CopyOnWriteArrayList.mutex" Excl);
  mkRow "CopyOnWriteArrayList" "Cap" "CopyOnWriteArrayList.snapshot: defer a.mutex.Unlock()" "CopyOnWriteArrayList.mutex" (KSync "unlock") GNone;
  mkRow "CopyOnWriteArrayList" "Delete" "a.mutex.Lock()" "CopyOnWriteArrayList.mutex" KRead GConst;
  mkRow "CopyOnWriteArrayList" "Delete" "a.mutex.Lock()" "CopyOnWriteArrayList.mutex" (KSync "lock") GNone;
  mkRow "CopyOnWriteArrayList" "Delete" "n := len(a.vals)" "CopyOnWriteArrayList.vals" KRead (GLock "CopyOnWriteArrayList.mutex" Excl);
  mkRow "CopyOnWriteArrayList" "Delete" "defer a.mutex.Unlock()" "CopyOnWriteArrayList.mutex" (KSync "unlock") GNone;
  mkRow "CopyOnWriteArrayList" "Delete" "for range a.vals" "CopyOnWriteArrayList.vals[]" KRead (GPubAfter "CopyOnWriteArrayList.mutex");
  mkRow "CopyOnWriteArrayList" "Delete" "newItems[item] = v" "CopyOnWriteArrayList.vals[]" KWrite (GPubBefore "CopyOnWriteArrayList.mutex");
  mkRow "CopyOnWriteArrayList" "Delete" "a.vals = newItems" "CopyOnWriteArrayList.vals" KWrite (GLock "CopyOnWriteArrayList.mutex" Excl);
  mkRow "CopyOnWriteArrayList" "Get" "CopyOnWriteArrayList.snapshot: a.mutex.Lock()" "CopyOnWriteArrayList.mutex" KRead GConst;
  mkRow "CopyOnWriteArrayList" "Get" "CopyOnWriteArrayList.snapshot: a.mutex.Lock()" "CopyOnWriteArrayList.mutex" (KSync "lock") GNone;
  mkRow "CopyOnWriteArrayList" "Get" "CopyOnWriteArrayList.snapshot: return a.vals" "CopyOnWriteArrayList.vals" KRead (GLock "CopyOnWriteArrayList.mutex" Excl);
  mkRow "CopyOnWriteArrayList" "Get" "CopyOnWriteArrayList.snapshot: defer a.mutex.Unlock()" "CopyOnWriteArrayList.mutex" (KSync "unlock") GNone;
  mkRow "CopyOnWriteArrayList" "Get" "return vals[index], e" "CopyOnWriteArrayList.vals[]" KRead (GPubAfter "CopyOnWriteArrayList.mutex");
  mkRow "CopyOnWriteArrayList" "Len" "CopyOnWriteArrayList.snapshot: a.mutex.Lock()" "CopyOnWriteArrayList.mutex" KRead GConst;
  mkRow "CopyOnWriteArrayList" "Len" "CopyOnWriteArrayList.snapshot: a.mutex.Lock()" "CopyOnWriteArrayList.mutex" (KSync "lock") GNone;
  mkRow "CopyOnWriteArrayList" "Len" "CopyOnWriteArrayList.snapshot: return a.vals" "CopyOnWriteArrayList.vals" KRead (GLock "CopyOnWriteArrayList.mutex" Excl);
  mkRow "CopyOnWriteArrayList" "Len" "CopyOnWriteArrayList.snapshot: defer a.mutex.Unlock()" "CopyOnWriteArrayList.mutex" (KSync "unlock") GNone;
  mkRow "CopyOnWriteArrayList" "Range" "CopyOnWriteArrayList.snapshot: a.mutex.Lock()" "CopyOnWriteArrayList.mutex" KRead GConst;
  mkRow "CopyOnWriteArrayList" "Range" "CopyOnWriteArrayList.snapshot: a.mutex.Lock()" "CopyOnWriteArrayList.mutex" (KSync "lock") GNone;
  mkRow "CopyOnWriteArrayList" "Range" "CopyOnWriteArrayList.snapshot: return a.vals" "CopyOnWriteArrayList.vals" KRead (GLock "CopyOnWriteArrayList.mutex" Excl);
  mkRow "CopyOnWriteArrayList" "Range" "CopyOnWriteArrayList.snapshot: defer a.mutex.Unlock()" "CopyOnWriteArrayList.mutex" (KSync "unlock") GNone;
  mkRow "CopyOnWriteArrayList" "Range" "for range a.snapshot()" "CopyOnWriteArrayList.vals[]" KRead (GPubAfter "CopyOnWriteArrayList.mutex");
  mkRow "CopyOnWriteArrayList" "Set" "a.mutex.Lock()" "CopyOnWriteArrayList.mutex" KRead GConst;
  mkRow "CopyOnWriteArrayList" "Set" "a.mutex.Lock()" "CopyOnWriteArrayList.mutex" (KSync "lock") GNone;
  mkRow "CopyOnWriteArrayList" "Set" "n := len(a.vals)" "CopyOnWriteArrayList.vals" KRead (GLock "CopyOnWriteArrayList.mutex" Excl);
  mkRow "CopyOnWriteArrayList" "Set" "defer a.mutex.Unlock()" "CopyOnWriteArrayList.mutex" (KSync "unlock") GNone;
  mkRow "CopyOnWriteArrayList" "Set" "copy(newItems, a.vals)" "CopyOnWriteArrayList.vals[]" KRead (GPubAfter "CopyOnWriteArrayList.mutex");
  mkRow "CopyOnWriteArrayList" "Set" "copy(newItems, a.vals)" "CopyOnWriteArrayList.vals[]" KWrite (GPubBefore "CopyOnWriteArrayList.mutex");
  mkRow "CopyOnWriteArrayList" "Set" "a.vals = newItems" "CopyOnWriteArrayList.vals" KWrite (GLock "CopyOnWriteArrayList.mutex" Excl)
].

Definition clist_table : table := [
  mkRow "ConcurrentList" "Add" "c.lock.Lock()" "ConcurrentList.lock" (KSync "lock") GNone;
  mkRow "ConcurrentList" "Add" "return c.List.Add(index, t)" "ConcurrentList.List" KRead GConst;
  mkRow "ConcurrentList" "Add" "return c.List.Add(index, t)" "ConcurrentList.List.*" KWrite (GLock "ConcurrentList.lock" Excl);
  mkRow "ConcurrentList" "Add" "defer c.lock.Unlock()" "ConcurrentList.lock" (KSync "unlock") GNone;
  mkRow "ConcurrentList" "Append" "c.lock.Lock()" "ConcurrentList.lock" (KSync "lock") GNone;
  mkRow "ConcurrentList" "Append" "return c.List.Append(ts...)" "ConcurrentList.List" KRead GConst;
  mkRow "ConcurrentList" "Append" "return c.List.Append(ts...)" "ConcurrentList.List.*" KWrite (GLock "ConcurrentList.lock" Excl);
  mkRow "ConcurrentList" "Append" "defer c.lock.Unlock()" "ConcurrentList.lock" (KSync "unlock") GNone;
  mkRow "ConcurrentList" "AsSlice" "c.lock.RLock()" "ConcurrentList.lock" (KSync "rlock") GNone;
  mkRow "ConcurrentList" "AsSlice" "return c.List.AsSlice()" "ConcurrentList.List" KRead GConst;
  mkRow "ConcurrentList" "AsSlice" "return c.List.AsSlice()" "ConcurrentList.List.*" KRead (GLock "ConcurrentList.lock" Shared);
  mkRow "ConcurrentList" "AsSlice" "defer c.lock.RUnlock()" "ConcurrentList.lock" (KSync "runlock") GNone;
  mkRow "ConcurrentList" "Cap" "c.lock.RLock()" "ConcurrentList.lock" (KSync "rlock") GNone;
  mkRow "ConcurrentList" "Cap" "return c.List.Cap()" "ConcurrentList.List" KRead GConst;
  mkRow "ConcurrentList" "Cap" "return c.List.Cap()" "ConcurrentList.List.*" KRead (GLock "ConcurrentList.lock" Shared);
  mkRow "ConcurrentList" "Cap" "defer c.lock.RUnlock()" "ConcurrentList.lock" (KSync "runlock") GNone;
  mkRow "ConcurrentList" "Delete" "c.lock.Lock()" "ConcurrentList.lock" (KSync "lock") GNone;
  mkRow "ConcurrentList" "Delete" "return c.List.Delete(index)" "ConcurrentList.List" KRead GConst;
  mkRow "ConcurrentList" "Delete" "return c.List.Delete(index)" "ConcurrentList.List.*" KWrite (GLock "ConcurrentList.lock" Excl);
  mkRow "ConcurrentList" "Delete" "defer c.lock.Unlock()" "ConcurrentList.lock" (KSync "unlock") GNone;
  mkRow "ConcurrentList" "Get" "c.lock.RLock()" "ConcurrentList.lock" (KSync "rlock") GNone;
  mkRow "ConcurrentList" "Get" "return c.List.Get(index)" "ConcurrentList.List" KRead GConst;
  mkRow "ConcurrentList" "Get" "return c.List.Get(index)" "ConcurrentList.List.*" KRead (GLock "ConcurrentList.lock" Shared);
  mkRow "ConcurrentList" "Get" "defer c.lock.RUnlock()" "ConcurrentList.lock" (KSync "runlock") GNone;
  mkRow "ConcurrentList" "Len" "c.lock.RLock()" "ConcurrentList.lock" (KSync "rlock") GNone;
  mkRow "ConcurrentList" "Len" "return c.List.Len()" "ConcurrentList.List" KRead GConst;
  mkRow "ConcurrentList" "Len" "return c.List.Len()" "ConcurrentList.List.*" KRead (GLock "ConcurrentList.lock" Shared);
  mkRow "ConcurrentList" "Len" "defer c.lock.RUnlock()" "ConcurrentList.lock" (KSync "runlock") GNone;
  mkRow "ConcurrentList" "Range" "c.lock.RLock()" "ConcurrentList.lock" (KSync "rlock") GNone;
  mkRow "ConcurrentList" "Range" "return c.List.Range(fn)" "ConcurrentList.List" KRead GConst;
  mkRow "ConcurrentList" "Range" "return c.List.Range(fn)" "ConcurrentList.List.*" KRead (GLock "ConcurrentList.lock" Shared);
  mkRow "ConcurrentList" "Range" "defer c.lock.RUnlock()" "ConcurrentList.lock" (KSync "runlock") GNone;
  mkRow "ConcurrentList" "Set" "c.lock.Lock()" "ConcurrentList.lock" (KSync "lock") GNone;
  mkRow "ConcurrentList" "Set" "return c.List.Set(index, t)" "ConcurrentList.List" KRead GConst;
  mkRow "ConcurrentList" "Set" "return c.List.Set(index, t)" "ConcurrentList.List.*" KWrite (GLock "ConcurrentList.lock" Excl);
  mkRow "ConcurrentList" "Set" "defer c.lock.Unlock()" "ConcurrentList.lock" (KSync "unlock") GNone
].

Definition clq_table : table := [
  mkRow "ConcurrentLinkedQueue" "Dequeue" "headPtr := atomic.LoadPointer(&c.head)" "ConcurrentLinkedQueue.head" KARead GNone;
  mkRow "ConcurrentLinkedQueue" "Dequeue" "tailPtr := atomic.LoadPointer(&c.tail)" "ConcurrentLinkedQueue.tail" KARead GNone;
  mkRow "ConcurrentLinkedQueue" "Dequeue" "headNextPtr := atomic.LoadPointer(&head.next)" "node.next" KARead GNone;
  mkRow "ConcurrentLinkedQueue" "Dequeue" "if atomic.CompareAndSwapPointer(&c.head, headPtr, headNextPtr)" "ConcurrentLinkedQueue.head" KARmw GNone;
  mkRow "ConcurrentLinkedQueue" "Dequeue" "return headNext.val, nil" "node.val" KRead (GPubAfter "node.next");
  mkRow "ConcurrentLinkedQueue" "Enqueue" "newNode := &node[T]{val: t}" "node.val" KWrite (GPubBefore "node.next");
  mkRow "ConcurrentLinkedQueue" "Enqueue" "tailPtr := atomic.LoadPointer(&c.tail)" "ConcurrentLinkedQueue.tail" KARead GNone;
  mkRow "ConcurrentLinkedQueue" "Enqueue" "tailNext := atomic.LoadPointer(&tail.next)" "node.next" KARead GNone;
  mkRow "ConcurrentLinkedQueue" "Enqueue" "if atomic.CompareAndSwapPointer(&tail.next, tailNext, newPtr)" "node.next" KARmw GNone;
  mkRow "ConcurrentLinkedQueue" "Enqueue" "atomic.CompareAndSwapPointer(&c.tail, tailPtr, newPtr)" "ConcurrentLinkedQueue.tail" KARmw GNone
].

Definition abq_table : table := [
  mkRow "ConcurrentArrayBlockingQueue" "AsSlice" "c.mutex.RLock()" "ConcurrentArrayBlockingQueue.mutex" KRead GConst;
  mkRow "ConcurrentArrayBlockingQueue" "AsSlice" "c.mutex.RLock()" "ConcurrentArrayBlockingQueue.mutex" (KSync "rlock") GNone;
  mkRow "ConcurrentArrayBlockingQueue" "AsSlice" "res := make([]T, 0, c.count)" "ConcurrentArrayBlockingQueue.count" KRead (GLock "ConcurrentArrayBlockingQueue.mutex" Shared);
  mkRow "ConcurrentArrayBlockingQueue" "AsSlice" "capacity := cap(c.data)" "ConcurrentArrayBlockingQueue.data" KRead GConst;
  mkRow "ConcurrentArrayBlockingQueue" "AsSlice" "index := (c.head + cnt) % capacity" "ConcurrentArrayBlockingQueue.head" KRead (GLock "ConcurrentArrayBlockingQueue.mutex" Shared);
  mkRow "ConcurrentArrayBlockingQueue" "AsSlice" "res = append(res, c.data[index])" "ConcurrentArrayBlockingQueue.data[]" KRead (GLock "ConcurrentArrayBlockingQueue.mutex" Shared);
  mkRow "ConcurrentArrayBlockingQueue" "AsSlice" "defer c.mutex.RUnlock()" "ConcurrentArrayBlockingQueue.mutex" (KSync "runlock") GNone;
  mkRow "ConcurrentArrayBlockingQueue" "Dequeue" "err := c.dequeueCap.Acquire(ctx, 1)" "ConcurrentArrayBlockingQueue.dequeueCap" KRead GConst;
  mkRow "ConcurrentArrayBlockingQueue" "Dequeue" "err := c.dequeueCap.Acquire(ctx, 1)" "ConcurrentArrayBlockingQueue.dequeueCap^" (KSync "sem-acquire") GNone;
  mkRow "ConcurrentArrayBlockingQueue" "Dequeue" "c.mutex.Lock()" "ConcurrentArrayBlockingQueue.mutex" KRead GConst;
  mkRow "ConcurrentArrayBlockingQueue" "Dequeue" "c.mutex.Lock()" "ConcurrentArrayBlockingQueue.mutex" (KSync "lock") GNone;
  mkRow "ConcurrentArrayBlockingQueue" "Dequeue" "c.dequeueCap.Release(1)" "ConcurrentArrayBlockingQueue.dequeueCap^" (KSync "sem-release") GNone;
  mkRow "ConcurrentArrayBlockingQueue" "Dequeue" "defer c.mutex.Unlock()" "ConcurrentArrayBlockingQueue.mutex" (KSync "unlock") GNone;
  mkRow "ConcurrentArrayBlockingQueue" "Dequeue" "res = c.data[c.head]" "ConcurrentArrayBlockingQueue.data" KRead GConst;
  mkRow "ConcurrentArrayBlockingQueue" "Dequeue" "res = c.data[c.head]" "ConcurrentArrayBlockingQueue.head" KRead (GLock "ConcurrentArrayBlockingQueue.mutex" Excl);
  mkRow "ConcurrentArrayBlockingQueue" "Dequeue" "res = c.data[c.head]" "ConcurrentArrayBlockingQueue.data[]" KRead (GLock "ConcurrentArrayBlockingQueue.mutex" Excl);
  mkRow "ConcurrentArrayBlockingQueue" "Dequeue" "c.data[c.head] = c.zero" "ConcurrentArrayBlockingQueue.zero" KRead GConst;
  mkRow "ConcurrentArrayBlockingQueue" "Dequeue" "c.data[c.head] = c.zero" "ConcurrentArrayBlockingQueue.data[]" KWrite (GLock "ConcurrentArrayBlockingQueue.mutex" Excl);
  mkRow "ConcurrentArrayBlockingQueue" "Dequeue" "c.head++" "ConcurrentArrayBlockingQueue.head" KWrite (GLock "ConcurrentArrayBlockingQueue.mutex" Excl);
  mkRow "ConcurrentArrayBlockingQueue" "Dequeue" "c.count--" "ConcurrentArrayBlockingQueue.count" KRead (GLock "ConcurrentArrayBlockingQueue.mutex" Excl);
  mkRow "ConcurrentArrayBlockingQueue" "Dequeue" "c.count--" "ConcurrentArrayBlockingQueue.count" KWrite (GLock "ConcurrentArrayBlockingQueue.mutex" Excl);
  mkRow "ConcurrentArrayBlockingQueue" "Dequeue" "c.enqueueCap.Release(1)" "ConcurrentArrayBlockingQueue.enqueueCap" KRead GConst;
  mkRow "ConcurrentArrayBlockingQueue" "Dequeue" "c.enqueueCap.Release(1)" "ConcurrentArrayBlockingQueue.enqueueCap^" (KSync "sem-release") GNone;
  mkRow "ConcurrentArrayBlockingQueue" "Enqueue" "err := c.enqueueCap.Acquire(ctx, 1)" "ConcurrentArrayBlockingQueue.enqueueCap" KRead GConst;
  mkRow "ConcurrentArrayBlockingQueue" "Enqueue" "err := c.enqueueCap.Acquire(ctx, 1)" "ConcurrentArrayBlockingQueue.enqueueCap^" (KSync "sem-acquire") GNone;
  mkRow "ConcurrentArrayBlockingQueue" "Enqueue" "c.mutex.Lock()" "ConcurrentArrayBlockingQueue.mutex" KRead GConst;
  mkRow "ConcurrentArrayBlockingQueue" "Enqueue" "c.mutex.Lock()" "ConcurrentArrayBlockingQueue.mutex" (KSync "lock") GNone;
  mkRow "ConcurrentArrayBlockingQueue" "Enqueue" "c.enqueueCap.Release(1)" "ConcurrentArrayBlockingQueue.enqueueCap^" (KSync "sem-release") GNone;
  mkRow "ConcurrentArrayBlockingQueue" "Enqueue" "defer c.mutex.Unlock()" "ConcurrentArrayBlockingQueue.mutex" (KSync "unlock") GNone;
  mkRow "ConcurrentArrayBlockingQueue" "Enqueue" "c.data[c.tail] = t" "ConcurrentArrayBlockingQueue.data" KRead GConst;
  mkRow "ConcurrentArrayBlockingQueue" "Enqueue" "c.data[c.tail] = t" "ConcurrentArrayBlockingQueue.tail" KRead (GLock "ConcurrentArrayBlockingQueue.mutex" Excl);
  mkRow "ConcurrentArrayBlockingQueue" "Enqueue" "c.data[c.tail] = t" "ConcurrentArrayBlockingQueue.data[]" KWrite (GLock "ConcurrentArrayBlockingQueue.mutex" Excl);
  mkRow "ConcurrentArrayBlockingQueue" "Enqueue" "c.tail++" "ConcurrentArrayBlockingQueue.tail" KWrite (GLock "ConcurrentArrayBlockingQueue.mutex" Excl);
  mkRow "ConcurrentArrayBlockingQueue" "Enqueue" "c.count++" "ConcurrentArrayBlockingQueue.count" KRead (GLock "ConcurrentArrayBlockingQueue.mutex" Excl);
  mkRow "ConcurrentArrayBlockingQueue" "Enqueue" "c.count++" "ConcurrentArrayBlockingQueue.count" KWrite (GLock "ConcurrentArrayBlockingQueue.mutex" Excl);
  mkRow "ConcurrentArrayBlockingQueue" "Enqueue" "c.dequeueCap.Release(1)" "ConcurrentArrayBlockingQueue.dequeueCap" KRead GConst;
  mkRow "ConcurrentArrayBlockingQueue" "Enqueue" "c.dequeueCap.Release(1)" "ConcurrentArrayBlockingQueue.dequeueCap^" (KSync "sem-release") GNone;
  mkRow "ConcurrentArrayBlockingQueue" "Len" "c.mutex.RLock()" "ConcurrentArrayBlockingQueue.mutex" KRead GConst;
  mkRow "ConcurrentArrayBlockingQueue" "Len" "c.mutex.RLock()" "ConcurrentArrayBlockingQueue.mutex" (KSync "rlock") GNone;
  mkRow "ConcurrentArrayBlockingQueue" "Len" "return c.count" "ConcurrentArrayBlockingQueue.count" KRead (GLock "ConcurrentArrayBlockingQueue.mutex" Shared);
  mkRow "ConcurrentArrayBlockingQueue" "Len" "defer c.mutex.RUnlock()" "ConcurrentArrayBlockingQueue.mutex" (KSync "runlock") GNone
].

Definition lbq_table : table := [
  mkRow "ConcurrentLinkedBlockingQueue" "AsSlice" "c.mutex.RLock()" "ConcurrentLinkedBlockingQueue.mutex" KRead GConst;
  mkRow "ConcurrentLinkedBlockingQueue" "AsSlice" "c.mutex.RLock()" "ConcurrentLinkedBlockingQueue.mutex" (KSync "rlock") GNone;
  mkRow "ConcurrentLinkedBlockingQueue" "AsSlice" "res := c.linkedlist.AsSlice()" "ConcurrentLinkedBlockingQueue.linkedlist" KRead GConst;
  mkRow "ConcurrentLinkedBlockingQueue" "AsSlice" "res := c.linkedlist.AsSlice()" "ConcurrentLinkedBlockingQueue.linkedlist.*" KRead (GLock "ConcurrentLinkedBlockingQueue.mutex" Shared);
  mkRow "ConcurrentLinkedBlockingQueue" "AsSlice" "defer c.mutex.RUnlock()" "ConcurrentLinkedBlockingQueue.mutex" (KSync "runlock") GNone;
  mkRow "ConcurrentLinkedBlockingQueue" "Dequeue" "c.mutex.Lock()" "ConcurrentLinkedBlockingQueue.mutex" KRead GConst;
  mkRow "ConcurrentLinkedBlockingQueue" "Dequeue" "c.mutex.Lock()" "ConcurrentLinkedBlockingQueue.mutex" (KSync "lock") GNone;
  mkRow "ConcurrentLinkedBlockingQueue" "Dequeue" "for c.linkedlist.Len() == 0" "ConcurrentLinkedBlockingQueue.linkedlist" KRead GConst;
  mkRow "ConcurrentLinkedBlockingQueue" "Dequeue" "for c.linkedlist.Len() == 0" "ConcurrentLinkedBlockingQueue.linkedlist.*" KRead (GLock "ConcurrentLinkedBlockingQueue.mutex" Excl);
  mkRow "ConcurrentLinkedBlockingQueue" "Dequeue" "signal := c.notEmpty.signalCh()" "ConcurrentLinkedBlockingQueue.notEmpty" KRead GConst;
  mkRow "ConcurrentLinkedBlockingQueue" "Dequeue" "cond.signalCh: res := c.signal" "cond.signal" KRead (GLock "ConcurrentLinkedBlockingQueue.mutex" Excl);
  mkRow "ConcurrentLinkedBlockingQueue" "Dequeue" "cond.signalCh: c.l.Unlock()" "cond.l" KRead GConst;
  mkRow "ConcurrentLinkedBlockingQueue" "Dequeue" "cond.signalCh: c.l.Unlock()" "ConcurrentLinkedBlockingQueue.mutex" (KSync "unlock") GNone;
  mkRow "ConcurrentLinkedBlockingQueue" "Dequeue" "<-signal" "cond.signal^" (KSync "recv") GNone;
  mkRow "ConcurrentLinkedBlockingQueue" "Dequeue" "val, err := c.linkedlist.Delete(0)" "ConcurrentLinkedBlockingQueue.linkedlist.*" KWrite (GLock "ConcurrentLinkedBlockingQueue.mutex" Excl);
  mkRow "ConcurrentLinkedBlockingQueue" "Dequeue" "c.notFull.broadcast()" "ConcurrentLinkedBlockingQueue.notFull" KRead GConst;
  mkRow "ConcurrentLinkedBlockingQueue" "Dequeue" "cond.broadcast: c.signal = signal" "cond.signal" KWrite (GLock "ConcurrentLinkedBlockingQueue.mutex" Excl);
  mkRow "ConcurrentLinkedBlockingQueue" "Dequeue" "cond.broadcast: close(old)" "cond.signal^" (KSync "close") GNone;
  mkRow "ConcurrentLinkedBlockingQueue" "Enqueue" "c.mutex.Lock()" "ConcurrentLinkedBlockingQueue.mutex" KRead GConst;
  mkRow "ConcurrentLinkedBlockingQueue" "Enqueue" "c.mutex.Lock()" "ConcurrentLinkedBlockingQueue.mutex" (KSync "lock") GNone;
  mkRow "ConcurrentLinkedBlockingQueue" "Enqueue" "for c.maxSize > 0 && c.linkedlist.Len() == c.maxSize" "ConcurrentLinkedBlockingQueue.maxSize" KRead GConst;
  mkRow "ConcurrentLinkedBlockingQueue" "Enqueue" "for c.maxSize > 0 && c.linkedlist.Len() == c.maxSize" "ConcurrentLinkedBlockingQueue.linkedlist" KRead GConst;
  mkRow "ConcurrentLinkedBlockingQueue" "Enqueue" "for c.maxSize > 0 && c.linkedlist.Len() == c.maxSize" "ConcurrentLinkedBlockingQueue.linkedlist.*" KRead (GLock "ConcurrentLinkedBlockingQueue.mutex" Excl);
  mkRow "ConcurrentLinkedBlockingQueue" "Enqueue" "signal := c.notFull.signalCh()" "ConcurrentLinkedBlockingQueue.notFull" KRead GConst;
  mkRow "ConcurrentLinkedBlockingQueue" "Enqueue" "cond.signalCh: res := c.signal" "cond.signal" KRead (GLock "ConcurrentLinkedBlockingQueue.mutex" Excl);
  mkRow "ConcurrentLinkedBlockingQueue" "Enqueue" "cond.signalCh: c.l.Unlock()" "cond.l" KRead GConst;
  mkRow "ConcurrentLinkedBlockingQueue" "Enqueue" "cond.signalCh: c.l.Unlock()" "ConcurrentLinkedBlockingQueue.mutex" (KSync "unlock") GNone;
  mkRow "ConcurrentLinkedBlockingQueue" "Enqueue" "<-signal" "cond.signal^" (KSync "recv") GNone;
  mkRow "ConcurrentLinkedBlockingQueue" "Enqueue" "err := c.linkedlist.Append(t)" "ConcurrentLinkedBlockingQueue.linkedlist.*" KWrite (GLock "ConcurrentLinkedBlockingQueue.mutex" Excl);
  mkRow "ConcurrentLinkedBlockingQueue" "Enqueue" "c.notEmpty.broadcast()" "ConcurrentLinkedBlockingQueue.notEmpty" KRead GConst;
  mkRow "ConcurrentLinkedBlockingQueue" "Enqueue" "cond.broadcast: c.signal = signal" "cond.signal" KWrite (GLock "ConcurrentLinkedBlockingQueue.mutex" Excl);
  mkRow "ConcurrentLinkedBlockingQueue" "Enqueue" "cond.broadcast: close(old)" "cond.signal^" (KSync "close") GNone;
  mkRow "ConcurrentLinkedBlockingQueue" "Len" "c.mutex.RLock()" "ConcurrentLinkedBlockingQueue.mutex" KRead GConst;
  mkRow "ConcurrentLinkedBlockingQueue" "Len" "c.mutex.RLock()" "ConcurrentLinkedBlockingQueue.mutex" (KSync "rlock") GNone;
  mkRow "ConcurrentLinkedBlockingQueue" "Len" "return c.linkedlist.Len()" "ConcurrentLinkedBlockingQueue.linkedlist" KRead GConst;
  mkRow "ConcurrentLinkedBlockingQueue" "Len" "return c.linkedlist.Len()" "ConcurrentLinkedBlockingQueue.linkedlist.*" KRead (GLock "ConcurrentLinkedBlockingQueue.mutex" Shared);
  mkRow "ConcurrentLinkedBlockingQueue" "Len" "defer c.mutex.RUnlock()" "ConcurrentLinkedBlockingQueue.mutex" (KSync "runlock") GNone
].

Definition dq_table : table := [
  mkRow "DelayQueue" "Dequeue" "d.mutex.Lock()" "DelayQueue.mutex" KRead GConst;
  mkRow "DelayQueue" "Dequeue" "d.mutex.Lock()" "DelayQueue.mutex" (KSync "lock") GNone;
  mkRow "DelayQueue" "Dequeue" "val, err := d.q.Peek()" "DelayQueue.q.*" KRead (GLock "DelayQueue.mutex" Excl);
  mkRow "DelayQueue" "Dequeue" "val, err = d.q.Dequeue()" "DelayQueue.q.*" KWrite (GLock "DelayQueue.mutex" Excl);
  mkRow "DelayQueue" "Dequeue" "d.dequeueSignal.broadcast()" "DelayQueue.dequeueSignal" KRead GConst;
  mkRow "DelayQueue" "Dequeue" "cond.broadcast: old := c.signal" "cond.signal" KRead (GLock "DelayQueue.mutex" Excl);
  mkRow "DelayQueue" "Dequeue" "cond.broadcast: c.signal = signal" "cond.signal" KWrite (GLock "DelayQueue.mutex" Excl);
  mkRow "DelayQueue" "Dequeue" "cond.broadcast: c.l.Unlock()" "cond.l" KRead GConst;
  mkRow "DelayQueue" "Dequeue" "cond.broadcast: c.l.Unlock()" "DelayQueue.mutex" (KSync "unlock") GNone;
  mkRow "DelayQueue" "Dequeue" "cond.broadcast: close(old)" "cond.signal^" (KSync "close") GNone;
  mkRow "DelayQueue" "Dequeue" "signal := d.enqueueSignal.signalCh()" "DelayQueue.enqueueSignal" KRead GConst;
  mkRow "DelayQueue" "Dequeue" "<-signal" "cond.signal^" (KSync "recv") GNone;
  mkRow "DelayQueue" "Enqueue" "d.mutex.Lock()" "DelayQueue.mutex" KRead GConst;
  mkRow "DelayQueue" "Enqueue" "d.mutex.Lock()" "DelayQueue.mutex" (KSync "lock") GNone;
  mkRow "DelayQueue" "Enqueue" "err := d.q.Enqueue(t)" "DelayQueue.q.*" KWrite (GLock "DelayQueue.mutex" Excl);
  mkRow "DelayQueue" "Enqueue" "d.enqueueSignal.broadcast()" "DelayQueue.enqueueSignal" KRead GConst;
  mkRow "DelayQueue" "Enqueue" "cond.broadcast: old := c.signal" "cond.signal" KRead (GLock "DelayQueue.mutex" Excl);
  mkRow "DelayQueue" "Enqueue" "cond.broadcast: c.signal = signal" "cond.signal" KWrite (GLock "DelayQueue.mutex" Excl);
  mkRow "DelayQueue" "Enqueue" "cond.broadcast: c.l.Unlock()" "cond.l" KRead GConst;
  mkRow "DelayQueue" "Enqueue" "cond.broadcast: c.l.Unlock()" "DelayQueue.mutex" (KSync "unlock") GNone;
  mkRow "DelayQueue" "Enqueue" "cond.broadcast: close(old)" "cond.signal^" (KSync "close") GNone;
  mkRow "DelayQueue" "Enqueue" "signal := d.dequeueSignal.signalCh()" "DelayQueue.dequeueSignal" KRead GConst;
  mkRow "DelayQueue" "Enqueue" "<-signal" "cond.signal^" (KSync "recv") GNone
].

Definition cpq_table : table := [
  mkRow "ConcurrentPriorityQueue" "Cap" "c.m.RLock()" "ConcurrentPriorityQueue.m" (KSync "rlock") GNone;
  mkRow "ConcurrentPriorityQueue" "Cap" "return c.pq.Cap()" "ConcurrentPriorityQueue.pq.*" KRead (GLock "ConcurrentPriorityQueue.m" Shared);
  mkRow "ConcurrentPriorityQueue" "Cap" "defer c.m.RUnlock()" "ConcurrentPriorityQueue.m" (KSync "runlock") GNone;
  mkRow "ConcurrentPriorityQueue" "Dequeue" "c.m.Lock()" "ConcurrentPriorityQueue.m" (KSync "lock") GNone;
  mkRow "ConcurrentPriorityQueue" "Dequeue" "return c.pq.Dequeue()" "ConcurrentPriorityQueue.pq.*" KWrite (GLock "ConcurrentPriorityQueue.m" Excl);
  mkRow "ConcurrentPriorityQueue" "Dequeue" "defer c.m.Unlock()" "ConcurrentPriorityQueue.m" (KSync "unlock") GNone;
  mkRow "ConcurrentPriorityQueue" "Enqueue" "c.m.Lock()" "ConcurrentPriorityQueue.m" (KSync "lock") GNone;
  mkRow "ConcurrentPriorityQueue" "Enqueue" "return c.pq.Enqueue(t)" "ConcurrentPriorityQueue.pq.*" KWrite (GLock "ConcurrentPriorityQueue.m" Excl);
  mkRow "ConcurrentPriorityQueue" "Enqueue" "defer c.m.Unlock()" "ConcurrentPriorityQueue.m" (KSync "unlock") GNone;
  mkRow "ConcurrentPriorityQueue" "Len" "c.m.RLock()" "ConcurrentPriorityQueue.m" (KSync "rlock") GNone;
  mkRow "ConcurrentPriorityQueue" "Len" "return c.pq.Len()" "ConcurrentPriorityQueue.pq.*" KRead (GLock "ConcurrentPriorityQueue.m" Shared);
  mkRow "ConcurrentPriorityQueue" "Len" "defer c.m.RUnlock()" "ConcurrentPriorityQueue.m" (KSync "runlock") GNone;
  mkRow "ConcurrentPriorityQueue" "Peek" "c.m.RLock()" "ConcurrentPriorityQueue.m" (KSync "rlock") GNone;
  mkRow "ConcurrentPriorityQueue" "Peek" "return c.pq.Peek()" "ConcurrentPriorityQueue.pq.*" KRead (GLock "ConcurrentPriorityQueue.m" Shared);
  mkRow "ConcurrentPriorityQueue" "Peek" "defer c.m.RUnlock()" "ConcurrentPriorityQueue.m" (KSync "runlock") GNone
].

Definition cond_table : table := [
  mkRow "Cond" "Broadcast" "Cond.checkCopy: if atomic.LoadPointer(&c.checker) != unsafe.Pointer(c) && !atomic.CompareAndSwapPointer(&c.checker, nil, unsafe.Pointer(c)) && atomic.LoadPointer(&c.checker) != unsafe.Pointer(c)" "Cond.checker" KARead GNone;
  mkRow "Cond" "Broadcast" "Cond.checkCopy: if atomic.LoadPointer(&c.checker) != unsafe.Pointer(c) && !atomic.CompareAndSwapPointer(&c.checker, nil, unsafe.Pointer(c)) && atomic.LoadPointer(&c.checker) != unsafe.Pointer(c)" "Cond.checker" KARmw GNone;
  mkRow "Cond" "Broadcast" "Cond.checkFirstUse: if c.notifyList == nil" "Cond.notifyList" KRead (GPubBefore "Cond.once");
  mkRow "Cond" "Broadcast" "Cond.checkFirstUse>newNotifyList>newChanList: sentinel.prev = sentinel" "node.prev" KWrite (GPubBefore "Cond.once");
  mkRow "Cond" "Broadcast" "Cond.checkFirstUse>newNotifyList>newChanList: sentinel.next = sentinel" "node.next" KWrite (GPubBefore "Cond.once");
  mkRow "Cond" "Broadcast" "Cond.checkFirstUse>newNotifyList>newChanList: return &chanList{ sentinel: sentinel, size: 0, pool: &sync.Pool{ New: func() any { return &node{ Value: make(chan struct" "chanList.sentinel" KWrite (GPubBefore "Cond.once");
  mkRow "Cond" "Broadcast" "Cond.checkFirstUse>newNotifyList>newChanList: return &chanList{ sentinel: sentinel, size: 0, pool: &sync.Pool{ New: func() any { return &node{ Value: make(chan struct" "chanList.size" KWrite (GPubBefore "Cond.once");
  mkRow "Cond" "Broadcast" "Cond.checkFirstUse>newNotifyList>newChanList: return &node{ Value: make(chan struct{}, 1), }" "node.Value" KWrite (GPubBefore "notifyList.mu");
  mkRow "Cond" "Broadcast" "Cond.checkFirstUse>newNotifyList>newChanList: return &chanList{ sentinel: sentinel, size: 0, pool: &sync.Pool{ New: func() any { return &node{ Value: make(chan struct" "chanList.pool" KWrite (GPubBefore "Cond.once");
  mkRow "Cond" "Broadcast" "Cond.checkFirstUse>newNotifyList: return &notifyList{ mu: sync.Mutex{}, list: newChanList(), }" "notifyList.list" KWrite (GPubBefore "Cond.once");
  mkRow "Cond" "Broadcast" "Cond.checkFirstUse: c.notifyList = newNotifyList()" "Cond.notifyList" KWrite (GPubBefore "Cond.once");
  mkRow "Cond" "Broadcast" "Cond.checkFirstUse: c.once.Do(func() { if c.notifyList == nil { c.notifyList = newNotifyList() } })" "Cond.once" (KSync "once-done") GNone;
  mkRow "Cond" "Broadcast" "Cond.checkFirstUse: c.once.Do(func() { if c.notifyList == nil { c.notifyList = newNotifyList() } })" "Cond.once" (KSync "once") GNone;
  mkRow "Cond" "Broadcast" "c.notifyList.notifyAll()" "Cond.notifyList" KRead (GPubAfter "Cond.once");
  mkRow "Cond" "Broadcast" "notifyList.notifyAll: l.mu.Lock()" "notifyList.mu" (KSync "lock") GNone;
  mkRow "Cond" "Broadcast" "notifyList.notifyAll: for l.list.len() != 0" "notifyList.list" KRead (GPubAfter "Cond.once");
  mkRow "Cond" "Broadcast" "notifyList.notifyAll>chanList.len: return l.size" "chanList.size" KRead (GLock "notifyList.mu" Excl);
  mkRow "Cond" "Broadcast" "notifyList.notifyAll>notifyList.notifyNext>chanList.front: return l.sentinel.next" "chanList.sentinel" KRead (GPubAfter "Cond.once");
  mkRow "Cond" "Broadcast" "notifyList.notifyAll>notifyList.notifyNext>chanList.front: return l.sentinel.next" "node.next" KRead (GLock "notifyList.mu" Excl);
  mkRow "Cond" "Broadcast" "notifyList.notifyAll>notifyList.notifyNext: ch := front.Value" "node.Value" KRead (GPubAfter "notifyList.mu");
  mkRow "Cond" "Broadcast" "notifyList.notifyAll>notifyList.notifyNext>chanList.remove: elem.prev.next = elem.next" "node.prev" KRead (GLock "notifyList.mu" Excl);
  mkRow "Cond" "Broadcast" "notifyList.notifyAll>notifyList.notifyNext>chanList.remove: elem.prev.next = elem.next" "node.next" KWrite (GLock "notifyList.mu" Excl);
  mkRow "Cond" "Broadcast" "notifyList.notifyAll>notifyList.notifyNext>chanList.remove: elem.next.prev = elem.prev" "node.prev" KWrite (GLock "notifyList.mu" Excl);
  mkRow "Cond" "Broadcast" "notifyList.notifyAll>notifyList.notifyNext>chanList.remove: l.size--" "chanList.size" KWrite (GLock "notifyList.mu" Excl);
  mkRow "Cond" "Broadcast" "notifyList.notifyAll>notifyList.notifyNext: ch <- struct{}{}" "node.Value^" (KSync "send") GNone;
  mkRow "Cond" "Broadcast" "notifyList.notifyAll: defer l.mu.Unlock()" "notifyList.mu" (KSync "unlock") GNone;
  mkRow "Cond" "Signal" "Cond.checkCopy: if atomic.LoadPointer(&c.checker) != unsafe.Pointer(c) && !atomic.CompareAndSwapPointer(&c.checker, nil, unsafe.Pointer(c)) && atomic.LoadPointer(&c.checker) != unsafe.Pointer(c)" "Cond.checker" KARead GNone;
  mkRow "Cond" "Signal" "Cond.checkCopy: if atomic.LoadPointer(&c.checker) != unsafe.Pointer(c) && !atomic.CompareAndSwapPointer(&c.checker, nil, unsafe.Pointer(c)) && atomic.LoadPointer(&c.checker) != unsafe.Pointer(c)" "Cond.checker" KARmw GNone;
  mkRow "Cond" "Signal" "Cond.checkFirstUse: if c.notifyList == nil" "Cond.notifyList" KRead (GPubBefore "Cond.once");
  mkRow "Cond" "Signal" "Cond.checkFirstUse>newNotifyList>newChanList: sentinel.prev = sentinel" "node.prev" KWrite (GPubBefore "Cond.once");
  mkRow "Cond" "Signal" "Cond.checkFirstUse>newNotifyList>newChanList: sentinel.next = sentinel" "node.next" KWrite (GPubBefore "Cond.once");
  mkRow "Cond" "Signal" "Cond.checkFirstUse>newNotifyList>newChanList: return &chanList{ sentinel: sentinel, size: 0, pool: &sync.Pool{ New: func() any { return &node{ Value: make(chan struct" "chanList.sentinel" KWrite (GPubBefore "Cond.once");
  mkRow "Cond" "Signal" "Cond.checkFirstUse>newNotifyList>newChanList: return &chanList{ sentinel: sentinel, size: 0, pool: &sync.Pool{ New: func() any { return &node{ Value: make(chan struct" "chanList.size" KWrite (GPubBefore "Cond.once");
  mkRow "Cond" "Signal" "Cond.checkFirstUse>newNotifyList>newChanList: return &node{ Value: make(chan struct{}, 1), }" "node.Value" KWrite (GPubBefore "notifyList.mu");
  mkRow "Cond" "Signal" "Cond.checkFirstUse>newNotifyList>newChanList: return &chanList{ sentinel: sentinel, size: 0, pool: &sync.Pool{ New: func() any { return &node{ Value: make(chan struct" "chanList.pool" KWrite (GPubBefore "Cond.once");
  mkRow "Cond" "Signal" "Cond.checkFirstUse>newNotifyList: return &notifyList{ mu: sync.Mutex{}, list: newChanList(), }" "notifyList.list" KWrite (GPubBefore "Cond.once");
  mkRow "Cond" "Signal" "Cond.checkFirstUse: c.notifyList = newNotifyList()" "Cond.notifyList" KWrite (GPubBefore "Cond.once");
  mkRow "Cond" "Signal" "Cond.checkFirstUse: c.once.Do(func() { if c.notifyList == nil { c.notifyList = newNotifyList() } })" "Cond.once" (KSync "once-done") GNone;
  mkRow "Cond" "Signal" "Cond.checkFirstUse: c.once.Do(func() { if c.notifyList == nil { c.notifyList = newNotifyList() } })" "Cond.once" (KSync "once") GNone;
  mkRow "Cond" "Signal" "c.notifyList.notifyOne()" "Cond.notifyList" KRead (GPubAfter "Cond.once");
  mkRow "Cond" "Signal" "notifyList.notifyOne: l.mu.Lock()" "notifyList.mu" (KSync "lock") GNone;
  mkRow "Cond" "Signal" "notifyList.notifyOne: if l.list.len() == 0" "notifyList.list" KRead (GPubAfter "Cond.once");
  mkRow "Cond" "Signal" "notifyList.notifyOne>chanList.len: return l.size" "chanList.size" KRead (GLock "notifyList.mu" Excl);
  mkRow "Cond" "Signal" "notifyList.notifyOne: defer l.mu.Unlock()" "notifyList.mu" (KSync "unlock") GNone;
  mkRow "Cond" "Signal" "notifyList.notifyOne>notifyList.notifyNext>chanList.front: return l.sentinel.next" "chanList.sentinel" KRead (GPubAfter "Cond.once");
  mkRow "Cond" "Signal" "notifyList.notifyOne>notifyList.notifyNext>chanList.front: return l.sentinel.next" "node.next" KRead (GLock "notifyList.mu" Excl);
  mkRow "Cond" "Signal" "notifyList.notifyOne>notifyList.notifyNext: ch := front.Value" "node.Value" KRead (GPubAfter "notifyList.mu");
  mkRow "Cond" "Signal" "notifyList.notifyOne>notifyList.notifyNext>chanList.remove: elem.prev.next = elem.next" "node.prev" KRead (GLock "notifyList.mu" Excl);
  mkRow "Cond" "Signal" "notifyList.notifyOne>notifyList.notifyNext>chanList.remove: elem.prev.next = elem.next" "node.next" KWrite (GLock "notifyList.mu" Excl);
  mkRow "Cond" "Signal" "notifyList.notifyOne>notifyList.notifyNext>chanList.remove: elem.next.prev = elem.prev" "node.prev" KWrite (GLock "notifyList.mu" Excl);
  mkRow "Cond" "Signal" "notifyList.notifyOne>notifyList.notifyNext>chanList.remove: l.size--" "chanList.size" KWrite (GLock "notifyList.mu" Excl);
  mkRow "Cond" "Signal" "notifyList.notifyOne>notifyList.notifyNext: ch <- struct{}{}" "node.Value^" (KSync "send") GNone;
  mkRow "Cond" "Wait" "Cond.checkCopy: if atomic.LoadPointer(&c.checker) != unsafe.Pointer(c) && !atomic.CompareAndSwapPointer(&c.checker, nil, unsafe.Pointer(c)) && atomic.LoadPointer(&c.checker) != unsafe.Pointer(c)" "Cond.checker" KARead GNone;
  mkRow "Cond" "Wait" "Cond.checkCopy: if atomic.LoadPointer(&c.checker) != unsafe.Pointer(c) && !atomic.CompareAndSwapPointer(&c.checker, nil, unsafe.Pointer(c)) && atomic.LoadPointer(&c.checker) != unsafe.Pointer(c)" "Cond.checker" KARmw GNone;
  mkRow "Cond" "Wait" "Cond.checkFirstUse: if c.notifyList == nil" "Cond.notifyList" KRead (GPubBefore "Cond.once");
  mkRow "Cond" "Wait" "Cond.checkFirstUse>newNotifyList>newChanList: sentinel.prev = sentinel" "node.prev" KWrite (GPubBefore "Cond.once");
  mkRow "Cond" "Wait" "Cond.checkFirstUse>newNotifyList>newChanList: sentinel.next = sentinel" "node.next" KWrite (GPubBefore "Cond.once");
  mkRow "Cond" "Wait" "Cond.checkFirstUse>newNotifyList>newChanList: return &chanList{ sentinel: sentinel, size: 0, pool: &sync.Pool{ New: func() any { return &node{ Value: make(chan struct" "chanList.sentinel" KWrite (GPubBefore "Cond.once");
  mkRow "Cond" "Wait" "Cond.checkFirstUse>newNotifyList>newChanList: return &chanList{ sentinel: sentinel, size: 0, pool: &sync.Pool{ New: func() any { return &node{ Value: make(chan struct" "chanList.size" KWrite (GPubBefore "Cond.once");
  mkRow "Cond" "Wait" "Cond.checkFirstUse>newNotifyList>newChanList: return &node{ Value: make(chan struct{}, 1), }" "node.Value" KWrite (GPubBefore "notifyList.mu");
  mkRow "Cond" "Wait" "Cond.checkFirstUse>newNotifyList>newChanList: return &chanList{ sentinel: sentinel, size: 0, pool: &sync.Pool{ New: func() any { return &node{ Value: make(chan struct" "chanList.pool" KWrite (GPubBefore "Cond.once");
  mkRow "Cond" "Wait" "Cond.checkFirstUse>newNotifyList: return &notifyList{ mu: sync.Mutex{}, list: newChanList(), }" "notifyList.list" KWrite (GPubBefore "Cond.once");
  mkRow "Cond" "Wait" "Cond.checkFirstUse: c.notifyList = newNotifyList()" "Cond.notifyList" KWrite (GPubBefore "Cond.once");
  mkRow "Cond" "Wait" "Cond.checkFirstUse: c.once.Do(func() { if c.notifyList == nil { c.notifyList = newNotifyList() } })" "Cond.once" (KSync "once-done") GNone;
  mkRow "Cond" "Wait" "Cond.checkFirstUse: c.once.Do(func() { if c.notifyList == nil { c.notifyList = newNotifyList() } })" "Cond.once" (KSync "once") GNone;
  mkRow "Cond" "Wait" "t := c.notifyList.add()" "Cond.notifyList" KRead (GPubAfter "Cond.once");
  mkRow "Cond" "Wait" "notifyList.add: l.mu.Lock()" "notifyList.mu" (KSync "lock") GNone;
  mkRow "Cond" "Wait" "notifyList.add: el := l.list.alloc()" "notifyList.list" KRead (GPubAfter "Cond.once");
  mkRow "Cond" "Wait" "notifyList.add>chanList.alloc: elem := l.pool.Get().(*node)" "chanList.pool" KRead (GPubAfter "Cond.once");
  mkRow "Cond" "Wait" "notifyList.add>chanList.alloc: elem := l.pool.Get().(*node)" "chanList.pool^" (KDelegate "Get") GNone;
  mkRow "Cond" "Wait" "notifyList.add>chanList.alloc: elem := l.pool.Get().(*node)" "chanList.pool^" (KSync "pool-get") GNone;
  mkRow "Cond" "Wait" "notifyList.add>chanList.pushBack: elem.next = l.sentinel" "chanList.sentinel" KRead (GPubAfter "Cond.once");
  mkRow "Cond" "Wait" "notifyList.add>chanList.pushBack: elem.next = l.sentinel" "node.next" KWrite (GLock "notifyList.mu" Excl);
  mkRow "Cond" "Wait" "notifyList.add>chanList.pushBack: elem.prev = l.sentinel.prev" "node.prev" KRead (GLock "notifyList.mu" Excl);
  mkRow "Cond" "Wait" "notifyList.add>chanList.pushBack: elem.prev = l.sentinel.prev" "node.prev" KWrite (GLock "notifyList.mu" Excl);
  mkRow "Cond" "Wait" "notifyList.add>chanList.pushBack: l.size++" "chanList.size" KRead (GLock "notifyList.mu" Excl);
  mkRow "Cond" "Wait" "notifyList.add>chanList.pushBack: l.size++" "chanList.size" KWrite (GLock "notifyList.mu" Excl);
  mkRow "Cond" "Wait" "notifyList.add: defer l.mu.Unlock()" "notifyList.mu" (KSync "unlock") GNone;
  mkRow "Cond" "Wait" "c.L.Unlock()" "Cond.L" KRead GConst;
  mkRow "Cond" "Wait" "c.L.Unlock()" "Cond.L" (KSync "unlock") GNone;
  mkRow "Cond" "Wait" "notifyList.wait: ch := elem.Value" "node.Value" KRead (GPubAfter "notifyList.mu");
  mkRow "Cond" "Wait" "notifyList.wait: <-ch" "node.Value^" (KSync "recv") GNone;
  mkRow "Cond" "Wait" "notifyList.wait>notifyList.notifyNext>chanList.front: return l.sentinel.next" "node.next" KRead (GLock "notifyList.mu" Excl);
  mkRow "Cond" "Wait" "notifyList.wait>notifyList.notifyNext: ch <- struct{}{}" "node.Value^" (KSync "send") GNone;
  mkRow "Cond" "Wait" "notifyList.wait>chanList.free: l.pool.Put(elem)" "chanList.pool^" (KDelegate "Put") GNone;
  mkRow "Cond" "Wait" "notifyList.wait>chanList.free: l.pool.Put(elem)" "chanList.pool^" (KSync "pool-put") GNone;
  mkRow "Cond" "Wait" "defer c.L.Lock()" "Cond.L" (KSync "lock") GNone
].

Definition map_table : table := [
  mkRow "Map" "Delete" "m.m.Delete(key)" "Map.m" (KDelegate "Delete") GNone;
  mkRow "Map" "Delete" "m.m.Delete(key)" "Map.m" (KSync "map-store") GNone;
  mkRow "Map" "Load" "anyVal, ok = m.m.Load(key)" "Map.m" (KDelegate "Load") GNone;
  mkRow "Map" "Load" "anyVal, ok = m.m.Load(key)" "Map.m" (KSync "map-load") GNone;
  mkRow "Map" "LoadAndDelete" "anyVal, loaded = m.m.LoadAndDelete(key)" "Map.m" (KDelegate "LoadAndDelete") GNone;
  mkRow "Map" "LoadAndDelete" "anyVal, loaded = m.m.LoadAndDelete(key)" "Map.m" (KSync "map-store") GNone;
  mkRow "Map" "LoadAndDelete" "anyVal, loaded = m.m.LoadAndDelete(key)" "Map.m" (KSync "map-load") GNone;
  mkRow "Map" "LoadOrStore" "anyVal, loaded = m.m.LoadOrStore(key, value)" "Map.m" (KDelegate "LoadOrStore") GNone;
  mkRow "Map" "LoadOrStore" "anyVal, loaded = m.m.LoadOrStore(key, value)" "Map.m" (KSync "map-store") GNone;
  mkRow "Map" "LoadOrStore" "anyVal, loaded = m.m.LoadOrStore(key, value)" "Map.m" (KSync "map-load") GNone;
  mkRow "Map" "LoadOrStoreFunc" "Map.Load: anyVal, ok = m.m.Load(key)" "Map.m" (KDelegate "Load") GNone;
  mkRow "Map" "LoadOrStoreFunc" "Map.Load: anyVal, ok = m.m.Load(key)" "Map.m" (KSync "map-load") GNone;
  mkRow "Map" "LoadOrStoreFunc" "Map.LoadOrStore: anyVal, loaded = m.m.LoadOrStore(key, value)" "Map.m" (KDelegate "LoadOrStore") GNone;
  mkRow "Map" "LoadOrStoreFunc" "Map.LoadOrStore: anyVal, loaded = m.m.LoadOrStore(key, value)" "Map.m" (KSync "map-store") GNone;
  mkRow "Map" "Range" "m.m.Range(func(key, value any) bool { var ( k K v V ) if value != nil { v = value.(V) } if key != nil { k = key.(K) } re" "Map.m" (KDelegate "Range") GNone;
  mkRow "Map" "Range" "m.m.Range(func(key, value any) bool { var ( k K v V ) if value != nil { v = value.(V) } if key != nil { k = key.(K) } re" "Map.m" (KSync "map-load") GNone;
  mkRow "Map" "Store" "m.m.Store(key, value)" "Map.m" (KDelegate "Store") GNone;
  mkRow "Map" "Store" "m.m.Store(key, value)" "Map.m" (KSync "map-store") GNone
].

Definition pool_table : table := [
  mkRow "Pool" "Get" "return p.p.Get().(T)" "Pool.p" (KDelegate "Get") GNone;
  mkRow "Pool" "Get" "return p.p.Get().(T)" "Pool.p" (KSync "pool-get") GNone;
  mkRow "Pool" "Put" "p.p.Put(t)" "Pool.p" (KDelegate "Put") GNone;
  mkRow "Pool" "Put" "p.p.Put(t)" "Pool.p" (KSync "pool-put") GNone
].

Definition limitpool_table : table := [
  mkRow "LimitPool" "Get" "if l.tokens.Add(-1) < 0" "LimitPool.tokens" KRead GConst;
  mkRow "LimitPool" "Get" "if l.tokens.Add(-1) < 0" "LimitPool.tokens^" KARmw GNone;
  mkRow "LimitPool" "Get" "return l.pool.Get(), true" "LimitPool.pool" KRead GConst;
  mkRow "LimitPool" "Get" "Pool.Get: return p.p.Get().(T)" "Pool.p" (KDelegate "Get") GNone;
  mkRow "LimitPool" "Get" "Pool.Get: return p.p.Get().(T)" "Pool.p" (KSync "pool-get") GNone;
  mkRow "LimitPool" "Put" "l.pool.Put(t)" "LimitPool.pool" KRead GConst;
  mkRow "LimitPool" "Put" "Pool.Put: p.p.Put(t)" "Pool.p" (KDelegate "Put") GNone;
  mkRow "LimitPool" "Put" "Pool.Put: p.p.Put(t)" "Pool.p" (KSync "pool-put") GNone;
  mkRow "LimitPool" "Put" "l.tokens.Add(1)" "LimitPool.tokens" KRead GConst;
  mkRow "LimitPool" "Put" "l.tokens.Add(1)" "LimitPool.tokens^" KARmw GNone
].

Definition segkey_table : table := [
  mkRow "SegmentKeysLock" "Lock" "SegmentKeysLock.getLock: return s.locks[hash%s.size]" "SegmentKeysLock.locks" KRead GConst;
  mkRow "SegmentKeysLock" "Lock" "SegmentKeysLock.getLock: return s.locks[hash%s.size]" "SegmentKeysLock.size" KRead GConst;
  mkRow "SegmentKeysLock" "Lock" "SegmentKeysLock.getLock: return s.locks[hash%s.size]" "SegmentKeysLock.locks[]" KRead GConst;
  mkRow "SegmentKeysLock" "Lock" "s.getLock(key).Lock()" "SegmentKeysLock.locks[]" (KSync "lock") GNone;
  mkRow "SegmentKeysLock" "RLock" "SegmentKeysLock.getLock: return s.locks[hash%s.size]" "SegmentKeysLock.locks" KRead GConst;
  mkRow "SegmentKeysLock" "RLock" "SegmentKeysLock.getLock: return s.locks[hash%s.size]" "SegmentKeysLock.size" KRead GConst;
  mkRow "SegmentKeysLock" "RLock" "SegmentKeysLock.getLock: return s.locks[hash%s.size]" "SegmentKeysLock.locks[]" KRead GConst;
  mkRow "SegmentKeysLock" "RLock" "s.getLock(key).RLock()" "SegmentKeysLock.locks[]" (KSync "rlock") GNone;
  mkRow "SegmentKeysLock" "RUnlock" "SegmentKeysLock.getLock: return s.locks[hash%s.size]" "SegmentKeysLock.locks" KRead GConst;
  mkRow "SegmentKeysLock" "RUnlock" "SegmentKeysLock.getLock: return s.locks[hash%s.size]" "SegmentKeysLock.size" KRead GConst;
  mkRow "SegmentKeysLock" "RUnlock" "SegmentKeysLock.getLock: return s.locks[hash%s.size]" "SegmentKeysLock.locks[]" KRead GConst;
  mkRow "SegmentKeysLock" "RUnlock" "s.getLock(key).RUnlock()" "SegmentKeysLock.locks[]" (KSync "runlock") GNone;
  mkRow "SegmentKeysLock" "TryLock" "SegmentKeysLock.getLock: return s.locks[hash%s.size]" "SegmentKeysLock.locks" KRead GConst;
  mkRow "SegmentKeysLock" "TryLock" "SegmentKeysLock.getLock: return s.locks[hash%s.size]" "SegmentKeysLock.size" KRead GConst;
  mkRow "SegmentKeysLock" "TryLock" "SegmentKeysLock.getLock: return s.locks[hash%s.size]" "SegmentKeysLock.locks[]" KRead GConst;
  mkRow "SegmentKeysLock" "TryLock" "return s.getLock(key).TryLock()" "SegmentKeysLock.locks[]" (KSync "trylock") GNone;
  mkRow "SegmentKeysLock" "TryRLock" "SegmentKeysLock.getLock: return s.locks[hash%s.size]" "SegmentKeysLock.locks" KRead GConst;
  mkRow "SegmentKeysLock" "TryRLock" "SegmentKeysLock.getLock: return s.locks[hash%s.size]" "SegmentKeysLock.size" KRead GConst;
  mkRow "SegmentKeysLock" "TryRLock" "SegmentKeysLock.getLock: return s.locks[hash%s.size]" "SegmentKeysLock.locks[]" KRead GConst;
  mkRow "SegmentKeysLock" "TryRLock" "return s.getLock(key).TryRLock()" "SegmentKeysLock.locks[]" (KSync "tryrlock") GNone;
  mkRow "SegmentKeysLock" "Unlock" "SegmentKeysLock.getLock: return s.locks[hash%s.size]" "SegmentKeysLock.locks" KRead GConst;
  mkRow "SegmentKeysLock" "Unlock" "SegmentKeysLock.getLock: return s.locks[hash%s.size]" "SegmentKeysLock.size" KRead GConst;
  mkRow "SegmentKeysLock" "Unlock" "SegmentKeysLock.getLock: return s.locks[hash%s.size]" "SegmentKeysLock.locks[]" KRead GConst;
  mkRow "SegmentKeysLock" "Unlock" "s.getLock(key).Unlock()" "SegmentKeysLock.locks[]" (KSync "unlock") GNone
].

Definition value_table : table := [
  mkRow "Value" "CompareAndSwap" "return v.val.CompareAndSwap(old, new)" "Value.val" KARmw GNone;
  mkRow "Value" "Load" "data := v.val.Load()" "Value.val" KARead GNone;
  mkRow "Value" "Store" "v.val.Store(val)" "Value.val" KAWrite GNone;
  mkRow "Value" "Swap" "data := v.val.Swap(new)" "Value.val" KARmw GNone
].

Definition taskpool_table : table := [
  mkRow "OnDemandBlockTaskPool" "Shutdown" "if atomic.LoadInt32(&b.state) == stateCreated" "OnDemandBlockTaskPool.state" KARead GNone;
  mkRow "OnDemandBlockTaskPool" "Shutdown" "if atomic.CompareAndSwapInt32(&b.state, stateRunning, stateClosing)" "OnDemandBlockTaskPool.state" KARmw GNone;
  mkRow "OnDemandBlockTaskPool" "Shutdown" "close(b.queue)" "OnDemandBlockTaskPool.queue" KRead GConst;
  mkRow "OnDemandBlockTaskPool" "Shutdown" "close(b.queue)" "OnDemandBlockTaskPool.queue^" (KSync "close") GNone;
  mkRow "OnDemandBlockTaskPool" "Shutdown" "return b.interruptCtx.Done(), nil" "OnDemandBlockTaskPool.interruptCtx" KRead GConst;
  mkRow "OnDemandBlockTaskPool" "Shutdown" "return b.interruptCtx.Done(), nil" "OnDemandBlockTaskPool.interruptCtx" (KDelegate "Done") GNone;
  mkRow "OnDemandBlockTaskPool" "Shutdown" "return b.interruptCtx.Done(), nil" "OnDemandBlockTaskPool.interruptCtx" (KSync "ctx-observe") GNone;
  mkRow "OnDemandBlockTaskPool" "ShutdownNow" "if atomic.LoadInt32(&b.state) == stateCreated" "OnDemandBlockTaskPool.state" KARead GNone;
  mkRow "OnDemandBlockTaskPool" "ShutdownNow" "if atomic.CompareAndSwapInt32(&b.state, stateRunning, stateStopped)" "OnDemandBlockTaskPool.state" KARmw GNone;
  mkRow "OnDemandBlockTaskPool" "ShutdownNow" "close(b.queue)" "OnDemandBlockTaskPool.queue" KRead GConst;
  mkRow "OnDemandBlockTaskPool" "ShutdownNow" "close(b.queue)" "OnDemandBlockTaskPool.queue^" (KSync "close") GNone;
  mkRow "OnDemandBlockTaskPool" "ShutdownNow" "b.interruptCtxCancel()" "OnDemandBlockTaskPool.interruptCtxCancel" KRead GConst;
  mkRow "OnDemandBlockTaskPool" "ShutdownNow" "b.interruptCtxCancel()" "OnDemandBlockTaskPool.interruptCtxCancel" (KDelegate "call") GNone;
  mkRow "OnDemandBlockTaskPool" "ShutdownNow" "b.interruptCtxCancel()" "OnDemandBlockTaskPool.interruptCtxCancel" (KSync "ctx-cancel") GNone;
  mkRow "OnDemandBlockTaskPool" "ShutdownNow" "tasks := make([]Task, 0, len(b.queue))" "OnDemandBlockTaskPool.queue^" (KSync "chanlen") GNone;
  mkRow "OnDemandBlockTaskPool" "ShutdownNow" "for range b.queue" "OnDemandBlockTaskPool.queue^" (KSync "recv") GNone;
  mkRow "OnDemandBlockTaskPool" "Start" "if atomic.LoadInt32(&b.state) == stateClosing" "OnDemandBlockTaskPool.state" KARead GNone;
  mkRow "OnDemandBlockTaskPool" "Start" "if atomic.CompareAndSwapInt32(&b.state, stateCreated, stateLocked)" "OnDemandBlockTaskPool.state" KARmw GNone;
  mkRow "OnDemandBlockTaskPool" "Start" "OnDemandBlockTaskPool.numOfGoThatCanBeCreate: n := b.initGo" "OnDemandBlockTaskPool.initGo" KRead GConst;
  mkRow "OnDemandBlockTaskPool" "Start" "OnDemandBlockTaskPool.numOfGoThatCanBeCreate: allowGo := b.maxGo - b.initGo" "OnDemandBlockTaskPool.maxGo" KRead GConst;
  mkRow "OnDemandBlockTaskPool" "Start" "OnDemandBlockTaskPool.numOfGoThatCanBeCreate: needGo := int32(len(b.queue)) - b.initGo" "OnDemandBlockTaskPool.queue" KRead GConst;
  mkRow "OnDemandBlockTaskPool" "Start" "OnDemandBlockTaskPool.numOfGoThatCanBeCreate: needGo := int32(len(b.queue)) - b.initGo" "OnDemandBlockTaskPool.queue^" (KSync "chanlen") GNone;
  mkRow "OnDemandBlockTaskPool" "Start" "OnDemandBlockTaskPool.increaseTotalGo: b.mutex.Lock()" "OnDemandBlockTaskPool.mutex" (KSync "lock") GNone;
  mkRow "OnDemandBlockTaskPool" "Start" "OnDemandBlockTaskPool.increaseTotalGo: b.totalGo += n" "OnDemandBlockTaskPool.totalGo" KRead (GLock "OnDemandBlockTaskPool.mutex" Excl);
  mkRow "OnDemandBlockTaskPool" "Start" "OnDemandBlockTaskPool.increaseTotalGo: b.totalGo += n" "OnDemandBlockTaskPool.totalGo" KWrite (GLock "OnDemandBlockTaskPool.mutex" Excl);
  mkRow "OnDemandBlockTaskPool" "Start" "OnDemandBlockTaskPool.increaseTotalGo: b.mutex.Unlock()" "OnDemandBlockTaskPool.mutex" (KSync "unlock") GNone;
  mkRow "OnDemandBlockTaskPool" "Start" "go b.goroutine(int(atomic.AddInt32(&b.id, 1)))" "OnDemandBlockTaskPool.id" KARmw GNone;
  mkRow "OnDemandBlockTaskPool" "Start" "go b.goroutine(int(atomic.AddInt32(&b.id, 1)))" "goroutine:goroutine" (KSync "fork") GNone;
  mkRow "OnDemandBlockTaskPool" "States" "if b.interruptCtx.Err() != nil" "OnDemandBlockTaskPool.interruptCtx" KRead GConst;
  mkRow "OnDemandBlockTaskPool" "States" "if b.interruptCtx.Err() != nil" "OnDemandBlockTaskPool.interruptCtx" (KDelegate "Err") GNone;
  mkRow "OnDemandBlockTaskPool" "States" "if b.interruptCtx.Err() != nil" "OnDemandBlockTaskPool.interruptCtx" (KSync "ctx-observe") GNone;
  mkRow "OnDemandBlockTaskPool" "States" "go func() { ticker := time.NewTicker(interval) defer ticker.Stop() for { select { case timeStamp := <-ticker.C: b.sendSt" "goroutine:States$go1" (KSync "fork") GNone;
  mkRow "OnDemandBlockTaskPool" "Submit" "if atomic.LoadInt32(&b.state) == stateClosing" "OnDemandBlockTaskPool.state" KARead GNone;
  mkRow "OnDemandBlockTaskPool" "Submit" "task = &taskWrapper{t: task}" "taskWrapper.t" KWrite (GPubBefore "OnDemandBlockTaskPool.queue^");
  mkRow "OnDemandBlockTaskPool" "Submit" "OnDemandBlockTaskPool.trySubmit: if atomic.CompareAndSwapInt32(&b.state, state, stateLocked)" "OnDemandBlockTaskPool.state" KARmw GNone;
  mkRow "OnDemandBlockTaskPool" "Submit" "OnDemandBlockTaskPool.trySubmit: b.queue <- task" "OnDemandBlockTaskPool.queue" KRead GConst;
  mkRow "OnDemandBlockTaskPool" "Submit" "OnDemandBlockTaskPool.trySubmit: b.queue <- task" "OnDemandBlockTaskPool.queue^" (KSync "send") GNone;
  mkRow "OnDemandBlockTaskPool" "Submit" "OnDemandBlockTaskPool.trySubmit>OnDemandBlockTaskPool.allowToCreateGoroutine: b.mutex.RLock()" "OnDemandBlockTaskPool.mutex" (KSync "rlock") GNone;
  mkRow "OnDemandBlockTaskPool" "Submit" "OnDemandBlockTaskPool.trySubmit>OnDemandBlockTaskPool.allowToCreateGoroutine: rate := float64(len(b.queue)) / float64(cap(b.queue))" "OnDemandBlockTaskPool.queue^" (KSync "chanlen") GNone;
  mkRow "OnDemandBlockTaskPool" "Submit" "OnDemandBlockTaskPool.trySubmit>OnDemandBlockTaskPool.allowToCreateGoroutine: return (b.totalGo < b.maxGo) && (rate != 0 && rate >= b.queueBacklogRate)" "OnDemandBlockTaskPool.totalGo" KRead (GLock "OnDemandBlockTaskPool.mutex" Shared);
  mkRow "OnDemandBlockTaskPool" "Submit" "OnDemandBlockTaskPool.trySubmit>OnDemandBlockTaskPool.allowToCreateGoroutine: return (b.totalGo < b.maxGo) && (rate != 0 && rate >= b.queueBacklogRate)" "OnDemandBlockTaskPool.maxGo" KRead GConst;
  mkRow "OnDemandBlockTaskPool" "Submit" "OnDemandBlockTaskPool.trySubmit>OnDemandBlockTaskPool.allowToCreateGoroutine: return (b.totalGo < b.maxGo) && (rate != 0 && rate >= b.queueBacklogRate)" "OnDemandBlockTaskPool.queueBacklogRate" KRead GConst;
  mkRow "OnDemandBlockTaskPool" "Submit" "OnDemandBlockTaskPool.trySubmit>OnDemandBlockTaskPool.allowToCreateGoroutine: defer b.mutex.RUnlock()" "OnDemandBlockTaskPool.mutex" (KSync "runlock") GNone;
  mkRow "OnDemandBlockTaskPool" "Submit" "OnDemandBlockTaskPool.trySubmit>OnDemandBlockTaskPool.increaseTotalGo: b.mutex.Lock()" "OnDemandBlockTaskPool.mutex" (KSync "lock") GNone;
  mkRow "OnDemandBlockTaskPool" "Submit" "OnDemandBlockTaskPool.trySubmit>OnDemandBlockTaskPool.increaseTotalGo: b.totalGo += n" "OnDemandBlockTaskPool.totalGo" KRead (GLock "OnDemandBlockTaskPool.mutex" Excl);
  mkRow "OnDemandBlockTaskPool" "Submit" "OnDemandBlockTaskPool.trySubmit>OnDemandBlockTaskPool.increaseTotalGo: b.totalGo += n" "OnDemandBlockTaskPool.totalGo" KWrite (GLock "OnDemandBlockTaskPool.mutex" Excl);
  mkRow "OnDemandBlockTaskPool" "Submit" "OnDemandBlockTaskPool.trySubmit>OnDemandBlockTaskPool.increaseTotalGo: b.mutex.Unlock()" "OnDemandBlockTaskPool.mutex" (KSync "unlock") GNone;
  mkRow "OnDemandBlockTaskPool" "Submit" "OnDemandBlockTaskPool.trySubmit: id := int(atomic.AddInt32(&b.id, 1))" "OnDemandBlockTaskPool.id" KARmw GNone;
  mkRow "OnDemandBlockTaskPool" "Submit" "OnDemandBlockTaskPool.trySubmit: go b.goroutine(id)" "goroutine:goroutine" (KSync "fork") GNone;
  mkRow "OnDemandBlockTaskPool" "internalState" "state := atomic.LoadInt32(&b.state)" "OnDemandBlockTaskPool.state" KARead GNone;
  mkRow "OnDemandBlockTaskPool" "goroutine" "<-b.interruptCtx.Done()" "OnDemandBlockTaskPool.interruptCtx" KRead GConst;
  mkRow "OnDemandBlockTaskPool" "goroutine" "<-b.interruptCtx.Done()" "OnDemandBlockTaskPool.interruptCtx" (KDelegate "Done") GNone;
  mkRow "OnDemandBlockTaskPool" "goroutine" "<-b.interruptCtx.Done()" "OnDemandBlockTaskPool.interruptCtx" (KSync "ctx-observe") GNone;
  mkRow "OnDemandBlockTaskPool" "goroutine" "OnDemandBlockTaskPool.decreaseTotalGo: b.mutex.Lock()" "OnDemandBlockTaskPool.mutex" (KSync "lock") GNone;
  mkRow "OnDemandBlockTaskPool" "goroutine" "OnDemandBlockTaskPool.decreaseTotalGo: b.totalGo -= n" "OnDemandBlockTaskPool.totalGo" KRead (GLock "OnDemandBlockTaskPool.mutex" Excl);
  mkRow "OnDemandBlockTaskPool" "goroutine" "OnDemandBlockTaskPool.decreaseTotalGo: b.totalGo -= n" "OnDemandBlockTaskPool.totalGo" KWrite (GLock "OnDemandBlockTaskPool.mutex" Excl);
  mkRow "OnDemandBlockTaskPool" "goroutine" "OnDemandBlockTaskPool.decreaseTotalGo: b.mutex.Unlock()" "OnDemandBlockTaskPool.mutex" (KSync "unlock") GNone;
  mkRow "OnDemandBlockTaskPool" "goroutine" "b.timeoutGroup.delete(id)" "OnDemandBlockTaskPool.timeoutGroup" KRead GConst;
  mkRow "OnDemandBlockTaskPool" "goroutine" "group.delete: g.mu.Lock()" "group.mu" (KSync "lock") GNone;
  mkRow "OnDemandBlockTaskPool" "goroutine" "group.delete: _, ok := g.mp[id]" "group.mp" KRead GConst;
  mkRow "OnDemandBlockTaskPool" "goroutine" "group.delete: _, ok := g.mp[id]" "group.mp[]" KRead (GLock "group.mu" Excl);
  mkRow "OnDemandBlockTaskPool" "goroutine" "group.delete: g.n--" "group.n" KRead (GLock "group.mu" Excl);
  mkRow "OnDemandBlockTaskPool" "goroutine" "group.delete: g.n--" "group.n" KWrite (GLock "group.mu" Excl);
  mkRow "OnDemandBlockTaskPool" "goroutine" "group.delete: delete(g.mp, id)" "group.mp[]" KWrite (GLock "group.mu" Excl);
  mkRow "OnDemandBlockTaskPool" "goroutine" "group.delete: defer g.mu.Unlock()" "group.mu" (KSync "unlock") GNone;
  mkRow "OnDemandBlockTaskPool" "goroutine" "if atomic.CompareAndSwapInt32(&b.state, stateClosing, stateStopped)" "OnDemandBlockTaskPool.state" KARmw GNone;
  mkRow "OnDemandBlockTaskPool" "goroutine" "b.interruptCtxCancel()" "OnDemandBlockTaskPool.interruptCtxCancel" KRead GConst;
  mkRow "OnDemandBlockTaskPool" "goroutine" "b.interruptCtxCancel()" "OnDemandBlockTaskPool.interruptCtxCancel" (KDelegate "call") GNone;
  mkRow "OnDemandBlockTaskPool" "goroutine" "b.interruptCtxCancel()" "OnDemandBlockTaskPool.interruptCtxCancel" (KSync "ctx-cancel") GNone;
  mkRow "OnDemandBlockTaskPool" "goroutine" "task, ok := <-b.queue" "OnDemandBlockTaskPool.queue" KRead GConst;
  mkRow "OnDemandBlockTaskPool" "goroutine" "task, ok := <-b.queue" "OnDemandBlockTaskPool.queue^" (KSync "recv") GNone;
  mkRow "OnDemandBlockTaskPool" "goroutine" "group.isIn: g.mu.RLock()" "group.mu" (KSync "rlock") GNone;
  mkRow "OnDemandBlockTaskPool" "goroutine" "group.isIn: _, ok := g.mp[id]" "group.mp[]" KRead (GLock "group.mu" Shared);
  mkRow "OnDemandBlockTaskPool" "goroutine" "group.isIn: defer g.mu.RUnlock()" "group.mu" (KSync "runlock") GNone;
  mkRow "OnDemandBlockTaskPool" "goroutine" "OnDemandBlockTaskPool.numOfGo: b.mutex.RLock()" "OnDemandBlockTaskPool.mutex" (KSync "rlock") GNone;
  mkRow "OnDemandBlockTaskPool" "goroutine" "OnDemandBlockTaskPool.numOfGo: n = b.totalGo" "OnDemandBlockTaskPool.totalGo" KRead (GLock "OnDemandBlockTaskPool.mutex" Shared);
  mkRow "OnDemandBlockTaskPool" "goroutine" "OnDemandBlockTaskPool.numOfGo: b.mutex.RUnlock()" "OnDemandBlockTaskPool.mutex" (KSync "runlock") GNone;
  mkRow "OnDemandBlockTaskPool" "goroutine" "atomic.AddInt32(&b.numGoRunningTasks, 1)" "OnDemandBlockTaskPool.numGoRunningTasks" KARmw GNone;
  mkRow "OnDemandBlockTaskPool" "goroutine" "taskWrapper.Run: return tw.t.Run(ctx)" "taskWrapper.t" KRead (GPubAfter "OnDemandBlockTaskPool.queue^");
  mkRow "OnDemandBlockTaskPool" "goroutine" "noTasksToExecute := len(b.queue) == 0 || int32(len(b.queue)) < b.totalGo" "OnDemandBlockTaskPool.queue^" (KSync "chanlen") GNone;
  mkRow "OnDemandBlockTaskPool" "goroutine" "if b.coreGo < b.totalGo && b.totalGo <= b.maxGo && noTasksToExecute && b.initGo < b.totalGo-b.timeoutGroup.size()" "OnDemandBlockTaskPool.coreGo" KRead GConst;
  mkRow "OnDemandBlockTaskPool" "goroutine" "if b.coreGo < b.totalGo && b.totalGo <= b.maxGo && noTasksToExecute && b.initGo < b.totalGo-b.timeoutGroup.size()" "OnDemandBlockTaskPool.maxGo" KRead GConst;
  mkRow "OnDemandBlockTaskPool" "goroutine" "if b.coreGo < b.totalGo && b.totalGo <= b.maxGo && noTasksToExecute && b.initGo < b.totalGo-b.timeoutGroup.size()" "OnDemandBlockTaskPool.initGo" KRead GConst;
  mkRow "OnDemandBlockTaskPool" "goroutine" "group.size: return g.n" "group.n" KRead (GLock "group.mu" Shared);
  mkRow "OnDemandBlockTaskPool" "goroutine" "idleTimer = time.NewTimer(b.maxIdleTime)" "OnDemandBlockTaskPool.maxIdleTime" KRead GConst;
  mkRow "OnDemandBlockTaskPool" "States$go1" "OnDemandBlockTaskPool.sendState>OnDemandBlockTaskPool.getState: s := State{ PoolState: atomic.LoadInt32(&b.state), GoCnt: b.numOfGo(), QueueSize: cap(b.queue), WaitingTasksCnt: len(b.q" "OnDemandBlockTaskPool.state" KARead GNone;
  mkRow "OnDemandBlockTaskPool" "States$go1" "OnDemandBlockTaskPool.sendState>OnDemandBlockTaskPool.getState>OnDemandBlockTaskPool.numOfGo: b.mutex.RLock()" "OnDemandBlockTaskPool.mutex" (KSync "rlock") GNone;
  mkRow "OnDemandBlockTaskPool" "States$go1" "OnDemandBlockTaskPool.sendState>OnDemandBlockTaskPool.getState>OnDemandBlockTaskPool.numOfGo: n = b.totalGo" "OnDemandBlockTaskPool.totalGo" KRead (GLock "OnDemandBlockTaskPool.mutex" Shared);
  mkRow "OnDemandBlockTaskPool" "States$go1" "OnDemandBlockTaskPool.sendState>OnDemandBlockTaskPool.getState>OnDemandBlockTaskPool.numOfGo: b.mutex.RUnlock()" "OnDemandBlockTaskPool.mutex" (KSync "runlock") GNone;
  mkRow "OnDemandBlockTaskPool" "States$go1" "OnDemandBlockTaskPool.sendState>OnDemandBlockTaskPool.getState: s := State{ PoolState: atomic.LoadInt32(&b.state), GoCnt: b.numOfGo(), QueueSize: cap(b.queue), WaitingTasksCnt: len(b.q" "OnDemandBlockTaskPool.queue" KRead GConst;
  mkRow "OnDemandBlockTaskPool" "States$go1" "OnDemandBlockTaskPool.sendState>OnDemandBlockTaskPool.getState: s := State{ PoolState: atomic.LoadInt32(&b.state), GoCnt: b.numOfGo(), QueueSize: cap(b.queue), WaitingTasksCnt: len(b.q" "OnDemandBlockTaskPool.queue^" (KSync "chanlen") GNone;
  mkRow "OnDemandBlockTaskPool" "States$go1" "OnDemandBlockTaskPool.sendState>OnDemandBlockTaskPool.getState: s := State{ PoolState: atomic.LoadInt32(&b.state), GoCnt: b.numOfGo(), QueueSize: cap(b.queue), WaitingTasksCnt: len(b.q" "OnDemandBlockTaskPool.numGoRunningTasks" KARead GNone;
  mkRow "OnDemandBlockTaskPool" "States$go1" "<-b.interruptCtx.Done()" "OnDemandBlockTaskPool.interruptCtx" KRead GConst;
  mkRow "OnDemandBlockTaskPool" "States$go1" "<-b.interruptCtx.Done()" "OnDemandBlockTaskPool.interruptCtx" (KDelegate "Done") GNone;
  mkRow "OnDemandBlockTaskPool" "States$go1" "<-b.interruptCtx.Done()" "OnDemandBlockTaskPool.interruptCtx" (KSync "ctx-observe") GNone
].

Definition expo_table : table := [
  mkRow "ExponentialBackoffRetryStrategy" "Next" "retries := atomic.AddInt32(&s.retries, 1)" "ExponentialBackoffRetryStrategy.retries" KARmw GNone;
  mkRow "ExponentialBackoffRetryStrategy" "Next" "if s.maxRetries <= 0 || retries <= s.maxRetries" "ExponentialBackoffRetryStrategy.maxRetries" KRead GConst;
  mkRow "ExponentialBackoffRetryStrategy" "Next" "reached, ok := s.maxIntervalReached.Load().(bool)" "ExponentialBackoffRetryStrategy.maxIntervalReached" KARead GNone;
  mkRow "ExponentialBackoffRetryStrategy" "Next" "return s.maxInterval, true" "ExponentialBackoffRetryStrategy.maxInterval" KRead GConst;
  mkRow "ExponentialBackoffRetryStrategy" "Next" "interval := s.initialInterval * factor" "ExponentialBackoffRetryStrategy.initialInterval" KRead GConst;
  mkRow "ExponentialBackoffRetryStrategy" "Next" "s.maxIntervalReached.Store(true)" "ExponentialBackoffRetryStrategy.maxIntervalReached" KAWrite GNone
].

Definition fixed_table : table := [
  mkRow "FixedIntervalRetryStrategy" "Next" "retries := atomic.AddInt32(&s.retries, 1)" "FixedIntervalRetryStrategy.retries" KARmw GNone;
  mkRow "FixedIntervalRetryStrategy" "Next" "if s.maxRetries <= 0 || retries <= s.maxRetries" "FixedIntervalRetryStrategy.maxRetries" KRead GConst;
  mkRow "FixedIntervalRetryStrategy" "Next" "return s.interval, true" "FixedIntervalRetryStrategy.interval" KRead GConst
].

Definition copier_table : table := [
  mkRow "ReflectCopier" "Copy" "ReflectCopier.CopyTo>ReflectCopier.copyDefaultOptions: if r.defaultOptions.ignoreFields != nil" "ReflectCopier.defaultOptions" KRead GConst;
  mkRow "ReflectCopier" "Copy" "ReflectCopier.CopyTo>ReflectCopier.copyDefaultOptions: if r.defaultOptions.ignoreFields != nil" "options.ignoreFields" KRead GConst;
  mkRow "ReflectCopier" "Copy" "ReflectCopier.CopyTo>ReflectCopier.copyDefaultOptions: for range r.defaultOptions.ignoreFields.Keys()" "options.ignoreFields.*" KRead GConst;
  mkRow "ReflectCopier" "Copy" "ReflectCopier.CopyTo>ReflectCopier.copyDefaultOptions: for range r.defaultOptions.convertFields" "options.convertFields" KRead GConst;
  mkRow "ReflectCopier" "Copy" "ReflectCopier.CopyTo>ReflectCopier.copyDefaultOptions: for range r.defaultOptions.convertFields" "options.convertFields[]" KRead GConst;
  mkRow "ReflectCopier" "Copy" "ReflectCopier.CopyTo>ReflectCopier.copyToWithTree>ReflectCopier.copyTreeNode: if root.isLeaf" "fieldNode.isLeaf" KRead GConst;
  mkRow "ReflectCopier" "Copy" "ReflectCopier.CopyTo>ReflectCopier.copyToWithTree>ReflectCopier.copyTreeNode: convert, ok := opts.convertFields[root.name]" "fieldNode.name" KRead GConst;
  mkRow "ReflectCopier" "Copy" "ReflectCopier.CopyTo>ReflectCopier.copyToWithTree>ReflectCopier.copyTreeNode: for range root.fields" "fieldNode.fields" KRead GConst;
  mkRow "ReflectCopier" "Copy" "ReflectCopier.CopyTo>ReflectCopier.copyToWithTree>ReflectCopier.copyTreeNode: childSrcTyp := srcTyp.Field(child.srcIndex)" "fieldNode.srcIndex" KRead GConst;
  mkRow "ReflectCopier" "Copy" "ReflectCopier.CopyTo>ReflectCopier.copyToWithTree>ReflectCopier.copyTreeNode: childDstTyp := dstType.Field(child.dstIndex)" "fieldNode.dstIndex" KRead GConst;
  mkRow "ReflectCopier" "CopyTo" "ReflectCopier.copyDefaultOptions: if r.defaultOptions.ignoreFields != nil" "ReflectCopier.defaultOptions" KRead GConst;
  mkRow "ReflectCopier" "CopyTo" "ReflectCopier.copyDefaultOptions: if r.defaultOptions.ignoreFields != nil" "options.ignoreFields" KRead GConst;
  mkRow "ReflectCopier" "CopyTo" "ReflectCopier.copyDefaultOptions: for range r.defaultOptions.ignoreFields.Keys()" "options.ignoreFields.*" KRead GConst;
  mkRow "ReflectCopier" "CopyTo" "ReflectCopier.copyDefaultOptions: for range r.defaultOptions.convertFields" "options.convertFields" KRead GConst;
  mkRow "ReflectCopier" "CopyTo" "ReflectCopier.copyDefaultOptions: for range r.defaultOptions.convertFields" "options.convertFields[]" KRead GConst;
  mkRow "ReflectCopier" "CopyTo" "ReflectCopier.copyToWithTree>ReflectCopier.copyTreeNode: if root.isLeaf" "fieldNode.isLeaf" KRead GConst;
  mkRow "ReflectCopier" "CopyTo" "ReflectCopier.copyToWithTree>ReflectCopier.copyTreeNode: convert, ok := opts.convertFields[root.name]" "fieldNode.name" KRead GConst;
  mkRow "ReflectCopier" "CopyTo" "ReflectCopier.copyToWithTree>ReflectCopier.copyTreeNode: for range root.fields" "fieldNode.fields" KRead GConst;
  mkRow "ReflectCopier" "CopyTo" "ReflectCopier.copyToWithTree>ReflectCopier.copyTreeNode: childSrcTyp := srcTyp.Field(child.srcIndex)" "fieldNode.srcIndex" KRead GConst;
  mkRow "ReflectCopier" "CopyTo" "ReflectCopier.copyToWithTree>ReflectCopier.copyTreeNode: childDstTyp := dstType.Field(child.dstIndex)" "fieldNode.dstIndex" KRead GConst
].

(* CopyOnWriteArrayList as PINNED (before fix: 60536f5): Get / Len / Cap / Range read the field
   `vals` without taking the mutex the writers hold (list/copy_on_write_array_list.go:53-60,
   124-140 of the pinned tree).  Only the rows that differ from [cow_table] matter for the
   refutation; the writers' rows are the same. *)
Definition cow_pinned_table : table := [
  mkRow "CopyOnWriteArrayList" "Get" "return a.vals[index], e" "CopyOnWriteArrayList.vals" KRead GNone;
  mkRow "CopyOnWriteArrayList" "Get" "return a.vals[index], e" "CopyOnWriteArrayList.vals[]" KRead GNone;
  mkRow "CopyOnWriteArrayList" "Len" "return len(a.vals)" "CopyOnWriteArrayList.vals" KRead GNone;
  mkRow "CopyOnWriteArrayList" "Cap" "return cap(a.vals)" "CopyOnWriteArrayList.vals" KRead GNone;
  mkRow "CopyOnWriteArrayList" "Range" "for range a.vals" "CopyOnWriteArrayList.vals" KRead GNone;
  mkRow "CopyOnWriteArrayList" "Range" "for range a.vals" "CopyOnWriteArrayList.vals[]" KRead GNone;
  mkRow "CopyOnWriteArrayList" "Append" "a.mutex.Lock()" "CopyOnWriteArrayList.mutex" (KSync "lock") GNone;
  mkRow "CopyOnWriteArrayList" "Append" "n := len(a.vals)" "CopyOnWriteArrayList.vals" KRead (GLock "CopyOnWriteArrayList.mutex" Excl);
  mkRow "CopyOnWriteArrayList" "Append" "a.vals = newItems" "CopyOnWriteArrayList.vals" KWrite (GLock "CopyOnWriteArrayList.mutex" Excl);
  mkRow "CopyOnWriteArrayList" "Append" "defer a.mutex.Unlock()" "CopyOnWriteArrayList.mutex" (KSync "unlock") GNone
].

(* syncx.Cond as PINNED (before fix: 989ed9d): checkCopy evaluated
     c.checker != unsafe.Pointer(c) && !atomic.CompareAndSwapPointer(&c.checker, nil, unsafe.Pointer(c)) && c.checker != unsafe.Pointer(c)
   i.e. two plain reads of the field the CAS writes; first use by two goroutines at once races
   (confirmed by the race detector on the pinned tree).  Only the checker rows differ. *)
Definition cond_pinned_table : table := [
  mkRow "Cond" "Signal" "Cond.checkCopy: if c.checker != unsafe.Pointer(c) && ..." "Cond.checker" KRead GNone;
  mkRow "Cond" "Signal" "Cond.checkCopy: ... !atomic.CompareAndSwapPointer(&c.checker, nil, unsafe.Pointer(c)) ..." "Cond.checker" KARmw GNone;
  mkRow "Cond" "Broadcast" "Cond.checkCopy: if c.checker != unsafe.Pointer(c) && ..." "Cond.checker" KRead GNone;
  mkRow "Cond" "Broadcast" "Cond.checkCopy: ... !atomic.CompareAndSwapPointer(&c.checker, nil, unsafe.Pointer(c)) ..." "Cond.checker" KARmw GNone;
  mkRow "Cond" "Wait" "Cond.checkCopy: if c.checker != unsafe.Pointer(c) && ..." "Cond.checker" KRead GNone;
  mkRow "Cond" "Wait" "Cond.checkCopy: ... !atomic.CompareAndSwapPointer(&c.checker, nil, unsafe.Pointer(c)) ..." "Cond.checker" KARmw GNone
].

(* helper methods that only constructors call (they touch fields before the object is shared) *)
Definition ctor_only : list string := ["ReflectCopier.isAtomicType"].

Definition all_tables : list (string * table) := [
  ("CopyOnWriteArrayList", cow_table); ("ConcurrentList", clist_table);
  ("ConcurrentLinkedQueue", clq_table); ("ConcurrentArrayBlockingQueue", abq_table);
  ("ConcurrentLinkedBlockingQueue", lbq_table); ("DelayQueue", dq_table);
  ("ConcurrentPriorityQueue", cpq_table); ("Cond", cond_table); ("Map", map_table);
  ("Pool", pool_table); ("LimitPool", limitpool_table); ("SegmentKeysLock", segkey_table);
  ("Value", value_table); ("OnDemandBlockTaskPool", taskpool_table);
  ("ExponentialBackoffRetryStrategy", expo_table); ("FixedIntervalRetryStrategy", fixed_table);
  ("ReflectCopier", copier_table)
].

Definition all_rows : list row := List.concat (map snd all_tables).
