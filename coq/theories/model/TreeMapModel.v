(* Executable models of the thin wrappers around internal/tree.RBTree (C01, C02):
     /repo/tree/red_black_tree.go   tree.RBTree   = the internal tree, call for call (rb_step of RBModel)
     /repo/mapx/treemap.go          mapx.TreeMap  : Put = Add, falling back to Set on ErrRBTreeSameRBNode;
                                                    Get = Find; Delete; Keys/Values = KeyValues; Len = Size
     /repo/set/treeset.go           set.TreeSet   : TreeMap[T, any] with value nil (modelled as 0)
   plus the number of comparator invocations each public call makes (C02's black-box observable).
   Definitions only; proofs are in proof/RBRefine*.v (C01) and proof/RBBalance*.v (C02). *)
From Ekit Require Import Common RBModel.

(* ---- comparator calls of one RBTree call: addNode's descent / findNode ---- *)
Definition rb_op_calls (cmp : Z -> Z -> Z) (s : rbtree) (o : rb_op) : nat :=
  match o with
  | OAdd k _ | ODelete k | OFind k | OSet k _ => cmp_calls cmp k (root s)
  | OKeyValues | OSize => O
  end.

(* ---- mapx.TreeMap ---- *)
Inductive tm_op :=
| TPut (k v : Z) | TGet (k : Z) | TDelete (k : Z) | TKeys | TValues | TLen.
Inductive tm_out :=
| TUnit                      (* Put returned nil *)
| TErr (e : eclass)          (* Put returned an error (only via Set; unreachable for lawful comparators) *)
| TVal (v : Z)               (* Get / Delete: (v, true) *)
| TAbsent                    (* Get / Delete: (zero, false) *)
| TKeysOut (ks : list Z) | TValsOut (vs : list Z) | TLenOut (n : Z).

Definition tm_step (cmp : Z -> Z -> Z) (s : rbtree) (o : tm_op) : rbtree * tm_out :=
  match o with
  | TPut k v =>
      (* err := tree.Add(key, value); if err == ErrRBTreeSameRBNode { return tree.Set(key, value) }; return nil *)
      let '(s1, o1) := rb_step cmp s (OAdd k v) in
      match o1 with
      | RErr EDuplicate =>
          let '(s2, o2) := rb_step cmp s1 (OSet k v) in
          (s2, match o2 with RErr e => TErr e | _ => TUnit end)
      | _ => (s1, TUnit)
      end
  | TGet k =>
      (* v, err := tree.Find(key); return v, err == nil *)
      (s, match snd (rb_step cmp s (OFind k)) with RVal v => TVal v | _ => TAbsent end)
  | TDelete k =>
      let '(s1, o1) := rb_step cmp s (ODelete k) in
      (s1, match o1 with RVal v => TVal v | _ => TAbsent end)
  | TKeys => (s, TKeysOut (map fst (inorder (root s))))
  | TValues => (s, TValsOut (map snd (inorder (root s))))
  | TLen => (s, TLenOut (size s))
  end.

Definition tm_op_calls (cmp : Z -> Z -> Z) (s : rbtree) (o : tm_op) : nat :=
  match o with
  | TPut k v =>
      match add cmp k v (root s) with
      | Some _ => cmp_calls cmp k (root s)
      | None => (cmp_calls cmp k (root s) + cmp_calls cmp k (root s))%nat   (* Add's descent, then Set's findNode *)
      end
  | TGet k | TDelete k => cmp_calls cmp k (root s)
  | TKeys | TValues | TLen => O
  end.

Fixpoint tm_run (cmp : Z -> Z -> Z) (s : rbtree) (ops : list tm_op) : list (rbtree * tm_out) :=
  match ops with
  | [] => []
  | o :: rest => let '(s', out) := tm_step cmp s o in (s', out) :: tm_run cmp s' rest
  end.
Definition tm_final (cmp : Z -> Z -> Z) (s : rbtree) (ops : list tm_op) : rbtree :=
  fold_left (fun st o => fst (tm_step cmp st o)) ops s.

(* ---- set.TreeSet: TreeMap[T, any], every value nil (0 here) ---- *)
Inductive ts_op := SAdd (k : Z) | SDelete (k : Z) | SExist (k : Z) | SKeys.
Inductive ts_out := SUnit | SBool (b : bool) | SKeysOut (ks : list Z).

Definition ts_step (cmp : Z -> Z -> Z) (s : rbtree) (o : ts_op) : rbtree * ts_out :=
  match o with
  | SAdd k => (fst (tm_step cmp s (TPut k 0)), SUnit)            (* _ = treeMap.Put(key, nil) *)
  | SDelete k => (fst (tm_step cmp s (TDelete k)), SUnit)        (* treeMap.Delete(key), result dropped *)
  | SExist k => (s, SBool (match snd (tm_step cmp s (TGet k)) with TVal _ => true | _ => false end))
  | SKeys => (s, SKeysOut (map fst (inorder (root s))))
  end.

Definition ts_op_calls (cmp : Z -> Z -> Z) (s : rbtree) (o : ts_op) : nat :=
  match o with
  | SAdd k => tm_op_calls cmp s (TPut k 0)
  | SDelete k => tm_op_calls cmp s (TDelete k)
  | SExist k => tm_op_calls cmp s (TGet k)
  | SKeys => O
  end.

Fixpoint ts_run (cmp : Z -> Z -> Z) (s : rbtree) (ops : list ts_op) : list (rbtree * ts_out) :=
  match ops with
  | [] => []
  | o :: rest => let '(s', out) := ts_step cmp s o in (s', out) :: ts_run cmp s' rest
  end.
Definition ts_final (cmp : Z -> Z -> Z) (s : rbtree) (ops : list ts_op) : rbtree :=
  fold_left (fun st o => fst (ts_step cmp st o)) ops s.
