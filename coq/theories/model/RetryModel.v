(* Executable model of /repo/retry (retry.go, exponential.go, fixed_internal.go) — C19.
   Definitions only; proofs are in proof/RetryProof.v.

   The model follows the code AS IT IS NOW (after the two fix: commits b47c510 and 672671a):
     - Retry waits on a one-shot time.Timer re-armed after each failed attempt;
     - the exponential strategy detects multiplication overflow by division.
   The two OLD behaviours are kept as pinned variants (VPinned, retry_ticker) only so that
   the defects they had can be stated (`_refuted` lemmas in the proof file).

   Machine arithmetic written into the model:
     retries            int32, atomic.AddInt32 wraps            (i32 = wrap_s 32)
     retries-1          int32 subtraction wraps                 (i32)
     math.Pow(2, n)     exact 2^n for 0 <= n <= 62; converted to int64 (time.Duration):
                        n < 0   -> a fraction in (0,1), truncates to 0
                        n >= 63 -> not representable: amd64 CVTTSD2SQ yields the "integer
                                   indefinite" value -2^63 (also for +Inf when n >= 1024)
     initial * factor   int64 multiplication wraps              (i64 = wrap_s 64)
     interval / factor  Go's signed division truncates toward 0 (Z.quot); it is evaluated
                        only when `factor <= 0` is false (short-circuit ||), so the
                        divide-by-zero panic is syntactically unreachable. *)
From Ekit Require Import Common.

Definition i32 (z : Z) : Z := wrap_s 32 z.
Definition i64 (z : Z) : Z := wrap_s 64 z.

(* time.Duration(math.Pow(2, float64(n))) for an int32 n *)
Definition pow2_i64 (n : Z) : Z :=
  if n <? 0 then 0 else if n <=? 62 then 2 ^ n else - 2 ^ 63.

Inductive variant := VNow | VPinned.
Inductive kind := KExp (v : variant) | KFixed.

(* immutable fields of a strategy.  For KFixed p_init = p_max = interval. *)
Record params := { p_kind : kind; p_init : Z; p_max : Z; p_maxr : Z }.

(* mutable fields: the atomic counter and the sticky flag (atomic.Value holding a bool;
   never stored = false) *)
Record sstate := { retries : Z; reached : bool }.
Definition s0 : sstate := {| retries := 0; reached := false |}.

(* ---- constructors ---- *)
Inductive ctor_res := CtorOk (p : params) | CtorErrInterval | CtorErrMaxInterval.

Definition new_exp (v : variant) (init max maxr : Z) : ctor_res :=
  if init <=? 0 then CtorErrInterval
  else if max <? init then CtorErrMaxInterval
  else CtorOk {| p_kind := KExp v; p_init := init; p_max := max; p_maxr := maxr |}.

Definition new_fixed (interval maxr : Z) : ctor_res :=
  if interval <=? 0 then CtorErrInterval
  else CtorOk {| p_kind := KFixed; p_init := interval; p_max := interval; p_maxr := maxr |}.

(* ---- Next ---- *)
(* s.maxRetries <= 0 || retries <= s.maxRetries *)
Definition budget_ok (p : params) (r : Z) : bool := (p_maxr p <=? 0) || (r <=? p_maxr p).

(* factor, interval and the "overflow or above the cap" test, for the ticket r the
   atomic add returned.  Result: (interval, over). *)
Definition compute (v : variant) (p : params) (r : Z) : Z * bool :=
  let factor := pow2_i64 (i32 (r - 1)) in
  let interval := i64 (p_init p * factor) in
  let over :=
    match v with
    | VNow =>
        if factor <=? 0 then true
        else if negb (Z.quot interval factor =? p_init p) then true
        else if interval <=? 0 then true
        else p_max p <? interval
    | VPinned =>
        if interval <=? 0 then true else p_max p <? interval
    end in
  (interval, over).

Definition with_retries (s : sstate) (r : Z) : sstate := {| retries := r; reached := reached s |}.

(* one whole call on one goroutine *)
Definition next (p : params) (s : sstate) : sstate * (Z * bool) :=
  let r := i32 (retries s + 1) in
  if budget_ok p r then
    match p_kind p with
    | KFixed => (with_retries s r, (p_init p, true))
    | KExp v =>
        if reached s then (with_retries s r, (p_max p, true))
        else
          let '(iv, over) := compute v p r in
          if over then ({| retries := r; reached := true |}, (p_max p, true))
          else (with_retries s r, (iv, true))
    end
  else (with_retries s r, (0, false)).

(* n sequential calls; the answers in call order *)
Fixpoint run (p : params) (s : sstate) (n : nat) : sstate * list (Z * bool) :=
  match n with
  | O => (s, [])
  | S k =>
      let '(s1, a) := next p s in
      let '(s2, l) := run p s1 k in
      (s2, a :: l)
  end.

(* ---- concurrent Next: interleaving semantics ----
   A call is a sequence of at most three atomic steps, one per access to shared memory
   (thread-local computation is folded into the step that follows it):
     1. atomic.AddInt32(&s.retries, 1)            + the budget test on the returned value
     2. s.maxIntervalReached.Load()               -> return max, or go on
     3. compute; s.maxIntervalReached.Store(true) -> return
   A schedule is the list of thread ids in the order in which they take a step; a thread
   that has no call in flight starts a new one.  Threads never block, so every schedule
   is executable. *)
Inductive pc := PLoad (r : Z) | PComp (r : Z).
Record event := { ev_tid : nat; ev_ticket : Z; ev_iv : Z; ev_ok : bool }.
Record config := {
  c_st : sstate;
  c_fl : list (nat * pc);      (* calls in flight: thread -> program counter + register *)
  c_hist : list event;         (* completed calls, newest first (ghost) *)
  c_calls : nat                (* calls started (ghost) *)
}.
Definition init_config : config :=
  {| c_st := s0; c_fl := []; c_hist := []; c_calls := O |}.

Fixpoint lookup (t : nat) (l : list (nat * pc)) : option pc :=
  match l with
  | [] => None
  | (u, x) :: l' => if Nat.eqb u t then Some x else lookup t l'
  end.
Definition remove (t : nat) (l : list (nat * pc)) : list (nat * pc) :=
  filter (fun x => negb (Nat.eqb (fst x) t)) l.

Definition finish (c : config) (st : sstate) (t : nat) (r iv : Z) (ok : bool) (calls : nat) : config :=
  {| c_st := st; c_fl := remove t (c_fl c);
     c_hist := {| ev_tid := t; ev_ticket := r; ev_iv := iv; ev_ok := ok |} :: c_hist c;
     c_calls := calls |}.

Definition step (p : params) (c : config) (t : nat) : config :=
  match lookup t (c_fl c) with
  | None =>
      let r := i32 (retries (c_st c) + 1) in
      let st := with_retries (c_st c) r in
      if budget_ok p r then
        match p_kind p with
        | KFixed => finish c st t r (p_init p) true (S (c_calls c))
        | KExp _ => {| c_st := st; c_fl := (t, PLoad r) :: c_fl c;
                       c_hist := c_hist c; c_calls := S (c_calls c) |}
        end
      else finish c st t r 0 false (S (c_calls c))
  | Some (PLoad r) =>
      if reached (c_st c) then finish c (c_st c) t r (p_max p) true (c_calls c)
      else {| c_st := c_st c; c_fl := (t, PComp r) :: remove t (c_fl c);
              c_hist := c_hist c; c_calls := c_calls c |}
  | Some (PComp r) =>
      match p_kind p with
      | KFixed => finish c (c_st c) t r (p_init p) true (c_calls c)    (* unreachable *)
      | KExp v =>
          let '(iv, over) := compute v p r in
          if over then finish c {| retries := retries (c_st c); reached := true |} t r (p_max p) true (c_calls c)
          else finish c (c_st c) t r iv true (c_calls c)
      end
  end.

Definition sched := list nat.
Definition exec (p : params) (c : config) (sc : sched) : config := fold_left (step p) sc c.

Definition count_ok (h : list event) : nat := length (filter ev_ok h).

(* ---- Retry on a virtual clock ----
   Inputs: the script of bizFunc results with their durations, the strategy (any state type
   with a Next function), the time at which ctx.Done() becomes ready (None = never).
   Statements other than bizFunc and the blocking select take no virtual time.
   `a_tie` decides the select when both channels are ready at the same virtual instant
   (Go chooses pseudo-randomly). *)
Inductive ares := AOk | AFail (e : nat).      (* e names the error value returned *)
Record attempt := { a_res : ares; a_dur : Z; a_tie : bool }.
Inductive rres := RNil | RExhausted (e : nat) | RCtx | ROutOfScript | RPanic.
(* one invocation of bizFunc: start, end, and the interval Next granted after it *)
Record inv := { i_start : Z; i_end : Z; i_wait : option Z }.

(* select { case <-ctx.Done(): ...; case <-timer.C: } entered at time `at_`, the timer
   channel becoming ready at `fire`: None = ctx wins, Some t = the timer wins at time t *)
Definition select (cancel : option Z) (at_ fire : Z) (tie : bool) : option Z :=
  let tf := Z.max at_ fire in
  match cancel with
  | None => Some tf
  | Some c =>
      let tc := Z.max at_ c in
      if tc <? tf then None
      else if tf <? tc then Some tf
      else if tie then None else Some tf
  end.

Section RetryLoop.
  Variable St : Type.
  Variable nxt : St -> St * (Z * bool).

  (* answers of the first n sequential Next calls *)
  Fixpoint answers (s : St) (n : nat) : list (Z * bool) :=
    match n with
    | O => []
    | S k => let '(s1, a) := nxt s in a :: answers s1 k
    end.

  (* current code: time.NewTimer(d) / timer.Reset(d) after the channel was drained by the
     previous select: the channel becomes ready exactly once, at (now + d) *)
  Fixpoint retry (cancel : option Z) (now : Z) (s : St) (script : list attempt)
    : list inv * rres :=
    match script with
    | [] => ([], ROutOfScript)
    | a :: rest =>
        let e := now + a_dur a in
        match a_res a with
        | AOk => ([{| i_start := now; i_end := e; i_wait := None |}], RNil)
        | AFail err =>
            let '(s1, (iv, ok)) := nxt s in
            if ok then
              let this := {| i_start := now; i_end := e; i_wait := Some iv |} in
              match select cancel e (e + iv) (a_tie a) with
              | None => ([this], RCtx)
              | Some t => let '(tr, r) := retry cancel t s1 rest in (this :: tr, r)
              end
            else ([{| i_start := now; i_end := e; i_wait := None |}], RExhausted err)
        end
    end.

  (* PINNED (before b47c510): one time.Ticker reused across the waits.
     tk_next = time of the next tick, tk_slot = a tick is buffered in the 1-slot channel.
     The ticker keeps ticking while bizFunc runs; a tick that finds the slot full is dropped.
     Reset(d): next tick at now + d; under asynctimerchan=1 (the semantics of a main module
     whose go.mod says go < 1.23, as here) the buffered tick stays; under asynctimerchan=0
     it is discarded (`drain`).  NewTicker/Reset panic for d <= 0. *)
  Record ticker := { tk_next : Z; tk_period : Z; tk_slot : bool }.
  Definition tk_advance (k : ticker) (t : Z) : ticker :=
    if tk_next k <=? t then
      {| tk_next := tk_next k + tk_period k * (1 + (t - tk_next k) / tk_period k);
         tk_period := tk_period k; tk_slot := true |}
    else k.

  Fixpoint retry_ticker (drain : bool) (cancel : option Z) (now : Z) (s : St)
           (tk : option ticker) (script : list attempt) : list inv * rres :=
    match script with
    | [] => ([], ROutOfScript)
    | a :: rest =>
        let e := now + a_dur a in
        match a_res a with
        | AOk => ([{| i_start := now; i_end := e; i_wait := None |}], RNil)
        | AFail err =>
            let '(s1, (iv, ok)) := nxt s in
            if ok then
              let this := {| i_start := now; i_end := e; i_wait := Some iv |} in
              if iv <=? 0 then ([this], RPanic)
              else
                let k :=
                  match tk with
                  | None => {| tk_next := e + iv; tk_period := iv; tk_slot := false |}
                  | Some k0 =>
                      let k1 := tk_advance k0 e in
                      {| tk_next := e + iv; tk_period := iv;
                         tk_slot := if drain then false else tk_slot k1 |}
                  end in
                let ready := if tk_slot k then e else tk_next k in
                match select cancel e ready (a_tie a) with
                | None => ([this], RCtx)
                | Some t =>
                    let k2 := tk_advance k t in
                    let k3 := {| tk_next := tk_next k2; tk_period := tk_period k2; tk_slot := false |} in
                    let '(tr, r) := retry_ticker drain cancel t s1 (Some k3) rest in
                    (this :: tr, r)
                end
            else ([{| i_start := now; i_end := e; i_wait := None |}], RExhausted err)
        end
    end.

  (* what a run of Retry must look like (used by theorem retry_outcomes): for every
     invocation i logged in the trace, in terms of the script and of the answers of the
     strategy's first (length tr) Next calls *)
  Definition retry_post (cancel : option Z) (s : St) (script : list attempt)
             (tr : list inv) (res : rres) : Prop :=
    (length tr <= length script)%nat /\
    (tr = [] -> script = [] /\ res = ROutOfScript) /\
    res <> RPanic /\
    forall i v, nth_error tr i = Some v ->
      exists a, nth_error script i = Some a /\ i_end v = i_start v + a_dur a /\
        match a_res a with
        | AOk => i_wait v = None /\ S i = length tr /\ res = RNil
        | AFail e =>
            exists iv ok, nth_error (answers s (length tr)) i = Some (iv, ok) /\
              if ok then
                i_wait v = Some iv /\
                ((S i < length tr)%nat ->
                   forall c, cancel = Some c -> Z.max (i_end v) (i_end v + iv) <= Z.max (i_end v) c) /\
                (S i = length tr ->
                   (res = RCtx /\ exists c, cancel = Some c /\ Z.max (i_end v) c <= Z.max (i_end v) (i_end v + iv)) \/
                   (res = ROutOfScript /\ length tr = length script))
              else i_wait v = None /\ S i = length tr /\ res = RExhausted e
        end.
End RetryLoop.

(* every wait is at least as long as the interval granted for it *)
Fixpoint gaps_ok (tr : list inv) : Prop :=
  match tr with
  | a :: ((b :: _) as t) =>
      (exists iv, i_wait a = Some iv /\ i_start b - i_end a >= iv) /\ gaps_ok t
  | _ => True
  end.

(* ---- vocabulary of the theorem statements ---- *)
Definition count_true (l : list (Z * bool)) : nat := length (filter snd l).

(* a constructed exponential strategy (current code) *)
Definition wf_exp (p : params) : Prop :=
  p_kind p = KExp VNow /\ 0 < p_init p <= p_max p /\ p_max p < 2 ^ 63.

(* any constructed strategy of the current code *)
Definition wf (p : params) : Prop :=
  0 < p_init p <= p_max p /\
  match p_kind p with KExp v => v = VNow | KFixed => p_init p = p_max p end.

(* a completed call: the ticket is an int32; a granted interval lies in [initial, max] and is
   the cap or exactly initial * 2^(ticket-1); a refused call returns 0 *)
Definition good_event (p : params) (e : event) : Prop :=
  - 2 ^ 31 <= ev_ticket e < 2 ^ 31 /\
  if ev_ok e
  then p_init p <= ev_iv e <= p_max p /\
       (ev_iv e = p_max p \/
        exists n, 0 <= n <= 62 /\ ev_ticket e = n + 1 /\ ev_iv e = p_init p * 2 ^ n)
  else ev_iv e = 0.

(* witness schedule of interval_wrap_refuted: threads 1..25 each do the atomic add and the
   flag load (all see the flag unset), then thread 25 computes *)
Definition wrap_witness_sched : sched := flat_map (fun t => [t; t]) (seq 1 25) ++ [25%nat].

(* witness script of retry_gap_refuted *)
Definition gap_witness : list attempt :=
  [ {| a_res := AFail 1; a_dur := 1; a_tie := false |};
    {| a_res := AFail 2; a_dur := 30; a_tie := false |};
    {| a_res := AOk; a_dur := 1; a_tie := false |} ].

(* entry points used by the correspondence drivers *)
Definition retry_now (p : params) (cancel : option Z) (script : list attempt) :=
  retry sstate (next p) cancel 0 s0 script.
Definition retry_pinned (drain : bool) (p : params) (cancel : option Z) (script : list attempt) :=
  retry_ticker sstate (next p) drain cancel 0 s0 None script.
(* the answer of the call that draws ticket (r0 + 1) while the flag has the given value:
   the state (retries = r0, flag unset) is reachable whenever the earlier callers are
   between their Load and their Store *)
Definition probe (p : params) (r0 : Z) (fl : bool) : sstate * (Z * bool) :=
  next p {| retries := r0; reached := fl |}.
