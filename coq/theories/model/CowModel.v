(* C06 — statement-granular interleaving model of /repo/list/copy_on_write_array_list.go
   (the tree AFTER the fix "readers take one snapshot of the slice under the mutex").
   Definitions only; instance of the LinSys framework of LockedModel.v.

   One step = one Go statement (labels in ocaml/drv_locked.ml).  Shared state: the field [vals]
   and the mutex.  Writers (Append/Add/Set/Delete) build [newItems] statement by statement from
   SEPARATE reads of the field, then publish it with one assignment; readers (Get/Len/Cap/Range)
   call snapshot() — Lock; defer Unlock; return a.vals — and continue on the slice they got;
   AsSlice copies under the mutex.  The sequential specification is [ls_seq_step] (a sequence
   of Z) from LockedModel.v.

   Slices are modelled as VALUES (list Z).  This is justified by the source, and re-checked on
   every run by the statement-skeleton check: every slice a statement writes to ([newItems], [res])
   was created by [make] in the same call and is stored only in that local until the single
   assignment [a.vals = newItems] / [return res]; no statement writes through [a.vals] or through
   a snapshot.  Capacities are not modelled (Cap returns an unobserved value).

   Linearisation points: writers — the assignment [a.vals = newItems]; a writer that fails its
   index check — its (error) return statement, still under the mutex; Get/Len/Cap/Range — the
   field read [return a.vals] inside snapshot(); AsSlice — [copy(res, a.vals)].

   The model contains the run-time panics the statements can raise (index out of range in
   [vals[index]], [newItems[index] = t], [newItems[item] = v], negative length in [make]); that
   none is reachable is a theorem.

   [cowp_*]: the PINNED reader  Get = { l := a.Len(); if ...; return a.vals[index], e }  with
   Len = { return len(a.vals) }  (no lock, field read twice) — kept to document the defect that
   the fix removed ([cow_get_panics_refuted]). *)
From Ekit Require Import Common Conc LockedModel.
From Coq Require Import Arith PeanoNat.

Record cow_shared := { cw_vals : list Z; cw_mu : bool }.

(* Go's copy(dst, src) on values: the first min(len dst, len src) cells of dst are overwritten *)
Definition copy_into (dst src : list Z) : list Z :=
  let m := Nat.min (length dst) (length src) in firstn m src ++ skipn m dst.

(* s[i] with a Go int index: None = run-time panic *)
Definition go_index (l : list Z) (i : Z) : option Z :=
  if i <? 0 then None else nth_opt l (Z.to_nat i).

Inductive cow_pc :=
(* snapshot(), entered from Get / Len / Cap / Range (the thread's op tells the caller) *)
| SnLock                                   (* a.mutex.Lock() *)
| SnDefer                                  (* defer a.mutex.Unlock() *)
| SnRet                                    (* return a.vals *)
(* Get *)
| GSnap                                    (* vals := a.snapshot() *)
| GLen (snap : list Z)                     (* l := len(vals) *)
| GIf (snap : list Z) (l : nat)            (* if index < 0 || index >= l *)
| GRetErr (snap : list Z) (l : nat)        (* return t, errs.NewErrIndexOutOfRange(l, index) *)
| GRetVal (snap : list Z)                  (* return vals[index], e *)
(* Append *)
| ALock | ADefer
| AN                                       (* n := len(a.vals) *)
| AMake (n : nat)                          (* newItems := make([]T, n, n+len(ts)) *)
| ACopy (ni : list Z)                      (* copy(newItems, a.vals) *)
| AApp (ni : list Z)                       (* newItems = append(newItems, ts...) *)
| APub (ni : list Z)                       (* a.vals = newItems *)
| ARet                                     (* return nil *)
(* Add *)
| BLock | BDefer
| BN                                       (* n := len(a.vals) *)
| BMake (n : nat)                          (* newItems := make([]T, n, n+1) *)
| BCopy (ni : list Z)                      (* copy(newItems, a.vals) *)
| BAdd (ni : list Z)                       (* newItems, err = slice.Add(newItems, t, index) *)
| BIf (ni : list Z) (err : bool)           (* if err != nil *)
| BRetErr                                  (* return err *)
| BPub (ni : list Z)                       (* a.vals = newItems *)
| BRet                                     (* return nil *)
(* Set *)
| CLock | CDefer
| CN                                       (* n := len(a.vals) *)
| CIf (n : nat)                            (* if index >= n || index < 0 *)
| CRetErr (n : nat)                        (* return errs.NewErrIndexOutOfRange(n, index) *)
| CMake (n : nat)                          (* newItems := make([]T, n) *)
| CCopy (ni : list Z)                      (* copy(newItems, a.vals) *)
| CSet (ni : list Z)                       (* newItems[index] = t *)
| CPub (ni : list Z)                       (* a.vals = newItems *)
| CRet                                     (* return nil *)
(* Delete *)
| DLock | DDefer
| DN                                       (* n := len(a.vals) *)
| DIf (n : nat)                            (* if index >= n || index < 0 *)
| DRetErr (n : nat)                        (* return ret, errs.NewErrIndexOutOfRange(n, index) *)
| DMake                                    (* newItems := make([]T, len(a.vals)-1) *)
| DItem (ni : list Z)                      (* item := 0 *)
| DFor (ni : list Z) (item : nat)          (* for i, v := range a.vals *)
| DIfI (ni : list Z) (item : nat) (rt : Z) (rng : list Z) (k : nat)   (* if i == index *)
| DRetV (ni : list Z) (item : nat) (rt : Z) (rng : list Z) (k : nat)  (* ret = v *)
| DCont (ni : list Z) (item : nat) (rt : Z) (rng : list Z) (k : nat)  (* continue *)
| DPut (ni : list Z) (item : nat) (rt : Z) (rng : list Z) (k : nat)   (* newItems[item] = v *)
| DInc (ni : list Z) (item : nat) (rt : Z) (rng : list Z) (k : nat)   (* item++ *)
| DPub (ni : list Z) (rt : Z)              (* a.vals = newItems *)
| DRet (rt : Z)                            (* return ret, nil *)
(* Len, Cap *)
| LnRet                                    (* return len(a.snapshot()) *)
| CpRet                                    (* return cap(a.snapshot()) *)
(* Range *)
| RFor                                     (* for key, value := range a.snapshot() *)
| RFn (snap : list Z) (k : nat) (vis : list Z)             (* e := fn(key, value) *)
| RIf (snap : list Z) (k : nat) (vis : list Z) (e : bool)  (* if e != nil *)
| RRetE (vis : list Z)                     (* return e *)
| RRetNil (vis : list Z)                   (* return nil *)
(* AsSlice *)
| ELock | EDefer
| EMake                                    (* res := make([]T, len(a.vals)) *)
| ECopy (res : list Z)                     (* copy(res, a.vals) *)
| ERet (res : list Z)                      (* return res *)
(* the pinned reader (not reachable from cow_entry) *)
| PGLenCall                                (* l := a.Len() *)
| PGLenRet                                 (* Len: return len(a.vals) *)
| PGIf (l : nat)                           (* if index < 0 || index >= l *)
| PGRetErr (l : nat)
| PGRetVal.                                (* return a.vals[index], e *)

Definition cow_entry (o : ls_op) : cow_pc :=
  match o with
  | LGet _ => GSnap
  | LAppend _ => ALock
  | LAdd _ _ => BLock
  | LSet _ _ => CLock
  | LDelete _ => DLock
  | LLen => LnRet
  | LCap => CpRet
  | LRange _ => RFor
  | LAsSlice => ELock
  end.

Definition cowp_entry (o : ls_op) : cow_pc :=
  match o with LGet _ => PGLenCall | _ => cow_entry o end.

Notation cow_next := (next ls_ret cow_pc).

Definition cw_lock (s : cow_shared) (p' : cow_pc) : option (cow_shared * cow_next) :=
  if cw_mu s then None else Some ({| cw_vals := cw_vals s; cw_mu := true |}, NPc p').
Definition cw_unlock (s : cow_shared) : cow_shared := {| cw_vals := cw_vals s; cw_mu := false |}.
Definition cw_publish (s : cow_shared) (v : list Z) : cow_shared := {| cw_vals := v; cw_mu := cw_mu s |}.

(* the statement after one iteration of Delete's loop body *)
Definition d_next (ni : list Z) (item : nat) (rt : Z) (rng : list Z) (k : nat) : cow_pc :=
  if (S k <? length rng)%nat then DIfI ni item rt rng (S k) else DPub ni rt.

Definition cow_tstep (s : cow_shared) (o : ls_op) (p : cow_pc) : option (cow_shared * cow_next) :=
  let vals := cw_vals s in
  match p with
  (* ---- snapshot ---- *)
  | SnLock => cw_lock s SnDefer
  | SnDefer => Some (s, NPc SnRet)
  | SnRet =>
    match o with
    | LGet _ => Some (cw_unlock s, NLin (GLen vals) (snd (ls_seq_step vals o)))
    | LLen => Some (cw_unlock s, NLinRet (LRInt (Z.of_nat (length vals))))
    | LCap => Some (cw_unlock s, NLinRet LRCap)
    | LRange _ =>
      Some (cw_unlock s, NLin (match vals with [] => RRetNil [] | _ :: _ => RFn vals 0 [] end)
                              (snd (ls_seq_step vals o)))
    | _ => None
    end
  (* ---- Get ---- *)
  | GSnap => Some (s, NPc SnLock)
  | GLen snap => Some (s, NPc (GIf snap (length snap)))
  | GIf snap l =>
    match o with
    | LGet i => if (i <? 0) || (Z.of_nat l <=? i) then Some (s, NPc (GRetErr snap l))
                else Some (s, NPc (GRetVal snap))
    | _ => None
    end
  | GRetErr _ _ => Some (s, NRet (LRVal (Err EIndex)))
  | GRetVal snap =>
    match o with
    | LGet i => match go_index snap i with
                | Some v => Some (s, NRet (LRVal (Ok v)))
                | None => Some (s, NPanic)
                end
    | _ => None
    end
  (* ---- Append ---- *)
  | ALock => cw_lock s ADefer
  | ADefer => Some (s, NPc AN)
  | AN => Some (s, NPc (AMake (length vals)))
  | AMake n => Some (s, NPc (ACopy (repeat 0 n)))
  | ACopy ni => Some (s, NPc (AApp (copy_into ni vals)))
  | AApp ni => match o with LAppend ts => Some (s, NPc (APub (ni ++ ts))) | _ => None end
  | APub ni => Some (cw_publish s ni, NLin ARet (snd (ls_seq_step vals o)))
  | ARet => Some (cw_unlock s, NRet (LRErr (Ok tt)))
  (* ---- Add ---- *)
  | BLock => cw_lock s BDefer
  | BDefer => Some (s, NPc BN)
  | BN => Some (s, NPc (BMake (length vals)))
  | BMake n => Some (s, NPc (BCopy (repeat 0 n)))
  | BCopy ni => Some (s, NPc (BAdd (copy_into ni vals)))
  | BAdd ni =>
    match o with
    | LAdd i v =>   (* internal/slice.Add: bounds check against len(src), else insert *)
      if (i <? 0) || (Z.of_nat (length ni) <? i) then Some (s, NPc (BIf [] true))
      else Some (s, NPc (BIf (insert_at ni (Z.to_nat i) v) false))
    | _ => None
    end
  | BIf ni err => if err then Some (s, NPc BRetErr) else Some (s, NPc (BPub ni))
  | BRetErr => Some (cw_unlock s, NLinRet (LRErr (Err EIndex)))
  | BPub ni => Some (cw_publish s ni, NLin BRet (snd (ls_seq_step vals o)))
  | BRet => Some (cw_unlock s, NRet (LRErr (Ok tt)))
  (* ---- Set ---- *)
  | CLock => cw_lock s CDefer
  | CDefer => Some (s, NPc CN)
  | CN => Some (s, NPc (CIf (length vals)))
  | CIf n =>
    match o with
    | LSet i _ => if (Z.of_nat n <=? i) || (i <? 0) then Some (s, NPc (CRetErr n)) else Some (s, NPc (CMake n))
    | _ => None
    end
  | CRetErr _ => Some (cw_unlock s, NLinRet (LRErr (Err EIndex)))
  | CMake n => Some (s, NPc (CCopy (repeat 0 n)))
  | CCopy ni => Some (s, NPc (CSet (copy_into ni vals)))
  | CSet ni =>
    match o with
    | LSet i v => if in_range i (length ni) then Some (s, NPc (CPub (set_nth ni (Z.to_nat i) v)))
                  else Some (cw_unlock s, NPanic)
    | _ => None
    end
  | CPub ni => Some (cw_publish s ni, NLin CRet (snd (ls_seq_step vals o)))
  | CRet => Some (cw_unlock s, NRet (LRErr (Ok tt)))
  (* ---- Delete ---- *)
  | DLock => cw_lock s DDefer
  | DDefer => Some (s, NPc DN)
  | DN => Some (s, NPc (DIf (length vals)))
  | DIf n =>
    match o with
    | LDelete i => if (Z.of_nat n <=? i) || (i <? 0) then Some (s, NPc (DRetErr n)) else Some (s, NPc DMake)
    | _ => None
    end
  | DRetErr _ => Some (cw_unlock s, NLinRet (LRVal (Err EIndex)))
  | DMake =>
    match length vals with
    | O => Some (cw_unlock s, NPanic)                    (* make with negative length *)
    | S m => Some (s, NPc (DItem (repeat 0 m)))
    end
  | DItem ni => Some (s, NPc (DFor ni 0))
  | DFor ni item =>
    match vals with
    | [] => Some (s, NPc (DPub ni 0))
    | _ :: _ => Some (s, NPc (DIfI ni item 0 vals 0))
    end
  | DIfI ni item rt rng k =>
    match o with
    | LDelete i => if Z.of_nat k =? i then Some (s, NPc (DRetV ni item rt rng k))
                   else Some (s, NPc (DPut ni item rt rng k))
    | _ => None
    end
  | DRetV ni item rt rng k =>
    match nth_opt rng k with Some v => Some (s, NPc (DCont ni item v rng k)) | None => None end
  | DCont ni item rt rng k => Some (s, NPc (d_next ni item rt rng k))
  | DPut ni item rt rng k =>
    match nth_opt rng k with
    | Some v => if (item <? length ni)%nat then Some (s, NPc (DInc (set_nth ni item v) item rt rng k))
                else Some (cw_unlock s, NPanic)
    | None => None
    end
  | DInc ni item rt rng k => Some (s, NPc (d_next ni (S item) rt rng k))
  | DPub ni rt => Some (cw_publish s ni, NLin (DRet rt) (snd (ls_seq_step vals o)))
  | DRet rt => Some (cw_unlock s, NRet (LRVal (Ok rt)))
  (* ---- Len, Cap ---- *)
  | LnRet => Some (s, NPc SnLock)
  | CpRet => Some (s, NPc SnLock)
  (* ---- Range (callback: collect the element, fail at index stop) ---- *)
  | RFor => Some (s, NPc SnLock)
  | RFn snap k vis =>
    match o with
    | LRange stop =>
      match nth_opt snap k with
      | Some v => Some (s, NPc (RIf snap k (vis ++ [v]) (Z.of_nat k =? stop)))
      | None => None
      end
    | _ => None
    end
  | RIf snap k vis e =>
    if e then Some (s, NPc (RRetE vis))
    else if (S k <? length snap)%nat then Some (s, NPc (RFn snap (S k) vis))
         else Some (s, NPc (RRetNil vis))
  | RRetE vis => Some (s, NRet (LRRange vis true))
  | RRetNil vis => Some (s, NRet (LRRange vis false))
  (* ---- AsSlice ---- *)
  | ELock => cw_lock s EDefer
  | EDefer => Some (s, NPc EMake)
  | EMake => Some (s, NPc (ECopy (repeat 0 (length vals))))
  | ECopy res => Some (s, NLin (ERet (copy_into res vals)) (snd (ls_seq_step vals o)))
  | ERet res => Some (cw_unlock s, NRet (LRSeq res))
  (* ---- pinned Get: two unsynchronised reads of the field ---- *)
  | PGLenCall => Some (s, NPc PGLenRet)
  | PGLenRet => Some (s, NPc (PGIf (length vals)))
  | PGIf l =>
    match o with
    | LGet i => if (i <? 0) || (Z.of_nat l <=? i) then Some (s, NPc (PGRetErr l)) else Some (s, NPc PGRetVal)
    | _ => None
    end
  | PGRetErr _ => Some (s, NRet (LRVal (Err EIndex)))
  | PGRetVal =>
    match o with
    | LGet i => match go_index vals i with
                | Some v => Some (s, NRet (LRVal (Ok v)))
                | None => Some (s, NPanic)
                end
    | _ => None
    end
  end.

(* statements executed while holding the mutex *)
Definition cow_in_mutex (x : ls_op * cow_pc) : bool :=
  match snd x with
  | SnDefer | SnRet
  | ADefer | AN | AMake _ | ACopy _ | AApp _ | APub _ | ARet
  | BDefer | BN | BMake _ | BCopy _ | BAdd _ | BIf _ _ | BRetErr | BPub _ | BRet
  | CDefer | CN | CIf _ | CRetErr _ | CMake _ | CCopy _ | CSet _ | CPub _ | CRet
  | DDefer | DN | DIf _ | DRetErr _ | DMake | DItem _ | DFor _ _ | DIfI _ _ _ _ _ | DRetV _ _ _ _ _
  | DCont _ _ _ _ _ | DPut _ _ _ _ _ | DInc _ _ _ _ _ | DPub _ _ | DRet _
  | EDefer | EMake | ECopy _ | ERet _ => true
  | _ => false
  end.

(* before / after the linearisation point *)
Definition cow_phase (o : ls_op) (p : cow_pc) : phase ls_op ls_ret :=
  match p with
  | GLen snap | GIf snap _ | GRetErr snap _ | GRetVal snap => PhLinned o (snd (ls_seq_step snap o))
  | RFn snap _ _ | RIf snap _ _ _ => PhLinned o (snd (ls_seq_step snap o))
  | RRetE vis => PhLinned o (LRRange vis true)
  | RRetNil vis => PhLinned o (LRRange vis false)
  | ARet | BRet | CRet => PhLinned o (LRErr (Ok tt))
  | DRet rt => PhLinned o (LRVal (Ok rt))
  | ERet res => PhLinned o (LRSeq res)
  | _ => PhCalled o
  end.

Definition cow_cfg := sys_cfg ls_op ls_ret cow_shared cow_pc.
Definition cow_init (items : list Z) : cow_cfg := sys_init {| cw_vals := items; cw_mu := false |}.
Definition cow_exec1 : cow_cfg -> sys_ev ls_op -> option (cow_cfg * sys_obs ls_op ls_ret cow_pc) :=
  sys_exec1 cow_entry cow_tstep.
Definition cow_step : cow_cfg -> sys_ev ls_op -> option cow_cfg := sys_step cow_entry cow_tstep.

(* the pinned variant: same statements, Get enters the unsynchronised reader *)
Definition cowp_exec1 : cow_cfg -> sys_ev ls_op -> option (cow_cfg * sys_obs ls_op ls_ret cow_pc) :=
  sys_exec1 cowp_entry cow_tstep.
Definition cowp_step : cow_cfg -> sys_ev ls_op -> option cow_cfg := sys_step cowp_entry cow_tstep.
