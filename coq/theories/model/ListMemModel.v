(* Memory-level model of /repo/list/array_list.go and /repo/list/copy_on_write_array_list.go
   (with internal/slice Add / Delete / Shrink) — C04, aliasing layer.
   Slices are HEADERS (array id, offset, len, cap) over a store of arrays: the primitives
   make / load / store_at / reslice / append and the transcriptions add_m / delete_internal_m of
   internal/slice/{add,delete}.go are those of model/SliceMemModel.v.  Added here:
     append_many   the variadic built-in append(s, xs...): in place iff len+n <= cap (it then
                   writes the cells off+len.. of s's array), otherwise a fresh array
                   (contents ++ xs ++ spare cells; `grow` is the growth policy, any function)
     copy_m        the built-in copy(dst, src)
   A list object is its field `vals : mslice`; every method is a function
       store -> vals -> store * vals * result
   transcribed statement by statement; the state returned after a FAILED call is written out
   explicitly (it is a theorem, not a convention, that it equals the state before).
   The mutex of CopyOnWriteArrayList is not modelled (C06/C15); a reader's `snapshot()` is the
   header `vals` at that moment.  Elements and ints are Z, lengths nat.
   Definitions only; proofs are in proof/ListMemProof.v. *)
From Ekit Require Import Common ListModel SliceModel SliceMemModel.

Definition mcontents (st : store) (s : mslice) : list Z :=
  firstn (h_len (hdr_of s)) (skipn (h_off (hdr_of s)) (arr_of st (h_arr (hdr_of s)))).
Definition mcap (s : mslice) : nat := h_cap (hdr_of s).

(* overwrite the cells pos, pos+1, .. of array a with xs *)
Definition write_at (st : store) (a pos : nat) (xs : list Z) : store :=
  set_nth st a (firstn pos (arr_of st a) ++ xs ++ skipn (pos + length xs) (arr_of st a)).

(* copy(dst, src) where xs are the elements of src *)
Definition copy_m (st : store) (dst : hdr) (xs : list Z) : store :=
  write_at st (h_arr dst) (h_off dst) (firstn (h_len dst) xs).

Section ListMem.
  Variable grow : nat -> nat -> nat.   (* append(s, n elements) that must grow: spare cells beyond len+n *)

  Definition append_many (st : store) (s : mslice) (xs : list Z) : store * mslice :=
    match xs with
    | [] => (st, s)
    | _ :: _ =>
        let h := hdr_of s in
        let n := length xs in
        if (h_len h + n <=? h_cap h)%nat
        then (write_at st (h_arr h) (h_off h + h_len h) xs,
              Some (mkhdr (h_arr h) (h_off h) (h_len h + n) (h_cap h)))
        else (st ++ [mcontents st s ++ xs ++ repeat 0 (grow (h_len h) n)],
              Some (mkhdr (length st) 0 (h_len h + n) (h_len h + n + grow (h_len h) n)))
    end.

  Definition grow1 (l : nat) : nat := grow l 1.        (* the single-element append inside slice.Add *)

  (* internal/slice/shrink.go: Shrink (calCapacity is ListModel.cal_capacity, on the header's cap/len) *)
  Definition mshrink (st : store) (s : mslice) : outcome (store * mslice) :=
    let (n, changed) := cal_capacity (Z.of_nat (mcap s)) (Z.of_nat (mlen s)) in
    if negb changed then Ok (st, s)
    else if n <? 0 then Panic                                     (* make([]T, 0, n) with n < 0 *)
    else let mk := make st 0 (Z.to_nat n) in                      (* s := make([]T, 0, n) *)
         Ok (append_many (fst mk) (Some (snd mk)) (mcontents st s)).   (* s = append(s, src...) *)

  (* for key, value := range vals { e := fn(key, value); if e != nil { return e } } *)
  Fixpoint m_range (st : store) (h : hdr) (i n : nat) (stop : Z) : outcome (list (Z * Z) * bool) :=
    match n with
    | O => Ok ([], false)
    | S n' =>
        obind (load st h i) (fun x =>
        if Z.of_nat i =? stop then Ok ([(Z.of_nat i, x)], true)
        else obind (m_range st h (S i) n' stop) (fun r => Ok ((Z.of_nat i, x) :: fst r, snd r)))
    end.

  (* res := make([]T, len(vals)); copy(res, vals); return res *)
  Definition m_as_slice (st : store) (v : mslice) : store * hdr :=
    let mk := make st (mlen v) (mlen v) in
    (copy_m (fst mk) (snd mk) (mcontents st v), snd mk).

  (* ==================== list/array_list.go ==================== *)
  Definition mal_new (st : store) (cap : nat) : store * mslice :=
    let mk := make st 0 cap in (fst mk, Some (snd mk)).
  (* NewArrayListOf: "直接使用 ts，而不会执行复制" — the list's vals IS the caller's header *)
  Definition mal_new_of (st : store) (ts : mslice) : store * mslice := (st, ts).

  Definition mal_step (st : store) (v : mslice) (o : op) : store * mslice * outcome out :=
    match o with
    | OpGet index =>
        (st, v,
         let l := Z.of_nat (mlen v) in
         if (index <? 0) || (index >=? l) then Err EIndex
         else obind (load st (hdr_of v) (Z.to_nat index)) (fun x => Ok (OVal x)))
    | OpAppend ts =>
        let r := append_many st v ts in (fst r, snd r, Ok OUnit)
    | OpAdd index t =>
        match add_m grow1 st v t index with
        | Ok r => (fst r, snd r, Ok OUnit)
        | Err e => (st, v, Err e)
        | Panic => (st, v, Panic)
        end
    | OpSet index t =>
        let length := Z.of_nat (mlen v) in
        if (index >=? length) || (index <? 0) then (st, v, Err EIndex)
        else match store_at st (hdr_of v) (Z.to_nat index) t with
             | Ok st' => (st', v, Ok OUnit)
             | Err e => (st, v, Err e)
             | Panic => (st, v, Panic)
             end
    | OpDelete index =>
        match delete_internal_m st v index with
        | Err e => (st, v, Err e)
        | Panic => (st, v, Panic)
        | Ok r =>
            match mshrink (fst (fst r)) (snd (fst r)) with       (* a.vals = res; a.shrink() *)
            | Ok r2 => (fst r2, snd r2, Ok (OVal (snd r)))
            | Err e => (st, v, Err e)
            | Panic => (st, v, Panic)
            end
        end
    | OpLen => (st, v, Ok (OLen (Z.of_nat (mlen v))))
    | OpCap => (st, v, Ok (OCap (Z.of_nat (mcap v))))
    | OpRange stop =>
        (st, v, obind (m_range st (hdr_of v) 0 (mlen v) stop) (fun r => Ok (ORange (fst r) (snd r))))
    | OpAsSlice =>
        let r := m_as_slice st v in
        (fst r, v, Ok (OSlice false (mcontents (fst r) (Some (snd r)))))
    end.

  (* ==================== list/copy_on_write_array_list.go ==================== *)
  Definition mcow_new (st : store) : store * mslice :=
    let mk := make st 0 0 in (fst mk, Some (snd mk)).
  (* items := make([]T, len(ts)); copy(items, ts) *)
  Definition mcow_new_of (st : store) (ts : mslice) : store * mslice :=
    let r := m_as_slice st ts in (fst r, Some (snd r)).

  (* for i, v := range a.vals { if i == index { ret = v; continue }; newItems[item] = v; item++ } *)
  Fixpoint mcow_del_loop (st : store) (src dst : hdr) (i n : nat) (index : Z) (item : nat) (ret : Z)
    : outcome (store * Z) :=
    match n with
    | O => Ok (st, ret)
    | S n' =>
        obind (load st src i) (fun x =>
        if Z.of_nat i =? index then mcow_del_loop st src dst (S i) n' index item x
        else obind (store_at st dst item x) (fun st' =>
             mcow_del_loop st' src dst (S i) n' index (S item) ret))
    end.

  Definition mcow_step (st : store) (v : mslice) (o : op) : store * mslice * outcome out :=
    match o with
    | OpGet index =>
        (st, v,
         let l := Z.of_nat (mlen v) in
         if (index <? 0) || (index >=? l) then Err EIndex
         else obind (load st (hdr_of v) (Z.to_nat index)) (fun x => Ok (OVal x)))
    | OpAppend ts =>
        let n := mlen v in
        let mk := make st n (n + length ts) in                     (* newItems := make([]T, n, n+len(ts)) *)
        let st1 := copy_m (fst mk) (snd mk) (mcontents st v) in    (* copy(newItems, a.vals) *)
        let r := append_many st1 (Some (snd mk)) ts in             (* newItems = append(newItems, ts...) *)
        (fst r, snd r, Ok OUnit)                                   (* a.vals = newItems *)
    | OpAdd index t =>
        let n := mlen v in
        let mk := make st n (n + 1) in
        let st1 := copy_m (fst mk) (snd mk) (mcontents st v) in
        match add_m grow1 st1 (Some (snd mk)) t index with
        | Ok r => (fst r, snd r, Ok OUnit)
        | Err e => (st1, v, Err e)                                 (* newItems is dropped: garbage *)
        | Panic => (st1, v, Panic)
        end
    | OpSet index t =>
        let n := mlen v in
        if (index >=? Z.of_nat n) || (index <? 0) then (st, v, Err EIndex)
        else
          let mk := make st n n in
          let st1 := copy_m (fst mk) (snd mk) (mcontents st v) in
          match store_at st1 (snd mk) (Z.to_nat index) t with
          | Ok st2 => (st2, Some (snd mk), Ok OUnit)
          | Err e => (st1, v, Err e)
          | Panic => (st1, v, Panic)
          end
    | OpDelete index =>
        let n := mlen v in
        if (index >=? Z.of_nat n) || (index <? 0) then (st, v, Err EIndex)
        else
          let mk := make st (n - 1) (n - 1) in                     (* newItems := make([]T, len(a.vals)-1) *)
          match mcow_del_loop (fst mk) (hdr_of v) (snd mk) 0 n index 0 0 with
          | Ok r => (fst r, Some (snd mk), Ok (OVal (snd r)))
          | Err e => (fst mk, v, Err e)
          | Panic => (fst mk, v, Panic)
          end
    | OpLen => (st, v, Ok (OLen (Z.of_nat (mlen v))))
    | OpCap => (st, v, Ok (OCap (Z.of_nat (mcap v))))
    | OpRange stop =>
        (st, v, obind (m_range st (hdr_of v) 0 (mlen v) stop) (fun r => Ok (ORange (fst r) (snd r))))
    | OpAsSlice =>
        let r := m_as_slice st v in
        (fst r, v, Ok (OSlice false (mcontents (fst r) (Some (snd r)))))
    end.

  (* histories (operations only: no oracle is needed, growth is `grow`) *)
  Fixpoint m_run (step : store -> mslice -> op -> store * mslice * outcome out)
           (st : store) (v : mslice) (h : list op) : list (outcome out) :=
    match h with
    | [] => []
    | o :: t => let '(st', v', r) := step st v o in r :: m_run step st' v' t
    end.
  Fixpoint m_final (step : store -> mslice -> op -> store * mslice * outcome out)
           (st : store) (v : mslice) (h : list op) : store * mslice :=
    match h with
    | [] => (st, v)
    | o :: t => let '(st', v', _) := step st v o in m_final step st' v' t
    end.
End ListMem.

(* Does the call move the list's `vals` to a NEW backing array?  (Everything else works in the array
   the list already uses — for a list made by NewArrayListOf(ts) that is the caller's array.) *)
Definition reallocates (h : hdr) (o : op) : bool :=
  match o with
  | OpAppend xs => negb (Nat.eqb (length xs) 0) && (h_cap h <? h_len h + length xs)%nat
  | OpAdd i _ => (0 <=? i) && (i <=? Z.of_nat (h_len h)) && (h_cap h <=? h_len h)%nat
  | OpDelete i => (0 <=? i) && (i <? Z.of_nat (h_len h)) &&
                  snd (cal_capacity (Z.of_nat (h_cap h)) (Z.of_nat (h_len h - 1)))
  | _ => false
  end.

(* a client write through a header it holds: s[i] = x *)
Definition client_write (st : store) (h : hdr) (i : nat) (x : Z) : store :=
  match store_at st h i x with Ok st' => st' | _ => st end.
