(* Model of /repo/syncx/segment_key_lock.go (C14): FNV-1a (32 bit) of the key's bytes, lock index
   = hash mod size, and an array of RWMutex specifications (the contract of sync.RWMutex for the
   non-blocking part: who may acquire what, and what the Try variants answer). Definitions only. *)
From Ekit Require Import Common.

Definition fnv_offset : Z := 2166136261.
Definition fnv_prime : Z := 16777619.
Definition fnv_step (h b : Z) : Z := (Z.lxor h b * fnv_prime) mod 2 ^ 32.
Definition fnv1a (key : list Z) : Z := fold_left fnv_step key fnv_offset.
Definition seg_index (size : Z) (key : list Z) : Z := fnv1a key mod size.

(* one RWMutex: a writer flag and a reader count *)
Record rw := { rw_writer : bool; rw_readers : Z }.
Definition rw_free : rw := {| rw_writer := false; rw_readers := 0 |}.

Record seg := { seg_size : Z; seg_locks : list (Z * rw) }.   (* index -> state; absent = free *)
Definition seg_init (size : Z) : seg := {| seg_size := size; seg_locks := [] |}.

Fixpoint get_lock (i : Z) (l : list (Z * rw)) : rw :=
  match l with
  | [] => rw_free
  | (j, r) :: t => if i =? j then r else get_lock i t
  end.
Fixpoint set_lock (i : Z) (r : rw) (l : list (Z * rw)) : list (Z * rw) :=
  match l with
  | [] => [(i, r)]
  | (j, r') :: t => if i =? j then (j, r) :: t else (j, r') :: set_lock i r t
  end.

Inductive seg_op :=
| STryLock (key : list Z) | STryRLock (key : list Z)
| SLock (key : list Z)    (* only issued when it cannot block *)
| SRLock (key : list Z)   (* idem *)
| SUnlock (key : list Z) | SRUnlock (key : list Z).

Inductive seg_out := SBool (b : bool) | SUnit | SWouldBlock | SMisuse.

Definition can_write (r : rw) : bool := negb (rw_writer r) && (rw_readers r =? 0).
Definition can_read (r : rw) : bool := negb (rw_writer r).

Definition seg_step (s : seg) (o : seg_op) : seg * seg_out :=
  let upd i r := {| seg_size := seg_size s; seg_locks := set_lock i r (seg_locks s) |} in
  match o with
  | STryLock k =>
    let i := seg_index (seg_size s) k in let r := get_lock i (seg_locks s) in
    if can_write r then (upd i {| rw_writer := true; rw_readers := 0 |}, SBool true) else (s, SBool false)
  | STryRLock k =>
    let i := seg_index (seg_size s) k in let r := get_lock i (seg_locks s) in
    if can_read r then (upd i {| rw_writer := false; rw_readers := rw_readers r + 1 |}, SBool true) else (s, SBool false)
  | SLock k =>
    let i := seg_index (seg_size s) k in let r := get_lock i (seg_locks s) in
    if can_write r then (upd i {| rw_writer := true; rw_readers := 0 |}, SUnit) else (s, SWouldBlock)
  | SRLock k =>
    let i := seg_index (seg_size s) k in let r := get_lock i (seg_locks s) in
    if can_read r then (upd i {| rw_writer := false; rw_readers := rw_readers r + 1 |}, SUnit) else (s, SWouldBlock)
  | SUnlock k =>
    let i := seg_index (seg_size s) k in let r := get_lock i (seg_locks s) in
    if rw_writer r then (upd i rw_free, SUnit) else (s, SMisuse)
  | SRUnlock k =>
    let i := seg_index (seg_size s) k in let r := get_lock i (seg_locks s) in
    if 0 <? rw_readers r then (upd i {| rw_writer := false; rw_readers := rw_readers r - 1 |}, SUnit) else (s, SMisuse)
  end.

Fixpoint seg_run (s : seg) (ops : list seg_op) : list seg_out :=
  match ops with
  | [] => []
  | o :: r => let '(s', out) := seg_step s o in out :: seg_run s' r
  end.
Definition seg_final (s : seg) (ops : list seg_op) : seg :=
  fold_left (fun st o => fst (seg_step st o)) ops s.
