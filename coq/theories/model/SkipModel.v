(* Executable model of /repo/internal/list/skip_list.go (skip-list half of C05).

   "Heights model".  A skip list is represented by its level-0 order:
       nodes : list node,   node = (identity, value, tower height = len(Forward))
   and the chain of level i (the nodes reachable from the header through Forward[i]) is BY
   DEFINITION the sub-list of the nodes whose tower is higher than i (chain i).  A pointer
   (the header or a node) is a POSITION: 0 = header, k+1 = the node with index k of nodes;
   p.Forward[i] is the first node of level i at an index >= p (fwd).

   The operations compute what the Go code computes, function by function:
     traverse   per level, from the top, CONTINUING from the node reached one level up
                (advance = the inner for loop), producing update[0..level)
     insert     splice after update[i] on every level i < lvl; lvl (the random tower height)
                is an INPUT; random_level transcribes randomLevel with the number of
                successful coin flips as the input
     delete_element   node = curr.Forward[0]; unlink while i < level and
                update[i].Forward[i] == node (unlink_count models exactly this loop condition);
                trim level; size-1; always returns true
     search / get / peek / as_slice / len
   A heights state can only express a node that is linked on ALL levels below its height, at
   ONE position.  Where the code's pointer surgery would produce anything else (a splice on
   level i that is not at the level-0 position; an unlink loop that stops before the node's
   height) the model clears the flag [rep]; that this never happens is a theorem
   (props/C05_skip.v, skip_invariants_reachable), not an assumption.
   Identities: order of creation, 1,2,3,...; the header is 0.
   Definitions only; proofs are in proof/SkipProof.v. *)
From Ekit Require Import Common.
From Coq Require Import Sorting.Sorted Sorting.Permutation.

Definition MaxLevel : nat := 32.

(* randomLevel: level := 1; for (draw succeeds) level++; clamp to MaxLevel.
   r = the number of successful draws before the first failure (the only thing the global
   generator contributes). *)
Definition random_level (r : nat) : nat := Nat.min (S r) MaxLevel.

Section WithCmp.
  Variable T : Type.
  (* the user's comparator: cmp a b < 0 iff a sorts before b, 0 iff they compare equal *)
  Variable cmp : T -> T -> Z.

  Record node := { nid : nat; nval : T; nht : nat }.

  Record sl := {
    nodes : list node;     (* level-0 order *)
    level : nat;         (* sl.level *)
    size : Z;            (* sl.size *)
    nextid : nat;        (* ghost: identity of the next node created *)
    rep : bool           (* ghost: the pointer structure is still a heights structure *)
  }.

  Definition empty : sl := {| nodes := []; level := 1%nat; size := 0; nextid := 1%nat; rep := true |}.

  Definition on_level (i : nat) (n : node) : bool := Nat.ltb i (nht n).
  Definition chain (i : nat) (s : sl) : list node := filter (on_level i) (nodes s).

  (* p.Forward[i]: index of the first node of level i among l, l = the nodes from index k on *)
  Fixpoint fwd_from (i : nat) (l : list node) (k : nat) : option nat :=
    match l with
    | [] => None
    | n :: t => if on_level i n then Some k else fwd_from i t (S k)
    end.
  Definition fwd (i : nat) (sq : list node) (p : nat) : option nat := fwd_from i (skipn p sq) p.

  Definition ltb (v : T) (n : node) : bool := cmp (nval n) v <? 0.

  (* for curr.Forward[i] != nil && compare(curr.Forward[i].Val, v) < 0 { curr = curr.Forward[i] }
     l = the nodes after curr that are still to be looked at, k = index of the head of l,
     cur = position of curr *)
  Fixpoint advance (i : nat) (v : T) (l : list node) (k cur : nat) : nat :=
    match l with
    | [] => cur
    | n :: t =>
      if on_level i n then
        if ltb v n then advance i v t (S k) (S k) else cur
      else advance i v t (S k) cur
    end.

  (* levels i-1 .. 0 starting from position cur; result = update[0..i) *)
  Fixpoint traverse_from (sq : list node) (v : T) (i : nat) (cur : nat) : list nat :=
    match i with
    | O => []
    | S j =>
      let cur' := advance j v (skipn cur sq) cur cur in
      traverse_from sq v j cur' ++ [cur']
    end.
  Definition traverse (sq : list node) (v : T) (lv : nat) : list nat := traverse_from sq v lv 0%nat.
  (* the returned curr is update[0] (level >= 1); with level 0 it would be the header *)
  Definition upd (u : list nat) (i : nat) : nat := nth i u 0%nat.

  Definition gap_ok (sq : list node) (p0 : nat) (u : list nat) (i : nat) : bool :=
    match fwd i sq (upd u i) with None => true | Some k => Nat.leb p0 k end.

  Definition insert (v : T) (lvl : nat) (s : sl) : sl :=
    let u := traverse (nodes s) v (level s) in
    (* if level > sl.level { for i := sl.level; i < level; i++ { update[i] = header }; sl.level = level } *)
    let u' := u ++ repeat 0%nat (lvl - level s) in
    let p0 := upd u' 0%nat in
    let n := {| nid := nextid s; nval := v; nht := lvl |} in
    (* newNode.Forward[i] = update[i].Forward[i]; update[i].Forward[i] = newNode  for i < lvl:
       on level i the node goes directly behind update[i]; this is the level-0 position p0
       iff no node of level i lies in [update[i], p0) *)
    let okr := forallb (gap_ok (nodes s) p0 u') (List.seq 0%nat lvl) in
    {| nodes := firstn p0 (nodes s) ++ n :: skipn p0 (nodes s);
       level := Nat.max (level s) lvl;
       size := size s + 1;
       nextid := S (nextid s);
       rep := rep s && okr |}.

  (* for i := 0; i < sl.level && update[i].Forward[i] == node; i++ : number of iterations *)
  Fixpoint unlink_count (sq : list node) (k : nat) (i : nat) (u : list nat) : nat :=
    match u with
    | [] => O
    | p :: u' =>
      match fwd i sq p with
      | Some k' => if Nat.eqb k' k then S (unlink_count sq k (S i) u') else O
      | None => O
      end
    end.

  (* for sl.level > 1 && sl.header.Forward[sl.level-1] == nil { sl.level-- } *)
  Fixpoint trim (sq : list node) (lv : nat) : nat :=
    match lv with
    | O => O
    | S j =>
      if Nat.ltb 1 lv then
        match fwd j sq 0%nat with None => trim sq j | Some _ => lv end
      else lv
    end.

  Definition delete_element (v : T) (s : sl) : sl * bool :=
    let u := traverse (nodes s) v (level s) in
    let curr := upd u 0%nat in
    match fwd 0%nat (nodes s) curr with                 (* node := curr.Forward[0] *)
    | None => (s, true)
    | Some k =>
      match nth_error (nodes s) k with
      | None => (s, true)                         (* not reachable: fwd returns an index of nodes *)
      | Some nd =>
        if negb (cmp (nval nd) v =? 0) then (s, true)
        else
          let cnt := unlink_count (nodes s) k 0%nat u in
          let sq' := remove_at (nodes s) k in
          ({| nodes := sq';
              level := trim sq' (level s);
              size := size s - 1;
              nextid := nextid s;
              rep := rep s && Nat.eqb cnt (nht nd) |}, true)
      end
    end.

  Definition search (v : T) (s : sl) : bool :=
    let u := traverse (nodes s) v (level s) in
    match fwd 0%nat (nodes s) (upd u 0%nat) with
    | None => false
    | Some k => match nth_error (nodes s) k with
                | Some nd => cmp (nval nd) v =? 0
                | None => false
                end
    end.

  (* AsSlice follows Forward[0] from the header *)
  Definition as_slice (s : sl) : list T := map nval (chain 0%nat s).

  Definition len (s : sl) : Z := size s.

  Definition peek (s : sl) : outcome T :=
    match fwd 0%nat (nodes s) 0%nat with
    | None => Err EEmpty
    | Some k => match nth_error (nodes s) k with Some nd => Ok (nval nd) | None => Panic end
    end.

  (* index check against sl.size, then index+1 hops along Forward[0]; running off the chain is
     a nil dereference *)
  Definition get (index : Z) (s : sl) : outcome T :=
    if (index <? 0) || (size s <=? index) then Err EIndex
    else match nth_error (chain 0%nat s) (Z.to_nat index) with
         | Some nd => Ok (nval nd)
         | None => Panic
         end.

  (* the dump the implementation is compared with: for every level i < MaxLevel the chain of
     node identities; plus level and size *)
  Definition towers (s : sl) : list (list nat) :=
    map (fun i => map nid (chain i s)) (List.seq 0%nat MaxLevel).
  Definition heights (s : sl) : list (nat * nat) := map (fun n => (nid n, nht n)) (nodes s).

  (* histories *)
  Inductive op :=
  | OInsert (v : T) (r : nat)      (* r: successful draws of randomLevel *)
  | ODelete (v : T)
  | OSearch (v : T)
  | OGet (i : Z)
  | OPeek
  | OLen
  | OAsSlice.

  Inductive out :=
  | RUnit
  | RBool (b : bool)
  | RVal (o : outcome T)
  | RLen (z : Z)
  | RSlice (l : list T).

  Definition step (s : sl) (o : op) : sl * out :=
    match o with
    | OInsert v r => (insert v (random_level r) s, RUnit)
    | ODelete v => let '(s', b) := delete_element v s in (s', RBool b)
    | OSearch v => (s, RBool (search v s))
    | OGet i => (s, RVal (get i s))
    | OPeek => (s, RVal (peek s))
    | OLen => (s, RLen (len s))
    | OAsSlice => (s, RSlice (as_slice s))
    end.

  (* state after a history, and the outputs in order *)
  Fixpoint run_from (s : sl) (ops : list op) : sl * list out :=
    match ops with
    | [] => (s, [])
    | o :: t => let '(s1, r) := step s o in
                let '(s2, rs) := run_from s1 t in (s2, r :: rs)
    end.
  Definition run (ops : list op) : sl * list out := run_from empty ops.
  Definition final (ops : list op) : sl := fst (run ops).
  Definition outs (ops : list op) : list out := snd (run ops).

  (* NewSkipListFromSlice: NewSkipList + Insert of every element *)
  Definition from_slice (l : list (T * nat)) : sl :=
    fold_left (fun s vr => insert (fst vr) (random_level (snd vr)) s) l empty.

  (* ---------- the abstract specification: a sorted list used as a multiset ---------- *)
  Fixpoint ms_insert (v : T) (l : list T) : list T :=
    match l with
    | [] => [v]
    | x :: t => if cmp x v <? 0 then x :: ms_insert v t else v :: l
    end.
  Fixpoint ms_delete (v : T) (l : list T) : list T :=
    match l with
    | [] => []
    | x :: t => if cmp x v <? 0 then x :: ms_delete v t
                else if cmp x v =? 0 then t else l
    end.
  Definition ms_search (v : T) (l : list T) : bool := existsb (fun x => cmp x v =? 0) l.
  Definition ms_get (i : Z) (l : list T) : outcome T :=
    if (i <? 0) || (Z.of_nat (length l) <=? i) then Err EIndex
    else match nth_error l (Z.to_nat i) with Some x => Ok x | None => Panic end.
  Definition ms_peek (l : list T) : outcome T :=
    match l with [] => Err EEmpty | x :: _ => Ok x end.

  Definition ms_step (l : list T) (o : op) : list T * out :=
    match o with
    | OInsert v _ => (ms_insert v l, RUnit)
    | ODelete v => (ms_delete v l, RBool true)
    | OSearch v => (l, RBool (ms_search v l))
    | OGet i => (l, RVal (ms_get i l))
    | OPeek => (l, RVal (ms_peek l))
    | OLen => (l, RLen (Z.of_nat (length l)))
    | OAsSlice => (l, RSlice l)
    end.
  Fixpoint ms_run_from (l : list T) (ops : list op) : list T * list out :=
    match ops with
    | [] => (l, [])
    | o :: t => let '(l1, r) := ms_step l o in
                let '(l2, rs) := ms_run_from l1 t in (l2, r :: rs)
    end.
  Definition ms_run (ops : list op) : list T * list out := ms_run_from [] ops.

  (* ---------- specification vocabulary (Props; used by props/C05_skip.v) ---------- *)
  (* ascending w.r.t. the comparator, duplicates (elements comparing equal) allowed *)
  Definition sortedT (l : list T) : Prop := StronglySorted (fun a b => cmp a b <= 0) l.

  (* the skip-list invariants I1-I5 of DESIGN.md (C05), on the heights representation *)
  Definition level_exact (s : sl) : Prop :=
    (1 <= level s)%nat /\
    Forall (fun n => (nht n <= level s)%nat) (nodes s) /\
    (level s = 1%nat \/ exists n, In n (nodes s) /\ nht n = level s).
  Definition skip_inv (s : sl) : Prop :=
    StronglySorted (fun a b => cmp (nval a) (nval b) <= 0) (nodes s) /\     (* level 0 sorted *)
    NoDup (map nid (nodes s)) /\                                            (* identities unique *)
    Forall (fun n => (1 <= nid n < nextid s)%nat) (nodes s) /\
    (1 <= nextid s)%nat /\
    size s = Z.of_nat (length (nodes s)) /\                                 (* size = |level 0| *)
    Forall (fun n => (1 <= nht n <= MaxLevel)%nat) (nodes s) /\             (* every node is on level 0 *)
    level_exact s /\               (* chains empty at and above level; level = max(1, tallest tower) *)
    rep s = true.                  (* the pointer surgery never left the heights representation *)

  (* the multiset a history leaves behind: Insert adds its value; DeleteElement removes exactly
     one element comparing equal to its argument if there is one, nothing otherwise *)
  Inductive contents_rel : list op -> list T -> Prop :=
  | CR_nil : contents_rel [] []
  | CR_insert ops m v r : contents_rel ops m -> contents_rel (ops ++ [OInsert v r]) (v :: m)
  | CR_delete_present ops m m' v x :
      contents_rel ops m -> cmp x v = 0 -> Permutation m (x :: m') ->
      contents_rel (ops ++ [ODelete v]) m'
  | CR_delete_absent ops m v :
      contents_rel ops m -> (forall x, In x m -> cmp x v <> 0) -> contents_rel (ops ++ [ODelete v]) m
  | CR_search ops m v : contents_rel ops m -> contents_rel (ops ++ [OSearch v]) m
  | CR_get ops m i : contents_rel ops m -> contents_rel (ops ++ [OGet i]) m
  | CR_peek ops m : contents_rel ops m -> contents_rel (ops ++ [OPeek]) m
  | CR_len ops m : contents_rel ops m -> contents_rel (ops ++ [OLen]) m
  | CR_slice ops m : contents_rel ops m -> contents_rel (ops ++ [OAsSlice]) m
  | CR_perm ops m m' : contents_rel ops m -> Permutation m m' -> contents_rel ops m'.

  (* what one operation must do to the sorted multiset l (result l', output r) *)
  Definition sorted_multiset_step (l : list T) (o : op) (l' : list T) (r : out) : Prop :=
    match o with
    | OInsert v _ => r = RUnit /\ Permutation l' (v :: l)
    | ODelete v =>
        r = RBool true /\
        ((exists x, In x l /\ cmp x v = 0) ->
           exists x, In x l /\ cmp x v = 0 /\ Permutation l (x :: l')) /\
        ((forall x, In x l -> cmp x v <> 0) -> l' = l)
    | OSearch v => l' = l /\ exists b, r = RBool b /\ (b = true <-> exists x, In x l /\ cmp x v = 0)
    | OGet i =>
        l' = l /\
        (0 <= i < Z.of_nat (length l) -> exists x, nth_error l (Z.to_nat i) = Some x /\ r = RVal (Ok x)) /\
        (~ (0 <= i < Z.of_nat (length l)) -> r = RVal (Err EIndex))
    | OPeek =>
        l' = l /\
        match l with
        | [] => r = RVal (Err EEmpty)
        | x :: _ => r = RVal (Ok x) /\ forall y, In y l -> cmp x y <= 0
        end
    | OLen => l' = l /\ r = RLen (Z.of_nat (length l))
    | OAsSlice => l' = l /\ r = RSlice l
    end.

  (* total preorder given as a three-way comparator; ties (cmp a b = 0 for different a, b) allowed *)
  Definition cmp_total_preorder : Prop :=
    (forall a b, Z.sgn (cmp b a) = - Z.sgn (cmp a b)) /\
    (forall a b c, cmp a b <= 0 -> cmp b c <= 0 -> cmp a c <= 0).
End WithCmp.

Arguments nid {T}. Arguments nval {T}. Arguments nht {T}.
Arguments nodes {T}. Arguments level {T}. Arguments size {T}. Arguments nextid {T}. Arguments rep {T}.
Arguments empty {T}.
Arguments OInsert {T}. Arguments ODelete {T}. Arguments OSearch {T}. Arguments OGet {T}.
Arguments OPeek {T}. Arguments OLen {T}. Arguments OAsSlice {T}.
Arguments RUnit {T}. Arguments RBool {T}. Arguments RVal {T}. Arguments RLen {T}. Arguments RSlice {T}.

(* the comparator families of the correspondence check on values (key, tag): only the key is
   compared, so the tag distinguishes elements that compare equal *)
Definition cmp_asc (a b : Z * Z) : Z := Z.sgn (fst a - fst b).
Definition cmp_desc (a b : Z * Z) : Z := Z.sgn (fst b - fst a).
Definition cmp_mod3 (a b : Z * Z) : Z := (fst a mod 3) - (fst b mod 3).
Definition cmp_half (a b : Z * Z) : Z := (fst a / 2) - (fst b / 2).

(* ====================================================================================
   Layer B: "pointer model".  The same skip list with explicit pointers: a heap
   id -> (value, Forward : list (option id)), header = id 0, the Go statements one by one,
   loops with fuel (PFuel = out of fuel, PPanic = nil dereference / index out of range).
   It is compared with the heights model (and with the implementation's dump) by the
   correspondence check on every run, and by the bounded sweep props/C05_skip.v
   (ptr_matches_heights_bounded); a general simulation theorem is NOT proved.
   ==================================================================================== *)
Section Ptr.
  Variable T : Type.
  Variable cmp : T -> T -> Z.

  Record pnode := { pval : option T; pfwd : list (option nat) }.
  Record psl := { heap : list (nat * pnode); plevel : nat; psize : Z; pnext : nat }.

  Inductive pres (A : Type) := POk (a : A) | PPanic | PFuel.
  Arguments POk {A} a. Arguments PPanic {A}. Arguments PFuel {A}.
  Definition pbind {A B} (x : pres A) (f : A -> pres B) : pres B :=
    match x with POk a => f a | PPanic => PPanic | PFuel => PFuel end.

  Fixpoint hget (h : list (nat * pnode)) (id : nat) : option pnode :=
    match h with
    | [] => None
    | (k, n) :: t => if Nat.eqb k id then Some n else hget t id
    end.
  Definition hset (h : list (nat * pnode)) (id : nat) (n : pnode) := (id, n) :: h.

  (* NewSkipList: header with MaxLevel nil pointers, level 1 *)
  Definition p_empty : psl :=
    {| heap := [(0%nat, {| pval := None; pfwd := repeat None MaxLevel |})];
       plevel := 1%nat; psize := 0; pnext := 1%nat |}.

  (* p.Forward[i] *)
  Definition pforward (h : list (nat * pnode)) (p i : nat) : pres (option nat) :=
    match hget h p with
    | None => PPanic
    | Some n => match nth_error (pfwd n) i with Some x => POk x | None => PPanic end
    end.
  (* p.Forward[i] = x *)
  Definition set_fwd (h : list (nat * pnode)) (p i : nat) (x : option nat) : pres (list (nat * pnode)) :=
    match hget h p with
    | None => PPanic
    | Some n => if Nat.ltb i (length (pfwd n))
                then POk (hset h p {| pval := pval n; pfwd := set_nth (pfwd n) i x |})
                else PPanic
    end.
  Definition pvalue (h : list (nat * pnode)) (p : nat) : pres T :=
    match hget h p with
    | Some n => match pval n with Some x => POk x | None => PPanic end
    | None => PPanic
    end.

  (* for curr.Forward[i] != nil && compare(curr.Forward[i].Val, v) < 0 { curr = curr.Forward[i] } *)
  Fixpoint p_walk (fuel : nat) (h : list (nat * pnode)) (v : T) (i curr : nat) : pres nat :=
    match fuel with
    | O => PFuel
    | S f =>
      pbind (pforward h curr i) (fun nx =>
        match nx with
        | None => POk curr
        | Some nx => pbind (pvalue h nx) (fun x => if cmp x v <? 0 then p_walk f h v i nx else POk curr)
        end)
    end.

  (* for i := level - 1; i >= 0; i-- { <walk>; update[i] = curr } *)
  Fixpoint p_trav (fuel : nat) (h : list (nat * pnode)) (v : T) (i curr : nat) (update : list (option nat))
    : pres (nat * list (option nat)) :=
    match i with
    | O => POk (curr, update)
    | S j => pbind (p_walk fuel h v j curr) (fun c =>
               if Nat.ltb j (length update) then p_trav fuel h v j c (set_nth update j (Some c)) else PPanic)
    end.
  Definition p_fuel (s : psl) : nat := S (pnext s).
  Definition p_traverse (s : psl) (v : T) : pres (nat * list (option nat)) :=
    p_trav (p_fuel s) (heap s) v (plevel s) 0%nat (repeat None MaxLevel).

  (* update[i] (a nil entry is dereferenced by the callers: panic) *)
  Definition pupd (update : list (option nat)) (i : nat) : pres nat :=
    match nth_error update i with Some (Some p) => POk p | _ => PPanic end.

  (* for i := 0; i < level; i++ { newNode.Forward[i] = update[i].Forward[i]; update[i].Forward[i] = newNode } *)
  Fixpoint p_link (h : list (nat * pnode)) (update : list (option nat)) (nw : nat) (is : list nat)
    : pres (list (nat * pnode)) :=
    match is with
    | [] => POk h
    | i :: rest =>
      pbind (pupd update i) (fun ui =>
      pbind (pforward h ui i) (fun nx =>
      pbind (set_fwd h nw i nx) (fun h1 =>
      pbind (set_fwd h1 ui i (Some nw)) (fun h2 => p_link h2 update nw rest))))
    end.

  Fixpoint set_range (update : list (option nat)) (is : list nat) (x : option nat) : pres (list (option nat)) :=
    match is with
    | [] => POk update
    | i :: rest => if Nat.ltb i (length update) then set_range (set_nth update i x) rest x else PPanic
    end.

  Definition p_insert (v : T) (lvl : nat) (s : psl) : pres psl :=
    pbind (p_traverse s v) (fun cu =>
    let update := snd cu in
    pbind (if Nat.ltb (plevel s) lvl
           then set_range update (List.seq (plevel s) (lvl - plevel s)) (Some 0%nat)
           else POk update) (fun update' =>
    let nw := pnext s in
    let h0 := hset (heap s) nw {| pval := Some v; pfwd := repeat None lvl |} in
    pbind (p_link h0 update' nw (List.seq 0%nat lvl)) (fun h1 =>
    POk {| heap := h1; plevel := Nat.max (plevel s) lvl; psize := psize s + 1; pnext := S nw |}))).

  (* for i := 0; i < sl.level && update[i].Forward[i] == node; i++ { update[i].Forward[i] = node.Forward[i] } *)
  Fixpoint p_unlink (n : nat) (h : list (nat * pnode)) (update : list (option nat)) (node i : nat)
    : pres (list (nat * pnode)) :=
    match n with
    | O => POk h
    | S m =>
      pbind (pupd update i) (fun ui =>
      pbind (pforward h ui i) (fun nx =>
        match nx with
        | Some k => if Nat.eqb k node
                    then pbind (pforward h node i) (fun nn =>
                         pbind (set_fwd h ui i nn) (fun h1 => p_unlink m h1 update node (S i)))
                    else POk h
        | None => POk h
        end))
    end.

  (* for sl.level > 1 && sl.header.Forward[sl.level-1] == nil { sl.level-- } *)
  Fixpoint p_trim (h : list (nat * pnode)) (lv : nat) : pres nat :=
    match lv with
    | O => POk O
    | S j => if Nat.ltb 1 lv
             then pbind (pforward h 0%nat j) (fun x => match x with None => p_trim h j | Some _ => POk lv end)
             else POk lv
    end.

  Definition p_delete (v : T) (s : psl) : pres (psl * bool) :=
    pbind (p_traverse s v) (fun cu =>
    pbind (pforward (heap s) (fst cu) 0%nat) (fun node =>
      match node with
      | None => POk (s, true)
      | Some nd =>
        pbind (pvalue (heap s) nd) (fun x =>
          if negb (cmp x v =? 0) then POk (s, true)
          else
            pbind (p_unlink (plevel s) (heap s) (snd cu) nd 0%nat) (fun h1 =>
            pbind (p_trim h1 (plevel s)) (fun lv =>
            POk ({| heap := h1; plevel := lv; psize := psize s - 1; pnext := pnext s |}, true))))
      end)).

  Definition p_search (v : T) (s : psl) : pres bool :=
    pbind (p_traverse s v) (fun cu =>
    pbind (pforward (heap s) (fst cu) 0%nat) (fun node =>
      match node with
      | None => POk false
      | Some nd => pbind (pvalue (heap s) nd) (fun x => POk (cmp x v =? 0))
      end)).

  (* the chain of level i from the header *)
  Fixpoint p_chain_from (fuel : nat) (h : list (nat * pnode)) (i curr : nat) : pres (list nat) :=
    match fuel with
    | O => PFuel
    | S f => pbind (pforward h curr i) (fun nx =>
               match nx with
               | None => POk []
               | Some k => pbind (p_chain_from f h i k) (fun l => POk (k :: l))
               end)
    end.
  Definition p_chain (s : psl) (i : nat) : pres (list nat) := p_chain_from (p_fuel s) (heap s) i 0%nat.

  Fixpoint pmapM {A B} (f : A -> pres B) (l : list A) : pres (list B) :=
    match l with
    | [] => POk []
    | a :: t => pbind (f a) (fun b => pbind (pmapM f t) (fun bs => POk (b :: bs)))
    end.

  Definition p_towers (s : psl) : pres (list (list nat)) := pmapM (p_chain s) (List.seq 0%nat MaxLevel).
  Definition p_as_slice (s : psl) : pres (list T) :=
    pbind (p_chain s 0%nat) (fun ids => pmapM (pvalue (heap s)) ids).
  Definition p_heights (s : psl) : pres (list (nat * nat)) :=
    pbind (p_chain s 0%nat) (fun ids =>
      pmapM (fun k => match hget (heap s) k with Some n => POk (k, length (pfwd n)) | None => PPanic end) ids).

  Definition p_peek (s : psl) : pres (outcome T) :=
    pbind (pforward (heap s) 0%nat 0%nat) (fun x =>
      match x with
      | None => POk (Err EEmpty)
      | Some k => pbind (pvalue (heap s) k) (fun v => POk (Ok v))
      end).

  (* curr := header; for i := 0; i <= index; i++ { curr = curr.Forward[0] }; curr.Val *)
  Fixpoint p_hops (n : nat) (h : list (nat * pnode)) (curr : option nat) : pres (option nat) :=
    match n with
    | O => POk curr
    | S m => match curr with
             | None => PPanic
             | Some c => pbind (pforward h c 0%nat) (fun nx => p_hops m h nx)
             end
    end.
  Definition p_get (index : Z) (s : psl) : pres (outcome T) :=
    if (index <? 0) || (psize s <=? index) then POk (Err EIndex)
    else pbind (p_hops (S (Z.to_nat index)) (heap s) (Some 0%nat)) (fun c =>
           match c with
           | None => PPanic
           | Some k => pbind (pvalue (heap s) k) (fun v => POk (Ok v))
           end).

  Definition p_step (s : psl) (o : op T) : pres (psl * out T) :=
    match o with
    | OInsert v r => pbind (p_insert v (random_level r) s) (fun s' => POk (s', RUnit))
    | ODelete v => pbind (p_delete v s) (fun sb => POk (fst sb, RBool (snd sb)))
    | OSearch v => pbind (p_search v s) (fun b => POk (s, RBool b))
    | OGet i => pbind (p_get i s) (fun r => POk (s, RVal r))
    | OPeek => pbind (p_peek s) (fun r => POk (s, RVal r))
    | OLen => POk (s, RLen (psize s))
    | OAsSlice => pbind (p_as_slice s) (fun l => POk (s, RSlice l))
    end.
End Ptr.
Arguments POk {A} a. Arguments PPanic {A}. Arguments PFuel {A}.

(* ---------- bounded exhaustive comparison pointer model = heights model ---------- *)
(* values (key, tag) under "key div 2" (0 and 1 tie), towers 1..3, DeleteElement of 0,1,2 *)
Definition sweep_alphabet : list (op (Z * Z)) :=
  flat_map (fun k => map (fun r => OInsert (k, k) r) [0%nat; 1%nat; 2%nat]) [0; 1; 2] ++
  map (fun k => ODelete (k, 0)) [0; 1; 2].
Definition sweep_probes : list (op (Z * Z)) :=
  map (fun k => OSearch (k, 0)) [0; 1; 2; 3] ++ map OGet [-1; 0; 1; 2; 3; 4; 5; 6] ++ [OPeek; OLen; OAsSlice].

Definition v2_eqb (a b : Z * Z) : bool := Z.eqb (fst a) (fst b) && Z.eqb (snd a) (snd b).
Fixpoint leqb {A} (e : A -> A -> bool) (a b : list A) : bool :=
  match a, b with
  | [], [] => true
  | x :: a', y :: b' => e x y && leqb e a' b'
  | _, _ => false
  end.
Definition out_eqb (a b : out (Z * Z)) : bool :=
  match a, b with
  | RUnit, RUnit => true
  | RBool x, RBool y => Bool.eqb x y
  | RVal (Ok x), RVal (Ok y) => v2_eqb x y
  | RVal (Err _), RVal (Err _) => true
  | RVal Panic, RVal Panic => true
  | RLen x, RLen y => Z.eqb x y
  | RSlice x, RSlice y => leqb v2_eqb x y
  | _, _ => false
  end.
Definition nn_eqb (a b : nat * nat) : bool := Nat.eqb (fst a) (fst b) && Nat.eqb (snd a) (snd b).

(* level, size, every node's height and all 32 chains agree, and so does every probe *)
Definition ptr_agrees (sp : psl (Z * Z)) (sh : sl (Z * Z)) : bool :=
  Nat.eqb (plevel _ sp) (level sh) && Z.eqb (psize _ sp) (size sh) && Nat.eqb (pnext _ sp) (nextid sh) &&
  rep sh &&
  match p_towers _ sp, p_heights _ sp with
  | POk tw, POk hs => leqb (leqb Nat.eqb) tw (towers _ sh) && leqb nn_eqb hs (heights _ sh)
  | _, _ => false
  end &&
  forallb (fun o => match p_step _ cmp_half sp o with
                    | POk (_, r) => out_eqb r (snd (step _ cmp_half sh o))
                    | _ => false
                    end) sweep_probes.

(* all histories of at most n mutating operations over sweep_alphabet, every prefix checked *)
Fixpoint ptr_sweep (n : nat) (sp : psl (Z * Z)) (sh : sl (Z * Z)) : bool :=
  ptr_agrees sp sh &&
  match n with
  | O => true
  | S m => forallb (fun o => match p_step _ cmp_half sp o with
                             | POk (sp', r) => let '(sh', r') := step _ cmp_half sh o in
                                               out_eqb r r' && ptr_sweep m sp' sh'
                             | _ => false
                             end) sweep_alphabet
  end.
