(* Executable model of /repo/internal/list/skip_list.go (skip-list half of C05).

   "Heights model".  A skip list is represented by its level-0 order:
       nodes : list node,   node = (identity, value, tower height = len(Forward))
   and the chain of level i (the nodes reachable from the header through Forward[i]) is BY
   DEFINITION the sub-list of the nodes whose tower is higher than i (chain i).  A pointer
   (the header or a node) is a POSITION: 0 = header, k+1 = the node with index k of nodes;
   p.Forward[i] is the first node of level i at an index >= p (fwd).

   The operations compute what the Go code computes, function by function:
     traverse   per level, from the top, CONTINUING from the node reached one level up
                (advance = the inner for loop), producing update[0..level)
     insert     splice after update[i] on every level i < lvl; lvl (the random tower height)
                is an INPUT; random_level transcribes randomLevel with the number of
                successful coin flips as the input
     delete_element   node = curr.Forward[0]; unlink while i < level and
                update[i].Forward[i] == node (unlink_count models exactly this loop condition);
                trim level; size-1; always returns true
     search / get / peek / as_slice / len
   A heights state can only express a node that is linked on ALL levels below its height, at
   ONE position.  Where the code's pointer surgery would produce anything else (a splice on
   level i that is not at the level-0 position; an unlink loop that stops before the node's
   height) the model clears the flag [rep]; that this never happens is a theorem
   (SkipProof.inv_run), not an assumption.
   Identities: order of creation, 1,2,3,...; the header is 0.
   Definitions only; proofs are in proof/SkipProof.v. *)
From Ekit Require Import Common.
From Coq Require Import Sorting.Sorted Sorting.Permutation.

Definition MaxLevel : nat := 32.

(* randomLevel: level := 1; for (draw succeeds) level++; clamp to MaxLevel.
   r = the number of successful draws before the first failure (the only thing the global
   generator contributes). *)
Definition random_level (r : nat) : nat := Nat.min (S r) MaxLevel.

Section WithCmp.
  Variable T : Type.
  (* the user's comparator: cmp a b < 0 iff a sorts before b, 0 iff they compare equal *)
  Variable cmp : T -> T -> Z.

  Record node := { nid : nat; nval : T; nht : nat }.

  Record sl := {
    nodes : list node;     (* level-0 order *)
    level : nat;         (* sl.level *)
    size : Z;            (* sl.size *)
    nextid : nat;        (* ghost: identity of the next node created *)
    rep : bool           (* ghost: the pointer structure is still a heights structure *)
  }.

  Definition empty : sl := {| nodes := []; level := 1%nat; size := 0; nextid := 1%nat; rep := true |}.

  Definition on_level (i : nat) (n : node) : bool := Nat.ltb i (nht n).
  Definition chain (i : nat) (s : sl) : list node := filter (on_level i) (nodes s).

  (* p.Forward[i]: index of the first node of level i among l, l = the nodes from index k on *)
  Fixpoint fwd_from (i : nat) (l : list node) (k : nat) : option nat :=
    match l with
    | [] => None
    | n :: t => if on_level i n then Some k else fwd_from i t (S k)
    end.
  Definition fwd (i : nat) (sq : list node) (p : nat) : option nat := fwd_from i (skipn p sq) p.

  Definition ltb (v : T) (n : node) : bool := cmp (nval n) v <? 0.

  (* for curr.Forward[i] != nil && compare(curr.Forward[i].Val, v) < 0 { curr = curr.Forward[i] }
     l = the nodes after curr that are still to be looked at, k = index of the head of l,
     cur = position of curr *)
  Fixpoint advance (i : nat) (v : T) (l : list node) (k cur : nat) : nat :=
    match l with
    | [] => cur
    | n :: t =>
      if on_level i n then
        if ltb v n then advance i v t (S k) (S k) else cur
      else advance i v t (S k) cur
    end.

  (* levels i-1 .. 0 starting from position cur; result = update[0..i) *)
  Fixpoint traverse_from (sq : list node) (v : T) (i : nat) (cur : nat) : list nat :=
    match i with
    | O => []
    | S j =>
      let cur' := advance j v (skipn cur sq) cur cur in
      traverse_from sq v j cur' ++ [cur']
    end.
  Definition traverse (sq : list node) (v : T) (lv : nat) : list nat := traverse_from sq v lv 0%nat.
  (* the returned curr is update[0] (level >= 1); with level 0 it would be the header *)
  Definition upd (u : list nat) (i : nat) : nat := nth i u 0%nat.

  Definition gap_ok (sq : list node) (p0 : nat) (u : list nat) (i : nat) : bool :=
    match fwd i sq (upd u i) with None => true | Some k => Nat.leb p0 k end.

  Definition insert (v : T) (lvl : nat) (s : sl) : sl :=
    let u := traverse (nodes s) v (level s) in
    (* if level > sl.level { for i := sl.level; i < level; i++ { update[i] = header }; sl.level = level } *)
    let u' := u ++ repeat 0%nat (lvl - level s) in
    let p0 := upd u' 0%nat in
    let n := {| nid := nextid s; nval := v; nht := lvl |} in
    (* newNode.Forward[i] = update[i].Forward[i]; update[i].Forward[i] = newNode  for i < lvl:
       on level i the node goes directly behind update[i]; this is the level-0 position p0
       iff no node of level i lies in [update[i], p0) *)
    let okr := forallb (gap_ok (nodes s) p0 u') (List.seq 0%nat lvl) in
    {| nodes := firstn p0 (nodes s) ++ n :: skipn p0 (nodes s);
       level := Nat.max (level s) lvl;
       size := size s + 1;
       nextid := S (nextid s);
       rep := rep s && okr |}.

  (* for i := 0; i < sl.level && update[i].Forward[i] == node; i++ : number of iterations *)
  Fixpoint unlink_count (sq : list node) (k : nat) (i : nat) (u : list nat) : nat :=
    match u with
    | [] => O
    | p :: u' =>
      match fwd i sq p with
      | Some k' => if Nat.eqb k' k then S (unlink_count sq k (S i) u') else O
      | None => O
      end
    end.

  (* for sl.level > 1 && sl.header.Forward[sl.level-1] == nil { sl.level-- } *)
  Fixpoint trim (sq : list node) (lv : nat) : nat :=
    match lv with
    | O => O
    | S j =>
      if Nat.ltb 1 lv then
        match fwd j sq 0%nat with None => trim sq j | Some _ => lv end
      else lv
    end.

  Definition delete_element (v : T) (s : sl) : sl * bool :=
    let u := traverse (nodes s) v (level s) in
    let curr := upd u 0%nat in
    match fwd 0%nat (nodes s) curr with                 (* node := curr.Forward[0] *)
    | None => (s, true)
    | Some k =>
      match nth_error (nodes s) k with
      | None => (s, true)                         (* not reachable: fwd returns an index of nodes *)
      | Some nd =>
        if negb (cmp (nval nd) v =? 0) then (s, true)
        else
          let cnt := unlink_count (nodes s) k 0%nat u in
          let sq' := remove_at (nodes s) k in
          ({| nodes := sq';
              level := trim sq' (level s);
              size := size s - 1;
              nextid := nextid s;
              rep := rep s && Nat.eqb cnt (nht nd) |}, true)
      end
    end.

  Definition search (v : T) (s : sl) : bool :=
    let u := traverse (nodes s) v (level s) in
    match fwd 0%nat (nodes s) (upd u 0%nat) with
    | None => false
    | Some k => match nth_error (nodes s) k with
                | Some nd => cmp (nval nd) v =? 0
                | None => false
                end
    end.

  (* AsSlice follows Forward[0] from the header *)
  Definition as_slice (s : sl) : list T := map nval (chain 0%nat s).

  Definition len (s : sl) : Z := size s.

  Definition peek (s : sl) : outcome T :=
    match fwd 0%nat (nodes s) 0%nat with
    | None => Err EEmpty
    | Some k => match nth_error (nodes s) k with Some nd => Ok (nval nd) | None => Panic end
    end.

  (* index check against sl.size, then index+1 hops along Forward[0]; running off the chain is
     a nil dereference *)
  Definition get (index : Z) (s : sl) : outcome T :=
    if (index <? 0) || (size s <=? index) then Err EIndex
    else match nth_error (chain 0%nat s) (Z.to_nat index) with
         | Some nd => Ok (nval nd)
         | None => Panic
         end.

  (* the dump the implementation is compared with: for every level i < MaxLevel the chain of
     node identities; plus level and size *)
  Definition towers (s : sl) : list (list nat) :=
    map (fun i => map nid (chain i s)) (List.seq 0%nat MaxLevel).
  Definition heights (s : sl) : list (nat * nat) := map (fun n => (nid n, nht n)) (nodes s).

  (* histories *)
  Inductive op :=
  | OInsert (v : T) (r : nat)      (* r: successful draws of randomLevel *)
  | ODelete (v : T)
  | OSearch (v : T)
  | OGet (i : Z)
  | OPeek
  | OLen
  | OAsSlice.

  Inductive out :=
  | RUnit
  | RBool (b : bool)
  | RVal (o : outcome T)
  | RLen (z : Z)
  | RSlice (l : list T).

  Definition step (s : sl) (o : op) : sl * out :=
    match o with
    | OInsert v r => (insert v (random_level r) s, RUnit)
    | ODelete v => let '(s', b) := delete_element v s in (s', RBool b)
    | OSearch v => (s, RBool (search v s))
    | OGet i => (s, RVal (get i s))
    | OPeek => (s, RVal (peek s))
    | OLen => (s, RLen (len s))
    | OAsSlice => (s, RSlice (as_slice s))
    end.

  (* state after a history, and the outputs in order *)
  Fixpoint run_from (s : sl) (ops : list op) : sl * list out :=
    match ops with
    | [] => (s, [])
    | o :: t => let '(s1, r) := step s o in
                let '(s2, rs) := run_from s1 t in (s2, r :: rs)
    end.
  Definition run (ops : list op) : sl * list out := run_from empty ops.
  Definition final (ops : list op) : sl := fst (run ops).
  Definition outs (ops : list op) : list out := snd (run ops).

  (* NewSkipListFromSlice: NewSkipList + Insert of every element *)
  Definition from_slice (l : list (T * nat)) : sl :=
    fold_left (fun s vr => insert (fst vr) (random_level (snd vr)) s) l empty.

  (* ---------- the abstract specification: a sorted list used as a multiset ---------- *)
  Fixpoint ms_insert (v : T) (l : list T) : list T :=
    match l with
    | [] => [v]
    | x :: t => if cmp x v <? 0 then x :: ms_insert v t else v :: l
    end.
  Fixpoint ms_delete (v : T) (l : list T) : list T :=
    match l with
    | [] => []
    | x :: t => if cmp x v <? 0 then x :: ms_delete v t
                else if cmp x v =? 0 then t else l
    end.
  Definition ms_search (v : T) (l : list T) : bool := existsb (fun x => cmp x v =? 0) l.
  Definition ms_get (i : Z) (l : list T) : outcome T :=
    if (i <? 0) || (Z.of_nat (length l) <=? i) then Err EIndex
    else match nth_error l (Z.to_nat i) with Some x => Ok x | None => Panic end.
  Definition ms_peek (l : list T) : outcome T :=
    match l with [] => Err EEmpty | x :: _ => Ok x end.

  Definition ms_step (l : list T) (o : op) : list T * out :=
    match o with
    | OInsert v _ => (ms_insert v l, RUnit)
    | ODelete v => (ms_delete v l, RBool true)
    | OSearch v => (l, RBool (ms_search v l))
    | OGet i => (l, RVal (ms_get i l))
    | OPeek => (l, RVal (ms_peek l))
    | OLen => (l, RLen (Z.of_nat (length l)))
    | OAsSlice => (l, RSlice l)
    end.
  Fixpoint ms_run_from (l : list T) (ops : list op) : list T * list out :=
    match ops with
    | [] => (l, [])
    | o :: t => let '(l1, r) := ms_step l o in
                let '(l2, rs) := ms_run_from l1 t in (l2, r :: rs)
    end.
  Definition ms_run (ops : list op) : list T * list out := ms_run_from [] ops.

  (* ---------- specification vocabulary (Props; used by props/C05_skip.v) ---------- *)
  (* ascending w.r.t. the comparator, duplicates (elements comparing equal) allowed *)
  Definition sortedT (l : list T) : Prop := StronglySorted (fun a b => cmp a b <= 0) l.

  (* the skip-list invariants I1-I5 of DESIGN.md (C05), on the heights representation *)
  Definition level_exact (s : sl) : Prop :=
    (1 <= level s)%nat /\
    Forall (fun n => (nht n <= level s)%nat) (nodes s) /\
    (level s = 1%nat \/ exists n, In n (nodes s) /\ nht n = level s).
  Definition skip_inv (s : sl) : Prop :=
    StronglySorted (fun a b => cmp (nval a) (nval b) <= 0) (nodes s) /\     (* level 0 sorted *)
    NoDup (map nid (nodes s)) /\                                            (* identities unique *)
    Forall (fun n => (1 <= nid n < nextid s)%nat) (nodes s) /\
    (1 <= nextid s)%nat /\
    size s = Z.of_nat (length (nodes s)) /\                                 (* size = |level 0| *)
    Forall (fun n => (1 <= nht n <= MaxLevel)%nat) (nodes s) /\             (* every node is on level 0 *)
    level_exact s /\               (* chains empty at and above level; level = max(1, tallest tower) *)
    rep s = true.                  (* the pointer surgery never left the heights representation *)

  (* the multiset a history leaves behind: Insert adds its value; DeleteElement removes exactly
     one element comparing equal to its argument if there is one, nothing otherwise *)
  Inductive contents_rel : list op -> list T -> Prop :=
  | CR_nil : contents_rel [] []
  | CR_insert ops m v r : contents_rel ops m -> contents_rel (ops ++ [OInsert v r]) (v :: m)
  | CR_delete_present ops m m' v x :
      contents_rel ops m -> cmp x v = 0 -> Permutation m (x :: m') ->
      contents_rel (ops ++ [ODelete v]) m'
  | CR_delete_absent ops m v :
      contents_rel ops m -> (forall x, In x m -> cmp x v <> 0) -> contents_rel (ops ++ [ODelete v]) m
  | CR_search ops m v : contents_rel ops m -> contents_rel (ops ++ [OSearch v]) m
  | CR_get ops m i : contents_rel ops m -> contents_rel (ops ++ [OGet i]) m
  | CR_peek ops m : contents_rel ops m -> contents_rel (ops ++ [OPeek]) m
  | CR_len ops m : contents_rel ops m -> contents_rel (ops ++ [OLen]) m
  | CR_slice ops m : contents_rel ops m -> contents_rel (ops ++ [OAsSlice]) m
  | CR_perm ops m m' : contents_rel ops m -> Permutation m m' -> contents_rel ops m'.
End WithCmp.

Arguments nid {T}. Arguments nval {T}. Arguments nht {T}.
Arguments nodes {T}. Arguments level {T}. Arguments size {T}. Arguments nextid {T}. Arguments rep {T}.
Arguments empty {T}.
Arguments OInsert {T}. Arguments ODelete {T}. Arguments OSearch {T}. Arguments OGet {T}.
Arguments OPeek {T}. Arguments OLen {T}. Arguments OAsSlice {T}.
Arguments RUnit {T}. Arguments RBool {T}. Arguments RVal {T}. Arguments RLen {T}. Arguments RSlice {T}.

(* the comparator families of the correspondence check on values (key, tag): only the key is
   compared, so the tag distinguishes elements that compare equal *)
Definition cmp_asc (a b : Z * Z) : Z := Z.sgn (fst a - fst b).
Definition cmp_desc (a b : Z * Z) : Z := Z.sgn (fst b - fst a).
Definition cmp_mod3 (a b : Z * Z) : Z := (fst a mod 3) - (fst b mod 3).
Definition cmp_half (a b : Z * Z) : Z := (fst a / 2) - (fst b / 2).
