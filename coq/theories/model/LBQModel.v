(* Statement-granular interleaving model of /repo/queue/concurrent_linked_blocking_queue.go
   together with the broadcast condition `cond` of /repo/queue/delay_queue.go (C07, C09).

   One model step = one Go statement of Enqueue / Dequeue / Len / AsSlice, INCLUDING the
   statements of cond.signalCh (3) and cond.broadcast (5) they call; the program counters are the
   instrumenter's labels (table in ocaml/drv_lbq.ml).  Shared state:
     - the inner list.LinkedList as an abstract sequence [q_items] (only Len/Append/Delete(0)/
       AsSlice are used),
     - the RWMutex: exclusive owner [q_wlock] (Unlock clears it whoever calls it; unlocking an
       unlocked mutex is the run-time's fatal error and sets [q_bad]) and a reader count,
     - the two conds: their CURRENT channel is a generation number ([q_ne], [q_nf]; `make`
       yields the next generation) and the set of CLOSED generations is explicit
       ([q_nec], [q_nfc]): between `c.signal = signal` and `close(old)` the old generation is
       neither current nor closed; closing a closed channel is the run-time panic ([q_bad]).
   Nothing of C07/C09 is built in: the list length is compared with maxSize exactly as the code
   does (==), Delete(0) on an empty list yields the library's error, a thread that was woken
   still has to re-take the lock and re-check, "parked" is decided by the channel/closed/cancel
   state alone.

   Blocking: `c.mutex.Lock()` / `RLock()` are NOT enabled while the lock is taken (the lock-step
   controller never lets a goroutine block on the mutex); `select` really blocks: the thread is
   [PParked] and is moved on by the event that wakes it (the `close(old)` step of a broadcaster,
   or CANCEL).  When both cases of the select are ready the run-time chooses: [QStep] takes the
   signal case, [QStepCtx] the ctx.Done() case.

   Ghost part (never read by a transition): [q_hist], invocations, responses and MARKED
   linearisation steps, newest first.  Definitions only. *)
From Ekit Require Import Common Conc.
From Coq Require Import Arith PeanoNat.

Inductive lbq_op := OEnq (v : Z) | ODeq | OLen | OAsSlice.

Inductive lbq_res :=
| RNil                 (* Enqueue: nil *)
| RVal (v : Z)         (* Dequeue: (v, nil) *)
| RDelErr              (* Dequeue: (zero, index-out-of-range error of Delete(0)) *)
| RCtx                 (* Enqueue/Dequeue: ctx.Err() *)
| RLen (n : Z)
| RSlice (l : list Z)
| RPanic.              (* close of a closed channel *)

Inductive lbq_cond := CNotEmpty | CNotFull.

(* the cond a call WAITS on / BROADCASTS on *)
Definition wcond (o : lbq_op) : lbq_cond := match o with ODeq => CNotEmpty | _ => CNotFull end.
Definition bcond (o : lbq_op) : lbq_cond := match o with ODeq => CNotFull | _ => CNotEmpty end.
Definition is_qop (o : lbq_op) : bool := match o with OEnq _ | ODeq => true | _ => false end.

(* Enqueue and Dequeue have the same statement skeleton; the label of a pc depends on the op *)
Inductive lbq_pc :=
| PIf        (* if ctx.Err() != nil                                *)
| PRetErr0   (*     return ctx.Err()          [Dequeue: return t, ctx.Err()] *)
| PLock      (* c.mutex.Lock()                                     *)
| PFor       (* for c.maxSize > 0 && c.linkedlist.Len() == c.maxSize   [for c.linkedlist.Len() == 0] *)
| PSig       (*     signal := c.notFull.signalCh()                 [c.notEmpty.signalCh()] *)
| SRes       (*         cond.signalCh: res := c.signal             *)
| SUnlock    (*         cond.signalCh: c.l.Unlock()                *)
| SRet       (*         cond.signalCh: return res                  *)
| PSelect    (*     select {                                       *)
| PParked    (*         (blocked inside the select; not a yield point) *)
| PCaseCtx   (*     case <-ctx.Done():                             *)
| PRetErr1   (*         return ctx.Err()                           *)
| PCaseSig   (*     case <-signal:                                 *)
| PLock1     (*         c.mutex.Lock()   + re-evaluation of the loop condition *)
| PAct       (* err := c.linkedlist.Append(t)    [val, err := c.linkedlist.Delete(0)] *)
| PBcast     (* c.notEmpty.broadcast()           [c.notFull.broadcast()] *)
| BMake      (*     cond.broadcast: signal := make(chan struct{})  *)
| BOld       (*     cond.broadcast: old := c.signal                *)
| BSet       (*     cond.broadcast: c.signal = signal              *)
| BUnlock    (*     cond.broadcast: c.l.Unlock()                   *)
| BClose     (*     cond.broadcast: close(old)                     *)
| PRet       (* return err                       [return val, err] *)
(* Len / AsSlice *)
| RRLock     (* c.mutex.RLock()                                    *)
| RDefer     (* defer c.mutex.RUnlock()                            *)
| RBody      (* res := c.linkedlist.AsSlice()         (AsSlice only) *)
| RRet.      (* return c.linkedlist.Len()   [return res]   + the deferred RUnlock *)

Definition pc_eqb (a b : lbq_pc) : bool :=
  match a, b with
  | PIf, PIf | PRetErr0, PRetErr0 | PLock, PLock | PFor, PFor | PSig, PSig | SRes, SRes
  | SUnlock, SUnlock | SRet, SRet | PSelect, PSelect | PParked, PParked | PCaseCtx, PCaseCtx
  | PRetErr1, PRetErr1 | PCaseSig, PCaseSig | PLock1, PLock1 | PAct, PAct | PBcast, PBcast
  | BMake, BMake | BOld, BOld | BSet, BSet | BUnlock, BUnlock | BClose, BClose | PRet, PRet
  | RRLock, RRLock | RDefer, RDefer | RBody, RBody | RRet, RRet => true
  | _, _ => false
  end.

(* one call in flight: program counter + locals *)
Record lbq_loc := mkloc {
  l_op : lbq_op;
  l_pc : lbq_pc;
  l_cancel : bool;     (* the call's context is cancelled *)
  l_sig : nat;         (* signalCh's `res` = the caller's `signal`: generation fetched *)
  l_old : nat;         (* broadcast's `old` *)
  l_res : lbq_res      (* err / (val, err) / res: what the final return will deliver *)
}.

Definition set_pc (l : lbq_loc) (p : lbq_pc) : lbq_loc :=
  mkloc (l_op l) p (l_cancel l) (l_sig l) (l_old l) (l_res l).
Definition set_cancel (l : lbq_loc) : lbq_loc :=
  mkloc (l_op l) (l_pc l) true (l_sig l) (l_old l) (l_res l).
Definition set_sig (l : lbq_loc) (p : lbq_pc) (g : nat) : lbq_loc :=
  mkloc (l_op l) p (l_cancel l) g (l_old l) (l_res l).
Definition set_old (l : lbq_loc) (p : lbq_pc) (g : nat) : lbq_loc :=
  mkloc (l_op l) p (l_cancel l) (l_sig l) g (l_res l).
Definition set_res (l : lbq_loc) (p : lbq_pc) (r : lbq_res) : lbq_loc :=
  mkloc (l_op l) p (l_cancel l) (l_sig l) (l_old l) r.

Definition entry (o : lbq_op) : lbq_pc := if is_qop o then PIf else RRLock.
Definition new_loc (o : lbq_op) : lbq_loc := mkloc o (entry o) false O O RNil.

(* ---------- ghost history ---------- *)
Inductive lbq_hev :=
| HCall (t : tid) (o : lbq_op)
| HLin (t : tid) (o : lbq_op) (r : lbq_res)    (* marked linearisation step of t's current call *)
| HRet (t : tid) (r : lbq_res).

Record lbq_cfg := mkcfg {
  q_max : Z;                      (* maxSize *)
  q_items : list Z;               (* c.linkedlist, head first *)
  q_wlock : option tid;           (* RWMutex: write-locked (by whom: ghost, Unlock does not look at it) *)
  q_readers : nat;                (* RWMutex: read locks held *)
  q_ne : nat;                     (* notEmpty.signal: current generation *)
  q_nf : nat;                     (* notFull.signal *)
  q_nec : list nat;               (* closed generations of notEmpty *)
  q_nfc : list nat;               (* closed generations of notFull *)
  q_bad : bool;                   (* a fatal run-time error happened: unlock of an unlocked mutex, close of a closed channel *)
  q_thr : list (tid * lbq_loc);   (* calls in flight *)
  q_hist : list lbq_hev           (* ghost, NEWEST FIRST *)
}.

Definition lbq_init (maxSize : Z) : lbq_cfg :=
  mkcfg maxSize [] None O O O [] [] false [] [].

Definition set_thr c thr := mkcfg (q_max c) (q_items c) (q_wlock c) (q_readers c) (q_ne c) (q_nf c) (q_nec c) (q_nfc c) (q_bad c) thr (q_hist c).
Definition set_items c i := mkcfg (q_max c) i (q_wlock c) (q_readers c) (q_ne c) (q_nf c) (q_nec c) (q_nfc c) (q_bad c) (q_thr c) (q_hist c).
Definition set_wlock c w := mkcfg (q_max c) (q_items c) w (q_readers c) (q_ne c) (q_nf c) (q_nec c) (q_nfc c) (q_bad c) (q_thr c) (q_hist c).
Definition set_readers c r := mkcfg (q_max c) (q_items c) (q_wlock c) r (q_ne c) (q_nf c) (q_nec c) (q_nfc c) (q_bad c) (q_thr c) (q_hist c).
Definition set_bad c := mkcfg (q_max c) (q_items c) (q_wlock c) (q_readers c) (q_ne c) (q_nf c) (q_nec c) (q_nfc c) true (q_thr c) (q_hist c).
Definition add_hist c e := mkcfg (q_max c) (q_items c) (q_wlock c) (q_readers c) (q_ne c) (q_nf c) (q_nec c) (q_nfc c) (q_bad c) (q_thr c) (e :: q_hist c).

Definition cur (c : lbq_cfg) (k : lbq_cond) : nat := match k with CNotEmpty => q_ne c | CNotFull => q_nf c end.
Definition closed (c : lbq_cfg) (k : lbq_cond) : list nat := match k with CNotEmpty => q_nec c | CNotFull => q_nfc c end.
Definition set_cur c k g :=
  match k with
  | CNotEmpty => mkcfg (q_max c) (q_items c) (q_wlock c) (q_readers c) g (q_nf c) (q_nec c) (q_nfc c) (q_bad c) (q_thr c) (q_hist c)
  | CNotFull => mkcfg (q_max c) (q_items c) (q_wlock c) (q_readers c) (q_ne c) g (q_nec c) (q_nfc c) (q_bad c) (q_thr c) (q_hist c)
  end.
Definition add_closed c k g :=
  match k with
  | CNotEmpty => mkcfg (q_max c) (q_items c) (q_wlock c) (q_readers c) (q_ne c) (q_nf c) (g :: q_nec c) (q_nfc c) (q_bad c) (q_thr c) (q_hist c)
  | CNotFull => mkcfg (q_max c) (q_items c) (q_wlock c) (q_readers c) (q_ne c) (q_nf c) (q_nec c) (g :: q_nfc c) (q_bad c) (q_thr c) (q_hist c)
  end.

Definition mem (g : nat) (l : list nat) : bool := existsb (Nat.eqb g) l.
Definition cond_eqb (a b : lbq_cond) : bool :=
  match a, b with CNotEmpty, CNotEmpty | CNotFull, CNotFull => true | _, _ => false end.

Definition qlen (c : lbq_cfg) : Z := Z.of_nat (length (q_items c)).

(* ---------- events / observations ---------- *)
Inductive lbq_ev :=
| QCall (t : tid) (o : lbq_op)
| QStep (t : tid)        (* one statement; at a select with both cases ready: the signal case *)
| QStepCtx (t : tid)     (* the select statement taking the ready ctx.Done() case *)
| QCancel (t : tid).     (* cancel the context of t's current call *)

Inductive lbq_obs :=
| OAt (o : lbq_op) (p : lbq_pc)   (* arrival at the yield point (o, p) *)
| ORet (r : lbq_res).             (* the call returns / panics (RPanic) *)

Definition lbq_result := option (lbq_cfg * list (tid * lbq_obs)).

(* thread t continues with locals l' *)
Definition mv (c : lbq_cfg) (t : tid) (l' : lbq_loc) : lbq_result :=
  Some (set_thr c (update t l' (q_thr c)), [(t, OAt (l_op l') (l_pc l'))]).

(* thread t returns r *)
Definition fin (c : lbq_cfg) (t : tid) (r : lbq_res) : lbq_result :=
  Some (add_hist (set_thr c (remove t (q_thr c))) (HRet t r), [(t, ORet r)]).

(* c.l.Unlock() *)
Definition unlock (c : lbq_cfg) : lbq_cfg :=
  match q_wlock c with
  | Some _ => set_wlock c None
  | None => set_bad c
  end.

(* c.mutex.RUnlock() *)
Definition runlock (c : lbq_cfg) : lbq_cfg :=
  match q_readers c with
  | S n => set_readers c n
  | O => set_bad c
  end.

(* close(ch k g): every thread parked in a select on that channel takes `case <-signal:` *)
Definition woken (k : lbq_cond) (g : nat) (l : lbq_loc) : bool :=
  pc_eqb (l_pc l) PParked && cond_eqb (wcond (l_op l)) k && Nat.eqb (l_sig l) g.
Definition wake1 (k : lbq_cond) (g : nat) (l : lbq_loc) : lbq_loc :=
  if woken k g l then set_pc l PCaseSig else l.
Fixpoint wake_all (k : lbq_cond) (g : nat) (thr : list (tid * lbq_loc)) : list (tid * lbq_loc) :=
  match thr with
  | [] => []
  | (t, l) :: r => (t, wake1 k g l) :: wake_all k g r
  end.
Fixpoint woken_obs (k : lbq_cond) (g : nat) (thr : list (tid * lbq_loc)) : list (tid * lbq_obs) :=
  match thr with
  | [] => []
  | (t, l) :: r => (if woken k g l then [(t, OAt (l_op l) PCaseSig)] else []) ++ woken_obs k g r
  end.

(* the loop condition: true = must wait *)
Definition must_wait (c : lbq_cfg) (o : lbq_op) : bool :=
  match o with
  | ODeq => qlen c =? 0
  | _ => (0 <? q_max c) && (qlen c =? q_max c)
  end.

(* one statement of an Enqueue / Dequeue *)
Definition step_q (c : lbq_cfg) (t : tid) (l : lbq_loc) : lbq_result :=
  let o := l_op l in
  match l_pc l with
  | PIf => mv c t (set_pc l (if l_cancel l then PRetErr0 else PLock))
  | PRetErr0 => fin c t RCtx
  | PLock =>
    match q_wlock c, q_readers c with
    | None, O => mv (set_wlock c (Some t)) t (set_pc l PFor)
    | _, _ => None
    end
  | PLock1 =>
    (* the re-evaluation of the loop condition has no yield point of its own (the instrumenter
       labels a `for` once, before the loop): Lock + re-check are one step; the re-check reads
       only state protected by the lock just taken *)
    match q_wlock c, q_readers c with
    | None, O => mv (set_wlock c (Some t)) t (set_pc l (if must_wait c o then PSig else PAct))
    | _, _ => None
    end
  | PFor => mv c t (set_pc l (if must_wait c o then PSig else PAct))
  | PSig => mv c t (set_pc l SRes)
  | SRes => mv c t (set_sig l SUnlock (cur c (wcond o)))
  | SUnlock => mv (unlock c) t (set_pc l SRet)
  | SRet => mv c t (set_pc l PSelect)
  | PSelect =>
    if mem (l_sig l) (closed c (wcond o)) then mv c t (set_pc l PCaseSig)
    else if l_cancel l then mv c t (set_pc l PCaseCtx)
    else Some (set_thr c (update t (set_pc l PParked) (q_thr c)), [])
  | PParked => None
  | PCaseCtx => mv c t (set_pc l PRetErr1)
  | PRetErr1 => fin c t RCtx
  | PCaseSig => mv c t (set_pc l PLock1)
  | PAct =>
    match o with
    | OEnq v =>
      mv (add_hist (set_items c (q_items c ++ [v])) (HLin t o RNil)) t (set_res l PBcast RNil)
    | _ =>
      match q_items c with
      | [] => mv (add_hist c (HLin t o RDelErr)) t (set_res l PBcast RDelErr)
      | x :: r => mv (add_hist (set_items c r) (HLin t o (RVal x))) t (set_res l PBcast (RVal x))
      end
    end
  | PBcast => mv c t (set_pc l BMake)
  | BMake => mv c t (set_pc l BOld)
  | BOld => mv c t (set_old l BSet (cur c (bcond o)))
  | BSet => mv (set_cur c (bcond o) (S (cur c (bcond o)))) t (set_pc l BUnlock)
  | BUnlock => mv (unlock c) t (set_pc l BClose)
  | BClose =>
    let k := bcond o in
    if mem (l_old l) (closed c k) then
      Some (add_hist (set_bad (set_thr c (remove t (q_thr c)))) (HRet t RPanic), [(t, ORet RPanic)])
    else
      let thr1 := update t (set_pc l PRet) (q_thr c) in
      Some (set_thr (add_closed c k (l_old l)) (wake_all k (l_old l) thr1),
            (t, OAt o PRet) :: woken_obs k (l_old l) thr1)
  | PRet => fin c t (l_res l)
  | _ => None
  end.

(* one statement of a Len / AsSlice *)
Definition step_r (c : lbq_cfg) (t : tid) (l : lbq_loc) : lbq_result :=
  let o := l_op l in
  match l_pc l with
  | RRLock =>
    match q_wlock c with
    | None => mv (set_readers c (S (q_readers c))) t (set_pc l RDefer)
    | Some _ => None
    end
  | RDefer => mv c t (set_pc l (match o with OLen => RRet | _ => RBody end))
  | RBody =>
    match o with
    | OAsSlice => mv (add_hist c (HLin t o (RSlice (q_items c)))) t (set_res l RRet (RSlice (q_items c)))
    | _ => None
    end
  | RRet =>
    match o with
    | OLen => fin (add_hist (runlock c) (HLin t o (RLen (qlen c)))) t (RLen (qlen c))
    | _ => fin (runlock c) t (l_res l)
    end
  | _ => None
  end.

Definition lbq_exec1 (c : lbq_cfg) (e : lbq_ev) : lbq_result :=
  match e with
  | QCall t o =>
    match lookup t (q_thr c) with
    | Some _ => None
    | None => Some (add_hist (set_thr c (spawn t (new_loc o) (q_thr c))) (HCall t o), [(t, OAt o (entry o))])
    end
  | QStep t =>
    match lookup t (q_thr c) with
    | None => None
    | Some l => if is_qop (l_op l) then step_q c t l else step_r c t l
    end
  | QStepCtx t =>
    match lookup t (q_thr c) with
    | None => None
    | Some l =>
      if is_qop (l_op l) && pc_eqb (l_pc l) PSelect && l_cancel l
      then mv c t (set_pc l PCaseCtx) else None
    end
  | QCancel t =>
    match lookup t (q_thr c) with
    | None => None
    | Some l =>
      if l_cancel l then None
      else if pc_eqb (l_pc l) PParked
      then mv c t (set_pc (set_cancel l) PCaseCtx)
      else Some (set_thr c (update t (set_cancel l) (q_thr c)), [])
    end
  end.

Definition lbq_step (c : lbq_cfg) (e : lbq_ev) : option lbq_cfg :=
  match lbq_exec1 c e with Some (c', _) => Some c' | None => None end.

Definition ev_tid (e : lbq_ev) : tid :=
  match e with QCall t _ | QStep t | QStepCtx t | QCancel t => t end.

(* ---------- the sequential specification: bounded blocking FIFO ---------- *)
(* None = the operation is not enabled in the specification (it blocks) *)
Definition lbq_spec (max : Z) (o : lbq_op) (q : list Z) : option (list Z * lbq_res) :=
  match o with
  | OEnq v => if (0 <? max) && (max <=? Z.of_nat (length q)) then None else Some (q ++ [v], RNil)
  | ODeq => match q with [] => None | x :: r => Some (r, RVal x) end
  | OLen => Some (q, RLen (Z.of_nat (length q)))
  | OAsSlice => Some (q, RSlice q)
  end.

Definition op_eqb (a b : lbq_op) : bool :=
  match a, b with
  | OEnq x, OEnq y => Z.eqb x y
  | ODeq, ODeq | OLen, OLen | OAsSlice, OAsSlice => true
  | _, _ => false
  end.
Fixpoint zlist_eqb (a b : list Z) : bool :=
  match a, b with
  | [], [] => true
  | x :: r, y :: s => Z.eqb x y && zlist_eqb r s
  | _, _ => false
  end.
Definition res_eqb (a b : lbq_res) : bool :=
  match a, b with
  | RNil, RNil | RDelErr, RDelErr | RCtx, RCtx | RPanic, RPanic => true
  | RVal x, RVal y => Z.eqb x y
  | RLen x, RLen y => Z.eqb x y
  | RSlice x, RSlice y => zlist_eqb x y
  | _, _ => false
  end.

(* the marked steps, oldest first, replayed through the specification from the empty queue:
   Some q = every marked step was enabled in the specification and carries the specification's
   result; q = the abstract queue at the end *)
Fixpoint lin_run (max : Z) (h : list lbq_hev) : option (list Z) :=
  match h with
  | [] => Some []
  | e :: h' =>
    match lin_run max h' with
    | None => None
    | Some q =>
      match e with
      | HLin _ o r =>
        match lbq_spec max o q with
        | Some (q', r') => if res_eqb r r' then Some q' else None
        | None => None
        end
      | _ => Some q
      end
    end
  end.

(* where thread t stands in  ( Call o . Lin o r . Ret r  |  Call o . Ret ctx-error )*  *)
Inductive lbq_phase := PhIdle | PhCalled (o : lbq_op) | PhLin (o : lbq_op) (r : lbq_res).

Definition hev_tid (e : lbq_hev) : tid :=
  match e with HCall t _ | HLin t _ _ | HRet t _ => t end.

Definition advance (p : lbq_phase) (e : lbq_hev) : option lbq_phase :=
  match p, e with
  | PhIdle, HCall _ o => Some (PhCalled o)
  | PhCalled o, HLin _ o' r => if op_eqb o o' then Some (PhLin o r) else None
  | PhLin _ r, HRet _ r' => if res_eqb r r' then Some PhIdle else None
  | PhCalled o, HRet _ RCtx => if is_qop o then Some PhIdle else None     (* context error: no marked step *)
  | _, _ => None
  end.

(* None = the projection of h on t is not of that shape *)
Fixpoint phase (t : tid) (h : list lbq_hev) : option lbq_phase :=
  match h with
  | [] => Some PhIdle
  | e :: h' =>
    match phase t h' with
    | None => None
    | Some p => if Nat.eqb (hev_tid e) t then advance p e else Some p
    end
  end.

(* the values of the marked Enqueue / Dequeue steps, oldest first *)
Fixpoint lin_enqs (h : list lbq_hev) : list Z :=
  match h with
  | [] => []
  | HLin _ (OEnq v) _ :: h' => lin_enqs h' ++ [v]
  | _ :: h' => lin_enqs h'
  end.
Fixpoint lin_deqs (h : list lbq_hev) : list Z :=
  match h with
  | [] => []
  | HLin _ ODeq (RVal v) :: h' => lin_deqs h' ++ [v]
  | _ :: h' => lin_deqs h'
  end.

(* has the call passed its linearisation point? (where a thread stands, read off its pc) *)
Definition after_lin (o : lbq_op) (p : lbq_pc) : bool :=
  match p with
  | PBcast | BMake | BOld | BSet | BUnlock | BClose | PRet => true
  | RRet => match o with OAsSlice => true | _ => false end
  | _ => false
  end.
Definition phase_of (l : lbq_loc) : lbq_phase :=
  if after_lin (l_op l) (l_pc l) then PhLin (l_op l) (l_res l) else PhCalled (l_op l).

(* critical sections, read off the pc *)
Definition in_cs (p : lbq_pc) : bool :=
  match p with
  | PFor | PSig | SRes | SUnlock | PAct | PBcast | BMake | BOld | BSet | BUnlock => true
  | _ => false
  end.
Definition in_rcs (p : lbq_pc) : bool :=
  match p with RDefer | RBody | RRet => true | _ => false end.

(* executable summary used by the lock-step driver's final check (a test, not the proof) *)
Definition lbq_hist_ok (c : lbq_cfg) : bool :=
  match lin_run (q_max c) (q_hist c) with
  | None => false
  | Some q =>
    zlist_eqb q (q_items c)
    && forallb (fun e => match phase (hev_tid e) (q_hist c) with Some _ => true | None => false end) (q_hist c)
    && negb (q_bad c)
    && ((q_max c <=? 0) || (qlen c <=? q_max c))
  end.

(* is a STEP of thread t enabled? *)
Definition step_enabled (c : lbq_cfg) (t : tid) : bool :=
  match lbq_exec1 c (QStep t) with Some _ => true | None => false end.

(* a whole Enqueue executed alone from a configuration (no interleaving), at most [fuel] steps:
   Some (c', Some r) = returned r; Some (c', None) = did not return within fuel (parked) *)
Fixpoint run_alone (fuel : nat) (c : lbq_cfg) (t : tid) : option (lbq_cfg * option lbq_res) :=
  match fuel with
  | O => Some (c, None)
  | S f =>
    match lbq_exec1 c (QStep t) with
    | None => Some (c, None)
    | Some (c', obs) =>
      match lookup t (q_thr c') with
      | None => Some (c', match obs with (_, ORet r) :: _ => Some r | _ => None end)
      | Some _ => run_alone f c' t
      end
    end
  end.
Definition call_alone (c : lbq_cfg) (t : tid) (o : lbq_op) : option (lbq_cfg * option lbq_res) :=
  match lbq_step c (QCall t o) with
  | None => None
  | Some c1 => run_alone 40 c1 t
  end.

(* ---------- predicates the theorems are stated with (read off the program counters) ---------- *)
(* ---------- the shape of a thread: operation and pc fit together ---------- *)
Definition pc_ok (o : lbq_op) (p : lbq_pc) : bool :=
  match p with
  | RRLock | RDefer | RRet => negb (is_qop o)
  | RBody => match o with OAsSlice => true | _ => false end
  | _ => is_qop o
  end.


Definition wait_pc (p : lbq_pc) : bool :=
  match p with PSig | SRes | SUnlock => true | _ => false end.
Definition wait_region (p : lbq_pc) : bool :=
  match p with
  | PSig | SRes | SUnlock | SRet | PSelect | PParked | PCaseCtx | PRetErr1 | PCaseSig | PLock1 => true
  | _ => false
  end.


Definition pending (p : lbq_pc) : bool := match p with BUnlock | BClose => true | _ => false end.

Definition fetched (p : lbq_pc) : bool :=
  match p with SUnlock | SRet | PSelect | PParked => true | _ => false end.
Definition post_act (p : lbq_pc) : bool :=
  match p with PBcast | BMake | BOld | BSet => true | _ => false end.

(* some broadcaster on cond k is between its swap and its close(old) with old = g *)
Definition closing (c : lbq_cfg) (k : lbq_cond) (g : nat) : Prop :=
  exists b lb, lookup b (q_thr c) = Some lb /\ pending (l_pc lb) = true /\
               bcond (l_op lb) = k /\ l_old lb = g.
(* some call has changed the list and not yet swapped the channel of cond k *)
Definition swapping (c : lbq_cfg) (k : lbq_cond) : Prop :=
  exists b lb, lookup b (q_thr c) = Some lb /\ post_act (l_pc lb) = true /\ bcond (l_op lb) = k.

Definition sig_live (c : lbq_cfg) (l : lbq_loc) : Prop :=
  l_sig l = cur c (wcond (l_op l)) \/
  mem (l_sig l) (closed c (wcond (l_op l))) = true \/
  closing c (wcond (l_op l)) (l_sig l).


Definition cur_phase (c : lbq_cfg) (t : tid) : lbq_phase :=
  match lookup t (q_thr c) with None => PhIdle | Some l => phase_of l end.


Definition blocked (c : lbq_cfg) (l : lbq_loc) : Prop :=
  l_pc l = PParked \/
  ((l_pc l = PLock \/ l_pc l = PLock1) /\ (q_wlock c <> None \/ q_readers c <> O)) \/
  (l_pc l = RRLock /\ q_wlock c <> None).


(* ---------- helpers for concrete schedules (examples, driver self-tests) ---------- *)
Definition lbq_steps (t : tid) (n : nat) : list lbq_ev := repeat (QStep t) n.
Definition lbq_run (m : Z) (evs : list lbq_ev) : option lbq_cfg := exec lbq_step (lbq_init m) evs.
(* the observations of event e after the schedule evs *)
Definition lbq_obs_of (m : Z) (evs : list lbq_ev) (e : lbq_ev) : option (list (tid * lbq_obs)) :=
  match lbq_run m evs with
  | Some c => match lbq_exec1 c e with Some (_, o) => Some o | None => None end
  | None => None
  end.
(* (list, mutex owner, readers, (notEmpty generation, closed), (notFull generation, closed), [(tid, pc, fetched generation)]) *)
Definition lbq_summary (c : lbq_cfg) :=
  (q_items c, q_wlock c, q_readers c, (q_ne c, q_nec c), (q_nf c, q_nfc c),
   map (fun p => (fst p, l_pc (snd p), l_sig (snd p))) (q_thr c)).
