(* Abstract specification shared by C03 (hash backing) and C01 (tree backing):
   an association list keyed UP TO a user-supplied equality `eqb`, kept in
   FIRST-INSERTION order.  The first inserted representative of a key class
   stays stored; Put of an existing class replaces only the value (this is what
   HashMap.Put / TreeMap.Put / LinkedMap.Put do: `root.value = val`).
   Because aput appends a new class at the end and adel removes in place, the
   same list is also the specification of the insertion-ordered (linked) map.
   Definitions only; lemmas are in proof/DecorSpecProof.v. *)
From Ekit Require Import Common.
From Coq Require Export Permutation.

(* ---- operations and observables of the `mapi` interface (mapx/types.go) ---- *)
(* `ch` on Put is the node-pool oracle of the hash backing (which pooled node
   sync.Pool hands out, None = a fresh one); every other backing and the
   specification ignore it. *)
Inductive mop (V : Type) :=
| MPut (k : Z) (v : V) (ch : option nat)
| MGet (k : Z)
| MDelete (k : Z)
| MKeys
| MValues
| MLen.
Arguments MPut {V} k v ch.
Arguments MGet {V} k.
Arguments MDelete {V} k.
Arguments MKeys {V}.
Arguments MValues {V}.
Arguments MLen {V}.

Inductive mout (V : Type) :=
| RPut (o : outcome unit)          (* the error result of Put (always nil) / a run-time panic *)
| RFound (v : V) (ok : bool)       (* Get / Delete: (value or zero value, found) *)
| RKeys (l : list Z)
| RVals (l : list V)
| RLen (n : Z)
| ROutOfFuel.                      (* a fuel-bounded loop of a model ran out (excluded by theorem) *)
Arguments RPut {V} o.
Arguments RFound {V} v ok.
Arguments RKeys {V} l.
Arguments RVals {V} l.
Arguments RLen {V} n.
Arguments ROutOfFuel {V}.

(* equality of observables; enumeration order is unspecified for hash / builtin maps *)
Definition out_equiv {V} (a b : mout V) : Prop :=
  match a, b with
  | RKeys l1, RKeys l2 => Permutation l1 l2
  | RVals l1, RVals l2 => Permutation l1 l2
  | _, _ => a = b
  end.

(* generic run of a state-passing step function: final state and outputs *)
Fixpoint run {S O R : Type} (step : S -> O -> S * R) (s : S) (ops : list O) : S * list R :=
  match ops with
  | [] => (s, [])
  | o :: t => let (s1, r) := step s o in
              let (s2, rs) := run step s1 t in (s2, r :: rs)
  end.

Section AbsMap.
  Variable V : Type.
  Variable vzero : V.                (* Go's zero value of ValType *)
  Variable eqb : Z -> Z -> bool.     (* user-supplied Equals / comparator = 0 *)

  Definition amap := list (Z * V).

  Fixpoint aget (k : Z) (a : amap) : option V :=
    match a with
    | [] => None
    | (k', v) :: t => if eqb k' k then Some v else aget k t
    end.

  Fixpoint aput (k : Z) (v : V) (a : amap) : amap :=
    match a with
    | [] => [(k, v)]
    | (k', v') :: t => if eqb k' k then (k', v) :: t else (k', v') :: aput k v t
    end.

  Fixpoint adel (k : Z) (a : amap) : amap :=
    match a with
    | [] => []
    | (k', v') :: t => if eqb k' k then t else (k', v') :: adel k t
    end.

  Definition afound (k : Z) (a : amap) : V * bool :=
    match aget k a with Some v => (v, true) | None => (vzero, false) end.

  Definition astep (a : amap) (o : mop V) : amap * mout V :=
    match o with
    | MPut k v _ => (aput k v a, RPut (Ok tt))
    | MGet k => let (v, ok) := afound k a in (a, RFound v ok)
    | MDelete k => let (v, ok) := afound k a in (adel k a, RFound v ok)
    | MKeys => (a, RKeys (map fst a))
    | MValues => (a, RVals (map snd a))
    | MLen => (a, RLen (Z.of_nat (length a)))
    end.

  (* keys pairwise different up to eqb *)
  Fixpoint distinct (a : amap) : Prop :=
    match a with
    | [] => True
    | (k, _) :: t => Forall (fun e => eqb k (fst e) = false) t /\ distinct t
    end.
End AbsMap.
Arguments aget {V} eqb k a.
Arguments aput {V} eqb k v a.
Arguments adel {V} eqb k a.
Arguments afound {V} vzero eqb k a.
Arguments astep {V} vzero eqb a o.
Arguments distinct {V} eqb a.

(* the laws the property assumes of the user-supplied functions *)
Definition eqb_equivalence (eqb : Z -> Z -> bool) : Prop :=
  (forall a, eqb a a = true) /\
  (forall a b, eqb a b = true -> eqb b a = true) /\
  (forall a b c, eqb a b = true -> eqb b c = true -> eqb a c = true).
Definition hash_consistent (code : Z -> Z) (eqb : Z -> Z -> bool) : Prop :=
  forall a b, eqb a b = true -> code a = code b.

(* ---- an implementation of `mapi[K, U]` seen from a decorator ---- *)
Record backing (M U : Type) := {
  mput : Z -> U -> option nat -> M -> M;
  mget : Z -> M -> U * bool;
  mdel : Z -> M -> M * (U * bool);
  mkeys : M -> list Z;
  mvals : M -> list U;
  mlen : M -> Z;
}.
Arguments mput {M U} b.
Arguments mget {M U} b.
Arguments mdel {M U} b.
Arguments mkeys {M U} b.
Arguments mvals {M U} b.
Arguments mlen {M U} b.

(* "B behaves like the abstract map": a simulation R between B's states and
   abstract maps.  This is the assumption of the decorator theorems; it is
   discharged by hash_backing_refines (C03) and by C01's theorem for the tree. *)
Record backing_refines {M U : Type} (uzero : U) (eqb : Z -> Z -> bool)
       (B : backing M U) (R : M -> list (Z * U) -> Prop) : Prop := {
  br_put : forall m a k u ch, R m a -> R (mput B k u ch m) (aput eqb k u a);
  br_get : forall m a k, R m a -> mget B k m = afound uzero eqb k a;
  br_del : forall m a k, R m a ->
           R (fst (mdel B k m)) (adel eqb k a) /\ snd (mdel B k m) = afound uzero eqb k a;
  br_keys : forall m a, R m a -> Permutation (mkeys B m) (map fst a);
  br_vals : forall m a, R m a -> Permutation (mvals B m) (map snd a);
  br_len : forall m a, R m a -> mlen B m = Z.of_nat (length a);
  br_distinct : forall m a, R m a -> distinct eqb a;
}.

(* the abstract map is itself a backing (used to run the decorators over a
   trusted / separately verified map: Go's builtin map, C01's tree map) *)
Definition abs_backing {U : Type} (uzero : U) (eqb : Z -> Z -> bool) : backing (list (Z * U)) U := {|
  mput := fun k u _ a => aput eqb k u a;
  mget := fun k a => afound uzero eqb k a;
  mdel := fun k a => (adel eqb k a, afound uzero eqb k a);
  mkeys := fun a => map fst a;
  mvals := fun a => map snd a;
  mlen := fun a => Z.of_nat (length a);
|}.

(* ---- the concrete Code / Equals families used by the harness ---- *)
Definition eqb_exact (a b : Z) : bool := Z.eqb a b.
Definition code_mod (m : Z) (k : Z) : Z := k mod m.
Definition eqb_half (a b : Z) : bool := Z.eqb (a / 2) (b / 2).
Definition code_half (m : Z) (k : Z) : Z := (k / 2) mod m.
