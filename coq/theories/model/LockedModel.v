(* C06 (lock-based containers) — definitions only.

   1. [Section LinSys]: a small framework for statement-granular interleaving models that carry
      their own linearisation points.  A model gives, per thread, a step function
        tstep : shared -> op -> pc -> option (shared * next)
      ([None] = the statement is not enabled, e.g. [mu.Lock()] while the mutex is held); [next]
      says where the thread goes and whether the statement is the call's LINEARISATION POINT
      ([NLin]/[NLinRet]) and/or its return ([NRet]/[NLinRet]).  The framework keeps the thread
      table and a ghost HISTORY of invocation / linearisation / response events; the theorems
      (proof/LockedProof.v) are about that history:
        [seq_legal]   the linearisation events, in the order they happened, form a legal
                      sequential execution of the specification [seq_step] from the initial
                      abstract state to the current one (with the recorded results);
        [thread_hist] per thread the history is  (Call . Lin . Ret)* . [Call . [Lin]]  with the same
                      operation and the same result in Lin and Ret: every completed call has
                      exactly one linearisation step between its invocation and its response
                      and returns that step's result.
   2. [Section LockedObj]: the program shape of queue.ConcurrentPriorityQueue and
      list.ConcurrentList,   m.Lock()/m.RLock() ; defer m.Unlock()/m.RUnlock() ; return inner.Op(args)
      over an ARBITRARY sequential object.  The inner operation is deliberately NOT atomic in the
      model (it reads the inner state, then writes the successor state back in a second
      micro-step): that it appears atomic is what the locks have to provide, and is proved only
      under the side condition "mutating operations take the exclusive lock".
      sync.RWMutex is a trusted specification: Lock is enabled iff no writer and no reader holds
      it, RLock iff no writer holds it (writer preference only removes behaviours).
   3. The abstract sequential specifications used as inner objects: a sorted multiset of Z with a
      capacity (priority queue with the natural order; Dequeue returns the minimum), a sequence of Z
      (list.List), and the instantiation tables: which lock each method of the CODE takes. *)
From Ekit Require Import Common Conc.
From Coq Require Import Arith PeanoNat.

(* ------------------------------------------------------------------------------------------ *)
Section LinSys.
  Variables (state op ret : Type).
  Variable seq_step : state -> op -> state * ret.

  Inductive hev :=
  | HCall (t : tid) (o : op)
  | HLin (t : tid) (o : op) (r : ret)
  | HRet (t : tid) (o : op) (r : ret).

  Definition hev_tid (e : hev) : tid :=
    match e with HCall t _ => t | HLin t _ _ => t | HRet t _ _ => t end.

  Inductive phase :=
  | PhIdle                          (* no call in flight *)
  | PhCalled (o : op)               (* invoked, not yet linearised *)
  | PhLinned (o : op) (r : ret).    (* linearised with result r, not yet returned *)

  (* the linearisation events of a history, in order *)
  Fixpoint lin_ops (h : list hev) : list (op * ret) :=
    match h with
    | [] => []
    | HLin _ o r :: h' => (o, r) :: lin_ops h'
    | _ :: h' => lin_ops h'
    end.

  (* a legal sequential execution of the specification from s to s' with these results *)
  Fixpoint seq_legal (s : state) (l : list (op * ret)) (s' : state) : Prop :=
    match l with
    | [] => s' = s
    | (o, r) :: l' => snd (seq_step s o) = r /\ seq_legal (fst (seq_step s o)) l' s'
    end.

  (* the events of thread t in a history follow Call.Lin.Ret, same op, same result *)
  Inductive thread_hist (t : tid) : list hev -> phase -> Prop :=
  | th_nil : thread_hist t [] PhIdle
  | th_other h ph e : thread_hist t h ph -> hev_tid e <> t -> thread_hist t (h ++ [e]) ph
  | th_call h o : thread_hist t h PhIdle -> thread_hist t (h ++ [HCall t o]) (PhCalled o)
  | th_lin h o r : thread_hist t h (PhCalled o) -> thread_hist t (h ++ [HLin t o r]) (PhLinned o r)
  | th_ret h o r : thread_hist t h (PhLinned o r) -> thread_hist t (h ++ [HRet t o r]) PhIdle.

  Variables (shared pc : Type).

  Inductive next :=
  | NPc (p : pc)                    (* ordinary statement *)
  | NLin (p : pc) (r : ret)         (* linearisation point; r = the specification's result *)
  | NRet (r : ret)                  (* the call returns r *)
  | NLinRet (r : ret)               (* linearisation point and return in one statement *)
  | NPanic.                         (* run-time panic (deferred calls have run) *)

  Variable entry : op -> pc.                                      (* first statement of the method *)
  Variable tstep : shared -> op -> pc -> option (shared * next).

  Record sys_cfg := { s_sh : shared; s_thr : list (tid * (op * pc)); s_hist : list hev }.

  Definition sys_init (s : shared) : sys_cfg := {| s_sh := s; s_thr := []; s_hist := [] |}.

  Inductive sys_ev := ECall (t : tid) (o : op) | EStep (t : tid).
  Inductive sys_obs := OAt (o : op) (p : pc) | ORet (r : ret) | OPanic.

  Definition sys_exec1 (c : sys_cfg) (e : sys_ev) : option (sys_cfg * sys_obs) :=
    match e with
    | ECall t o =>
      match lookup t (s_thr c) with
      | Some _ => None
      | None => Some ({| s_sh := s_sh c; s_thr := spawn t (o, entry o) (s_thr c);
                         s_hist := s_hist c ++ [HCall t o] |}, OAt o (entry o))
      end
    | EStep t =>
      match lookup t (s_thr c) with
      | None => None
      | Some (o, p) =>
        match tstep (s_sh c) o p with
        | None => None
        | Some (s', NPc p') =>
          Some ({| s_sh := s'; s_thr := update t (o, p') (s_thr c); s_hist := s_hist c |}, OAt o p')
        | Some (s', NLin p' r) =>
          Some ({| s_sh := s'; s_thr := update t (o, p') (s_thr c);
                   s_hist := s_hist c ++ [HLin t o r] |}, OAt o p')
        | Some (s', NRet r) =>
          Some ({| s_sh := s'; s_thr := remove t (s_thr c);
                   s_hist := s_hist c ++ [HRet t o r] |}, ORet r)
        | Some (s', NLinRet r) =>
          Some ({| s_sh := s'; s_thr := remove t (s_thr c);
                   s_hist := (s_hist c ++ [HLin t o r]) ++ [HRet t o r] |}, ORet r)
        | Some (s', NPanic) =>
          Some ({| s_sh := s'; s_thr := remove t (s_thr c); s_hist := s_hist c |}, OPanic)
        end
      end
    end.

  Definition sys_step (c : sys_cfg) (e : sys_ev) : option sys_cfg :=
    match sys_exec1 c e with Some (c', _) => Some c' | None => None end.

  (* the phase a thread-table entry stands for, given the model's annotation of its pcs *)
  Variable phase_of : op -> pc -> phase.
  Definition entry_phase (x : option (op * pc)) : phase :=
    match x with None => PhIdle | Some (o, p) => phase_of o p end.
End LinSys.

Arguments HCall {op ret}. Arguments HLin {op ret}. Arguments HRet {op ret}.
Arguments hev_tid {op ret}.
Arguments PhIdle {op ret}. Arguments PhCalled {op ret}. Arguments PhLinned {op ret}.
Arguments lin_ops {op ret}.
Arguments seq_legal {state op ret}.
Arguments thread_hist {op ret}.
Arguments NPc {ret pc}. Arguments NLin {ret pc}. Arguments NRet {ret pc}.
Arguments NLinRet {ret pc}. Arguments NPanic {ret pc}.
Arguments s_sh {op ret shared pc}. Arguments s_thr {op ret shared pc}. Arguments s_hist {op ret shared pc}.
Arguments sys_init {op ret shared pc}.
Arguments ECall {op}. Arguments EStep {op}.
Arguments OAt {op ret pc}. Arguments ORet {op ret pc}. Arguments OPanic {op ret pc}.
Arguments sys_exec1 {op ret shared pc}.
Arguments sys_step {op ret shared pc}.
Arguments entry_phase {op ret pc}.

(* ------------------------------------------------------------------------------------------ *)
Section LockedObj.
  Variables (state op ret : Type).
  Variable seq_step : state -> op -> state * ret.
  Variable excl : op -> bool.       (* the lock the CODE of the method takes: true = Lock, false = RLock *)

  Record lk_shared := { lk_st : state; lk_w : bool; lk_r : nat }.

  Inductive lk_pc :=
  | PLock                 (* c.m.Lock() / c.m.RLock() *)
  | PDefer                (* defer c.m.Unlock() / defer c.m.RUnlock() *)
  | PBody                 (* return c.inner.Op(args): about to read the inner state *)
  | PMid (s0 : state).    (* ... inside that statement: s0 was read, successor not yet written *)

  Definition lk_entry (_ : op) : lk_pc := PLock.

  Definition lk_tstep (s : lk_shared) (o : op) (p : lk_pc) : option (lk_shared * next ret lk_pc) :=
    match p with
    | PLock =>
      if excl o then
        if lk_w s || negb (Nat.eqb (lk_r s) 0) then None
        else Some ({| lk_st := lk_st s; lk_w := true; lk_r := lk_r s |}, NPc PDefer)
      else
        if lk_w s then None
        else Some ({| lk_st := lk_st s; lk_w := lk_w s; lk_r := S (lk_r s) |}, NPc PDefer)
    | PDefer => Some (s, NPc PBody)
    | PBody => Some (s, NPc (PMid (lk_st s)))
    | PMid s0 =>
      (* write the successor of the state that was READ, return, run the deferred unlock *)
      Some ({| lk_st := fst (seq_step s0 o);
               lk_w := if excl o then false else lk_w s;
               lk_r := if excl o then lk_r s else pred (lk_r s) |}, NLinRet (snd (seq_step s0 o)))
    end.

  Definition lk_init (s0 : state) : lk_shared := {| lk_st := s0; lk_w := false; lk_r := 0 |}.

  Definition lk_phase (o : op) (_ : lk_pc) : phase op ret := PhCalled o.

  (* inside a write-locked / read-locked section *)
  Definition lk_in_w (x : op * lk_pc) : bool :=
    match x with (o, PLock) => false | (o, _) => excl o end.
  Definition lk_in_r (x : op * lk_pc) : bool :=
    match x with (o, PLock) => false | (o, _) => negb (excl o) end.

  Definition lk_exec1 := sys_exec1 lk_entry lk_tstep.
  Definition lk_step := sys_step lk_entry lk_tstep.
End LockedObj.

Arguments lk_st {state}. Arguments lk_w {state}. Arguments lk_r {state}.
Arguments PLock {state}. Arguments PDefer {state}. Arguments PBody {state}. Arguments PMid {state}.
Arguments lk_entry {state op}.
Arguments lk_tstep {state op ret}.
Arguments lk_init {state}.
Arguments lk_phase {state op ret}.
Arguments lk_in_w {state op}. Arguments lk_in_r {state op}.
Arguments lk_exec1 {state op ret}.
Arguments lk_step {state op ret}.

(* ------------------------------------------------------------------------------------------ *)
(* Sequential specification of the priority queue (internal/queue.PriorityQueue with the natural
   order on Z): a capacity (0 = unbounded) and the multiset of elements kept as an ascending list. *)
Inductive pq_op := PQLen | PQCap | PQPeek | PQEnqueue (v : Z) | PQDequeue.
Inductive pq_ret := PRInt (n : Z) | PRVal (o : outcome Z) | PRErr (o : outcome unit).
Record pq_state := { pq_cap : Z; pq_items : list Z }.

Fixpoint insert_sorted (v : Z) (l : list Z) : list Z :=
  match l with
  | [] => [v]
  | x :: r => if v <? x then v :: l else x :: insert_sorted v r
  end.

(* NewPriorityQueue(capacity, cmp): capacity < 1 means unbounded (stored as 0) *)
Definition pq_new (capacity : Z) : pq_state :=
  {| pq_cap := if capacity <? 1 then 0 else capacity; pq_items := [] |}.

Definition pq_seq_step (s : pq_state) (o : pq_op) : pq_state * pq_ret :=
  match o with
  | PQLen => (s, PRInt (Z.of_nat (length (pq_items s))))
  | PQCap => (s, PRInt (pq_cap s))
  | PQPeek => (s, PRVal (match pq_items s with [] => Err EEmpty | x :: _ => Ok x end))
  | PQEnqueue v =>
    if (0 <? pq_cap s) && (Z.of_nat (length (pq_items s)) =? pq_cap s) then (s, PRErr (Err EFull))
    else ({| pq_cap := pq_cap s; pq_items := insert_sorted v (pq_items s) |}, PRErr (Ok tt))
  | PQDequeue =>
    match pq_items s with
    | [] => (s, PRVal (Err EEmpty))
    | x :: r => ({| pq_cap := pq_cap s; pq_items := r |}, PRVal (Ok x))
    end
  end.

Definition pq_mutating (o : pq_op) : bool :=
  match o with PQEnqueue _ | PQDequeue => true | _ => false end.

(* queue/concurrent_priority_queue.go: Len, Cap, Peek take c.m.RLock(); Enqueue, Dequeue c.m.Lock() *)
Definition cpq_excl (o : pq_op) : bool :=
  match o with
  | PQLen => false
  | PQCap => false
  | PQPeek => false
  | PQEnqueue _ => true
  | PQDequeue => true
  end.

Definition cpq_cfg := sys_cfg pq_op pq_ret (lk_shared pq_state) (lk_pc pq_state).
Definition cpq_init (capacity : Z) (items : list Z) : cpq_cfg :=
  sys_init (lk_init {| pq_cap := pq_cap (pq_new capacity);
                       pq_items := fold_left (fun l v => insert_sorted v l) items [] |}).
Definition cpq_exec1 : cpq_cfg -> sys_ev pq_op -> option (cpq_cfg * sys_obs pq_op pq_ret (lk_pc pq_state)) :=
  lk_exec1 pq_seq_step cpq_excl.
Definition cpq_step : cpq_cfg -> sys_ev pq_op -> option cpq_cfg := lk_step pq_seq_step cpq_excl.

(* ------------------------------------------------------------------------------------------ *)
(* Sequential specification of list.List[int]: a sequence of Z.  Indices are Go ints (Z).
   Range is called with the harness callback "collect the element; fail at index stop". *)
Inductive ls_op :=
| LGet (i : Z) | LAppend (vs : list Z) | LAdd (i : Z) (v : Z) | LSet (i : Z) (v : Z) | LDelete (i : Z)
| LLen | LCap | LRange (stop : Z) | LAsSlice.

Inductive ls_ret :=
| LRVal (o : outcome Z)            (* Get, Delete *)
| LRErr (o : outcome unit)         (* Append, Add, Set *)
| LRInt (n : Z)                    (* Len *)
| LRCap                            (* Cap: capacities are not observables *)
| LRSeq (l : list Z)               (* AsSlice *)
| LRRange (visited : list Z) (stopped : bool).

Definition in_range (i : Z) (n : nat) : bool := (0 <=? i) && (i <? Z.of_nat n).

Definition ls_range (l : list Z) (stop : Z) : ls_ret :=
  if in_range stop (length l) then LRRange (firstn (S (Z.to_nat stop)) l) true else LRRange l false.

Definition ls_seq_step (l : list Z) (o : ls_op) : list Z * ls_ret :=
  match o with
  | LGet i =>
    (l, LRVal (if in_range i (length l)
               then match nth_opt l (Z.to_nat i) with Some v => Ok v | None => Err EIndex end
               else Err EIndex))
  | LAppend vs => (l ++ vs, LRErr (Ok tt))
  | LAdd i v =>
    if (0 <=? i) && (i <=? Z.of_nat (length l)) then (insert_at l (Z.to_nat i) v, LRErr (Ok tt))
    else (l, LRErr (Err EIndex))
  | LSet i v =>
    if in_range i (length l) then (set_nth l (Z.to_nat i) v, LRErr (Ok tt)) else (l, LRErr (Err EIndex))
  | LDelete i =>
    if in_range i (length l)
    then match nth_opt l (Z.to_nat i) with
         | Some v => (remove_at l (Z.to_nat i), LRVal (Ok v))
         | None => (l, LRVal (Err EIndex))
         end
    else (l, LRVal (Err EIndex))
  | LLen => (l, LRInt (Z.of_nat (length l)))
  | LCap => (l, LRCap)
  | LRange stop => (l, ls_range l stop)
  | LAsSlice => (l, LRSeq l)
  end.

Definition ls_mutating (o : ls_op) : bool :=
  match o with LAppend _ | LAdd _ _ | LSet _ _ | LDelete _ => true | _ => false end.

(* list/concurrent_list.go: Get, Len, Cap, Range, AsSlice take c.lock.RLock(); Append, Add, Set,
   Delete take c.lock.Lock() *)
Definition clist_excl (o : ls_op) : bool :=
  match o with
  | LGet _ => false
  | LAppend _ => true
  | LAdd _ _ => true
  | LSet _ _ => true
  | LDelete _ => true
  | LLen => false
  | LCap => false
  | LRange _ => false
  | LAsSlice => false
  end.

Definition clist_cfg := sys_cfg ls_op ls_ret (lk_shared (list Z)) (lk_pc (list Z)).
Definition clist_init (items : list Z) : clist_cfg := sys_init (lk_init items).
Definition clist_exec1 : clist_cfg -> sys_ev ls_op -> option (clist_cfg * sys_obs ls_op ls_ret (lk_pc (list Z))) :=
  lk_exec1 ls_seq_step clist_excl.
Definition clist_step : clist_cfg -> sys_ev ls_op -> option clist_cfg := lk_step ls_seq_step clist_excl.
