(* SliceMemModel, second part (add-only extension of model/SliceMemModel.v): the remaining
   functions at header level and the memory-level calls of the C16 correspondence check.
   Definitions only; proofs in proof/SliceMemProof2.v. *)
From Ekit Require Import Common SliceModel SliceMemModel.

(* ------------------------------------------------------------------ *)
(* the calls of the correspondence check at memory level: every slice argument k gets its own
   backing array k = `off` sentinel cells, the elements, `spare` sentinel cells (cap = len + spare);
   a nil argument has the empty array.  Observables: the number of argument arrays, the result
   headers, the final store (the driver prints the argument arrays cell by cell and, for each
   result, nil / which argument array it lies in and where / "a new array"). *)
Definition sentinel (k i : nat) : Z := - Z.of_nat (1000 * S k + i).
Definition mk_arg (k off spare : nat) (s : sl) : list Z * mslice :=
  match s with
  | None => ([], None)
  | Some xs => (map (sentinel k) (seq 0 off) ++ xs ++ map (sentinel k) (seq off spare),
                Some (mkhdr k off (length xs) (length xs + spare)))
  end.
(* the growth policy is the runtime's; capacities after a growing append are never compared *)
Definition growth (n : nat) : nat := n.

Definition mobs := (nat * list mslice * store)%type.
Definition ok1 (n : nat) (st0 : store) (o : outcome (store * mslice)) : mobs :=
  match o with Ok (st, r) => (n, [r], st) | _ => (n, [], st0) end.
Definition ok0 (n : nat) (st0 : store) (o : outcome store) : mobs :=
  match o with Ok st => (n, [], st) | _ => (n, [], st0) end.
Definition rd {A} (n : nat) (st0 : store) (o : outcome A) : mobs := (n, [], st0).

Definition mem_run (off spare : nat) (c : call) : option mobs :=
  let two (a b : sl) (f : store -> mslice -> mslice -> mobs) : option mobs :=
    let A := mk_arg 0 off spare a in let B := mk_arg 1 off spare b in
    Some (f [fst A; fst B] (snd A) (snd B)) in
  let one (sp : nat) (a : sl) (f : store -> mslice -> mobs) : option mobs :=
    let A := mk_arg 0 off sp a in Some (f [fst A] (snd A)) in
  match c with
  | CUnionSet a b => two a b (fun st x y => ok1 2 st (union_set_m growth st x y))
  | CIntersectSet a b => two a b (fun st x y => ok1 2 st (intersect_set_m growth st x y))
  | CDiffSet a b => two a b (fun st x y => ok1 2 st (diff_set_m growth st x y))
  | CSymDiffSet a b => two a b (fun st x y => ok1 2 st (symdiff_set_m growth st x y))
  | CIntersectSetFunc e a b => two a b (fun st x y => ok1 2 st (intersect_set_func_m growth (eeval e) st x y))
  | CDiffSetFunc e a b => two a b (fun st x y => ok1 2 st (diff_set_func_m growth (eeval e) st x y))
  | CContainsFunc a p => one spare a (fun st x => rd 1 st (contains_func_m st x (pmatch p)))
  | CIndexFunc a p => one spare a (fun st x => rd 1 st (index_func_m (pmatch p) st x))
  | CLastIndexFunc a p => one spare a (fun st x => rd 1 st (last_index_func_m (pmatch p) st x))
  | CIndexAllFunc a p => one spare a (fun st x => ok1 1 st (index_all_func_m growth (pmatch p) st x))
  | CFindAll a p => one spare a (fun st x => ok1 1 st (find_all_m growth (pmatch p) st x))
  | CFilterMap a f p => one spare a (fun st x => ok1 1 st (filter_map_m growth (meval f) (peval p) st x))
  | CMap a f => one spare a (fun st x => ok1 1 st (map_m (meval f) st x))
  | CReverse a => one spare a (fun st x => ok1 1 st (reverse_m growth st x))
  | CReverseSelf a => one spare a (fun st x => ok0 1 st (reverse_self_m st x))
  | CDelete a i => one spare a (fun st x => ok1 1 st (delete_m st x i))
  | CFilterDelete a p => one spare a (fun st x => ok1 1 st (filter_delete_m (peval p) st x))
  | CAdd sp a e i => one (if sp then 3 else 0)%nat a (fun st x => ok1 1 st (add_m growth st x e i))
  | CSum a => one spare a (fun st x => rd 1 st (sum_m st x))
  | CMax a => one spare a (fun st x => rd 1 st (max_m st x))
  | CMin a => one spare a (fun st x => rd 1 st (min_m st x))
  | CKeys m => Some (ok1 0 [] (Ok (keys_m growth [] (gmap_of m))))
  | CValues m => Some (ok1 0 [] (Ok (values_m growth [] (gmap_of m))))
  | _ => None
  end.
