(* SliceMemModel, second part (add-only extension of model/SliceMemModel.v): the remaining
   functions at header level and the memory-level calls of the C16 correspondence check.
   Definitions only; proofs in proof/SliceMemProof2.v. *)
From Ekit Require Import Common SliceModel SliceMemModel.

(* ------------------------------------------------------------------ *)
(* the remaining functions of /repo/slice and mapx.ToMap at header level *)
(* slice/find.go Find *)
Fixpoint find_loop (mt : Z -> bool) (st : store) (h : hdr) (i n : nat) : outcome (Z * bool) :=
  match n with
  | O => Ok (0, false)
  | S n' => obind (load st h i) (fun v => if mt v then Ok (v, true) else find_loop mt st h (S i) n')
  end.
Definition find_m (mt : Z -> bool) (st : store) (s : mslice) : outcome (Z * bool) :=
  find_loop mt st (hdr_of s) 0 (mlen s).

(* for _, v := range dst { if !p(v) { return false } }; return true *)
Fixpoint all_loop (p : Z -> bool) (st : store) (h : hdr) (i n : nat) : outcome bool :=
  match n with
  | O => Ok true
  | S n' => obind (load st h i) (fun v => if p v then all_loop p st h (S i) n' else Ok false)
  end.
(* slice/contains.go ContainsAny / ContainsAll (srcMap := toMap(src)) *)
Definition contains_any_m (st : store) (src dst : mslice) : outcome bool :=
  obind (to_map_m st src) (fun sm => contains_loop (fun v => set_mem v sm) st (hdr_of dst) 0 (mlen dst)).
Definition contains_all_m (st : store) (src dst : mslice) : outcome bool :=
  obind (to_map_m st src) (fun sm => all_loop (fun v => set_mem v sm) st (hdr_of dst) 0 (mlen dst)).
(* ContainsAnyFunc / ContainsAllFunc: nested loops *)
Fixpoint any_func_loop (equal : Z -> Z -> bool) (st : store) (src : mslice) (dst : hdr) (i n : nat) : outcome bool :=
  match n with
  | O => Ok false
  | S n' => obind (load st dst i) (fun vd =>
            obind (contains_func_m st src (fun vs => equal vs vd)) (fun b =>
            if b then Ok true else any_func_loop equal st src dst (S i) n'))
  end.
Definition contains_any_func_m (equal : Z -> Z -> bool) (st : store) (src dst : mslice) : outcome bool :=
  any_func_loop equal st src (hdr_of dst) 0 (mlen dst).
Fixpoint all_func_loop (equal : Z -> Z -> bool) (st : store) (src : mslice) (dst : hdr) (i n : nat) : outcome bool :=
  match n with
  | O => Ok true
  | S n' => obind (load st dst i) (fun vd =>
            obind (contains_func_m st src (fun s => equal s vd)) (fun b =>
            if b then all_func_loop equal st src dst (S i) n' else Ok false))
  end.
Definition contains_all_func_m (equal : Z -> Z -> bool) (st : store) (src dst : mslice) : outcome bool :=
  all_func_loop equal st src (hdr_of dst) 0 (mlen dst).

(* slice/map.go ToMapV / ToMap: the result is a Go map, the slice is only read *)
Definition to_map_v_m (fk fv : Z -> Z) (st : store) (s : mslice) : outcome gmap :=
  range_fold (fun m e => map_put (fk e) (fv e) m) st (hdr_of s) 0 (mlen s) [].
Definition to_map_kv_m (fk : Z -> Z) (st : store) (s : mslice) : outcome gmap := to_map_v_m fk (fun e => e) st s.

(* mapx/map.go ToMap: nil / length checks, then m[keys[i]] = values[i] *)
Fixpoint mapx_loop (st : store) (ks vs : hdr) (i n : nat) (m : gmap) : outcome gmap :=
  match n with
  | O => Ok m
  | S n' => obind (load st ks i) (fun k => obind (load st vs i) (fun v => mapx_loop st ks vs (S i) n' (map_put k v m)))
  end.
Definition mapx_to_map_m (st : store) (keys values : mslice) : outcome gmap :=
  match keys, values with
  | Some _, Some _ =>
      if negb (Nat.eqb (mlen keys) (mlen values)) then Err EOther
      else mapx_loop st (hdr_of keys) (hdr_of values) 0 (mlen keys) []
  | _, _ => Err EOther
  end.

Section Mem2.
  Variable extra : nat -> nat.
  (* ret = append(ret, xs...) — element by element *)
  Definition append_slice (st : store) (ret : hdr) (xs : mslice) : outcome (store * hdr) :=
    fm_loop extra (fun _ _ v => Ok (Some v)) st (hdr_of xs) 0 (mlen xs) ret.

  (* slice/union.go UnionSetFunc: ret := make([]T, 0, len(src)+len(dst)); append dst..., src...; deduplicateFunc *)
  Definition union_set_func_m (equal : Z -> Z -> bool) (st : store) (src dst : mslice) : outcome (store * mslice) :=
    let mk := make st 0 (mlen src + mlen dst) in
    obind (append_slice (fst mk) (snd mk) dst) (fun r1 =>
    obind (append_slice (fst r1) (snd r1) src) (fun r2 =>
    deduplicate_func_m extra equal (fst r2) (Some (snd r2)))).

  (* slice/symmetric_diff.go SymmetricDiffSetFunc: res := []T{} (non-nil, cap 0) *)
  Definition symdiff_set_func_m (equal : Z -> Z -> bool) (st : store) (src dst : mslice) : outcome (store * mslice) :=
    let mk := make st 0 0 in
    obind (fm_loop extra (fun st' _ v => obind (contains_func_m st' dst (fun t => equal t v))
                                               (fun b => Ok (if negb b then Some v else None)))
                   (fst mk) (hdr_of src) 0 (mlen src) (snd mk)) (fun r1 =>
    obind (fm_loop extra (fun st' _ v => obind (contains_func_m st' src (fun t => equal t v))
                                               (fun b => Ok (if negb b then Some v else None)))
                   (fst r1) (hdr_of dst) 0 (mlen dst) (snd r1)) (fun r2 =>
    deduplicate_func_m extra equal (fst r2) (Some (snd r2)))).
End Mem2.

(* ------------------------------------------------------------------ *)
(* the calls of the correspondence check at memory level: every slice argument k gets its own
   backing array k = `off` sentinel cells, the elements, `spare` sentinel cells (cap = len + spare);
   a nil argument has the empty array.  Observables: the number of argument arrays, the result
   headers, the final store (the driver prints the argument arrays cell by cell and, for each
   result, nil / which argument array it lies in and where / "a new array"). *)
Definition sentinel (k i : nat) : Z := - Z.of_nat (1000 * S k + i).
Definition mk_arg (k off spare : nat) (s : sl) : list Z * mslice :=
  match s with
  | None => ([], None)
  | Some xs => (map (sentinel k) (seq 0 off) ++ xs ++ map (sentinel k) (seq off spare),
                Some (mkhdr k off (length xs) (length xs + spare)))
  end.
(* the growth policy is the runtime's; capacities after a growing append are never compared *)
Definition growth (n : nat) : nat := n.

Definition mobs := (nat * list mslice * store)%type.
Definition ok1 (n : nat) (st0 : store) (o : outcome (store * mslice)) : mobs :=
  match o with Ok (st, r) => (n, [r], st) | _ => (n, [], st0) end.
Definition ok0 (n : nat) (st0 : store) (o : outcome store) : mobs :=
  match o with Ok st => (n, [], st) | _ => (n, [], st0) end.
Definition rd {A} (n : nat) (st0 : store) (o : outcome A) : mobs := (n, [], st0).

Definition mem_run (off spare : nat) (c : call) : option mobs :=
  let two (a b : sl) (f : store -> mslice -> mslice -> mobs) : option mobs :=
    let A := mk_arg 0 off spare a in let B := mk_arg 1 off spare b in
    Some (f [fst A; fst B] (snd A) (snd B)) in
  let one (sp : nat) (a : sl) (f : store -> mslice -> mobs) : option mobs :=
    let A := mk_arg 0 off sp a in Some (f [fst A] (snd A)) in
  match c with
  | CUnionSet a b => two a b (fun st x y => ok1 2 st (union_set_m growth st x y))
  | CIntersectSet a b => two a b (fun st x y => ok1 2 st (intersect_set_m growth st x y))
  | CDiffSet a b => two a b (fun st x y => ok1 2 st (diff_set_m growth st x y))
  | CSymDiffSet a b => two a b (fun st x y => ok1 2 st (symdiff_set_m growth st x y))
  | CIntersectSetFunc e a b => two a b (fun st x y => ok1 2 st (intersect_set_func_m growth (eeval e) st x y))
  | CDiffSetFunc e a b => two a b (fun st x y => ok1 2 st (diff_set_func_m growth (eeval e) st x y))
  | CUnionSetFunc e a b => two a b (fun st x y => ok1 2 st (union_set_func_m growth (eeval e) st x y))
  | CSymDiffSetFunc e a b => two a b (fun st x y => ok1 2 st (symdiff_set_func_m growth (eeval e) st x y))
  | CContainsAny a b => two a b (fun st x y => rd 2 st (contains_any_m st x y))
  | CContainsAll a b => two a b (fun st x y => rd 2 st (contains_all_m st x y))
  | CContainsAnyFunc e a b => two a b (fun st x y => rd 2 st (contains_any_func_m (eeval e) st x y))
  | CContainsAllFunc e a b => two a b (fun st x y => rd 2 st (contains_all_func_m (eeval e) st x y))
  | CMapxToMap a b => two a b (fun st x y => rd 2 st (mapx_to_map_m st x y))
  | CContains a x0 => one spare a (fun st x => rd 1 st (contains_func_m st x (fun s => Z.eqb s x0)))
  | CIndex a x0 => one spare a (fun st x => rd 1 st (index_func_m (fun s => Z.eqb s x0) st x))
  | CLastIndex a x0 => one spare a (fun st x => rd 1 st (last_index_func_m (fun s => Z.eqb s x0) st x))
  | CIndexAll a x0 => one spare a (fun st x => ok1 1 st (index_all_func_m growth (fun s => Z.eqb s x0) st x))
  | CFind a p => one spare a (fun st x => rd 1 st (find_m (pmatch p) st x))
  | CToMap a fk => one spare a (fun st x => rd 1 st (to_map_kv_m (mkey fk) st x))
  | CToMapV a fk fv => one spare a (fun st x => rd 1 st (to_map_v_m (mkey fk) (mkey fv) st x))
  | CContainsFunc a p => one spare a (fun st x => rd 1 st (contains_func_m st x (pmatch p)))
  | CIndexFunc a p => one spare a (fun st x => rd 1 st (index_func_m (pmatch p) st x))
  | CLastIndexFunc a p => one spare a (fun st x => rd 1 st (last_index_func_m (pmatch p) st x))
  | CIndexAllFunc a p => one spare a (fun st x => ok1 1 st (index_all_func_m growth (pmatch p) st x))
  | CFindAll a p => one spare a (fun st x => ok1 1 st (find_all_m growth (pmatch p) st x))
  | CFilterMap a f p => one spare a (fun st x => ok1 1 st (filter_map_m growth (meval f) (peval p) st x))
  | CMap a f => one spare a (fun st x => ok1 1 st (map_m (meval f) st x))
  | CReverse a => one spare a (fun st x => ok1 1 st (reverse_m growth st x))
  | CReverseSelf a => one spare a (fun st x => ok0 1 st (reverse_self_m st x))
  | CDelete a i => one spare a (fun st x => ok1 1 st (delete_m st x i))
  | CFilterDelete a p => one spare a (fun st x => ok1 1 st (filter_delete_m (peval p) st x))
  | CAdd sp a e i => one (if sp then 3 else 0)%nat a (fun st x => ok1 1 st (add_m growth st x e i))
  | CSum a => one spare a (fun st x => rd 1 st (sum_m st x))
  | CMax a => one spare a (fun st x => rd 1 st (max_m st x))
  | CMin a => one spare a (fun st x => rd 1 st (min_m st x))
  | CKeys m => Some (ok1 0 [] (Ok (keys_m growth [] (gmap_of m))))
  | CValues m => Some (ok1 0 [] (Ok (values_m growth [] (gmap_of m))))
  | _ => None
  end.
