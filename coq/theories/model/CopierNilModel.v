(* C20: the entry points after the nil-argument fix (fix_c20_nil): wrappers over model/CopierModel.v.
   Definitions only; proofs in proof/CopierNilProof.v, statements in props/C20_nil.v.

   The fix: the package-level CopyTo(src, dst any) returns errNilPointer when src or dst is the
   nil interface (checked FIRST) or a typed nil pointer (checked AFTER the four entry kind
   checks); ReflectCopier.CopyTo returns errNilPointer when dst == nil, before the options are
   applied (a nil src stays a successful no-op; Copy allocates its destination).
   The `_pinned` functions are the code before the fix (= the old definitions). *)
From Ekit Require Import Common CopierModel.

(* the status of a call, with the new sentinel error errNilPointer *)
Inductive nstatus := NNil | NStat (s : status).

(* ReflectCopier.CopyTo(src, dst, opts...) *)
Definition reflect_copy_to_now (c : copier) (st dt : ty) (src dst : option value) (ps : list opt)
  : option value * nstatus :=
  match dst with
  | None => (None, NNil)                                   (* if dst == nil { return errNilPointer } *)
  | Some _ => let '(r, s) := reflect_copy_to c st dt src dst ps in (r, NStat s)
  end.

(* ReflectCopier.Copy: dst := new(Dst); r.CopyTo(src, dst, opts...) *)
Definition reflect_copy_now (c : copier) (st dt : ty) (src : option value) (ps : list opt)
  : option value * nstatus :=
  reflect_copy_to_now c st dt src (Some (zero_value dt)) ps.

Definition reflect_copy_to_pinned (c : copier) (st dt : ty) (src dst : option value) (ps : list opt)
  : option value * nstatus :=
  let '(r, s) := reflect_copy_to c st dt src dst ps in (r, NStat s).

(* an argument of CopyTo(src any, dst any): None = the nil interface, Some (t, v) = a value v of
   dynamic type t (for a pointer type, v = VPtr None is the typed nil pointer) *)
Definition anyarg := option (ty * value).

(* the four entry checks of CopyTo, in the code's order *)
Definition pure_entry_error (sty dty : ty) : option cerr :=
  match sty with
  | Ptr st =>
    if negb (is_struct_kind st) then Some CEntry else
    match dty with
    | Ptr dt => if negb (is_struct_kind dt) then Some CEntry else None
    | _ => Some CEntry
    end
  | _ => Some CEntry
  end.

Definition is_nil_ptr (v : value) : bool :=
  match v with VPtr None => true | _ => false end.

(* CopyTo(src, dst any): returns the contents of dst afterwards (None for the nil interface) *)
Definition pure_copy_to_now (s d : anyarg) : option value * nstatus :=
  match s, d with
  | None, _ => (option_map snd d, NNil)                    (* if src == nil || dst == nil *)
  | _, None => (None, NNil)
  | Some (sty, sv), Some (dty, dv) =>
    match pure_entry_error sty dty with
    | Some e => (Some dv, NStat (SErr e))
    | None =>
      if is_nil_ptr sv || is_nil_ptr dv then (Some dv, NNil)   (* ValueOf(src).IsNil() || ValueOf(dst).IsNil() *)
      else let '(x, st) := pure_copy_to sty sv dty dv in (Some x, NStat st)
    end
  end.

(* before the fix: reflect.TypeOf(nil).Kind() dereferences a nil Type; a typed nil pointer reaches
   Value.Field on the zero Value (modelled conservatively as a panic, see pure_copy_to) *)
Definition pure_copy_to_pinned (s d : anyarg) : option value * nstatus :=
  match s, d with
  | Some (sty, sv), Some (dty, dv) =>
      let '(x, st) := pure_copy_to sty sv dty dv in (Some x, NStat st)
  | _, _ => (option_map snd d, NStat SPanic)
  end.

(* ---------------------------------------------------------------- one call of a correspondence case *)
Inductive ncall :=
| NCall (k : call)                 (* Copy / CopyTo / CopyTo(&a, &b) as before *)
| NPure (s d : anyarg).            (* the package-level CopyTo with arbitrary arguments *)

Definition run_call_now (c : copier) (st dt : ty) (k : ncall) : option value * nstatus :=
  match k with
  | NCall (CallCopy src ps) => reflect_copy_now c st dt src ps
  | NCall (CallCopyTo src dst ps) => reflect_copy_to_now c st dt src dst ps
  | NCall (CallPure a b) =>
      match pure_copy_to_now (Some (Ptr st, VPtr (Some a))) (Some (Ptr dt, VPtr (Some b))) with
      | (Some (VPtr p), s) => (p, s)
      | (_, s) => (None, s)
      end
  | NPure s d => pure_copy_to_now s d
  end.

(* the repaired zero-skip variant of the tree copier, for the known-finding tolerance of the check *)
Definition run_call_now_nozeroskip (c : copier) (st dt : ty) (k : ncall) : option value * nstatus :=
  match k with
  | NCall (CallCopyTo _ None _) => (None, NNil)
  | NCall (CallPure _ _) | NPure _ _ => run_call_now c st dt k
  | NCall k' => let '(r, s) := run_call_nozeroskip c st dt k' in (r, NStat s)
  end.

Definition nstatus_eqb (a b : nstatus) : bool :=
  match a, b with
  | NNil, NNil => true
  | NStat x, NStat y => status_eqb x y
  | _, _ => false
  end.
