(* Statement-granular interleaving model of /repo/pool/task_pool.go
   (pool.OnDemandBlockTaskPool; properties C10, C11, C12).  Definitions only.

   One model step = one Go statement (= one yield point of tools/instrument); the program
   counters below are exactly the instrumented statements of
     taskWrapper.Run, TaskFunc.Run, group.isIn/add/delete/size, Submit, trySubmit,
     allowToCreateGoroutine, Start, numOfGoThatCanBeCreate, goroutine, increaseTotalGo,
     decreaseTotalGo, Shutdown, ShutdownNow, numOfGo
   (label table: ocaml/drv_pool.ml).  A helper that is called from several places has one copy of
   its program counters per call site (the return point is then part of the pc).

   Run-time primitives are modelled from their contracts (trusted specifications):
   * atomic int32 load / CAS / add: atomic, sequentially consistent;
   * sync.RWMutex: Lock enabled iff no holder at all, RLock enabled iff no writer (the lock-step
     controller never grants a step that would block on a mutex, so there are no queued waiters);
   * channel `queue`: FIFO buffer of capacity cap + closed flag; a send succeeds when a receiver
     is parked in its select (direct hand-off to ANY parked receiver - the event names it) or the
     buffer has room; a send on a closed channel panics; a receive yields the head, or ok=false on
     closed-and-empty, otherwise it is not ready; close wakes every parked receiver; close of a
     closed channel panics;
   * context cancellation wakes every goroutine parked on Done();
   * time.Timer with the pre-1.23 channel semantics (the harness module says go 1.20): 1-buffered
     channel; Stop returns true iff the timer had not fired and never drains the channel.  WHEN an
     armed timer fires is the environment's choice (event PFire) - also for NewTimer(0);
   * `select`: when several cases are ready the run-time chooses - every ready case is an enabled
     event (the choice is part of the event); with no ready case and no default the goroutine parks.
   * a user task is an id + a fixed behaviour (returns / panics); its body runs when the environment
     sends PFinish (a task that never finishes = the event never comes).

   Three flags pin the behaviour BEFORE the three `fix:` commits in this file:
     i_fixa = false : the above-core exit does not require initGo < totalGo - timeoutGroup.size()
     i_fixb = false : a worker leaving by its idle timer never performs closing->stopped + cancel
     i_fixc = false : Submit executes `task = &taskWrapper{t: task}` inside its spin loop (one more wrapper
                      layer per retry; a long wait nested millions of layers and the run overflowed the stack)
                      instead of once, in front of the loop
   (used only for the refutation witnesses; the lock-step runs use true/true/true = the code as it is). *)
From Ekit Require Import Common Conc.

Inductive pstate := SCreated | SRunning | SClosing | SStopped | SLocked.

Definition pstate_eqb (a b : pstate) : bool :=
  match a, b with
  | SCreated, SCreated | SRunning, SRunning | SClosing, SClosing
  | SStopped, SStopped | SLocked, SLocked => true
  | _, _ => false
  end.

Inductive perr := PENone | PEInvalid | PEClosing | PEStopped | PEStarted | PENotRunning | PECtx.

(* a submitted task: identity, number of taskWrapper layers (1 now; before the third fix one per loop iteration),
   behaviour of the user function *)
Record task := mkTask { tk_id : nat; tk_depth : nat; tk_panics : bool }.
Definition task0 : task := mkTask 0 0 false.

Inductive tmr := TmDead | TmArmed | TmFired.   (* TmFired: the tick sits in the channel buffer *)

Inductive pop :=
| OpSubmit (id : nat) (panics : bool)
| OpSubmitNil
| OpStart
| OpShutdown
| OpShutdownNow.

Inductive pret :=
| RSubmit (e : perr)
| RStart (e : perr)
| RShutdown (e : perr)
| RShutdownNow (e : perr) (ids : list nat)
| RPanicSend          (* send on closed channel *)
| RPanicClose.        (* close of closed channel *)

(* ---------------------------------------------------------------- program counters *)
Inductive ppc :=
(* Submit *)
| SbNil | SbRetInvalid | SbFor | SbChkClosing | SbRetClosing | SbChkStopped | SbRetStopped
| SbWrap | SbTry1 | SbIf1 | SbRet1 | SbTry2 | SbIf2 | SbRet2
(* trySubmit *)
| TsCas | TsDefer | TsSelect | TsCaseCtx | TsRetCtx | TsCaseSend | TsIfCreate | TsInc | TsId | TsGo
| TsRetT | TsCaseDefault | TsRetF0 | TsRetF1
(* allowToCreateGoroutine (called from trySubmit) *)
| AlRLock | AlDefer | AlRate | AlRet
(* increaseTotalGo called from trySubmit *)
| SiLock | SiAdd | SiUnlock
(* Start *)
| StFor | StChkClosing | StRetClosing | StChkStopped | StRetStopped | StChkRunning | StRetStarted
| StCas | StN | StInc | StLoop | StGo | StCasRun | StRetNil
(* numOfGoThatCanBeCreate *)
| NcN | NcAllow | NcNeed | NcIf1 | NcIf2 | NcAddNeed | NcAddAllow | NcRet
(* increaseTotalGo called from Start *)
| TiLock | TiAdd | TiUnlock
(* Shutdown *)
| ShFor | ShChkCreated | ShRetNotRunning | ShChkStopped | ShRetStopped | ShChkClosing | ShRetClosing
| ShCas | ShClose | ShRet
(* ShutdownNow *)
| SnFor | SnChkCreated | SnRetNotRunning | SnChkClosing | SnRetClosing | SnChkStopped | SnRetStopped
| SnCas | SnClose | SnCancel | SnMake | SnRange | SnAppend | SnRet
(* goroutine: start *)
| WNewTimer | WStop0 | WDrain0 | WFor | WSelect | WParked
(* goroutine: interrupt branch; decreaseTotalGo #0 *)
| WCaseInt | WIntDec | WIdLock | WIdSub | WIdUnlock | WIntRet
(* goroutine: idle-timer branch; group.delete #0 *)
| WCaseTimer | WTmLock | WTmDecr | WTmLeft | WTmDel | TdLock | TdDefer | TdIf | TdDec | TdDelete
| WTmUnlock | WTmIfLeft | WTmCas | WTmCancel | WTmRet
(* goroutine: queue branch; group.isIn; group.delete #1 *)
| WCaseQueue | WIfIsIn | IiRLock | IiDefer | IiLookup | IiRet
| WRcDel | RdLock | RdDefer | RdIf | RdDec | RdDelete | WStop1 | WDrain1 | WIfNotOk
(* closed queue: decreaseTotalGo #1, numOfGo, last-worker transition *)
| WClDec | CdLock | CdSub | CdUnlock | WClIfNum | NgRLock | NgRead | NgRUnlock | NgRet
| WClCas | WClCancel | WClRet
(* running the task: taskWrapper.Run (one activation per wrapper layer), TaskFunc.Run, user function *)
| WRunInc | WRun | RwDefer | RwRet | TfRet | WUser | RwRecIf | RwBuf | RwStack | RwErr | WRunDec
(* bookkeeping block; group.size #0 / #1; group.add *)
| WBkLock | WBkNoTasks | WBkIf1 | Z1RLock | Z1Defer | Z1Ret | WBkDecr | WBkUnlock1 | WBkRet
| WBkIf2 | Z2RLock | Z2Defer | Z2Ret | WBkNewTimer | WBkAdd | GaLock | GaDefer | GaIf | GaSet | GaInc
| WBkUnlock2.

(* what a `select` (or a hand-off) resolves to; C0 everywhere else *)
Inductive choice :=
| C0
| CCtx | CSend (r : option tid) | CDefault        (* trySubmit's select *)
| CInt | CTimer | CQueue.                         (* the worker's select *)

Record thr := mkThr {
  pc : ppc;
  l_task : task;
  l_nil : bool;
  l_cancel : bool;
  l_second : bool;
  l_ok : bool;
  l_err : perr;
  l_flag : bool;
  l_n : Z;
  l_a : Z;
  l_b : Z;
  l_acc : list task;
  l_wid : Z;
  l_tm : tmr;
  l_lvl : nat;
  l_pan : bool;
  l_nt : bool;
  l_has : bool;
  l_late : bool
}.
Definition goto (v : ppc) (x : thr) : thr := mkThr v (l_task x) (l_nil x) (l_cancel x) (l_second x) (l_ok x) (l_err x) (l_flag x) (l_n x) (l_a x) (l_b x) (l_acc x) (l_wid x) (l_tm x) (l_lvl x) (l_pan x) (l_nt x) (l_has x) (l_late x).
Definition set_task (v : task) (x : thr) : thr := mkThr (pc x) v (l_nil x) (l_cancel x) (l_second x) (l_ok x) (l_err x) (l_flag x) (l_n x) (l_a x) (l_b x) (l_acc x) (l_wid x) (l_tm x) (l_lvl x) (l_pan x) (l_nt x) (l_has x) (l_late x).
Definition set_nil (v : bool) (x : thr) : thr := mkThr (pc x) (l_task x) v (l_cancel x) (l_second x) (l_ok x) (l_err x) (l_flag x) (l_n x) (l_a x) (l_b x) (l_acc x) (l_wid x) (l_tm x) (l_lvl x) (l_pan x) (l_nt x) (l_has x) (l_late x).
Definition set_cancel (v : bool) (x : thr) : thr := mkThr (pc x) (l_task x) (l_nil x) v (l_second x) (l_ok x) (l_err x) (l_flag x) (l_n x) (l_a x) (l_b x) (l_acc x) (l_wid x) (l_tm x) (l_lvl x) (l_pan x) (l_nt x) (l_has x) (l_late x).
Definition set_second (v : bool) (x : thr) : thr := mkThr (pc x) (l_task x) (l_nil x) (l_cancel x) v (l_ok x) (l_err x) (l_flag x) (l_n x) (l_a x) (l_b x) (l_acc x) (l_wid x) (l_tm x) (l_lvl x) (l_pan x) (l_nt x) (l_has x) (l_late x).
Definition set_ok (v : bool) (x : thr) : thr := mkThr (pc x) (l_task x) (l_nil x) (l_cancel x) (l_second x) v (l_err x) (l_flag x) (l_n x) (l_a x) (l_b x) (l_acc x) (l_wid x) (l_tm x) (l_lvl x) (l_pan x) (l_nt x) (l_has x) (l_late x).
Definition set_err (v : perr) (x : thr) : thr := mkThr (pc x) (l_task x) (l_nil x) (l_cancel x) (l_second x) (l_ok x) v (l_flag x) (l_n x) (l_a x) (l_b x) (l_acc x) (l_wid x) (l_tm x) (l_lvl x) (l_pan x) (l_nt x) (l_has x) (l_late x).
Definition set_flag (v : bool) (x : thr) : thr := mkThr (pc x) (l_task x) (l_nil x) (l_cancel x) (l_second x) (l_ok x) (l_err x) v (l_n x) (l_a x) (l_b x) (l_acc x) (l_wid x) (l_tm x) (l_lvl x) (l_pan x) (l_nt x) (l_has x) (l_late x).
Definition set_n (v : Z) (x : thr) : thr := mkThr (pc x) (l_task x) (l_nil x) (l_cancel x) (l_second x) (l_ok x) (l_err x) (l_flag x) v (l_a x) (l_b x) (l_acc x) (l_wid x) (l_tm x) (l_lvl x) (l_pan x) (l_nt x) (l_has x) (l_late x).
Definition set_a (v : Z) (x : thr) : thr := mkThr (pc x) (l_task x) (l_nil x) (l_cancel x) (l_second x) (l_ok x) (l_err x) (l_flag x) (l_n x) v (l_b x) (l_acc x) (l_wid x) (l_tm x) (l_lvl x) (l_pan x) (l_nt x) (l_has x) (l_late x).
Definition set_b (v : Z) (x : thr) : thr := mkThr (pc x) (l_task x) (l_nil x) (l_cancel x) (l_second x) (l_ok x) (l_err x) (l_flag x) (l_n x) (l_a x) v (l_acc x) (l_wid x) (l_tm x) (l_lvl x) (l_pan x) (l_nt x) (l_has x) (l_late x).
Definition set_acc (v : list task) (x : thr) : thr := mkThr (pc x) (l_task x) (l_nil x) (l_cancel x) (l_second x) (l_ok x) (l_err x) (l_flag x) (l_n x) (l_a x) (l_b x) v (l_wid x) (l_tm x) (l_lvl x) (l_pan x) (l_nt x) (l_has x) (l_late x).
Definition set_wid (v : Z) (x : thr) : thr := mkThr (pc x) (l_task x) (l_nil x) (l_cancel x) (l_second x) (l_ok x) (l_err x) (l_flag x) (l_n x) (l_a x) (l_b x) (l_acc x) v (l_tm x) (l_lvl x) (l_pan x) (l_nt x) (l_has x) (l_late x).
Definition set_tm (v : tmr) (x : thr) : thr := mkThr (pc x) (l_task x) (l_nil x) (l_cancel x) (l_second x) (l_ok x) (l_err x) (l_flag x) (l_n x) (l_a x) (l_b x) (l_acc x) (l_wid x) v (l_lvl x) (l_pan x) (l_nt x) (l_has x) (l_late x).
Definition set_lvl (v : nat) (x : thr) : thr := mkThr (pc x) (l_task x) (l_nil x) (l_cancel x) (l_second x) (l_ok x) (l_err x) (l_flag x) (l_n x) (l_a x) (l_b x) (l_acc x) (l_wid x) (l_tm x) v (l_pan x) (l_nt x) (l_has x) (l_late x).
Definition set_pan (v : bool) (x : thr) : thr := mkThr (pc x) (l_task x) (l_nil x) (l_cancel x) (l_second x) (l_ok x) (l_err x) (l_flag x) (l_n x) (l_a x) (l_b x) (l_acc x) (l_wid x) (l_tm x) (l_lvl x) v (l_nt x) (l_has x) (l_late x).
Definition set_nt (v : bool) (x : thr) : thr := mkThr (pc x) (l_task x) (l_nil x) (l_cancel x) (l_second x) (l_ok x) (l_err x) (l_flag x) (l_n x) (l_a x) (l_b x) (l_acc x) (l_wid x) (l_tm x) (l_lvl x) (l_pan x) v (l_has x) (l_late x).
Definition set_has (v : bool) (x : thr) : thr := mkThr (pc x) (l_task x) (l_nil x) (l_cancel x) (l_second x) (l_ok x) (l_err x) (l_flag x) (l_n x) (l_a x) (l_b x) (l_acc x) (l_wid x) (l_tm x) (l_lvl x) (l_pan x) (l_nt x) v (l_late x).
Definition set_late (v : bool) (x : thr) : thr := mkThr (pc x) (l_task x) (l_nil x) (l_cancel x) (l_second x) (l_ok x) (l_err x) (l_flag x) (l_n x) (l_a x) (l_b x) (l_acc x) (l_wid x) (l_tm x) (l_lvl x) (l_pan x) (l_nt x) (l_has x) v.

Record shared := mkSh {
  s_state : pstate;
  s_prev : pstate;
  s_q : list task;
  s_closed : bool;
  s_total : Z;
  s_running : Z;
  s_mp : list Z;
  s_gn : Z;
  s_bw : bool;
  s_br : Z;
  s_gw : bool;
  s_gr : Z;
  s_idc : Z;
  s_ictx : bool
}.
Definition st_state (v : pstate) (x : shared) : shared := mkSh v (s_prev x) (s_q x) (s_closed x) (s_total x) (s_running x) (s_mp x) (s_gn x) (s_bw x) (s_br x) (s_gw x) (s_gr x) (s_idc x) (s_ictx x).
Definition st_prev (v : pstate) (x : shared) : shared := mkSh (s_state x) v (s_q x) (s_closed x) (s_total x) (s_running x) (s_mp x) (s_gn x) (s_bw x) (s_br x) (s_gw x) (s_gr x) (s_idc x) (s_ictx x).
Definition st_q (v : list task) (x : shared) : shared := mkSh (s_state x) (s_prev x) v (s_closed x) (s_total x) (s_running x) (s_mp x) (s_gn x) (s_bw x) (s_br x) (s_gw x) (s_gr x) (s_idc x) (s_ictx x).
Definition st_closed (v : bool) (x : shared) : shared := mkSh (s_state x) (s_prev x) (s_q x) v (s_total x) (s_running x) (s_mp x) (s_gn x) (s_bw x) (s_br x) (s_gw x) (s_gr x) (s_idc x) (s_ictx x).
Definition st_total (v : Z) (x : shared) : shared := mkSh (s_state x) (s_prev x) (s_q x) (s_closed x) v (s_running x) (s_mp x) (s_gn x) (s_bw x) (s_br x) (s_gw x) (s_gr x) (s_idc x) (s_ictx x).
Definition st_running (v : Z) (x : shared) : shared := mkSh (s_state x) (s_prev x) (s_q x) (s_closed x) (s_total x) v (s_mp x) (s_gn x) (s_bw x) (s_br x) (s_gw x) (s_gr x) (s_idc x) (s_ictx x).
Definition st_mp (v : list Z) (x : shared) : shared := mkSh (s_state x) (s_prev x) (s_q x) (s_closed x) (s_total x) (s_running x) v (s_gn x) (s_bw x) (s_br x) (s_gw x) (s_gr x) (s_idc x) (s_ictx x).
Definition st_gn (v : Z) (x : shared) : shared := mkSh (s_state x) (s_prev x) (s_q x) (s_closed x) (s_total x) (s_running x) (s_mp x) v (s_bw x) (s_br x) (s_gw x) (s_gr x) (s_idc x) (s_ictx x).
Definition st_bw (v : bool) (x : shared) : shared := mkSh (s_state x) (s_prev x) (s_q x) (s_closed x) (s_total x) (s_running x) (s_mp x) (s_gn x) v (s_br x) (s_gw x) (s_gr x) (s_idc x) (s_ictx x).
Definition st_br (v : Z) (x : shared) : shared := mkSh (s_state x) (s_prev x) (s_q x) (s_closed x) (s_total x) (s_running x) (s_mp x) (s_gn x) (s_bw x) v (s_gw x) (s_gr x) (s_idc x) (s_ictx x).
Definition st_gw (v : bool) (x : shared) : shared := mkSh (s_state x) (s_prev x) (s_q x) (s_closed x) (s_total x) (s_running x) (s_mp x) (s_gn x) (s_bw x) (s_br x) v (s_gr x) (s_idc x) (s_ictx x).
Definition st_gr (v : Z) (x : shared) : shared := mkSh (s_state x) (s_prev x) (s_q x) (s_closed x) (s_total x) (s_running x) (s_mp x) (s_gn x) (s_bw x) (s_br x) (s_gw x) v (s_idc x) (s_ictx x).
Definition st_idc (v : Z) (x : shared) : shared := mkSh (s_state x) (s_prev x) (s_q x) (s_closed x) (s_total x) (s_running x) (s_mp x) (s_gn x) (s_bw x) (s_br x) (s_gw x) (s_gr x) v (s_ictx x).
Definition st_ictx (v : bool) (x : shared) : shared := mkSh (s_state x) (s_prev x) (s_q x) (s_closed x) (s_total x) (s_running x) (s_mp x) (s_gn x) (s_bw x) (s_br x) (s_gw x) (s_gr x) (s_idc x) v.

Record ghost := mkGh {
  g_sent : list nat;
  g_started : list nat;
  g_done : list nat;
  g_returned : list nat;
  g_acc : list nat;
  g_rej : list nat;
  g_starts : Z;
  g_shuts : Z;
  g_now : bool;
  g_grace : bool;
  g_began : bool;
  g_shut : bool
}.
Definition gs_sent (v : list nat) (x : ghost) : ghost := mkGh v (g_started x) (g_done x) (g_returned x) (g_acc x) (g_rej x) (g_starts x) (g_shuts x) (g_now x) (g_grace x) (g_began x) (g_shut x).
Definition gs_started (v : list nat) (x : ghost) : ghost := mkGh (g_sent x) v (g_done x) (g_returned x) (g_acc x) (g_rej x) (g_starts x) (g_shuts x) (g_now x) (g_grace x) (g_began x) (g_shut x).
Definition gs_done (v : list nat) (x : ghost) : ghost := mkGh (g_sent x) (g_started x) v (g_returned x) (g_acc x) (g_rej x) (g_starts x) (g_shuts x) (g_now x) (g_grace x) (g_began x) (g_shut x).
Definition gs_returned (v : list nat) (x : ghost) : ghost := mkGh (g_sent x) (g_started x) (g_done x) v (g_acc x) (g_rej x) (g_starts x) (g_shuts x) (g_now x) (g_grace x) (g_began x) (g_shut x).
Definition gs_acc (v : list nat) (x : ghost) : ghost := mkGh (g_sent x) (g_started x) (g_done x) (g_returned x) v (g_rej x) (g_starts x) (g_shuts x) (g_now x) (g_grace x) (g_began x) (g_shut x).
Definition gs_rej (v : list nat) (x : ghost) : ghost := mkGh (g_sent x) (g_started x) (g_done x) (g_returned x) (g_acc x) v (g_starts x) (g_shuts x) (g_now x) (g_grace x) (g_began x) (g_shut x).
Definition gs_starts (v : Z) (x : ghost) : ghost := mkGh (g_sent x) (g_started x) (g_done x) (g_returned x) (g_acc x) (g_rej x) v (g_shuts x) (g_now x) (g_grace x) (g_began x) (g_shut x).
Definition gs_shuts (v : Z) (x : ghost) : ghost := mkGh (g_sent x) (g_started x) (g_done x) (g_returned x) (g_acc x) (g_rej x) (g_starts x) v (g_now x) (g_grace x) (g_began x) (g_shut x).
Definition gs_now (v : bool) (x : ghost) : ghost := mkGh (g_sent x) (g_started x) (g_done x) (g_returned x) (g_acc x) (g_rej x) (g_starts x) (g_shuts x) v (g_grace x) (g_began x) (g_shut x).
Definition gs_grace (v : bool) (x : ghost) : ghost := mkGh (g_sent x) (g_started x) (g_done x) (g_returned x) (g_acc x) (g_rej x) (g_starts x) (g_shuts x) (g_now x) v (g_began x) (g_shut x).
Definition gs_began (v : bool) (x : ghost) : ghost := mkGh (g_sent x) (g_started x) (g_done x) (g_returned x) (g_acc x) (g_rej x) (g_starts x) (g_shuts x) (g_now x) (g_grace x) v (g_shut x).
Definition gs_shut (v : bool) (x : ghost) : ghost := mkGh (g_sent x) (g_started x) (g_done x) (g_returned x) (g_acc x) (g_rej x) (g_starts x) (g_shuts x) (g_now x) (g_grace x) (g_began x) v.

(* ---------------------------------------------------------------- configuration *)
Record params := mkPar {
  i_init : Z; i_core : Z; i_max : Z;     (* after the constructor's defaulting rule *)
  i_cap : Z;                             (* queueSize *)
  i_rn : Z; i_rd : Z;                    (* queueBacklogRate = i_rn / i_rd, i_rd > 0 *)
  i_fixa : bool; i_fixb : bool;          (* true/true = the code as it is now *)
  i_base : nat;                          (* tids >= i_base are workers, tids below are client calls *)
  i_fixc : bool                          (* true = Submit wraps the task once, before its loop *)
}.

(* what one step does to the OTHER goroutines *)
Inductive wake :=
| WkNone
| WkRecv (r : tid) (k : task)   (* hand-off of k to the parked worker r *)
| WkClose                       (* close(queue): every parked worker receives ok=false *)
| WkCancel.                     (* interruptCtx cancelled: every parked worker takes the interrupt case *)

(* history (ghost) events *)
Inductive gev :=
| GSent (id : nat) | GStarted (id : nat) | GDone (id : nat) | GReturned (ids : list nat)
| GAcc (id : nat) | GRej (id : nat) | GStartOk | GShutOk | GNow | GGrace | GBegan | GShut.

Record pout := mkOut {
  o_sh : shared;
  o_th : option thr;          (* None: the goroutine / the call ends *)
  o_ret : option pret;        (* value a client call returns *)
  o_spawn : option thr;       (* `go b.goroutine(id)` *)
  o_wake : wake;
  o_gev : list gev
}.

Definition stay (s : shared) (th : thr) : option pout := Some (mkOut s (Some th) None None WkNone []).
Definition stayg (s : shared) (th : thr) (g : list gev) : option pout :=
  Some (mkOut s (Some th) None None WkNone g).
Definition fin (s : shared) (r : pret) (g : list gev) : option pout :=
  Some (mkOut s None (Some r) None WkNone g).
Definition quit (s : shared) : option pout := Some (mkOut s None None None WkNone []).

Definition thr0 (p : ppc) : thr :=
  mkThr p task0 false false false false PENone false 0 0 0 [] 0 TmDead O false false false false.
Definition new_worker (id : Z) : thr := set_wid id (thr0 WNewTimer).

Definition b_free (s : shared) : bool := negb (s_bw s) && (s_br s =? 0).
Definition g_free (s : shared) : bool := negb (s_gw s) && (s_gr s =? 0).
Definition qlen (s : shared) : Z := Z.of_nat (length (s_q s)).

Fixpoint zmem (x : Z) (l : list Z) : bool :=
  match l with [] => false | y :: r => (x =? y) || zmem x r end.
Fixpoint zremove (x : Z) (l : list Z) : list Z :=
  match l with [] => [] | y :: r => if x =? y then zremove x r else y :: zremove x r end.
Fixpoint tmem (x : tid) (l : list tid) : bool :=
  match l with [] => false | y :: r => Nat.eqb x y || tmem x r end.

Definition is_err (e : perr) : bool := match e with PENone => false | _ => true end.
Definition wrap_task (k : task) : task := mkTask (tk_id k) (S (tk_depth k)) (tk_panics k).
Definition tid_of (th : thr) : nat := tk_id (l_task th).

(* trySubmit(ctx, task, state): the `state` argument *)
Definition want (th : thr) : pstate := if l_second th then SRunning else SCreated.
(* defer atomic.CompareAndSwapInt32(&b.state, stateLocked, state) *)
Definition unlock_state (s : shared) (th : thr) : shared :=
  if pstate_eqb (s_state s) SLocked then st_state (want th) s else s.
(* trySubmit returns (ok, err) to its call site in Submit *)
Definition back (th : thr) (ok : bool) (e : perr) : thr :=
  goto (if l_second th then SbIf2 else SbIf1) (set_ok ok (set_err e th)).

(* (b.totalGo < b.maxGo) && (rate != 0 && rate >= b.queueBacklogRate) with rate = float64(a)/float64(b):
   b = 0 and a = 0: NaN (NaN != 0 is true, NaN >= x is false); b = 0 < a: +Inf; b > 0: the quotient,
   compared as a rational (exact for the rates 0, 1/2, 1 and small a, b; IEEE rounding is outside the model) *)
Definition allow (P : params) (s : shared) (a b : Z) : bool :=
  (s_total s <? i_max P) &&
  (if b =? 0 then negb (a =? 0)
   else negb (a =? 0) && (i_rn P * b <=? a * i_rd P)).

(* after a taskWrapper.Run activation's deferred closure: the next outer activation's closure, or the worker *)
Definition unwind (th : thr) : thr :=
  if Nat.ltb (l_lvl th) (tk_depth (l_task th)) then goto RwRecIf (set_lvl (S (l_lvl th)) th)
  else goto WRunDec th.

(* every statement except the two selects, the parked state and the user function *)
Definition pstep0 (P : params) (s : shared) (th : thr) : option pout :=
  match pc th with
  (* ---- Submit *)
  | SbNil => stay s (goto (if l_nil th then SbRetInvalid else if i_fixc P then SbWrap else SbFor) th)
  | SbRetInvalid => fin s (RSubmit PEInvalid) []
  | SbFor => stay s (goto SbChkClosing th)
  | SbChkClosing => stay s (goto (if pstate_eqb (s_state s) SClosing then SbRetClosing else SbChkStopped) th)
  | SbRetClosing => fin s (RSubmit PEClosing) [GRej (tid_of th)]
  | SbChkStopped =>
    stay s (goto (if pstate_eqb (s_state s) SStopped then SbRetStopped else if i_fixc P then SbTry1 else SbWrap) th)
  | SbRetStopped => fin s (RSubmit PEStopped) [GRej (tid_of th)]
  | SbWrap => stay s (goto (if i_fixc P then SbFor else SbTry1) (set_task (wrap_task (l_task th)) th))
  | SbTry1 => stay s (goto TsCas (set_second false th))
  | SbIf1 => stay s (goto (if l_ok th || is_err (l_err th) then SbRet1 else SbTry2) th)
  | SbRet1 => fin s (RSubmit (l_err th)) [if is_err (l_err th) then GRej (tid_of th) else GAcc (tid_of th)]
  | SbTry2 => stay s (goto TsCas (set_second true th))
  | SbIf2 => stay s (goto (if l_ok th || is_err (l_err th) then SbRet2 else SbChkClosing) th)
  | SbRet2 => fin s (RSubmit (l_err th)) [if is_err (l_err th) then GRej (tid_of th) else GAcc (tid_of th)]
  (* ---- trySubmit *)
  | TsCas =>
    if pstate_eqb (s_state s) (want th)
    then stay (st_prev (want th) (st_state SLocked s)) (goto TsDefer th)
    else stay s (goto TsRetF1 th)
  | TsDefer => stay s (goto TsSelect th)
  | TsSelect => None
  | TsCaseCtx => stay s (goto TsRetCtx th)
  | TsRetCtx => stay (unlock_state s th) (back th false PECtx)
  | TsCaseSend => stay s (goto TsIfCreate th)
  | TsIfCreate => stay s (goto (if l_second th then AlRLock else TsRetT) th)
  | AlRLock => if s_bw s then None else stay (st_br (s_br s + 1) s) (goto AlDefer th)
  | AlDefer => stay s (goto AlRate th)
  | AlRate => stay s (goto AlRet (set_a (qlen s) (set_b (i_cap P) th)))
  | AlRet =>
    let f := allow P s (l_a th) (l_b th) in
    stay (st_br (s_br s - 1) s) (goto (if f then TsInc else TsRetT) (set_flag f th))
  | TsInc => stay s (goto SiLock th)
  | SiLock => if b_free s then stay (st_bw true s) (goto SiAdd th) else None
  | SiAdd => stay (st_total (s_total s + 1) s) (goto SiUnlock th)
  | SiUnlock => stay (st_bw false s) (goto TsId th)
  | TsId => stay (st_idc (s_idc s + 1) s) (goto TsGo (set_wid (s_idc s + 1) th))
  | TsGo => Some (mkOut s (Some (goto TsRetT th)) None (Some (new_worker (l_wid th))) WkNone [])
  | TsRetT => stay (unlock_state s th) (back th true PENone)
  | TsCaseDefault => stay s (goto TsRetF0 th)
  | TsRetF0 => stay (unlock_state s th) (back th false PENone)
  | TsRetF1 => stay s (back th false PENone)
  (* ---- Start *)
  | StFor => stay s (goto StChkClosing th)
  | StChkClosing => stay s (goto (if pstate_eqb (s_state s) SClosing then StRetClosing else StChkStopped) th)
  | StRetClosing => fin s (RStart PEClosing) []
  | StChkStopped => stay s (goto (if pstate_eqb (s_state s) SStopped then StRetStopped else StChkRunning) th)
  | StRetStopped => fin s (RStart PEStopped) []
  | StChkRunning => stay s (goto (if pstate_eqb (s_state s) SRunning then StRetStarted else StCas) th)
  | StRetStarted => fin s (RStart PEStarted) []
  | StCas =>
    if pstate_eqb (s_state s) SCreated
    then stayg (st_prev SCreated (st_state SLocked s)) (goto StN th) [GBegan]
    else stay s (goto StChkClosing th)
  | StN => stay s (goto NcN th)
  | NcN => stay s (goto NcAllow (set_n (i_init P) th))
  | NcAllow => stay s (goto NcNeed (set_a (i_max P - i_init P) th))
  | NcNeed => stay s (goto NcIf1 (set_b (qlen s - i_init P) th))
  | NcIf1 => stay s (goto (if 0 <? l_b th then NcIf2 else NcRet) th)
  | NcIf2 => stay s (goto (if l_b th <=? l_a th then NcAddNeed else NcAddAllow) th)
  | NcAddNeed => stay s (goto NcRet (set_n (l_n th + l_b th) th))
  | NcAddAllow => stay s (goto NcRet (set_n (l_n th + l_a th) th))
  | NcRet => stay s (goto StInc th)
  | StInc => stay s (goto TiLock th)
  | TiLock => if b_free s then stay (st_bw true s) (goto TiAdd th) else None
  | TiAdd => stay (st_total (s_total s + l_n th) s) (goto TiUnlock th)
  | TiUnlock => stay (st_bw false s) (goto StLoop th)
  | StLoop => stay s (goto (if 0 <? l_n th then StGo else StCasRun) (set_a 0 th))
  | StGo =>
    Some (mkOut (st_idc (s_idc s + 1) s)
                (Some (goto (if l_a th + 1 <? l_n th then StGo else StCasRun) (set_a (l_a th + 1) th)))
                None (Some (new_worker (s_idc s + 1))) WkNone [])
  | StCasRun =>
    stay (if pstate_eqb (s_state s) SLocked then st_state SRunning s else s) (goto StRetNil th)
  | StRetNil => fin s (RStart PENone) [GStartOk]
  (* ---- Shutdown *)
  | ShFor => stay s (goto ShChkCreated th)
  | ShChkCreated => stay s (goto (if pstate_eqb (s_state s) SCreated then ShRetNotRunning else ShChkStopped) th)
  | ShRetNotRunning => fin s (RShutdown PENotRunning) []
  | ShChkStopped => stay s (goto (if pstate_eqb (s_state s) SStopped then ShRetStopped else ShChkClosing) th)
  | ShRetStopped => fin s (RShutdown PEStopped) []
  | ShChkClosing => stay s (goto (if pstate_eqb (s_state s) SClosing then ShRetClosing else ShCas) th)
  | ShRetClosing => fin s (RShutdown PEClosing) []
  | ShCas =>
    if pstate_eqb (s_state s) SRunning then stayg (st_state SClosing s) (goto ShClose th) [GShut]
    else stay s (goto ShChkCreated th)
  | ShClose =>
    if s_closed s then Some (mkOut s None (Some RPanicClose) None WkNone [])
    else Some (mkOut (st_closed true s) (Some (goto ShRet th)) None None WkClose [])
  | ShRet => fin s (RShutdown PENone) [GShutOk]
  (* ---- ShutdownNow *)
  | SnFor => stay s (goto SnChkCreated th)
  | SnChkCreated => stay s (goto (if pstate_eqb (s_state s) SCreated then SnRetNotRunning else SnChkClosing) th)
  | SnRetNotRunning => fin s (RShutdownNow PENotRunning []) []
  | SnChkClosing => stay s (goto (if pstate_eqb (s_state s) SClosing then SnRetClosing else SnChkStopped) th)
  | SnRetClosing => fin s (RShutdownNow PEClosing []) []
  | SnChkStopped => stay s (goto (if pstate_eqb (s_state s) SStopped then SnRetStopped else SnCas) th)
  | SnRetStopped => fin s (RShutdownNow PEStopped []) []
  | SnCas =>
    if pstate_eqb (s_state s) SRunning then stayg (st_state SStopped s) (goto SnClose th) [GNow]
    else stay s (goto SnChkCreated th)
  | SnClose =>
    if s_closed s then Some (mkOut s None (Some RPanicClose) None WkNone [])
    else Some (mkOut (st_closed true s) (Some (goto SnCancel th)) None None WkClose [])
  | SnCancel => Some (mkOut (st_ictx true s) (Some (goto SnMake th)) None None WkCancel [])
  | SnMake => stay s (goto SnRange th)
  | SnRange =>
    match s_q s with
    | k :: r => stay (st_q r s) (goto SnAppend (set_task k th))
    | [] => if s_closed s then stay s (goto SnRet th) else None
    end
  | SnAppend =>
    match s_q s with
    | k :: r => stay (st_q r s) (goto SnAppend (set_task k (set_acc (l_acc th ++ [l_task th]) th)))
    | [] => if s_closed s then stay s (goto SnRet (set_acc (l_acc th ++ [l_task th]) th)) else None
    end
  | SnRet =>
    fin s (RShutdownNow PENone (map tk_id (l_acc th))) [GReturned (map tk_id (l_acc th)); GShutOk]
  (* ---- goroutine: start *)
  | WNewTimer => stay s (goto WStop0 (set_tm TmArmed th))
  | WStop0 =>
    match l_tm th with
    | TmFired => stay s (goto WDrain0 th)
    | _ => stay s (goto WFor (set_tm TmDead th))
    end
  | WDrain0 => match l_tm th with TmFired => stay s (goto WFor (set_tm TmDead th)) | _ => None end
  | WFor => stay s (goto WSelect th)
  | WSelect => None
  | WParked => None
  (* ---- interrupt branch *)
  | WCaseInt => stay s (goto WIntDec th)
  | WIntDec => stay s (goto WIdLock th)
  | WIdLock => if b_free s then stay (st_bw true s) (goto WIdSub th) else None
  | WIdSub => stay (st_total (s_total s - 1) s) (goto WIdUnlock th)
  | WIdUnlock => stay (st_bw false s) (goto WIntRet th)
  | WIntRet => quit s
  (* ---- idle-timer branch *)
  | WCaseTimer => stay s (goto WTmLock th)
  | WTmLock => if b_free s then stay (st_bw true s) (goto WTmDecr th) else None
  | WTmDecr => stay (st_total (s_total s - 1) s) (goto (if i_fixb P then WTmLeft else WTmDel) th)
  | WTmLeft => stay s (goto WTmDel (set_n (s_total s) th))
  | WTmDel => stay s (goto TdLock th)
  | TdLock => if g_free s then stay (st_gw true s) (goto TdDefer th) else None
  | TdDefer => stay s (goto TdIf th)
  | TdIf => stay s (goto (if zmem (l_wid th) (s_mp s) then TdDec else TdDelete) th)
  | TdDec => stay (st_gn (s_gn s - 1) s) (goto TdDelete th)
  | TdDelete => stay (st_gw false (st_mp (zremove (l_wid th) (s_mp s)) s)) (goto WTmUnlock th)
  | WTmUnlock => stay (st_bw false s) (goto (if i_fixb P then WTmIfLeft else WTmRet) th)
  | WTmIfLeft => stay s (goto (if l_n th =? 0 then WTmCas else WTmRet) th)
  | WTmCas =>
    if pstate_eqb (s_state s) SClosing then stay (st_state SStopped s) (goto WTmCancel th)
    else stay s (goto WTmRet th)
  | WTmCancel => Some (mkOut (st_ictx true s) (Some (goto WTmRet th)) None None WkCancel [GGrace])
  | WTmRet => quit s
  (* ---- queue branch *)
  | WCaseQueue => stay s (goto WIfIsIn th)
  | WIfIsIn => stay s (goto IiRLock th)
  | IiRLock => if s_gw s then None else stay (st_gr (s_gr s + 1) s) (goto IiDefer th)
  | IiDefer => stay s (goto IiLookup th)
  | IiLookup => stay s (goto IiRet (set_flag (zmem (l_wid th) (s_mp s)) th))
  | IiRet => stay (st_gr (s_gr s - 1) s) (goto (if l_flag th then WRcDel else WIfNotOk) th)
  | WRcDel => stay s (goto RdLock th)
  | RdLock => if g_free s then stay (st_gw true s) (goto RdDefer th) else None
  | RdDefer => stay s (goto RdIf th)
  | RdIf => stay s (goto (if zmem (l_wid th) (s_mp s) then RdDec else RdDelete) th)
  | RdDec => stay (st_gn (s_gn s - 1) s) (goto RdDelete th)
  | RdDelete => stay (st_gw false (st_mp (zremove (l_wid th) (s_mp s)) s)) (goto WStop1 th)
  | WStop1 =>
    match l_tm th with
    | TmFired => stay s (goto WDrain1 th)
    | _ => stay s (goto WIfNotOk (set_tm TmDead th))
    end
  | WDrain1 => match l_tm th with TmFired => stay s (goto WIfNotOk (set_tm TmDead th)) | _ => None end
  | WIfNotOk => stay s (goto (if l_ok th then WRunInc else WClDec) th)
  (* ---- closed queue *)
  | WClDec => stay s (goto CdLock th)
  | CdLock => if b_free s then stay (st_bw true s) (goto CdSub th) else None
  | CdSub => stay (st_total (s_total s - 1) s) (goto CdUnlock th)
  | CdUnlock => stay (st_bw false s) (goto WClIfNum th)
  | WClIfNum => stay s (goto NgRLock th)
  | NgRLock => if s_bw s then None else stay (st_br (s_br s + 1) s) (goto NgRead th)
  | NgRead => stay s (goto NgRUnlock (set_n (s_total s) th))
  | NgRUnlock => stay (st_br (s_br s - 1) s) (goto NgRet th)
  | NgRet => stay s (goto (if l_n th =? 0 then WClCas else WClRet) th)
  | WClCas =>
    if pstate_eqb (s_state s) SClosing then stay (st_state SStopped s) (goto WClCancel th)
    else stay s (goto WClRet th)
  | WClCancel => Some (mkOut (st_ictx true s) (Some (goto WClRet th)) None None WkCancel [GGrace])
  | WClRet => quit s
  (* ---- running the task *)
  | WRunInc => stay (st_running (s_running s + 1) s) (goto WRun th)
  | WRun =>
    match tk_depth (l_task th) with
    | O => None            (* every queued task went through `task = &taskWrapper{t: task}` *)
    | S _ => stay s (goto RwDefer (set_lvl (tk_depth (l_task th)) th))
    end
  | RwDefer => stay s (goto RwRet th)
  | RwRet =>
    match l_lvl th with
    | S (S k) => stay s (goto RwDefer (set_lvl (S k) th))
    | _ => stay s (goto TfRet th)
    end
  | TfRet => stayg s (goto WUser th) [GStarted (tid_of th)]
  | WUser => None
  | RwRecIf => if l_pan th then stay s (goto RwBuf (set_pan false th)) else stay s (unwind th)
  | RwBuf => stay s (goto RwStack th)
  | RwStack => stay s (goto RwErr th)
  | RwErr => stay s (unwind th)
  | WRunDec => stay (st_running (s_running s - 1) s) (goto WBkLock th)
  (* ---- bookkeeping block *)
  | WBkLock => if b_free s then stay (st_bw true s) (goto WBkNoTasks th) else None
  | WBkNoTasks => stay s (goto WBkIf1 (set_nt ((qlen s =? 0) || (qlen s <? s_total s)) th))
  | WBkIf1 =>
    let c3 := (i_core P <? s_total s) && (s_total s <=? i_max P) && l_nt th in
    if i_fixa P then stay s (goto (if c3 then Z1RLock else WBkIf2) th)
    else stay s (goto (if c3 then WBkDecr else WBkIf2) th)
  | Z1RLock => if s_gw s then None else stay (st_gr (s_gr s + 1) s) (goto Z1Defer th)
  | Z1Defer => stay s (goto Z1Ret th)
  | Z1Ret =>
    stay (st_gr (s_gr s - 1) s)
         (goto (if i_init P <? s_total s - s_gn s then WBkDecr else WBkIf2) (set_n (s_gn s) th))
  | WBkDecr => stay (st_total (s_total s - 1) s) (goto WBkUnlock1 th)
  | WBkUnlock1 => stay (st_bw false s) (goto WBkRet th)
  | WBkRet => quit s
  | WBkIf2 => stay s (goto Z2RLock th)
  | Z2RLock => if s_gw s then None else stay (st_gr (s_gr s + 1) s) (goto Z2Defer th)
  | Z2Defer => stay s (goto Z2Ret th)
  | Z2Ret =>
    stay (st_gr (s_gr s - 1) s)
         (goto (if i_init P <? s_total s - s_gn s then WBkNewTimer else WBkUnlock2) (set_n (s_gn s) th))
  | WBkNewTimer => stay s (goto WBkAdd (set_tm TmArmed th))
  | WBkAdd => stay s (goto GaLock th)
  | GaLock => if g_free s then stay (st_gw true s) (goto GaDefer th) else None
  | GaDefer => stay s (goto GaIf th)
  | GaIf =>
    if zmem (l_wid th) (s_mp s) then stay (st_gw false s) (goto WBkUnlock2 th)
    else stay s (goto GaSet th)
  | GaSet => stay (st_mp (l_wid th :: s_mp s) s) (goto GaInc th)
  | GaInc => stay (st_gw false (st_gn (s_gn s + 1) s)) (goto WBkUnlock2 th)
  | WBkUnlock2 => stay (st_bw false s) (goto WSelect th)
  end.

(* trySubmit's select: ctx.Done() / b.queue <- task / default *)
Definition send_ready (P : params) (parked : list tid) (s : shared) : bool :=
  s_closed s || (match parked with [] => false | _ => true end) || (qlen s <? i_cap P).

Definition ts_select (P : params) (parked : list tid) (s : shared) (th : thr) (ch : choice) : option pout :=
  match ch with
  | CCtx => if l_cancel th then stay s (goto TsCaseCtx th) else None
  | CSend r =>
    if s_closed s then
      match r with
      | None => Some (mkOut (unlock_state s th) None (Some RPanicSend) None WkNone [GRej (tid_of th)])
      | Some _ => None
      end
    else
      match r with
      | Some w =>
        if tmem w parked
        then Some (mkOut s (Some (goto TsCaseSend th)) None None (WkRecv w (l_task th)) [GSent (tid_of th)])
        else None
      | None =>
        match parked with
        | [] => if qlen s <? i_cap P
                then stayg (st_q (s_q s ++ [l_task th]) s) (goto TsCaseSend th) [GSent (tid_of th)]
                else None
        | _ :: _ => None
        end
      end
  | CDefault =>
    if l_cancel th || send_ready P parked s then None else stay s (goto TsCaseDefault th)
  | _ => None
  end.

(* the worker's select: interruptCtx.Done() / idleTimer.C / b.queue *)
Definition tm_fired (th : thr) : bool := match l_tm th with TmFired => true | _ => false end.
Definition q_ready (s : shared) : bool := (match s_q s with [] => false | _ => true end) || s_closed s.

Definition w_select (s : shared) (th : thr) (ch : choice) : option pout :=
  match ch with
  | CInt => if s_ictx s then stay s (goto WCaseInt th) else None
  | CTimer => if tm_fired th then stay s (goto WCaseTimer (set_tm TmDead th)) else None
  | CQueue =>
    match s_q s with
    | k :: r => stay (st_q r s) (goto WCaseQueue (set_has true (set_ok true (set_task k th))))
    | [] => if s_closed s then stay s (goto WCaseQueue (set_ok false (set_task task0 th))) else None
    end
  | C0 => if s_ictx s || tm_fired th || q_ready s then None else stay s (goto WParked th)
  | _ => None
  end.

Definition pstep (P : params) (parked : list tid) (s : shared) (th : thr) (ch : choice) : option pout :=
  match pc th with
  | TsSelect => ts_select P parked s th ch
  | WSelect => w_select s th ch
  | _ => match ch with C0 => pstep0 P s th | _ => None end
  end.

(* ---------------------------------------------------------------- whole configurations *)
Record pcfg := mkCfg {
  c_par : params;
  c_sh : shared;
  c_thr : list (tid * thr);
  c_next : nat;        (* tid the next spawned worker registers with *)
  c_ntask : nat;       (* id of the next submitted task *)
  c_gh : ghost
}.

Definition sh0 : shared :=
  mkSh SCreated SCreated [] false 0 0 [] 0 false 0 false 0 0 false.
Definition gh0 : ghost := mkGh [] [] [] [] [] [] 0 0 false false false false.
Definition pinit (P : params) : pcfg := mkCfg P sh0 [] (i_base P) O gh0.

Definition apply_gev (g : ghost) (e : gev) : ghost :=
  match e with
  | GSent i => gs_sent (g_sent g ++ [i]) g
  | GStarted i => gs_started (g_started g ++ [i]) g
  | GDone i => gs_done (g_done g ++ [i]) g
  | GReturned l => gs_returned (g_returned g ++ l) g
  | GAcc i => gs_acc (g_acc g ++ [i]) g
  | GRej i => gs_rej (g_rej g ++ [i]) g
  | GStartOk => gs_starts (g_starts g + 1) g
  | GShutOk => gs_shuts (g_shuts g + 1) g
  | GNow => gs_now true g
  | GGrace => gs_grace true g
  | GBegan => gs_began true g
  | GShut => gs_shut true g
  end.
Definition apply_gevs (g : ghost) (l : list gev) : ghost := fold_left apply_gev l g.

Definition is_parked (th : thr) : bool := match pc th with WParked => true | _ => false end.
Fixpoint parked_of (l : list (tid * thr)) : list tid :=
  match l with
  | [] => []
  | (t, th) :: r => if is_parked th then t :: parked_of r else parked_of r
  end.

(* all parked workers move to the pc produced by f; returns the new table and the tids woken *)
Fixpoint wake_all (f : thr -> thr) (l : list (tid * thr)) : list (tid * thr) * list (tid * thr) :=
  match l with
  | [] => ([], [])
  | (t, th) :: r =>
    let (r', w) := wake_all f r in
    if is_parked th then ((t, f th) :: r', (t, f th) :: w) else ((t, th) :: r', w)
  end.

Definition recv_ok (k : task) (th : thr) : thr :=
  goto WCaseQueue (set_has true (set_ok true (set_task k th))).
Definition recv_closed (th : thr) : thr := goto WCaseQueue (set_ok false (set_task task0 th)).
Definition recv_int (th : thr) : thr := goto WCaseInt th.

Definition apply_wake (w : wake) (l : list (tid * thr)) : option (list (tid * thr) * list (tid * thr)) :=
  match w with
  | WkNone => Some (l, [])
  | WkRecv r k =>
    match lookup r l with
    | Some th => if is_parked th then Some (update r (recv_ok k th) l, [(r, recv_ok k th)]) else None
    | None => None
    end
  | WkClose => Some (wake_all recv_closed l)
  | WkCancel => Some (wake_all recv_int l)
  end.

Inductive pobs :=
| OAt (p : ppc) (k : nat)      (* arrival at a yield point; k = task id (only used by the user-function label) *)
| ORet (r : pret).

Definition obs_of (t : tid) (th : thr) : list (tid * pobs) :=
  if is_parked th then [] else [(t, OAt (pc th) (tid_of th))].

Inductive pev :=
| PCall (t : tid) (op : pop)
| PStep (t : tid) (ch : choice)
| PCancel (t : tid)            (* the ctx of client call t is cancelled *)
| PFire (t : tid)              (* worker t's armed idle timer fires *)
| PFinish (t : tid).           (* the user function run by worker t returns / panics *)

(* a call is LATE when it is invoked after a Shutdown / ShutdownNow has taken effect (history flag) *)
Definition is_down (s : shared) : bool :=
  match s_state s with SClosing | SStopped => true | _ => false end.

Definition enter0 (op : pop) : thr :=
  match op with
  | OpSubmit id p => set_task (mkTask id O p) (thr0 SbNil)
  | OpSubmitNil => set_nil true (thr0 SbNil)
  | OpStart => thr0 StFor
  | OpShutdown => thr0 ShFor
  | OpShutdownNow => thr0 SnFor
  end.
Definition enter (s : shared) (op : pop) : thr := set_late (is_down s) (enter0 op).

Definition with_thr (c : pcfg) (l : list (tid * thr)) : pcfg :=
  mkCfg (c_par c) (c_sh c) l (c_next c) (c_ntask c) (c_gh c).

Definition apply_out (c : pcfg) (t : tid) (o : pout) : option (pcfg * list (tid * pobs)) :=
  let l1 := match o_th o with Some th' => update t th' (c_thr c) | None => remove t (c_thr c) end in
  match apply_wake (o_wake o) l1 with
  | None => None
  | Some (l2, woken) =>
    let l3 := match o_spawn o with Some w => spawn (c_next c) w l2 | None => l2 end in
    let nx := match o_spawn o with Some _ => S (c_next c) | None => c_next c end in
    let ob_self := match o_th o with
                   | Some th' => obs_of t th'
                   | None => match o_ret o with Some r => [(t, ORet r)] | None => [] end
                   end in
    let ob_spawn := match o_spawn o with Some w => obs_of (c_next c) w | None => [] end in
    let ob_wake := flat_map (fun x => obs_of (fst x) (snd x)) woken in
    Some (mkCfg (c_par c) (o_sh o) l3 nx (c_ntask c) (apply_gevs (c_gh c) (o_gev o)),
          ob_self ++ ob_spawn ++ ob_wake)
  end.

Definition pexec1 (c : pcfg) (e : pev) : option (pcfg * list (tid * pobs)) :=
  match e with
  | PCall t op =>
    match lookup t (c_thr c) with
    | Some _ => None
    | None =>
      if Nat.ltb t (i_base (c_par c)) then
        match op with
        | OpSubmit id _ =>
          if Nat.eqb id (c_ntask c)
          then Some (mkCfg (c_par c) (c_sh c) (spawn t (enter (c_sh c) op) (c_thr c)) (c_next c) (S (c_ntask c)) (c_gh c),
                     obs_of t (enter (c_sh c) op))
          else None
        | _ => Some (with_thr c (spawn t (enter (c_sh c) op) (c_thr c)), obs_of t (enter (c_sh c) op))
        end
      else None
    end
  | PStep t ch =>
    match lookup t (c_thr c) with
    | None => None
    | Some th =>
      match pstep (c_par c) (parked_of (c_thr c)) (c_sh c) th ch with
      | None => None
      | Some o => apply_out c t o
      end
    end
  | PCancel t =>
    match lookup t (c_thr c) with
    | None => None
    | Some th =>
      if l_cancel th then None
      else Some (with_thr c (update t (set_cancel true th) (c_thr c)), [])
    end
  | PFire t =>
    match lookup t (c_thr c) with
    | None => None
    | Some th =>
      match l_tm th with
      | TmArmed =>
        if is_parked th
        then Some (with_thr c (update t (goto WCaseTimer (set_tm TmDead th)) (c_thr c)),
                   obs_of t (goto WCaseTimer (set_tm TmDead th)))
        else Some (with_thr c (update t (set_tm TmFired th) (c_thr c)), [])
      | _ => None
      end
    end
  | PFinish t =>
    match lookup t (c_thr c) with
    | None => None
    | Some th =>
      match pc th with
      | WUser =>
        let th' := goto RwRecIf (set_lvl 1%nat (set_pan (tk_panics (l_task th)) (set_has false th))) in
        apply_out c t (mkOut (c_sh c) (Some th') None None WkNone [GDone (tid_of th)])
      | _ => None
      end
    end
  end.

Definition pstep_cfg (c : pcfg) (e : pev) : option pcfg :=
  match pexec1 c e with Some (c', _) => Some c' | None => None end.

(* ---------------------------------------------------------------- the constructor (sequential) *)
(* NewOnDemandBlockTaskPool(initGo, queueSize, opts...): the options WithCoreGo / WithMaxGo /
   WithQueueBacklogRate are applied in order to the defaults core = max = initGo, rate = 0.
   The rate is a rational rn/rd (rd > 0); NaN is outside the model. *)
Inductive popt := OCore (n : Z) | OMax (n : Z) | ORate (rn rd : Z).

Record ctor_st := mkCt { ct_core : Z; ct_max : Z; ct_rn : Z; ct_rd : Z }.
Definition apply_opt (a : ctor_st) (o : popt) : ctor_st :=
  match o with
  | OCore n => mkCt n (ct_max a) (ct_rn a) (ct_rd a)
  | OMax n => mkCt (ct_core a) n (ct_rn a) (ct_rd a)
  | ORate rn rd => mkCt (ct_core a) (ct_max a) rn rd
  end.

Inductive ctor_res := CtErr | CtOk (init core max cap rn rd : Z).

Definition pool_new (initGo queueSize : Z) (opts : list popt) : ctor_res :=
  if initGo <? 1 then CtErr
  else if queueSize <? 0 then CtErr
  else
    let a := fold_left apply_opt opts (mkCt initGo initGo 0 1) in
    let core := ct_core a in
    let mx := ct_max a in
    let '(core, mx) :=
      if negb (core =? initGo) && (mx =? initGo) then (core, core)
      else if (core =? initGo) && negb (mx =? initGo) then (mx, mx)
      else (core, mx) in
    if negb ((initGo <=? core) && (core <=? mx)) then CtErr
    else if (ct_rn a <? 0) || (ct_rd a <? ct_rn a) then CtErr
    else CtOk initGo core mx queueSize (ct_rn a) (ct_rd a).
