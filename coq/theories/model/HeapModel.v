(* HeapModel — executable model of ekit's PriorityQueue
   (/repo/internal/queue/priority_queue.go; /repo/queue/priority_queue.go is a pure
   delegating wrapper).  Definitions only; proofs are in proof/HeapProof.v, the property
   statements in props/C05.v.

   Representation.  `data` is the Go slice p.data INCLUDING the unused slot 0, so every
   index below is literally the code's index: root = 1, parent = node/2, children 2i and
   2i+1, Len() = len(data)-1.  Elements are Z; the user's comparator is the Section
   variable `cmp` (no laws here: the laws are premises of the theorems only).

   Every slice access is checked (`get`): an index out of range is the outcome HPanic,
   exactly where Go would raise the run-time panic.  Loops (`for` in Enqueue, `for` in
   heapify) run on fuel = len(data); running out of fuel is the distinct outcome
   HOutOfFuel.  "never HPanic, never HOutOfFuel" are theorems (props/C05.v).

   slice.Shrink (internal/slice/shrink.go) re-allocates with a smaller capacity and copies
   all len(src) elements (n >= 1.25*len in every branch, so the copy never re-grows):
   it preserves the contents; the capacity of a Go slice is not observable through the
   PriorityQueue API, so `shrink` is the identity on the model's `data`. *)
From Ekit Require Import Common.
From Coq Require Import Arith Permutation.

Inductive hres (A : Type) :=
| HOk (a : A)
| HErr (e : eclass)
| HPanic
| HOutOfFuel.
Arguments HOk {A} a.
Arguments HErr {A} e.
Arguments HPanic {A}.
Arguments HOutOfFuel {A}.

Definition hbind {A B} (r : hres A) (f : A -> hres B) : hres B :=
  match r with
  | HOk a => f a
  | HErr e => HErr e
  | HPanic => HPanic
  | HOutOfFuel => HOutOfFuel
  end.

(* data[i] with Go's bounds check *)
Definition get (d : list Z) (i : nat) : hres Z :=
  match nth_opt d i with Some x => HOk x | None => HPanic end.

(* data[i], data[j] = data[j], data[i]  (both operands are read, then both written) *)
Definition swap (d : list Z) (i j : nat) : hres (list Z) :=
  hbind (get d i) (fun x =>
  hbind (get d j) (fun y =>
  HOk (set_nth (set_nth d i y) j x))).

(* slice.Shrink: contents-preserving (see header) *)
Definition shrink (d : list Z) : list Z := d.

Record pq := { capacity : Z; data : list Z }.

Inductive op := Enqueue (v : Z) | Dequeue | Peek | Len.
Inductive ret := RUnit | RVal (v : Z) | RLen (n : Z).

Section WithCmp.
  Variable cmp : Z -> Z -> Z.

  (* NewPriorityQueue: capacity < 1 means unbounded (stored as 0); data = make([]T, 1, _) *)
  Definition new_pq (c : Z) : pq :=
    {| capacity := if c <? 1 then 0 else c; data := [0] |}.

  Definition pq_len (p : pq) : Z := Z.of_nat (length (data p)) - 1.
  Definition is_boundless (p : pq) : bool := capacity p <=? 0.
  Definition is_full (p : pq) : bool :=
    (0 <? capacity p) && (Z.of_nat (length (data p)) - 1 =? capacity p).
  Definition is_empty (p : pq) : bool := (length (data p) <? 2)%nat.

  (* for parent > 0 && compare(data[node], data[parent]) < 0 { swap; node = parent; parent /= 2 } *)
  Fixpoint sift_up (fuel : nat) (d : list Z) (node parent : nat) : hres (list Z) :=
    match fuel with
    | O => HOutOfFuel
    | S f =>
      if (0 <? parent)%nat then
        hbind (get d node) (fun x =>
        hbind (get d parent) (fun y =>
        if cmp x y <? 0 then
          hbind (swap d parent node) (fun d' => sift_up f d' parent (parent / 2))
        else HOk d))
      else HOk d
    end.

  (* one evaluation of
       if c := <child>; c <= n && compare(data[c], data[minPos]) < 0 { minPos = c } *)
  Definition pick (d : list Z) (n child minPos : nat) : hres nat :=
    if (child <=? n)%nat then
      hbind (get d child) (fun x =>
      hbind (get d minPos) (fun y =>
      HOk (if cmp x y <? 0 then child else minPos)))
    else HOk minPos.

  (* heapify(data, n, i): minPos := i; for { left; right; if minPos == i break; swap; i = minPos } *)
  Fixpoint heapify (fuel : nat) (d : list Z) (n i minPos : nat) : hres (list Z) :=
    match fuel with
    | O => HOutOfFuel
    | S f =>
      hbind (pick d n (i * 2) minPos) (fun m1 =>
      hbind (pick d n (i * 2 + 1) m1) (fun m2 =>
      if (m2 =? i)%nat then HOk d
      else hbind (swap d i m2) (fun d' => heapify f d' n m2 m2)))
    end.

  Definition enqueue (p : pq) (v : Z) : pq * hres ret :=
    if is_full p then (p, HErr EFull)
    else
      let d := data p ++ [v] in
      let node := (length d - 1)%nat in
      let parent := ((length d - 1) / 2)%nat in
      match sift_up (length d) d node parent with
      | HOk d' => ({| capacity := capacity p; data := d' |}, HOk RUnit)
      | HErr e => (p, HErr e)
      | HPanic => (p, HPanic)
      | HOutOfFuel => (p, HOutOfFuel)
      end.

  Definition shrink_if_necessary (p : pq) (d : list Z) : list Z :=
    if is_boundless p then shrink d else d.

  Definition dequeue (p : pq) : pq * hres ret :=
    if is_empty p then (p, HErr EEmpty)
    else
      let d := data p in
      let r :=
        hbind (get d 1) (fun pop =>                       (* pop := p.data[1] *)
        hbind (get d (length d - 1)) (fun last =>         (* p.data[len-1] *)
        hbind (if (1 <? length d)%nat then HOk (set_nth d 1 last) else HPanic) (fun d1 =>
        hbind (if (1 <=? length d1)%nat                  (* p.data[:len-1] *)
               then HOk (firstn (length d1 - 1) d1) else HPanic) (fun d2 =>
        let d3 := shrink_if_necessary p d2 in
        hbind (heapify (length d3) d3 (length d3 - 1) 1 1) (fun d4 =>
        HOk (d4, pop)))))) in
      match r with
      | HOk (d4, pop) => ({| capacity := capacity p; data := d4 |}, HOk (RVal pop))
      | HErr e => (p, HErr e)
      | HPanic => (p, HPanic)
      | HOutOfFuel => (p, HOutOfFuel)
      end.

  Definition peek (p : pq) : hres ret :=
    if is_empty p then HErr EEmpty
    else hbind (get (data p) 1) (fun x => HOk (RVal x)).

  Definition step (p : pq) (o : op) : pq * hres ret :=
    match o with
    | Enqueue v => enqueue p v
    | Dequeue => dequeue p
    | Peek => (p, peek p)
    | Len => (p, HOk (RLen (pq_len p)))
    end.

  Fixpoint run (p : pq) (ops : list op) : pq * list (hres ret) :=
    match ops with
    | [] => (p, [])
    | o :: t =>
      let (p1, r) := step p o in
      let (p2, rs) := run p1 t in
      (p2, r :: rs)
    end.

  (* the states of all intermediate steps (used by the driver to print the array after every op) *)
  Fixpoint run_trace (p : pq) (ops : list op) : list (hres ret * list Z) :=
    match ops with
    | [] => []
    | o :: t => let (p1, r) := step p o in (r, data p1) :: run_trace p1 t
    end.

  (* ---------- specification vocabulary ---------- *)

  (* the elements held: the array without the unused slot 0 *)
  Definition contents (p : pq) : list Z := tl (data p).

  (* binary min-heap order on the 1-based array: every non-root slot is >= its parent *)
  Definition heap_inv (d : list Z) : Prop :=
    forall i, (2 <= i < length d)%nat -> cmp (nth (i / 2) d 0) (nth i d 0) <= 0.

  (* decidable version, evaluated by the search layer on the implementation's array dump *)
  Definition heap_invb (d : list Z) : bool :=
    forallb (fun i => (i <? 2)%nat || (cmp (nth (i / 2) d 0) (nth i d 0) <=? 0)) (seq 0 (length d)).

  Definition well_formed (p : pq) : Prop :=
    (1 <= length (data p))%nat /\ heap_inv (data p) /\ 0 <= capacity p /\
    (0 < capacity p -> pq_len p <= capacity p).

  Inductive reachable (c : Z) : pq -> Prop :=
  | reach_new : reachable c (new_pq c)
  | reach_step p o : reachable c p -> reachable c (fst (step p o)).

  Definition is_min (x : Z) (bag : list Z) : Prop := forall y, In y bag -> cmp x y <= 0.

  (* The abstract sorted multiset: `bag` is the multiset held (as a list up to Permutation),
     `c` the capacity given to the constructor (c <= 0: unbounded).  One rule per
     operation and answer; no rule answers HPanic or HOutOfFuel, and for every bag and
     operation the class of the answer is determined (full <-> EFull, empty <-> EEmpty). *)
  Inductive abs_step (c : Z) (bag : list Z) : op -> hres ret -> list Z -> Prop :=
  | abs_enq_full v :
      0 < c -> Z.of_nat (length bag) = c -> abs_step c bag (Enqueue v) (HErr EFull) bag
  | abs_enq_ok v bag' :
      ~ (0 < c /\ Z.of_nat (length bag) = c) -> Permutation bag' (v :: bag) ->
      abs_step c bag (Enqueue v) (HOk RUnit) bag'
  | abs_deq_empty : bag = [] -> abs_step c bag Dequeue (HErr EEmpty) bag
  | abs_deq_ok x bag' :
      Permutation bag (x :: bag') -> is_min x bag ->
      abs_step c bag Dequeue (HOk (RVal x)) bag'
  | abs_peek_empty : bag = [] -> abs_step c bag Peek (HErr EEmpty) bag
  | abs_peek_ok x : In x bag -> is_min x bag -> abs_step c bag Peek (HOk (RVal x)) bag
  | abs_len : abs_step c bag Len (HOk (RLen (Z.of_nat (length bag)))) bag.

  Inductive abs_run (c : Z) : list Z -> list op -> list (hres ret) -> list Z -> Prop :=
  | abs_run_nil bag : abs_run c bag [] [] bag
  | abs_run_cons bag o r bag1 ops rs bag2 :
      abs_step c bag o r bag1 -> abs_run c bag1 ops rs bag2 ->
      abs_run c bag (o :: ops) (r :: rs) bag2.

  (* values successfully enqueued / dequeued along a history with its answers *)
  Fixpoint enqueued (ops : list op) (rs : list (hres ret)) : list Z :=
    match ops, rs with
    | Enqueue v :: t, HOk _ :: rt => v :: enqueued t rt
    | _ :: t, _ :: rt => enqueued t rt
    | _, _ => []
    end.
  Fixpoint dequeued (ops : list op) (rs : list (hres ret)) : list Z :=
    match ops, rs with
    | Dequeue :: t, HOk (RVal x) :: rt => x :: dequeued t rt
    | _ :: t, _ :: rt => dequeued t rt
    | _, _ => []
    end.

  (* executable acceptance test of the abstract specification for one observed answer
     (search layer: run on the implementation's answers).  Returns the next bag. *)
  Fixpoint remove_one (x : Z) (l : list Z) : list Z :=
    match l with
    | [] => []
    | y :: t => if x =? y then t else y :: remove_one x t
    end.
  Definition memb (x : Z) (l : list Z) : bool := existsb (Z.eqb x) l.
  Definition is_minb (x : Z) (l : list Z) : bool := forallb (fun y => cmp x y <=? 0) l.
  Definition abs_fullb (c : Z) (bag : list Z) : bool :=
    (0 <? c) && (Z.of_nat (length bag) =? c).

  Definition abs_stepb (c : Z) (bag : list Z) (o : op) (r : hres ret) : option (list Z) :=
    match o, r with
    | Enqueue v, HErr EFull => if abs_fullb c bag then Some bag else None
    | Enqueue v, HOk RUnit => if abs_fullb c bag then None else Some (v :: bag)
    | Dequeue, HErr EEmpty => match bag with [] => Some bag | _ => None end
    | Dequeue, HOk (RVal x) =>
        if memb x bag && is_minb x bag then Some (remove_one x bag) else None
    | Peek, HErr EEmpty => match bag with [] => Some bag | _ => None end
    | Peek, HOk (RVal x) => if memb x bag && is_minb x bag then Some bag else None
    | Len, HOk (RLen n) => if n =? Z.of_nat (length bag) then Some bag else None
    | _, _ => None
    end.

  (* index of the first answer the specification rejects (None: whole history accepted) *)
  Fixpoint abs_first_reject (c : Z) (bag : list Z) (ops : list op) (rs : list (hres ret)) (k : nat)
    : option nat :=
    match ops, rs with
    | o :: t, r :: rt =>
      match abs_stepb c bag o r with
      | Some bag' => abs_first_reject c bag' t rt (S k)
      | None => Some k
      end
    | _, _ => None
    end.
End WithCmp.

(* comparator families used by the harness *)
Definition hcmp_asc (a b : Z) : Z := Z.sgn (a - b).
Definition hcmp_desc (a b : Z) : Z := Z.sgn (b - a).
Definition hcmp_mod3 (a b : Z) : Z := Z.sgn (a mod 3 - b mod 3).   (* many ties *)
