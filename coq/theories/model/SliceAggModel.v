(* C16, small extension of SliceModel for the correspondence check: Max / Min / Sum at int8, uint8
   and float64 (floats as (order key, bit pattern): Max / Min only compare, so the model needs the
   IEEE order, not the arithmetic), and the single-pair functions of tuple/pair (NewPair, Split,
   String).  Definitions only. *)
From Ekit Require Import Common SliceModel ValueModel.

(* res += n at width 8: signed wraps two's complement, unsigned modulo 256 *)
Definition sum8 (signed : bool) (ts : list Z) : Z :=
  fold_left (fun res n => if signed then wrap_s 8 (res + n) else wrap_u 8 (res + n)) ts 0.

(* Max / Min over values that carry their order key: res := ts[0]; if ts[i] > res { res = ts[i] }
   (strict comparison: among equal keys, e.g. -0.0 and +0.0, the FIRST one is returned) *)
Definition max_key (ts : list (Z * Z)) : outcome (Z * Z) :=
  match ts with
  | [] => Panic
  | x :: t => Ok (fold_left (fun res v => if fst v >? fst res then v else res) t x)
  end.
Definition min_key (ts : list (Z * Z)) : outcome (Z * Z) :=
  match ts with
  | [] => Panic
  | x :: t => Ok (fold_left (fun res v => if fst v <? fst res then v else res) t x)
  end.

(* tuple/pair: NewPair, Pair.Split, Pair.String = fmt.Sprintf("<%#v, %#v>", Key, Value) for ints *)
Definition new_pair (k v : Z) : Z * Z := (k, v).
Definition pair_split (p : Z * Z) : Z * Z := (fst p, snd p).
Definition pair_string (p : Z * Z) : list Z :=
  60 :: format_int (fst p) ++ [44; 32] ++ format_int (snd p) ++ [62].

Inductive call2 :=
| C2Max8 (signed : bool) (a : sl) | C2Min8 (signed : bool) (a : sl) | C2Sum8 (signed : bool) (a : sl)
| C2MaxF (a : pairs) | C2MinF (a : pairs)
| C2NewPair (k v : Z) | C2Split (k v : Z) | C2String (k v : Z).

Definition pels (p : pairs) : list (Z * Z) := match p with Some l => l | None => [] end.

Definition run2 (c : call2) : list ov :=
  match c with
  | C2Max8 _ a => pure1 (of_outcome (max_slice (els a)) (fun z => [VInt z])) a
  | C2Min8 _ a => pure1 (of_outcome (min_slice (els a)) (fun z => [VInt z])) a
  | C2Sum8 s a => pure1 [VInt (sum8 s (els a))] a
  | C2MaxF a => of_outcome (max_key (pels a)) (fun p => [VInt (snd p)])
  | C2MinF a => of_outcome (min_key (pels a)) (fun p => [VInt (snd p)])
  | C2NewPair k v => [VPairs (Some [new_pair k v])]
  | C2Split k v => let r := pair_split (new_pair k v) in [VInt (fst r); VInt (snd r)]
  | C2String k v => [VSlice (Some (pair_string (new_pair k v)))]
  end.
