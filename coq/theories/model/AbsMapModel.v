(* The abstract specification the tree-backed containers are compared with (C01):
   a key->value map ordered by the user's comparator, written as the most naive data
   structure — an association list kept strictly ascending by cmp, scanned linearly.
   Keys are identified when cmp says 0.  As in the Go code (addNode returns
   ErrRBTreeSameRBNode before touching the tree; setNode overwrites only node.value), the
   FIRST inserted representative of a class of equal keys is the one that stays stored:
   Add of an equal key fails, Set/Put replace only the value.
   Definitions only (no trees, no colours, no sizes kept on the side). *)
From Ekit Require Import Common RBModel TreeMapModel.

Definition amap := list (Z * Z).

Section WithCmp.
  Variable cmp : Z -> Z -> Z.

  (* the binding whose key compares equal to k *)
  Fixpoint a_find (k : Z) (m : amap) : option Z :=
    match m with
    | [] => None
    | (k', v') :: m' => if cmp k k' =? 0 then Some v' else a_find k m'
    end.
  (* insert before the first stored key that k sorts before (used only when k is absent) *)
  Fixpoint a_insert (k v : Z) (m : amap) : amap :=
    match m with
    | [] => [(k, v)]
    | (k', v') :: m' => if cmp k k' <? 0 then (k, v) :: m else (k', v') :: a_insert k v m'
    end.
  (* replace the value — and only the value — of the binding that compares equal *)
  Fixpoint a_set (k v : Z) (m : amap) : amap :=
    match m with
    | [] => []
    | (k', v') :: m' => if cmp k k' =? 0 then (k', v) :: m' else (k', v') :: a_set k v m'
    end.
  Fixpoint a_remove (k : Z) (m : amap) : amap :=
    match m with
    | [] => []
    | (k', v') :: m' => if cmp k k' =? 0 then m' else (k', v') :: a_remove k m'
    end.

  (* ---- tree.RBTree seen as an abstract map ---- *)
  Definition abs_step (m : amap) (o : rb_op) : amap * rb_out :=
    match o with
    | OAdd k v =>
        match a_find k m with
        | Some _ => (m, RErr EDuplicate)
        | None => (a_insert k v m, RUnit)
        end
    | ODelete k =>
        match a_find k m with
        | Some v => (a_remove k m, RVal v)
        | None => (m, RAbsent)
        end
    | OFind k => (m, match a_find k m with Some v => RVal v | None => RErr EAbsent end)
    | OSet k v =>
        match a_find k m with
        | Some _ => (a_set k v m, RUnit)
        | None => (m, RErr EAbsent)
        end
    | OKeyValues => (m, RKVs m)
    | OSize => (m, RSize (Z.of_nat (length m)))
    end.
  Fixpoint abs_run (m : amap) (ops : list rb_op) : list (amap * rb_out) :=
    match ops with
    | [] => []
    | o :: rest => let '(m', out) := abs_step m o in (m', out) :: abs_run m' rest
    end.
  Definition abs_final (m : amap) (ops : list rb_op) : amap :=
    fold_left (fun st o => fst (abs_step st o)) ops m.

  (* ---- mapx.TreeMap seen as an abstract map: Put inserts or overwrites the value ---- *)
  Definition abs_tm_step (m : amap) (o : tm_op) : amap * tm_out :=
    match o with
    | TPut k v =>
        match a_find k m with
        | Some _ => (a_set k v m, TUnit)
        | None => (a_insert k v m, TUnit)
        end
    | TGet k => (m, match a_find k m with Some v => TVal v | None => TAbsent end)
    | TDelete k =>
        match a_find k m with
        | Some v => (a_remove k m, TVal v)
        | None => (m, TAbsent)
        end
    | TKeys => (m, TKeysOut (map fst m))
    | TValues => (m, TValsOut (map snd m))
    | TLen => (m, TLenOut (Z.of_nat (length m)))
    end.
  Fixpoint abs_tm_run (m : amap) (ops : list tm_op) : list (amap * tm_out) :=
    match ops with
    | [] => []
    | o :: rest => let '(m', out) := abs_tm_step m o in (m', out) :: abs_tm_run m' rest
    end.

  (* ---- set.TreeSet seen as an abstract set: a list of keys ascending by cmp ---- *)
  Definition aset := list Z.
  Fixpoint s_mem (k : Z) (s : aset) : bool :=
    match s with
    | [] => false
    | k' :: s' => if cmp k k' =? 0 then true else s_mem k s'
    end.
  Fixpoint s_insert (k : Z) (s : aset) : aset :=
    match s with
    | [] => [k]
    | k' :: s' => if cmp k k' <? 0 then k :: s else k' :: s_insert k s'
    end.
  Fixpoint s_remove (k : Z) (s : aset) : aset :=
    match s with
    | [] => []
    | k' :: s' => if cmp k k' =? 0 then s' else k' :: s_remove k s'
    end.
  Definition abs_ts_step (s : aset) (o : ts_op) : aset * ts_out :=
    match o with
    | SAdd k => (if s_mem k s then s else s_insert k s, SUnit)
    | SDelete k => (s_remove k s, SUnit)
    | SExist k => (s, SBool (s_mem k s))
    | SKeys => (s, SKeysOut s)
    end.
  Fixpoint abs_ts_run (s : aset) (ops : list ts_op) : list (aset * ts_out) :=
    match ops with
    | [] => []
    | o :: rest => let '(s', out) := abs_ts_step s o in (s', out) :: abs_ts_run s' rest
    end.
End WithCmp.
