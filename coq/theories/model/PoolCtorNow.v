(* The constructor of pool.OnDemandBlockTaskPool as it is after the initGo range fix
   (`if initGo < 1 || initGo > math.MaxInt32 { return errInvalidArgument }`), layered on PoolModel.pool_new,
   and the PINNED constructor before that fix, which stored `int32(initGo)` - the Go conversion truncates -
   after checking only `initGo < 1` on the 64-bit int.  Definitions only.
   Out of scope: a huge queueSize (`make(chan Task, queueSize)` panics or exhausts memory - resource
   exhaustion, not modelled); WithCoreGo / WithMaxGo take int32, so their arguments cannot be truncated. *)
From Ekit Require Import Common PoolModel.

Definition max_int32 : Z := 2 ^ 31 - 1.

Definition pool_new_now (initGo queueSize : Z) (opts : list popt) : ctor_res :=
  if max_int32 <? initGo then CtErr else pool_new initGo queueSize opts.

(* before the fix: the checks of pool_new, but the three worker-count fields start from int32(initGo) *)
Definition pool_new_trunc (initGo queueSize : Z) (opts : list popt) : ctor_res :=
  if initGo <? 1 then CtErr
  else if queueSize <? 0 then CtErr
  else
    let i32 := wrap_s 32 initGo in
    let a := fold_left apply_opt opts (mkCt i32 i32 0 1) in
    let core := ct_core a in
    let mx := ct_max a in
    let '(core, mx) :=
      if negb (core =? i32) && (mx =? i32) then (core, core)
      else if (core =? i32) && negb (mx =? i32) then (mx, mx)
      else (core, mx) in
    if negb ((i32 <=? core) && (core <=? mx)) then CtErr
    else if (ct_rn a <? 0) || (ct_rd a <? ct_rn a) then CtErr
    else CtOk i32 core mx queueSize (ct_rn a) (ct_rd a).
