(* FootprintObjModels.v — C15: small statement-granular interleaving models of the thread-safe types that
   had none: syncx.Pool, atomicx.Value and a bean/copier ReflectCopier shared by goroutines (syncx.Map uses
   the existing model/SyncMapModel.v).  Definitions only; the traces and proofs are in proof/FootprintBridge6.v.

   One generic model: a method is the sequence of its Go statements, a statement is the list of accesses
   (lib/HB.v actions) to the OBJECT'S fields it performs, in program order.  A goroutine (thread id) calls a
   method ([OCall]), executes its statements one by one ([OStep]; the call returns after the last one) and, for
   objects whose methods contain loops / branches / recursion ([op_jumps]), may continue at ANY statement of
   the method after executing the current one ([OJump]: every control flow through the listed statements is a
   run of the model).  [op_allowed] = which thread ids may use the object (the goroutines it was shared with).
   The statements are transcribed from /repo (file and statement text next to each). *)
From Coq Require Import List Arith Bool String ZArith.
From Ekit Require Import Common Conc SyncMapModel.
From Ekit Require Import HB.
Import ListNotations.
Open Scope string_scope.
Open Scope nat_scope.
Open Scope list_scope.

Definition stmts := list (list action).

Record oprog := {
  op_body : nat -> nat -> stmts;     (* calling thread -> method number -> statements *)
  op_jumps : bool;
  op_allowed : nat -> bool }.

Definition ocfg := list (nat * (nat * nat)).    (* thread -> (method, index of the statement it is about to execute) *)

Inductive oev := OCall (t m : nat) | OStep (t : nat) | OJump (t k : nat).

Definition othread (P : oprog) (c : ocfg) (t : nat) : option (nat * nat) :=
  if op_allowed P t then Conc.lookup t c else None.

Definition ostep (P : oprog) (c : ocfg) (e : oev) : option ocfg :=
  match e with
  | OCall t m =>
    match Conc.lookup t c with
    | Some _ => None
    | None => if op_allowed P t && (0 <? List.length (op_body P t m)) then Some (Conc.spawn t (m, 0) c) else None
    end
  | OStep t =>
    match othread P c t with
    | Some (m, p) =>
      if S p <? List.length (op_body P t m) then Some (Conc.update t (m, S p) c) else Some (Conc.remove t c)
    | None => None
    end
  | OJump t k =>
    if op_jumps P then
      match othread P c t with
      | Some (m, p) => if k <? List.length (op_body P t m) then Some (Conc.update t (m, k) c) else None
      | None => None
      end
    else None
  end.

(* the accesses of the statement the step executes *)
Definition oemit (P : oprog) (c : ocfg) (e : oev) : list HB.event :=
  match e with
  | OStep t | OJump t _ =>
    match othread P c t with
    | Some (m, p) => map (mkEv t) (nth p (op_body P t m) [])
    | None => []
    end
  | OCall _ _ => []
  end.

Definition all_threads (t : nat) : bool := true.

(* ---------- atomicx.Value (syncx/atomicx/atomic.go) ---------- *)
Definition V_VAL : name := ("Value.val", 0).
Definition value_body (m : nat) : stmts :=
  match m with
  | 0 => [[ARead V_VAL]; []; []]      (* Load:  data := v.val.Load(); val = data.(T); return *)
  | 1 => [[AWrite V_VAL]]             (* Store: v.val.Store(val) *)
  | 2 => [[ARmw V_VAL]; []; []]       (* Swap:  data := v.val.Swap(new); old = data.(T); return *)
  | 3 => [[ARmw V_VAL]]               (* CompareAndSwap: return v.val.CompareAndSwap(old, new) *)
  | _ => []
  end.
Definition value_prog : oprog := {| op_body := fun _ => value_body; op_jumps := false; op_allowed := all_threads |}.

(* ---------- syncx.Pool (syncx/pool.go): the wrapper touches no memory of its own; the sync.Pool
   operation (trusted std-lib object, KDelegate rows) is the generic release / acquire ---------- *)
Definition P_P : name := ("Pool.p", 0).
Definition pool_body (m : nat) : stmts :=
  match m with
  | 0 => [[SAcq P_P]]                 (* Get: return p.p.Get().(T) *)
  | 1 => [[SRel P_P]]                 (* Put: p.p.Put(t) *)
  | _ => []
  end.
Definition pool_prog : oprog := {| op_body := fun _ => pool_body; op_jumps := false; op_allowed := all_threads |}.

(* ---------- bean/copier ReflectCopier (bean/copier/reflect_copier.go) ----------
   All fieldNode's of the tree are collapsed into instance 0 (coarser locations = more conflicts).
   ("dst", t) is the destination of goroutine t's current call: Copy allocates it, CopyTo receives it from
   the caller; the side condition "destinations are per call" is that two goroutines never pass the same one. *)
Definition C_DEFOPT : name := ("ReflectCopier.defaultOptions", 0).
Definition C_IGN : name := ("options.ignoreFields", 0).
Definition C_IGNS : name := ("options.ignoreFields.*", 0).
Definition C_CONV : name := ("options.convertFields", 0).
Definition C_CONVE : name := ("options.convertFields[]", 0).
Definition C_ROOT : name := ("ReflectCopier.rootField", 0).
Definition C_ATOMIC : name := ("ReflectCopier.atomicTypes", 0).
Definition C_ISLEAF : name := ("fieldNode.isLeaf", 0).
Definition C_NAME : name := ("fieldNode.name", 0).
Definition C_FIELDS : name := ("fieldNode.fields", 0).
Definition C_SRCIDX : name := ("fieldNode.srcIndex", 0).
Definition C_DSTIDX : name := ("fieldNode.dstIndex", 0).
Definition C_DST (t : nat) : name := ("dst", t).

Definition copyto_body (t : nat) : stmts := [
  [Read C_DEFOPT; Read C_IGN];                (* copyDefaultOptions: if r.defaultOptions.ignoreFields != nil *)
  [Read C_DEFOPT; Read C_IGN; Read C_IGNS];   (*   for _, key := range r.defaultOptions.ignoreFields.Keys() *)
  [Read C_DEFOPT; Read C_CONV; Read C_CONVE]; (*   for field, convert := range r.defaultOptions.convertFields *)
  [];                                         (* option.Apply(&localOption, opts...): the per-call copy only *)
  [Read C_ISLEAF];                            (* copyTreeNode: if root.isLeaf *)
  [Read C_NAME];                              (*   convert, ok := opts.convertFields[root.name] *)
  [Write (C_DST t)];                          (*   dstValue.Set(srcValue) / originDstVal.Set(srcConvVal) / dstValue.Set(reflect.New(..)) *)
  [Read C_FIELDS];                            (*   for i := range root.fields; child := &root.fields[i] *)
  [Read C_NAME];                              (*   if opts.InIgnoreFields(child.name) *)
  [Read C_SRCIDX; Read C_SRCIDX];             (*   childSrcTyp := srcTyp.Field(child.srcIndex); childSrcValue := ... *)
  [Read C_DSTIDX; Read C_DSTIDX; Read (C_DST t)] (* childDstTyp := dstType.Field(child.dstIndex); childDstValue := dstValue.Field(..) *)
].
Definition copier_body (t m : nat) : stmts :=
  match m with
  | 0 => copyto_body t                        (* CopyTo(src, dst, opts...) *)
  | 1 => [Write (C_DST t)] :: copyto_body t   (* Copy: dst := new(Dst); err := r.CopyTo(src, dst, opts...); return *)
  | _ => []
  end.
(* NewReflectCopier: the plain writes that build the object (createFieldNodes fills the tree, then
   copier.rootField = root, copier.defaultOptions = defaultOpts with its two maps) *)
Definition copier_ctor : list action := [
  Write C_ATOMIC; Write C_NAME; Write C_SRCIDX; Write C_DSTIDX; Write C_ISLEAF; Write C_FIELDS; Write C_ROOT;
  Write C_IGNS; Write C_IGN; Write C_CONVE; Write C_CONV; Write C_DEFOPT ].
Definition memb (cs : list nat) (t : nat) : bool := existsb (Nat.eqb t) cs.
Definition copier_prog (cs : list nat) : oprog :=
  {| op_body := copier_body; op_jumps := true; op_allowed := memb cs |}.

(* ---------- syncx.Map (syncx/map.go) on the existing model SyncMapModel.v: the atomic step of each method is
   the call of the embedded sync.Map (trusted, KDelegate): release for the storing operations, acquire for
   the loading ones, on the key ---------- *)
Definition key_inst (k : Z) : nat := Z.to_nat (if (k <? 0)%Z then (- 2 * k - 1)%Z else (2 * k)%Z).
Definition M_KEY (k : Z) : name := ("Map.m", key_inst k).
Definition acts_Map (o : sm_op) (p : sm_pc) : list action :=
  let x := M_KEY (sm_key o) in
  match p with
  | LdAtomic => [SAcq x]                   (* anyVal, ok = m.m.Load(key) *)
  | StAtomic => [SRel x]                   (* m.m.Store(key, value) *)
  | LsAtomic _ => [SAcq x; SRel x]         (* anyVal, loaded = m.m.LoadOrStore(key, value) *)
  | LdlAtomic => [SAcq x; SRel x]          (* anyVal, loaded = m.m.LoadAndDelete(key) *)
  | DlAtomic => [SRel x]                   (* m.m.Delete(key) *)
  | _ => []
  end.
