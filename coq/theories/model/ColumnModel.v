(* Executable model of /repo/sqlx/encrypt.go (EncryptColumn[T]) and
   /repo/sqlx/json.go (JsonColumn[T]) — C18.  Definitions only; proofs are in
   proof/ColumnProof.v.

   What is concrete and what is abstract
   -------------------------------------
   * Bytes are `Z` in [0,256); byte strings are lists.
   * The serialisation of string, []byte, int8..int64, uint8..uint64, int, uint,
     float32, float64 is CONCRETE: raw bytes / big-endian two's complement of the
     exact width (encoding/binary.Write / Read with binary.BigEndian; int and uint
     go through int64 / uint64; a float is its IEEE-754 bit pattern, so the value
     carried by the model for a float is that bit pattern as a non-negative Z).
   * Every other T (bool, structs, maps, slices, named types, pointers) goes
     through encoding/json, which is ABSTRACT here: `json_enc`, `json_dec` are
     Section variables.  json.Unmarshal decodes INTO the existing value (maps are
     merged, absent struct fields keep their old content, and a failed Unmarshal
     may leave a partially written value), therefore `json_dec` takes the prior
     value and returns the new value together with a success flag.
   * AES-GCM is ABSTRACT: `seal k n m` = gcm.Seal(nil, n, m, nil) (ciphertext
     followed by the 16-byte tag), `open k n c` = gcm.Open(nil, n, c, nil).
     The nonce produced by crypto/rand is an INPUT of `value` (random oracle).
   * `int` / `uint` are 64 bits wide (amd64/arm64; `int(int64)` is the identity).
   * nil and empty byte slices are not distinguished (both are `[]`). *)
From Ekit Require Import Common.

Definition bytes := list Z.

(* error classes of this model (messages are never compared) *)
Inductive cerr :=
| CInvalid          (* errInvalid: Value() of a column with Valid = false *)
| CKeyLen           (* errKeyLengthInvalid (Value) / aes.KeySizeError (Scan) *)
| CSrcType          (* Scan: src is neither []byte nor string (nor nil for JsonColumn) *)
| CShort            (* errCiphertextTooShort: fewer bytes than the nonce *)
| CAuth             (* gcm.Open: message authentication failed *)
| CEOF              (* binary.Read on an empty plaintext: io.EOF *)
| CUnexpectedEOF    (* binary.Read on a plaintext shorter than the type: io.ErrUnexpectedEOF *)
| CJson.            (* json.Marshal / json.Unmarshal error *)

Inductive cout (A : Type) :=
| COk (a : A)
| CErr (e : cerr)
| CPanic.
Arguments COk {A} a.
Arguments CErr {A} e.
Arguments CPanic {A}.

(* result of a method that only returns `error` *)
Inductive sres := SOk | SErr (e : cerr) | SPanic.
Definition is_sok (r : sres) : bool := match r with SOk => true | _ => false end.

(* ---------- the fixed-width numeric kinds ---------- *)
Inductive nkind :=
| NI8 | NI16 | NI32 | NI64 | NU8 | NU16 | NU32 | NU64 | NInt | NUint | NF32 | NF64.

Definition nkind_eqb (a b : nkind) : bool :=
  match a, b with
  | NI8, NI8 | NI16, NI16 | NI32, NI32 | NI64, NI64
  | NU8, NU8 | NU16, NU16 | NU32, NU32 | NU64, NU64
  | NInt, NInt | NUint, NUint | NF32, NF32 | NF64, NF64 => true
  | _, _ => false
  end.

(* number of bytes written by binary.Write for the kind (int/uint: via int64/uint64) *)
Definition nbytes (k : nkind) : nat :=
  match k with
  | NI8 | NU8 => 1 | NI16 | NU16 => 2 | NI32 | NU32 | NF32 => 4
  | NI64 | NU64 | NInt | NUint | NF64 => 8
  end%nat.
Definition nbits (k : nkind) : Z := 8 * Z.of_nat (nbytes k).
Definition nsigned (k : nkind) : bool :=
  match k with NI8 | NI16 | NI32 | NI64 | NInt => true | _ => false end.
(* `valT = int(tmp)` / `uint(tmp)` (through the pointers) is executed even when binary.Read failed *)
Definition via_tmp (k : nkind) : bool :=
  match k with NInt | NUint => true | _ => false end.

(* the values of the kind: signed range, unsigned range, or (floats) all bit patterns *)
Definition in_range (k : nkind) (z : Z) : bool :=
  if nsigned k then in_s (nbits k) z else in_u (nbits k) z.

(* ---------- big-endian bytes ---------- *)
(* n bytes, most significant first: b[i] = byte(u >> (8*(n-1-i))) *)
Fixpoint be_bytes (n : nat) (u : Z) : bytes :=
  match n with
  | O => []
  | S n' => (u / 256 ^ Z.of_nat n') mod 256 :: be_bytes n' u
  end.
(* uint(b[0])<<.. | ... | uint(b[n-1]) *)
Definition be_val (l : bytes) : Z := fold_left (fun a b => a * 256 + b) l 0.

(* binary.Write(buf, BigEndian, v): uintN(v) (two's complement) then PutUintN *)
Definition encode_num (k : nkind) (z : Z) : bytes :=
  be_bytes (nbytes k) (wrap_u (nbits k) z).

(* binary.Read(bytes.NewReader(m), BigEndian, &v): io.ReadFull of exactly nbytes
   bytes (io.EOF when nothing could be read, io.ErrUnexpectedEOF when fewer than
   needed), the REST OF A LONGER BUFFER IS IGNORED; then UintN + conversion. *)
Definition decode_num (k : nkind) (m : bytes) : cout Z :=
  if (length m <? nbytes k)%nat then
    CErr (match m with [] => CEOF | _ => CUnexpectedEOF end)
  else
    let u := be_val (firstn (nbytes k) m) in
    COk (if nsigned k then wrap_s (nbits k) u else u).

(* key validity: len(Key) is 16, 24 or 32 *)
Definition key_ok (k : bytes) : bool :=
  let n := length k in ((n =? 16) || (n =? 24) || (n =? 32))%nat.

Definition nonce_size : nat := 12.
Definition tag_size : nat := 16.

(* what database/sql may hand to Scan *)
Inductive src :=
| SBytes (b : bytes)
| SString (b : bytes)
| SNil
| SOther.            (* int64, float64, bool, time.Time ... *)

Section Column.
  Variable V : Type.                               (* the JSON-serialised Go types *)
  Variable json_enc : V -> option bytes.           (* json.Marshal; None = error *)
  Variable json_dec : V -> bytes -> V * bool.      (* json.Unmarshal(bs, &old) = (new, err == nil) *)
  Variable seal : bytes -> bytes -> bytes -> bytes.          (* key nonce plaintext *)
  Variable open : bytes -> bytes -> bytes -> option bytes.   (* key nonce ciphertext||tag *)

  (* The dynamic type of Val is the constructor (and the kind): it never changes,
     so it also plays the role of the static type parameter T. *)
  Inductive cval :=
  | VStr (b : bytes)
  | VBytes (b : bytes)
  | VNum (k : nkind) (z : Z)
  | VJson (x : V).

  Definition same_ty (a b : cval) : bool :=
    match a, b with
    | VStr _, VStr _ | VBytes _, VBytes _ | VJson _, VJson _ => true
    | VNum k _, VNum k' _ => nkind_eqb k k'
    | _, _ => false
    end.

  Record column := { val : cval; valid : bool; ckey : bytes }.

  (* the type switch of Value() *)
  Definition encode (v : cval) : cout bytes :=
    match v with
    | VStr b => COk b
    | VBytes b => COk b
    | VNum k z => COk (encode_num k z)
    | VJson x => match json_enc x with Some b => COk b | None => CErr CJson end
    end.

  (* aesEncrypt: nonce || Seal(nonce, data) *)
  Definition aes_encrypt (k nonce data : bytes) : bytes := nonce ++ seal k nonce data.

  (* EncryptColumn.Value(); `nonce` = the 12 bytes read from crypto/rand *)
  Definition value (nonce : bytes) (c : column) : cout bytes :=
    if negb (valid c) then CErr CInvalid
    else if negb (key_ok (ckey c)) then CErr CKeyLen
    else match encode (val c) with
         | COk b => COk (aes_encrypt (ckey c) nonce b)
         | CErr e => CErr e
         | CPanic => CPanic
         end.

  (* aesDecrypt.  `pinned` = the code before the fix 5aaa1ca, where
     `data[:12], data[12:]` was evaluated without a length check. *)
  Definition aes_decrypt (pinned : bool) (k data : bytes) : cout bytes :=
    if negb (key_ok k) then CErr CKeyLen                     (* aes.NewCipher *)
    else if (length data <? nonce_size)%nat then
      (if pinned then CPanic else CErr CShort)
    else match open k (firstn nonce_size data) (skipn nonce_size data) with
         | Some m => COk m
         | None => CErr CAuth
         end.

  (* setValAfterDecrypt: new Val and the returned error *)
  Definition set_val (v : cval) (m : bytes) : cval * sres :=
    match v with
    | VStr _ => (VStr m, SOk)
    | VBytes _ => (VBytes m, SOk)
    | VNum k z =>
      match decode_num k m with
      | COk z' => (VNum k z', SOk)
      | CErr e => (VNum k (if via_tmp k then 0 else z), SErr e)
      | CPanic => (v, SPanic)
      end
    | VJson x =>
      let (x', ok) := json_dec x m in (VJson x', if ok then SOk else SErr CJson)
    end.

  (* EncryptColumn.Scan(src): the column after the call and the returned error.
     Note: on a source-type or decryption error the method returns BEFORE
     `e.Valid = err == nil`, so Val and Valid keep their previous content. *)
  Definition scan_data (pinned : bool) (c : column) (data : bytes) : column * sres :=
    match aes_decrypt pinned (ckey c) data with
    | COk m =>
      let (v', r) := set_val (val c) m in
      ({| val := v'; valid := is_sok r; ckey := ckey c |}, r)
    | CErr e => (c, SErr e)
    | CPanic => (c, SPanic)
    end.

  Definition scan (pinned : bool) (c : column) (s : src) : column * sres :=
    match s with
    | SBytes b => scan_data pinned c b
    | SString b => scan_data pinned c b
    | SNil | SOther => (c, SErr CSrcType)
    end.

  (* ---------- JsonColumn[T] ---------- *)
  Record jcolumn := { jval : V; jvalid : bool }.

  (* JsonColumn.Value(): None = SQL NULL (nil, nil) *)
  Definition jvalue (c : jcolumn) : cout (option bytes) :=
    if negb (jvalid c) then COk None
    else match json_enc (jval c) with
         | Some b => COk (Some b)
         | None => CErr CJson
         end.

  Definition jscan_data (c : jcolumn) (b : bytes) : jcolumn * sres :=
    let (x', ok) := json_dec (jval c) b in
    if ok then ({| jval := x'; jvalid := true |}, SOk)
    else ({| jval := x'; jvalid := jvalid c |}, SErr CJson).

  (* JsonColumn.Scan(src): a nil source returns nil WITHOUT touching the column *)
  Definition jscan (c : jcolumn) (s : src) : jcolumn * sres :=
    match s with
    | SNil => (c, SOk)
    | SBytes b => jscan_data c b
    | SString b => jscan_data c b
    | SOther => (c, SErr CSrcType)
    end.

  (* ---------- the hypotheses under which the property is stated ---------- *)
  (* Ideal AEAD, functional part.  AES-GCM satisfies aead_correct and aead_length
     unconditionally; aead_only_seal ("the only string that opens to m under
     (k, n) is seal k n m") holds for GCM as a FUNCTION (for a fixed key and nonce
     the tag is determined by the ciphertext body), but it says nothing about
     unforgeability. *)
  Definition aead_correct : Prop :=
    forall k n m, open k n (seal k n m) = Some m.
  Definition aead_only_seal : Prop :=
    forall k n c m, open k n c = Some m -> c = seal k n m.
  Definition aead_length : Prop :=
    forall k n m, length (seal k n m) = (length m + tag_size)%nat.
  (* Ideal AEAD, integrity of ciphertexts (INT-CTXT ideal world): `issued k n c`
     = "the encryption oracle (Value) has output ciphertext c under key k and
     nonce n".  Authenticity of AES-GCM is a COMPUTATIONAL assumption (forgery
     probability about q*l/2^128, and literally false for a key with
     AES_k(0^128) = 0); it cannot be a theorem about the code. *)
  Definition aead_int_ctxt (issued : bytes -> bytes -> bytes -> Prop) : Prop :=
    forall k n c m, open k n c = Some m -> issued k n c.

  (* JSON: x is "JSON-representable" when Marshal succeeds and Unmarshal of the
     result into the ZERO value of the type gives x back. *)
  Definition json_roundtrips (zeroV : V) (json_rep : V -> Prop) : Prop :=
    forall x, json_rep x ->
      exists b, json_enc x = Some b /\ json_dec zeroV b = (x, true).

  (* well-formed values: numbers in the range of their type *)
  Definition val_ok (json_rep : V -> Prop) (v : cval) : Prop :=
    match v with
    | VStr _ | VBytes _ => True
    | VNum k z => in_range k z = true
    | VJson x => json_rep x
    end.
  (* the destination of a Scan: a JSON-typed Val must be the zero value *)
  Definition fresh_dst (zeroV : V) (v : cval) : Prop :=
    match v with VJson x => x = zeroV | _ => True end.
End Column.

Arguments VStr {V} b.
Arguments VBytes {V} b.
Arguments VNum {V} k z.
Arguments VJson {V} x.
Arguments val {V} c.
Arguments valid {V} c.
Arguments ckey {V} c.
Arguments jval {V} j.
Arguments jvalid {V} j.
Arguments same_ty {V} a b.

(* flip bit i (0 = least significant bit of byte 0) of a byte string *)
Fixpoint flip_bit (i : nat) (l : bytes) : bytes :=
  match l with
  | [] => []
  | b :: t =>
    if (i <? 8)%nat then Z.lxor b (2 ^ Z.of_nat i) :: t
    else b :: flip_bit (i - 8) t
  end.

(* ---------- a toy AEAD: runs the model, and shows that the functional
   ideal-AEAD hypotheses are satisfiable (it is of course not secure) ---------- *)
Definition toy_tag (k n m : bytes) : bytes :=
  be_bytes tag_size
    (fold_left (fun a b => (a * 257 + b + 1) mod 2 ^ 128) (k ++ n ++ m) (Z.of_nat (length m))).
Definition toy_seal (k n m : bytes) : bytes := m ++ toy_tag k n m.
Fixpoint bytes_eqb (a b : bytes) : bool :=
  match a, b with
  | [], [] => true
  | x :: a', y :: b' => (x =? y) && bytes_eqb a' b'
  | _, _ => false
  end.
Definition toy_open (k n c : bytes) : option bytes :=
  if (length c <? tag_size)%nat then None
  else let m := firstn (length c - tag_size) c in
       if bytes_eqb (skipn (length c - tag_size) c) (toy_tag k n m) then Some m else None.

(* instances used by the extracted runner and the vm_compute cross-check:
   V = unit-like opaque token carried as Z (an index into a table held by the driver) *)
Definition scan_toy (json_dec : Z -> bytes -> Z * bool) (pinned : bool)
  (c : column Z) (s : src) : column Z * sres :=
  scan Z json_dec toy_open pinned c s.
Definition value_toy (json_enc : Z -> option bytes) (nonce : bytes) (c : column Z) : cout bytes :=
  value Z json_enc toy_seal nonce c.

(* ---------- the ideal world of ciphertext integrity, executable: decryption is a
   look-up in the log of what the encryption oracle has issued
   (key, nonce, ciphertext||tag, plaintext) ---------- *)
Definition log_entry := (bytes * bytes * bytes * bytes)%type.
Definition log_match (k n c : bytes) (e : log_entry) : bool :=
  let '(k', n', c', _) := e in bytes_eqb k k' && bytes_eqb n n' && bytes_eqb c c'.
Definition log_open (log : list log_entry) (k n c : bytes) : option bytes :=
  match find (log_match k n c) log with
  | Some (_, _, _, m) => Some m
  | None => None
  end.
Definition log_issued (log : list log_entry) (k n c : bytes) : Prop :=
  exists m, In (k, n, c, m) log.
Definition scan_log (json_dec : Z -> bytes -> Z * bool) (log : list log_entry)
  (c : column Z) (s : src) : column Z * sres :=
  scan Z json_dec (log_open log) false c s.
Definition jscan_z (json_dec : Z -> bytes -> Z * bool) (c : jcolumn Z) (s : src) :=
  jscan Z json_dec c s.
Definition jvalue_z (json_enc : Z -> option bytes) (c : jcolumn Z) := jvalue Z json_enc c.
