(* Executable model of /repo/mapx/hashmap.go (HashMap, with the `size` counter of
   the fix: commit ace65f0) — C03.  Definitions only; proofs in proof/HashProof.v.

   Go                                   model
   map[uint64]*node                     table = list (code * chain), one entry per code
   *node{key,value,next}                a chain is the list of (key,value) reachable through next;
                                        a node taken OUT of a chain (pooled) is {nkey; nval; nnext}
                                        where nnext is the chain still hanging on its `next`
   syncx.Pool[*node]                    pool : list node; Get = ANY pooled node or a fresh one,
                                        chosen by the oracle `ch` of the Put (an input)
   key.Code(), a.Equals(b)              Section variables code, eqb
   ValType                              Section variable V with zero value vzero; keys are Z *)
From Ekit Require Import Common DecorSpec.

Section HashModel.
  Variable V : Type.
  Variable vzero : V.
  Variable code : Z -> Z.
  Variable eqb : Z -> Z -> bool.

  Definition chain := list (Z * V).
  Record node := { nkey : Z; nval : V; nnext : chain }.
  Definition table := list (Z * chain).
  Record hstate := { tbl : table; pool : list node; size : Z }.

  Definition hinit : hstate := {| tbl := []; pool := []; size := 0 |}.

  (* ---- Go's builtin map[uint64]*node: lookup, assignment, delete ---- *)
  Fixpoint tbl_get (h : Z) (t : table) : option chain :=
    match t with
    | [] => None
    | (h', c) :: r => if h' =? h then Some c else tbl_get h r
    end.
  Fixpoint tbl_set (h : Z) (c : chain) (t : table) : table :=
    match t with
    | [] => [(h, c)]
    | (h', c') :: r => if h' =? h then (h, c) :: r else (h', c') :: tbl_set h c r
    end.
  Fixpoint tbl_remove (h : Z) (t : table) : table :=
    match t with
    | [] => []
    | (h', c') :: r => if h' =? h then r else (h', c') :: tbl_remove h r
    end.

  (* ---- node pool (syncx.Pool over sync.Pool) ---- *)
  (* the factory: &node{} *)
  Definition fresh_node : node := {| nkey := 0; nval := vzero; nnext := [] |}.
  (* Pool.Get: the oracle picks a pooled node (removed from the pool) or a fresh one;
     an index past the end means "the pool had nothing for this P" = fresh *)
  Definition pool_get (ch : option nat) (p : list node) : node * list node :=
    match ch with
    | None => (fresh_node, p)
    | Some i => match nth_opt p i with
                | Some n => (n, remove_at p i)
                | None => (fresh_node, p)
                end
    end.
  (* newNode: overwrites value and key ONLY; `next` keeps whatever the node had *)
  Definition new_node (ch : option nat) (key : Z) (val : V) (p : list node) : node * list node :=
    let (n, p') := pool_get ch p in
    ({| nkey := key; nval := val; nnext := nnext n |}, p').
  (* the chain that starts at a node *)
  Definition chain_of_node (n : node) : chain := (nkey n, nval n) :: nnext n.

  (* formatting: key, value and next are all reset *)
  Definition formatting (n : node) : node := {| nkey := 0; nval := vzero; nnext := [] |}.

  (* ---- Put ---- *)
  (* the loop `for root != nil { if root.key.Equals(key) { root.value = val; return }; ... }`:
     Some c' = an Equal key was found, its value replaced (the stored key stays);
     None    = the end of the chain was reached *)
  Fixpoint chain_update (key : Z) (val : V) (c : chain) : option chain :=
    match c with
    | [] => None
    | (k, v) :: r =>
        if eqb k key then Some ((k, val) :: r)
        else match chain_update key val r with
             | Some r' => Some ((k, v) :: r')
             | None => None
             end
    end.

  Definition hput (key : Z) (val : V) (ch : option nat) (s : hstate) : hstate * outcome unit :=
    let h := code key in
    match tbl_get h (tbl s) with
    | None =>
        let (n, p) := new_node ch key val (pool s) in
        ({| tbl := tbl_set h (chain_of_node n) (tbl s); pool := p; size := size s + 1 |}, Ok tt)
    | Some c =>
        match chain_update key val c with
        | Some c' => ({| tbl := tbl_set h c' (tbl s); pool := pool s; size := size s |}, Ok tt)
        | None =>
            let (n, p) := new_node ch key val (pool s) in
            match c with
            | [] => (* bucket present but nil: pre == nil, `pre.next = newNode` dereferences nil *)
                ({| tbl := tbl s; pool := p; size := size s |}, Panic)
            | _ :: _ => (* pre = last node of the chain *)
                ({| tbl := tbl_set h (c ++ chain_of_node n) (tbl s); pool := p; size := size s + 1 |}, Ok tt)
            end
        end
    end.

  (* ---- Get ---- *)
  Fixpoint chain_get (key : Z) (c : chain) : V * bool :=
    match c with
    | [] => (vzero, false)
    | (k, v) :: r => if eqb k key then (v, true) else chain_get key r
    end.
  Definition hget (key : Z) (s : hstate) : V * bool :=
    match tbl_get (code key) (tbl s) with
    | None => (vzero, false)
    | Some c => chain_get key c
    end.

  (* ---- Delete ---- *)
  (* the walk at positions num > 0: Some (chain with the node unlinked by
     `pre.next = root.next`, the node itself still holding its next) *)
  Fixpoint chain_unlink (key : Z) (c : chain) : option (chain * node) :=
    match c with
    | [] => None
    | (k, v) :: r =>
        if eqb k key then Some (r, {| nkey := k; nval := v; nnext := r |})
        else match chain_unlink key r with
             | Some (r', n) => Some ((k, v) :: r', n)
             | None => None
             end
    end.

  (* `fmt` is what is done to the node before pool.Put; the code uses `formatting` *)
  Definition hdelete_gen (fmt : node -> node) (key : Z) (s : hstate) : hstate * (V * bool) :=
    let h := code key in
    match tbl_get h (tbl s) with
    | None => (s, (vzero, false))
    | Some [] => (s, (vzero, false))
    | Some ((k, v) :: r) =>
        if eqb k key then
          (* num == 0 *)
          let n := {| nkey := k; nval := v; nnext := r |} in
          let t' := match r with
                    | [] => tbl_remove h (tbl s)          (* only node: delete(m.hashmap, code) *)
                    | _ :: _ => tbl_set h r (tbl s)       (* head with successor: m.hashmap[code] = root.next *)
                    end in
          ({| tbl := t'; pool := fmt n :: pool s; size := size s - 1 |}, (v, true))
        else
          match chain_unlink key r with
          | Some (r', n) =>                               (* interior: pre.next = root.next *)
              ({| tbl := tbl_set h ((k, v) :: r') (tbl s); pool := fmt n :: pool s; size := size s - 1 |},
               (nval n, true))
          | None => (s, (vzero, false))
          end
    end.
  Definition hdelete := hdelete_gen formatting.

  (* ---- Keys / Values / Len ---- *)
  (* bucket order = Go's map iteration order: unspecified, compared as a multiset *)
  Definition hflat (s : hstate) : list (Z * V) := flat_map snd (tbl s).
  Definition hkeys (s : hstate) : list Z := map fst (hflat s).
  Definition hvals (s : hstate) : list V := map snd (hflat s).
  Definition hlen (s : hstate) : Z := size s.
  (* Len of the pinned tree (before fix ace65f0): int64(len(m.hashmap)) *)
  Definition hlen_pinned (s : hstate) : Z := Z.of_nat (length (tbl s)).

  Definition hstep_gen (fmt : node -> node) (s : hstate) (o : mop V) : hstate * mout V :=
    match o with
    | MPut k v ch => let (s', r) := hput k v ch s in (s', RPut r)
    | MGet k => let (v, ok) := hget k s in (s, RFound v ok)
    | MDelete k => let '(s', (v, ok)) := hdelete_gen fmt k s in (s', RFound v ok)
    | MKeys => (s, RKeys (hkeys s))
    | MValues => (s, RVals (hvals s))
    | MLen => (s, RLen (hlen s))
    end.
  Definition hstep := hstep_gen formatting.

  (* HashMap as a `mapi` seen from LinkedMap / MultiMap *)
  Definition hash_backing : backing hstate V := {|
    mput := fun k u ch s => fst (hput k u ch s);
    mget := hget;
    mdel := hdelete;
    mkeys := hkeys;
    mvals := hvals;
    mlen := hlen;
  |}.

  (* ---- the invariant (DESIGN 12.2), executable so that the search layer can
     evaluate it on a bucket dump of the implementation ---- *)
  Definition chain_ok (h : Z) (c : chain) : bool :=
    match c with [] => false | _ => forallb (fun e => code (fst e) =? h) c end.
  Fixpoint nodup_codes (t : table) : bool :=
    match t with
    | [] => true
    | (h, _) :: r => forallb (fun e => negb (fst e =? h)) r && nodup_codes r
    end.
  Fixpoint distinctb (a : list (Z * V)) : bool :=
    match a with
    | [] => true
    | (k, _) :: t => forallb (fun e => negb (eqb k (fst e))) t && distinctb t
    end.
  (* the part of WF visible in a dump: (a) (b) (c) and size *)
  Definition dump_wfb (t : table) (sz : Z) : bool :=
    forallb (fun e => chain_ok (fst e) (snd e)) t && nodup_codes t &&
    distinctb (flat_map snd t) && (sz =? Z.of_nat (length (flat_map snd t))).
End HashModel.

Arguments nkey {V} _.
Arguments nval {V} _.
Arguments nnext {V} _.
Arguments tbl {V} _.
Arguments pool {V} _.
Arguments size {V} _.
Arguments hinit {V}.
Arguments tbl_get {V} h t.
Arguments tbl_set {V} h c t.
Arguments tbl_remove {V} h t.
Arguments fresh_node {V} vzero.
Arguments pool_get {V} vzero ch p.
Arguments new_node {V} vzero ch key val p.
Arguments chain_of_node {V} n.
Arguments formatting {V} vzero n.
Arguments chain_update {V} eqb key val c.
Arguments hput {V} vzero code eqb key val ch s.
Arguments chain_get {V} vzero eqb key c.
Arguments hget {V} vzero code eqb key s.
Arguments chain_unlink {V} eqb key c.
Arguments hdelete_gen {V} vzero code eqb fmt key s.
Arguments hdelete {V} vzero code eqb key s.
Arguments hflat {V} s.
Arguments hkeys {V} s.
Arguments hvals {V} s.
Arguments hlen {V} s.
Arguments hlen_pinned {V} s.
Arguments hstep_gen {V} vzero code eqb fmt s o.
Arguments hstep {V} vzero code eqb s o.
Arguments hash_backing {V} vzero code eqb.
Arguments chain_ok {V} code h c.
Arguments nodup_codes {V} t.
Arguments distinctb {V} eqb a.
Arguments dump_wfb {V} code eqb t sz.
