(* Executable model of /repo/internal/tree/red_black_tree.go (C01, C02).
   The Go code is iterative with parent pointers; this model expresses the SAME case analysis
   as structural recursion that hands a status to the caller (the loop variable x of
   fixAfterAdd / fixAfterDelete), one model function per Go function.  Its shape and colours
   are compared with the real tree after every operation by the correspondence check.
   Definitions only; proofs are in proof/RB*.v. *)
From Ekit Require Import Common.

Inductive color := Red | Black.
Inductive tree := E | T (c:color) (l:tree) (k v:Z) (r:tree).
Definition col t := match t with E => Black | T c _ _ _ _ => c end.
Definition setcol c t := match t with E => E | T _ l k v r => T c l k v r end.
Definition isred t := match col t with Red => true | Black => false end.
Definition left t := match t with E => E | T _ l _ _ _ => l end.
Definition right t := match t with E => E | T _ _ _ _ r => r end.

Definition rotL t := match t with
  | T c a k v (T c' b k' v' d) => T c' (T c a k v b) k' v' d
  | _ => t end.
Definition rotR t := match t with
  | T c (T c' a k' v' b) k v d => T c' a k' v' (T c b k v d)
  | _ => t end.

Inductive dir := L | R.
Inductive ist := Done | Dup | RedNode | Inf (d:dir).

(* grandparent-level fix: p (red, with red child on side d) is the LEFT child of g *)
Definition fix_add_left (gc:color) (p:tree) (gk gv:Z) (u:tree) (d:dir) : tree * ist :=
  if isred u then (T Red (setcol Black p) gk gv (setcol Black u), RedNode)   (* fixUncleRed *)
  else
    let p' := match d with R => rotL p | L => p end in                     (* fixAddLeftBlack *)
    (rotR (T Red (setcol Black p') gk gv u), Done).
Definition fix_add_right (gc:color) (u:tree) (gk gv:Z) (p:tree) (d:dir) : tree * ist :=
  if isred u then (T Red (setcol Black u) gk gv (setcol Black p), RedNode)
  else
    let p' := match d with L => rotR p | R => p end in                     (* fixAddRightBlack *)
    (rotL (T Red u gk gv (setcol Black p')), Done).

Section WithCmp.
  (* the user's comparator: cmp a b < 0 iff a sorts before b, 0 iff they are the same key *)
  Variable cmp : Z -> Z -> Z.

  Fixpoint ins (k v:Z) (t:tree) : tree * ist :=
    match t with
    | E => (T Red E k v E, RedNode)
    | T c l k' v' r =>
      if cmp k k' <? 0 then
        let '(l', st) := ins k v l in
        match st with
        | Done => (T c l' k' v' r, Done)
        | Dup => (t, Dup)
        | RedNode => match c with Red => (T c l' k' v' r, Inf L) | Black => (T c l' k' v' r, Done) end
        | Inf d => fix_add_left c l' k' v' r d
        end
      else if 0 <? cmp k k' then
        let '(r', st) := ins k v r in
        match st with
        | Done => (T c l k' v' r', Done)
        | Dup => (t, Dup)
        | RedNode => match c with Red => (T c l k' v' r', Inf R) | Black => (T c l k' v' r', Done) end
        | Inf d => fix_add_right c l k' v' r' d
        end
      else (t, Dup)
    end.
  Definition add k v t : option tree :=
    match ins k v t with (_, Dup) => None | (t', _) => Some (setcol Black t') end.

  (* ---- delete ---- *)
  (* x (deficient, black) is the LEFT child of p *)
  Definition fixL_black (pc:color) (x:tree) (pk pv:Z) (sib:tree) : tree * bool :=
    if negb (isred (left sib)) && negb (isred (right sib)) then
      (T pc x pk pv (setcol Red sib), true)
    else
      let sib1 := if negb (isred (right sib))
                  then rotR (match sib with E => E | T _ sl sk sv sr => T Red (setcol Black sl) sk sv sr end)
                  else sib in
      let sib2 := match sib1 with E => E | T _ sl sk sv sr => T pc sl sk sv (setcol Black sr) end in
      (rotL (T Black x pk pv sib2), false).
  Definition fixR_black (pc:color) (sib:tree) (pk pv:Z) (x:tree) : tree * bool :=
    if negb (isred (right sib)) && negb (isred (left sib)) then
      (T pc (setcol Red sib) pk pv x, true)
    else
      let sib1 := if negb (isred (left sib))
                  then rotL (match sib with E => E | T _ sl sk sv sr => T Red sl sk sv (setcol Black sr) end)
                  else sib in
      let sib2 := match sib1 with E => E | T _ sl sk sv sr => T pc (setcol Black sl) sk sv sr end in
      (rotR (T Black sib2 pk pv x), false).

  Definition resolve (p : tree * bool) : tree * bool :=
    let '(t, nf) := p in if nf && isred t then (setcol Black t, false) else p.

  Definition fixL (pc:color) (x:tree) (pk pv:Z) (sib:tree) : tree * bool :=
    match sib with
    | T Red sl sk sv sr =>
        (* sib black, parent red, rotateLeft(parent); new sibling = sl *)
        let '(p3, nf) := resolve (fixL_black Red x pk pv sl) in
        (T Black p3 sk sv sr, false)   (* nf is always false here on valid trees *)
    | _ => fixL_black pc x pk pv sib
    end.
  Definition fixR (pc:color) (sib:tree) (pk pv:Z) (x:tree) : tree * bool :=
    match sib with
    | T Red sl sk sv sr =>
        let '(p3, nf) := resolve (fixR_black Red sr pk pv x) in
        (T Black sl sk sv p3, false)
    | _ => fixR_black pc sib pk pv x
    end.

  (* after the child came back with a deficit flag *)
  Definition upL (c:color) (res:tree*bool) (k v:Z) (r:tree) : tree * bool :=
    let '(l', nf) := resolve res in if nf then fixL c l' k v r else (T c l' k v r, false).
  Definition upR (c:color) (l:tree) (k v:Z) (res:tree*bool) : tree * bool :=
    let '(r', nf) := resolve res in if nf then fixR c l k v r' else (T c l k v r', false).

  Definition remove_here (c:color) (l r:tree) : tree * bool :=   (* node with <= 1 child *)
    match l with
    | E => (r, match c with Black => true | Red => false end)
    | _ => (l, match c with Black => true | Red => false end)
    end.

  Fixpoint del_min (t:tree) : tree * (Z*Z) * bool :=
    match t with
    | E => (E, (0,0), false)
    | T c E k v r => let '(t', nf) := remove_here c E r in (t', (k,v), nf)
    | T c l k v r => let '(l', kv, nf) := del_min l in
                     let '(t', nf') := upL c (l', nf) k v r in (t', kv, nf')
    end.

  Fixpoint del (k:Z) (t:tree) : option (tree * Z * bool) :=
    match t with
    | E => None
    | T c l k' v' r =>
      if cmp k k' <? 0 then
        match del k l with None => None
        | Some (l', dv, nf) => let '(t', nf') := upL c (l', nf) k' v' r in Some (t', dv, nf') end
      else if 0 <? cmp k k' then
        match del k r with None => None
        | Some (r', dv, nf) => let '(t', nf') := upR c l k' v' (r', nf) in Some (t', dv, nf') end
      else
        match l, r with
        | T _ _ _ _ _, T _ _ _ _ _ =>
            let '(r', (sk, sv), nf) := del_min r in
            let '(t', nf') := upR c l sk sv (r', nf) in Some (t', v', nf')
        | _, _ => let '(t', nf) := remove_here c l r in Some (t', v', nf)
        end
    end.
  (* Go blackens the final x (root or a red node) only when fixAfterDelete ran; on valid
     trees the root is black anyway, so blackening a non-empty root is the same *)
  Definition delete k t : option (tree * Z) :=
    match del k t with None => None
    | Some (t', dv, nf) => Some (fst (resolve (t', nf)), dv) end.

  (* ---- observations ---- *)
  Fixpoint find (k : Z) (t : tree) : option Z :=
    match t with
    | E => None
    | T _ l k' v' r =>
      if cmp k k' <? 0 then find k l
      else if 0 <? cmp k k' then find k r
      else Some v'
    end.

  (* Set: replace the value of the node that compares equal; None when absent *)
  Fixpoint set (k v : Z) (t : tree) : option tree :=
    match t with
    | E => None
    | T c l k' v' r =>
      if cmp k k' <? 0 then
        match set k v l with Some l' => Some (T c l' k' v' r) | None => None end
      else if 0 <? cmp k k' then
        match set k v r with Some r' => Some (T c l k' v' r') | None => None end
      else Some (T c l k' v r)
    end.

  (* number of comparator calls findNode / the descent of addNode make for key k *)
  Fixpoint cmp_calls (k : Z) (t : tree) : nat :=
    match t with
    | E => O
    | T _ l k' _ r =>
      S (if cmp k k' <? 0 then cmp_calls k l
         else if 0 <? cmp k k' then cmp_calls k r
         else O)
    end.
End WithCmp.

Fixpoint inorder (t : tree) : list (Z * Z) :=
  match t with
  | E => []
  | T _ l k v r => inorder l ++ (k, v) :: inorder r
  end.
Fixpoint card (t : tree) : nat :=
  match t with E => O | T _ l _ _ r => S (card l + card r) end.
Fixpoint height (t : tree) : nat :=
  match t with E => O | T _ l _ _ r => S (Nat.max (height l) (height r)) end.

(* ---- the RBTree object: tree + the separately maintained size field ---- *)
Record rbtree := { root : tree; size : Z }.
Definition rb_empty : rbtree := {| root := E; size := 0 |}.

Inductive rb_op :=
| OAdd (k v : Z) | ODelete (k : Z) | OFind (k : Z) | OSet (k v : Z) | OKeyValues | OSize.
Inductive rb_out :=
| RUnit | RVal (v : Z) | RErr (e : eclass) | RAbsent | RKVs (kvs : list (Z * Z)) | RSize (n : Z).

Definition rb_step (cmp : Z -> Z -> Z) (s : rbtree) (o : rb_op) : rbtree * rb_out :=
  match o with
  | OAdd k v =>
    match add cmp k v (root s) with
    | Some t' => ({| root := t'; size := size s + 1 |}, RUnit)
    | None => (s, RErr EDuplicate)
    end
  | ODelete k =>
    match delete cmp k (root s) with
    | Some (t', v) => ({| root := t'; size := size s - 1 |}, RVal v)
    | None => (s, RAbsent)
    end
  | OFind k => (s, match find cmp k (root s) with Some v => RVal v | None => RErr EAbsent end)
  | OSet k v =>
    match set cmp k v (root s) with
    | Some t' => ({| root := t'; size := size s |}, RUnit)
    | None => (s, RErr EAbsent)
    end
  | OKeyValues => (s, RKVs (inorder (root s)))
  | OSize => (s, RSize (size s))
  end.

Fixpoint rb_run (cmp : Z -> Z -> Z) (s : rbtree) (ops : list rb_op) : list (rbtree * rb_out) :=
  match ops with
  | [] => []
  | o :: rest => let '(s', out) := rb_step cmp s o in (s', out) :: rb_run cmp s' rest
  end.
Definition rb_final (cmp : Z -> Z -> Z) (s : rbtree) (ops : list rb_op) : rbtree :=
  fold_left (fun st o => fst (rb_step cmp st o)) ops s.

(* concrete comparator families used by the correspondence check *)
Definition cmp_asc (a b : Z) : Z := Z.sgn (a - b).
Definition cmp_desc (a b : Z) : Z := Z.sgn (b - a).
Definition cmp_half (a b : Z) : Z := Z.sgn (a / 2 - b / 2).   (* distinct keys that compare equal *)
