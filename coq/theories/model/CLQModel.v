(* Statement-granular interleaving model of /repo/queue/concurrent_linked_queue.go (C06, C15).

   One model step = one Go statement of Enqueue / Dequeue (program counters = the instrumenter's
   labels, table in ocaml/drv_clq.ml).  Shared state = a heap of nodes (node i = its immutable
   value [q_vals] and its atomically accessed next field [q_nexts]) and the two atomic pointers
   head and tail.  Pointers are [option nat] (None = nil, Some i = address of node i), so a link
   to a wrong node, a nil head, a cycle ... are all expressible: nothing of the property is built
   into the state space.  `&node[T]{val: t}` allocates a fresh heap cell (thread-local until the
   link CAS publishes it).  Every nil dereference the Go code could perform is an explicit
   [QPanic] observation.

   Ghost part (does not influence any transition): [q_hist], the history of invocations,
   responses and MARKED linearisation steps (newest first).  Definitions only. *)
From Ekit Require Import Common Conc.
From Coq Require Import Arith PeanoNat.

Definition ptr := option nat.

Definition ptr_eqb (a b : ptr) : bool :=
  match a, b with
  | None, None => true
  | Some x, Some y => Nat.eqb x y
  | _, _ => false
  end.

Definition is_nil (a : ptr) : bool := match a with None => true | Some _ => false end.

Inductive clq_pc :=
(* Enqueue(t) *)
| EnqNewNode    (* newNode := &node[T]{val: t}                                  *)
| EnqNewPtr     (* newPtr := unsafe.Pointer(newNode)                            *)
| EnqFor        (* for                                                          *)
| EnqLoadTail   (*   tailPtr := atomic.LoadPointer(&c.tail)                     *)
| EnqTail       (*   tail := ( *node[T])(tailPtr)                               *)
| EnqLoadNext   (*   tailNext := atomic.LoadPointer(&tail.next)                 *)
| EnqIfNext     (*   if tailNext != nil                                         *)
| EnqContinue   (*     continue                                                 *)
| EnqLinkCAS    (*   if atomic.CompareAndSwapPointer(&tail.next, tailNext, newPtr) *)
| EnqTailCAS    (*     atomic.CompareAndSwapPointer(&c.tail, tailPtr, newPtr)   *)
| EnqRet        (*     return nil                                               *)
(* Dequeue() *)
| DeqFor        (* for                                                          *)
| DeqLoadHead   (*   headPtr := atomic.LoadPointer(&c.head)                     *)
| DeqHead       (*   head := ( *node[T])(headPtr)                               *)
| DeqLoadTail   (*   tailPtr := atomic.LoadPointer(&c.tail)                     *)
| DeqTail       (*   tail := ( *node[T])(tailPtr)                               *)
| DeqIfEq       (*   if head == tail                                            *)
| DeqRetEmpty   (*     return t, queue.ErrEmptyQueue                            *)
| DeqLoadNext   (*   headNextPtr := atomic.LoadPointer(&head.next)              *)
| DeqCASHead    (*   if atomic.CompareAndSwapPointer(&c.head, headPtr, headNextPtr) *)
| DeqHeadNext   (*     headNext := ( *node[T])(headNextPtr)                     *)
| DeqRetVal.    (*     return headNext.val, nil                                 *)

(* program counter + the local variables of one call (same names as in the Go source; Enqueue
   and Dequeue both have tailPtr and tail) *)
Record clq_loc := {
  q_pc : clq_pc;
  q_val : Z;               (* the argument t of Enqueue *)
  q_newNode : ptr;
  q_newPtr : ptr;
  q_tailPtr : ptr;
  q_tailL : ptr;           (* tail *)
  q_tailNext : ptr;
  q_headPtr : ptr;
  q_headL : ptr;           (* head *)
  q_headNextPtr : ptr;
  q_headNext : ptr
}.

Definition loc0 (p : clq_pc) (v : Z) : clq_loc :=
  {| q_pc := p; q_val := v; q_newNode := None; q_newPtr := None; q_tailPtr := None; q_tailL := None;
     q_tailNext := None; q_headPtr := None; q_headL := None; q_headNextPtr := None; q_headNext := None |}.

Definition set_pc (l : clq_loc) (p : clq_pc) : clq_loc :=
  {| q_pc := p; q_val := q_val l; q_newNode := q_newNode l; q_newPtr := q_newPtr l; q_tailPtr := q_tailPtr l;
     q_tailL := q_tailL l; q_tailNext := q_tailNext l; q_headPtr := q_headPtr l; q_headL := q_headL l;
     q_headNextPtr := q_headNextPtr l; q_headNext := q_headNext l |}.
Definition set_newNode (l : clq_loc) (x : ptr) (p : clq_pc) : clq_loc :=
  {| q_pc := p; q_val := q_val l; q_newNode := x; q_newPtr := q_newPtr l; q_tailPtr := q_tailPtr l;
     q_tailL := q_tailL l; q_tailNext := q_tailNext l; q_headPtr := q_headPtr l; q_headL := q_headL l;
     q_headNextPtr := q_headNextPtr l; q_headNext := q_headNext l |}.
Definition set_newPtr (l : clq_loc) (x : ptr) (p : clq_pc) : clq_loc :=
  {| q_pc := p; q_val := q_val l; q_newNode := q_newNode l; q_newPtr := x; q_tailPtr := q_tailPtr l;
     q_tailL := q_tailL l; q_tailNext := q_tailNext l; q_headPtr := q_headPtr l; q_headL := q_headL l;
     q_headNextPtr := q_headNextPtr l; q_headNext := q_headNext l |}.
Definition set_tailPtr (l : clq_loc) (x : ptr) (p : clq_pc) : clq_loc :=
  {| q_pc := p; q_val := q_val l; q_newNode := q_newNode l; q_newPtr := q_newPtr l; q_tailPtr := x;
     q_tailL := q_tailL l; q_tailNext := q_tailNext l; q_headPtr := q_headPtr l; q_headL := q_headL l;
     q_headNextPtr := q_headNextPtr l; q_headNext := q_headNext l |}.
Definition set_tailL (l : clq_loc) (x : ptr) (p : clq_pc) : clq_loc :=
  {| q_pc := p; q_val := q_val l; q_newNode := q_newNode l; q_newPtr := q_newPtr l; q_tailPtr := q_tailPtr l;
     q_tailL := x; q_tailNext := q_tailNext l; q_headPtr := q_headPtr l; q_headL := q_headL l;
     q_headNextPtr := q_headNextPtr l; q_headNext := q_headNext l |}.
Definition set_tailNext (l : clq_loc) (x : ptr) (p : clq_pc) : clq_loc :=
  {| q_pc := p; q_val := q_val l; q_newNode := q_newNode l; q_newPtr := q_newPtr l; q_tailPtr := q_tailPtr l;
     q_tailL := q_tailL l; q_tailNext := x; q_headPtr := q_headPtr l; q_headL := q_headL l;
     q_headNextPtr := q_headNextPtr l; q_headNext := q_headNext l |}.
Definition set_headPtr (l : clq_loc) (x : ptr) (p : clq_pc) : clq_loc :=
  {| q_pc := p; q_val := q_val l; q_newNode := q_newNode l; q_newPtr := q_newPtr l; q_tailPtr := q_tailPtr l;
     q_tailL := q_tailL l; q_tailNext := q_tailNext l; q_headPtr := x; q_headL := q_headL l;
     q_headNextPtr := q_headNextPtr l; q_headNext := q_headNext l |}.
Definition set_headL (l : clq_loc) (x : ptr) (p : clq_pc) : clq_loc :=
  {| q_pc := p; q_val := q_val l; q_newNode := q_newNode l; q_newPtr := q_newPtr l; q_tailPtr := q_tailPtr l;
     q_tailL := q_tailL l; q_tailNext := q_tailNext l; q_headPtr := q_headPtr l; q_headL := x;
     q_headNextPtr := q_headNextPtr l; q_headNext := q_headNext l |}.
Definition set_headNextPtr (l : clq_loc) (x : ptr) (p : clq_pc) : clq_loc :=
  {| q_pc := p; q_val := q_val l; q_newNode := q_newNode l; q_newPtr := q_newPtr l; q_tailPtr := q_tailPtr l;
     q_tailL := q_tailL l; q_tailNext := q_tailNext l; q_headPtr := q_headPtr l; q_headL := q_headL l;
     q_headNextPtr := x; q_headNext := q_headNext l |}.
Definition set_headNext (l : clq_loc) (x : ptr) (p : clq_pc) : clq_loc :=
  {| q_pc := p; q_val := q_val l; q_newNode := q_newNode l; q_newPtr := q_newPtr l; q_tailPtr := q_tailPtr l;
     q_tailL := q_tailL l; q_tailNext := q_tailNext l; q_headPtr := q_headPtr l; q_headL := q_headL l;
     q_headNextPtr := q_headNextPtr l; q_headNext := x |}.

(* ---------- the sequential specification and the (ghost) history ---------- *)
Inductive clq_op := OpEnq (v : Z) | OpDeq.
Inductive clq_res := REnq (* nil *) | RDeq (o : option Z) (* Some v = (v, nil); None = (zero, ErrEmptyQueue) *).

Definition fifo_spec (o : clq_op) (q : list Z) : list Z * clq_res :=
  match o with
  | OpEnq v => (q ++ [v], REnq)
  | OpDeq => match q with
             | [] => ([], RDeq None)
             | x :: r => (r, RDeq (Some x))
             end
  end.

Inductive clq_hev :=
| HCall (t : tid) (o : clq_op)                   (* invocation *)
| HLin (t : tid) (o : clq_op) (r : clq_res)      (* marked linearisation step of t's current call *)
| HRet (t : tid) (r : clq_res).                  (* response *)

(* ---------- configurations ---------- *)
Record clq_cfg := {
  q_vals : list Z;               (* node i .val  (written once, at allocation) *)
  q_nexts : list ptr;            (* node i .next (atomic) *)
  q_head : ptr;                  (* c.head (atomic) *)
  q_tail : ptr;                  (* c.tail (atomic) *)
  q_thr : list (tid * clq_loc);  (* calls in flight *)
  q_hist : list clq_hev          (* ghost: history, NEWEST FIRST *)
}.

(* NewConcurrentLinkedQueue: one dummy node (zero value), head = tail = &dummy *)
Definition clq_init : clq_cfg :=
  {| q_vals := [0]; q_nexts := [None]; q_head := Some O; q_tail := Some O; q_thr := []; q_hist := [] |}.

(* p.next / p.val ; the outer None = nil (or wild) pointer dereference *)
Definition node_next (nexts : list ptr) (p : ptr) : option ptr :=
  match p with None => None | Some x => nth_error nexts x end.
Definition node_val (vals : list Z) (p : ptr) : option Z :=
  match p with None => None | Some x => nth_error vals x end.

Inductive clq_ev :=
| QCallEnq (t : tid) (v : Z)
| QCallDeq (t : tid)
| QStep (t : tid).

Inductive clq_obs :=
| QAt (p : clq_pc)       (* the goroutine arrives at its next yield point *)
| QRet (r : clq_res)     (* the call returns *)
| QPanic.                (* nil pointer dereference *)

Definition upd_thr (c : clq_cfg) (thr : list (tid * clq_loc)) : clq_cfg :=
  {| q_vals := q_vals c; q_nexts := q_nexts c; q_head := q_head c; q_tail := q_tail c;
     q_thr := thr; q_hist := q_hist c |}.

(* thread t moves to l (purely local statement, or a load) *)
Definition goto (c : clq_cfg) (t : tid) (l : clq_loc) : option (clq_cfg * clq_obs) :=
  Some (upd_thr c (update t l (q_thr c)), QAt (q_pc l)).

Definition panic (c : clq_cfg) (t : tid) : option (clq_cfg * clq_obs) :=
  Some (upd_thr c (remove t (q_thr c)), QPanic).

Definition ret (c : clq_cfg) (t : tid) (r : clq_res) : option (clq_cfg * clq_obs) :=
  Some ({| q_vals := q_vals c; q_nexts := q_nexts c; q_head := q_head c; q_tail := q_tail c;
           q_thr := remove t (q_thr c); q_hist := HRet t r :: q_hist c |}, QRet r).

Definition clq_exec1 (c : clq_cfg) (e : clq_ev) : option (clq_cfg * clq_obs) :=
  match e with
  | QCallEnq t v =>
    match lookup t (q_thr c) with
    | Some _ => None
    | None => Some ({| q_vals := q_vals c; q_nexts := q_nexts c; q_head := q_head c; q_tail := q_tail c;
                       q_thr := spawn t (loc0 EnqNewNode v) (q_thr c);
                       q_hist := HCall t (OpEnq v) :: q_hist c |}, QAt EnqNewNode)
    end
  | QCallDeq t =>
    match lookup t (q_thr c) with
    | Some _ => None
    | None => Some ({| q_vals := q_vals c; q_nexts := q_nexts c; q_head := q_head c; q_tail := q_tail c;
                       q_thr := spawn t (loc0 DeqFor 0) (q_thr c);
                       q_hist := HCall t OpDeq :: q_hist c |}, QAt DeqFor)
    end
  | QStep t =>
    match lookup t (q_thr c) with
    | None => None
    | Some l =>
      match q_pc l with
      (* ---- Enqueue ---- *)
      | EnqNewNode =>
        (* allocation of a fresh node {val: t, next: nil} *)
        let l' := set_newNode l (Some (length (q_vals c))) EnqNewPtr in
        Some ({| q_vals := q_vals c ++ [q_val l]; q_nexts := q_nexts c ++ [None];
                 q_head := q_head c; q_tail := q_tail c;
                 q_thr := update t l' (q_thr c); q_hist := q_hist c |}, QAt EnqNewPtr)
      | EnqNewPtr => goto c t (set_newPtr l (q_newNode l) EnqFor)
      | EnqFor => goto c t (set_pc l EnqLoadTail)
      | EnqLoadTail => goto c t (set_tailPtr l (q_tail c) EnqTail)
      | EnqTail => goto c t (set_tailL l (q_tailPtr l) EnqLoadNext)
      | EnqLoadNext =>
        match node_next (q_nexts c) (q_tailL l) with
        | None => panic c t
        | Some nx => goto c t (set_tailNext l nx EnqIfNext)
        end
      | EnqIfNext =>
        if is_nil (q_tailNext l) then goto c t (set_pc l EnqLinkCAS) else goto c t (set_pc l EnqContinue)
      | EnqContinue => goto c t (set_pc l EnqLoadTail)
      | EnqLinkCAS =>
        match q_tailL l, node_next (q_nexts c) (q_tailL l) with
        | Some x, Some cur =>
          if ptr_eqb cur (q_tailNext l) then
            Some ({| q_vals := q_vals c; q_nexts := set_nth (q_nexts c) x (q_newPtr l);
                     q_head := q_head c; q_tail := q_tail c;
                     q_thr := update t (set_pc l EnqTailCAS) (q_thr c); q_hist := q_hist c |}, QAt EnqTailCAS)
          else goto c t (set_pc l EnqLoadTail)
        | _, _ => panic c t
        end
      | EnqTailCAS =>
        if ptr_eqb (q_tail c) (q_tailPtr l) then
          (* the tail swing: MARKED linearisation step of Enqueue *)
          Some ({| q_vals := q_vals c; q_nexts := q_nexts c; q_head := q_head c; q_tail := q_newPtr l;
                   q_thr := update t (set_pc l EnqRet) (q_thr c);
                   q_hist := HLin t (OpEnq (q_val l)) REnq :: q_hist c |}, QAt EnqRet)
        else goto c t (set_pc l EnqRet)
      | EnqRet => ret c t REnq
      (* ---- Dequeue ---- *)
      | DeqFor => goto c t (set_pc l DeqLoadHead)
      | DeqLoadHead => goto c t (set_headPtr l (q_head c) DeqHead)
      | DeqHead => goto c t (set_headL l (q_headPtr l) DeqLoadTail)
      | DeqLoadTail =>
        let l' := set_tailPtr l (q_tail c) DeqTail in
        if ptr_eqb (q_headL l) (q_tail c) then
          (* the tail load that equals the loaded head: MARKED linearisation step of an empty Dequeue *)
          Some ({| q_vals := q_vals c; q_nexts := q_nexts c; q_head := q_head c; q_tail := q_tail c;
                   q_thr := update t l' (q_thr c);
                   q_hist := HLin t OpDeq (RDeq None) :: q_hist c |}, QAt DeqTail)
        else goto c t l'
      | DeqTail => goto c t (set_tailL l (q_tailPtr l) DeqIfEq)
      | DeqIfEq =>
        if ptr_eqb (q_headL l) (q_tailL l) then goto c t (set_pc l DeqRetEmpty) else goto c t (set_pc l DeqLoadNext)
      | DeqRetEmpty => ret c t (RDeq None)
      | DeqLoadNext =>
        match node_next (q_nexts c) (q_headL l) with
        | None => panic c t
        | Some nx => goto c t (set_headNextPtr l nx DeqCASHead)
        end
      | DeqCASHead =>
        if ptr_eqb (q_head c) (q_headPtr l) then
          (* the successful head CAS: MARKED linearisation step of a successful Dequeue *)
          Some ({| q_vals := q_vals c; q_nexts := q_nexts c; q_head := q_headNextPtr l; q_tail := q_tail c;
                   q_thr := update t (set_pc l DeqHeadNext) (q_thr c);
                   q_hist := match node_val (q_vals c) (q_headNextPtr l) with
                             | Some v => HLin t OpDeq (RDeq (Some v)) :: q_hist c
                             | None => q_hist c
                             end |}, QAt DeqHeadNext)
        else goto c t (set_pc l DeqLoadHead)
      | DeqHeadNext => goto c t (set_headNext l (q_headNextPtr l) DeqRetVal)
      | DeqRetVal =>
        match node_val (q_vals c) (q_headNext l) with
        | None => panic c t
        | Some v => ret c t (RDeq (Some v))
        end
      end
    end
  end.

Definition clq_step (c : clq_cfg) (e : clq_ev) : option clq_cfg :=
  match clq_exec1 c e with Some (c', _) => Some c' | None => None end.

(* ---------- the abstraction function: a function of the real shared state only ----------
   values of the nodes strictly after head up to and including tail, following the next
   pointers (stops at nil / wild pointers / after |heap| steps) *)
Fixpoint walk (fuel : nat) (vals : list Z) (nexts : list ptr) (cur tl : ptr) : list Z :=
  match fuel with
  | O => []
  | S f =>
    if ptr_eqb cur tl then []
    else match node_next nexts cur with
         | Some (Some nx) =>
           match nth_error vals nx with
           | Some v => v :: walk f vals nexts (Some nx) tl
           | None => []
           end
         | _ => []
         end
  end.

Definition clq_abs (c : clq_cfg) : list Z :=
  walk (length (q_nexts c)) (q_vals c) (q_nexts c) (q_head c) (q_tail c).

(* ---------- reading the history (lists are newest first; the recursion runs oldest first) ---------- *)
Definition op_eqb (a b : clq_op) : bool :=
  match a, b with
  | OpEnq x, OpEnq y => Z.eqb x y
  | OpDeq, OpDeq => true
  | _, _ => false
  end.
Definition res_eqb (a b : clq_res) : bool :=
  match a, b with
  | REnq, REnq => true
  | RDeq None, RDeq None => true
  | RDeq (Some x), RDeq (Some y) => Z.eqb x y
  | _, _ => false
  end.

(* the marked steps, in order, replayed through the sequential FIFO specification from the empty
   queue: Some q = every marked step carries the specification's result, q = final abstract queue *)
Fixpoint lin_run (h : list clq_hev) : option (list Z) :=
  match h with
  | [] => Some []
  | e :: h' =>
    match lin_run h' with
    | None => None
    | Some q =>
      match e with
      | HLin _ o r => let (q', r') := fifo_spec o q in if res_eqb r r' then Some q' else None
      | _ => Some q
      end
    end
  end.

(* where thread t stands in its sequence  (Call . Lin . Ret)*  *)
Inductive clq_phase := PIdle | PCalled (o : clq_op) | PLin (o : clq_op) (r : clq_res).

Definition hev_tid (e : clq_hev) : tid :=
  match e with HCall t _ | HLin t _ _ | HRet t _ => t end.

Definition advance (p : clq_phase) (e : clq_hev) : option clq_phase :=
  match p, e with
  | PIdle, HCall _ o => Some (PCalled o)
  | PCalled o, HLin _ o' r => if op_eqb o o' then Some (PLin o r) else None
  | PLin _ r, HRet _ r' => if res_eqb r r' then Some PIdle else None
  | _, _ => None
  end.

(* None = the projection of h on t is NOT a prefix of (Call o . Lin o r . Ret r)* *)
Fixpoint phase (t : tid) (h : list clq_hev) : option clq_phase :=
  match h with
  | [] => Some PIdle
  | e :: h' =>
    match phase t h' with
    | None => None
    | Some p => if Nat.eqb (hev_tid e) t then advance p e else Some p
    end
  end.

(* executable summary used by the lock-step driver's final check (a test, not the proof) *)
Definition clq_hist_ok (c : clq_cfg) : bool :=
  match lin_run (q_hist c) with
  | None => false
  | Some q =>
    (if list_eq_dec Z.eq_dec q (clq_abs c) then true else false)
    && forallb (fun e => match phase (hev_tid e) (q_hist c) with Some _ => true | None => false end) (q_hist c)
  end.
