(* SliceMemModel, third part: mapx.KeysValues at header level (two result slices growing in step). *)
From Ekit Require Import Common SliceModel SliceMemModel SliceMemModel2.

Section Mem3.
  Variable extra : nat -> nat.
  (* for k := range m { keys = append(keys, k); values = append(values, m[k]) } *)
  Fixpoint kv_loop (st : store) (ks vs : hdr) (m : gmap) (l : list (Z * Z)) : store * hdr * hdr :=
    match l with
    | [] => (st, ks, vs)
    | kv :: t =>
        let r1 := append extra st (Some ks) (fst kv) in
        let r2 := append extra (fst r1) (Some vs) (map_lookup0 m (fst kv)) in
        kv_loop (fst r2) (snd r1) (snd r2) m t
    end.
  (* keys := make([]K, 0, len(m)); values := make([]V, 0, len(m)) *)
  Definition keys_values_m (st : store) (m : gmap) : store * mslice * mslice :=
    let mk1 := make st 0 (length m) in
    let mk2 := make (fst mk1) 0 (length m) in
    let r := kv_loop (fst mk2) (snd mk1) (snd mk2) m m in
    (fst (fst r), Some (snd (fst r)), Some (snd r)).
End Mem3.

(* memory-level call of the correspondence check *)
Definition mem_run3 (off spare : nat) (c : call) : option mobs :=
  match c with
  | CKeysValues m => let r := keys_values_m growth [] (gmap_of m) in Some (0%nat, [snd (fst r); snd r], fst (fst r))
  | _ => mem_run off spare c
  end.
