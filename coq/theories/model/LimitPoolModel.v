(* Statement-granular interleaving model of /repo/syncx/limit_pool.go (C14, C15).
   One model step = one Go statement of Get/Put; the only shared accesses are the two
   atomic adds on the int64 token counter (atomic.Int64 since the fix: commit; it was an int32 truncating maxTokens >= 2^31).  Definitions only. *)
From Ekit Require Import Common Conc.

(* program counters = the statements of Get and Put (labels in ocaml/drv_limitpool.ml) *)
Inductive lp_pc :=
| GetDec      (* if l.tokens.Add(-1) < 0        *)
| GetComp     (*     l.tokens.Add(1)            *)
| GetRetF     (*     return zero, false         *)
| GetRetT     (* return l.pool.Get(), true      *)
| PutPool     (* l.pool.Put(t)                  *)
| PutAdd.     (* l.tokens.Add(1)                *)

Definition lp_pc_eqb (a b : lp_pc) : bool :=
  match a, b with
  | GetDec, GetDec | GetComp, GetComp | GetRetF, GetRetF | GetRetT, GetRetT
  | PutPool, PutPool | PutAdd, PutAdd => true
  | _, _ => false
  end.

Record lp_cfg := {
  lp_max : Z;                       (* maxTokens given to the constructor *)
  lp_tokens : Z;                    (* the int64 counter *)
  lp_thr : list (tid * lp_pc);      (* calls in flight *)
  lp_held : Z                       (* objects the client holds: Gets that RETURNED true minus Puts STARTED *)
}.

(* NewLimitPool(maxTokens): tokens.Add(int64(maxTokens)); maxTokens is a 64-bit int *)
Definition lp_init (maxTokens : Z) : lp_cfg :=
  {| lp_max := maxTokens; lp_tokens := wrap_s 64 maxTokens; lp_thr := []; lp_held := 0 |}.

Inductive lp_ev :=
| LCallGet (t : tid)
| LCallPut (t : tid)      (* the client gives back an object it holds *)
| LStep (t : tid).

Inductive lp_obs :=
| LAt (p : lp_pc)
| LRetGet (ok : bool)
| LRetPut.

Definition add64 (x d : Z) : Z := wrap_s 64 (x + d).

(* the pinned code kept the counter in 32 bits *)
Definition lp_init_pinned32 (maxTokens : Z) : Z := wrap_s 32 maxTokens.

Definition lp_exec1 (c : lp_cfg) (e : lp_ev) : option (lp_cfg * lp_obs) :=
  match e with
  | LCallGet t =>
    match lookup t (lp_thr c) with
    | Some _ => None
    | None => Some ({| lp_max := lp_max c; lp_tokens := lp_tokens c;
                       lp_thr := spawn t GetDec (lp_thr c); lp_held := lp_held c |}, LAt GetDec)
    end
  | LCallPut t =>
    match lookup t (lp_thr c) with
    | Some _ => None
    | None =>
      if 0 <? lp_held c then
        Some ({| lp_max := lp_max c; lp_tokens := lp_tokens c;
                 lp_thr := spawn t PutPool (lp_thr c); lp_held := lp_held c - 1 |}, LAt PutPool)
      else None
    end
  | LStep t =>
    match lookup t (lp_thr c) with
    | None => None
    | Some GetDec =>
      let tk := add64 (lp_tokens c) (-1) in
      let p' := if tk <? 0 then GetComp else GetRetT in
      Some ({| lp_max := lp_max c; lp_tokens := tk;
               lp_thr := update t p' (lp_thr c); lp_held := lp_held c |}, LAt p')
    | Some GetComp =>
      Some ({| lp_max := lp_max c; lp_tokens := add64 (lp_tokens c) 1;
               lp_thr := update t GetRetF (lp_thr c); lp_held := lp_held c |}, LAt GetRetF)
    | Some GetRetF =>
      Some ({| lp_max := lp_max c; lp_tokens := lp_tokens c;
               lp_thr := remove t (lp_thr c); lp_held := lp_held c |}, LRetGet false)
    | Some GetRetT =>
      Some ({| lp_max := lp_max c; lp_tokens := lp_tokens c;
               lp_thr := remove t (lp_thr c); lp_held := lp_held c + 1 |}, LRetGet true)
    | Some PutPool =>
      Some ({| lp_max := lp_max c; lp_tokens := lp_tokens c;
               lp_thr := update t PutAdd (lp_thr c); lp_held := lp_held c |}, LAt PutAdd)
    | Some PutAdd =>
      Some ({| lp_max := lp_max c; lp_tokens := add64 (lp_tokens c) 1;
               lp_thr := remove t (lp_thr c); lp_held := lp_held c |}, LRetPut)
    end
  end.

Definition lp_step (c : lp_cfg) (e : lp_ev) : option lp_cfg :=
  match lp_exec1 c e with Some (c', _) => Some c' | None => None end.

(* successful Gets outstanding: decremented-and-succeeded, not yet given back *)
Definition is_pc (p : lp_pc) : lp_pc -> bool := lp_pc_eqb p.
Definition lp_outstanding (c : lp_cfg) : Z :=
  count (is_pc GetRetT) (lp_thr c) + lp_held c
  + count (is_pc PutPool) (lp_thr c) + count (is_pc PutAdd) (lp_thr c).

(* a whole Get executed alone (no interleaving): the sequential behaviour *)
Definition lp_get_alone (c : lp_cfg) (t : tid) : option (lp_cfg * bool) :=
  match lp_step c (LCallGet t) with
  | None => None
  | Some c1 =>
    match lp_exec1 c1 (LStep t) with
    | Some (c2, LAt GetRetT) =>
      match lp_step c2 (LStep t) with Some c3 => Some (c3, true) | None => None end
    | Some (c2, LAt GetComp) =>
      match lp_step c2 (LStep t) with
      | Some c3 => match lp_step c3 (LStep t) with Some c4 => Some (c4, false) | None => None end
      | None => None
      end
    | _ => None
    end
  end.
